#!/usr/bin/env python3
"""Builds every harness bin named by the vlib/p_*.py modules (debug + release), grouped by feature set."""
import glob, importlib, os, sys
here = os.path.dirname(os.path.abspath(__file__))
sys.path.insert(0, here)
from vlib import common as C
groups = {}
for f in sorted(glob.glob(os.path.join(here, "vlib", "p_c*.py"))):
    m = importlib.import_module("vlib." + os.path.basename(f)[:-3])
    if getattr(m, "RUNNER", None) == "custom" or hasattr(m, "PARTS"):
        continue
    key = tuple(getattr(m, "FEATURES", None) or [])
    for b in getattr(m, "BINS", [m.BIN]):
        if os.path.exists(os.path.join(here, "harness", "src", "bin", b + ".rs")):
            groups.setdefault(key, set()).add(b)
ok = True
for feats, bins in groups.items():
    r, log = C.cargo_build(sorted(bins), list(feats) or None)
    print("harness", sorted(bins), list(feats), "ok" if r else "FAILED")
    if not r:
        ok = False
        print(log[-2000:])
sys.exit(0 if ok else 1)
