(* Properties/C07.v — Integer conversions accept exactly the representable range, preserving
   value.  Only pinned statements, `exact`, and Print Assumptions live here. *)
From Coq Require Import ZArith List Bool.
From RV.Model Require Import Base Word Conv.
From RV.Run Require Import RunC07.
From RV.Proofs Require PfConv PfC07.
Local Open Scope Z_scope.

(* For every width >= 0, each of the 13 primitive types and every in-range source value, every
   canonical Uint operand, every source/target width pair and every limb slice (any length),
   every conversion entry point of the model returns exactly what the integer specification
   RunC07.spec prescribes: Ok v iff 0 <= v < 2^BITS resp. v <= T::MAX; ValueNegative /
   ValueTooLarge / Overflow with BITS and the wrapped payload otherwise; wrapping, saturating,
   panicking and Option forms accordingly. *)
Theorem C07_holds : forall c : call, wf c -> spec c (run c) = true.
Proof. exact PfC07.C07_all. Qed.
Check C07_holds : forall c : call, wf c -> spec c (run c) = true.
Print Assumptions C07_holds.

(* primitive -> Uint: variant and payload, for any (width, signedness) with width <= 64 or 128 *)
Theorem C07_try_from_prim : forall bits p x,
  0 <= bits -> 1 <= pw p -> (pw p <= 64 \/ pw p = 128) -> prim_min p <= x <= prim_max p ->
  Conv.try_from_prim bits p x =
  Val (if x <? 0 then RNegative bits (uint_of bits ((x mod 2 ^ pw p) mod 2 ^ bits))
       else if x <? 2 ^ bits then ROk (uint_of bits x)
       else RTooLarge bits (uint_of bits (x mod 2 ^ bits))).
Proof. exact PfConv.try_from_prim_spec. Qed.
Check C07_try_from_prim : forall bits p x,
  0 <= bits -> 1 <= pw p -> (pw p <= 64 \/ pw p = 128) -> prim_min p <= x <= prim_max p ->
  Conv.try_from_prim bits p x =
  Val (if x <? 0 then RNegative bits (uint_of bits ((x mod 2 ^ pw p) mod 2 ^ bits))
       else if x <? 2 ^ bits then ROk (uint_of bits x)
       else RTooLarge bits (uint_of bits (x mod 2 ^ bits))).
Print Assumptions C07_try_from_prim.

(* negative sources wrap to x mod 2^BITS whenever BITS does not exceed the source width *)
Theorem C07_negative_wraps : forall bits p x,
  0 <= bits <= pw p -> (pw p <= 64 \/ pw p = 128) -> psigned p = true -> 1 <= pw p ->
  prim_min p <= x < 0 ->
  Conv.try_from_prim bits p x = Val (RNegative bits (uint_of bits (x mod 2 ^ bits))).
Proof. exact PfC07.try_from_negative_wraps. Qed.
Check C07_negative_wraps : forall bits p x,
  0 <= bits <= pw p -> (pw p <= 64 \/ pw p = 128) -> psigned p = true -> 1 <= pw p ->
  prim_min p <= x < 0 ->
  Conv.try_from_prim bits p x = Val (RNegative bits (uint_of bits (x mod 2 ^ bits))).
Print Assumptions C07_negative_wraps.

(* limb slices of any length (hence Uint -> Uint of any width pair): truncation and flag *)
Theorem C07_overflowing_from_limbs_slice : forall bits s,
  0 <= bits -> Forall inW s ->
  Conv.overflowing_from_limbs_slice bits s =
  Val (uint_of bits (eval s mod 2 ^ bits), 2 ^ bits <=? eval s).
Proof. exact PfConv.overflowing_from_limbs_slice_spec. Qed.
Check C07_overflowing_from_limbs_slice : forall bits s,
  0 <= bits -> Forall inW s ->
  Conv.overflowing_from_limbs_slice bits s =
  Val (uint_of bits (eval s mod 2 ^ bits), 2 ^ bits <=? eval s).
Print Assumptions C07_overflowing_from_limbs_slice.

(* Uint -> primitive integer: fits iff value <= T::MAX; payload = the cast of the value *)
Theorem C07_try_to_prim : forall bits p l,
  0 <= bits -> canon bits l -> 1 <= pw p -> (pw p <= 64 \/ pw p = 128) ->
  Conv.try_to_prim bits p l =
  Val (if eval l <=? prim_max p then FOk (eval l)
       else FOverflow bits (cast p (eval l)) (prim_max p)).
Proof. exact PfConv.try_to_prim_spec. Qed.
Check C07_try_to_prim : forall bits p l,
  0 <= bits -> canon bits l -> 1 <= pw p -> (pw p <= 64 \/ pw p = 128) ->
  Conv.try_to_prim bits p l =
  Val (if eval l <=? prim_max p then FOk (eval l)
       else FOverflow bits (cast p (eval l)) (prim_max p)).
Print Assumptions C07_try_to_prim.

Theorem C07_try_to_bool : forall bits l,
  0 <= bits -> canon bits l ->
  Conv.try_to_bool bits l =
  Val (if eval l <=? 1 then FOk (negb (eval l =? 0)) else FOverflow bits (Z.odd (eval l)) true).
Proof. exact PfConv.try_to_bool_spec. Qed.
Check C07_try_to_bool : forall bits l,
  0 <= bits -> canon bits l ->
  Conv.try_to_bool bits l =
  Val (if eval l <=? 1 then FOk (negb (eval l =? 0)) else FOverflow bits (Z.odd (eval l)) true).
Print Assumptions C07_try_to_bool.

(* Non-vacuity: the F4 regression input U65::try_from(3*2^64+5 : u128) is a wf call and carries
   payload 2^64+5; a negative i8 into U256 carries x mod 2^8. *)
Example C07_nonvacuous :
  wfb (pf_try_from 65 5 0x30000000000000005) = true /\
  run (pf_try_from 65 5 0x30000000000000005) = Val [TErr 1; TZ 65; TL [5; 1]] /\
  run (pf_try_from 256 7 (-1)) = Val [TErr 2; TZ 256; TL [255; 0; 0; 0]] /\
  run (pt_wrapping_to 65 7 [255; 1]) = Val [TZ (-1)].
Proof. repeat split; vm_compute; reflexivity. Qed.
