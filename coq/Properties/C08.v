(* Properties/C08.v — Byte encodings are positional, round-trip, and range-check without panicking.
   Only pinned statements, `exact`, and Print Assumptions live here. *)
From Coq Require Import ZArith List Bool.
From RV.Model Require Import Base Word Bytes.
From RV.Run Require Import RunC08.
From RV.Proofs Require PfBytes PfC08.
Import ListNotations.
Local Open Scope Z_scope.

(* For every width >= 0, every canonical value, every byte string and every buffer, each entry
   point of src/bytes.rs (model Bytes.v) returns exactly what the positional specification
   RunC08.spec prescribes: the base-256 digits of the value in the stated order and length,
   decoders return Some(v) iff the slice has at most BYTES bytes and denotes v < 2^BITS and None
   otherwise (never Panic / DebugPanic / OutOfFuel), from_*_slice panic exactly then, the checked
   copies leave a short buffer untouched, and decode(encode(a)) = a. *)
Theorem C08_holds : forall c : call, wf c -> spec c (run c) = true.
Proof. exact PfC08.C08_all. Qed.
Check C08_holds : forall c : call, wf c -> spec c (run c) = true.
Print Assumptions C08_holds.

(* The decoders, Prop level: total (always Val), Some exactly on short-enough in-range input. *)
Theorem C08_try_from_be_slice : forall bits bs,
  0 <= bits -> Forall isbyte bs ->
  Bytes.try_from_be_slice bits bs =
    Val (if (lenZ bs <=? Bytes.nbytes bits) && (le_value (rev bs) <? 2 ^ bits)
         then Some (uint_of bits (le_value (rev bs))) else None).
Proof. exact PfBytes.try_from_be_slice_spec. Qed.
Check C08_try_from_be_slice : forall bits bs,
  0 <= bits -> Forall isbyte bs ->
  Bytes.try_from_be_slice bits bs =
    Val (if (lenZ bs <=? Bytes.nbytes bits) && (le_value (rev bs) <? 2 ^ bits)
         then Some (uint_of bits (le_value (rev bs))) else None).
Print Assumptions C08_try_from_be_slice.

Theorem C08_try_from_le_slice : forall bits bs,
  0 <= bits -> Forall isbyte bs ->
  Bytes.try_from_le_slice bits bs =
    Val (if (lenZ bs <=? Bytes.nbytes bits) && (le_value bs <? 2 ^ bits)
         then Some (uint_of bits (le_value bs)) else None).
Proof. exact PfBytes.try_from_le_slice_spec. Qed.
Check C08_try_from_le_slice : forall bits bs,
  0 <= bits -> Forall isbyte bs ->
  Bytes.try_from_le_slice bits bs =
    Val (if (lenZ bs <=? Bytes.nbytes bits) && (le_value bs <? 2 ^ bits)
         then Some (uint_of bits (le_value bs)) else None).
Print Assumptions C08_try_from_le_slice.

(* The encoders: BYTES base-256 digits, little endian; big endian is the reversal;
   the trimmed forms have the minimal length. *)
Theorem C08_as_le_slice : forall bits a,
  0 <= bits -> canon bits a ->
  Bytes.as_le_slice bits a = le_digits (nbytesN bits) (eval a).
Proof. exact PfBytes.as_le_slice_spec. Qed.
Check C08_as_le_slice : forall bits a,
  0 <= bits -> canon bits a ->
  Bytes.as_le_slice bits a = le_digits (nbytesN bits) (eval a).
Print Assumptions C08_as_le_slice.

Theorem C08_to_be_bytes : forall bits N a,
  0 <= bits -> canon bits a ->
  Bytes.to_be_bytes bits N a =
    if N =? Bytes.nbytes bits then Val (rev (le_digits (nbytesN bits) (eval a))) else Panic.
Proof. exact PfBytes.to_be_bytes_spec. Qed.
Check C08_to_be_bytes : forall bits N a,
  0 <= bits -> canon bits a ->
  Bytes.to_be_bytes bits N a =
    if N =? Bytes.nbytes bits then Val (rev (le_digits (nbytesN bits) (eval a))) else Panic.
Print Assumptions C08_to_be_bytes.

Theorem C08_as_le_bytes_trimmed : forall bits a,
  0 <= bits -> canon bits a ->
  Bytes.as_le_bytes_trimmed bits a
  = Val (le_digits (Z.to_nat (PfBytes.bytelen (eval a))) (eval a)).
Proof. exact PfBytes.as_le_bytes_trimmed_spec. Qed.
Check C08_as_le_bytes_trimmed : forall bits a,
  0 <= bits -> canon bits a ->
  Bytes.as_le_bytes_trimmed bits a
  = Val (le_digits (Z.to_nat (PfBytes.bytelen (eval a))) (eval a)).
Print Assumptions C08_as_le_bytes_trimmed.

(* le_digits / le_value are positional notation: digit i is (v / 256^i) mod 256, and the value
   of the n digits is v mod 256^n. *)
Theorem C08_digits_positional : forall v n,
  le_digits (Z.to_nat n) v = map (fun i => (v / 256 ^ Z.of_nat i) mod 256) (seq 0 (Z.to_nat n)).
Proof.
  intros v n. rewrite <- PfC08.le_bytes_digits. unfold le_bytes. apply map_ext.
  exact (PfC08.digit_spec v).
Qed.
Check C08_digits_positional : forall v n,
  le_digits (Z.to_nat n) v = map (fun i => (v / 256 ^ Z.of_nat i) mod 256) (seq 0 (Z.to_nat n)).
Print Assumptions C08_digits_positional.

Theorem C08_value_of_digits : forall n v, le_value (le_digits n v) = v mod 256 ^ Z.of_nat n.
Proof. exact PfBytes.le_value_le_digits. Qed.
Check C08_value_of_digits : forall n v, le_value (le_digits n v) = v mod 256 ^ Z.of_nat n.
Print Assumptions C08_value_of_digits.

(* Round trips. *)
Theorem C08_roundtrip : forall bits a,
  0 <= bits -> canon bits a ->
  Bytes.try_from_le_slice bits (Bytes.as_le_bytes bits a) = Val (Some a) /\
  Bytes.try_from_be_slice bits (Bytes.to_be_bytes_vec bits a) = Val (Some a).
Proof. exact PfBytes.roundtrip_full. Qed.
Check C08_roundtrip : forall bits a,
  0 <= bits -> canon bits a ->
  Bytes.try_from_le_slice bits (Bytes.as_le_bytes bits a) = Val (Some a) /\
  Bytes.try_from_be_slice bits (Bytes.to_be_bytes_vec bits a) = Val (Some a).
Print Assumptions C08_roundtrip.

Theorem C08_roundtrip_trimmed : forall bits a,
  0 <= bits -> canon bits a ->
  (do e <- Bytes.as_le_bytes_trimmed bits a; Bytes.try_from_le_slice bits e) = Val (Some a) /\
  (do e <- Bytes.to_be_bytes_trimmed_vec bits a; Bytes.try_from_be_slice bits e) = Val (Some a).
Proof. exact PfBytes.roundtrip_trimmed. Qed.
Check C08_roundtrip_trimmed : forall bits a,
  0 <= bits -> canon bits a ->
  (do e <- Bytes.as_le_bytes_trimmed bits a; Bytes.try_from_le_slice bits e) = Val (Some a) /\
  (do e <- Bytes.to_be_bytes_trimmed_vec bits a; Bytes.try_from_be_slice bits e) = Val (Some a).
Print Assumptions C08_roundtrip_trimmed.

(* The checked copies leave a too-short buffer untouched; the unchecked ones panic. *)
Theorem C08_checked_copy_be : forall bits a buf,
  0 <= bits -> canon bits a ->
  Bytes.checked_copy_be_bytes_to bits a buf =
    if lenZ buf <? Bytes.nbytes bits then Val (None, buf)
    else Val (Some (Bytes.nbytes bits),
              rev (le_digits (nbytesN bits) (eval a)) ++ skipn (nbytesN bits) buf).
Proof. exact PfBytes.checked_copy_be_bytes_to_spec. Qed.
Check C08_checked_copy_be : forall bits a buf,
  0 <= bits -> canon bits a ->
  Bytes.checked_copy_be_bytes_to bits a buf =
    if lenZ buf <? Bytes.nbytes bits then Val (None, buf)
    else Val (Some (Bytes.nbytes bits),
              rev (le_digits (nbytesN bits) (eval a)) ++ skipn (nbytesN bits) buf).
Print Assumptions C08_checked_copy_be.

Theorem C08_checked_copy_le : forall bits a buf,
  0 <= bits -> canon bits a ->
  Bytes.checked_copy_le_bytes_to bits a buf =
    if lenZ buf <? Bytes.nbytes bits then Val (None, buf)
    else Val (Some (Bytes.nbytes bits),
              le_digits (nbytesN bits) (eval a) ++ skipn (nbytesN bits) buf).
Proof. exact PfBytes.checked_copy_le_bytes_to_spec. Qed.
Check C08_checked_copy_le : forall bits a buf,
  0 <= bits -> canon bits a ->
  Bytes.checked_copy_le_bytes_to bits a buf =
    if lenZ buf <? Bytes.nbytes bits then Val (None, buf)
    else Val (Some (Bytes.nbytes bits),
              le_digits (nbytesN bits) (eval a) ++ skipn (nbytesN bits) buf).
Print Assumptions C08_checked_copy_le.

(* Non-vacuity: the regression input of the repaired whole-limb path (BITS = 60, eight 0xff
   bytes: BYTES % 8 = 0 with a 60-bit top-limb mask) is well-formed and yields None, not Panic;
   an in-range 60-bit string decodes; a 65-bit value encodes to 9 big-endian bytes. *)
Example C08_nonvacuous :
  wfb (try_from_be_slice 60 [0xff; 0xff; 0xff; 0xff; 0xff; 0xff; 0xff; 0xff]) = true /\
  run (try_from_be_slice 60 [0xff; 0xff; 0xff; 0xff; 0xff; 0xff; 0xff; 0xff]) = Val [TNone] /\
  run (try_from_be_slice 60 [0x0f; 0xff; 0xff; 0xff; 0xff; 0xff; 0xff; 0xfe])
    = Val [TSome; TL [0x0ffffffffffffffe]] /\
  run (to_be_bytes 65 9 [0x0102030405060708; 1]) = Val [TY [1; 1; 2; 3; 4; 5; 6; 7; 8]] /\
  run (checked_copy_le_bytes_to 9 [0x1ff] [0xa5]) = Val [TNone; TY [0xa5]].
Proof. repeat split; vm_compute; reflexivity. Qed.
