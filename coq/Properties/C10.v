(* Properties/C10.v — Modular arithmetic returns the canonical residue for every modulus.
   Only pinned statements, `exact`, and Print Assumptions live here.  No hypotheses: the
   contract of algorithms::div is the theorem PfDiv.div_kernel_spec (C14); Uint::inv_mod is
   algorithms::inv_mod, whose model (Model/Gcd.v) and proof (PfGcdInv.inv_mod_spec, including the
   Lehmer matrices) belong to the gcd topic (C12). *)
From Coq Require Import ZArith List Bool.
From RV.Model Require Import Base Word Modular.
From RV.Model Require Gcd.
From RV.Run Require Import RunC10.
From RV.Proofs Require PfC10 PfC10Closed.
Local Open Scope Z_scope.

(* For every width >= 0, all canonical (not necessarily reduced) operands and every modulus
   including 0 and 1, each of reduce_mod, add_mod, mul_mod, pow_mod, inv_mod returns -- without
   panicking -- exactly what the integer specification RunC10.spec prescribes: the canonical limbs of
   a mod m, (a+b) mod m, (a*b) mod m, a^e mod m (0 when m = 0); Some(x) with x < m and a*x = 1 (mod m)
   exactly when m >= 2 and gcd(a, m) = 1, None otherwise. *)
Theorem C10_holds : forall c : call, wf c -> spec c (run c) = true.
Proof. exact PfC10Closed.C10_all. Qed.
Check C10_holds : forall c : call, wf c -> spec c (run c) = true.
Print Assumptions C10_holds.

(* the specification's fast exponentiation is Z.pow mod *)
Theorem C10_powmod_is_pow : forall a e m, 0 <= e -> 0 < m -> powmod a e m = a ^ e mod m.
Proof. exact PfC10.powmod_spec. Qed.
Check C10_powmod_is_pow : forall a e m, 0 <= e -> 0 < m -> powmod a e m = a ^ e mod m.
Print Assumptions C10_powmod_is_pow.

(* Prop-level restatements: no panic, canonical limbs, the exact residue. *)
Theorem C10_reduce_mod : forall bits a m,
  0 <= bits -> canon bits a -> canon bits m ->
  exists r, Modular.reduce_mod bits a m = Val r /\ canon bits r /\
            eval r = (if eval m =? 0 then 0 else eval a mod eval m).
Proof. exact PfC10Closed.reduce_mod_value_closed. Qed.
Check C10_reduce_mod : forall bits a m,
  0 <= bits -> canon bits a -> canon bits m ->
  exists r, Modular.reduce_mod bits a m = Val r /\ canon bits r /\
            eval r = (if eval m =? 0 then 0 else eval a mod eval m).
Print Assumptions C10_reduce_mod.

Theorem C10_add_mod : forall bits a b m,
  0 <= bits -> canon bits a -> canon bits b -> canon bits m ->
  exists r, Modular.add_mod bits a b m = Val r /\ canon bits r /\
            eval r = (if eval m =? 0 then 0 else (eval a + eval b) mod eval m).
Proof. exact PfC10Closed.add_mod_value_closed. Qed.
Check C10_add_mod : forall bits a b m,
  0 <= bits -> canon bits a -> canon bits b -> canon bits m ->
  exists r, Modular.add_mod bits a b m = Val r /\ canon bits r /\
            eval r = (if eval m =? 0 then 0 else (eval a + eval b) mod eval m).
Print Assumptions C10_add_mod.

Theorem C10_mul_mod : forall bits a b m,
  0 <= bits -> canon bits a -> canon bits b -> canon bits m ->
  exists r, Modular.mul_mod bits a b m = Val r /\ canon bits r /\
            eval r = (if eval m =? 0 then 0 else (eval a * eval b) mod eval m).
Proof. exact PfC10Closed.mul_mod_value_closed. Qed.
Check C10_mul_mod : forall bits a b m,
  0 <= bits -> canon bits a -> canon bits b -> canon bits m ->
  exists r, Modular.mul_mod bits a b m = Val r /\ canon bits r /\
            eval r = (if eval m =? 0 then 0 else (eval a * eval b) mod eval m).
Print Assumptions C10_mul_mod.

Theorem C10_pow_mod : forall bits a e m,
  0 <= bits -> canon bits a -> canon bits e -> canon bits m ->
  exists r, Modular.pow_mod bits a e m = Val r /\ canon bits r /\
            eval r = (if eval m =? 0 then 0 else eval a ^ eval e mod eval m).
Proof. exact PfC10Closed.pow_mod_value_closed. Qed.
Check C10_pow_mod : forall bits a e m,
  0 <= bits -> canon bits a -> canon bits e -> canon bits m ->
  exists r, Modular.pow_mod bits a e m = Val r /\ canon bits r /\
            eval r = (if eval m =? 0 then 0 else eval a ^ eval e mod eval m).
Print Assumptions C10_pow_mod.

Theorem C10_inv_mod : forall bits a m,
  0 <= bits -> canon bits a -> canon bits m ->
  match Gcd.inv_mod bits a m with
  | Val (Some x) => canon bits x /\ 2 <= eval m /\ Z.gcd (eval a) (eval m) = 1 /\
                    eval x < eval m /\ (eval a * eval x) mod eval m = 1
  | Val None => eval m < 2 \/ Z.gcd (eval a) (eval m) <> 1
  | _ => False
  end.
Proof. exact PfC10Closed.inv_mod_value_closed. Qed.
Check C10_inv_mod : forall bits a m,
  0 <= bits -> canon bits a -> canon bits m ->
  match Gcd.inv_mod bits a m with
  | Val (Some x) => canon bits x /\ 2 <= eval m /\ Z.gcd (eval a) (eval m) = 1 /\
                    eval x < eval m /\ (eval a * eval x) mod eval m = 1
  | Val None => eval m < 2 \/ Z.gcd (eval a) (eval m) <> 1
  | _ => False
  end.
Print Assumptions C10_inv_mod.

(* Non-vacuity: concrete non-trivial calls meet wf; the product overflows BITS, the sum of the
   reduced operands carries out of BITS, the exponent loop runs, inv_mod takes Lehmer steps. *)
Example C10_nonvacuous :
  wfb (mul_mod 65 [0xffffffffffffffff; 1] [0xfffffffffffffffe; 1] [0xfffffffffffffffd; 1]) = true /\
  run (mul_mod 65 [0xffffffffffffffff; 1] [0xfffffffffffffffe; 1] [0xfffffffffffffffd; 1]) = Val [TL [2; 0]] /\
  run (add_mod 64 [0xfffffffffffffffe] [0xfffffffffffffffd] [0xffffffffffffffff]) = Val [TL [0xfffffffffffffffc]] /\
  run (pow_mod 64 [3] [5] [0x65]) = Val [TL [0x29]] /\
  run (reduce_mod 8 [0xff] [0]) = Val [TL [0]] /\
  run (inv_mod 64 [0xfffffffffffffffe] [0xffffffffffffffff]) = Val [TSome; TL [0xfffffffffffffffe]] /\
  run (inv_mod 64 [46] [240]) = Val [TNone] /\
  wfb (inv_mod 192 [0x0fedcba987654321; 0x123456789abcdef0; 0x7000000000000001]
                   [0x123456789abcdef0; 0xfedcba9876543210; 0x8000000000000001]) = true /\
  run (inv_mod 192 [0x0fedcba987654321; 0x123456789abcdef0; 0x7000000000000001]
                   [0x123456789abcdef0; 0xfedcba9876543210; 0x8000000000000001])
  = Val [TSome; TL [16384587279187313409; 8103288589647752824; 3019703859935393455]].
Proof. repeat split; vm_compute; reflexivity. Qed.
