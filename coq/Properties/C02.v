(* Properties/C02.v — Multiplication is exact: wrapping, overflow flag, widening product,
   ring inverse, iterator product.  Only pinned statements, `exact`, and Print Assumptions. *)
From Coq Require Import ZArith List Bool.
From RV.Model Require Import Base Word Limbs Mul.
From RV.Run Require Import RunC02.
From RV.Proofs Require PfMulN PfMul PfC02.
Import ListNotations.
Local Open Scope Z_scope.

(* For every width >= 0 and all canonical operands, every multiplication entry point of the
   model (wrapping/overflowing/checked/saturating, six operator shapes, widening_mul at every
   (BITS, BITS_RHS) and every choice of the result parameters, inv_ring, both Product impls)
   returns exactly what the integer specification RunC02.spec prescribes, and never OutOfFuel. *)
Theorem C02_holds : forall c : call, wf c -> spec c (run c) = true.
Proof. exact PfC02.C02_all. Qed.
Check C02_holds : forall c : call, wf c -> spec c (run c) = true.
Print Assumptions C02_holds.

(* Prop-level restatements of the primitives everything else is built from. *)
Theorem C02_addmul_n : forall lhs a b,
  length lhs = length a -> length lhs = length b ->
  Forall inW lhs -> Forall inW a -> Forall inW b ->
  exists r, addmul_n lhs a b = Val r /\ length r = length lhs /\ Forall inW r /\
            eval r = (eval lhs + eval a * eval b) mod B ^ Z.of_nat (length lhs).
Proof. exact PfMulN.addmul_n_spec. Qed.
Check C02_addmul_n : forall lhs a b,
  length lhs = length a -> length lhs = length b ->
  Forall inW lhs -> Forall inW a -> Forall inW b ->
  exists r, addmul_n lhs a b = Val r /\ length r = length lhs /\ Forall inW r /\
            eval r = (eval lhs + eval a * eval b) mod B ^ Z.of_nat (length lhs).
Print Assumptions C02_addmul_n.

Theorem C02_addmul_n_mismatch : forall lhs a b,
  length lhs <> length a \/ length lhs <> length b -> addmul_n lhs a b = Panic.
Proof. exact PfMulN.addmul_n_mismatch. Qed.
Check C02_addmul_n_mismatch : forall lhs a b,
  length lhs <> length a \/ length lhs <> length b -> addmul_n lhs a b = Panic.
Print Assumptions C02_addmul_n_mismatch.

Theorem C02_overflowing_mul : forall bits a b,
  0 <= bits -> canon bits a -> canon bits b ->
  let '(r, f) := Mul.overflowing_mul bits a b in
  canon bits r /\ eval r = (eval a * eval b) mod 2 ^ bits /\ f = (2 ^ bits <=? eval a * eval b).
Proof. exact PfMul.overflowing_mul_spec. Qed.
Check C02_overflowing_mul : forall bits a b,
  0 <= bits -> canon bits a -> canon bits b ->
  let '(r, f) := Mul.overflowing_mul bits a b in
  canon bits r /\ eval r = (eval a * eval b) mod 2 ^ bits /\ f = (2 ^ bits <=? eval a * eval b).
Print Assumptions C02_overflowing_mul.

Theorem C02_wrapping_mul : forall bits a b,
  0 <= bits -> length a = nlimbsN bits -> length b = nlimbsN bits ->
  Forall inW a -> Forall inW b ->
  exists r, Mul.wrapping_mul bits a b = Val r /\ canon bits r /\
            eval r = (eval a * eval b) mod 2 ^ bits.
Proof. exact PfMul.wrapping_mul_spec. Qed.
Check C02_wrapping_mul : forall bits a b,
  0 <= bits -> length a = nlimbsN bits -> length b = nlimbsN bits ->
  Forall inW a -> Forall inW b ->
  exists r, Mul.wrapping_mul bits a b = Val r /\ canon bits r /\
            eval r = (eval a * eval b) mod 2 ^ bits.
Print Assumptions C02_wrapping_mul.

Theorem C02_widening_mul : forall bits br a b,
  0 <= bits -> 0 <= br -> canon bits a -> canon br b ->
  Mul.widening_mul bits br (bits + br) (nlimbs (bits + br)) a b
  = Val (uint_of (bits + br) (eval a * eval b)).
Proof. exact PfMul.widening_mul_spec. Qed.
Check C02_widening_mul : forall bits br a b,
  0 <= bits -> 0 <= br -> canon bits a -> canon br b ->
  Mul.widening_mul bits br (bits + br) (nlimbs (bits + br)) a b
  = Val (uint_of (bits + br) (eval a * eval b)).
Print Assumptions C02_widening_mul.

Theorem C02_inv_ring : forall bits a,
  0 <= bits -> canon bits a ->
  if (0 <? bits) && Z.odd (eval a)
  then exists x, Mul.inv_ring bits a = Val (Some x) /\ canon bits x /\
                 (eval a * eval x) mod 2 ^ bits = 1
  else Mul.inv_ring bits a = Val None.
Proof. exact PfMul.inv_ring_spec. Qed.
Check C02_inv_ring : forall bits a,
  0 <= bits -> canon bits a ->
  if (0 <? bits) && Z.odd (eval a)
  then exists x, Mul.inv_ring bits a = Val (Some x) /\ canon bits x /\
                 (eval a * eval x) mod 2 ^ bits = 1
  else Mul.inv_ring bits a = Val None.
Print Assumptions C02_inv_ring.

Theorem C02_product : forall bits xs,
  0 <= bits -> Forall (canon bits) xs ->
  exists r, Mul.product bits xs = Val r /\ canon bits r /\
            eval r = (fold_right Z.mul 1 (map eval xs)) mod 2 ^ bits.
Proof. exact PfMul.product_spec. Qed.
Check C02_product : forall bits xs,
  0 <= bits -> Forall (canon bits) xs ->
  exists r, Mul.product bits xs = Val r /\ canon bits r /\
            eval r = (fold_right Z.mul 1 (map eval xs)) mod 2 ^ bits.
Print Assumptions C02_product.

(* Non-vacuity: concrete non-trivial calls meet wf; the product crosses limbs and overflows,
   and a three-limb inverse needs two rounds of the limb-doubling loop. *)
Example C02_nonvacuous :
  wfb (overflowing_mul 65 [0; 1] [0; 1]) = true /\
  run (overflowing_mul 65 [0; 1] [0; 1]) = Val [TL [0; 0]; TB true] /\
  wfb (inv_ring 129 [3; 0; 0]) = true /\
  run (inv_ring 129 [3; 0; 0])
  = Val [TSome; TL [0xaaaaaaaaaaaaaaab; 0xaaaaaaaaaaaaaaaa; 0]] /\
  run (widening_mul 64 64 127 2 [3] [5]) = Panic.
Proof. repeat split; vm_compute; reflexivity. Qed.
