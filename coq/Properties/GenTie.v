(* Properties/GenTie.v — the tie between the Rust source text and the model for the word-level
   helpers: Gen/Scalar.v is regenerated from /repo by tools_rs2v.py on every run; this file is
   re-checked against it.  Nothing else lives here. *)
From Coq Require Import Lia.
From RV.Model Require Import Base Word Limbs Bytes DivRecip DivSmall Redc.
From RV.Model Require DivRef DivKnuth Shift.
From RV.Gen Require Import Prim Scalar.
From RV.Model Require Add Mul UDiv Conv Bits Pow Modular GcdMatrix Gcd Log.
From RV.Proofs Require Import BaseFacts PfGenScalar PfGenAdd PfGenMul PfGenDiv PfGenSpecial PfGenCtor PfGenBits PfGenDivRef PfGenLimbs PfGenRedc PfGenKnuth PfGenShift PfGenPow PfGenModular PfGenMatrix PfGenGcd PfGenInvRing PfGenDivTop PfGenFold.

Theorem GenTie_source_equals_model :
  (forall bits, 0 <= bits -> bits + 63 < B -> g_nlimbs bits = Val (nlimbs bits)) /\
  (forall bits, 0 <= bits -> g_mask bits = Val (mask bits)) /\
  (forall bits, 0 <= bits -> bits + 7 < B -> g_nbytes bits = Val (nbytes bits)) /\
  (forall h l, inW h -> inW l -> g_dw_join h l = join h l) /\
  (forall a b, inW a -> inW b -> g_dw_add a b = Val (a + b)) /\
  (forall a b, inW a -> inW b -> g_dw_mul a b = Val (a * b)) /\
  (forall a b c, inW a -> inW b -> inW c -> g_dw_muladd a b c = Val (muladd a b c)) /\
  (forall a b c d, inW a -> inW b -> inW c -> inW d -> g_dw_muladd2 a b c d = Val (muladd2 a b c d)) /\
  (forall x, 0 <= x < BB -> g_dw_high x = hi128 x) /\
  (forall x, g_dw_low x = lo128 x) /\
  (forall x, 0 <= x < BB -> g_dw_split x = (lo128 x, hi128 x)) /\
  (forall l r c, g_carrying_add l r c = carrying_add l r c) /\
  (forall l r c, g_borrowing_sub l r c = borrowing_sub l r c) /\
  (forall l r c, inW l -> inW r -> inW c -> g_adc l r c = Val (adc l r c)) /\
  (forall l r b, g_sbb l r b = sbb l r b) /\
  (forall lhs a b c, inW lhs -> inW a -> inW b -> inW c ->
     g_mac lhs a b c = Val (snd (mac lhs a b c), fst (mac lhs a b c))) /\
  (forall l r a c, g_carrying_mul_add l r a c = carrying_mul_add l r a c) /\
  (forall l r a cl ch, g_carrying_double_mul_add l r a cl ch = carrying_double_mul_add l r a cl ch) /\
  (forall a b, inW a -> inW b -> g_mul_hi a b = Val (mul_hi a b)) /\
  (forall a b c, inW a -> inW b -> inW c -> g_muladd_hi a b c = Val (muladd_hi a b c)) /\
  g_reciprocal_mg10_TABLE = RECIP_TABLE /\
  (forall d, inW d -> g_reciprocal_mg10 d = reciprocal_mg10 d) /\
  (forall d, 0 <= d < BB -> g_reciprocal_2_mg10 d = reciprocal_2_mg10 d) /\
  (forall u d v, 0 <= u < BB -> inW d -> inW v -> g_div_2x1_mg10 u d v = div_2x1_mg10 u d v) /\
  (forall u21 u0 d v, 0 <= u21 < BB -> inW u0 -> 0 <= d < BB -> inW v ->
     g_div_3x2_mg10 u21 u0 d v = div_3x2_mg10 u21 u0 d v) /\
  (forall l0 a0 b0, inW l0 -> inW a0 -> inW b0 ->
     g_addmul_1 [l0] [a0] [b0] = Val (addmul_1 [l0] [a0] [b0])) /\
  (forall l0 l1 a0 a1 b0 b1, inW l0 -> inW l1 -> inW a0 -> inW a1 -> inW b0 -> inW b1 ->
     g_addmul_2 [l0; l1] [a0; a1] [b0; b1] = Val (addmul_2 [l0; l1] [a0; a1] [b0; b1])) /\
  (forall l0 l1 l2 a0 a1 a2 b0 b1 b2,
     inW l0 -> inW l1 -> inW l2 -> inW a0 -> inW a1 -> inW a2 -> inW b0 -> inW b1 -> inW b2 ->
     g_addmul_3 [l0; l1; l2] [a0; a1; a2] [b0; b1; b2]
     = Val (addmul_3 [l0; l1; l2] [a0; a1; a2] [b0; b1; b2])) /\
  (forall l0 l1 l2 l3 a0 a1 a2 a3 b0 b1 b2 b3,
     inW l0 -> inW l1 -> inW l2 -> inW l3 -> inW a0 -> inW a1 -> inW a2 -> inW a3 ->
     inW b0 -> inW b1 -> inW b2 -> inW b3 ->
     g_addmul_4 [l0; l1; l2; l3] [a0; a1; a2; a3] [b0; b1; b2; b3]
     = Val (addmul_4 [l0; l1; l2; l3] [a0; a1; a2; a3] [b0; b1; b2; b3])).
Proof.
  exact
  (conj g_nlimbs_eq
   (conj g_mask_eq
   (conj g_nbytes_eq
   (conj g_dw_join_eq
   (conj g_dw_add_eq
   (conj g_dw_mul_eq
   (conj g_dw_muladd_eq
   (conj g_dw_muladd2_eq
   (conj g_dw_high_eq
   (conj g_dw_low_eq
   (conj g_dw_split_eq
   (conj g_carrying_add_eq
   (conj g_borrowing_sub_eq
   (conj g_adc_eq
   (conj g_sbb_eq
   (conj g_mac_eq
   (conj g_carrying_mul_add_eq
   (conj g_carrying_double_mul_add_eq
   (conj g_mul_hi_eq
   (conj g_muladd_hi_eq
   (conj g_table_eq
   (conj g_reciprocal_mg10_eq
   (conj g_reciprocal_2_mg10_eq
   (conj g_div_2x1_mg10_eq
   (conj g_div_3x2_mg10_eq
   (conj g_addmul_1_eq
   (conj g_addmul_2_eq
   (conj g_addmul_3_eq
   g_addmul_4_eq)))))))))))))))))))))))))))).
Qed.
Print Assumptions GenTie_source_equals_model.

(* src/add.rs end to end: every inherent method of the file (and Uint::masked, Ord::cmp), as translated from
   the current source text, equals the model function that C01's theorems are about, for every
   well-formed Uint<BITS, LIMBS> (LIMBS = nlimbs BITS fits a usize, limb lists of that length) *)
Definition wfU (bits : Z) (a : list Z) : Prop := length a = nlimbsN bits.
Theorem GenTie_add_rs : forall bits a b,
  0 <= bits -> nlimbs bits <= B -> wfU bits a -> wfU bits b ->
  g_masked bits (nlimbs bits) a = Val (masked bits a) /\
  g_overflowing_add bits (nlimbs bits) a b = Val (Add.overflowing_add bits a b) /\
  g_overflowing_sub bits (nlimbs bits) a b = Val (Add.overflowing_sub bits a b) /\
  g_overflowing_neg bits (nlimbs bits) a = Val (Add.overflowing_neg bits a) /\
  g_checked_add bits (nlimbs bits) a b = Val (Add.checked_add bits a b) /\
  g_checked_sub bits (nlimbs bits) a b = Val (Add.checked_sub bits a b) /\
  g_checked_neg bits (nlimbs bits) a = Val (Add.checked_neg bits a) /\
  g_saturating_add bits (nlimbs bits) a b = Val (Add.saturating_add bits a b) /\
  g_saturating_sub bits (nlimbs bits) a b = Val (Add.saturating_sub bits a b) /\
  g_wrapping_add bits (nlimbs bits) a b = Val (Add.wrapping_add bits a b) /\
  g_wrapping_sub bits (nlimbs bits) a b = Val (Add.wrapping_sub bits a b) /\
  g_wrapping_neg bits (nlimbs bits) a = Val (Add.wrapping_neg bits a) /\
  g_abs_diff bits (nlimbs bits) a b = Val (Add.abs_diff bits a b) /\
  g_cmp bits (nlimbs bits) a b = Add.limbs_cmp a b.
Proof.
  intros bits a b H0 HB Ha Hb. unfold wfU in *.
  exact (conj (g_masked_eq bits a H0 HB Ha)
        (conj (g_overflowing_add_eq bits a b H0 HB Ha Hb)
        (conj (g_overflowing_sub_eq bits a b H0 HB Ha Hb)
        (conj (g_overflowing_neg_eq bits a H0 HB Ha)
        (conj (g_checked_add_eq bits a b H0 HB Ha Hb)
        (conj (g_checked_sub_eq bits a b H0 HB Ha Hb)
        (conj (g_checked_neg_eq bits a H0 HB Ha)
        (conj (g_saturating_add_eq bits a b H0 HB Ha Hb)
        (conj (g_saturating_sub_eq bits a b H0 HB Ha Hb)
        (conj (g_wrapping_add_eq bits a b H0 HB Ha Hb)
        (conj (g_wrapping_sub_eq bits a b H0 HB Ha Hb)
        (conj (g_wrapping_neg_eq bits a H0 HB Ha)
        (conj (g_abs_diff_eq bits a b H0 HB Ha Hb) eq_refl))))))))))))).
Qed.
Print Assumptions GenTie_add_rs.

(* src/mul.rs wrappers (overflow flag, mask, checked / saturating forms) and Uint::apply_mask; the
   limb kernels algorithms::addmul / addmul_n they call are Model/Limbs.v on both sides *)
Theorem GenTie_mul_rs : forall bits a b,
  0 <= bits -> nlimbs bits <= B -> wfU bits a -> wfU bits b -> Forall inW a -> Forall inW b ->
  g_apply_mask bits (nlimbs bits) a = Val (masked bits a) /\
  g_overflowing_mul bits (nlimbs bits) a b = Val (Mul.overflowing_mul bits a b) /\
  g_checked_mul bits (nlimbs bits) a b = Val (Mul.checked_mul bits a b) /\
  g_saturating_mul bits (nlimbs bits) a b = Val (Mul.saturating_mul bits a b) /\
  g_wrapping_mul bits (nlimbs bits) a b = Mul.wrapping_mul bits a b.
Proof.
  intros bits a b H0 HB Ha Hb Wa Wb. unfold wfU in *.
  exact (conj (g_apply_mask_eq bits a H0 HB Ha)
        (conj (g_overflowing_mul_eq bits a b H0 HB Ha Hb Wa Wb)
        (conj (g_checked_mul_eq bits a b H0 HB Ha Hb Wa Wb)
        (conj (g_saturating_mul_eq bits a b H0 HB Ha Hb Wa Wb)
              (g_wrapping_mul_eq bits a b H0 HB Ha Hb Wa Wb))))).
Qed.
Print Assumptions GenTie_mul_rs.

(* src/div.rs wrappers and Uint::is_zero; the slice kernel algorithms::div is Model/Div.v on both sides *)
Theorem GenTie_div_rs : forall bits a b,
  0 <= bits -> nlimbs bits <= B -> wfU bits a -> wfU bits b -> Forall inW a -> Forall inW b ->
  g_is_zero bits (nlimbs bits) a = UDiv.is_zero bits a /\
  g_div_rem bits (nlimbs bits) a b = UDiv.div_rem a b /\
  g_wrapping_div bits (nlimbs bits) a b = UDiv.wrapping_div a b /\
  g_wrapping_rem bits (nlimbs bits) a b = UDiv.wrapping_rem a b /\
  g_checked_div bits (nlimbs bits) a b = UDiv.checked_div bits a b /\
  g_checked_rem bits (nlimbs bits) a b = UDiv.checked_rem bits a b /\
  g_div_ceil bits (nlimbs bits) a b = UDiv.div_ceil bits a b.
Proof.
  intros bits a b H0 HB Ha Hb Wa Wb. unfold wfU in *.
  exact (conj (g_is_zero_eq bits _ a)
        (conj (g_div_rem_eq bits _ a b)
        (conj (g_wrapping_div_eq bits _ a b)
        (conj (g_wrapping_rem_eq bits _ a b)
        (conj (g_checked_div_eq bits _ a b)
        (conj (g_checked_rem_eq bits _ a b)
              (g_div_ceil_eq bits a b H0 HB Ha Hb Wa Wb))))))).
Qed.
Print Assumptions GenTie_div_rs.

(* src/special.rs: (checked_)next_multiple_of, on canonical operands *)
Theorem GenTie_special_rs : forall bits a b,
  0 <= bits -> nlimbs bits <= B -> canon bits a -> canon bits b ->
  g_checked_next_multiple_of bits (nlimbs bits) a b = UDiv.checked_next_multiple_of bits a b /\
  g_next_multiple_of bits (nlimbs bits) a b = UDiv.next_multiple_of bits a b.
Proof.
  intros bits a b H0 HB Ca Cb.
  exact (conj (g_checked_next_multiple_of_eq bits a b H0 HB Ca Cb)
              (g_next_multiple_of_eq bits a b H0 HB Ca Cb)).
Qed.
Print Assumptions GenTie_special_rs.

(* constructors and associated consts (src/lib.rs, src/from.rs): the primitives uZERO / uMAX / uone
   that stand for Self::ZERO / MAX / ONE in the other translated functions are what the translated
   initialisers compute *)
Theorem GenTie_ctor : forall bits l,
  0 <= bits -> nlimbs bits <= B ->
  g_from_limbs bits (nlimbs bits) l = Conv.from_limbs bits l /\
  (wfU bits l -> g_from_limbs_unmasked bits (nlimbs bits) l = Val (masked bits l)) /\
  g_ZERO bits (nlimbs bits) = Val (uZERO bits) /\
  g_MAX bits (nlimbs bits) = Val (uMAX bits) /\
  g_ONE bits (nlimbs bits) = Val (UDiv.uone bits).
Proof.
  intros bits l H0 HB.
  exact (conj (g_from_limbs_eq bits l H0 HB)
        (conj (g_from_limbs_unmasked_eq bits l H0 HB)
        (conj (g_ZERO_eq bits H0 HB)
        (conj (g_MAX_eq bits H0 HB) (g_ONE_eq bits H0 HB))))).
Qed.
Print Assumptions GenTie_ctor.

(* src/from.rs: const_from_u64 for every word x (GenTie_ctor has the instance ONE = const_from_u64(1)) *)
Theorem GenTie_const_from_u64 : forall bits x,
  0 <= bits -> nlimbs bits <= B -> 0 <= x < B ->
  g_const_from_u64 bits (nlimbs bits) x = Mul.const_from_u64 bits x.
Proof. exact g_const_from_u64_eq. Qed.
Print Assumptions GenTie_const_from_u64.

(* src/bits.rs: bit, set_bit, not, count_ones, count_zeros; src/special.rs: is_power_of_two *)
Theorem GenTie_bits_rs : forall bits a i v,
  0 <= bits -> bits < B -> 64 * nlimbs bits < B -> wfU bits a -> 0 <= i ->
  g_bit bits (nlimbs bits) a i = Bits.bit bits a i /\
  g_set_bit bits (nlimbs bits) a i v = Bits.set_bit bits a i v /\
  g_not bits (nlimbs bits) a = Val (Bits.unot bits a) /\
  g_count_ones bits (nlimbs bits) a = Val (Bits.count_ones a) /\
  g_count_zeros bits (nlimbs bits) a = Bits.count_zeros bits a /\
  g_is_power_of_two bits (nlimbs bits) a = Val (Bits.is_power_of_two a).
Proof.
  intros bits a i v H0 H1 HB Ha Hi. unfold wfU in Ha.
  assert (HB' : nlimbs bits <= B) by (pose proof (nlimbs_nonneg bits H0); lia).
  exact (conj (g_bit_eq bits _ a i Hi)
        (conj (g_set_bit_eq bits _ a i v Hi)
        (conj (g_not_eq bits a H0 HB' Ha)
        (conj (g_count_ones_eq bits a H0 HB Ha)
        (conj (g_count_zeros_eq bits a H0 H1 HB Ha)
              (g_is_power_of_two_eq bits a H0 HB Ha)))))).
Qed.
Print Assumptions GenTie_bits_rs.

(* src/algorithms/div: the reference kernels reciprocal_ref, div_2x1_ref, div_3x2_ref (u128 `/`, `%`) *)
Theorem GenTie_div_ref :
  (forall d, inW d -> g_reciprocal_ref d = DivRef.reciprocal_ref d) /\
  (forall u d, 0 <= u < BB -> inW d -> g_div_2x1_ref u d = DivRef.div_2x1_ref u d) /\
  (forall n21 n0 d, 0 <= n21 < BB -> inW n0 -> 0 <= d < BB ->
     g_div_3x2_ref n21 n0 d = DivRef.div_3x2_ref n21 n0 d).
Proof. exact (conj g_reciprocal_ref_eq (conj g_div_2x1_ref_eq g_div_3x2_ref_eq)). Qed.
Print Assumptions GenTie_div_ref.

(* src/algorithms/{add,mul,shift}.rs: the limb-slice kernels whose bodies are loops
   (`for i in 0..n`, `for x in xs`): the generated indexed loops (for_range over idx/upd) equal
   the structural recursions of Model/Limbs.v on all word lists.  A generated function returns
   (result, updated &mut slice); the model returns (updated slice, result). *)
Theorem GenTie_limbs_rs :
  (forall lhs rhs c, Forall inW lhs -> Forall inW rhs -> inW c -> (length lhs <= length rhs)%nat ->
     g_adc_n lhs rhs c = omap (fun p => (snd p, fst p)) (adc_n lhs rhs c)) /\
  (forall lhs rhs c, Forall inW lhs -> Forall inW rhs -> inW c -> (length lhs <= length rhs)%nat ->
     g_sbb_n lhs rhs c = omap (fun p => (snd p, fst p)) (sbb_n lhs rhs c)) /\
  (forall lhs a, Forall inW lhs -> inW a ->
     g_mul_nx1 lhs a = Val (snd (mul_nx1 lhs a), fst (mul_nx1 lhs a))) /\
  (forall lhs a b, Forall inW lhs -> Forall inW a -> inW b ->
     g_addmul_nx1 lhs a b = omap (fun p => (snd p, fst p)) (addmul_nx1 lhs a b)) /\
  (forall lhs a b, Forall inW lhs -> Forall inW a -> inW b ->
     g_submul_nx1 lhs a b = omap (fun p => (snd p, fst p)) (submul_nx1 lhs a b)) /\
  (forall limbs amount, 0 <= amount ->
     g_shift_left_small limbs amount = omap (fun p => (snd p, fst p)) (shift_left_small limbs amount)).
Proof.
  exact (conj g_adc_n_eq (conj g_sbb_n_eq (conj g_mul_nx1_eq (conj g_addmul_nx1_eq
        (conj g_submul_nx1_eq g_shift_left_small_eq))))).
Qed.
Print Assumptions GenTie_limbs_rs.

(* reverse loops (`for x in xs.iter_mut().rev()`): shift_right_small (algorithms/shift.rs),
   div_nx1_normalized and div_nx2_normalized (algorithms/div/small.rs; their per-limb steps
   div_2x1 / div_3x2 and the reciprocals are themselves translated, see above) *)
Theorem GenTie_limbs_rev :
  (forall limbs amount, 0 <= amount ->
     g_shift_right_small limbs amount = omap (fun p => (snd p, fst p)) (shift_right_small limbs amount)) /\
  (forall u d, Forall inW u -> inW d ->
     g_div_nx1_normalized u d = omap (fun p => (snd p, fst p)) (DivSmall.div_nx1_normalized u d)) /\
  (forall u d, Forall inW u -> 0 <= d < BB ->
     g_div_nx2_normalized u d = omap (fun p => (snd p, fst p)) (DivSmall.div_nx2_normalized u d)).
Proof. exact (conj g_shift_right_small_eq (conj g_div_nx1_normalized_eq g_div_nx2_normalized_eq)). Qed.
Print Assumptions GenTie_limbs_rev.

(* div_nx1 / div_nx2 (algorithms/div/small.rs): downward index loop `for i in (1..len).rev()` reading
   xs[i] and xs[i-1] through `get_unchecked`, writing xs[i] through `get_unchecked_mut`, element
   references (`let first = unsafe { xs.get_unchecked_mut(0) }`), early `return` through the
   normalised variant.  With this every function of small.rs and reciprocal.rs is regenerated from the
   source on every run.  `lenZ limbs < B`: a slice length is a usize. *)
Theorem GenTie_div_small :
  (forall limbs d, Forall inW limbs -> inW d -> lenZ limbs < B ->
     g_div_nx1 limbs d = omap (fun p => (snd p, fst p)) (DivSmall.div_nx1 limbs d)) /\
  (forall limbs d, Forall inW limbs -> 0 <= d < BB -> lenZ limbs < B ->
     g_div_nx2 limbs d = omap (fun p => (snd p, fst p)) (DivSmall.div_nx2 limbs d)).
Proof. exact (conj g_div_nx1_eq g_div_nx2_eq). Qed.
Print Assumptions GenTie_div_small.

(* algorithms::mul_redc (src/algorithms/mul_redc.rs): const-generic arrays `[u64; N]`, the row loop
   `for b in b`, the inner loop `for i in 0..N` (reads index i, writes index i-1), the carry threshold on
   modulus[N-1]; reduce1_carry is the model function (its `zip` iterators are outside the subset).
   Stated for N >= 1 arrays of equal length N < 2^64 (N = 0: `modulus[0]` inside debug_assert_eq!). *)
Theorem GenTie_mul_redc : forall N a b md inv,
  (1 <= length a)%nat -> N = Z.of_nat (length a) -> N < B -> length md = length a ->
  g_mul_redc N a b md inv = Redc.mul_redc a b md inv.
Proof. exact g_mul_redc_eq. Qed.
Print Assumptions GenTie_mul_redc.

(* algorithms::square_redc: three inner loops per row (cross terms `for j in (i+1)..N` touching index j,
   reduction `for j in 1..N` reading j and writing j-1, the carry logic on modulus[N-1] with its u128
   wrapping additions) = Redc.sq_cross / sq_reduce / sq_row / sq_rows *)
Theorem GenTie_square_redc : forall N a md inv,
  (1 <= length a)%nat -> N = Z.of_nat (length a) -> N < B -> length md = length a ->
  g_square_redc N a md inv = Redc.square_redc a md inv.
Proof. exact g_square_redc_eq. Qed.
Print Assumptions GenTie_square_redc.

(* Knuth division, normalised variant (algorithms/div/knuth.rs div_nxm_normalized): downward loop
   `for j in (0..=m).rev()`, `continue`, windows `&mut numerator[j..j + n]` handed to the translated
   submul_nx1 / adc_n and written back (Prim.subslice / Prim.splice), element stores *)
Theorem GenTie_div_nxm_normalized : forall numerator divisor,
  Forall inW numerator -> Forall inW divisor -> lenZ numerator < B ->
  g_div_nxm_normalized numerator divisor = DivKnuth.div_nxm_normalized numerator divisor.
Proof. exact g_div_nxm_normalized_eq. Qed.
Print Assumptions GenTie_div_nxm_normalized.

(* Knuth division, general variant (div_nxm): on-the-fly normalisation by `shift`, value blocks and
   value-`if`s whose branches update the numerator (the updated slice leaves the branch together with
   the value), `get(i).copied().unwrap_or_default()`, the epilogue `copy_from_slice` / `copy_within` /
   `fill`.  Result: (numerator after the call, divisor after the call) = (quotient, remainder). *)
Theorem GenTie_div_nxm : forall numerator divisor,
  Forall inW numerator -> Forall inW divisor -> lenZ numerator + 1 < B ->
  g_div_nxm numerator divisor = DivKnuth.div_nxm numerator divisor.
Proof. exact g_div_nxm_eq. Qed.
Print Assumptions GenTie_div_nxm.

(* loops with an early `return` (Prim.for_range_ret / for_down_ret): add_nx1 (mul.rs) stops when the
   carry dies; algorithms::cmp (mod.rs) returns at the first differing limb from the top, then compares
   the lengths *)
Theorem GenTie_limbs_ret :
  (forall lhs a, Forall inW lhs -> inW a ->
     g_add_nx1 lhs a = Val (snd (add_nx1 lhs a), fst (add_nx1 lhs a))) /\
  (forall left right, g_slice_cmp left right = Val (Add.limbs_cmp left right)) /\
  (* addmul_n: assert_eq! on the lengths, then dispatch on the length to the unrolled kernels
     (translated, above) or to the generic addmul (model function) *)
  (forall lhs a b, Forall inW lhs -> Forall inW a -> Forall inW b ->
     g_addmul_n lhs a b = Limbs.addmul_n lhs a b).
Proof. exact (conj g_add_nx1_eq (conj g_slice_cmp_eq g_addmul_n_eq)). Qed.
Print Assumptions GenTie_limbs_ret.

(* src/bits.rs shifts: overflowing_shl / overflowing_shr (index loops writing r[i + limbs] resp.
   r[LIMBS - 1 - i - limbs], the closure `.iter().any(|&x| x != 0)` over the dropped limbs, short-circuit
   `||`, apply_mask) and the wrappers checked_/saturating_/wrapping_shl, checked_/wrapping_shr *)
Theorem GenTie_shift_rs : forall bits a rhs,
  0 <= bits -> nlimbs bits < B -> length a = nlimbsN bits -> 0 <= rhs ->
  g_overflowing_shl bits (nlimbs bits) a rhs = Val (Shift.overflowing_shl bits a rhs) /\
  g_overflowing_shr bits (nlimbs bits) a rhs = Val (Shift.overflowing_shr bits a rhs) /\
  g_checked_shl bits (nlimbs bits) a rhs = Val (Shift.checked_shl bits a rhs) /\
  g_saturating_shl bits (nlimbs bits) a rhs = Val (Shift.saturating_shl bits a rhs) /\
  g_wrapping_shl bits (nlimbs bits) a rhs = Val (Shift.wrapping_shl bits a rhs) /\
  g_checked_shr bits (nlimbs bits) a rhs = Val (Shift.checked_shr bits a rhs) /\
  g_wrapping_shr bits (nlimbs bits) a rhs = Val (Shift.wrapping_shr bits a rhs).
Proof.
  intros bits a rhs Hb HB Hl Hr.
  exact (conj (g_overflowing_shl_eq bits a rhs Hb HB Hl Hr)
        (conj (g_overflowing_shr_eq bits a rhs Hb HB Hl Hr) (g_shift_wrappers_eq bits a rhs Hb HB Hl Hr))).
Qed.
Print Assumptions GenTie_shift_rs.

(* the bit operators: the `$fn_assign(&mut self, rhs: &Uint)` and `$fn(mut self, rhs: Uint)` arms of
   impl_bit_op! are instantiated as the invocations in src/bits.rs do (bitor / bitand / bitxor) and
   translated; `u64::bitor_assign(&mut self.limbs[i], rhs.limbs[i])` is the compound assignment *)
Theorem GenTie_bitops_rs : forall bits a b,
  0 <= bits -> length a = nlimbsN bits -> length b = nlimbsN bits ->
  g_bitor_assign bits (nlimbs bits) a b = Bits.op_assign Z.lor a b /\
  g_bitand_assign bits (nlimbs bits) a b = Bits.op_assign Z.land a b /\
  g_bitxor_assign bits (nlimbs bits) a b = Bits.op_assign Z.lxor a b /\
  g_bitor bits (nlimbs bits) a b = Bits.op_assign Z.lor a b /\
  g_bitand bits (nlimbs bits) a b = Bits.op_assign Z.land a b /\
  g_bitxor bits (nlimbs bits) a b = Bits.op_assign Z.lxor a b.
Proof. exact g_bit_ops_eq. Qed.
Print Assumptions GenTie_bitops_rs.

(* arithmetic_shr, rotate_left, rotate_right: `Uint >> usize` / `<< usize` resolved through the
   `fn shl(self, rhs: $u)` arm of impl_shift! (wrapping_shl / wrapping_shr), `|` and `|=` through the
   translated bitor, `BITS.saturating_sub(rhs)`, `rhs % BITS` *)
Theorem GenTie_arith_rot_rs : forall bits a rhs,
  0 < bits -> bits < B -> nlimbs bits < B -> length a = nlimbsN bits -> 0 <= rhs ->
  g_arithmetic_shr bits (nlimbs bits) a rhs = Val (Shift.arithmetic_shr bits a rhs) /\
  g_rotate_left bits (nlimbs bits) a rhs = Val (Shift.rotate_left bits a rhs) /\
  g_rotate_right bits (nlimbs bits) a rhs = Val (Shift.rotate_right bits a rhs).
Proof. exact g_arith_rot_eq. Qed.
Print Assumptions GenTie_arith_rot_rs.

(* leading_zeros (`while i > 0 { i -= 1; .. return .. }` as a downward loop with early return),
   leading_ones, bit_len, byte_len *)
Theorem GenTie_lz_rs : forall bits a,
  0 <= bits -> bits + 7 < B -> 64 * nlimbs bits < B -> length a = nlimbsN bits -> Forall inW a ->
  g_leading_zeros bits (nlimbs bits) a = Bits.leading_zeros bits a /\
  g_leading_ones bits (nlimbs bits) a = Bits.leading_ones bits a /\
  g_bit_len bits (nlimbs bits) a = Bits.bit_len bits a /\
  g_byte_len bits (nlimbs bits) a = Bits.byte_len bits a.
Proof. exact g_lz_family_eq. Qed.
Print Assumptions GenTie_lz_rs.

(* src/special.rs: checked_next_power_of_two, next_power_of_two *)
Theorem GenTie_special_pow2 : forall bits a,
  0 <= bits -> bits + 7 < B -> 64 * nlimbs bits < B -> length a = nlimbsN bits -> Forall inW a ->
  g_checked_next_power_of_two bits (nlimbs bits) a = Bits.checked_next_power_of_two bits a /\
  g_next_power_of_two bits (nlimbs bits) a = Bits.next_power_of_two bits a.
Proof. exact g_next_pow2_eq. Qed.
Print Assumptions GenTie_special_pow2.

(* src/bits.rs: trailing_zeros, trailing_ones (iter().position(..).map_or(..)) *)
Theorem GenTie_trailing_rs : forall bits a,
  0 <= bits -> 64 * nlimbs bits < B -> length a = nlimbsN bits ->
  g_trailing_zeros bits (nlimbs bits) a = Bits.trailing_zeros bits a /\
  g_trailing_ones bits (nlimbs bits) a = Bits.trailing_ones bits a.
Proof. exact g_trailing_eq. Qed.
Print Assumptions GenTie_trailing_rs.

(* src/pow.rs: the square-and-multiply loops `while !exp.is_zero()` run with the round bound BITS + 1 *)
Theorem GenTie_pow_rs : forall bits a e,
  0 <= bits -> nlimbs bits < B -> canon bits a -> canon bits e ->
  g_overflowing_pow bits (nlimbs bits) a e = Pow.overflowing_pow bits a e /\
  g_checked_pow bits (nlimbs bits) a e = Pow.checked_pow bits a e /\
  g_saturating_pow bits (nlimbs bits) a e = Pow.saturating_pow bits a e /\
  g_wrapping_pow bits (nlimbs bits) a e = Pow.wrapping_pow bits a e /\
  g_pow bits (nlimbs bits) a e = Pow.pow bits a e.
Proof. exact g_pow_eq. Qed.
Print Assumptions GenTie_pow_rs.

(* src/modular.rs: reduce_mod, add_mod (`>=`, `%=`, `-=` through Ord::cmp and impl_bin_op!) and the
   Uint-level mul_redc / square_redc (the const generic N of the kernels is the array length);
   mul_mod (raw-pointer view of the product buffer), pow_mod and inv_mod are outside the subset *)
Theorem GenTie_modular_rs : forall bits a b m inv,
  0 < bits -> nlimbs bits < B -> canon bits a -> canon bits b -> canon bits m ->
  g_reduce_mod bits (nlimbs bits) a m = Modular.reduce_mod bits a m /\
  g_add_mod bits (nlimbs bits) a b m = Modular.add_mod bits a b m /\
  g_u_mul_redc bits (nlimbs bits) a b m inv = Redc.uint_mul_redc bits a b m inv /\
  g_u_square_redc bits (nlimbs bits) a m inv = Redc.uint_square_redc bits a m inv.
Proof.
  intros bits a b m inv Hpos HB Ca Cb Cm.
  pose proof Ca as (La & Wa & _). pose proof Cb as (Lb & Wb & _). pose proof Cm as (Lm & Wm & _).
  exact (conj (g_reduce_mod_eq bits a m)
        (conj (g_add_mod_eq bits a b m ltac:(lia) ltac:(lia) Ca Cb Cm)
        (conj (g_u_mul_redc_eq bits m inv Hpos HB Lm Wm a b La Lb Wa Wb)
              (g_u_square_redc_eq bits m inv Hpos HB Lm Wm a La Wa)))).
Qed.
Print Assumptions GenTie_modular_rs.

(* src/algorithms/gcd/matrix.rs: the tuple struct Matrix, compose, apply_u128, from_u64 (whose
   `loop { .. return .. }` runs with the round bound 70 of the translator's table), from_u64_prefix
   (`while a3 >= LIMIT { .. break .. }`, round bound 64) and from_u128_prefix *)
Theorem GenTie_matrix_rs : forall s o a b r0 r1,
  wf_mat s -> wf_mat o -> 0 <= r0 < B -> 0 <= r1 < B ->
  g_mat_compose (mat_tuple s) (mat_tuple o) = omap mat_tuple (GcdMatrix.compose s o) /\
  g_mat_apply_u128 (mat_tuple s) a b = Val (GcdMatrix.apply_u128 s a b) /\
  g_mat_from_u64 r0 r1 = omap mat_tuple (GcdMatrix.from_u64 r0 r1) /\
  g_mat_from_u64_prefix r0 r1 = omap mat_tuple (GcdMatrix.from_u64_prefix r0 r1).
Proof.
  intros s o a b r0 r1 Hs Ho H0 H1.
  exact (conj (g_mat_compose_eq s o Hs Ho) (conj (g_mat_apply_u128_eq s a b)
        (conj (g_mat_from_u64_eq r0 r1 H0 H1) (g_mat_from_u64_prefix_eq r0 r1 H0 H1)))).
Qed.
Print Assumptions GenTie_matrix_rs.

Theorem GenTie_matrix_u128 : forall r0 r1,
  0 <= r0 < BB -> 0 <= r1 ->
  g_mat_from_u128_prefix r0 r1 = omap mat_tuple (GcdMatrix.from_u128_prefix r0 r1).
Proof. exact g_mat_from_u128_prefix_eq. Qed.
Print Assumptions GenTie_matrix_u128.

(* Matrix::apply, Matrix::from on Uint operands (Uint::from(u64) and try_into::<u64|u128>() are the
   conversions of Model/Conv.v on both sides), and the Lehmer loops of src/algorithms/gcd/mod.rs:
   `while b != ZERO` runs with the round bound 2*BITS + 2 of the translator's table *)
Theorem GenTie_gcd_rs : forall bits m a b,
  0 <= bits -> bits + 7 < B -> 64 * nlimbs bits < B -> words_mat m -> canon bits a -> canon bits b ->
  g_mat_apply bits (nlimbs bits) (mat_tuple m) a b = GcdMatrix.apply bits m a b /\
  g_mat_from bits (nlimbs bits) a b = omap mat_tuple (GcdMatrix.from bits a b) /\
  g_alg_gcd bits (nlimbs bits) a b = Gcd.gcd bits a b /\
  g_alg_gcd_extended bits (nlimbs bits) a b = Gcd.gcd_extended bits a b /\
  g_alg_inv_mod bits (nlimbs bits) a b = Gcd.inv_mod bits a b.
Proof.
  intros bits m a b H0 HbB HB Wm Ca Cb.
  exact (conj (g_mat_apply_eq bits H0 ltac:(pose proof (nlimbs_nonneg bits H0); lia) m a b Wm Ca Cb)
        (conj (g_mat_from_eq bits a b H0 HbB HB Ca Cb)
        (conj (g_alg_gcd_eq bits H0 HbB HB a b Ca Cb)
        (conj (g_alg_gcd_extended_eq bits H0 HbB HB a b Ca Cb) (g_alg_inv_mod_eq bits H0 HbB HB a b Ca Cb))))).
Qed.

(* src/gcd.rs (gcd, lcm, gcd_extended) and Uint::inv_mod (src/modular.rs) *)
Theorem GenTie_gcd_uint : forall bits a b,
  0 <= bits -> bits + 7 < B -> 64 * nlimbs bits < B -> canon bits a -> canon bits b ->
  g_u_gcd bits (nlimbs bits) a b = Gcd.uint_gcd bits a b /\
  g_u_gcd_extended bits (nlimbs bits) a b = Gcd.uint_gcd_extended bits a b /\
  g_u_inv_mod bits (nlimbs bits) a b = Gcd.inv_mod bits a b /\
  g_u_lcm bits (nlimbs bits) a b = Gcd.lcm bits a b.
Proof. intros bits a b H0 HbB HB Ca Cb. exact (g_u_wrappers_eq bits H0 HbB HB a b Ca Cb). Qed.
Print Assumptions GenTie_gcd_uint.
Print Assumptions GenTie_gcd_rs.

(* src/modular.rs: mul_mod — the product buffer `[[0u64; 2]; LIMBS]` is viewed as `&mut [u64]` of
   nlimbs(2*BITS) words through from_raw_parts_mut (more words than the buffer has = Panic); the kernels
   algorithms::addmul and algorithms::div are Model/Limbs.v / Model/Div.v on both sides — and pow_mod,
   whose `while exp > ZERO` runs with the round bound BITS + 1 *)
Theorem GenTie_modular_pow : forall bits a e m,
  0 <= bits -> nlimbs bits < B -> 2 * bits + 63 < B -> length e = nlimbsN bits ->
  g_mul_mod bits (nlimbs bits) a e m = Modular.mul_mod bits a e m /\
  g_pow_mod bits (nlimbs bits) a e m = Modular.pow_mod bits a e m.
Proof.
  intros bits a e m H0 HB HB2 Le.
  exact (conj (g_mul_mod_eq bits a e m H0 HB2) (g_pow_mod_eq bits a e m H0 HB HB2 Le)).
Qed.
Print Assumptions GenTie_modular_pow.

(* src/mul.rs: inv_ring — the u64 Newton steps in Wrapping<u64> arithmetic, `Self::from(2)` as From<i32>
   (Model/Conv.v on both sides), `while correct_limbs < LIMBS` with the round bound LIMBS *)
Theorem GenTie_inv_ring : forall bits a,
  0 <= bits -> 2 * nlimbs bits < B -> length a = nlimbsN bits -> Forall inW a ->
  g_inv_ring bits (nlimbs bits) a = Mul.inv_ring bits a.
Proof. intros bits a H0 HB La Wa. exact (g_inv_ring_eq bits H0 HB a La Wa). Qed.
Print Assumptions GenTie_inv_ring.

(* src/bits.rs: reverse_bits (`self.limbs.reverse()`, `for limb in &mut self.limbs`, `self >>= ..`) *)
Theorem GenTie_reverse_bits : forall bits a,
  0 <= bits -> nlimbs bits < B -> length a = nlimbsN bits ->
  g_reverse_bits bits (nlimbs bits) a = Val (Bits.reverse_bits bits a).
Proof. exact g_reverse_bits_eq. Qed.
Print Assumptions GenTie_reverse_bits.

(* src/bits.rs: most_significant_bits (`iter().rposition(..).unwrap_or(0)`, `first().copied().unwrap_or(0)`) *)
Theorem GenTie_msb : forall bits a,
  64 * lenZ a < B -> Forall inW a ->
  g_most_significant_bits bits (nlimbs bits) a = Bits.most_significant_bits a.
Proof. exact g_most_significant_bits_eq. Qed.
Print Assumptions GenTie_msb.

(* src/algorithms/div/mod.rs: the top-level dispatch algorithms::div.  `let divisor = &mut divisor[..=i]`,
   `let numerator = if let Some(i) = .. { &mut numerator[..=i] } else { ..; return; }` and
   `divisor.split_at_mut(n)` are sub-slice views (Prim.subslice), written back at every return
   (Prim.splice, innermost first); the callees div_nx1 / div_nx2 / div_nxm are the translated ones *)
Theorem GenTie_div_top : forall n d,
  Forall inW n -> Forall inW d -> lenZ n + 1 < B -> lenZ d + 1 < B ->
  g_div n d = Div.div_kernel n d.
Proof. exact g_div_eq. Qed.
Print Assumptions GenTie_div_top.

(* src/lib.rs: the from_limbs_slice family (`limbs[..n].copy_from_slice(..)`, `slice.split_at(LIMBS)`) *)
Theorem GenTie_from_limbs_slice : forall bits slice,
  0 <= bits -> nlimbs bits < B ->
  g_overflowing_from_limbs_slice bits (nlimbs bits) slice = Conv.overflowing_from_limbs_slice bits slice /\
  g_from_limbs_slice bits (nlimbs bits) slice = Conv.from_limbs_slice bits slice /\
  g_checked_from_limbs_slice bits (nlimbs bits) slice = Conv.checked_from_limbs_slice bits slice /\
  g_wrapping_from_limbs_slice bits (nlimbs bits) slice = Conv.wrapping_from_limbs_slice bits slice /\
  g_saturating_from_limbs_slice bits (nlimbs bits) slice = Conv.saturating_from_limbs_slice bits slice.
Proof.
  intros bits slice H0 HB. destruct (g_from_limbs_slice_family bits slice H0 HB) as (E1 & E2 & E3 & E4).
  exact (conj E1 (conj E2 (conj E3 (conj E4 (g_saturating_from_limbs_slice_eq bits slice H0 HB))))).
Qed.
Print Assumptions GenTie_from_limbs_slice.

(* src/log.rs: checked_log2, log2 (the other logarithms go through the f64 estimate approx_log2) *)
Theorem GenTie_log2 : forall bits a,
  0 <= bits -> bits + 7 < B -> 64 * nlimbs bits < B -> canon bits a ->
  g_checked_log2 bits (nlimbs bits) a = Log.checked_log2 bits a /\
  g_log2 bits (nlimbs bits) a = Log.log2 bits a.
Proof. exact g_log2_eq. Qed.
Print Assumptions GenTie_log2.

(* trait glue of src/add.rs and src/mul.rs: Sum / Product for iterators of Self and of &Self
   (`iter.fold(init, Self::g)`; the iterator is a list of Uint values) and Neg for Uint and &Uint *)
Theorem GenTie_fold_glue : forall bits xs a,
  0 <= bits -> nlimbs bits <= B -> Forall (canon bits) xs -> length a = nlimbsN bits ->
  g_sum bits (nlimbs bits) xs = Val (Add.usum bits xs) /\
  g_sum_ref bits (nlimbs bits) xs = Val (Add.usum bits xs) /\
  g_product bits (nlimbs bits) xs = Mul.product bits xs /\
  g_product_ref bits (nlimbs bits) xs = Mul.product bits xs /\
  g_neg bits (nlimbs bits) a = Val (Add.wrapping_neg bits a) /\
  g_neg_ref bits (nlimbs bits) a = Val (Add.wrapping_neg bits a).
Proof. intros bits xs a H0 HB Hx La. exact (g_fold_glue_eq bits H0 HB xs a Hx La). Qed.
Print Assumptions GenTie_fold_glue.

(* the premises are satisfiable and the generated code computes: reciprocal(2^63) = 2^64 - 1 *)
Example GenTie_nonvacuous :
  g_reciprocal_mg10 (2 ^ 63) = Val (2 ^ 64 - 1) /\ g_mask 65 = Val 1 /\ g_nlimbs 65 = Val 2 /\
  g_div_2x1_mg10 (2 ^ 127 - 1) (2 ^ 63) (2 ^ 64 - 1) = Val (2 ^ 64 - 1, 2 ^ 63 - 1) /\
  g_overflowing_add 65 2 [2 ^ 64 - 1; 1] [1; 0] = Val ([0; 0], true) /\
  g_checked_sub 65 2 [0; 0] [1; 0] = Val None /\
  g_div_3x2_ref (2 ^ 127) 0 (2 ^ 127 + 2 ^ 64 - 1) = Val (2 ^ 64 - 2) /\
  g_submul_nx1 [0; 5] [3; 0] (2 ^ 64 - 1) = Val (0, [3; 2]) /\
  g_adc_n [2 ^ 64 - 1; 1] [1; 0] 0 = Val (0, [0; 2]) /\
  g_div_nx1_normalized [5; 7] (2 ^ 63) = Val (5, [14; 0]) /\
  g_div_nx1 [5; 7] 3 = Val (0, [6148914691236517207; 2]) /\
  g_div [5; 7; 0] [3; 0] = Val ([6148914691236517207; 2; 0], [0; 0]) /\
  g_div [5; 0] [0; 7; 0] = Val ([0; 0], [5; 0; 0]) /\
  g_div_nx2 [5; 7; 1] (2 ^ 64 + 1) = Val (2 ^ 64, [5; 1; 0]) /\
  g_mul_redc 1 [3] [5] [15] 0x1111111111111111 = Val [0] /\
  g_add_nx1 [2 ^ 64 - 1; 2 ^ 64 - 1; 7] 1 = Val (0, [0; 0; 8]) /\
  g_slice_cmp [5; 1] [9; 1; 0] = Val Lt /\
  g_overflowing_shl 65 2 [0; 1] 1 = Val ([0; 0], true) /\
  g_overflowing_shr 65 2 [1; 1] 64 = Val ([1; 0], true) /\
  g_rotate_left 65 2 [0; 1] 1 = Val [1; 0] /\
  g_arithmetic_shr 65 2 [0; 1] 64 = Val [2 ^ 64 - 1; 1] /\
  g_bitxor 65 2 [5; 1] [3; 1] = Val [6; 0] /\
  g_leading_zeros 65 2 [5; 0] = Val 62 /\
  g_reverse_bits 65 2 [1; 0] = Val [0; 1] /\
  g_product 65 2 [[3; 0]; [5; 0]; [2 ^ 63; 0]] = Val [2 ^ 63; 1] /\
  g_sum 65 2 [[2 ^ 64 - 1; 1]; [1; 0]] = Val [0; 0] /\
  g_log2 65 2 [0; 1] = Val 64 /\
  g_checked_log2 65 2 [0; 0] = Val None /\
  g_overflowing_from_limbs_slice 65 2 [7; 3; 0; 9] = Val ([7; 1], true) /\
  g_checked_from_limbs_slice 65 2 [7] = Val (Some [7; 0]) /\
  g_most_significant_bits 130 3 [2 ^ 63; 5; 0] = Val (0xB000000000000000, 3) /\
  g_inv_ring 130 3 [3; 0; 0] = Val (Some [12297829382473034411; 12297829382473034410; 2]) /\
  g_mat_from_u64 240 46 = Val (9, 47, 23, 120, false) /\
  g_alg_gcd 65 2 [0; 1] [2 ^ 63 + 2 ^ 62; 0] = Val [2 ^ 62; 0] /\
  g_u_lcm 65 2 [6; 0] [4; 0] = Val (Some [12; 0]) /\
  g_alg_gcd_extended 65 2 [240; 0] [46; 0] = Val ([2; 0], [9; 0], [47; 0], false) /\
  g_alg_inv_mod 65 2 [3; 0] [13; 1] = Val (Some [6148914691236517210; 0]) /\
  g_mat_from_u64_prefix (2 ^ 63 + 12345) (2 ^ 62 + 999) = Val (0, 1, 1, 2, false) /\
  g_mat_from_u64_prefix (2 ^ 63 + 12345) 5700357408780482764 = Val (1009150, 1632839, 1536909, 2486771, false) /\
  g_mat_compose (1, 2, 3, 4, true) (5, 6, 7, 8, false) = Val (19, 22, 43, 50, false) /\
  g_pow_mod 65 2 [3; 0] [100; 0] [2 ^ 64 - 59; 1] = Val [13508270538830933661; 0] /\
  g_add_mod 65 2 [2 ^ 64 - 1; 1] [2 ^ 64 - 1; 1] [2 ^ 64 - 3; 1] = Val [4; 0] /\
  g_u_mul_redc 64 1 [3] [5] [15] 0x1111111111111111 = Val [0] /\
  g_overflowing_pow 65 2 [3; 0] [41; 0] = Val ([36472996377170786403 mod 2 ^ 64; 1], false) /\
  g_overflowing_pow 65 2 [3; 0] [42; 0] = Val ([(3 ^ 42) mod 2 ^ 64; ((3 ^ 42) / 2 ^ 64) mod 2], true) /\
  g_wrapping_pow 65 2 [0; 1] [2; 0] = Val [0; 0] /\
  g_trailing_zeros 65 2 [0; 1] = Val 64 /\
  g_trailing_ones 65 2 [7; 0] = Val 3 /\
  g_checked_next_power_of_two 65 2 [5; 0] = Val (Some [8; 0]) /\
  g_next_power_of_two 65 2 [1; 1] = Panic /\
  g_byte_len 65 2 [0; 1] = Val 9 /\
  g_square_redc 2 [5; 0] [9; 1] 0x71c71c71c71c71c7 = Val [14119730031728298775; 0] /\
  g_div_nxm_normalized [0x1656178c14142000; 0x821415dfe9e81612; 0x1616561616161616; 0x96000016820016]
                       [0x1415dfe9e8161414; 0x1656161616161682; 0x9600001682001616]
  = DivKnuth.div_nxm_normalized [0x1656178c14142000; 0x821415dfe9e81612; 0x1616561616161616; 0x96000016820016]
                       [0x1415dfe9e8161414; 0x1656161616161682; 0x9600001682001616] /\
  g_div_nxm [0x1656178c14142000; 0x821415dfe9e81612; 0x1616561616161616; 0x96000016820016]
            [0x1415dfe9e8161414; 0x1656161616161682; 0x9600001682001616]
  = Val ([0xffffffffffffff; 0; 0; 0], [0x166bf775fc2a3414; 0x1656161616161680; 0x9600001682001616]) /\
  (exists r, g_div_nxm_normalized [0x1656178c14142000; 0x821415dfe9e81612; 0x1616561616161616; 0x96000016820016]
                       [0x1415dfe9e8161414; 0x1656161616161682; 0x9600001682001616] = Val r).
Proof. vm_compute. repeat split. eexists. reflexivity. Qed.
