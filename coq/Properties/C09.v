(* Properties/C09.v — Radix conversion, parsing and formatting agree with positional notation.
   Only pinned statements, `exact`, and Print Assumptions live here. *)
From Coq Require Import ZArith List Bool.
From RV.Model Require Import Base Word Limbs BaseConv Str Fmt.
From RV.Run Require Import RunC09.
From RV.Proofs Require PfPositional PfBaseConv PfStr PfFmt PfC09.
Import ListNotations.
Local Open Scope Z_scope.

(* For every width >= 0 and all well-typed inputs, every entry point of the model (digit
   iterators, from_base_le/be, their round trip, from_str_radix, FromStr, the six fmt traits
   under every format spec of the grid) returns what the integer specification RunC09.spec
   prescribes: the positional digits, the denoted value or an applicable documented error,
   the reference formatting of the number. *)
Theorem C09_holds : forall c : call, wf c -> spec c (run c) = true.
Proof. exact PfC09.C09_all. Qed.
Check C09_holds : forall c : call, wf c -> spec c (run c) = true.
Print Assumptions C09_holds.

(* The specification's digit function is positional notation: it denotes the value, every
   digit is in range, there is no leading zero, and it is the only such digit string. *)
Theorem C09_digits_value : forall b v, 2 <= b -> 0 <= v -> value_le b (digits_le b v) = v.
Proof. exact PfPositional.value_digits. Qed.
Check C09_digits_value : forall b v, 2 <= b -> 0 <= v -> value_le b (digits_le b v) = v.
Print Assumptions C09_digits_value.

Theorem C09_digits_range : forall b v, 2 <= b ->
  Forall (fun d => 0 <= d < b) (digits_le b v).
Proof. exact PfPositional.digits_range. Qed.
Check C09_digits_range : forall b v, 2 <= b -> Forall (fun d => 0 <= d < b) (digits_le b v).
Print Assumptions C09_digits_range.

Theorem C09_digits_no_leading_zero : forall b v, 2 <= b -> 0 < v -> last (digits_le b v) 0 <> 0.
Proof. exact PfPositional.digits_last_nonzero. Qed.
Check C09_digits_no_leading_zero : forall b v, 2 <= b -> 0 < v -> last (digits_le b v) 0 <> 0.
Print Assumptions C09_digits_no_leading_zero.

Theorem C09_digits_unique : forall b ds, 2 <= b ->
  Forall (fun d => 0 <= d < b) ds -> last ds 1 <> 0 -> digits_le b (value_le b ds) = ds.
Proof. exact PfPositional.digits_unique. Qed.
Check C09_digits_unique : forall b ds, 2 <= b ->
  Forall (fun d => 0 <= d < b) ds -> last ds 1 <> 0 -> digits_le b (value_le b ds) = ds.
Print Assumptions C09_digits_unique.

(* The digit spigot terminates (within the model's fuel) and yields exactly the digits. *)
Theorem C09_to_base_le : forall limbs base, Forall inW limbs -> 2 <= base < B ->
  BaseConv.to_base_le limbs base = Val (digits_le base (eval limbs)).
Proof. exact PfBaseConv.to_base_le_spec. Qed.
Check C09_to_base_le : forall limbs base, Forall inW limbs -> 2 <= base < B ->
  BaseConv.to_base_le limbs base = Val (digits_le base (eval limbs)).
Print Assumptions C09_to_base_le.

Theorem C09_to_base_be : forall limbs base, Forall inW limbs -> 2 <= base < B ->
  BaseConv.to_base_be limbs base = Val (digits_be base (eval limbs)).
Proof. exact PfBaseConv.to_base_be_spec. Qed.
Check C09_to_base_be : forall limbs base, Forall inW limbs -> 2 <= base < B ->
  BaseConv.to_base_be limbs base = Val (digits_be base (eval limbs)).
Print Assumptions C09_to_base_be.

(* On a valid digit string: Overflow exactly when the denoted value is >= 2^BITS, otherwise
   the canonical Uint of the value. *)
Theorem C09_from_base_le : forall bits base ds,
  0 <= bits -> 2 <= base < B -> Forall (fun d => 0 <= d < base) ds ->
  BaseConv.from_base_le bits base ds =
  Val (if 2 ^ bits <=? value_le base ds then Err BOverflow
       else Ok (uint_of bits (value_le base ds))).
Proof. exact PfC09.from_base_le_exact. Qed.
Check C09_from_base_le : forall bits base ds,
  0 <= bits -> 2 <= base < B -> Forall (fun d => 0 <= d < base) ds ->
  BaseConv.from_base_le bits base ds =
  Val (if 2 ^ bits <=? value_le base ds then Err BOverflow
       else Ok (uint_of bits (value_le base ds))).
Print Assumptions C09_from_base_le.

Theorem C09_from_base_be : forall bits base ds,
  0 <= bits -> 2 <= base < B -> Forall (fun d => 0 <= d < base) ds ->
  BaseConv.from_base_be bits base ds =
  Val (if 2 ^ bits <=? value_be base ds then Err BOverflow
       else Ok (uint_of bits (value_be base ds))).
Proof. exact PfC09.from_base_be_exact. Qed.
Check C09_from_base_be : forall bits base ds,
  0 <= bits -> 2 <= base < B -> Forall (fun d => 0 <= d < base) ds ->
  BaseConv.from_base_be bits base ds =
  Val (if 2 ^ bits <=? value_be base ds then Err BOverflow
       else Ok (uint_of bits (value_be base ds))).
Print Assumptions C09_from_base_be.

Theorem C09_from_base_invalid_base : forall bits base ds, base < 2 ->
  BaseConv.from_base_le bits base ds = Val (Err (BInvalidBase base)) /\
  BaseConv.from_base_be bits base ds = Val (Err (BInvalidBase base)).
Proof. exact PfC09.from_base_invalid_base. Qed.
Check C09_from_base_invalid_base : forall bits base ds, base < 2 ->
  BaseConv.from_base_le bits base ds = Val (Err (BInvalidBase base)) /\
  BaseConv.from_base_be bits base ds = Val (Err (BInvalidBase base)).
Print Assumptions C09_from_base_invalid_base.

(* The model's char table is the documented alphabet table of the specification. *)
Theorem C09_alphabets : forall radix c,
  classify radix c = match char_item radix c with
                     | SDigit d => CDigit d | SIgnored => CSkip | SInvalid => CBad end.
Proof. exact PfStr.classify_item. Qed.
Check C09_alphabets : forall radix c,
  classify radix c = match char_item radix c with
                     | SDigit d => CDigit d | SIgnored => CSkip | SInvalid => CBad end.
Print Assumptions C09_alphabets.

(* Formatting: for every trait, format spec, width and value the text is the reference
   formatting (no panic: the DisplayBuffer of BITS bytes suffices). *)
Theorem C09_fmt : forall bits t s a, 0 <= bits -> canon bits a -> 0 <= t <= 5 ->
  Fmt.fmt bits t s a = Val (ref_fmt t s (eval a)).
Proof. exact PfFmt.fmt_spec. Qed.
Check C09_fmt : forall bits t s a, 0 <= bits -> canon bits a -> 0 <= t <= 5 ->
  Fmt.fmt bits t s a = Val (ref_fmt t s (eval a)).
Print Assumptions C09_fmt.

(* Non-vacuity: concrete non-trivial calls meet wf; the F6 regression ("g" in base 64 is 32);
   a value just above the decimal chunk base 10^19 needs the zero padding of the second chunk;
   overflow by exactly one. *)
Example C09_nonvacuous :
  wfb (from_str_radix 64 64 [103]) = true /\
  run (from_str_radix 64 64 [103]) = Val [TL [32]] /\
  wfb (fmt 65 0 false false false 0 false 0 [0x8ac7230489e80005; 0]) = true /\
  run (fmt 65 0 false false false 0 false 0 [0x8ac7230489e80005; 0]) =
    Val [TY [49;48;48;48;48;48;48;48;48;48;48;48;48;48;48;48;48;48;48;53]] /\
  run (from_base_be 8 10 [2;5;6]) = Val [TErr 1] /\
  run (from_base_le 8 10 [5;5;2]) = Val [TL [255]] /\
  run (to_base_le 8 [255] 10) = Val [TL [5;5;2]].
Proof. repeat split; vm_compute; reflexivity. Qed.
