(* Properties/C04.v — Values stay canonical; equality, hashing and ordering follow the numeric
   value; ill-formed (BITS, LIMBS) pairs have no obtainable value.
   Only pinned statements, `exact`, and Print Assumptions live here.  Four parts:
   (a) operation histories, (b) ==/Hash/Ord, (c) rejecting constructors / constants / generators,
   (d) ill-formed pairs over the table regenerated from the crate source (Model/CtorTable.v). *)
From Coq Require Import ZArith List Bool.
From RV.Model Require Import Base Word.
From RV.Model Require Opaque History Cmp Conv Gen Ctor CtorTable.
From RV.Run Require RunC04a RunC04b RunC04c RunC04d RunC02 RunC03 RunC07 RunC08 RunC13.
From RV.Proofs Require PfC04a PfC04b PfC04c PfC04d PfC02 PfC03Closed PfC07 PfC08 PfC13Closed.
From RV.Model Require ApproxPow2.
Local Open Scope Z_scope.

(* ======================= (a) closure under operation histories ======================= *)
(* For every width 0 <= BITS < 2^64, every register file of canonical values and every program
   (any length, any of the 102 opcodes, any immediates): the model's run is exactly the run of the
   integer interpreter RunC04a.zrun written back as canonical limbs — every register of the
   result is canonical and denotes the integer the interpreter computed; a panic of the model is
   a panic of the interpreter. *)
Theorem C04a_holds : forall c : RunC04a.call, RunC04a.wf c -> RunC04a.spec c (RunC04a.run c) = true.
Proof. exact PfC04a.C04a_all. Qed.
Check C04a_holds : forall c : RunC04a.call, RunC04a.wf c -> RunC04a.spec c (RunC04a.run c) = true.
Print Assumptions C04a_holds.

(* one step keeps the invariant "all registers canonical" *)
Theorem C04_step_canon : forall bits regs log i regs' log',
  0 <= bits < 2 ^ 64 -> Forall (canon bits) regs -> Forall inW (History.i_imm i) ->
  History.step bits (regs, log) i = Val (regs', log') -> Forall (canon bits) regs'.
Proof. exact PfC04a.step_canon. Qed.
Check C04_step_canon : forall bits regs log i regs' log',
  0 <= bits < 2 ^ 64 -> Forall (canon bits) regs -> Forall inW (History.i_imm i) ->
  History.step bits (regs, log) i = Val (regs', log') -> Forall (canon bits) regs'.
Print Assumptions C04_step_canon.

(* ... hence every history does (induction over the program) *)
Theorem C04_history_canon : forall bits regs prog regs' log',
  0 <= bits < 2 ^ 64 -> Forall (canon bits) regs -> Forall inW prog ->
  History.run_history bits regs prog = Val (regs', log') -> Forall (canon bits) regs'.
Proof. exact PfC04a.history_canon. Qed.
Check C04_history_canon : forall bits regs prog regs' log',
  0 <= bits < 2 ^ 64 -> Forall (canon bits) regs -> Forall inW prog ->
  History.run_history bits regs prog = Val (regs', log') -> Forall (canon bits) regs'.
Print Assumptions C04_history_canon.

(* every operation: the model's result is the integer interpreter's result as canonical limbs,
   and the integer interpreter stays in [0, 2^BITS) *)
Theorem C04_sem_ok : forall bits a b c imm,
  0 <= bits < 2 ^ 64 -> canon bits a -> canon bits b -> canon bits c -> Forall inW imm ->
  forall o, History.sem o bits a b c imm
            = History.lift bits (RunC04a.zsem o bits (eval a) (eval b) (eval c) imm)
            /\ PfC04a.zrange bits (RunC04a.zsem o bits (eval a) (eval b) (eval c) imm).
Proof. exact PfC04a.sem_ok. Qed.
Check C04_sem_ok : forall bits a b c imm,
  0 <= bits < 2 ^ 64 -> canon bits a -> canon bits b -> canon bits c -> Forall inW imm ->
  forall o, History.sem o bits a b c imm
            = History.lift bits (RunC04a.zsem o bits (eval a) (eval b) (eval c) imm)
            /\ PfC04a.zrange bits (RunC04a.zsem o bits (eval a) (eval b) (eval c) imm).
Print Assumptions C04_sem_ok.

(* the only opcode for which `sem` is still the specification function (Model/Root.v needs the
   floating-point estimate as an observed input); all other opcodes run the models of the crate's code *)
Example C04_opaque_ops : History.opaque_ops = [History.Root].
Proof. reflexivity. Qed.

(* ======================= (b) equality, hashing, ordering ======================= *)
Theorem C04b_holds : forall c : RunC04b.call, RunC04b.wf c -> RunC04b.spec c (RunC04b.run c) = true.
Proof. exact PfC04b.C04b_all. Qed.
Check C04b_holds : forall c : RunC04b.call, RunC04b.wf c -> RunC04b.spec c (RunC04b.run c) = true.
Print Assumptions C04b_holds.

Theorem C04_eq_iff_value : forall bits a b, canon bits a -> canon bits b -> (a = b <-> eval a = eval b).
Proof. exact PfC04b.eq_iff_value. Qed.
Check C04_eq_iff_value : forall bits a b, canon bits a -> canon bits b -> (a = b <-> eval a = eval b).
Print Assumptions C04_eq_iff_value.

Theorem C04_hash_value : forall bits a b,
  canon bits a -> canon bits b -> eval a = eval b -> Cmp.uhash a = Cmp.uhash b.
Proof. exact PfC04b.hash_value. Qed.
Check C04_hash_value : forall bits a b,
  canon bits a -> canon bits b -> eval a = eval b -> Cmp.uhash a = Cmp.uhash b.
Print Assumptions C04_hash_value.

Theorem C04_cmp_spec : forall bits a b,
  canon bits a -> canon bits b -> Cmp.ucmp a b = Z.compare (eval a) (eval b).
Proof. exact PfC04b.cmp_spec. Qed.
Check C04_cmp_spec : forall bits a b,
  canon bits a -> canon bits b -> Cmp.ucmp a b = Z.compare (eval a) (eval b).
Print Assumptions C04_cmp_spec.

Theorem C04_min_max : forall bits a b, canon bits a -> canon bits b ->
  (canon bits (Cmp.umin a b) /\ eval (Cmp.umin a b) = Z.min (eval a) (eval b)) /\
  (canon bits (Cmp.umax a b) /\ eval (Cmp.umax a b) = Z.max (eval a) (eval b)).
Proof. intros bits a b Ha Hb. split; [exact (PfC04b.umin_spec bits a b Ha Hb)|exact (PfC04b.umax_spec bits a b Ha Hb)]. Qed.
Check C04_min_max : forall bits a b, canon bits a -> canon bits b ->
  (canon bits (Cmp.umin a b) /\ eval (Cmp.umin a b) = Z.min (eval a) (eval b)) /\
  (canon bits (Cmp.umax a b) /\ eval (Cmp.umax a b) = Z.max (eval a) (eval b)).
Print Assumptions C04_min_max.

(* ======================= (c) rejecting constructors, constants, generators ======================= *)
Theorem C04c_holds : forall c : RunC04c.call, RunC04c.wf c -> RunC04c.spec c (RunC04c.run c) = true.
Proof. exact PfC04c.C04c_all. Qed.
Check C04c_holds : forall c : RunC04c.call, RunC04c.wf c -> RunC04c.spec c (RunC04c.run c) = true.
Print Assumptions C04c_holds.

(* from_limbs accepts exactly the arrays that denote a value below 2^BITS, unchanged; panics otherwise *)
Theorem C04_from_limbs_rejects : forall bits l,
  0 <= bits -> length l = nlimbsN bits -> Forall inW l ->
  Conv.from_limbs bits l = if eval l <? 2 ^ bits then Val l else Panic.
Proof. exact PfC04c.from_limbs_rejects. Qed.
Check C04_from_limbs_rejects : forall bits l,
  0 <= bits -> length l = nlimbsN bits -> Forall inW l ->
  Conv.from_limbs bits l = if eval l <? 2 ^ bits then Val l else Panic.
Print Assumptions C04_from_limbs_rejects.

(* Arbitrary::arbitrary yields a canonical value from any byte string *)
Theorem C04_arbitrary_canon : forall bits bs, 0 <= bits -> Forall RunC04c.isbyte bs ->
  exists r, Gen.arbitrary bits bs = Val r /\ canon bits r.
Proof. exact PfC04c.arbitrary_canon. Qed.
Check C04_arbitrary_canon : forall bits bs, 0 <= bits -> Forall RunC04c.isbyte bs ->
  exists r, Gen.arbitrary bits bs = Val r /\ canon bits r.
Print Assumptions C04_arbitrary_canon.

(* ======================= (d) ill-formed (BITS, LIMBS) pairs ======================= *)
Theorem C04d_holds : forall c : RunC04d.call, RunC04d.wf c -> RunC04d.spec c (RunC04d.run c) = true.
Proof. exact PfC04d.C04d_all. Qed.
Check C04d_holds : forall c : RunC04d.call, RunC04d.wf c -> RunC04d.spec c (RunC04d.run c) = true.
Print Assumptions C04d_holds.

(* over the table regenerated from the source on this run: no constructor yields a value *)
Theorem C04_illformed_unobtainable : forall c bits limbs args,
  Ctor.ill_formed bits limbs ->
  forall v, Ctor.ctor_outcome CtorTable.mentions_limbs CtorTable.runtime_check c bits limbs args <> Val v.
Proof. exact PfC04d.illformed_unobtainable. Qed.
Check C04_illformed_unobtainable : forall c bits limbs args,
  Ctor.ill_formed bits limbs ->
  forall v, Ctor.ctor_outcome CtorTable.mentions_limbs CtorTable.runtime_check c bits limbs args <> Val v.
Print Assumptions C04_illformed_unobtainable.

(* approx_pow2 (libm's exp2 is an observed input of the model): whatever the estimate, a returned
   value is canonical and the call does not panic *)
Theorem C04_approx_pow2_canon : forall bits x b64, 0 <= bits -> inW x -> inW b64 ->
  exists r, ApproxPow2.approx_pow2 bits x b64 = Val r /\
            match r with Some w => canon bits w | None => True end.
Proof. exact PfC04c.approx_pow2_canon. Qed.
Check C04_approx_pow2_canon : forall bits x b64, 0 <= bits -> inW x -> inW b64 ->
  exists r, ApproxPow2.approx_pow2 bits x b64 = Val r /\
            match r with Some w => canon bits w | None => True end.
Print Assumptions C04_approx_pow2_canon.

(* parts (e)-(i): the remaining producers of Uint values run through the calls, models and
   specifications of their own properties (whose specifications compare the raw result limbs
   with the canonical limbs `uint_of bits value`) *)
Theorem C04_other_producers :
  (forall c, RunC07.wf c -> RunC07.spec c (RunC07.run c) = true) /\
  (forall c, RunC08.wf c -> RunC08.spec c (RunC08.run c) = true) /\
  (forall c, RunC13.wf c -> RunC13.spec c (RunC13.run c) = true) /\
  (forall c, RunC03.wf c -> RunC03.spec c (RunC03.run c) = true) /\
  (forall c, RunC02.wf c -> RunC02.spec c (RunC02.run c) = true).
Proof.
  exact (conj PfC07.C07_all (conj PfC08.C08_all (conj PfC13Closed.C13_all
        (conj PfC03Closed.C03_all PfC02.C02_all)))).
Qed.
Check C04_other_producers :
  (forall c, RunC07.wf c -> RunC07.spec c (RunC07.run c) = true) /\
  (forall c, RunC08.wf c -> RunC08.spec c (RunC08.run c) = true) /\
  (forall c, RunC13.wf c -> RunC13.spec c (RunC13.run c) = true) /\
  (forall c, RunC03.wf c -> RunC03.spec c (RunC03.run c) = true) /\
  (forall c, RunC02.wf c -> RunC02.spec c (RunC02.run c) = true).
Print Assumptions C04_other_producers.

(* ======================= non-vacuity ======================= *)
(* U65: MAX + 1 wraps to 0 with the flag, !0 = MAX is masked, MAX * MAX = 1 — every register canonical *)
Example C04a_nonvacuous :
  let c := RunC04a.history 65 [[0xffffffffffffffff; 1]; [1; 0]; [0; 0]]
             [1; 2; 0; 1; 0; 0;   43; 1; 2; 0; 0; 0;   110; 0; 0; 0; 0; 0] in
  RunC04a.wfb c = true /\
  RunC04a.run c = Val [TL [1; 0]; TL [0xffffffffffffffff; 1]; TL [0; 0]; TL [1; 0; 0]].
Proof. split; vm_compute; reflexivity. Qed.
Example C04b_nonvacuous :
  RunC04b.wfb (RunC04b.cmp_ops 65 [0; 1] [0xffffffffffffffff; 0]) = true /\
  Cmp.ucmp [0; 1] [0xffffffffffffffff; 0] = Gt.
Proof. split; vm_compute; reflexivity. Qed.
Example C04c_nonvacuous :
  RunC04c.wfb (RunC04c.from_limbs 65 [0; 2]) = true /\
  RunC04c.run (RunC04c.from_limbs 65 [0; 2]) = Panic /\
  RunC04c.run (RunC04c.rand09 65 0 [0; 0] [0xffffffffffffffff; 0xffffffffffffffff]) = Val [TL [0xffffffffffffffff; 1]].
Proof. repeat split; vm_compute; reflexivity. Qed.
(* approx_pow2(63.0) at BITS = 63: the leading bits 2^63 shifted by 0 do not fit -> None;
   approx_pow2(1.6) at BITS = 64 with the estimate 2^0.6 * 2^63 -> 3 *)
Example C04_approx_pow2_nonvacuous :
  ApproxPow2.approx_pow2 63 0x404f800000000000 0x8000000000000000 = Val None /\
  ApproxPow2.approx_pow2 64 0x3ff999999999999a 0xc2023aa0bfd5ccaa = Val (Some [3]).
Proof. split; vm_compute; reflexivity. Qed.
Example C04d_nonvacuous :
  RunC04d.wfb (RunC04d.ctor 64 2 3 0) = true /\ RunC04d.run (RunC04d.ctor 64 2 3 0) = CompileError /\
  RunC04d.run (RunC04d.ctor 64 1 3 0) = Val [TSome].
Proof. repeat split; vm_compute; reflexivity. Qed.
