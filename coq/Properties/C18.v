(* Properties/C18.v — Floating-point conversions round predictably and classify special values.
   Only pinned statements, `exact`, and Print Assumptions live here. *)
From Coq Require Import ZArith List Bool.
From RV.Model Require Import Base Word Add Float.
From RV.Run Require Import RunC18.
From RV.Proofs Require PfFloatUint PfFloat PfFloatTo PfFloatSpec PfC18.
Local Open Scope Z_scope.

(* For every width >= 0: every f64 / f32 bit pattern through try_from / from / saturating_from /
   wrapping_from, and every canonical Uint through From<Uint>/From<&Uint> for f64 / f32 (singly
   and in pairs), the model returns exactly what RunC18.spec prescribes: NaN -> NotANumber,
   f < 0 -> ValueNegative, otherwise n = floor(f + 1/2) computed exactly, Ok n iff n < 2^BITS,
   else ValueTooLarge (payloads: BITS and the value wrapped modulo 2^BITS); MAX / 0 / 0 for the
   saturating form; to-float: one of the two neighbours of the value (the value itself when
   representable), +inf exactly from 2^emax - 2^(emax-prec-1) on, monotone. *)
Theorem C18_holds : forall c : call, wf c -> spec c (run c) = true.
Proof. exact PfC18.C18_all. Qed.
Check C18_holds : forall c : call, wf c -> spec c (run c) = true.
Print Assumptions C18_holds.

(* Prop-level restatements of the building blocks. *)
(* float -> Uint on bit patterns: the model's Result is determined by the integer classification
   RunC18.classify (NaN / -inf / negative / +inf / non-negative with n = floor(|f| + 1/2)). *)
Theorem C18_try_from_f64 : forall bits x, 0 <= bits -> 0 <= x ->
  uint_try_from_f64 bits x = Val (PfFloat.res_of_class bits (classify 53 1024 x)).
Proof. exact PfFloat.uint_try_from_f64_spec. Qed.
Check C18_try_from_f64 : forall bits x, 0 <= bits -> 0 <= x ->
  uint_try_from_f64 bits x = Val (PfFloat.res_of_class bits (classify 53 1024 x)).
Print Assumptions C18_try_from_f64.

Theorem C18_try_from_f32 : forall bits x, 0 <= bits -> 0 <= x ->
  uint_try_from_f32 bits x = Val (PfFloat.res_of_class bits (classify 24 128 x)).
Proof. exact PfFloat.uint_try_from_f32_spec. Qed.
Check C18_try_from_f32 : forall bits x, 0 <= bits -> 0 <= x ->
  uint_try_from_f32 bits x = Val (PfFloat.res_of_class bits (classify 24 128 x)).
Print Assumptions C18_try_from_f32.

(* Uint -> float: the result pattern is the encoding of the integer
   Fv v = rne_prec(top 64 bits of v) * 2^exponent (one rounding to nearest-even of the truncated
   top 64 bits, then an exact scaling that overflows to +inf from 2^emax on) ... *)
Theorem C18_to_float_value : forall prec emax, 1 < prec < 64 -> 65 <= emax ->
  forall a, Forall inW a ->
  run_to prec emax a = Val (fenc prec emax (PfFloatTo.Fv prec (eval a))).
Proof. exact PfFloatTo.run_to_fenc. Qed.
Check C18_to_float_value : forall prec emax, 1 < prec < 64 -> 65 <= emax ->
  forall a, Forall inW a ->
  run_to prec emax a = Val (fenc prec emax (PfFloatTo.Fv prec (eval a))).
Print Assumptions C18_to_float_value.

(* ... which is a neighbour of v, exact when representable, +inf exactly from the threshold ... *)
Theorem C18_to_float_neighbour : forall prec emax, 1 < prec < 64 -> 65 <= emax ->
  forall v, 0 <= v -> spec_to prec emax v (fenc prec emax (PfFloatTo.Fv prec v)) = true.
Proof. exact PfFloatTo.spec_to_Fv. Qed.
Check C18_to_float_neighbour : forall prec emax, 1 < prec < 64 -> 65 <= emax ->
  forall v, 0 <= v -> spec_to prec emax v (fenc prec emax (PfFloatTo.Fv prec v)) = true.
Print Assumptions C18_to_float_neighbour.

(* ... and monotone in v, as an integer and as a float. *)
Theorem C18_to_float_monotone : forall prec, 1 < prec < 64 ->
  forall v1 v2, 0 <= v1 <= v2 -> PfFloatTo.Fv prec v1 <= PfFloatTo.Fv prec v2.
Proof. exact PfFloatTo.Fv_mono. Qed.
Check C18_to_float_monotone : forall prec, 1 < prec < 64 ->
  forall v1 v2, 0 <= v1 <= v2 -> PfFloatTo.Fv prec v1 <= PfFloatTo.Fv prec v2.
Print Assumptions C18_to_float_monotone.

Theorem C18_to_float_monotone_pattern : forall prec emax, 1 < prec < 64 -> 65 <= emax ->
  forall v1 v2, 0 <= v1 <= v2 ->
  fle prec emax (fenc prec emax (PfFloatTo.Fv prec v1)) (fenc prec emax (PfFloatTo.Fv prec v2)) = true.
Proof. exact PfFloatTo.fle_Fv. Qed.
Check C18_to_float_monotone_pattern : forall prec emax, 1 < prec < 64 -> 65 <= emax ->
  forall v1 v2, 0 <= v1 <= v2 ->
  fle prec emax (fenc prec emax (PfFloatTo.Fv prec v1)) (fenc prec emax (PfFloatTo.Fv prec v2)) = true.
Print Assumptions C18_to_float_monotone_pattern.

(* The vocabulary of the specification is sound: lower / upper are the largest representable
   integer <= v and the smallest representable integer >= v (prec significant bits). *)
Theorem C18_neighbours_sound : forall prec v, 1 < prec -> 0 <= v ->
  lower prec v <= v <= upper prec v /\
  PfFloatSpec.representable prec (lower prec v) /\ PfFloatSpec.representable prec (upper prec v) /\
  (forall x, 0 <= x -> PfFloatSpec.representable prec x -> x <= v -> x <= lower prec v) /\
  (forall x, 0 <= x -> PfFloatSpec.representable prec x -> v <= x -> upper prec v <= x).
Proof. exact PfFloatSpec.neighbours_sound. Qed.
Check C18_neighbours_sound : forall prec v, 1 < prec -> 0 <= v ->
  lower prec v <= v <= upper prec v /\
  PfFloatSpec.representable prec (lower prec v) /\ PfFloatSpec.representable prec (upper prec v) /\
  (forall x, 0 <= x -> PfFloatSpec.representable prec x -> x <= v -> x <= lower prec v) /\
  (forall x, 0 <= x -> PfFloatSpec.representable prec x -> v <= x -> upper prec v <= x).
Print Assumptions C18_neighbours_sound.

(* Non-vacuity: the regression input of the repaired defect F10 (an odd integer in [2^52, 2^53)),
   a half that rounds up into ValueTooLarge, and a to-float tie that rounds to even. *)
Example C18_nonvacuous :
  wfb (try_from_f64 64 0x4330000000000001) = true /\
  run (try_from_f64 64 0x4330000000000001) = Val [TL [4503599627370497]] /\
  run (try_from_f64 3 0x401e000000000000) = Val [TErr 1; TZ 3; TL [0]] /\
  wfb (to_f64 64 1 [0x8000000000000400]) = true /\
  run (to_f64 64 1 [0x8000000000000400]) = Val [TZ 0x43e0000000000000] /\
  run (to_f64 64 1 [0x8000000000000c00]) = Val [TZ 0x43e0000000000002].
Proof. repeat split; vm_compute; reflexivity. Qed.
