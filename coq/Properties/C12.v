(* Properties/C12.v — GCD, LCM, extended GCD and Lehmer update matrices.
   Only pinned statements, `exact`, and Print Assumptions live here. *)
From Coq Require Import ZArith List Bool.
From RV.Model Require Import Base Word GcdMatrix.
From RV.Model Require Gcd.
From RV.Run Require Import RunC12.
From RV.Proofs Require PfGcdUint PfGcd PfGcdMatrix PfGcdInv PfGcdExact PfC12 PfC12Closed.
Import ListNotations.
Local Open Scope Z_scope.

(* For every width >= 0 and all canonical operands, every entry point of the model —
   Uint::{gcd, lcm, gcd_extended}, ruint::algorithms::{gcd, gcd_extended, inv_mod} and
   LehmerMatrix::{IDENTITY, from (+apply), apply, apply_u128, compose, from_u64, from_u64_prefix,
   from_u128_prefix} — returns what the integer specification RunC12.spec prescribes.
   No hypothesis: the division contract is PfDiv.div_kernel_spec (C14), the Lehmer step
   property is PfGcdMatrix.LehmerStepOK_holds. *)
Theorem C12_holds : forall c : call, wf c -> spec c (run c) = true.
Proof. exact PfC12Closed.C12_all. Qed.
Check C12_holds : forall c : call, wf c -> spec c (run c) = true.
Print Assumptions C12_holds.

(* A Lehmer update matrix produced for any a >= b is the identity or an exact step: over the
   integers (no wrap) it maps (a, b) to (c, d) with 0 <= d <= c <= a, d < b, 2cd <= ab,
   gcd(c, d) = gcd(a, b); its entries are values of Uint<BITS>, its determinant is +-1 as the
   sign flag says and its second row dominates the first. *)
Theorem C12_lehmer_step : forall bits a b,
  0 <= bits -> canon bits a -> canon bits b -> eval b <= eval a ->
  exists m, from bits a b = Val m /\ PfGcdUint.wordsP m /\
    (m = IDENTITY \/
     (m <> IDENTITY /\ PfGcdUint.fitsP bits m /\ PfGcd.unimod m /\
      PfGcd.good_step m (eval a) (eval b))).
Proof. exact PfGcdMatrix.LehmerStepOK_holds. Qed.
Check C12_lehmer_step : forall bits a b,
  0 <= bits -> canon bits a -> canon bits b -> eval b <= eval a ->
  exists m, from bits a b = Val m /\ PfGcdUint.wordsP m /\
    (m = IDENTITY \/
     (m <> IDENTITY /\ PfGcdUint.fitsP bits m /\ PfGcd.unimod m /\
      PfGcd.good_step m (eval a) (eval b))).
Print Assumptions C12_lehmer_step.

(* Jebelean / Collins: the matrix chosen from two leading words is valid for EVERY continuation
   of those words by k more bits; its entries stay below 2^32 (the SWAR halves never carry). *)
Theorem C12_prefix_exact : forall A0 A1,
  2 ^ 63 <= A0 < B -> 0 <= A1 <= A0 ->
  exists m, from_u64_prefix A0 A1 = Val m /\ PfGcdMatrix.small32 m /\
    (m = IDENTITY \/
     (m <> IDENTITY /\ PfGcd.unimod m /\
      forall k x y, 0 <= k -> 0 <= x < 2 ^ k -> 0 <= y < 2 ^ k ->
        PfGcd.good_step m (A0 * 2 ^ k + x) (A1 * 2 ^ k + y))).
Proof. exact PfGcdMatrix.from_u64_prefix_spec. Qed.
Check C12_prefix_exact : forall A0 A1,
  2 ^ 63 <= A0 < B -> 0 <= A1 <= A0 ->
  exists m, from_u64_prefix A0 A1 = Val m /\ PfGcdMatrix.small32 m /\
    (m = IDENTITY \/
     (m <> IDENTITY /\ PfGcd.unimod m /\
      forall k x y, 0 <= k -> 0 <= x < 2 ^ k -> 0 <= y < 2 ^ k ->
        PfGcd.good_step m (A0 * 2 ^ k + x) (A1 * 2 ^ k + y))).
Print Assumptions C12_prefix_exact.

(* Prop-level restatements of the value theorems *)
Theorem C12_gcd : forall bits a b,
  0 <= bits -> canon bits a -> canon bits b ->
  Gcd.gcd bits a b = Val (uint_of bits (Z.gcd (eval a) (eval b))).
Proof. exact (PfGcd.gcd_spec PfC12Closed.DivKernelOK_holds PfGcdMatrix.LehmerStepOK_holds). Qed.
Check C12_gcd : forall bits a b,
  0 <= bits -> canon bits a -> canon bits b ->
  Gcd.gcd bits a b = Val (uint_of bits (Z.gcd (eval a) (eval b))).
Print Assumptions C12_gcd.

(* the Bezout identity of the property (modulo 2^BITS) ... *)
Theorem C12_gcd_extended : forall bits a b,
  0 <= bits -> canon bits a -> canon bits b ->
  exists g x y sign, Gcd.gcd_extended bits a b = Val (g, x, y, sign) /\
    g = uint_of bits (Z.gcd (eval a) (eval b)) /\ canon bits x /\ canon bits y /\
    (if sign then eval a * eval x - eval b * eval y else eval b * eval y - eval a * eval x)
      mod 2 ^ bits = Z.gcd (eval a) (eval b) mod 2 ^ bits.
Proof.
  intros bits a b H Ha Hb.
  destruct (PfGcd.gcd_extended_spec PfC12Closed.DivKernelOK_holds PfGcdMatrix.LehmerStepOK_holds
              bits a b H Ha Hb) as ([[[g x] y] sign] & E & Hok).
  exists g, x, y, sign. split; [exact E | exact Hok].
Qed.
Check C12_gcd_extended : forall bits a b,
  0 <= bits -> canon bits a -> canon bits b ->
  exists g x y sign, Gcd.gcd_extended bits a b = Val (g, x, y, sign) /\
    g = uint_of bits (Z.gcd (eval a) (eval b)) /\ canon bits x /\ canon bits y /\
    (if sign then eval a * eval x - eval b * eval y else eval b * eval y - eval a * eval x)
      mod 2 ^ bits = Z.gcd (eval a) (eval b) mod 2 ^ bits.
Print Assumptions C12_gcd_extended.

(* ... and the stronger fact: with x, y read as plain unsigned integers the identity is exact
   over Z (this pins the `even` bookkeeping, invisible modulo 2^BITS) *)
Theorem C12_gcd_extended_exact : forall bits a b,
  0 <= bits -> canon bits a -> canon bits b ->
  exists g x y sign, Gcd.gcd_extended bits a b = Val (g, x, y, sign) /\
    g = uint_of bits (Z.gcd (eval a) (eval b)) /\ canon bits x /\ canon bits y /\
    (if sign then eval a * eval x - eval b * eval y else eval b * eval y - eval a * eval x)
      = Z.gcd (eval a) (eval b).
Proof.
  intros bits a b H Ha Hb.
  destruct (PfGcdExact.gcd_extended_exact PfC12Closed.DivKernelOK_holds bits a b H Ha Hb)
    as ([[[g x] y] sign] & E & Hok).
  exists g, x, y, sign. split; [exact E | exact Hok].
Qed.
Check C12_gcd_extended_exact : forall bits a b,
  0 <= bits -> canon bits a -> canon bits b ->
  exists g x y sign, Gcd.gcd_extended bits a b = Val (g, x, y, sign) /\
    g = uint_of bits (Z.gcd (eval a) (eval b)) /\ canon bits x /\ canon bits y /\
    (if sign then eval a * eval x - eval b * eval y else eval b * eval y - eval a * eval x)
      = Z.gcd (eval a) (eval b).
Print Assumptions C12_gcd_extended_exact.

Theorem C12_inv_mod : forall bits n m,
  0 <= bits -> canon bits n -> canon bits m ->
  exists o, Gcd.inv_mod bits n m = Val o /\
    (if (2 <=? eval m) && (Z.gcd (eval n) (eval m) =? 1)
     then exists x, o = Some x /\ canon bits x /\ eval x < eval m /\
                    (eval n * eval x) mod eval m = 1
     else o = None).
Proof. exact (PfGcdInv.inv_mod_spec PfC12Closed.DivKernelOK_holds). Qed.
Check C12_inv_mod : forall bits n m,
  0 <= bits -> canon bits n -> canon bits m ->
  exists o, Gcd.inv_mod bits n m = Val o /\
    (if (2 <=? eval m) && (Z.gcd (eval n) (eval m) =? 1)
     then exists x, o = Some x /\ canon bits x /\ eval x < eval m /\
                    (eval n * eval x) mod eval m = 1
     else o = None).
Print Assumptions C12_inv_mod.

(* Non-vacuity: a concrete three-limb call is well-formed, takes Lehmer steps (the matrix of the
   crate's own unit test is not the identity) and the model returns the gcd. *)
Example C12_nonvacuous :
  wfb (gcd 129 [0x48d7a411b05b9988; 0xde6ef6f3caa963a5; 1] [0x97889164dd8d07db; 0x6d7c4641f88b729a; 0]) = true /\
  run (gcd 129 [0x48d7a411b05b9988; 0xde6ef6f3caa963a5; 1] [0x97889164dd8d07db; 0x6d7c4641f88b729a; 0])
    = Val [TL [1; 0; 0]] /\
  from 129 [0x48d7a411b05b9988; 0xde6ef6f3caa963a5; 1] [0x97889164dd8d07db; 0x6d7c4641f88b729a; 0]
    = Val (Mat 392423002 1714824189 457984871 2001318809 false) /\
  run (m_from_u64 64 252 105) = Val [TZ 2; TZ 5; TZ 5; TZ 12; TB false].
Proof. repeat split; vm_compute; reflexivity. Qed.
