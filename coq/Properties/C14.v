(* Properties/C14.v — Limb-slice division kernels meet their documented contracts.
   Only pinned statements, `exact`, and Print Assumptions live here. *)
From Coq Require Import ZArith List Bool.
From RV.Model Require Import Base Word.
From RV.Model Require DivRecip DivSmall DivKnuth Div DivRef.
From RV.Run Require Import RunC14.
From RV.Proofs Require PfDivBase PfDivRecip PfDiv2x1 PfDiv3x2 PfDivSmall PfDivKnuth PfDiv PfDivRef PfC14.
Import ListNotations.
Local Open Scope Z_scope.

(* For all slice lengths and all word inputs, each of the fourteen public entry points returns
   what the integer specification RunC14.spec prescribes under its documented precondition
   (floor quotient / remainder in canonical limbs at the given slice lengths, Panic for a zero
   divisor of `div`, the MG10 reciprocals).  wf is plain typing (words are words). *)
Theorem C14_holds : forall c : call, wf c -> spec c (run c) = true.
Proof. exact PfC14.C14_all. Qed.
Check C14_holds : forall c : call, wf c -> spec c (run c) = true.
Print Assumptions C14_holds.

(* top-level div: quotient in the numerator slice, remainder in the divisor slice *)
Theorem C14_div_kernel : forall n d, Forall inW n -> Forall inW d -> eval d <> 0 ->
  exists q r, Div.div_kernel n d = Val (q, r) /\ length q = length n /\ length r = length d /\
    Forall inW q /\ Forall inW r /\ eval q = eval n / eval d /\ eval r = eval n mod eval d.
Proof. exact PfDiv.div_kernel_spec. Qed.
Check C14_div_kernel : forall n d, Forall inW n -> Forall inW d -> eval d <> 0 ->
  exists q r, Div.div_kernel n d = Val (q, r) /\ length q = length n /\ length r = length d /\
    Forall inW q /\ Forall inW r /\ eval q = eval n / eval d /\ eval r = eval n mod eval d.
Print Assumptions C14_div_kernel.

Theorem C14_div_kernel_zero : forall n d, Forall inW d -> eval d = 0 -> Div.div_kernel n d = Panic.
Proof. exact PfDiv.div_kernel_zero. Qed.
Check C14_div_kernel_zero : forall n d, Forall inW d -> eval d = 0 -> Div.div_kernel n d = Panic.
Print Assumptions C14_div_kernel_zero.

(* reciprocal = floor((2^128-1)/d) - 2^64 for every normalised d: table + Newton steps *)
Theorem C14_reciprocal : forall d, 2 ^ 63 <= d < B ->
  DivRecip.reciprocal_mg10 d = Val ((B * B - 1) / d - B).
Proof. intros d H. exact (PfDivBase.reciprocal_mg10_ok PfDivRecip.RecipOK_holds d H). Qed.
Check C14_reciprocal : forall d, 2 ^ 63 <= d < B ->
  DivRecip.reciprocal_mg10 d = Val ((B * B - 1) / d - B).
Print Assumptions C14_reciprocal.

Theorem C14_reciprocal_2 : forall d, 2 ^ 127 <= d < B * B ->
  DivRecip.reciprocal_2_mg10 d = Val ((B * B * B - 1) / d - B).
Proof. exact PfDivSmall.reciprocal_2_ok. Qed.
Check C14_reciprocal_2 : forall d, 2 ^ 127 <= d < B * B ->
  DivRecip.reciprocal_2_mg10 d = Val ((B * B * B - 1) / d - B).
Print Assumptions C14_reciprocal_2.

Theorem C14_div_2x1 : forall u d, 2 ^ 63 <= d < B -> 0 <= u -> u / B < d ->
  DivSmall.div_2x1_mg10 u d ((B * B - 1) / d - B) = Val (u / d, u mod d).
Proof. exact PfDivSmall.div_2x1_ok. Qed.
Check C14_div_2x1 : forall u d, 2 ^ 63 <= d < B -> 0 <= u -> u / B < d ->
  DivSmall.div_2x1_mg10 u d ((B * B - 1) / d - B) = Val (u / d, u mod d).
Print Assumptions C14_div_2x1.

Theorem C14_div_3x2 : forall u21 u0 d, 2 ^ 127 <= d < B * B -> 0 <= u21 < d -> inW u0 ->
  DivSmall.div_3x2_mg10 u21 u0 d ((B * B * B - 1) / d - B)
  = Val ((u21 * B + u0) / d, (u21 * B + u0) mod d).
Proof. exact PfDivSmall.div_3x2_ok. Qed.
Check C14_div_3x2 : forall u21 u0 d, 2 ^ 127 <= d < B * B -> 0 <= u21 < d -> inW u0 ->
  DivSmall.div_3x2_mg10 u21 u0 d ((B * B * B - 1) / d - B)
  = Val ((u21 * B + u0) / d, (u21 * B + u0) mod d).
Print Assumptions C14_div_3x2.

Theorem C14_div_nx1 : forall n d, Forall inW n -> 0 < d < B -> n <> [] -> last n 0 <> 0 ->
  DivSmall.div_nx1 n d = Val (to_limbs (length n) (eval n / d), eval n mod d).
Proof. exact PfDivSmall.div_nx1_spec. Qed.
Check C14_div_nx1 : forall n d, Forall inW n -> 0 < d < B -> n <> [] -> last n 0 <> 0 ->
  DivSmall.div_nx1 n d = Val (to_limbs (length n) (eval n / d), eval n mod d).
Print Assumptions C14_div_nx1.

Theorem C14_div_nx2 : forall n d, Forall inW n -> B <= d < B * B -> n <> [] -> last n 0 <> 0 ->
  DivSmall.div_nx2 n d = Val (to_limbs (length n) (eval n / d), eval n mod d).
Proof. exact PfDivSmall.div_nx2_spec. Qed.
Check C14_div_nx2 : forall n d, Forall inW n -> B <= d < B * B -> n <> [] -> last n 0 <> 0 ->
  DivSmall.div_nx2 n d = Val (to_limbs (length n) (eval n / d), eval n mod d).
Print Assumptions C14_div_nx2.

Theorem C14_div_nxm : forall n d, Forall inW n -> Forall inW d ->
  (3 <= length d)%nat -> (length d <= length n)%nat -> last d 0 <> 0 ->
  DivKnuth.div_nxm n d =
  Val (to_limbs (length n) (eval n / eval d), to_limbs (length d) (eval n mod eval d)).
Proof. exact PfDivKnuth.div_nxm_spec. Qed.
Check C14_div_nxm : forall n d, Forall inW n -> Forall inW d ->
  (3 <= length d)%nat -> (length d <= length n)%nat -> last d 0 <> 0 ->
  DivKnuth.div_nxm n d =
  Val (to_limbs (length n) (eval n / eval d), to_limbs (length d) (eval n mod eval d)).
Print Assumptions C14_div_nxm.

Theorem C14_div_nxm_normalized : forall n d, Forall inW n -> Forall inW d ->
  (2 <= length d)%nat -> (length d < length n)%nat -> 2 ^ 63 <= last d 0 ->
  eval (skipn (length n - length d) n) < eval d ->
  DivKnuth.div_nxm_normalized n d =
  Val (to_limbs (length d) (eval n mod eval d) ++ to_limbs (length n - length d) (eval n / eval d)).
Proof. exact PfDivKnuth.div_nxm_normalized_spec. Qed.
Check C14_div_nxm_normalized : forall n d, Forall inW n -> Forall inW d ->
  (2 <= length d)%nat -> (length d < length n)%nat -> 2 ^ 63 <= last d 0 ->
  eval (skipn (length n - length d) n) < eval d ->
  DivKnuth.div_nxm_normalized n d =
  Val (to_limbs (length d) (eval n mod eval d) ++ to_limbs (length n - length d) (eval n / eval d)).
Print Assumptions C14_div_nxm_normalized.

(* the reference kernels (u128 `/` and `%`): same quotient and remainder as the mg10 variants *)
Theorem C14_reciprocal_ref : forall d, 2 ^ 63 <= d < B ->
  DivRef.reciprocal_ref d = Val ((B * B - 1) / d - B).
Proof. exact PfDivRef.reciprocal_ref_ok. Qed.
Check C14_reciprocal_ref : forall d, 2 ^ 63 <= d < B ->
  DivRef.reciprocal_ref d = Val ((B * B - 1) / d - B).
Print Assumptions C14_reciprocal_ref.

Theorem C14_div_2x1_ref : forall u d, 2 ^ 63 <= d < B -> 0 <= u -> u / B < d ->
  DivRef.div_2x1_ref u d = Val (u / d, u mod d).
Proof. exact PfDivRef.div_2x1_ref_ok. Qed.
Check C14_div_2x1_ref : forall u d, 2 ^ 63 <= d < B -> 0 <= u -> u / B < d ->
  DivRef.div_2x1_ref u d = Val (u / d, u mod d).
Print Assumptions C14_div_2x1_ref.

Theorem C14_div_3x2_ref : forall n21 n0 d, 2 ^ 127 <= d < B * B -> 0 <= n21 < d -> 0 <= n0 < B ->
  DivRef.div_3x2_ref n21 n0 d = Val ((n21 * B + n0) / d).
Proof. exact PfDivRef.div_3x2_ref_ok. Qed.
Check C14_div_3x2_ref : forall n21 n0 d, 2 ^ 127 <= d < B * B -> 0 <= n21 < d -> 0 <= n0 < B ->
  DivRef.div_3x2_ref n21 n0 d = Val ((n21 * B + n0) / d).
Print Assumptions C14_div_3x2_ref.

(* Finding F21 (repaired in the crate, commit 1e97af4): before the repair div_3x2_ref compared
   q*d0 with n0:r instead of r:n0 and omitted the shift of d0 in the n2 = d1 branch; both
   witnesses below returned a quotient off by one.  On the repaired code they are exact. *)
Example C14_F21_regression :
  (* n2 = d1 branch: the unrepaired code returned B - 1 *)
  run (div_3x2_ref 128 (2 ^ 127) 0 (2 ^ 127 + 2 ^ 64 - 1)) = Val [TZ (B - 2)] /\
  (* estimate branch: the unrepaired code returned 0 *)
  run (div_3x2_ref 128 (2 ^ 64) 0 (2 ^ 127 + 2 ^ 64 - 1)) = Val [TZ 1].
Proof. repeat split; vm_compute; reflexivity. Qed.

(* Finding D1 (repaired in the crate, commit 233680d): the former witnesses are now outside the
   documented conditions of use and hit the new debug_asserts. *)
Example C14_D1_regression :
  run (div_nxm_normalized 192 [0; 0; 2 ^ 63] [0; 2 ^ 63]) = DebugPanic /\
  run (div_nxm_normalized 128 [1; 2 ^ 63] [0; 2 ^ 63]) = DebugPanic.
Proof. exact PfC14.C14_D1_regression. Qed.

(* Non-vacuity: a 4-by-3 division whose 3-by-2 estimate is one too large (add-back path),
   from the crate's own test_div_rollback vector, run through the top-level div. *)
Example C14_nonvacuous :
  wfb (div 256 [0x1656178c14142000; 0x821415dfe9e81612; 0x1616561616161616; 0x96000016820016]
               [0x1415dfe9e8161414; 0x1656161616161682; 0x9600001682001616]) = true /\
  run (div 256 [0x1656178c14142000; 0x821415dfe9e81612; 0x1616561616161616; 0x96000016820016]
               [0x1415dfe9e8161414; 0x1656161616161682; 0x9600001682001616])
  = Val [TL [0xffffffffffffff; 0; 0; 0];
         TL [0x166bf775fc2a3414; 0x1656161616161680; 0x9600001682001616]].
Proof. split; vm_compute; reflexivity. Qed.
