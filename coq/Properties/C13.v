(* Properties/C13.v — Powers, integer logarithms and integer roots are exact.
   Only pinned statements, `exact`, and Print Assumptions live here.

   Scope of what is proved:
   * pow / wrapping_pow / overflowing_pow / checked_pow / saturating_pow: all BITS >= 0, all
     bases and exponents, unconditionally.
   * log / log2 / log10 and the checked forms: all BITS, unconditionally in the integer code;
     the floating-point estimate of `log` is an INPUT constrained by RunC13.log_est_ok
     (libm is not modelled; the predicate is evaluated on every observed estimate by ./check).
   * root: the same with RunC13.root_guess_ok; Uint division enters through
     PfRoot.DivKernelOK, discharged in PfC13Closed by C14's theorem PfDiv.div_kernel_spec. *)
From Coq Require Import ZArith List Bool.
From RV.Model Require Import Base Word.
From RV.Model Require Pow Log Root.
From RV.Run Require Import RunC13.
From RV.Proofs Require PfPow PfLog PfRoot PfC13 PfC13Closed.
Import ListNotations.
Local Open Scope Z_scope.

(* ---- all twelve entry points: spec (run c) for all wf calls ---- *)
Theorem C13_holds : forall c : call, wf c -> spec c (run c) = true.
Proof. exact PfC13Closed.C13_all. Qed.
Check C13_holds : forall c : call, wf c -> spec c (run c) = true.
Print Assumptions C13_holds.

(* ---- the specification-side functions are the mathematical ones ---- *)
Theorem C13_powmod_is_pow : forall bits b e,
  0 <= bits -> 0 <= e -> powmod bits b e = (b ^ e) mod 2 ^ bits.
Proof. exact PfPow.powmod_spec. Qed.
Check C13_powmod_is_pow : forall bits b e,
  0 <= bits -> 0 <= e -> powmod bits b e = (b ^ e) mod 2 ^ bits.
Print Assumptions C13_powmod_is_pow.

Theorem C13_powsat_is_pow : forall m b e,
  0 <= m -> 0 <= b -> 0 <= e -> powsat m b e = Z.min (b ^ e) (m + 1).
Proof. exact PfPow.powsat_spec. Qed.
Check C13_powsat_is_pow : forall m b e,
  0 <= m -> 0 <= b -> 0 <= e -> powsat m b e = Z.min (b ^ e) (m + 1).
Print Assumptions C13_powsat_is_pow.

Theorem C13_iroot_is_root : forall d n,
  1 <= d -> 0 <= n -> 0 <= iroot d n /\ iroot d n ^ d <= n < (iroot d n + 1) ^ d.
Proof. exact PfRoot.iroot_spec. Qed.
Check C13_iroot_is_root : forall d n,
  1 <= d -> 0 <= n -> 0 <= iroot d n /\ iroot d n ^ d <= n < (iroot d n + 1) ^ d.
Print Assumptions C13_iroot_is_root.

(* ---- Prop-level restatements ---- *)
(* a^e mod 2^BITS and the overflow flag <-> a^e >= 2^BITS *)
Theorem C13_overflowing_pow : forall bits a e,
  0 < bits -> canon bits a -> canon bits e ->
  exists res, Pow.overflowing_pow bits a e = Val (res, 2 ^ bits <=? eval a ^ eval e) /\
              canon bits res /\ eval res = (eval a ^ eval e) mod 2 ^ bits.
Proof. exact PfPow.overflowing_pow_spec. Qed.
Check C13_overflowing_pow : forall bits a e,
  0 < bits -> canon bits a -> canon bits e ->
  exists res, Pow.overflowing_pow bits a e = Val (res, 2 ^ bits <=? eval a ^ eval e) /\
              canon bits res /\ eval res = (eval a ^ eval e) mod 2 ^ bits.
Print Assumptions C13_overflowing_pow.

Theorem C13_wrapping_pow : forall bits a e,
  0 < bits -> canon bits a -> canon bits e ->
  exists res, Pow.wrapping_pow bits a e = Val res /\ canon bits res /\
              eval res = (eval a ^ eval e) mod 2 ^ bits.
Proof. exact PfPow.wrapping_pow_spec. Qed.
Check C13_wrapping_pow : forall bits a e,
  0 < bits -> canon bits a -> canon bits e ->
  exists res, Pow.wrapping_pow bits a e = Val res /\ canon bits res /\
              eval res = (eval a ^ eval e) mod 2 ^ bits.
Print Assumptions C13_wrapping_pow.

(* log: panics exactly for value 0 or base < 2, else floor(log_base value), for EVERY estimate
   that is at most one too large when its power overflows *)
Theorem C13_log : forall bits self base est,
  0 <= bits < B -> canon bits self -> canon bits base ->
  log_est_ok bits (eval self) (eval base) est = true ->
  if (eval self =? 0) || (eval base <? 2) then Log.log bits self base (est_of est) = Panic
  else exists k, Log.log bits self base (est_of est) = Val k /\
                 0 <= k /\ eval base ^ k <= eval self < eval base ^ (k + 1).
Proof. exact PfLog.log_spec. Qed.
Check C13_log : forall bits self base est,
  0 <= bits < B -> canon bits self -> canon bits base ->
  log_est_ok bits (eval self) (eval base) est = true ->
  if (eval self =? 0) || (eval base <? 2) then Log.log bits self base (est_of est) = Panic
  else exists k, Log.log bits self base (est_of est) = Val k /\
                 0 <= k /\ eval base ^ k <= eval self < eval base ^ (k + 1).
Print Assumptions C13_log.

(* checked_log: never panics, None exactly for value 0 or base < 2 *)
Theorem C13_checked_log : forall bits self base est,
  0 <= bits < B -> canon bits self -> canon bits base ->
  log_est_ok bits (eval self) (eval base) est = true ->
  if (eval self =? 0) || (eval base <? 2)
  then Log.checked_log bits self base (est_of est) = Val None
  else exists k, Log.checked_log bits self base (est_of est) = Val (Some k) /\
                 0 <= k /\ eval base ^ k <= eval self < eval base ^ (k + 1).
Proof. exact PfLog.checked_log_spec. Qed.
Check C13_checked_log : forall bits self base est,
  0 <= bits < B -> canon bits self -> canon bits base ->
  log_est_ok bits (eval self) (eval base) est = true ->
  if (eval self =? 0) || (eval base <? 2)
  then Log.checked_log bits self base (est_of est) = Val None
  else exists k, Log.checked_log bits self base (est_of est) = Val (Some k) /\
                 0 <= k /\ eval base ^ k <= eval self < eval base ^ (k + 1).
Print Assumptions C13_checked_log.

(* root: floor(value^(1/degree)) and termination within the fuel, for EVERY initial guess g >= 1
   with  value / min(g,r)^(d-1) + (d-1) * max(g, 2r) < 2^BITS  (r the true root) *)
Theorem C13_root : forall bits self degree est,
  0 <= bits -> canon bits self -> 0 <= degree < B ->
  root_guess_ok bits (eval self) degree est = true ->
  if degree <=? 0 then Root.root bits self degree (est_of est) = Panic
  else exists y, Root.root bits self degree (est_of est) = Val y /\ canon bits y /\
                 0 <= eval y /\ eval y ^ degree <= eval self < (eval y + 1) ^ degree.
Proof. exact (PfRoot.root_spec PfC13Closed.DivKernelOK_holds). Qed.
Check C13_root : forall bits self degree est,
  0 <= bits -> canon bits self -> 0 <= degree < B ->
  root_guess_ok bits (eval self) degree est = true ->
  if degree <=? 0 then Root.root bits self degree (est_of est) = Panic
  else exists y, Root.root bits self degree (est_of est) = Val y /\ canon bits y /\
                 0 <= eval y /\ eval y ^ degree <= eval self < (eval y + 1) ^ degree.
Print Assumptions C13_root.

(* Non-vacuity: concrete non-trivial calls meet wf.  36^13 overflows 64 bits; the f64 estimate of
   log_21(2^64-1) is 15 (one too large, 21^15 overflows) and is corrected to 14; the initial
   guess 0x285146 for the cube root of 2^64-1 is one too large and is corrected. *)
Example C13_nonvacuous :
  wfb (overflowing_pow 64 [0x24] [0xd]) = true /\
  run (overflowing_pow 64 [0x24] [0xd]) = Val [TL [0x3f4c09ffa4000000]; TB true] /\
  wfb (log 64 [0xffffffffffffffff] [0x15] [[0xf]]) = true /\
  run (log 64 [0xffffffffffffffff] [0x15] [[0xf]]) = Val [TZ 14] /\
  wfb (root 64 [0xffffffffffffffff] 3 [[0x285146]]) = true /\
  run (root 64 [0xffffffffffffffff] 3 [[0x285146]]) = Val [TL [0x285145]].
Proof. repeat split; vm_compute; reflexivity. Qed.
