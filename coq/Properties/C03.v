(* Properties/C03.v — Division and remainder satisfy the Euclidean contract.
   CONDITIONAL FORM: the limb kernel `algorithms::div` (Model/Div.v div_kernel) is property C14,
   whose proof is in progress; its contract DivKernelOK (and the zero-divisor fact
   DivKernelZero, which is also proved here outright) are explicit hypotheses of the statement.
   Only pinned statements, `exact`, and Print Assumptions live here. *)
From Coq Require Import ZArith List Bool.
From RV.Model Require Import Base Word Limbs Add Div UDiv.
From RV.Run Require Import RunC03.
From RV.Proofs Require PfUDiv PfC03.
Local Open Scope Z_scope.

(* the two hypotheses, pinned literally *)
Check (eq_refl : PfUDiv.DivKernelOK =
  (forall n d, Forall inW n -> Forall inW d -> eval d <> 0 ->
   exists q r, div_kernel n d = Val (q, r) /\ length q = length n /\ length r = length d /\
     Forall inW q /\ Forall inW r /\ eval q = eval n / eval d /\ eval r = eval n mod eval d)).
Check (eq_refl : PfUDiv.DivKernelZero =
  (forall n d, Forall inW d -> eval d = 0 -> div_kernel n d = Panic)).

(* For every width >= 0 and all canonical operands (zero divisors included), every division entry
   point of the model (div_rem, wrapping_div/rem, checked_div/rem, div_ceil, the six operator shapes
   of / /= % %=, checked_next_multiple_of, next_multiple_of) returns exactly what the integer
   specification RunC03.spec prescribes: (n / d, n mod d) in canonical limbs for d <> 0, Panic / None
   for d = 0, ceil(n/d), and the least multiple of d that is >= n or None / Panic when it is >= 2^BITS. *)
Theorem C03_holds :
  PfUDiv.DivKernelOK -> PfUDiv.DivKernelZero -> forall c : call, wf c -> spec c (run c) = true.
Proof. exact PfC03.C03_all_partial. Qed.
Check C03_holds :
  PfUDiv.DivKernelOK -> PfUDiv.DivKernelZero -> forall c : call, wf c -> spec c (run c) = true.
Print Assumptions C03_holds.

(* the zero-divisor half of the kernel contract is a theorem *)
Theorem C03_kernel_zero : forall n d, Forall inW d -> eval d = 0 -> div_kernel n d = Panic.
Proof. exact PfUDiv.DivKernelZero_holds. Qed.
Check C03_kernel_zero : forall n d, Forall inW d -> eval d = 0 -> div_kernel n d = Panic.
Print Assumptions C03_kernel_zero.

Theorem C03_modulo_kernel :
  PfUDiv.DivKernelOK -> forall c : call, wf c -> spec c (run c) = true.
Proof. exact PfC03.C03_all_modulo_kernel. Qed.
Check C03_modulo_kernel :
  PfUDiv.DivKernelOK -> forall c : call, wf c -> spec c (run c) = true.
Print Assumptions C03_modulo_kernel.

(* unconditional pieces: checked_mul (used by checked_next_multiple_of) is exact *)
Theorem C03_overflowing_mul : forall bits a b,
  0 <= bits -> canon bits a -> canon bits b ->
  let '(r, f) := UDiv.overflowing_mul bits a b in
  canon bits r /\ eval r = (eval a * eval b) mod 2 ^ bits /\ f = (2 ^ bits <=? eval a * eval b).
Proof. exact PfUDiv.overflowing_mul_spec. Qed.
Check C03_overflowing_mul : forall bits a b,
  0 <= bits -> canon bits a -> canon bits b ->
  let '(r, f) := UDiv.overflowing_mul bits a b in
  canon bits r /\ eval r = (eval a * eval b) mod 2 ^ bits /\ f = (2 ^ bits <=? eval a * eval b).
Print Assumptions C03_overflowing_mul.

(* the number spec uses for (checked_)next_multiple_of IS the least multiple of d that is >= n *)
Theorem C03_next_mult_least : forall n d, 0 <= n -> 0 < d ->
  let m := next_mult n d in
  (d | m) /\ n <= m /\ forall m', (d | m') -> n <= m' -> m <= m'.
Proof. exact PfUDiv.next_mult_least. Qed.
Check C03_next_mult_least : forall n d, 0 <= n -> 0 < d ->
  let m := next_mult n d in
  (d | m) /\ n <= m /\ forall m', (d | m') -> n <= m' -> m <= m'.
Print Assumptions C03_next_mult_least.

(* Non-vacuity: concrete non-trivial calls meet wf; the model computes (kernel included):
   the repaired next_multiple_of regression, an overflowing next multiple, and a 3-limb
   Knuth division at an unaligned width. *)
Example C03_nonvacuous :
  wfb (next_multiple_of 64 [23] [8]) = true /\
  run (next_multiple_of 64 [23] [8]) = Val [TL [24]] /\
  run (checked_next_multiple_of 64 [0xffffffffffffffff] [2]) = Val [TNone] /\
  run (div_rem 64 [23] [0]) = Panic /\
  wfb (div_rem 250 [5; 7; 1; 9] [3; 0xffffffffffffffff; 2; 0]) = true /\
  spec (div_rem 250 [5; 7; 1; 9] [3; 0xffffffffffffffff; 2; 0])
       (run (div_rem 250 [5; 7; 1; 9] [3; 0xffffffffffffffff; 2; 0])) = true /\
  run (div_rem 250 [5; 7; 1; 9] [3; 0xffffffffffffffff; 2; 0])
    = Val [TL [1; 3; 0; 0]; TL [2; 0xffffffffffffffff; 0; 0]].
Proof. repeat split; vm_compute; reflexivity. Qed.


(* ---- the hypothesis is discharged: PfDiv.div_kernel_spec (property C14) proves DivKernelOK ---- *)
From RV.Proofs Require PfC03Closed.
Theorem C03_unconditional : forall c : call, wf c -> spec c (run c) = true.
Proof. exact PfC03Closed.C03_all. Qed.
Check C03_unconditional : forall c : call, wf c -> spec c (run c) = true.
Print Assumptions C03_unconditional.
