(* Properties/C11.v — Montgomery multiplication and squaring compute a*b*R^-1 mod m.
   Only pinned statements, `exact`, and Print Assumptions live here. *)
From Coq Require Import ZArith List Bool.
From RV.Model Require Import Base Word Add Redc.
From RV.Run Require Import RunC11.
From RV.Proofs Require PfRedc PfC11.
Import ListNotations.
Local Open Scope Z_scope.

(* For every width / limb count and all well-typed arguments, Uint::mul_redc, Uint::square_redc,
   algorithms::mul_redc::<N> and algorithms::square_redc::<N> of the model return what
   RunC11.spec prescribes: when inv * m[0] = -1 mod 2^64, a < m and b < m, N in-range limbs of a
   value r with 0 <= r < m and r * 2^(64 N) = a * b (mod m) (no assert fires, the carry bit
   dropped below the thresholds is zero); when a requirement is violated the model answers
   DebugPanic; BITS = 0 gives ZERO. *)
Theorem C11_holds : forall c : call, wf c -> spec c (run c) = true.
Proof. exact PfC11.C11_all. Qed.
Check C11_holds : forall c : call, wf c -> spec c (run c) = true.
Print Assumptions C11_holds.

(* Prop-level contracts of the two slice-level functions, for every N = length md. *)
Theorem C11_mul_redc : forall a b md inv,
  length a = length md -> length b = length md ->
  Forall inW a -> Forall inW b -> Forall inW md ->
  (inv * hd 0 md) mod B = B - 1 -> eval a < eval md -> eval b < eval md ->
  exists r, Redc.mul_redc a b md inv = Val r /\
    length r = length md /\ Forall inW r /\ 0 <= eval r < eval md /\
    (eval r * B ^ Z.of_nat (length md)) mod eval md = (eval a * eval b) mod eval md.
Proof. exact PfRedc.mul_redc_spec. Qed.
Check C11_mul_redc : forall a b md inv,
  length a = length md -> length b = length md ->
  Forall inW a -> Forall inW b -> Forall inW md ->
  (inv * hd 0 md) mod B = B - 1 -> eval a < eval md -> eval b < eval md ->
  exists r, Redc.mul_redc a b md inv = Val r /\
    length r = length md /\ Forall inW r /\ 0 <= eval r < eval md /\
    (eval r * B ^ Z.of_nat (length md)) mod eval md = (eval a * eval b) mod eval md.
Print Assumptions C11_mul_redc.

Theorem C11_square_redc : forall a md inv,
  length a = length md -> Forall inW a -> Forall inW md ->
  (inv * hd 0 md) mod B = B - 1 -> eval a < eval md ->
  exists r, Redc.square_redc a md inv = Val r /\
    length r = length md /\ Forall inW r /\ 0 <= eval r < eval md /\
    (eval r * B ^ Z.of_nat (length md)) mod eval md = (eval a * eval a) mod eval md.
Proof. exact PfRedc.square_redc_spec. Qed.
Check C11_square_redc : forall a md inv,
  length a = length md -> Forall inW a -> Forall inW md ->
  (inv * hd 0 md) mod B = B - 1 -> eval a < eval md ->
  exists r, Redc.square_redc a md inv = Val r /\
    length r = length md /\ Forall inW r /\ 0 <= eval r < eval md /\
    (eval r * B ^ Z.of_nat (length md)) mod eval md = (eval a * eval a) mod eval md.
Print Assumptions C11_square_redc.

(* The congruence pins the value: r = a * b * R^-1 mod m for any inverse R^-1 of R = 2^(64 N). *)
Theorem C11_value : forall r R Rinv ab M,
  0 <= r < M -> (r * R) mod M = ab mod M -> (R * Rinv) mod M = 1 mod M ->
  r = (ab * Rinv) mod M.
Proof. exact PfRedc.redc_value. Qed.
Check C11_value : forall r R Rinv ab M,
  0 <= r < M -> (r * R) mod M = ab mod M -> (R * Rinv) mod M = 1 mod M ->
  r = (ab * Rinv) mod M.
Print Assumptions C11_value.

(* The documented requirements are debug-asserted: a violated one is a DebugPanic. *)
Theorem C11_mul_redc_requirements : forall a b md inv,
  length a = length md -> length b = length md ->
  Forall inW a -> Forall inW b -> Forall inW md ->
  pre (eval a) (eval b) (eval md) inv (hd 0 md) = false ->
  Redc.mul_redc a b md inv = DebugPanic.
Proof. exact PfC11.mul_redc_bad. Qed.
Check C11_mul_redc_requirements : forall a b md inv,
  length a = length md -> length b = length md ->
  Forall inW a -> Forall inW b -> Forall inW md ->
  pre (eval a) (eval b) (eval md) inv (hd 0 md) = false ->
  Redc.mul_redc a b md inv = DebugPanic.
Print Assumptions C11_mul_redc_requirements.

Theorem C11_square_redc_requirements : forall a md inv,
  length a = length md -> Forall inW a -> Forall inW md ->
  pre (eval a) (eval a) (eval md) inv (hd 0 md) = false ->
  Redc.square_redc a md inv = DebugPanic.
Proof. exact PfC11.square_redc_bad. Qed.
Check C11_square_redc_requirements : forall a md inv,
  length a = length md -> Forall inW a -> Forall inW md ->
  pre (eval a) (eval a) (eval md) inv (hd 0 md) = false ->
  Redc.square_redc a md inv = DebugPanic.
Print Assumptions C11_square_redc_requirements.

(* Non-vacuity: concrete calls meet wf and the requirements; m = 2^128 - 1, a = b = m - 1 sets the
   extra carry bit in both loops and takes the final subtraction: (m-1)^2 * 2^-128 = 1 (mod m). *)
Example C11_nonvacuous :
  let m := [0xffffffffffffffff; 0xffffffffffffffff] in
  let a := [0xfffffffffffffffe; 0xffffffffffffffff] in
  wfb (alg_mul_redc 128 a a m 1) = true /\
  pre (eval a) (eval a) (eval m) 1 (hd 0 m) = true /\
  run (alg_mul_redc 128 a a m 1) = Val [TL [1; 0]] /\
  run (square_redc 128 a m 1) = Val [TL [1; 0]] /\
  (exists st, mr_rows a m 1 (last m 0) [0xfffffffffffffffe] (repeat 0 2, false) = Val (st, true)) /\
  run (mul_redc 65 [5; 0] [6; 0] [7; 1] 0x6db6db6db6db6db7) = DebugPanic.
Proof. cbv zeta. repeat split; try (vm_compute; reflexivity). eexists. vm_compute. reflexivity. Qed.
