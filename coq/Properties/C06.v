(* Properties/C06.v — Bitwise logic, bit access and bit counting agree with the binary expansion.
   Only pinned statements, `exact`, and Print Assumptions live here. *)
From Coq Require Import ZArith List Bool.
From RV.Model Require Import Base Word Bits.
From RV.Run Require Import RunC06.
From RV.Proofs Require PfBits PfC06.
Local Open Scope Z_scope.

(* For every width >= 0, all canonical operands and all usize indices, every entry point of the
   model (not in 3 shapes, & | ^ in 6 shapes each, bit, set_bit, byte, checked_byte, reverse_bits,
   leading/trailing zeros/ones, count_ones/zeros, bit_len, byte_len, most_significant_bits,
   is_power_of_two, (checked_)next_power_of_two) returns exactly what RunC06.spec prescribes from
   the BITS-wide binary expansion of the denoted value(s), including the documented panics. *)
Theorem C06_holds : forall c : call, wf c -> spec c (run c) = true.
Proof. exact PfC06.C06_all. Qed.
Check C06_holds : forall c : call, wf c -> spec c (run c) = true.
Print Assumptions C06_holds.

(* Prop-level restatements: what the executable specification's helper functions mean. *)

(* NOT is the BITS-wide complement and stays canonical. *)
Theorem C06_not : forall bits a, 0 <= bits -> canon bits a ->
  canon bits (Bits.unot bits a) /\ eval (Bits.unot bits a) = 2 ^ bits - 1 - eval a.
Proof. exact PfBits.unot_spec. Qed.
Check C06_not : forall bits a, 0 <= bits -> canon bits a ->
  canon bits (Bits.unot bits a) /\ eval (Bits.unot bits a) = 2 ^ bits - 1 - eval a.
Print Assumptions C06_not.

(* set_bit changes exactly the addressed bit (Z.setbit / Z.clearbit) when in range, else nothing. *)
Theorem C06_set_bit : forall bits a i v, 0 <= bits -> canon bits a -> 0 <= i ->
  exists r, Bits.set_bit bits a i v = Val r /\ canon bits r /\
    eval r = if i <? bits then (if v then Z.setbit (eval a) i else Z.clearbit (eval a) i)
             else eval a.
Proof. exact PfBits.set_bit_spec. Qed.
Check C06_set_bit : forall bits a i v, 0 <= bits -> canon bits a -> 0 <= i ->
  exists r, Bits.set_bit bits a i v = Val r /\ canon bits r /\
    eval r = if i <? bits then (if v then Z.setbit (eval a) i else Z.clearbit (eval a) i)
             else eval a.
Print Assumptions C06_set_bit.

(* byte i is (v / 256^i) mod 256 inside BYTES and panics outside. *)
Theorem C06_byte : forall bits a i, 0 <= bits -> canon bits a -> 0 <= i ->
  Bits.byte bits a i = if i <? (bits + 7) / 8 then Val ((eval a / 2 ^ (8 * i)) mod 2 ^ 8) else Panic.
Proof. exact PfBits.byte_spec. Qed.
Check C06_byte : forall bits a i, 0 <= bits -> canon bits a -> 0 <= i ->
  Bits.byte bits a i = if i <? (bits + 7) / 8 then Val ((eval a / 2 ^ (8 * i)) mod 2 ^ 8) else Panic.
Print Assumptions C06_byte.

(* the specification's mirror image really exchanges bit i and bit BITS-1-i *)
Theorem C06_mirror_bits : forall bits v i, 0 <= bits -> 0 <= i ->
  Z.testbit (mirror bits v) i = if i <? bits then Z.testbit v (bits - 1 - i) else false.
Proof. exact PfBits.mirror_spec. Qed.
Check C06_mirror_bits : forall bits v i, 0 <= bits -> 0 <= i ->
  Z.testbit (mirror bits v) i = if i <? bits then Z.testbit v (bits - 1 - i) else false.
Print Assumptions C06_mirror_bits.

(* the specification's val2 is the index of the lowest set bit *)
Theorem C06_val2_lowest : forall v t, 0 < v -> 0 <= t -> Z.testbit v t = true ->
  (forall j, 0 <= j < t -> Z.testbit v j = false) -> val2 v = t.
Proof. exact PfBits.val2_char. Qed.
Check C06_val2_lowest : forall v t, 0 < v -> 0 <= t -> Z.testbit v t = true ->
  (forall j, 0 <= j < t -> Z.testbit v j = false) -> val2 v = t.
Print Assumptions C06_val2_lowest.

(* the specification's popcount: one per set bit (recurrence on the binary expansion) *)
Theorem C06_popcount_step : forall x, 0 <= x -> popcount x = x mod 2 + popcount (x / 2).
Proof. exact PfBits.popcount_step. Qed.
Check C06_popcount_step : forall x, 0 <= x -> popcount x = x mod 2 + popcount (x / 2).
Print Assumptions C06_popcount_step.

(* most_significant_bits: (v / 2^e, e) with e = max 0 (bit_len v - 64) *)
Theorem C06_msb : forall bits a, 0 <= bits -> canon bits a ->
  Bits.most_significant_bits a =
  let e := Z.max 0 (bitlen (eval a) - 64) in Val (eval a / 2 ^ e, e).
Proof. exact PfBits.msb_spec. Qed.
Check C06_msb : forall bits a, 0 <= bits -> canon bits a ->
  Bits.most_significant_bits a =
  let e := Z.max 0 (bitlen (eval a) - 64) in Val (eval a / 2 ^ e, e).
Print Assumptions C06_msb.

(* Non-vacuity: concrete non-trivial calls meet wf; a masked top limb and a limb boundary. *)
Example C06_nonvacuous :
  wfb (trailing_ones 65 [0xffffffffffffffff; 1]) = true /\
  run (trailing_ones 65 [0xffffffffffffffff; 1]) = Val [TZ 65] /\
  wfb (leading_zeros 129 [5; 1; 0]) = true /\
  run (leading_zeros 129 [5; 1; 0]) = Val [TZ 64] /\
  run (op_not 65 0 [0; 0]) = Val [TL [0xffffffffffffffff; 1]] /\
  run (byte 65 [0; 1] 9) = Panic /\
  run (next_power_of_two 65 [1; 1]) = Panic.
Proof. repeat split; vm_compute; reflexivity. Qed.
