(* Properties/All.v — the whole development in one statement: for every property (and every part
   of the multi-part ones) every well-formed call of the model meets the executable specification.
   Each conjunct is the pinned theorem of the corresponding Properties file. *)
From Coq Require Import ZArith List Bool.
From RV.Model Require Import Base.
From RV.Run Require RunC01 RunC02 RunC03 RunC04a RunC04b RunC04c RunC04d RunC05 RunC06 RunC07 RunC08 RunC09 RunC10 RunC11 RunC12 RunC13 RunC14 RunC15 RunC16A RunC16B RunC16C RunC17A RunC17B RunC17C RunC18 RunC19 RunC20.
From RV.Properties Require C01 C02 C03 C04 C05 C06 C07 C08 C09 C10 C11 C12 C13 C14 C15 C16 C17 C18 C19 C20 ModelsAgree.

Theorem ruint_model_meets_every_specification :
  (forall c : RunC01.call, RunC01.wf c -> RunC01.spec c (RunC01.run c) = true) /\
  (forall c : RunC02.call, RunC02.wf c -> RunC02.spec c (RunC02.run c) = true) /\
  (forall c : RunC03.call, RunC03.wf c -> RunC03.spec c (RunC03.run c) = true) /\
  (forall c : RunC04a.call, RunC04a.wf c -> RunC04a.spec c (RunC04a.run c) = true) /\
  (forall c : RunC04b.call, RunC04b.wf c -> RunC04b.spec c (RunC04b.run c) = true) /\
  (forall c : RunC04c.call, RunC04c.wf c -> RunC04c.spec c (RunC04c.run c) = true) /\
  (forall c : RunC04d.call, RunC04d.wf c -> RunC04d.spec c (RunC04d.run c) = true) /\
  (forall c : RunC05.call, RunC05.wf c -> RunC05.spec c (RunC05.run c) = true) /\
  (forall c : RunC06.call, RunC06.wf c -> RunC06.spec c (RunC06.run c) = true) /\
  (forall c : RunC07.call, RunC07.wf c -> RunC07.spec c (RunC07.run c) = true) /\
  (forall c : RunC08.call, RunC08.wf c -> RunC08.spec c (RunC08.run c) = true) /\
  (forall c : RunC09.call, RunC09.wf c -> RunC09.spec c (RunC09.run c) = true) /\
  (forall c : RunC10.call, RunC10.wf c -> RunC10.spec c (RunC10.run c) = true) /\
  (forall c : RunC11.call, RunC11.wf c -> RunC11.spec c (RunC11.run c) = true) /\
  (forall c : RunC12.call, RunC12.wf c -> RunC12.spec c (RunC12.run c) = true) /\
  (forall c : RunC13.call, RunC13.wf c -> RunC13.spec c (RunC13.run c) = true) /\
  (forall c : RunC14.call, RunC14.wf c -> RunC14.spec c (RunC14.run c) = true) /\
  (forall c : RunC15.call, RunC15.wf c -> RunC15.spec c (RunC15.run c) = true) /\
  (forall c : RunC16A.call, RunC16A.wf c -> RunC16A.spec c (RunC16A.run c) = true) /\
  (forall c : RunC16B.call, RunC16B.wf c -> RunC16B.spec c (RunC16B.run c) = true) /\
  (forall c : RunC16C.call, RunC16C.wf c -> RunC16C.spec c (RunC16C.run c) = true) /\
  (forall c : RunC17A.call, RunC17A.wf c -> RunC17A.spec c (RunC17A.run c) = true) /\
  (forall c : RunC17B.call, RunC17B.wf c -> RunC17B.spec c (RunC17B.run c) = true) /\
  (forall c : RunC17C.call, RunC17C.wf c -> RunC17C.spec c (RunC17C.run c) = true) /\
  (forall c : RunC18.call, RunC18.wf c -> RunC18.spec c (RunC18.run c) = true) /\
  (forall c : RunC19.call, RunC19.wf c -> RunC19.spec c (RunC19.run c) = true) /\
  (forall c : RunC20.call, RunC20.wf c -> RunC20.spec c (RunC20.run c) = true).
Proof.
  repeat split.
  - exact C01.C01_holds.
  - exact C02.C02_holds.
  - exact C03.C03_unconditional.
  - exact C04.C04a_holds.
  - exact C04.C04b_holds.
  - exact C04.C04c_holds.
  - exact C04.C04d_holds.
  - exact C05.C05_holds.
  - exact C06.C06_holds.
  - exact C07.C07_holds.
  - exact C08.C08_holds.
  - exact C09.C09_holds.
  - exact C10.C10_holds.
  - exact C11.C11_holds.
  - exact C12.C12_holds.
  - exact C13.C13_holds.
  - exact C14.C14_holds.
  - exact C15.C15_holds.
  - exact C16.C16A_holds.
  - exact C16.C16B_holds.
  - exact C16.C16C_holds.
  - exact C17.C17A_holds.
  - exact C17.C17B_holds.
  - exact C17.C17C_holds.
  - exact C18.C18_holds.
  - exact C19.C19_holds.
  - exact C20.C20_holds.
Qed.
Check ruint_model_meets_every_specification.
Print Assumptions ruint_model_meets_every_specification.
