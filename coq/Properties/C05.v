(* Properties/C05.v — Shifts and rotations move bits exactly and report lost bits exactly.
   Only pinned statements, `exact`, and Print Assumptions live here. *)
From Coq Require Import ZArith List Bool.
From RV.Model Require Import Base Word Shift.
From RV.Run Require Import RunC05.
From RV.Proofs Require PfShift PfC05.
Local Open Scope Z_scope.

(* For every width >= 0, every canonical value and every amount 0 <= s < 2^64 (every non-negative
   amount of each primitive amount type; Uint amounts of any magnitude, BITS < 2^64), every shift /
   rotation entry point of the model (methods, the 10 x 4 primitive operator impls, the Uint-amount
   impls) returns exactly what the integer specification RunC05.spec prescribes. *)
Theorem C05_holds : forall c : call, wf c -> spec c (run c) = true.
Proof. exact PfC05.C05_all. Qed.
Check C05_holds : forall c : call, wf c -> spec c (run c) = true.
Print Assumptions C05_holds.

(* Prop-level restatements, with plain 2^s (no shortcut for large amounts). *)
Theorem C05_overflowing_shl : forall bits a s,
  0 <= bits -> canon bits a -> 0 <= s ->
  let '(r, f) := Shift.overflowing_shl bits a s in
  canon bits r /\ eval r = (eval a * 2 ^ s) mod 2 ^ bits /\ f = (2 ^ bits <=? eval a * 2 ^ s).
Proof. exact PfShift.overflowing_shl_spec. Qed.
Check C05_overflowing_shl : forall bits a s,
  0 <= bits -> canon bits a -> 0 <= s ->
  let '(r, f) := Shift.overflowing_shl bits a s in
  canon bits r /\ eval r = (eval a * 2 ^ s) mod 2 ^ bits /\ f = (2 ^ bits <=? eval a * 2 ^ s).
Print Assumptions C05_overflowing_shl.

Theorem C05_overflowing_shr : forall bits a s,
  0 <= bits -> canon bits a -> 0 <= s ->
  let '(r, f) := Shift.overflowing_shr bits a s in
  canon bits r /\ eval r = eval a / 2 ^ s /\ f = negb (eval a mod 2 ^ s =? 0).
Proof. exact PfShift.overflowing_shr_spec. Qed.
Check C05_overflowing_shr : forall bits a s,
  0 <= bits -> canon bits a -> 0 <= s ->
  let '(r, f) := Shift.overflowing_shr bits a s in
  canon bits r /\ eval r = eval a / 2 ^ s /\ f = negb (eval a mod 2 ^ s =? 0).
Print Assumptions C05_overflowing_shr.

Theorem C05_arithmetic_shr : forall bits a s,
  0 < bits -> canon bits a -> 0 <= s ->
  canon bits (Shift.arithmetic_shr bits a s) /\
  eval (Shift.arithmetic_shr bits a s) =
    if Z.testbit (eval a) (bits - 1) then ((eval a - 2 ^ bits) / 2 ^ s) mod 2 ^ bits
    else eval a / 2 ^ s.
Proof. exact PfShift.arithmetic_shr_spec. Qed.
Check C05_arithmetic_shr : forall bits a s,
  0 < bits -> canon bits a -> 0 <= s ->
  canon bits (Shift.arithmetic_shr bits a s) /\
  eval (Shift.arithmetic_shr bits a s) =
    if Z.testbit (eval a) (bits - 1) then ((eval a - 2 ^ bits) / 2 ^ s) mod 2 ^ bits
    else eval a / 2 ^ s.
Print Assumptions C05_arithmetic_shr.

Theorem C05_rotate_left : forall bits a s,
  0 < bits -> canon bits a -> 0 <= s ->
  let r := s mod bits in
  canon bits (Shift.rotate_left bits a s) /\
  eval (Shift.rotate_left bits a s) = (eval a * 2 ^ r) mod 2 ^ bits + eval a / 2 ^ (bits - r).
Proof. exact PfShift.rotate_left_spec. Qed.
Check C05_rotate_left : forall bits a s,
  0 < bits -> canon bits a -> 0 <= s ->
  let r := s mod bits in
  canon bits (Shift.rotate_left bits a s) /\
  eval (Shift.rotate_left bits a s) = (eval a * 2 ^ r) mod 2 ^ bits + eval a / 2 ^ (bits - r).
Print Assumptions C05_rotate_left.

Theorem C05_rotate_right : forall bits a s,
  0 < bits -> canon bits a -> 0 <= s ->
  let r := s mod bits in
  canon bits (Shift.rotate_right bits a s) /\
  eval (Shift.rotate_right bits a s) = eval a / 2 ^ r + (eval a * 2 ^ (bits - r)) mod 2 ^ bits.
Proof. exact PfShift.rotate_right_spec. Qed.
Check C05_rotate_right : forall bits a s,
  0 < bits -> canon bits a -> 0 <= s ->
  let r := s mod bits in
  canon bits (Shift.rotate_right bits a s) /\
  eval (Shift.rotate_right bits a s) = eval a / 2 ^ r + (eval a * 2 ^ (bits - r)) mod 2 ^ bits.
Print Assumptions C05_rotate_right.

Theorem C05_shl_uint : forall bits a k,
  0 <= bits < 2 ^ 64 -> canon bits a -> canon bits k ->
  canon bits (Shift.shl_uint bits a k) /\
  eval (Shift.shl_uint bits a k) = (eval a * 2 ^ eval k) mod 2 ^ bits.
Proof. exact PfShift.shl_uint_spec. Qed.
Check C05_shl_uint : forall bits a k,
  0 <= bits < 2 ^ 64 -> canon bits a -> canon bits k ->
  canon bits (Shift.shl_uint bits a k) /\
  eval (Shift.shl_uint bits a k) = (eval a * 2 ^ eval k) mod 2 ^ bits.
Print Assumptions C05_shl_uint.

Theorem C05_shr_uint : forall bits a k,
  0 <= bits < 2 ^ 64 -> canon bits a -> canon bits k ->
  canon bits (Shift.shr_uint bits a k) /\ eval (Shift.shr_uint bits a k) = eval a / 2 ^ eval k.
Proof. exact PfShift.shr_uint_spec. Qed.
Check C05_shr_uint : forall bits a k,
  0 <= bits < 2 ^ 64 -> canon bits a -> canon bits k ->
  canon bits (Shift.shr_uint bits a k) /\ eval (Shift.shr_uint bits a k) = eval a / 2 ^ eval k.
Print Assumptions C05_shr_uint.

(* The executable helpers of RunC05.spec (which shortcut amounts >= BITS so that amounts near
   2^64 stay computable) are the plain formulas of the property. *)
Theorem C05_spec_helpers : forall bits v s,
  0 <= bits -> 0 <= s -> 0 <= v < 2 ^ bits ->
  shl_val bits v s = (v * 2 ^ s) mod 2 ^ bits /\
  shl_lost bits v s = (2 ^ bits <=? v * 2 ^ s) /\
  shr_val bits v s = v / 2 ^ s /\
  shr_lost bits v s = negb (v mod 2 ^ s =? 0) /\
  (0 < bits -> ashr_val bits v s =
     if Z.testbit v (bits - 1) then ((v - 2 ^ bits) / 2 ^ s) mod 2 ^ bits else v / 2 ^ s) /\
  (s <= bits -> rotl_val bits v s = (v * 2 ^ s) mod 2 ^ bits + v / 2 ^ (bits - s)).
Proof.
  intros bits v s H Hs Hv.
  split; [apply PfC05.shl_val_math; assumption|].
  split; [apply PfC05.shl_lost_math; tauto|].
  split; [apply PfC05.shr_val_math; assumption|].
  split; [apply PfC05.shr_lost_math; assumption|].
  split; [intros; apply PfC05.ashr_val_math; assumption|].
  intros; apply PfC05.rotl_val_math; tauto.
Qed.
Check C05_spec_helpers : forall bits v s,
  0 <= bits -> 0 <= s -> 0 <= v < 2 ^ bits ->
  shl_val bits v s = (v * 2 ^ s) mod 2 ^ bits /\
  shl_lost bits v s = (2 ^ bits <=? v * 2 ^ s) /\
  shr_val bits v s = v / 2 ^ s /\
  shr_lost bits v s = negb (v mod 2 ^ s =? 0) /\
  (0 < bits -> ashr_val bits v s =
     if Z.testbit v (bits - 1) then ((v - 2 ^ bits) / 2 ^ s) mod 2 ^ bits else v / 2 ^ s) /\
  (s <= bits -> rotl_val bits v s = (v * 2 ^ s) mod 2 ^ bits + v / 2 ^ (bits - s)).
Print Assumptions C05_spec_helpers.

(* Non-vacuity: the regression inputs of the repaired defects are wf and flag lost bits. *)
Example C05_nonvacuous :
  wfb (overflowing_shl 65 [0; 1] 1) = true /\
  run (overflowing_shl 65 [0; 1] 1) = Val [TL [0; 0]; TB true] /\
  run (overflowing_shr 128 [1; 0] 64) = Val [TL [0; 0]; TB true] /\
  run (overflowing_shl 128 [0x8000000000000001; 3] 65) = Val [TL [0; 2]; TB true] /\
  wfb (shl_uint 128 [1; 0] [0; 1]) = true /\
  run (shl_uint 128 [1; 0] [0; 1]) = Val [TL [0; 0]] /\
  run (rotate_left 65 [1; 1] 66) = Val [TL [3; 0]].
Proof. repeat split; vm_compute; reflexivity. Qed.
