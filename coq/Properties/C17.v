(* Properties/C17.v — Decoders are total on untrusted input: no panic, no out-of-range value.
   Assembled by tools_assemble_props.py from one part per integration group (A: serde, rlp,
   alloy-rlp, fastrlp; B: SCALE, SSZ, borsh, DER; C: num-bigint, primitive-types, bytemuck,
   postgres, ark-ff).  Only pinned statements, `exact`, Print Assumptions. *)

(* ======================= C17A.part ======================= *)
(* Properties/C17.v — Decoders are total on untrusted input: no panic, no out-of-range value.
   TEMPORARY (part A only): the integrator merges the parts.  Only pinned statements, `exact`,
   and Print Assumptions live here. *)
From Coq Require Import ZArith List Bool.
From RV.Model Require Import Base Word Bytes BaseConv CodecA.
From RV.Spec Require Import FmtA.
From RV.Run Require RunC17A.
From RV.Proofs Require PfCodecA PfC17A.
Import ListNotations.
Local Open Scope Z_scope.

(* Group A: for every width 0 <= BITS < 2^64 and every input byte string / text / u64 / u128, each
   decoder of rlp (Uint, Bits), alloy-rlp, fastrlp 0.3/0.4, serde_json, bincode returns Ok or Err
   (never panics); Ok(v): v canonical and denoted by the input under Spec/FmtA's grammar, and for
   alloy-rlp / fastrlp the consumed prefix is exactly the reference encoding of v; Err: the input is
   not the reference encoding of an in-range value. *)
Theorem C17A_holds : forall c : RunC17A.call, RunC17A.wf c -> RunC17A.spec c (RunC17A.run c) = true.
Proof. exact PfC17A.C17A_all. Qed.
Check C17A_holds : forall c : RunC17A.call, RunC17A.wf c -> RunC17A.spec c (RunC17A.run c) = true.
Print Assumptions C17A_holds.

(* alloy-rlp (and fastrlp, by fastrlp_decode_eq): accepted input = reference encoding ++ rest *)
Theorem C17A_alloy_accepts_iff : forall bits inp l m, RunC17A.okbits bits -> Forall isbyte inp ->
  (CodecA.alloy_rlp_decode bits inp = Val (Ok (l, m))
   <-> canon bits l /\ m = lenZ (rlp_uint (eval l)) /\ exists rest, inp = rlp_uint (eval l) ++ rest).
Proof. exact PfC17A.alloy_rlp_accepts_iff. Qed.
Check C17A_alloy_accepts_iff : forall bits inp l m, RunC17A.okbits bits -> Forall isbyte inp ->
  (CodecA.alloy_rlp_decode bits inp = Val (Ok (l, m))
   <-> canon bits l /\ m = lenZ (rlp_uint (eval l)) /\ exists rest, inp = rlp_uint (eval l) ++ rest).
Print Assumptions C17A_alloy_accepts_iff.

Theorem C17A_fastrlp_eq : forall bits inp, Forall isbyte inp ->
  CodecA.fastrlp_decode bits inp = CodecA.alloy_rlp_decode bits inp.
Proof. exact PfCodecA.fastrlp_decode_eq. Qed.
Check C17A_fastrlp_eq : forall bits inp, Forall isbyte inp ->
  CodecA.fastrlp_decode bits inp = CodecA.alloy_rlp_decode bits inp.
Print Assumptions C17A_fastrlp_eq.

(* non-vacuity: a list (F19 regression), leading zero, non-canonical single byte, long form for a short string, excess
   high bits at a width with BYTES % 8 = 0 and BITS % 64 <> 0 are errors; a valid one is accepted *)
Example C17A_nonvacuous :
  RunC17A.run (RunC17A.rlp_decode 64 [193; 5]) = Val [TErr 4]
  /\ RunC17A.run (RunC17A.alloy_rlp_decode 256 [130; 0; 0]) = Val [TErr 2]
  /\ RunC17A.run (RunC17A.alloy_rlp_decode 256 [129; 127]) = Val [TErr 4]
  /\ RunC17A.run (RunC17A.fastrlp04_decode 256 [184; 1; 200]) = Val [TErr 5]
  /\ RunC17A.run (RunC17A.alloy_rlp_decode 60 [136; 255; 255; 255; 255; 255; 255; 255; 255]) = Val [TErr 1]
  /\ RunC17A.run (RunC17A.alloy_rlp_decode 256 [130; 4; 0; 9]) = Val [TL [1024; 0; 0; 0]; TZ 3].
Proof. vm_compute. repeat split. Qed.

(* ======================= C17B.part ======================= *)
(* Properties/C17.v — Decoders are total on untrusted input: no panic, no out-of-range value.
   TEMPORARY umbrella holding only group B (SCALE plain + compact, SSZ, borsh, DER); the
   integrator merges the other groups.  Only pinned statements, `exact`, Print Assumptions. *)
From Coq Require Import ZArith List Bool.
From RV.Model Require Import Base Word Bytes.
From RV.Model Require CodecB.
From RV.Spec Require FmtB.
From RV.Run Require RunC17B.
From RV.Proofs Require PfCodecB PfC17B.
Import ListNotations.
Local Open Scope Z_scope.

(* Group B: for every width and EVERY input byte string each decoder returns (never panics, except
   the documented compact panic for BITS >= 536) an error or Ok v where v < 2^BITS is the value
   the input denotes under the format and the stated number of bytes was consumed; truncated
   input, values >= 2^BITS and malformed headers are errors; the reference encoding of every
   in-range value is accepted; DER (and its Int / Any object forms) accepts exactly the canonical
   encoding. *)
Theorem C17B_holds : forall c : RunC17B.call, RunC17B.wf c -> RunC17B.spec c (RunC17B.run c) = true.
Proof. exact PfC17B.C17B_all. Qed.
Check C17B_holds : forall c : RunC17B.call, RunC17B.wf c -> RunC17B.spec c (RunC17B.run c) = true.
Print Assumptions C17B_holds.

(* the DER recogniser used by the specification is exactly the reference encoder's image:
   an accepted input re-encodes to the bytes consumed *)
Theorem C17B_der_canonical : forall inp v, Forall isbyte inp -> FmtB.der_parse inp = Some v ->
  inp = FmtB.der_integer v /\ 0 <= v.
Proof. exact PfCodecB.der_parse_sound. Qed.
Check C17B_der_canonical : forall inp v, Forall isbyte inp -> FmtB.der_parse inp = Some v ->
  inp = FmtB.der_integer v /\ 0 <= v.
Print Assumptions C17B_der_canonical.

Theorem C17B_der_complete : forall v, 0 <= v -> FmtB.der_parse (FmtB.der_integer v) = Some v.
Proof. exact PfCodecB.der_parse_complete. Qed.
Check C17B_der_complete : forall v, 0 <= v -> FmtB.der_parse (FmtB.der_integer v) = Some v.
Print Assumptions C17B_der_complete.

(* ruint's DER decoder, Prop level: total, Ok exactly on the canonical encoding of a value < 2^BITS *)
Theorem C17B_der_decode : forall bits inp, 0 <= bits < 2 ^ 30 -> Forall isbyte inp ->
  exists c,
  CodecB.der_decode bits inp =
    Val (match FmtB.der_parse inp with
         | Some v => if v <? 2 ^ bits then CodecB.Ok (uint_of bits v) else CodecB.Err c []
         | None => CodecB.Err c []
         end).
Proof. exact PfCodecB.der_decode_eq. Qed.
Check C17B_der_decode : forall bits inp, 0 <= bits < 2 ^ 30 -> Forall isbyte inp ->
  exists c,
  CodecB.der_decode bits inp =
    Val (match FmtB.der_parse inp with
         | Some v => if v <? 2 ^ bits then CodecB.Ok (uint_of bits v) else CodecB.Err c []
         | None => CodecB.Err c []
         end).
Print Assumptions C17B_der_decode.

(* the compact decoder: total below the limit; an accepted input denotes the returned value *)
Theorem C17B_compact_decode : forall bits inp, 0 <= bits < 536 -> Forall isbyte inp ->
  exists r, CodecB.compact_decode bits inp = Val r /\
    match r with
    | CodecB.Ok (x, rest) =>
        exists v used, FmtB.compact_denote inp = Some (v, used) /\ x = uint_of bits v /\
                       v < 2 ^ bits /\ lenZ rest = lenZ inp - used
    | CodecB.Err _ p => p = []
    end.
Proof. exact PfCodecB.compact_decode_sound. Qed.
Check C17B_compact_decode : forall bits inp, 0 <= bits < 536 -> Forall isbyte inp ->
  exists r, CodecB.compact_decode bits inp = Val r /\
    match r with
    | CodecB.Ok (x, rest) =>
        exists v used, FmtB.compact_denote inp = Some (v, used) /\ x = uint_of bits v /\
                       v < 2 ^ bits /\ lenZ rest = lenZ inp - used
    | CodecB.Err _ p => p = []
    end.
Print Assumptions C17B_compact_decode.

(* SSZ: Ok exactly on BYTES bytes denoting a value < 2^BITS (F11 regression, Prop level) *)
Theorem C17B_ssz_decode : forall bits inp, 0 <= bits -> Forall isbyte inp ->
  CodecB.ssz_decode bits inp =
    Val (if lenZ inp =? nbytes bits then
           if le_value inp <? 2 ^ bits then CodecB.Ok (uint_of bits (le_value inp)) else CodecB.Err 2 []
         else CodecB.Err 1 [lenZ inp; nbytes bits]).
Proof. exact PfCodecB.ssz_decode_spec. Qed.
Check C17B_ssz_decode : forall bits inp, 0 <= bits -> Forall isbyte inp ->
  CodecB.ssz_decode bits inp =
    Val (if lenZ inp =? nbytes bits then
           if le_value inp <? 2 ^ bits then CodecB.Ok (uint_of bits (le_value inp)) else CodecB.Err 2 []
         else CodecB.Err 1 [lenZ inp; nbytes bits]).
Print Assumptions C17B_ssz_decode.

Example C17B_nonvacuous :
  RunC17B.run (RunC17B.ssz_decode 7 [0xff]) = Val [TErr 2] /\
  RunC17B.run (RunC17B.ssz_decode 64 []) = Val [TErr 1; TZ 0; TZ 8] /\
  RunC17B.run (RunC17B.der_decode 64 [2; 2; 0; 0x7f]) = Val [TErr 8] /\
  RunC17B.run (RunC17B.der_decode 64 [2; 2; 0; 0x80]) = Val [TL [0x80]; TZ 4] /\
  RunC17B.run (RunC17B.scale_compact_decode 536 [0]) = Panic /\
  RunC17B.spec (RunC17B.ssz_decode 7 [0xff]) Panic = false /\
  RunC17B.spec (RunC17B.ssz_decode 64 []) (Val [TL [0]; TZ 0]) = false /\
  RunC17B.spec (RunC17B.der_decode 64 [2; 2; 0; 0x7f]) (Val [TL [0x7f]; TZ 4]) = false.
Proof. vm_compute. repeat split. Qed.

(* ======================= C17C.part ======================= *)
(* Properties/C17.v — TEMPORARY umbrella with part C only (the coordinator merges the parts).
   Decoders are total on untrusted input: no panic, no out-of-range value; part C = num-bigint,
   primitive-types, bytemuck, postgres FromSql.
   Only pinned statements, `exact`, and Print Assumptions live here. *)
From Coq Require Import ZArith List Bool.
From RV.Model Require Import Base Word.
From RV.Model Require Bytes CodecC.
From RV.Spec Require FmtC.
From RV.Run Require RunC16C RunC17C.
From RV.Proofs Require PfC17C.
Import ListNotations.
Local Open Scope Z_scope.

(* For every call of RunC17C (every width, every input): the decoder returns (never Panic /
   DebugPanic / OutOfFuel) either an error or Ok v where v < 2^BITS is the integer the input
   denotes under the reference format of Spec/FmtC.v; negative BigInts, too-large values,
   truncated or malformed headers are errors. *)
Theorem C17C_holds : forall c : RunC17C.call, RunC17C.wf c -> RunC17C.spec c (RunC17C.run c) = true.
Proof. exact PfC17C.C17C_all. Qed.
Check C17C_holds : forall c : RunC17C.call, RunC17C.wf c -> RunC17C.spec c (RunC17C.run c) = true.
Print Assumptions C17C_holds.

(* postgres FromSql::from_sql, Prop level: for every column type code (accepted or not), every
   width and every byte string the model returns a value r (no panic) that meets the decoding
   specification. *)
Theorem C17C_pg_from_sql_total : forall bits ty raw,
  0 <= bits -> Forall Bytes.isbyte raw ->
  exists r, CodecC.pg_from_sql bits ty raw = Val r
    /\ RunC17C.spec_pg bits ty raw (Val (RunC16C.fsres_toks r)) = true.
Proof. exact PfC17C.pg_from_sql_ok. Qed.
Check C17C_pg_from_sql_total : forall bits ty raw,
  0 <= bits -> Forall Bytes.isbyte raw ->
  exists r, CodecC.pg_from_sql bits ty raw = Val r
    /\ RunC17C.spec_pg bits ty raw (Val (RunC16C.fsres_toks r)) = true.
Print Assumptions C17C_pg_from_sql_total.

(* non-vacuity: the repaired inputs are errors, a valid VARBIT decodes *)
Example C17C_nonvacuous :
  RunC17C.run (RunC17C.pg_from_sql 64 14 [0x22]) = Val [TErr 10; TErr 4; TZ 0x22]
  /\ RunC17C.run (RunC17C.pg_from_sql 64 7 [255;255;255;255;255;255;255;255])
     = Val [TErr 6; TZ 64; TL [0xffffffffffffffff]]
  /\ RunC17C.run (RunC17C.pg_from_sql 7 10 [0;0;0;7; 0xaa]) = Val [TL [0x55]]
  /\ RunC17C.run (RunC17C.pg_from_sql 64 16 [0;1; 0x7f;0xff; 0;0; 0;0; 0;1]) = Val [TErr 11; TErr 1].
Proof. vm_compute. repeat split. Qed.
