(* Properties/C19.v — uint! literals equal the positional value of their digits at the suffix
   width; bad literals are rejected; everything else passes through at any depth.
   Only pinned statements, `exact`, and Print Assumptions live here. *)
From Coq Require Import ZArith List Bool.
From RV.Model Require Import Base Macro.
From RV.Run Require Import RunC19.
From RV.Proofs Require PfMacro PfC19.
Local Open Scope Z_scope.

(* For every program of the two shapes (one literal under any of the three entry points; any
   balanced token tree under stringify!), the model's observable result is the one the
   specification prescribes: [TZ 0] / expansion to the canonical limbs of the positional value /
   compile error for a literal; for a tree, every literal item replaced on its own whatever its
   depth, every other item unchanged. *)
Theorem C19_holds : forall c : call, wf c -> spec c (run c) = true.
Proof. exact PfC19.C19_all. Qed.
Check C19_holds : forall c : call, wf c -> spec c (run c) = true.
Print Assumptions C19_holds.

(* transform_literal against the specification of one literal, for every text *)
Theorem C19_literal : forall src,
  match spec_literal src with
  | SPass => transform_literal src = LPass
  | SExpand k w limbs => exists bt, base_type_code bt = k /\ transform_literal src = LExpand bt w limbs
  | SReject => transform_literal src = LError \/ transform_literal src = LPanic
  end.
Proof. exact PfMacro.transform_literal_spec. Qed.
Check C19_literal : forall src,
  match spec_literal src with
  | SPass => transform_literal src = LPass
  | SExpand k w limbs => exists bt, base_type_code bt = k /\ transform_literal src = LExpand bt w limbs
  | SReject => transform_literal src = LError \/ transform_literal src = LPanic
  end.
Print Assumptions C19_literal.

(* expansion: canonical limbs of exactly the positional value, which fits the width *)
Theorem C19_expand_value : forall src bt bits limbs,
  transform_literal src = LExpand bt bits limbs ->
  exists value, suffix_of src = Some (base_type_code bt, bits, value) /\
    let '(base, ds) := notation value in
    digits_valid base ds = true /\ positional base ds < 2 ^ bits /\
    canon bits limbs /\ eval limbs = positional base ds.
Proof. exact PfC19.expand_value. Qed.
Check C19_expand_value : forall src bt bits limbs,
  transform_literal src = LExpand bt bits limbs ->
  exists value, suffix_of src = Some (base_type_code bt, bits, value) /\
    let '(base, ds) := notation value in
    digits_valid base ds = true /\ positional base ds < 2 ^ bits /\
    canon bits limbs /\ eval limbs = positional base ds.
Print Assumptions C19_expand_value.

(* rejection iff an invalid digit or value >= 2^bits *)
Theorem C19_reject_iff : forall src,
  (transform_literal src = LError \/ transform_literal src = LPanic) <->
  exists kind bits value, suffix_of src = Some (kind, bits, value) /\
    let '(base, ds) := notation value in
    digits_valid base ds = false \/ 2 ^ bits <= positional base ds.
Proof. exact PfC19.reject_iff. Qed.
Check C19_reject_iff : forall src,
  (transform_literal src = LError \/ transform_literal src = LPanic) <->
  exists kind bits value, suffix_of src = Some (kind, bits, value) /\
    let '(base, ds) := notation value in
    digits_valid base ds = false \/ 2 ^ bits <= positional base ds.
Print Assumptions C19_reject_iff.

(* pass-through iff no U<bits>/B<bits> suffix under the hexadecimal-B rule *)
Theorem C19_passthrough : forall src, transform_literal src = LPass <-> suffix_of src = None.
Proof. exact PfC19.passthrough. Qed.
Check C19_passthrough : forall src, transform_literal src = LPass <-> suffix_of src = None.
Print Assumptions C19_passthrough.

(* the building blocks: digit accumulation and padding *)
Theorem C19_digits_loop : forall base ds, 2 <= base <= 16 ->
  match digits_loop base [0] ds with
  | Some l => digits_valid base ds = true /\ Forall inW l /\ eval l = positional base ds
  | None => digits_valid base ds = false
  end.
Proof. exact PfMacro.digits_loop_value. Qed.
Check C19_digits_loop : forall base ds, 2 <= base <= 16 ->
  match digits_loop base [0] ds with
  | Some l => digits_valid base ds = true /\ Forall inW l /\ eval l = positional base ds
  | None => digits_valid base ds = false
  end.
Print Assumptions C19_digits_loop.

Theorem C19_pad_limbs : forall bits limbs,
  0 <= bits -> Forall inW limbs ->
  match pad_limbs bits limbs with
  | Some l => eval limbs < 2 ^ bits /\ l = uint_of bits (eval limbs)
  | None => 2 ^ bits <= eval limbs
  end.
Proof. exact PfMacro.pad_limbs_spec. Qed.
Check C19_pad_limbs : forall bits limbs,
  0 <= bits -> Forall inW limbs ->
  match pad_limbs bits limbs with
  | Some l => eval limbs < 2 ^ bits /\ l = uint_of bits (eval limbs)
  | None => 2 ^ bits <= eval limbs
  end.
Print Assumptions C19_pad_limbs.

(* Non-vacuity: the regression of the repaired defect (12a_U8 is rejected, it used to expand to
   130), a carry across a limb, the hexadecimal-B rule, and a nested tree. *)
Example C19_nonvacuous :
  wfb (literal 8 0 [49; 50; 97; 95; 85; 56]) = true /\
  run (literal 8 0 [49; 50; 97; 95; 85; 56]) = CompileError /\
  (* 18446744073709551616_U65 *)
  run (literal 65 1 [49;56;52;52;54;55;52;52;48;55;51;55;48;57;53;53;49;54;49;54;95;85;54;53])
    = Val [TZ 0; TZ 65; TZ 2; TL [0; 1]] /\
  (* 0xABB8 passes, 0xAB_B8 is Bits<8> *)
  run (literal 0 0 [48;120;65;66;66;56]) = Val [TZ 0] /\
  run (literal 8 0 [48;120;65;66;95;66;56]) = Val [TZ 1; TZ 8; TZ 1; TL [171]] /\
  (* ( [ 1_U8 ] x ) under ruint::uint! *)
  wfb (tree 8 0 [[0;0]; [0;1]; [2;49;95;85;56]; [1]; [3;120]; [1]]) = true /\
  run (tree 8 0 [[0;0]; [0;1]; [2;49;95;85;56]; [1]; [3;120]; [1]])
    = Val [TZ 10; TZ 11; TY [36;99;114;97;116;101]; TZ 30; TZ 8; TZ 1; TL [1]; TZ 20; TY [120]; TZ 20] /\
  (* a None-delimited group (macro_rules expression fragment) is a nesting level too:
     show ( <None> 0x1_B8 </None> ) and the same literal forwarded in expression position *)
  wfb (tree 8 0 [[3;115;104;111;119]; [0;0]; [0;3]; [2;48;120;49;95;66;56]; [1]; [1]]) = true /\
  run (tree 8 0 [[3;115;104;111;119]; [0;0]; [0;3]; [2;48;120;49;95;66;56]; [1]; [1]])
    = Val [TY [115;104;111;119]; TZ 10; TY [36;99;114;97;116;101]; TZ 31; TZ 8; TZ 1; TL [1]; TZ 20] /\
  run (fwd 8 0 [48;120;49;95;66;56]) = Val [TZ 1; TZ 8; TZ 1; TL [1]].
Proof. repeat split; vm_compute; reflexivity. Qed.
