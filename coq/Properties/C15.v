(* Properties/C15.v — limb-slice multiply / accumulate / add / subtract / shift / compare kernels
   are exact.  Only pinned statements, `exact`, and Print Assumptions live here. *)
From Coq Require Import ZArith List Bool.
From RV.Model Require Import Base Word Add Limbs.
From RV.Run Require Import RunC15.
From RV.Proofs Require PfLimbs PfMulN PfC15.
Import ListNotations.
Local Open Scope Z_scope.

(* Every kernel call of the model returns what the integer specification RunC15.spec
   prescribes: the low limbs of the exact integer result and the exact carry / borrow / flag,
   for all slice lengths and all limb contents; documented panics (length mismatch) included. *)
Theorem C15_holds : forall c : call, wf c -> spec c (run c) = true.
Proof. exact PfC15.C15_all. Qed.
Check C15_holds : forall c : call, wf c -> spec c (run c) = true.
Print Assumptions C15_holds.

(* addmul: full product added into an accumulator of any length; the flag is exact. *)
Theorem C15_addmul : forall lhs a b,
  Forall inW lhs -> Forall inW a -> Forall inW b ->
  let '(l', f) := Limbs.addmul lhs a b in
  let n := Z.of_nat (length lhs) in
  let T := eval lhs + eval a * eval b in
  length l' = length lhs /\ Forall inW l' /\ eval l' = T mod B ^ n /\ f = (B ^ n <=? T).
Proof. exact PfLimbs.addmul_spec. Qed.
Check C15_addmul : forall lhs a b,
  Forall inW lhs -> Forall inW a -> Forall inW b ->
  let '(l', f) := Limbs.addmul lhs a b in
  let n := Z.of_nat (length lhs) in
  let T := eval lhs + eval a * eval b in
  length l' = length lhs /\ Forall inW l' /\ eval l' = T mod B ^ n /\ f = (B ^ n <=? T).
Print Assumptions C15_addmul.

Theorem C15_addmul_n : forall lhs a b,
  length lhs = length a -> length lhs = length b ->
  Forall inW lhs -> Forall inW a -> Forall inW b ->
  exists r, Limbs.addmul_n lhs a b = Val r /\ length r = length lhs /\ Forall inW r /\
            eval r = (eval lhs + eval a * eval b) mod B ^ Z.of_nat (length lhs).
Proof. exact PfMulN.addmul_n_spec. Qed.
Check C15_addmul_n : forall lhs a b,
  length lhs = length a -> length lhs = length b ->
  Forall inW lhs -> Forall inW a -> Forall inW b ->
  exists r, Limbs.addmul_n lhs a b = Val r /\ length r = length lhs /\ Forall inW r /\
            eval r = (eval lhs + eval a * eval b) mod B ^ Z.of_nat (length lhs).
Print Assumptions C15_addmul_n.

Theorem C15_submul_nx1 : forall lhs a b,
  length lhs = length a -> Forall inW lhs -> Forall inW a -> inW b ->
  exists r bo, Limbs.submul_nx1 lhs a b = Val (r, bo) /\ length r = length lhs /\ Forall inW r /\
    inW bo /\ eval r - B ^ Z.of_nat (length lhs) * bo = eval lhs - eval a * b.
Proof. exact PfLimbs.submul_nx1_spec. Qed.
Check C15_submul_nx1 : forall lhs a b,
  length lhs = length a -> Forall inW lhs -> Forall inW a -> inW b ->
  exists r bo, Limbs.submul_nx1 lhs a b = Val (r, bo) /\ length r = length lhs /\ Forall inW r /\
    inW bo /\ eval r - B ^ Z.of_nat (length lhs) * bo = eval lhs - eval a * b.
Print Assumptions C15_submul_nx1.

Theorem C15_shift_left_small : forall l s,
  Forall inW l -> 0 <= s < 64 ->
  exists r o, Limbs.shift_left_small l s = Val (r, o) /\ length r = length l /\ Forall inW r /\
    0 <= o < 2 ^ s /\ eval r + B ^ Z.of_nat (length l) * o = eval l * 2 ^ s.
Proof. exact PfLimbs.shift_left_small_spec. Qed.
Check C15_shift_left_small : forall l s,
  Forall inW l -> 0 <= s < 64 ->
  exists r o, Limbs.shift_left_small l s = Val (r, o) /\ length r = length l /\ Forall inW r /\
    0 <= o < 2 ^ s /\ eval r + B ^ Z.of_nat (length l) * o = eval l * 2 ^ s.
Print Assumptions C15_shift_left_small.

Theorem C15_shift_right_small : forall l s,
  Forall inW l -> 0 <= s < 64 ->
  exists r o, Limbs.shift_right_small l s = Val (r, o) /\ length r = length l /\ Forall inW r /\
    eval r = eval l / 2 ^ s /\ o = (eval l mod 2 ^ s) * 2 ^ (64 - s).
Proof. exact PfLimbs.shift_right_small_spec. Qed.
Check C15_shift_right_small : forall l s,
  Forall inW l -> 0 <= s < 64 ->
  exists r o, Limbs.shift_right_small l s = Val (r, o) /\ length r = length l /\ Forall inW r /\
    eval r = eval l / 2 ^ s /\ o = (eval l mod 2 ^ s) * 2 ^ (64 - s).
Print Assumptions C15_shift_right_small.

(* Non-vacuity: an accumulator shorter than the product overflows, and a trimmed operand works. *)
Example C15_nonvacuous :
  wfb (addmul 0 [1; 2] [0; 0xffffffffffffffff] [0xffffffffffffffff; 3]) = true /\
  run (addmul 0 [1; 2] [0; 0xffffffffffffffff] [0xffffffffffffffff; 3])
    = Val [TL [1; 3]; TB true].
Proof. split; vm_compute; reflexivity. Qed.
