(* Properties/C16.v — Every codec integration round-trips and emits its format's reference encoding.
   Assembled by tools_assemble_props.py from one part per integration group (A: serde, rlp,
   alloy-rlp, fastrlp; B: SCALE, SSZ, borsh, DER; C: num-bigint, primitive-types, bytemuck,
   postgres, ark-ff).  Only pinned statements, `exact`, Print Assumptions. *)

(* ======================= C16A.part ======================= *)
(* Properties/C16.v — Every codec integration round-trips and emits its format's reference encoding.
   TEMPORARY (part A only): the integrator merges the parts.  Only pinned statements, `exact`,
   and Print Assumptions live here. *)
From Coq Require Import ZArith List Bool.
From RV.Model Require Import Base Word Bytes BaseConv CodecA.
From RV.Spec Require Import FmtA.
From RV.Run Require RunC16A.
From RV.Proofs Require PfCodecA PfC16A.
Import ListNotations.
Local Open Scope Z_scope.

(* Group A (serde_json, bincode, rlp, alloy-rlp, fastrlp 0.3/0.4; Uint and Bits): for every width
   0 <= BITS < 2^64 and every canonical value the encoders emit Spec/FmtA's reference encoding of
   the value, length() is the number of bytes produced, MaxEncodedLenAssoc::LEN bounds it, the
   bytes equal the codec crate's own u64/u128 encoding when the value fits, and decoding the
   encoding returns the value (consuming exactly the encoding). *)
Theorem C16A_holds : forall c : RunC16A.call, RunC16A.wf c -> RunC16A.spec c (RunC16A.run c) = true.
Proof. exact PfC16A.C16A_all. Qed.
Check C16A_holds : forall c : RunC16A.call, RunC16A.wf c -> RunC16A.spec c (RunC16A.run c) = true.
Print Assumptions C16A_holds.

(* Prop-level: the RLP encoders of the glue = minimal big-endian RLP string of the value *)
Theorem C16A_rlp_encode : forall bits a, 0 <= bits -> canon bits a ->
  CodecA.rlp_encode bits a = Val (rlp_uint (eval a)).
Proof. exact PfCodecA.rlp_encode_spec. Qed.
Check C16A_rlp_encode : forall bits a, 0 <= bits -> canon bits a ->
  CodecA.rlp_encode bits a = Val (rlp_uint (eval a)).
Print Assumptions C16A_rlp_encode.

Theorem C16A_arlp_encode : forall bits a, 0 <= bits -> canon bits a ->
  CodecA.arlp_encode bits a = Val (rlp_uint (eval a)).
Proof. exact PfCodecA.arlp_encode_spec. Qed.
Check C16A_arlp_encode : forall bits a, 0 <= bits -> canon bits a ->
  CodecA.arlp_encode bits a = Val (rlp_uint (eval a)).
Print Assumptions C16A_arlp_encode.

Theorem C16A_arlp_length : forall bits a, 0 <= bits -> canon bits a ->
  CodecA.arlp_length bits a = Val (lenZ (rlp_uint (eval a))).
Proof. exact PfCodecA.arlp_length_spec. Qed.
Check C16A_arlp_length : forall bits a, 0 <= bits -> canon bits a ->
  CodecA.arlp_length bits a = Val (lenZ (rlp_uint (eval a))).
Print Assumptions C16A_arlp_length.

Theorem C16A_serde_json_ser : forall bits a, 0 <= bits -> canon bits a ->
  CodecA.serde_json_ser bits a = Val (json_quantity (eval a)).
Proof. exact PfCodecA.serde_json_ser_spec. Qed.
Check C16A_serde_json_ser : forall bits a, 0 <= bits -> canon bits a ->
  CodecA.serde_json_ser bits a = Val (json_quantity (eval a)).
Print Assumptions C16A_serde_json_ser.

Theorem C16A_bincode_ser : forall bits a, 0 <= bits -> canon bits a ->
  CodecA.bincode_ser bits a = bincode_uint bits (eval a).
Proof. exact PfCodecA.bincode_ser_spec. Qed.
Check C16A_bincode_ser : forall bits a, 0 <= bits -> canon bits a ->
  CodecA.bincode_ser bits a = bincode_uint bits (eval a).
Print Assumptions C16A_bincode_ser.

(* non-vacuity: a 56-byte payload in U512 takes the long form, 0xb8 0x38 ... *)
Example C16A_nonvacuous :
  RunC16A.run (RunC16A.alloy_rlp_length 512 [0; 0; 0; 0; 0; 0; 72057594037927936; 0])
  = Val [TZ 58; TZ 66]
  /\ RunC16A.run (RunC16A.serde_json_ser 64 [1024]) = Val [TY [34; 48; 120; 52; 48; 48; 34]]
  /\ RunC16A.run (RunC16A.rlp_encode 256 [1024; 0; 0; 0])
     = Val [TY [130; 4; 0]; TY [130; 4; 0]; TY [130; 4; 0]].
Proof. vm_compute. repeat split. Qed.

(* ======================= C16B.part ======================= *)
(* Properties/C16.v — Every codec integration round-trips and emits its format's reference
   encoding.  TEMPORARY umbrella holding only group B (SCALE plain + compact, SSZ, borsh, DER);
   the integrator merges the other groups.  Only pinned statements, `exact`, Print Assumptions. *)
From Coq Require Import ZArith List Bool.
From RV.Model Require Import Base Word Bytes.
From RV.Model Require CodecB.
From RV.Spec Require FmtB.
From RV.Run Require RunC16B.
From RV.Proofs Require PfCodecB PfC16B.
Import ListNotations.
Local Open Scope Z_scope.

(* Group B: for every width (plain SCALE: BITS < 2^32, DER: BITS < 2^30) and every canonical value,
   each encoder emits exactly the reference encoding of Spec/FmtB.v, decode(encode a) = Ok a with
   every byte consumed, size hints / max_encoded_len cover the bytes, ssz lengths and DER
   value_len / encoded_len equal them, nothing panics (compact: the documented panic for
   BITS >= 536), and the bytes equal the codec crate's encoding of the equal u64 / u128. *)
Theorem C16B_holds : forall c : RunC16B.call, RunC16B.wf c -> RunC16B.spec c (RunC16B.run c) = true.
Proof. exact PfC16B.C16B_all. Qed.
Check C16B_holds : forall c : RunC16B.call, RunC16B.wf c -> RunC16B.spec c (RunC16B.run c) = true.
Print Assumptions C16B_holds.

(* ruint's compact encoder is the SCALE compact grammar, below the 536-bit limit *)
Theorem C16B_compact_encode : forall bits a,
  0 <= bits < FmtB.COMPACT_MAX_BITS -> canon bits a ->
  CodecB.compact_encode bits a = Val (FmtB.compact (eval a)).
Proof. exact PfCodecB.compact_encode_spec. Qed.
Check C16B_compact_encode : forall bits a,
  0 <= bits < FmtB.COMPACT_MAX_BITS -> canon bits a ->
  CodecB.compact_encode bits a = Val (FmtB.compact (eval a)).
Print Assumptions C16B_compact_encode.

(* ... and decoding the reference encoding gives the value back, whatever follows it *)
Theorem C16B_compact_roundtrip : forall bits v tl,
  0 <= bits < 536 -> 0 <= v < 2 ^ bits -> Forall isbyte tl ->
  CodecB.compact_decode bits (FmtB.compact v ++ tl) = Val (CodecB.Ok (uint_of bits v, tl)).
Proof. exact PfCodecB.compact_decode_canonical. Qed.
Check C16B_compact_roundtrip : forall bits v tl,
  0 <= bits < 536 -> 0 <= v < 2 ^ bits -> Forall isbyte tl ->
  CodecB.compact_decode bits (FmtB.compact v ++ tl) = Val (CodecB.Ok (uint_of bits v, tl)).
Print Assumptions C16B_compact_roundtrip.

(* the compact grammar is self-consistent: the encoding of v denotes v and its own length *)
Theorem C16B_compact_grammar : forall v tl, 0 <= v < 2 ^ 536 ->
  FmtB.compact_denote (FmtB.compact v ++ tl) = Some (v, lenZ (FmtB.compact v)).
Proof. exact PfCodecB.compact_denote_compact. Qed.
Check C16B_compact_grammar : forall v tl, 0 <= v < 2 ^ 536 ->
  FmtB.compact_denote (FmtB.compact v ++ tl) = Some (v, lenZ (FmtB.compact v)).
Print Assumptions C16B_compact_grammar.

(* plain SCALE form = Vec<u8>::encode of the BYTES little-endian bytes, and it round-trips *)
Theorem C16B_scale_encode : forall bits a, 0 <= bits < 2 ^ 32 -> canon bits a ->
  CodecB.scale_encode bits a = Val (FmtB.scale_uint bits (eval a)).
Proof. exact PfCodecB.scale_encode_spec. Qed.
Check C16B_scale_encode : forall bits a, 0 <= bits < 2 ^ 32 -> canon bits a ->
  CodecB.scale_encode bits a = Val (FmtB.scale_uint bits (eval a)).
Print Assumptions C16B_scale_encode.

Theorem C16B_scale_roundtrip : forall bits v tl,
  0 <= bits < 2 ^ 32 -> 0 <= v < 2 ^ bits -> Forall isbyte tl ->
  CodecB.scale_decode bits (FmtB.scale_uint bits v ++ tl) = Val (CodecB.Ok (uint_of bits v, tl)).
Proof. exact PfCodecB.scale_decode_canonical. Qed.
Check C16B_scale_roundtrip : forall bits v tl,
  0 <= bits < 2 ^ 32 -> 0 <= v < 2 ^ bits -> Forall isbyte tl ->
  CodecB.scale_decode bits (FmtB.scale_uint bits v ++ tl) = Val (CodecB.Ok (uint_of bits v, tl)).
Print Assumptions C16B_scale_roundtrip.

(* DER: to_der is the canonical INTEGER TLV (value_len consistent, so encoding never fails) *)
Theorem C16B_der_encode : forall bits a, 0 <= bits < 2 ^ 30 -> canon bits a ->
  CodecB.der_encode bits a = Val (CodecB.Ok (FmtB.der_integer (eval a))).
Proof. exact PfCodecB.der_encode_spec. Qed.
Check C16B_der_encode : forall bits a, 0 <= bits < 2 ^ 30 -> canon bits a ->
  CodecB.der_encode bits a = Val (CodecB.Ok (FmtB.der_integer (eval a))).
Print Assumptions C16B_der_encode.

Theorem C16B_der_roundtrip : forall bits v, 0 <= bits < 2 ^ 30 -> 0 <= v < 2 ^ bits ->
  CodecB.der_decode bits (FmtB.der_integer v) = Val (CodecB.Ok (uint_of bits v)).
Proof. exact PfCodecB.der_decode_canonical. Qed.
Check C16B_der_roundtrip : forall bits v, 0 <= bits < 2 ^ 30 -> 0 <= v < 2 ^ bits ->
  CodecB.der_decode bits (FmtB.der_integer v) = Val (CodecB.Ok (uint_of bits v)).
Print Assumptions C16B_der_roundtrip.

Example C16B_nonvacuous :
  RunC16B.run (RunC16B.scale_compact_encode 64 [0x4000]) = Val [TY [2; 0; 1; 0]] /\
  RunC16B.run (RunC16B.der_encode 64 [0x80]) = Val [TY [2; 2; 0; 0x80]] /\
  RunC16B.run (RunC16B.scale_encode 16 [0x1ff]) = Val [TY [8; 0xff; 1]] /\
  RunC16B.run (RunC16B.scale_compact_encode 536 [1; 0; 0; 0; 0; 0; 0; 0; 0]) = Panic /\
  RunC16B.spec (RunC16B.scale_compact_encode 64 [0x4000]) (Val [TY [2; 0; 1; 1]]) = false.
Proof. vm_compute. repeat split. Qed.

(* ======================= C16C.part ======================= *)
(* Properties/C16.v — TEMPORARY umbrella with part C only (the coordinator merges the parts).
   Every codec integration round-trips and emits its format's reference encoding; part C =
   num-bigint, primitive-types, bytemuck, postgres, ark-ff 0.3 / 0.4.
   Only pinned statements, `exact`, and Print Assumptions live here. *)
From Coq Require Import ZArith List Bool.
From RV.Model Require Import Base Word.
From RV.Model Require Bytes CodecC.
From RV.Spec Require FmtC.
From RV.Run Require RunC16C RunC17C.
From RV.Proofs Require PfC16C.
Import ListNotations.
Local Open Scope Z_scope.

(* For every call of RunC16C (every width >= 0 where the integration exists, every canonical
   value): the encoder's output is the reference representation of Spec/FmtC.v (the value for
   BigUint/BigInt, the little-endian limb array for primitive-types / ark / bytemuck, the postgres
   wire format per column type), encoding fails with an error (never a panic) exactly when the
   value does not fit the column type, conversions into Uint from fixed-width foreign integers
   succeed exactly by range (`From` panics on an unrepresentable value), Fp conversions succeed
   exactly below the modulus, and decode(encode a) = a (postgres: for every non-float column type
   whose encoding succeeds). *)
Theorem C16C_holds : forall c : RunC16C.call, RunC16C.wf c -> RunC16C.spec c (RunC16C.run c) = true.
Proof. exact PfC16C.C16C_all. Qed.
Check C16C_holds : forall c : RunC16C.call, RunC16C.wf c -> RunC16C.spec c (RunC16C.run c) = true.
Print Assumptions C16C_holds.

(* postgres ToSql, Prop level: for a non-float column type the model writes exactly the reference
   bytes when there are some and returns an error otherwise. *)
Theorem C16C_pg_to_sql : forall bits ty a,
  0 <= bits -> canon bits a -> FmtC.is_float ty = false ->
  exists e, CodecC.pg_to_sql bits ty a =
    Val (match FmtC.pg_ref_encode bits ty (eval a) with
         | Some bs => BaseConv.Ok bs | None => BaseConv.Err e end).
Proof. exact PfC16C.pg_to_sql_enc. Qed.
Check C16C_pg_to_sql : forall bits ty a,
  0 <= bits -> canon bits a -> FmtC.is_float ty = false ->
  exists e, CodecC.pg_to_sql bits ty a =
    Val (match FmtC.pg_ref_encode bits ty (eval a) with
         | Some bs => BaseConv.Ok bs | None => BaseConv.Err e end).
Print Assumptions C16C_pg_to_sql.

(* the reference decoder inverts the reference encoder: any answer the decoding specification
   accepts for the reference bytes of v is Ok v *)
Theorem C16C_ref_roundtrip : forall bits ty v bs,
  0 <= bits -> 0 <= v < 2 ^ bits -> FmtC.pg_ref_encode bits ty v = Some bs ->
  Forall Bytes.isbyte bs /\
  forall r, RunC17C.spec_pg bits ty bs (Val (RunC16C.fsres_toks r)) = true ->
            r = BaseConv.Ok (uint_of bits v).
Proof. exact PfC16C.ref_encode_inv. Qed.
Check C16C_ref_roundtrip : forall bits ty v bs,
  0 <= bits -> 0 <= v < 2 ^ bits -> FmtC.pg_ref_encode bits ty v = Some bs ->
  Forall Bytes.isbyte bs /\
  forall r, RunC17C.spec_pg bits ty bs (Val (RunC16C.fsres_toks r)) = true ->
            r = BaseConv.Ok (uint_of bits v).
Print Assumptions C16C_ref_roundtrip.

(* non-vacuity: NUMERIC of 2^64 - 1 in a Uint<64> (the crate's test vector class), and the
   round trip through VARBIT at a width that is not a multiple of 8 *)
Example C16C_nonvacuous :
  RunC16C.run (RunC16C.pg_to_sql 64 16 [0xffffffffffffffff])
    = Val [TY [0;5; 0;4; 0;0; 0;0; 0x07;0x34; 0x1a;0x58; 0x02;0xe1; 0x03;0xbb; 0x06;0x4f]]
  /\ RunC16C.run (RunC16C.pg_rt 7 10 [0x55]) = Val [TSome; TL [0x55]]
  /\ RunC16C.run (RunC16C.pg_to_sql 7 10 [0x55]) = Val [TY [0;0;0;7; 0xaa]].
Proof. vm_compute. repeat split. Qed.
