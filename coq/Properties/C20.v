(* Properties/C20.v — Operator, wrapper and trait facades agree with the inherent methods.
   Only pinned statements, `exact`, and Print Assumptions live here. *)
From Coq Require Import ZArith List Bool.
From RV.Model Require Import Base Word.
From RV.Model Require Add Shift Bits Conv Bytes Mul UDiv Pow Gcd Str Facade.
From RV.Run Require Import RunC20.
From RV.Proofs Require PfFacade PfC20.
Import ListNotations.
Local Open Scope Z_scope.

(* For every width >= 0 and all well-typed operands, every facade entry point of the model (six
   impl_bin_op! shapes per operator, bit-op and shift shapes, Sum/Product, the forwarded Bits
   methods/operators/conversions, the num-traits, num-integer, subtle and zeroize impls) prints the
   same result as the inherent method on the same operands - same value, same None, same overflow
   flag, both panic; a facade whose signature cannot express the inherent None panics exactly
   there - and the facades that are more than a forward have the stated value.
   Holds for all well-typed calls (bit_ct included, after the repair 087eea9 in /repo). *)
Theorem C20_holds : forall c : call, wf c -> spec c (run c) = true.
Proof. exact PfC20.C20_all. Qed.
Check C20_holds : forall c : call, wf c -> spec c (run c) = true.
Print Assumptions C20_holds.

(* wf is well-typedness of the arguments *)
Theorem C20_wf_ct_gt : forall bits a b,
  wf (ct_gt bits a b) <-> 0 <= bits /\ canon bits a /\ canon bits b.
Proof. exact PfC20.wf_ct_gt. Qed.
Check C20_wf_ct_gt : forall bits a b,
  wf (ct_gt bits a b) <-> 0 <= bits /\ canon bits a /\ canon bits b.
Print Assumptions C20_wf_ct_gt.

Theorem C20_wf_op_mul : forall bits shape a b,
  wf (op_mul bits shape a b) <-> 0 <= bits /\ 0 <= shape < 6 /\ canon bits a /\ canon bits b.
Proof. exact PfC20.wf_op_mul. Qed.
Check C20_wf_op_mul : forall bits shape a b,
  wf (op_mul bits shape a b) <-> 0 <= bits /\ 0 <= shape < 6 /\ canon bits a /\ canon bits b.
Print Assumptions C20_wf_op_mul.

(* Prop-level restatements: the constant-time comparisons are the integer comparisons and the
   derived / Ord comparisons of the limb arrays. *)
Theorem C20_ct_eq : forall a b,
  length a = length b -> Forall inW a -> Forall inW b ->
  Facade.ct_eq a b = Facade.limbs_eq a b /\ Facade.ct_eq a b = (eval a =? eval b).
Proof. exact PfFacade.ct_eq_spec. Qed.
Check C20_ct_eq : forall a b,
  length a = length b -> Forall inW a -> Forall inW b ->
  Facade.ct_eq a b = Facade.limbs_eq a b /\ Facade.ct_eq a b = (eval a =? eval b).
Print Assumptions C20_ct_eq.

Theorem C20_ct_gt : forall a b,
  length a = length b -> Forall inW a -> Forall inW b ->
  Facade.ct_gt a b = Facade.ugt a b /\ Facade.ct_gt a b = (eval b <? eval a).
Proof. exact PfFacade.ct_gt_spec. Qed.
Check C20_ct_gt : forall a b,
  length a = length b -> Forall inW a -> Forall inW b ->
  Facade.ct_gt a b = Facade.ugt a b /\ Facade.ct_gt a b = (eval b <? eval a).
Print Assumptions C20_ct_gt.

Theorem C20_ct_lt : forall a b,
  length a = length b -> Forall inW a -> Forall inW b ->
  Facade.ct_lt a b = Facade.ult a b /\ Facade.ct_lt a b = (eval a <? eval b).
Proof. exact PfFacade.ct_lt_spec. Qed.
Check C20_ct_lt : forall a b,
  length a = length b -> Forall inW a -> Forall inW b ->
  Facade.ct_lt a b = Facade.ult a b /\ Facade.ct_lt a b = (eval a <? eval b).
Print Assumptions C20_ct_lt.

Theorem C20_ct_select : forall bits a b ch,
  0 <= bits -> canon bits a -> canon bits b ->
  Facade.ct_select bits a b ch = Val (if ch then b else a).
Proof. exact PfFacade.ct_select_spec. Qed.
Check C20_ct_select : forall bits a b ch,
  0 <= bits -> canon bits a -> canon bits b ->
  Facade.ct_select bits a b ch = Val (if ch then b else a).
Print Assumptions C20_ct_select.

Theorem C20_ct_negate : forall bits a ch,
  0 <= bits -> canon bits a ->
  Facade.ct_negate bits a ch = Val (if ch then Add.wrapping_neg bits a else a).
Proof. exact PfFacade.ct_negate_spec. Qed.
Check C20_ct_negate : forall bits a ch,
  0 <= bits -> canon bits a ->
  Facade.ct_negate bits a ch = Val (if ch then Add.wrapping_neg bits a else a).
Print Assumptions C20_ct_negate.

Theorem C20_ct_bit : forall bits a idx,
  0 <= bits -> canon bits a -> 0 <= idx ->
  Facade.ct_bit bits a idx = Val ((idx <? bits) && Z.testbit (eval a) idx) /\
  Bits.bit bits a idx = Val ((idx <? bits) && Z.testbit (eval a) idx).
Proof. exact PfFacade.ct_bit_spec. Qed.
Check C20_ct_bit : forall bits a idx,
  0 <= bits -> canon bits a -> 0 <= idx ->
  Facade.ct_bit bits a idx = Val ((idx <? bits) && Z.testbit (eval a) idx) /\
  Bits.bit bits a idx = Val ((idx <? bits) && Z.testbit (eval a) idx).
Print Assumptions C20_ct_bit.

(* swap_bytes reverses the BYTES-long representation and panics when the reversed value does
   not fit BITS (possible exactly at widths that are not a multiple of 8). *)
Theorem C20_swap_bytes : forall bits a,
  0 <= bits -> canon bits a ->
  let W := PfFacade.swapped bits a in
  Facade.nt_swap_bytes bits a = (if W <? 2 ^ bits then Val (uint_of bits W) else Panic) /\
  Bytes.try_from_le_slice bits (Bytes.to_be_bytes_vec bits a) =
    Val (if W <? 2 ^ bits then Some (uint_of bits W) else None).
Proof. exact PfFacade.swap_bytes_spec. Qed.
Check C20_swap_bytes : forall bits a,
  0 <= bits -> canon bits a ->
  let W := PfFacade.swapped bits a in
  Facade.nt_swap_bytes bits a = (if W <? 2 ^ bits then Val (uint_of bits W) else Panic) /\
  Bytes.try_from_le_slice bits (Bytes.to_be_bytes_vec bits a) =
    Val (if W <? 2 ^ bits then Some (uint_of bits W) else None).
Print Assumptions C20_swap_bytes.

(* all six shapes of a bit operator give the canonical limbs of the bitwise value *)
Theorem C20_bit_op_shapes : forall k bits sh a b,
  0 <= bits -> canon bits a -> canon bits b ->
  Bits.bit_op (Facade.bit_fun k) sh a b = Val (uint_of bits (Facade.bit_fun k (eval a) (eval b))).
Proof. exact PfFacade.bit_op_any_shape. Qed.
Check C20_bit_op_shapes : forall k bits sh a b,
  0 <= bits -> canon bits a -> canon bits b ->
  Bits.bit_op (Facade.bit_fun k) sh a b = Val (uint_of bits (Facade.bit_fun k (eval a) (eval b))).
Print Assumptions C20_bit_op_shapes.

(* Shl by a Uint amount = the inherent shift by the amount saturated to usize *)
Theorem C20_shl_uint : forall bits a k,
  0 <= bits < B -> canon bits a -> canon bits k ->
  Shift.shl_uint bits a k = Shift.wrapping_shl bits a (PfFacade.usize_sat k).
Proof. exact PfFacade.shl_uint_agrees. Qed.
Check C20_shl_uint : forall bits a k,
  0 <= bits < B -> canon bits a -> canon bits k ->
  Shift.shl_uint bits a k = Shift.wrapping_shl bits a (PfFacade.usize_sat k).
Print Assumptions C20_shl_uint.

(* Non-vacuity: a two-limb comparison decided by the low limb; swap_bytes at a ragged width. *)
Example C20_nonvacuous :
  wfb (ct_gt 128 [2; 7] [1; 7]) = true /\
  run (ct_gt 128 [2; 7] [1; 7]) = Val [TB true; TErr 0; TB true] /\
  run (nt_swap_bytes 9 [2]) = Val [TErr 1; TErr 0; TNone] /\
  spec (nt_swap_bytes 9 [2]) (run (nt_swap_bytes 9 [2])) = true /\
  run (op_bitxor 65 2 [5; 1] [3; 1]) = Val [TL [6; 0]; TErr 0; TL [6; 0]] /\
  run (ct_bit 8 [5] 8) = Val [TB false; TErr 0; TB false] /\
  run (ni_extended_gcd 64 [12] [18]) = Val [TL [6]; TL [1]; TL [1]; TErr 0; TL [6]; TL [1]; TL [1]] /\
  run (op_div 64 2 [5] [0]) = Val [TErr 1; TErr 0; TErr 1].
Proof. repeat split; vm_compute; reflexivity. Qed.
