(* Properties/C01.v — Addition, subtraction and negation are exact in the ring mod 2^BITS.
   Only pinned statements, `exact`, and Print Assumptions live here. *)
From Coq Require Import ZArith List Bool.
From RV.Model Require Import Base Word Add.
From RV.Run Require Import RunC01.
From RV.Proofs Require PfAdd PfC01.
Local Open Scope Z_scope.

(* For every width >= 0 and all canonical operands, every add/sub/neg entry point of the model
   (methods, six operator shapes, Neg, both Sum impls) returns exactly what the integer
   specification RunC01.spec prescribes: value mod 2^BITS in canonical limbs, overflow flag /
   None / saturation exactly when the unreduced result leaves [0, 2^BITS). *)
Theorem C01_holds : forall c : call, wf c -> spec c (run c) = true.
Proof. exact PfC01.C01_all. Qed.
Check C01_holds : forall c : call, wf c -> spec c (run c) = true.
Print Assumptions C01_holds.

(* Prop-level restatements of the two primitives everything else is built from. *)
Theorem C01_overflowing_add : forall bits a b,
  0 <= bits -> canon bits a -> canon bits b ->
  let '(r, f) := Add.overflowing_add bits a b in
  canon bits r /\ eval r = (eval a + eval b) mod 2 ^ bits /\ f = (2 ^ bits <=? eval a + eval b).
Proof. exact PfAdd.overflowing_add_spec. Qed.
Check C01_overflowing_add : forall bits a b,
  0 <= bits -> canon bits a -> canon bits b ->
  let '(r, f) := Add.overflowing_add bits a b in
  canon bits r /\ eval r = (eval a + eval b) mod 2 ^ bits /\ f = (2 ^ bits <=? eval a + eval b).
Print Assumptions C01_overflowing_add.

Theorem C01_overflowing_sub : forall bits a b,
  0 <= bits -> canon bits a -> canon bits b ->
  let '(r, f) := Add.overflowing_sub bits a b in
  canon bits r /\ eval r = (eval a - eval b) mod 2 ^ bits /\ f = (eval a <? eval b).
Proof. exact PfAdd.overflowing_sub_spec. Qed.
Check C01_overflowing_sub : forall bits a b,
  0 <= bits -> canon bits a -> canon bits b ->
  let '(r, f) := Add.overflowing_sub bits a b in
  canon bits r /\ eval r = (eval a - eval b) mod 2 ^ bits /\ f = (eval a <? eval b).
Print Assumptions C01_overflowing_sub.

(* Non-vacuity: a concrete non-trivial call meets wf, and the carry crosses a limb. *)
Example C01_nonvacuous :
  wfb (overflowing_add 65 [0xffffffffffffffff; 1] [1; 0]) = true /\
  run (overflowing_add 65 [0xffffffffffffffff; 1] [1; 0]) = Val [TL [0; 0]; TB true].
Proof. split; vm_compute; reflexivity. Qed.
