(* Gen/Prim.v — the primitives the Rust->Gallina translator (tools_rs2v.py) emits.
   Hand-written, definitions only.  chk* model the overflow checks of the debug profile. *)
From RV.Model Require Import Base Word.

Definition chk64 (x : Z) : outcome Z := if (0 <=? x) && (x <? B) then Val x else DebugPanic.
Definition chk128 (x : Z) : outcome Z := if (0 <=? x) && (x <? BB) then Val x else DebugPanic.
(* shift amount of a plain integer of width w *)
Definition chksh (w s : Z) : outcome Z := if (0 <=? s) && (s <? w) then Val s else DebugPanic.
(* divisor of `/` or `%` *)
Definition chkdiv (d : Z) : outcome Z := if d =? 0 then Panic else Val d.
Definition shl128 (x s : Z) : Z := (x * 2 ^ s) mod BB.
Definition shr128 (x s : Z) : Z := x / 2 ^ s.
Definition ov_add128 (x y : Z) : Z * bool := ((x + y) mod BB, BB <=? x + y).
Definition ov_sub128 (x y : Z) : Z * bool := ((x - y) mod BB, x <? y).
(* `TABLE.get_unchecked(i)`: an index outside the table is undefined behaviour in Rust; the
   translation makes it a Panic so that no theorem can rely on it *)
Definition tbl (t : list Z) (i : Z) : outcome Z :=
  match nth_error t (Z.to_nat i) with Some x => Val x | None => Panic end.
(* `x[i]` on a slice: out of bounds = Panic;  `x[i] = v` after a successful read of x[i] *)
Definition idx (l : list Z) (i : Z) : outcome Z :=
  match nth_error l (Z.to_nat i) with Some x => Val x | None => Panic end.
Definition upd (l : list Z) (i v : Z) : list Z :=
  firstn (Z.to_nat i) l ++ v :: skipn (S (Z.to_nat i)) l.
(* `let mut i = lo; while i < hi { body; i += 1; }` : the body runs for i = lo .. hi-1 on the
   tuple of variables it assigns (structural recursion on the trip count, so no fuel is needed) *)
Fixpoint for_loop {S : Type} (n : nat) (i : Z) (st : S) (body : Z -> S -> outcome S) : outcome S :=
  match n with
  | O => Val st
  | S n' => do st' <- body i st ; for_loop n' (i + 1) st' body
  end.
Definition for_range {S : Type} (lo hi : Z) (st : S) (body : Z -> S -> outcome S) : outcome S :=
  for_loop (Z.to_nat (hi - lo)) lo st body.
(* `for x in xs.iter_mut().rev() { body }` : the body runs for i = n-1 down to 0 *)
Fixpoint for_down {S : Type} (n : nat) (st : S) (body : Z -> S -> outcome S) : outcome S :=
  match n with
  | O => Val st
  | S n' => do st' <- body (Z.of_nat n') st ; for_down n' st' body
  end.
(* `&xs[a..b]`: out of range (a > b or b > len) = Panic.  `f(&mut xs[a..b])`: the callee's result
   for the window is written back with splice. *)
Definition subslice (l : list Z) (a b : Z) : outcome (list Z) :=
  if (0 <=? a) && (a <=? b) && (b <=? lenZ l)
  then Val (firstn (Z.to_nat (b - a)) (skipn (Z.to_nat a) l)) else Panic.
Definition splice (l : list Z) (a : Z) (w : list Z) : list Z :=
  firstn (Z.to_nat a) l ++ w ++ skipn (Z.to_nat a + length w) l.
(* `xs.copy_within(a..b, d)`, `xs[a..].fill(v)`, `xs.get(i).copied().unwrap_or_default()` *)
Definition copy_within (l : list Z) (a b d : Z) : outcome (list Z) :=
  if (0 <=? a) && (a <=? b) && (b <=? lenZ l) && (0 <=? d) && (d + (b - a) <=? lenZ l)
  then Val (firstn (Z.to_nat d) l ++ firstn (Z.to_nat (b - a)) (skipn (Z.to_nat a) l)
            ++ skipn (Z.to_nat (d + (b - a))) l)
  else Panic.
Definition fill_from (l : list Z) (a v : Z) : outcome (list Z) :=
  if (0 <=? a) && (a <=? lenZ l)
  then Val (firstn (Z.to_nat a) l ++ repeat v (length l - Z.to_nat a)) else Panic.
Definition get_or_default (l : list Z) (i : Z) : Z := nth (Z.to_nat i) l 0.
(* loops whose body may `return` from the function: the body yields Cont (next state) or Ret (the
   function's result); the loop stops at the first Ret *)
Inductive ctl (S R : Type) : Type := Cont (s : S) | Ret (r : R).
Arguments Cont {S R} s.
Arguments Ret {S R} r.
Fixpoint for_loop_ret {S R : Type} (n : nat) (i : Z) (st : S) (body : Z -> S -> outcome (ctl S R))
  : outcome (ctl S R) :=
  match n with
  | O => Val (Cont st)
  | S n' => do c <- body i st ;
            match c with Cont st' => for_loop_ret n' (i + 1) st' body | Ret r => Val (Ret r) end
  end.
Definition for_range_ret {S R : Type} (lo hi : Z) (st : S) (body : Z -> S -> outcome (ctl S R)) :=
  for_loop_ret (Z.to_nat (hi - lo)) lo st body.
Fixpoint for_down_ret {S R : Type} (n : nat) (st : S) (body : Z -> S -> outcome (ctl S R))
  : outcome (ctl S R) :=
  match n with
  | O => Val (Cont st)
  | S n' => do c <- body (Z.of_nat n') st ;
            match c with Cont st' => for_down_ret n' st' body | Ret r => Val (Ret r) end
  end.

(* `xs.iter().position(|&x| p)` *)
Fixpoint iter_position_from (p : Z -> bool) (l : list Z) (n : Z) : option Z :=
  match l with
  | [] => None
  | x :: t => if p x then Some n else iter_position_from p t (n + 1)
  end.
Definition iter_position (p : Z -> bool) (l : list Z) : option Z := iter_position_from p l 0.

(* `while c { body }` with a round bound: `st` is the tuple of the variables the body assigns;
   the bound is part of the translator's table, and exhausting it is OutOfFuel *)
Fixpoint while_fuel {S : Type} (fuel : nat) (st : S) (cond : S -> outcome bool) (body : S -> outcome S)
  : outcome S :=
  match fuel with
  | O => OutOfFuel
  | Datatypes.S fuel' =>
      do c <- cond st ;
      if (c : bool) then do st' <- body st ; while_fuel fuel' st' cond body else Val st
  end.

(* the tuple struct Matrix(u64, u64, u64, u64, bool) of algorithms/gcd/matrix.rs and its fields .0 .. .4 *)
Definition mat_0 (m : Z * Z * Z * Z * bool) : Z := let '(a, _, _, _, _) := m in a.
Definition mat_1 (m : Z * Z * Z * Z * bool) : Z := let '(_, a, _, _, _) := m in a.
Definition mat_2 (m : Z * Z * Z * Z * bool) : Z := let '(_, _, a, _, _) := m in a.
Definition mat_3 (m : Z * Z * Z * Z * bool) : Z := let '(_, _, _, a, _) := m in a.
Definition mat_4 (m : Z * Z * Z * Z * bool) : bool := let '(_, _, _, _, a) := m in a.

(* `loop { body }` that is left only by `return`, with a round bound from the translator's table *)
Fixpoint loop_fuel_ret {S R : Type} (fuel : nat) (st : S) (body : S -> outcome (ctl S R)) : outcome R :=
  match fuel with
  | O => OutOfFuel
  | Datatypes.S fuel' =>
      do c <- body st ;
      match c with Ret r => Val r | Cont st' => loop_fuel_ret fuel' st' body end
  end.

(* the same with `break`: the body yields Cont st (next round) or Ret st (leave the loop with st);
   the bound counts rounds (the condition is still evaluated when none is left) *)
Fixpoint while_fuel_brk {S : Type} (fuel : nat) (st : S) (cond : S -> outcome bool)
         (body : S -> outcome (ctl S S)) : outcome S :=
  do c <- cond st ;
  if (c : bool) then
    match fuel with
    | O => OutOfFuel
    | Datatypes.S fuel' =>
        do r <- body st ;
        match r with Cont st' => while_fuel_brk fuel' st' cond body | Ret st' => Val st' end
    end
  else Val st.

(* u128::leading_zeros; derived PartialEq of Matrix *)
Definition clz128 (x : Z) : Z := if x =? 0 then 128 else 127 - Z.log2 x.
Definition mat_eqb (x y : Z * Z * Z * Z * bool) : bool :=
  (mat_0 x =? mat_0 y) && (mat_1 x =? mat_1 y) && (mat_2 x =? mat_2 y) && (mat_3 x =? mat_3 y) && Bool.eqb (mat_4 x) (mat_4 y).

(* `while c { body }` with a bound on the number of rounds (the condition is evaluated first) *)
Fixpoint while_rounds {S : Type} (fuel : nat) (st : S) (cond : S -> outcome bool) (body : S -> outcome S)
  : outcome S :=
  do c <- cond st ;
  if (c : bool) then
    match fuel with
    | O => OutOfFuel
    | Datatypes.S fuel' => do st' <- body st ; while_rounds fuel' st' cond body
    end
  else Val st.

(* `xs.iter().rposition(|&x| p)` *)
Fixpoint iter_rposition (p : Z -> bool) (l : list Z) : option Z :=
  match l with
  | [] => None
  | x :: t =>
      match iter_rposition p t with
      | Some n => Some (n + 1)
      | None => if p x then Some 0 else None
      end
  end.

(* `iter.fold(init, g)` over an iterator of Uint values (given as a list) *)
Fixpoint fold_outcome {A X : Type} (g : A -> X -> outcome A) (l : list X) (acc : A) : outcome A :=
  match l with
  | [] => Val acc
  | x :: t => do r <- g acc x ; fold_outcome g t r
  end.
