(* Model/Gen.v — constants and value generators of `Uint` (property C04 part c), as written:
   src/lib.rs (ZERO, ONE, MIN, MAX, Default), src/from.rs (const_from_u64),
   src/bit_arr.rs (Bits::ZERO, Bits::from_limbs, derived Default, From<Bits> / From<Uint>),
   src/support/{rand,rand_09,arbitrary,proptest,quickcheck}.rs.
   from_limbs and the *_from_limbs_slice family are in Model/Conv.v.  Definitions only.

   Randomness is an explicit input: the words / bytes the generator draws from its source.
   * rand 0.8 / 0.9: `rng.fill(&mut self.limbs[..])` = `rng.fill_bytes` over the limb array seen
     as bytes, then `to_le` of every limb: limb i = the i-th 64-bit little-endian word of the
     byte stream; then `apply_mask`.
   * arbitrary 1.x: `u64::arbitrary(u)` = 8 bytes little-endian (missing bytes read as 0);
     `u.int_in_range(0..=MASK)` as in arbitrary-1.4 `int_in_range_impl` (big-endian
     accumulation of as many bytes as MASK needs, reduced modulo MASK + 1).
   * proptest: `any::<[u64; LIMBS]>().prop_map(Self::from_limbs_unmasked)`; the drawn array is
     the input.
   * quickcheck: `u64::arbitrary(g)` per limb, the last one `& MASK`; the drawn words are the
     input. *)
From RV.Model Require Import Base Word Conv.

(* ---------- constants ---------- *)
(* Uint::from_limbs_unmasked(limbs) = Self { limbs }.masked();
   masked: if Self::LIMBS > 0 && SHOULD_MASK { limbs[LIMBS - 1] &= MASK } *)
Definition from_limbs_unmasked (bits : Z) (l : list Z) : list Z :=
  if (0 <? nlimbs bits) && should_mask bits then map_last (fun x => Z.land x (mask bits)) l else l.

(* ZERO = from_limbs([0; LIMBS]) *)
Definition cZERO (bits : Z) : outcome (list Z) := Conv.from_limbs bits (zero_limbs (nlimbsN bits)).
(* MAX = from_limbs_unmasked([u64::MAX; LIMBS]) *)
Definition cMAX (bits : Z) : list Z := from_limbs_unmasked bits (repeat (B - 1) (nlimbsN bits)).
(* const_from_u64(x): if BITS == 0 || (BITS < 64 && x >= 1 << BITS) { return MAX }
   limbs = [0; LIMBS]; limbs[0] = x; from_limbs(limbs) *)
Definition const_from_u64 (bits x : Z) : outcome (list Z) :=
  if (bits =? 0) || ((bits <? 64) && (2 ^ bits <=? x)) then Val (cMAX bits)
  else
    do limbs <- Conv.set_nth (zero_limbs (nlimbsN bits)) 0%nat x ;
    Conv.from_limbs bits limbs.
Definition cONE (bits : Z) : outcome (list Z) := const_from_u64 bits 1.
Definition cMIN (bits : Z) : outcome (list Z) := cZERO bits.
(* Default::default() = Self::ZERO; Bits::ZERO = Bits(Uint::ZERO); Bits derives Default *)
Definition cDEFAULT (bits : Z) : outcome (list Z) := cZERO bits.

(* ---------- rand ---------- *)
(* the first n words of the source, missing words read as 0 (the harness source yields 0) *)
Definition take_words (n : nat) (ws : list Z) : list Z := firstn n (ws ++ repeat 0 n).
(* apply_mask: if SHOULD_MASK { self.limbs[LIMBS - 1] &= MASK } *)
Definition apply_mask (bits : Z) (l : list Z) : list Z := masked bits l.
(* randomize_with / random_with / Standard.sample / StandardUniform.sample *)
Definition rand_fill (bits : Z) (ws : list Z) : list Z :=
  apply_mask bits (take_words (nlimbsN bits) ws).

(* ---------- arbitrary ---------- *)
(* u64::from_le_bytes of the next 8 bytes (zero padded); returns the value and the rest *)
Fixpoint le_val (bs : list Z) : Z :=
  match bs with [] => 0 | b :: t => b + 256 * le_val t end.
Definition arb_u64 (bs : list Z) : Z * list Z := (le_val (firstn 8 bs), skipn 8 bs).
Fixpoint arb_rest (n : nat) (bs : list Z) : list Z * list Z :=
  match n with
  | O => ([], bs)
  | S n' => let '(x, bs1) := arb_u64 bs in
            let '(xs, bs2) := arb_rest n' bs1 in (x :: xs, bs2)
  end.
(* the while loop of int_in_range_impl for T = u64; k = bytes consumed so far *)
Fixpoint iir_loop (fuel : nat) (delta acc k : Z) (bs : list Z) : Z :=
  match fuel with
  | O => acc
  | S f =>
      if (k <? 8) && (0 <? Z.shiftr delta (8 * k)) then
        match bs with
        | [] => acc
        | b :: t => iir_loop f delta (Z.lor ((acc * 256) mod B) b) (k + 1) t
        end
      else acc
  end.
Definition int_in_range_0 (hi : Z) (bs : list Z) : Z :=
  if hi =? 0 then 0
  else
    let acc := iir_loop 8 hi 0 0 bs in
    if hi =? B - 1 then acc else acc mod (hi + 1).
(* <Uint as Arbitrary>::arbitrary *)
Definition arbitrary (bits : Z) (bs : list Z) : outcome (list Z) :=
  match nlimbsN bits with
  | O => Conv.from_limbs bits []
  | S n =>
      let '(rest, bs') := arb_rest n bs in
      Conv.from_limbs bits (rest ++ [int_in_range_0 (mask bits) bs'])
  end.

(* ---------- proptest / quickcheck ---------- *)
Definition proptest_map (bits : Z) (arr : list Z) : list Z := from_limbs_unmasked bits arr.
(* limbs = [0; LIMBS]; rest <- words; last <- word & MASK; from_limbs(limbs) *)
Definition quickcheck_arb (bits : Z) (ws : list Z) : outcome (list Z) :=
  Conv.from_limbs bits (map_last (fun x => Z.land x (mask bits)) (take_words (nlimbsN bits) ws)).
