(* Model/CodecB.v — ruint's glue for SCALE, SSZ, borsh and DER (src/support/{scale,ssz,borsh,der}.rs)
   as written: every index / unwrap / assert / try_from_le_slice / `to::<u8>` is an explicit
   outcome.  Definitions only.
   ruint's own functions are reused from Model/{Bytes,Bits,Conv,Shift,Add}.v.
   THIRD-PARTY FRAMING (marked [3p]) is modelled from the format definitions and the crates'
   documented limits, and validated end-to-end by the correspondence run:
     parity-scale-codec 3.7: `impl Input for &[u8]`, u16/u32/u64/u128::decode, Compact<u32>
       encode/decode/compact_len, `[u8]`/Vec<u8> encode/decode;
     der 0.7: SliceReader, Tag/Length/Header decode+encode, Encode::to_der, Decode::from_der,
       AnyRef::decode_as, IntRef/UintRef::new (strip_leading_ones / strip_leading_zeroes);
     borsh 1.x: `impl Read for &[u8]`::read_exact, Vec writer; ethereum_ssz: nothing (ruint's impl
       is the whole codec).
   A `Result` is `res`; error codes are the harness enums (see harness/src/bin/c16b.rs). *)
From RV.Model Require Import Base Word Bytes.
From RV.Model Require Bits Conv Shift Add.

Inductive res (A : Type) : Type :=
| Ok (a : A)
| Err (code : Z) (payload : list Z).
Arguments Ok {A} a.
Arguments Err {A} code payload.

(* `r?` / and_then inside a function returning outcome (res _) *)
Definition rbind {A C} (r : res A) (k : A -> outcome (res C)) : outcome (res C) :=
  match r with Ok a => k a | Err c p => Val (Err c p) end.
Notation "'dor' x <- r ; k" := (rbind r (fun x => k))
  (at level 200, x pattern, r at level 100, k at level 200, right associativity).

(* ================================================================== SCALE *)
Definition S_EOF : Z := 1.       (* "Not enough data ..." *)
Definition S_RANGE : Z := 2.     (* "out of range ..." *)
Definition S_FIT : Z := 3.       (* "value is larger than fits the Uint" *)

(* [3p] <&[u8] as Input>::read(into) with into.len() = n: (bytes read, remaining input) *)
Definition in_read (n : Z) (inp : list Z) : res (list Z * list Z) :=
  if lenZ inp <? n then Err S_EOF []
  else Ok (firstn (Z.to_nat n) inp, skipn (Z.to_nat n) inp).
(* [3p] Input::read_byte *)
Definition in_read_byte (inp : list Z) : res (Z * list Z) :=
  match inp with
  | [] => Err S_EOF []
  | b :: rest => Ok (b, rest)
  end.
(* scale.rs PrefixInput::read with prefix = Some(p) and a non-empty buffer of n bytes:
   buffer[0] = p; self.input.read(&mut buffer[1..]) *)
Definition prefix_read (p n : Z) (inp : list Z) : res (list Z * list Z) :=
  match in_read (n - 1) inp with
  | Ok (bs, rest) => Ok (p :: bs, rest)
  | Err c pl => Err c pl
  end.
(* [3p] u16/u32/u64/u128::decode: one read of size_of bytes, from_le_bytes *)
Definition int_of_read (r : res (list Z * list Z)) : res (Z * list Z) :=
  match r with
  | Ok (bs, rest) => Ok (le_value bs, rest)
  | Err c pl => Err c pl
  end.

(* [3p] Compact<u32>: compact_len / encode / decode *)
Definition compact_len_u32 (v : Z) : Z :=
  if v <=? 63 then 1 else if v <=? 16383 then 2 else if v <=? 1073741823 then 4 else 5.
Definition compact_u32_encode (v : Z) : list Z :=
  if v <=? 63 then [(v * 4) mod 256]
  else if v <=? 16383 then le_digits 2 (Z.lor ((v * 4) mod 2 ^ 16) 1)
  else if v <=? 1073741823 then le_digits 4 (Z.lor ((v * 4) mod 2 ^ 32) 2)
  else 3 :: le_digits 4 v.
Definition compact_u32_decode (inp : list Z) : res (Z * list Z) :=
  match in_read_byte inp with
  | Err c pl => Err c pl
  | Ok (prefix, rest) =>
      let m := prefix mod 4 in
      if m =? 0 then Ok (prefix / 4, rest)
      else if m =? 1 then
        match int_of_read (prefix_read prefix 2 rest) with
        | Err c pl => Err c pl
        | Ok (w, rest') =>
            let x := w / 4 in
            if (63 <? x) && (x <=? 16383) then Ok (x, rest') else Err S_RANGE []
        end
      else if m =? 2 then
        match int_of_read (prefix_read prefix 4 rest) with
        | Err c pl => Err c pl
        | Ok (w, rest') =>
            let x := w / 4 in
            if (16383 <? x) && (x <=? 1073741823) then Ok (x, rest') else Err S_RANGE []
        end
      else if prefix / 4 =? 0 then
        match int_of_read (in_read 4 rest) with
        | Err c pl => Err c pl
        | Ok (x, rest') => if 1073741823 <? x then Ok (x, rest') else Err S_RANGE []
        end
      else Err S_RANGE []
  end.

(* [3p] <[u8] as Encode>::encode_to: compact_encode_len_to(len).expect(..) then the bytes *)
Definition vec_u8_encode (bs : list Z) : outcome (list Z) :=
  if 2 ^ 32 - 1 <? lenZ bs then Panic
  else Val (compact_u32_encode (lenZ bs) ++ bs).
(* [3p] Vec<u8>::decode: Compact<u32> length, "Not enough data to decode vector" unless the
   remaining input holds that many bytes, then the bytes *)
Definition vec_u8_decode (inp : list Z) : res (list Z * list Z) :=
  match compact_u32_decode inp with
  | Err c pl => Err c pl
  | Ok (len, rest) =>
      if lenZ rest <? len then Err S_EOF []
      else Ok (firstn (Z.to_nat len) rest, skipn (Z.to_nat len) rest)
  end.

(* ---- impl Encode for Uint ---- *)
(* size_hint: size_of::<u32>() + Self::BYTES *)
Definition scale_size_hint (bits : Z) : Z := 4 + nbytes bits.
(* using_encoded: self.as_le_bytes().using_encoded(f) *)
Definition scale_encode (bits : Z) (a : list Z) : outcome (list Z) :=
  vec_u8_encode (as_le_bytes bits a).
(* MaxEncodedLen: Compact::<u32>::compact_len(&(Self::BYTES as u32)) + Self::BYTES *)
Definition scale_max_encoded_len (bits : Z) : Z :=
  compact_len_u32 (nbytes bits mod 2 ^ 32) + nbytes bits.
(* impl Decode for Uint: Vec<u8>::decode, then try_from_le_slice(..).ok_or_else(..);
   result = (value, remaining input) *)
Definition scale_decode (bits : Z) (inp : list Z) : outcome (res (list Z * list Z)) :=
  dor p <- vec_u8_decode inp;
  let '(b, rest) := p in
  do o <- try_from_le_slice bits b;
  match o with
  | Some v => Val (Ok (v, rest))
  | None => Val (Err S_FIT [])
  end.

(* ---- compact ---- *)
Definition COMPACT_BITS_LIMIT : Z := 536.
(* assert!(BITS < COMPACT_BITS_LIMIT) *)
Definition assert_compact_supported (bits : Z) : outcome unit :=
  if bits <? COMPACT_BITS_LIMIT then Val tt else Panic.

Definition U8 : Conv.prim := {| Conv.pw := 8; Conv.psigned := false |}.
Definition U16 : Conv.prim := {| Conv.pw := 16; Conv.psigned := false |}.
Definition U32 : Conv.prim := {| Conv.pw := 32; Conv.psigned := false |}.
Definition U64 : Conv.prim := {| Conv.pw := 64; Conv.psigned := false |}.
Definition U128 : Conv.prim := {| Conv.pw := 128; Conv.psigned := false |}.
(* self.0.to::<T>() *)
Definition to_prim (bits : Z) (p : Conv.prim) (a : list Z) : outcome Z :=
  Conv.to_of (Conv.try_to_prim bits p a).

(* impl Encode for CompactRefUint: size_hint *)
Definition compact_size_hint (bits : Z) (a : list Z) : outcome Z :=
  do bl <- Bits.bit_len bits a;
  if bl <=? 6 then Val 1
  else if bl <=? 14 then Val 2
  else if bl <=? 30 then Val 4
  else do n <- Bits.byte_len bits a; Val (n + 1).

(* impl Encode for CompactRefUint: encode_to *)
Definition compact_encode (bits : Z) (a : list Z) : outcome (list Z) :=
  do _ <- assert_compact_supported bits;
  do bl <- Bits.bit_len bits a;
  if bl <=? 6 then
    do v <- to_prim bits U8 a; Val [(v * 4) mod 2 ^ 8]                    (* u8 << 2 *)
  else if bl <=? 14 then
    do v <- to_prim bits U16 a;
    Val (le_digits 2 (Z.lor ((v * 4) mod 2 ^ 16) 1))                      (* (u16 << 2) | 0b01 *)
  else if bl <=? 30 then
    do v <- to_prim bits U32 a;
    Val (le_digits 4 (Z.lor ((v * 4) mod 2 ^ 32) 2))                      (* (u32 << 2) | 0b10 *)
  else
    do bytes_needed <- Bits.byte_len bits a;
    if bytes_needed <? 4 then Panic                                       (* assert!(.. >= 4) *)
    else
      let t := ((bytes_needed - 4) * 4) mod 2 ^ 8 in                      (* (.. << 2) as u8 *)
      do head <- (if 3 + t <? 2 ^ 8 then Val (3 + t) else DebugPanic);     (* 0b11 + .. : u8 add *)
      do body <- as_le_bytes_trimmed bits a;
      Val (head :: body).

(* (0..bytes).map(|_| input.read_byte()).collect::<Result<Vec<_>, _>>() *)
Fixpoint read_bytes (k : nat) (inp : list Z) : res (list Z * list Z) :=
  match k with
  | O => Ok ([], inp)
  | S k' =>
      match in_read_byte inp with
      | Err c pl => Err c pl
      | Ok (b, rest) =>
          match read_bytes k' rest with
          | Ok (bs, rest') => Ok (b :: bs, rest')
          | Err c pl => Err c pl
          end
      end
  end.

(* x.try_into() / Uint::try_from(x) for a primitive, `.map_err(|_| OUT_OF_RANGE)` *)
Definition prim_into (bits : Z) (p : Conv.prim) (x : Z) (rest : list Z)
  : outcome (res (list Z * list Z)) :=
  do r <- Conv.try_from_prim bits p x;
  match r with
  | Conv.ROk n => Val (Ok (n, rest))
  | _ => Val (Err S_RANGE [])
  end.

(* the mask written into new_limbs[limbs - 1] *)
Definition top_and (bits8 : Z) (x : Z) : Z :=
  Z.land x (if bits8 mod 64 =? 0 then B - 1 else (2 ^ (bits8 mod 64)) mod B - 1).

(* the `bytes =>` arm of the big-integer mode *)
Definition compact_decode_big (bits bytes : Z) (inp : list Z) : outcome (res (list Z * list Z)) :=
  dor p <- read_bytes (Z.to_nat bytes) inp;
  let '(le_byte_slice, rest) := p in
  do o <- try_from_le_slice bits le_byte_slice;
  match o with
  | None => Val (Err S_FIT [])
  | Some x =>
      let bits8 := bytes * 8 in
      let limbs := (bits8 + 64 - 1) / 64 in
      let new_limbs := repeat (B - 1) (Z.to_nat limbs) in
      do new_limbs <- (if 0 <? bits8 then
                         do top <- idx new_limbs (limbs - 1);
                         upd new_limbs (limbs - 1) (top_and bits8 top)
                       else Val new_limbs);
      do wide <- Conv.from_of (Conv.uint_try_from_uint COMPACT_BITS_LIMIT x);
      do bound <- Conv.from_limbs_slice COMPACT_BITS_LIMIT new_limbs;
      do d <- usub 68 bytes;
      let bound := Shift.wrapping_shr COMPACT_BITS_LIMIT bound ((d + 1) * 8) in
      match Add.limbs_cmp wide bound with
      | Gt => Val (Ok (x, rest))
      | _ => Val (Err S_RANGE [])
      end
  end.

(* impl Decode for CompactUint *)
Definition compact_decode (bits : Z) (inp : list Z) : outcome (res (list Z * list Z)) :=
  do _ <- assert_compact_supported bits;
  dor p <- in_read_byte inp;
  let '(prefix, rest) := p in
  let m := prefix mod 4 in
  if m =? 0 then prim_into bits U8 (prefix / 4) rest
  else if m =? 1 then
    dor q <- int_of_read (prefix_read prefix 2 rest);
    let '(w, rest') := q in
    let x := w / 4 in
    if (63 <=? x) && (x <=? 16383) then prim_into bits U16 x rest' else Val (Err S_RANGE [])
  else if m =? 2 then
    dor q <- int_of_read (prefix_read prefix 4 rest);
    let '(w, rest') := q in
    let x := w / 4 in
    if (16383 <=? x) && (x <=? 1073741823) then prim_into bits U32 x rest'
    else Val (Err S_RANGE [])
  else
    let bytes := prefix / 4 + 4 in                              (* u8: at most 67 *)
    if bytes =? 4 then
      dor q <- int_of_read (in_read 4 rest);
      let '(x, rest') := q in
      if 1073741823 <? x then prim_into bits U32 x rest' else Val (Err S_RANGE [])
    else if bytes =? 8 then
      dor q <- int_of_read (in_read 8 rest);
      let '(x, rest') := q in
      if 2 ^ 56 - 1 <? x then prim_into bits U64 x rest' else Val (Err S_RANGE [])
    else if bytes =? 16 then
      dor q <- int_of_read (in_read 16 rest);
      let '(x, rest') := q in
      if 2 ^ 120 - 1 <? x then prim_into bits U128 x rest' else Val (Err S_RANGE [])
    else compact_decode_big bits bytes rest.

(* ================================================================== SSZ *)
Definition ssz_len (bits : Z) : Z := nbytes bits.          (* ssz_fixed_len / ssz_bytes_len *)
(* ssz_append: buf.extend_from_slice(&self.as_le_bytes()) *)
Definition ssz_encode (bits : Z) (a : list Z) : list Z := as_le_bytes bits a.
(* from_ssz_bytes; error 1 = InvalidByteLength { len, expected }, 2 = BytesInvalid *)
Definition ssz_decode (bits : Z) (inp : list Z) : outcome (res (list Z)) :=
  if negb (lenZ inp =? nbytes bits) then Val (Err 1 [lenZ inp; nbytes bits])
  else
    do o <- try_from_le_slice bits inp;
    match o with
    | Some v => Val (Ok v)
    | None => Val (Err 2 [])
    end.

(* ================================================================== borsh *)
(* serialize (little-endian target): writer.write_all(self.as_le_slice()) into a Vec [3p] *)
Definition borsh_ser (bits : Z) (a : list Z) : list Z := as_le_slice bits a.
(* deserialize_reader on &[u8]: read_exact(target) with target.len() = BYTES [3p: UnexpectedEof
   = 1], then try_from_le_slice(target) (InvalidData = 2); result = (value, remaining) *)
Definition borsh_de (bits : Z) (inp : list Z) : outcome (res (list Z * list Z)) :=
  if lenZ inp <? nbytes bits then Val (Err 1 [])
  else
    let target := firstn (nbytesN bits) inp in
    do o <- try_from_le_slice bits target;
    match o with
    | Some v => Val (Ok (v, skipn (nbytesN bits) inp))
    | None => Val (Err 2 [])
    end.

(* ================================================================== DER *)
Definition D_INCOMPLETE : Z := 1.
Definition D_TAGUNKNOWN : Z := 2.
Definition D_TAGNUMBER : Z := 3.
Definition D_TAGUNEXPECTED : Z := 4.
Definition D_INDEFINITE : Z := 5.
Definition D_LENGTH : Z := 6.
Definition D_OVERFLOW : Z := 7.
Definition D_NONCANONICAL : Z := 8.
Definition D_VALUE : Z := 9.
Definition D_TRAILING : Z := 10.
Definition D_OVERLENGTH : Z := 11.

(* [3p] der::Length: a u32 <= 0xfff_ffff *)
Definition LENGTH_MAX : Z := 268435455.
Definition length_try_from (n : Z) : res Z := if n <=? LENGTH_MAX then Ok n else Err D_OVERFLOW [].

(* ---- EncodeValue ---- *)
(* value_len: (1 + self.bit_len() / 8).try_into() *)
Definition der_value_len (bits : Z) (a : list Z) : outcome (res Z) :=
  do bl <- Bits.bit_len bits a;
  Val (length_try_from (1 + bl / 8)).
(* encode_value: the bytes handed to the writer *)
Definition der_encode_value (bits : Z) (a : list Z) : outcome (list Z) :=
  do bytes <- to_be_bytes_trimmed_vec bits a;
  let first := match bytes with b :: _ => b | [] => 128 end in       (* .first().copied().unwrap_or(0x80) *)
  if 128 <=? first then Val (0 :: bytes) else Val bytes.

(* [3p] Length::encode: short form, or initial octet 0x81..0x84 and the minimal big-endian bytes *)
Definition length_encode (n : Z) : list Z :=
  if n <? 128 then [n]
  else if n <? 2 ^ 8 then 129 :: rev (le_digits 1 n)
  else if n <? 2 ^ 16 then 130 :: rev (le_digits 2 n)
  else if n <? 2 ^ 24 then 131 :: rev (le_digits 3 n)
  else 132 :: rev (le_digits 4 n).
(* [3p] Encode::encoded_len = value_len.for_tlv() = 1 + len(length octets) + value_len *)
Definition der_encoded_len (bits : Z) (a : list Z) : outcome (res Z) :=
  do r <- der_value_len bits a;
  match r with
  | Err c p => Val (Err c p)
  | Ok vl => Val (length_try_from (1 + lenZ (length_encode vl) + vl))
  end.
(* [3p] Encode::to_der: a buffer of encoded_len bytes, header, encode_value; writing past the
   end is Overlength, ending short is Incomplete *)
Definition der_encode (bits : Z) (a : list Z) : outcome (res (list Z)) :=
  do r <- der_value_len bits a;
  match r with
  | Err c p => Val (Err c p)
  | Ok vl =>
      match length_try_from (1 + lenZ (length_encode vl) + vl) with
      | Err c p => Val (Err c p)
      | Ok _ =>
          do content <- der_encode_value bits a;
          if vl <? lenZ content then Val (Err D_OVERLENGTH [])
          else if lenZ content <? vl then Val (Err D_INCOMPLETE [])
          else Val (Ok (2 :: length_encode vl ++ content))
      end
  end.

(* ---- decoding ---- *)
(* from_der_slice *)
Definition from_der_slice (bits : Z) (bytes : list Z) : outcome (res (list Z)) :=
  let stripped : res (list Z) :=
    match bytes with
    | [] => Err D_LENGTH []
    | b0 :: rest0 =>
        if b0 =? 0 then
          match rest0 with
          | byte :: _ => if byte <? 128 then Err D_NONCANONICAL [] else Ok rest0
          | [] => Ok rest0
          end
        else if 128 <=? b0 then Err D_VALUE []
        else Ok bytes
    end in
  dor bs <- stripped;
  do o <- try_from_be_slice bits bs;
  match o with
  | Some v => Val (Ok v)
  | None => Val (Err D_NONCANONICAL [])
  end.

(* from_der_uint_slice *)
Definition from_der_uint_slice (bits : Z) (bytes : list Z) : outcome (res (list Z)) :=
  match bytes with
  | [] => Val (Err D_LENGTH [])
  | b0 :: rest0 =>
      if (b0 =? 0) && (match rest0 with [] => true | _ => false end) then Val (Ok (uZERO bits))
      else if b0 =? 0 then Val (Err D_NONCANONICAL [])
      else
        do o <- try_from_be_slice bits bytes;
        match o with
        | Some v => Val (Ok v)
        | None => Val (Err D_NONCANONICAL [])
        end
  end.

(* DecodeValue::decode_value on a reader holding `inp`:
   header.length > Length::try_from(BYTES + 1)? ; reader.read_vec(header.length)? ; from_der_slice.
   result = (value, remaining input) *)
Definition der_decode_value (bits len : Z) (inp : list Z) : outcome (res (list Z * list Z)) :=
  dor lim <- length_try_from (nbytes bits + 1);
  if lim <? len then Val (Err D_NONCANONICAL [])
  else if lenZ inp <? len then Val (Err D_INCOMPLETE [])          (* [3p] read_vec *)
  else
    do r <- from_der_slice bits (firstn (Z.to_nat len) inp);
    match r with
    | Ok v => Val (Ok (v, skipn (Z.to_nat len) inp))
    | Err c p => Val (Err c p)
    end.

(* [3p] Tag::try_from(u8): 0 = INTEGER, otherwise the error or "another valid tag" (4) *)
Definition universal_tags : list Z :=
  [1; 3; 4; 5; 6; 9; 10; 12; 18; 19; 20; 21; 22; 23; 24; 26; 30; 48; 49].
Definition tag_class (byte : Z) : Z :=
  if Z.land byte 31 =? 31 then D_TAGNUMBER
  else if byte =? 2 then 0
  else if existsb (Z.eqb byte) universal_tags then D_TAGUNEXPECTED
  else if (64 <=? byte) && (byte <=? 126) then D_TAGUNEXPECTED
  else if (128 <=? byte) && (byte <=? 190) then D_TAGUNEXPECTED
  else if (192 <=? byte) && (byte <=? 254) then D_TAGUNEXPECTED
  else D_TAGUNKNOWN.

(* [3p] Length::decode (with Header::decode's Overlength -> Length { tag } mapping):
   (length, remaining input) *)
Definition length_decode (inp : list Z) : res (Z * list Z) :=
  match inp with
  | [] => Err D_INCOMPLETE []
  | b :: rest =>
      if b <? 128 then Ok (b, rest)
      else if b =? 128 then Err D_INDEFINITE []
      else if b <=? 132 then
        let k := b - 128 in
        if lenZ rest <? k then Err D_INCOMPLETE []
        else
          let n := le_value (rev (firstn (Z.to_nat k) rest)) in
          if LENGTH_MAX <? n then Err D_OVERFLOW []
          else
            let initial := if n <? 128 then 0 else if n <? 2 ^ 8 then 129
                           else if n <? 2 ^ 16 then 130 else if n <? 2 ^ 24 then 131 else 132 in
            if initial =? b then Ok (n, skipn (Z.to_nat k) rest) else Err D_LENGTH []
      else Err D_LENGTH []
  end.

(* [3p] Decode::from_der = SliceReader::new, Header::decode, tag.assert_eq(INTEGER),
   decode_value, reader.finish *)
Definition der_decode (bits : Z) (inp : list Z) : outcome (res (list Z)) :=
  if LENGTH_MAX <? lenZ inp then Val (Err D_OVERFLOW [])
  else
    match inp with
    | [] => Val (Err D_INCOMPLETE [])
    | t :: rest =>
        let tc := tag_class t in
        if (tc =? D_TAGNUMBER) || (tc =? D_TAGUNKNOWN) then Val (Err tc [])
        else
          dor p <- length_decode rest;
          let '(len, body) := p in
          if negb (tc =? 0) then Val (Err D_TAGUNEXPECTED [])
          else
            do r <- der_decode_value bits len body;
            match r with
            | Err c pl => Val (Err c pl)
            | Ok (v, remaining) =>
                if 0 <? lenZ remaining then Val (Err D_TRAILING []) else Val (Ok v)
            end
    end.

(* ---- DER object conversions ---- *)
(* From<&Uint> for Any / Int: the bytes handed to Any::new / Int::new *)
Definition der_int_bytes (bits : Z) (a : list Z) : outcome (list Z) :=
  if list_eqb Z.eqb a (uZERO bits) then Val [0]                       (* uint.is_zero() *)
  else
    do bytes <- to_be_bytes_trimmed_vec bits a;
    do b0 <- idx bytes 0;                                             (* bytes[0] *)
    if 128 <=? b0 then Val (0 :: bytes) else Val bytes.
(* From<&Uint> for DerUint: the bytes handed to DerUint::new *)
Definition der_uint_bytes (bits : Z) (a : list Z) : outcome (list Z) :=
  if list_eqb Z.eqb a (uZERO bits) then Val [0]
  else to_be_bytes_trimmed_vec bits a.
(* [3p] der::asn1::int::strip_leading_ones / uint::strip_leading_zeroes (what Int::new /
   Uint::new keep) *)
Fixpoint strip_leading_ones (bytes : list Z) : list Z :=
  match bytes with
  | b :: rest =>
      if (b =? 255) && (match rest with r0 :: _ => 128 <=? r0 | [] => false end)
      then strip_leading_ones rest else bytes
  | [] => []
  end.
Fixpoint strip_leading_zeroes (bytes : list Z) : list Z :=
  match bytes with
  | b :: rest =>
      if (b =? 0) && (match rest with [] => false | _ => true end)
      then strip_leading_zeroes rest else bytes
  | [] => []
  end.
Definition der_to_int (bits : Z) (a : list Z) : outcome (list Z) :=
  do bs <- der_int_bytes bits a; Val (strip_leading_ones bs).
Definition der_to_uint (bits : Z) (a : list Z) : outcome (list Z) :=
  do bs <- der_uint_bytes bits a; Val (strip_leading_zeroes bs).
Definition der_to_any (bits : Z) (a : list Z) : outcome (list Z) := der_int_bytes bits a.
(* TryFrom<IntRef / &Int / Int>: from_der_slice(int.as_bytes()) *)
Definition der_from_int (bits : Z) (bytes : list Z) : outcome (res (list Z)) :=
  from_der_slice bits (strip_leading_ones bytes).
(* TryFrom<UintRef / &DerUint / DerUint>: from_der_uint_slice(uint.as_bytes()) *)
Definition der_from_uint (bits : Z) (bytes : list Z) : outcome (res (list Z)) :=
  from_der_uint_slice bits (strip_leading_zeroes bytes).
(* TryFrom<AnyRef / &Any / Any>: any.decode_as() [3p]: tag check (INTEGER here), a reader over
   the value octets, decode_value with header.length = value.len(), finish *)
Definition der_from_any (bits : Z) (bytes : list Z) : outcome (res (list Z)) :=
  do r <- der_decode_value bits (lenZ bytes) bytes;
  match r with
  | Err c pl => Val (Err c pl)
  | Ok (v, remaining) => if 0 <? lenZ remaining then Val (Err D_TRAILING []) else Val (Ok v)
  end.
