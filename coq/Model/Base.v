(* Model/Base.v — conventions shared by every layer of the model.
   Definitions only (executable); no proofs live here. *)
From Coq Require Export ZArith List Bool.
Export ListNotations.
#[global] Open Scope Z_scope.

(* ---------- machine words ---------- *)
Definition B : Z := 2 ^ 64.            (* u64 modulus *)
Definition BB : Z := 2 ^ 128.          (* u128 modulus *)
Definition inW (x : Z) : Prop := 0 <= x < B.
Definition inWb (x : Z) : bool := (0 <=? x) && (x <? B).
Definition wrap (x : Z) : Z := x mod B.
Definition wrap128 (x : Z) : Z := x mod BB.

(* ---------- outcomes of a Rust call ---------- *)
Inductive outcome (A : Type) : Type :=
| Val (a : A)        (* returned normally *)
| Panic              (* assert!, slice index, unwrap, expect, todo!, overflow in const ... *)
| DebugPanic         (* debug_assert!, assume!, overflow-checked arithmetic: panics in the
                        debug profile only *)
| CompileError       (* rejected at monomorphisation time *)
| OutOfFuel.         (* model artefact; every theorem excludes it *)
Arguments Val {A} a.
Arguments Panic {A}.
Arguments DebugPanic {A}.
Arguments CompileError {A}.
Arguments OutOfFuel {A}.

Definition obind {A C} (o : outcome A) (f : A -> outcome C) : outcome C :=
  match o with
  | Val a => f a
  | Panic => Panic
  | DebugPanic => DebugPanic
  | CompileError => CompileError
  | OutOfFuel => OutOfFuel
  end.
Definition omap {A C} (f : A -> C) (o : outcome A) : outcome C :=
  obind o (fun a => Val (f a)).
Notation "'do' x <- o ; k" := (obind o (fun x => k))
  (at level 200, x pattern, o at level 100, k at level 200, right associativity).

(* ---------- tokens exchanged with the harness ---------- *)
Inductive tok : Type :=
| TL (l : list Z)       (* limb list / word list *)
| TZ (z : Z)            (* scalar *)
| TB (b : bool)
| TNone
| TSome
| TErr (code : Z)
| TY (bytes : list Z).  (* byte string or text as code points *)

Fixpoint list_eqb {A} (eqb : A -> A -> bool) (a b : list A) : bool :=
  match a, b with
  | [], [] => true
  | x :: a', y :: b' => eqb x y && list_eqb eqb a' b'
  | _, _ => false
  end.

Definition tok_eqb (a b : tok) : bool :=
  match a, b with
  | TL x, TL y => list_eqb Z.eqb x y
  | TZ x, TZ y => Z.eqb x y
  | TB x, TB y => Bool.eqb x y
  | TNone, TNone => true
  | TSome, TSome => true
  | TErr x, TErr y => Z.eqb x y
  | TY x, TY y => list_eqb Z.eqb x y
  | _, _ => false
  end.

Definition result := outcome (list tok).

Definition result_eqb (a b : result) : bool :=
  match a, b with
  | Val x, Val y => list_eqb tok_eqb x y
  | Panic, Panic => true
  | DebugPanic, DebugPanic => true
  | CompileError, CompileError => true
  | OutOfFuel, OutOfFuel => true
  | _, _ => false
  end.

(* ---------- limb lists ---------- *)
Fixpoint eval (l : list Z) : Z :=
  match l with
  | [] => 0
  | x :: t => x + B * eval t
  end.

Definition lenZ {A} (l : list A) : Z := Z.of_nat (length l).

(* canonical little-endian limbs of a value: the specification-side inverse of eval *)
(* v mod 2^k and v / 2^k, computed by masking / shifting (linear time in the VM);
   BaseFacts.modp2_spec / divp2_spec show they are Z.modulo / Z.div by 2^k. *)
Definition modp2 (v k : Z) : Z := Z.land v (Z.ones k).
Definition divp2 (v k : Z) : Z := Z.shiftr v k.
Fixpoint to_limbs (n : nat) (v : Z) : list Z :=
  match n with
  | O => []
  | S n' => modp2 v 64 :: to_limbs n' (divp2 v 64)
  end.

(* ---------- Uint<BITS, LIMBS> parameters ---------- *)
Definition nlimbs (bits : Z) : Z := (bits + 63) / 64.
Definition nlimbsN (bits : Z) : nat := Z.to_nat (nlimbs bits).
Definition mask (bits : Z) : Z :=
  if bits =? 0 then 0
  else let b := bits mod 64 in
       if b =? 0 then B - 1 else 2 ^ b - 1.
Definition should_mask (bits : Z) : bool := (0 <? bits) && negb (mask bits =? B - 1).

Definition canon (bits : Z) (l : list Z) : Prop :=
  length l = nlimbsN bits /\ Forall inW l /\ eval l < 2 ^ bits.
Definition canonb (bits : Z) (l : list Z) : bool :=
  Nat.eqb (length l) (nlimbsN bits) && forallb inWb l && (eval l <? 2 ^ bits).

Definition uint_of (bits v : Z) : list Z := to_limbs (nlimbsN bits) v.

Definition zero_limbs (n : nat) : list Z := repeat 0 n.

(* replace the last element *)
Fixpoint map_last (f : Z -> Z) (l : list Z) : list Z :=
  match l with
  | [] => []
  | [x] => [f x]
  | x :: t => x :: map_last f t
  end.

(* Uint::masked / apply_mask *)
Definition masked (bits : Z) (l : list Z) : list Z :=
  if should_mask bits then map_last (fun x => Z.land x (mask bits)) l else l.

Definition uZERO (bits : Z) : list Z := zero_limbs (nlimbsN bits).
(* MAX = from_limbs_unmasked([u64::MAX; LIMBS]) *)
Definition uMAX (bits : Z) : list Z := masked bits (repeat (B - 1) (nlimbsN bits)).

(* expectation helper used by the executable specifications *)
Definition expect (o : result) (t : list tok) : bool := result_eqb o (Val t).
Definition b2z (b : bool) : Z := if b then 1 else 0.
