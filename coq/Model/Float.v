(* Model/Float.v — the floating-point part of src/from.rs (TryFrom<f64>, TryFrom<f32>,
   Uint::from / saturating_from / wrapping_from on floats, From<&Uint> for f64 / f32) and
   Uint::most_significant_bits (src/bits.rs), line for line.

   Floats are values of Coq.Floats.SpecFloat.spec_float (pure Gallina, no primitive floats);
   IEEE operations are SpecFloat's: SFcompare/SFltb/SFleb, SFabs, SFclassify, SFmul,
   binary_normalize / binary_round (int -> float conversion, exact widening).  `to_bits` /
   `from_bits` are `encode` / `decode` below.  `%` (fmod) is not in SpecFloat: SFrem below is
   the exact remainder.  `exp2` of an integer-valued argument is assumed exact (exp2_int).

   Local copies of pieces that belong to other topics: TryFrom<u64> (C05), overflowing_shl (C07),
   from_limbs.  wrapping_neg is Model/Add.v's. *)
From Coq Require Import ZArith List Bool.
From Coq.Floats Require Import FloatClass SpecFloat.
From RV.Model Require Import Base Word Add.

(* ---------- IEEE-754 binary interchange format: bit pattern <-> spec_float ---------- *)
Section Format.
  Variables prec emax : Z.      (* f64: 53, 1024; f32: 24, 128 *)

  Definition sign_of (x : Z) : bool := negb (x / (2 ^ (prec - 1) * (2 * emax)) =? 0).
  Definition bexp_of (x : Z) : Z := (x / 2 ^ (prec - 1)) mod (2 * emax).
  Definition frac_of (x : Z) : Z := x mod 2 ^ (prec - 1).

  (* from_bits *)
  Definition decode (x : Z) : spec_float :=
    let s := sign_of x in
    let be := bexp_of x in
    let fr := frac_of x in
    if be =? 2 * emax - 1 then (if fr =? 0 then S754_infinity s else S754_nan)
    else if be =? 0 then
      (if fr =? 0 then S754_zero s else S754_finite s (Z.to_pos fr) (3 - emax - prec))
    else S754_finite s (Z.to_pos (2 ^ (prec - 1) + fr)) (be - (emax - 1) - (prec - 1)).

  Definition sbit (s : bool) : Z := if s then 2 ^ (prec - 1) * (2 * emax) else 0.

  (* to_bits (of a float in canonical form; the NaN pattern is never observed) *)
  Definition encode (f : spec_float) : Z :=
    match f with
    | S754_zero s => sbit s
    | S754_infinity s => sbit s + (2 * emax - 1) * 2 ^ (prec - 1)
    | S754_nan => (2 * emax - 1) * 2 ^ (prec - 1) + 2 ^ (prec - 2)
    | S754_finite s m e =>
        if Zpos m <? 2 ^ (prec - 1) then sbit s + Zpos m
        else sbit s + (e + (emax - 1) + (prec - 1)) * 2 ^ (prec - 1) + (Zpos m - 2 ^ (prec - 1))
    end.

  (* (k as float).exp2() for an integer k >= 0: assumed exact; +inf from emax on *)
  Definition exp2_int (k : Z) : spec_float :=
    if k <? emax then S754_finite false (Z.to_pos (2 ^ (prec - 1))) (k - (prec - 1))
    else S754_infinity false.

  (* `x as float` for x : u64 — one rounding to nearest, ties to even *)
  Definition u64_as_float (x : Z) : spec_float := binary_normalize prec emax x 0 false.

  (* x % y (fmod): exact; sign of x.  Finite/finite case on the common exponent. *)
  Definition SFrem (x y : spec_float) : spec_float :=
    match x, y with
    | S754_nan, _ | _, S754_nan => S754_nan
    | S754_infinity _, _ => S754_nan
    | _, S754_zero _ => S754_nan
    | _, S754_infinity _ => x
    | S754_zero _, _ => x
    | S754_finite sx mx ex, S754_finite _ my ey =>
        let ez := Z.min ex ey in
        let X := Zpos mx * 2 ^ (ex - ez) in
        let Y := Zpos my * 2 ^ (ey - ez) in
        let R := X mod Y in
        binary_normalize prec emax (if sx then - R else R) ez sx
    end.

  Definition is_nan (x : spec_float) : bool :=
    match x with S754_nan => true | _ => false end.
  Definition is_normal (x : spec_float) : bool :=
    match SFclassify prec x with PNormal | NNormal => true | _ => false end.
End Format.

(* f32 -> f64 (`value as f64`): exact *)
Definition widen (x : spec_float) : spec_float :=
  match x with
  | S754_finite s m e => binary_round 53 1024 s m e
  | _ => x
  end.

(* ---------- Uint pieces ---------- *)
(* Uint::from_limbs: assert!(limbs[LIMBS-1] <= MASK) when SHOULD_MASK *)
Definition from_limbs (bits : Z) (l : list Z) : outcome (list Z) :=
  if should_mask bits && (mask bits <? last l 0) then Panic else Val l.

Inductive to_uint_result : Type :=
| TOk (n : list Z)
| ValueTooLarge (bits : Z) (wrapped : list Z)
| ValueNegative (bits : Z) (wrapped : list Z)
| NotANumber (bits : Z).

(* impl TryFrom<u64> for Uint *)
Definition try_from_u64 (bits value : Z) : outcome to_uint_result :=
  let fallthrough :=
    (* let mut limbs = [0; LIMBS]; limbs[0] = value; Ok(from_limbs(limbs)) *)
    match nlimbsN bits with
    | O => Panic
    | S n => do r <- from_limbs bits (value :: zero_limbs n) ; Val (TOk r)
    end in
  if nlimbs bits <=? 1 then
    if mask bits <? value then
      do w <- from_limbs bits (if nlimbs bits =? 1 then [Z.land value (mask bits)] else []) ;
      Val (ValueTooLarge bits w)
    else if nlimbs bits =? 0 then Val (TOk (uZERO bits))
    else fallthrough
  else fallthrough.

(* the loop of overflowing_shl: r[i + limbs] = (x << bits) | carry;
   carry = (x >> (64 - bits - 1)) >> 1 *)
Fixpoint shl_loop (l : list Z) (b carry : Z) : list Z * Z :=
  match l with
  | [] => ([], carry)
  | x :: t =>
      let r := Z.lor (shl64 x b) carry in
      let c := shr64 (shr64 x (64 - b - 1)) 1 in
      let '(rs, c') := shl_loop t b c in
      (r :: rs, c')
  end.
Definition all_zero (l : list Z) : bool := forallb (fun x => x =? 0) l.

(* Uint::overflowing_shl (src/bits.rs) *)
Definition overflowing_shl (bits : Z) (a : list Z) (rhs : Z) : list Z * bool :=
  let L := nlimbsN bits in
  let limbs := Z.to_nat (rhs / 64) in
  let b := rhs mod 64 in
  if (L <=? limbs)%nat then (uZERO bits, negb (all_zero a))
  else
    let '(rs, carry) := shl_loop (firstn (L - limbs) a) b 0 in
    let r := zero_limbs limbs ++ rs in
    let overflow := negb (carry =? 0)
                    || negb (all_zero (skipn (L - limbs) a))
                    || (mask bits <? last r 0) in
    (masked bits r, overflow).

(* iter().rposition(|&limb| limb != 0) *)
Fixpoint rposition_nz (l : list Z) : option nat :=
  match l with
  | [] => None
  | x :: t =>
      match rposition_nz t with
      | Some i => Some (S i)
      | None => if x =? 0 then None else Some O
      end
  end.

(* Uint::most_significant_bits (src/bits.rs) *)
Definition most_significant_bits (a : list Z) : outcome (Z * Z) :=
  let first_set_limb := match rposition_nz a with Some i => i | None => O end in
  match first_set_limb with
  | O => Val (match a with x :: _ => x | [] => 0 end, 0)
  | S j =>
      match nth_error a first_set_limb, nth_error a j with
      | Some hi, Some lo =>
          let lz := clz64 hi in
          let bits := if 0 <? lz then Z.lor (shl64 hi lz) (shr64 lo (64 - lz)) else hi in
          Val (bits, Z.of_nat first_set_limb * 64 - lz)
      | _, _ => Panic
      end
  end.

(* impl From<&Uint> for f64 / f32:  (bits as F) * (exponent as F).exp2() *)
Definition to_float (prec emax : Z) (a : list Z) : outcome spec_float :=
  do p <- most_significant_bits a ;
  Val (SFmul prec emax (u64_as_float prec emax (fst p)) (exp2_int prec emax (snd p))).

(* ---------- impl TryFrom<f64> for Uint ---------- *)
Definition f64_half : spec_float := S754_finite false 4503599627370496 (-53).   (* 0.5 *)
Definition f64_zero : spec_float := S754_zero false.

Definition wrapped_of (bits : Z) (r : to_uint_result) : list Z :=
  match r with
  | TOk n | ValueTooLarge _ n => n
  | _ => uZERO bits
  end.

(* the recursion of the Rust code (abs of a negative value, then the remainder of a too-large
   value) is at most three calls deep; fuel makes it structural *)
Fixpoint try_from_f64 (fuel : nat) (bits : Z) (value : spec_float) : outcome to_uint_result :=
  match fuel with
  | O => OutOfFuel
  | S fuel' =>
  if is_nan value then Val (NotANumber bits) else
  if SFltb value f64_zero then
    do r <- try_from_f64 fuel' bits (SFabs value) ;
    Val (ValueNegative bits (Add.wrapping_neg bits (wrapped_of bits r)))
  else
  let modulus := exp2_int 53 1024 bits in
  if SFleb modulus value then
    do r <- try_from_f64 fuel' bits (SFrem 53 1024 value modulus) ;
    Val (ValueTooLarge bits (wrapped_of bits r))
  else
  if SFltb value f64_half then Val (TOk (uZERO bits)) else
  if negb (is_normal 53 value) then Panic else
  let b := encode 53 1024 value in
  let sign := shr64 b 63 in
  if negb (sign =? 0) then Panic else
  let biased_exponent := Z.land (shr64 b 52) 0x7ff in
  if biased_exponent <? 1022 then Panic else
  let fraction := Z.land b 0x000fffffffffffff in
  let mantissa := Z.lor 0x0010000000000000 fraction in
  if biased_exponent <? 1023 + 52 then
    let shift := 1023 + 52 - biased_exponent in
    if 64 <=? shift - 1 then DebugPanic else
    let half := shl64 1 (shift - 1) in
    if B <=? mantissa + half then DebugPanic else
    if 64 <=? shift then DebugPanic else
    try_from_u64 bits (shr64 (mantissa + half) shift)
  else
  let exponent := biased_exponent - 1023 in
  if bits + 52 <? exponent then Val (ValueTooLarge bits (uZERO bits)) else
  if exponent <=? 52 then try_from_u64 bits (shr64 mantissa (52 - exponent))
  else
    let exponent := exponent - 52 in
    do r <- try_from_u64 bits mantissa ;
    match r with
    | TOk n =>
        let '(n', overflow) := overflowing_shl bits n exponent in
        Val (if overflow then ValueTooLarge bits n' else TOk n')
    | e => Val e          (* `?` *)
    end
  end.

Definition try_from_fuel : nat := 4.
Definition uint_try_from_f64 (bits : Z) (x : Z) : outcome to_uint_result :=
  try_from_f64 try_from_fuel bits (decode 53 1024 x).
(* impl TryFrom<f32>: Self::try_from(value as f64) *)
Definition uint_try_from_f32 (bits : Z) (x : Z) : outcome to_uint_result :=
  try_from_f64 try_from_fuel bits (widen (decode 24 128 x)).

(* Uint::from / saturating_from / wrapping_from *)
Definition uint_from (r : outcome to_uint_result) : outcome (list Z) :=
  do e <- r ; match e with TOk n => Val n | _ => Panic end.
Definition saturating_from (bits : Z) (r : outcome to_uint_result) : outcome (list Z) :=
  do e <- r ;
  Val match e with
      | TOk n => n
      | ValueTooLarge _ _ => uMAX bits
      | ValueNegative _ _ | NotANumber _ => uZERO bits
      end.
Definition wrapping_from (bits : Z) (r : outcome to_uint_result) : outcome (list Z) :=
  do e <- r ;
  Val match e with
      | TOk n | ValueTooLarge _ n | ValueNegative _ n => n
      | NotANumber _ => uZERO bits
      end.
