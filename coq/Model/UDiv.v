(* Model/UDiv.v — src/div.rs, src/special.rs (next_multiple_of family) and the pieces of
   src/cmp.rs / src/mul.rs / src/from.rs they call, line for line.
   The limb kernel `algorithms::div` is Model/Div.v `div_kernel`; `algorithms::addmul` is
   Model/Limbs.v `addmul`; add.rs is Model/Add.v. *)
From RV.Model Require Import Base Word Limbs Add Div.

(* cmp.rs  is_zero: `*self == Self::ZERO` (derived PartialEq on the limb array) *)
Definition is_zero (bits : Z) (a : list Z) : bool := list_eqb Z.eqb a (uZERO bits).

(* from.rs  Uint::ONE = const_from_u64(1):
     if BITS == 0 || (BITS < 64 && 1 >= 1 << BITS) { return MAX }   -- second test never true
     limbs = [0; LIMBS]; limbs[0] = 1; from_limbs(limbs) *)
Definition uone (bits : Z) : list Z :=
  if bits =? 0 then uMAX bits
  else match uZERO bits with [] => [] | _ :: t => 1 :: t end.

(* mul.rs  overflowing_mul / checked_mul (local copy; C02 owns the topic) *)
Definition overflowing_mul (bits : Z) (a b : list Z) : list Z * bool :=
  let '(r, overflow) := addmul (uZERO bits) a b in
  if 0 <? bits then (masked bits r, overflow || (mask bits <? last r 0))
  else (r, overflow).
Definition checked_mul (bits : Z) (a b : list Z) : option (list Z) :=
  match overflowing_mul bits a b with (v, false) => Some v | _ => None end.

(* div.rs  div_rem(mut self, mut rhs): algorithms::div(&mut self.limbs, &mut rhs.limbs); (self, rhs) *)
Definition div_rem (a b : list Z) : outcome (list Z * list Z) := div_kernel a b.

Definition wrapping_div (a b : list Z) : outcome (list Z) :=
  do p <- div_rem a b ; Val (fst p).
Definition wrapping_rem (a b : list Z) : outcome (list Z) :=
  do p <- div_rem a b ; Val (snd p).

(* impl_bin_op!(Div, div, DivAssign, div_assign, wrapping_div): all six shapes delegate *)
Definition op_div_ (a b : list Z) : outcome (list Z) := wrapping_div a b.
Definition op_rem_ (a b : list Z) : outcome (list Z) := wrapping_rem a b.

(* checked_div: if rhs.is_zero() { return None }  Some(self.div(rhs)) *)
Definition checked_div (bits : Z) (a b : list Z) : outcome (option (list Z)) :=
  if is_zero bits b then Val None
  else do q <- op_div_ a b ; Val (Some q).
Definition checked_rem (bits : Z) (a b : list Z) : outcome (option (list Z)) :=
  if is_zero bits b then Val None
  else do r <- op_rem_ a b ; Val (Some r).

(* div_ceil: let (q, r) = self.div_rem(rhs); if r.is_zero() { q } else { q + Self::ONE } *)
Definition div_ceil (bits : Z) (a b : list Z) : outcome (list Z) :=
  do p <- div_rem a b ;
  let '(q, r) := p in
  if is_zero bits r then Val q else Val (wrapping_add bits q (uone bits)).

(* special.rs  checked_next_multiple_of *)
Definition checked_next_multiple_of (bits : Z) (a b : list Z) : outcome (option (list Z)) :=
  if is_zero bits b then Val None
  else
    do p <- div_rem a b ;
    let '(q, r) := p in
    if is_zero bits r then Val (Some a)
    else
      match checked_add bits q (uone bits) with      (* q.checked_add(Self::ONE)? *)
      | None => Val None
      | Some q1 => Val (checked_mul bits q1 b)
      end.

(* next_multiple_of: self.checked_next_multiple_of(rhs).unwrap() *)
Definition next_multiple_of (bits : Z) (a b : list Z) : outcome (list Z) :=
  do o <- checked_next_multiple_of bits a b ;
  match o with Some v => Val v | None => Panic end.
