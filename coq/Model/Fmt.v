(* Model/Fmt.v — src/fmt.rs (write_digits!, the six fmt traits, DisplayBuffer) and the part of
   core::fmt it calls: Formatter::pad_integral and the formatting of a u64 in radix 2/8/10/16.
   Text is a list of UTF-8 bytes.  The std part (`std_*`) is modelled from its documented
   behaviour and validated against Rust's own formatting of u128 (call `fmt_ref` of RunC09). *)
From RV.Model Require Import Base Word BaseConv.

(* ---------- core::fmt ---------- *)
(* the fields of a format spec `{:[[fill]align][+][#][0][width]type}` *)
Record fspec : Type := {
  f_plus : bool;            (* `+` *)
  f_alt : bool;             (* `#` *)
  f_zero : bool;            (* `0` : sign-aware zero padding *)
  f_width : option Z;       (* minimum width in chars *)
  f_fill : list Z;          (* UTF-8 encoding of the fill char (default ' ') *)
  f_align : Z               (* 0 = not given, 1 = `<`, 2 = `^`, 3 = `>` *)
}.

Definition repz (c : Z) (n : Z) : list Z := repeat c (Z.to_nat n).
Fixpoint rep_fill (fill : list Z) (n : nat) : list Z :=
  match n with O => [] | S n' => fill ++ rep_fill fill n' end.

(* Formatter::padding(padding, default): (pre, post) counts *)
Definition std_padding (align default padding : Z) : Z * Z :=
  let a := if align =? 0 then default else align in
  if a =? 1 then (0, padding)
  else if a =? 2 then (padding / 2, (padding + 1) / 2)
  else (padding, 0).

(* Formatter::pad_integral(is_nonnegative = true, prefix, buf); prefix and buf are ASCII *)
Definition std_pad_integral (s : fspec) (prefix buf : list Z) : list Z :=
  let width := lenZ buf in
  let '(sign, width) := if f_plus s then ([43], width + 1) else ([], width) in
  let '(pre, width) := if f_alt s then (prefix, width + lenZ prefix) else ([], width) in
  match f_width s with
  | None => sign ++ pre ++ buf
  | Some min =>
      if min <=? width then sign ++ pre ++ buf
      else if f_zero s then
        (* fill = '0', align = Right: sign and prefix first, then the zeros *)
        sign ++ pre ++ repz 48 (min - width) ++ buf
      else
        let '(l, r) := std_padding (f_align s) 3 (min - width) in
        rep_fill (f_fill s) (Z.to_nat l) ++ sign ++ pre ++ buf
        ++ rep_fill (f_fill s) (Z.to_nat r)
  end.

(* digit -> char *)
Definition digit_char (upper : bool) (d : Z) : Z :=
  if d <? 10 then 48 + d else (if upper then 65 else 97) + (d - 10).

(* impl Display/LowerHex/UpperHex/Octal/Binary for u64: the digits, least significant first
   into the end of a buffer, `loop { ..; if n == 0 { break } }` (at least one digit) *)
Fixpoint std_u64_digits_loop (fuel : nat) (radix : Z) (upper : bool) (n : Z) (acc : list Z)
  : list Z :=
  match fuel with
  | O => acc
  | S f =>
      let acc := digit_char upper (n mod radix) :: acc in
      let n := n / radix in
      if n =? 0 then acc else std_u64_digits_loop f radix upper n acc
  end.
Definition std_u64_digits (radix : Z) (upper : bool) (n : Z) : list Z :=
  std_u64_digits_loop 64 radix upper n [].

(* ---------- src/fmt.rs ---------- *)
(* trait ids: 0 Display, 1 Debug, 2 LowerHex, 3 UpperHex, 4 Octal, 5 Binary *)
Record fbase : Type := {
  b_max : Z; b_width : Z; b_prefix : list Z; b_radix : Z; b_upper : bool }.
Definition base_of (t : Z) : fbase :=
  if (t =? 0) || (t =? 1) then        (* Decimal; Debug calls Display::fmt *)
    {| b_max := 10000000000000000000; b_width := 19; b_prefix := []; b_radix := 10;
       b_upper := false |}
  else if t =? 2 then                 (* Hexadecimal, "x" *)
    {| b_max := 2 ^ 60; b_width := 15; b_prefix := [48; 120]; b_radix := 16; b_upper := false |}
  else if t =? 3 then                 (* Hexadecimal, "X" *)
    {| b_max := 2 ^ 60; b_width := 15; b_prefix := [48; 120]; b_radix := 16; b_upper := true |}
  else if t =? 4 then                 (* Octal *)
    {| b_max := 2 ^ 63; b_width := 21; b_prefix := [48; 111]; b_radix := 8; b_upper := false |}
  else                                (* Binary *)
    {| b_max := 2 ^ 63; b_width := 63; b_prefix := [48; 98]; b_radix := 2; b_upper := false |}.

(* the spec of the inner `write!(buffer, "{:0width$x}", spigot, width = w)` *)
Definition chunk_spec (w : Z) : fspec :=
  {| f_plus := false; f_alt := false; f_zero := true; f_width := Some w; f_fill := [32];
     f_align := 0 |}.

(* for (i, spigot) in to_base_be(MAX).enumerate() { write!(buffer, ..).unwrap() }
   DisplayBuffer::<BITS>::write_str fails (=> unwrap panics) when len + s.len() > BITS. *)
Fixpoint write_chunks (bits : Z) (b : fbase) (first : bool) (chunks buf : list Z)
  : outcome (list Z) :=
  match chunks with
  | [] => Val buf
  | c :: t =>
      let s := std_pad_integral (chunk_spec (if first then 0 else b_width b)) (b_prefix b)
                                (std_u64_digits (b_radix b) (b_upper b) c) in
      let buf := buf ++ s in
      if bits <? lenZ buf then Panic
      else write_chunks bits b false t buf
  end.

Definition is_zero (limbs : list Z) : bool := forallb (Z.eqb 0) limbs.

(* write_digits!(self, f; base, base_char) *)
Definition fmt (bits : Z) (t : Z) (s : fspec) (limbs : list Z) : outcome (list Z) :=
  let b := base_of t in
  if Nat.eqb (length limbs) 0 || is_zero limbs then
    Val (std_pad_integral s (b_prefix b) [48])
  else
    do chunks <- to_base_be limbs (b_max b) ;
    do buf <- write_chunks bits b true chunks [] ;
    Val (std_pad_integral s (b_prefix b) buf).
