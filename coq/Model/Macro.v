(* Model/Macro.v — ruint-macro/src/lib.rs (the `uint!` procedural macro) and the
   `macro_rules! uint` wrapper of src/macros.rs, as total Gallina functions.

   Text: a `&str` is the list of its UTF-8 bytes (Z in 0..255).  All characters the code
   tests for are ASCII, so byte-wise and char-wise search/compare coincide; the only place
   where the byte/char distinction is visible is `str::split_at(2)` in parse_digits, which
   panics when byte index 2 is not a char boundary (modelled).
   Token trees: `tree` (groups with a delimiter, literals, every other token as its text).
   Error messages are not modelled: an `Err(String)` is `None`. *)
From RV.Model Require Import Base.

Definition text := list Z.

Definition text_eqb (a b : text) : bool := list_eqb Z.eqb a b.

(* ---------- enum LiteralBaseType ---------- *)
Inductive base_type : Type := Uint | Bits.
Definition base_type_code (t : base_type) : Z := match t with Uint => 0 | Bits => 1 end.

(* LiteralBaseType::PATTERN = ['U', 'B'] *)
Definition is_pattern (c : Z) : bool := (c =? 85) || (c =? 66).

(* impl FromStr for LiteralBaseType, applied to a one-byte string *)
Definition base_type_from_str (c : Z) : option base_type :=
  if c =? 85 then Some Uint else if c =? 66 then Some Bits else None.

(* ---------- str primitives ---------- *)
(* str::rfind(&[char]) : byte index of the last char that is in PATTERN *)
Fixpoint rfind_pattern (s : text) : option nat :=
  match s with
  | [] => None
  | c :: t =>
      match rfind_pattern t with
      | Some i => Some (S i)
      | None => if is_pattern c then Some O else None
      end
  end.

Definition starts_with (p s : text) : bool := text_eqb (firstn (length p) s) p.
Definition ends_with_char (c : Z) (s : text) : bool :=
  match rev s with x :: _ => x =? c | [] => false end.

(* str::is_char_boundary(index) for index > 0 *)
Definition is_char_boundary (s : text) (index : nat) : bool :=
  match nth_error s index with
  | None => Nat.eqb index (length s)
  | Some b => negb ((128 <=? b) && (b <? 192))     (* (b as i8) >= -0x40 *)
  end.

(* <usize as FromStr>::from_str (64-bit host): optional '+', then one or more ASCII decimal
   digits, Err on empty / lone sign / non-digit / value > usize::MAX *)
Definition is_dec (c : Z) : bool := (48 <=? c) && (c <=? 57).
Fixpoint dec_value (acc : Z) (s : text) : option Z :=
  match s with
  | [] => Some acc
  | c :: t => if is_dec c then dec_value (acc * 10 + (c - 48)) t else None
  end.
Definition parse_usize (s : text) : option Z :=
  match s with
  | [] => None
  | c :: t =>
      let ds := if c =? 43 then t else s in
      match ds with
      | [] => None
      | _ => match dec_value 0 ds with
             | Some v => if v <? B then Some v else None
             | None => None
             end
      end
  end.

(* ---------- fn parse_suffix(source) -> Option<(LiteralBaseType, usize, &str)> ---------- *)
Definition parse_suffix (source : text) : option (base_type * Z * text) :=
  match rfind_pattern source with
  | None => None                                          (* `?` *)
  | Some suffix_index =>
      let value := firstn suffix_index source in          (* split_at(suffix_index) *)
      let suffix := skipn suffix_index source in
      match suffix with
      | [] => None                                        (* unreachable *)
      | c :: bits =>                                      (* suffix.split_at(1) *)
          match base_type_from_str c with
          | None => None
          | Some bt =>
              match parse_usize bits with
              | None => None
              | Some b =>
                  (* Ignore hexadecimal Bits literals without `_` before the suffix. *)
                  if (match bt with Bits => true | Uint => false end)
                     && starts_with [48; 120] value && negb (ends_with_char 95 value)
                  then None
                  else Some (bt, b, value)
              end
          end
      end
  end.

(* ---------- fn parse_digits(value) -> Result<Vec<u64>, String> ---------- *)
(* the base sniffing; Panic = split_at(2) off a char boundary *)
Definition parse_base (value : text) : outcome (Z * text) :=
  if (2 <=? length value)%nat then
    if is_char_boundary value 2 then
      let prefix := firstn 2 value in
      let remainder := skipn 2 value in
      if text_eqb prefix [48; 120] then Val (16, remainder)
      else if text_eqb prefix [48; 111] then Val (8, remainder)
      else if text_eqb prefix [48; 98] then Val (2, remainder)
      else Val (10, value)
    else Panic
  else Val (10, value).

Inductive digit_class : Type := DDigit (d : Z) | DSkip | DInvalid.
(* the `match c` of the digit loop; every non-ASCII char (any byte >= 128) is `_ =>` *)
Definition read_digit (c : Z) : digit_class :=
  if (48 <=? c) && (c <=? 57) then DDigit (c - 48)
  else if (97 <=? c) && (c <=? 102) then DDigit (c - 97 + 10)
  else if (65 <=? c) && (c <=? 70) then DDigit (c - 65 + 10)
  else if c =? 95 then DSkip
  else DInvalid.

(* for limb in &mut limbs { product = limb*base + carry (u128, cannot overflow);
                            *limb = product as u64; carry = (product >> 64) as u64 } *)
Fixpoint mul_add_limbs (base : Z) (limbs : list Z) (carry : Z) : list Z * Z :=
  match limbs with
  | [] => ([], carry)
  | l :: t =>
      let product := l * base + carry in
      (* `as u64` = mod 2^64 and `>> 64` = / 2^64, written with modp2/divp2 (fast in the VM) *)
      let '(t', c') := mul_add_limbs base t (modp2 (divp2 product 64) 64) in
      (modp2 product 64 :: t', c')
  end.

(* for c in digits.chars() { ... } ; None = Err(message) *)
Fixpoint digits_loop (base : Z) (limbs : list Z) (digits : text) : option (list Z) :=
  match digits with
  | [] => Some limbs
  | c :: rest =>
      match read_digit c with
      | DSkip => digits_loop base limbs rest
      | DInvalid => None                                   (* "Invalid character" *)
      | DDigit digit =>
          if base <=? digit then None                      (* digit >= base: "Invalid digit" *)
          else
            let '(limbs', carry) := mul_add_limbs base limbs digit in
            digits_loop base (if 0 <? carry then limbs' ++ [carry] else limbs') rest
      end
  end.

Definition parse_digits (value : text) : outcome (option (list Z)) :=
  do bd <- parse_base value;
  let '(base, digits) := bd in
  Val (digits_loop base [0] digits).

(* ---------- fn pad_limbs(bits, limbs) -> Option<Vec<u64>> ---------- *)
(* while limbs.len() > num_limbs && limbs.last() == Some(&0) { limbs.pop(); }
   on the reversed vector (head = last element) *)
Fixpoint pop_zeros (num_limbs : nat) (r : list Z) : list Z :=
  match r with
  | [] => []
  | x :: r' => if (num_limbs <? length r)%nat && (x =? 0) then pop_zeros num_limbs r' else r
  end.

Definition pad_limbs (bits : Z) (limbs : list Z) : option (list Z) :=
  let num_limbs := Z.to_nat ((bits + 63) / 64) in
  let mask := if bits =? 0 then 0
              else let bits := bits mod 64 in
                   if bits =? 0 then B - 1 else 2 ^ bits - 1 in
  let limbs := rev (pop_zeros num_limbs (rev limbs)) in
  let limbs := limbs ++ repeat 0 (num_limbs - length limbs) in    (* push(0) while shorter *)
  if (num_limbs <? length limbs)%nat || (mask <? last limbs 0) then None
  else Some limbs.

(* ---------- token trees ---------- *)
(* delimiter: 0 Parenthesis, 1 Bracket, 2 Brace, 3 None *)
Inductive tree : Type :=
| Group (delim : Z) (stream : list tree)
| Lit (source : text)                    (* TokenTree::Literal, as Literal::to_string() *)
| Other (t : text)                       (* Ident / Punct, as its text *)
| Constructed (bt : base_type) (bits nlimbs : Z) (limbs : list Z)
    (* the tokens of "::{base_type}::<{bits}, {limbs}>::from_limbs([0x.._u64, ..])" *)
| CompileErr                             (* error(span, message): compile_error!{"message"} *)
| Panicked.                              (* the macro panicked while producing this token *)

(* Transformer::construct *)
Definition construct (ruint_crate : list tree) (bt : base_type) (bits : Z) (limbs : list Z)
  : list tree :=
  ruint_crate ++ [Constructed bt bits ((bits + 63) / 64) limbs].

(* Transformer::transform_literal : Result<Option<TokenStream>, String>, or a panic *)
Inductive lit_outcome : Type :=
| LPass                                   (* Ok(None) *)
| LExpand (bt : base_type) (bits : Z) (limbs : list Z)   (* Ok(Some(construct ..)) *)
| LError                                  (* Err(message) *)
| LPanic.

Definition transform_literal (source : text) : lit_outcome :=
  match parse_suffix source with
  | None => LPass
  | Some (bt, bits, value) =>
      match parse_digits value with
      | Val None => LError                               (* `?` *)
      | Val (Some limbs) =>
          match pad_limbs bits limbs with
          | None => LError                               (* "Value too large" *)
          | Some limbs => LExpand bt bits limbs
          end
      | _ => LPanic
      end
  end.

(* Transformer::transform_tree / transform_stream (a panic poisons the node; the entry points
   below turn a poisoned stream into Panic) *)
Fixpoint transform_tree (ruint_crate : list tree) (t : tree) : tree :=
  match t with
  | Group d stream => Group d (map (transform_tree ruint_crate) stream)
  | Lit source =>
      match transform_literal source with
      | LExpand bt bits limbs => Group 3 (construct ruint_crate bt bits limbs)
      | LPass => Lit source
      | LError => CompileErr
      | LPanic => Panicked
      end
  | t => t
  end.
Definition transform_stream (ruint_crate : list tree) (s : list tree) : list tree :=
  map (transform_tree ruint_crate) s.

Fixpoint has_panic (t : tree) : bool :=
  match t with
  | Group _ s => existsb has_panic s
  | Panicked => true
  | _ => false
  end.
Definition finish (s : list tree) : outcome (list tree) :=
  if existsb has_panic s then Panic else Val s.

(* "::ruint".parse::<TokenStream>() *)
Definition default_crate : list tree :=
  [Other [58]; Other [58]; Other [114; 117; 105; 110; 116]].

(* #[proc_macro] pub fn uint *)
Definition uint (stream : list tree) : outcome (list tree) :=
  finish (transform_stream default_crate stream).

(* #[proc_macro] pub fn uint_with_path *)
Definition uint_with_path (stream : list tree) : outcome (list tree) :=
  match stream with
  | Group _ path :: rest => finish (transform_stream path rest)
  | _ => Val [CompileErr]
  end.

(* src/macros.rs, macro_rules! uint: every input token stream TS becomes
   uint_with_path! { [$crate] TS } *)
Definition dollar_crate : tree := Other [36; 99; 114; 97; 116; 101].
Definition uint_wrapper (stream : list tree) : outcome (list tree) :=
  uint_with_path (Group 1 [dollar_crate] :: stream).
