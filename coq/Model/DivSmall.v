(* Model/DivSmall.v — src/algorithms/div/small.rs: div_2x1_mg10 (= div_2x1), div_3x2_mg10
   (= div_3x2), div_nx1_normalized, div_nx1, div_nx2_normalized, div_nx2.
   A `&mut [u64]` argument is returned updated together with the function's result. *)
From RV.Model Require Import Base Word DivRecip.

(* ---- div_2x1_mg10(u: u128, d: u64, v: u64) -> (u64, u64) ---- *)
Definition div_2x1_body (u d v : Z) : outcome (Z * Z) :=
  let q := u + hi128 u * v in
  if BB <=? q then DebugPanic else               (* u128 `+` overflow check *)
  let q0 := lo128 q in
  let q1 := wrap (hi128 q + 1) in
  let r := wrap (lo128 u - wrap (q1 * d)) in
  let '(q1, r) := if q0 <? r then (wrap (q1 - 1), wrap (r + d)) else (q1, r) in
  let '(q1, r) := if d <=? r then (wrap (q1 + 1), wrap (r - d)) else (q1, r) in
  Val (q1, r).

Definition div_2x1_mg10 (u d v : Z) : outcome (Z * Z) :=
  if d <? 2 ^ 63 then DebugPanic else            (* debug_assert!(d >= (1 << 63)) *)
  if negb (hi128 u <? d) then DebugPanic else    (* debug_assert!((u >> 64) < d) *)
  do rv <- reciprocal_mg10 d ;
  if negb (v =? rv) then DebugPanic else         (* debug_assert_eq!(v, reciprocal(d)) *)
  div_2x1_body u d v.

(* ---- div_3x2_mg10(u21: u128, u0: u64, d: u128, v: u64) -> (u64, u128) ---- *)
Definition div_3x2_body (u21 u0 d v : Z) : outcome (Z * Z) :=
  let q := hi128 u21 * v + u21 in
  if BB <=? q then DebugPanic else               (* u128 `+` overflow check *)
  let r1 := wrap (lo128 u21 - wrap (hi128 q * hi128 d)) in
  let t := lo128 d * hi128 q in
  let r := wrap128 (wrap128 (join r1 u0 - t) - d) in
  let q1 := wrap (hi128 q + 1) in
  let '(q1, r) := if lo128 q <=? hi128 r then (wrap (q1 - 1), wrap128 (r + d)) else (q1, r) in
  let '(q1, r) := if d <=? r then (wrap (q1 + 1), wrap128 (r - d)) else (q1, r) in
  Val (q1, r).

Definition div_3x2_mg10 (u21 u0 d v : Z) : outcome (Z * Z) :=
  if d <? 2 ^ 127 then DebugPanic else           (* debug_assert!(d >= (1 << 127)) *)
  if negb (u21 <? d) then DebugPanic else        (* debug_assert!(u21 < d) *)
  do rv <- reciprocal_2_mg10 d ;
  if negb (v =? rv) then DebugPanic else         (* debug_assert_eq!(v, reciprocal_2(d)) *)
  div_3x2_body u21 u0 d v.

(* ---- div_nx1_normalized(u, d) -> r : `for u in u.iter_mut().rev()` on the reversed list;
   returns (reversed new limbs, remainder) ---- *)
Fixpoint nx1_norm_loop (ru : list Z) (d v r : Z) : outcome (list Z * Z) :=
  match ru with
  | [] => Val ([], r)
  | x :: t =>
      do qr <- div_2x1_mg10 (join r x) d v ;
      do p <- nx1_norm_loop t d v (snd qr) ;
      Val (fst qr :: fst p, snd p)
  end.

Definition div_nx1_normalized (u : list Z) (d : Z) : outcome (list Z * Z) :=
  if d <? 2 ^ 63 then DebugPanic else
  do v <- reciprocal_mg10 d ;
  do p <- nx1_norm_loop (rev u) d v 0 ;
  Val (rev (fst p), snd p).

(* ---- div_nx1(limbs, divisor) -> remainder ----
   The loop `for i in (1..len).rev()` reads limbs[i] (upper) and limbs[i-1] (lower, not yet
   overwritten) and writes limbs[i]; on the reversed list: head = upper, next = lower. *)
Fixpoint nx1_loop (rl : list Z) (shift d v rem : Z) : outcome (list Z * Z) :=
  match rl with
  | [] => Val ([], rem)                           (* not reached: the list is non-empty *)
  | [first] =>
      (* last quotient: n = join(remainder, first << shift) *)
      do qr <- div_2x1_mg10 (join rem (shl64 first shift)) d v ;
      Val ([fst qr], snd qr)
  | upper :: ((lower :: _) as t) =>
      let u := Z.lor (shl64 upper shift) (shr64 lower (64 - shift)) in
      do qr <- div_2x1_mg10 (join rem u) d v ;
      do p <- nx1_loop t shift d v (snd qr) ;
      Val (fst qr :: fst p, snd p)
  end.

Definition div_nx1 (limbs : list Z) (divisor : Z) : outcome (list Z * Z) :=
  if divisor =? 0 then DebugPanic else            (* debug_assert!(divisor != 0) *)
  match rev limbs with
  | [] => DebugPanic                              (* debug_assert!(!limbs.is_empty()) *)
  | last :: _ =>
      if last =? 0 then DebugPanic else           (* debug_assert: last limb != 0 *)
      let shift := clz64 divisor in
      if shift =? 0 then div_nx1_normalized limbs divisor else
      let divisor := shl64 divisor shift in
      do reciprocal <- reciprocal_mg10 divisor ;
      let remainder := shr64 last (64 - shift) in
      do p <- nx1_loop (rev limbs) shift divisor reciprocal remainder ;
      Val (rev (fst p), shr64 (snd p) shift)
  end.

(* ---- div_nx2_normalized(u, d: u128) -> u128 ---- *)
Fixpoint nx2_norm_loop (ru : list Z) (d v r : Z) : outcome (list Z * Z) :=
  match ru with
  | [] => Val ([], r)
  | x :: t =>
      do qr <- div_3x2_mg10 r x d v ;
      do p <- nx2_norm_loop t d v (snd qr) ;
      Val (fst qr :: fst p, snd p)
  end.

Definition div_nx2_normalized (u : list Z) (d : Z) : outcome (list Z * Z) :=
  if d <? 2 ^ 127 then DebugPanic else
  do v <- reciprocal_2_mg10 d ;
  do p <- nx2_norm_loop (rev u) d v 0 ;
  Val (rev (fst p), snd p).

(* ---- div_nx2(limbs, divisor: u128) -> u128 ---- *)
Fixpoint nx2_loop (rl : list Z) (shift d v rem : Z) : outcome (list Z * Z) :=
  match rl with
  | [] => Val ([], rem)
  | [first] =>
      do qr <- div_3x2_mg10 rem (shl64 first shift) d v ;
      Val ([fst qr], snd qr)
  | upper :: ((lower :: _) as t) =>
      let u := Z.lor (shl64 upper shift) (shr64 lower (64 - shift)) in
      do qr <- div_3x2_mg10 rem u d v ;
      do p <- nx2_loop t shift d v (snd qr) ;
      Val (fst qr :: fst p, snd p)
  end.

(* u128 `<<` / `>>` by an in-range amount *)
Definition shl128 (x s : Z) : Z := (x * 2 ^ s) mod BB.
Definition shr128 (x s : Z) : Z := x / 2 ^ s.

Definition div_nx2 (limbs : list Z) (divisor : Z) : outcome (list Z * Z) :=
  if divisor <? B then DebugPanic else            (* debug_assert!(divisor >= 1 << 64) *)
  match rev limbs with
  | [] => DebugPanic
  | last :: _ =>
      if last =? 0 then DebugPanic else
      let shift := clz64 (hi128 divisor) in
      if shift =? 0 then div_nx2_normalized limbs divisor else
      let divisor := shl128 divisor shift in
      do reciprocal <- reciprocal_2_mg10 divisor ;
      let remainder := shr64 last (64 - shift) in
      do p <- nx2_loop (rev limbs) shift divisor reciprocal remainder ;
      Val (rev (fst p), shr128 (snd p) shift)
  end.
