(* Model/Shift.v — src/bits.rs: shifts and rotations (overflowing/checked/saturating/wrapping
   shl, overflowing/checked/wrapping shr, arithmetic_shr, rotate_left/right, Shl/Shr with a
   primitive or a Uint amount), line for line, as the code is after commits 75d4592/5d4bef1.
   `usize` amounts are unbounded non-negative Z (wf bounds them by 2^64). Definitions only. *)
From RV.Model Require Import Base Word.

Definition nz (x : Z) : bool := negb (x =? 0).             (* |&x| x != 0 *)
Definition any_nz (l : list Z) : bool := existsb nz l.    (* .iter().any(|&x| x != 0) *)
(* self != Self::ZERO : derived PartialEq on the limb arrays *)
Definition ne_zero (bits : Z) (a : list Z) : bool := negb (list_eqb Z.eqb a (uZERO bits)).

(* Uint::bit *)
Definition bit (bits : Z) (a : list Z) (index : Z) : bool :=
  if bits <=? index then false
  else
    let limbs := index / 64 in let b := index mod 64 in
    nz (Z.land (nth (Z.to_nat limbs) a 0) (shl64 1 b)).

(* BitOrAssign<&Uint>: for i in 0..LIMBS { self.limbs[i] |= rhs.limbs[i] } *)
Fixpoint bitor (a b : list Z) : list Z :=
  match a, b with
  | x :: a', y :: b' => Z.lor x y :: bitor a' b'
  | _, _ => []
  end.

(* for i in 0..LIMBS - limbs { x = self.limbs[i]; r.limbs[i + limbs] = (x << bits) | carry;
                               carry = (x >> (word_bits - bits - 1)) >> 1; }
   xs = self.limbs[0 .. LIMBS - limbs]; returns the written limbs and the final carry *)
Fixpoint shl_loop (xs : list Z) (sb carry : Z) : list Z * Z :=
  match xs with
  | [] => ([], carry)
  | x :: t =>
      let v := Z.lor (shl64 x sb) carry in
      let c := shr64 (shr64 x (64 - sb - 1)) 1 in
      let '(rs, c') := shl_loop t sb c in (v :: rs, c')
  end.

Definition overflowing_shl (bits : Z) (a : list Z) (rhs : Z) : list Z * bool :=
  let LIMBS := nlimbs bits in
  let limbs := rhs / 64 in
  let sb := rhs mod 64 in
  if LIMBS <=? limbs then (uZERO bits, ne_zero bits a)
  else
    let n := Z.to_nat (LIMBS - limbs) in
    let '(hi, carry) := shl_loop (firstn n a) sb 0 in
    let r := repeat 0 (Z.to_nat limbs) ++ hi in            (* r = ZERO, limbs [limbs..] written *)
    let overflow := nz carry || any_nz (skipn n a) || (mask bits <? last r 0) in
    (masked bits r, overflow).

Definition checked_of (p : list Z * bool) : option (list Z) :=
  match p with (v, false) => Some v | _ => None end.

Definition checked_shl bits a rhs := checked_of (overflowing_shl bits a rhs).
Definition saturating_shl bits a rhs :=
  match overflowing_shl bits a rhs with (v, false) => v | _ => uMAX bits end.
Definition wrapping_shl bits a rhs := fst (overflowing_shl bits a rhs).

(* for i in 0..LIMBS - limbs { x = self.limbs[LIMBS - 1 - i];
     r.limbs[LIMBS - 1 - i - limbs] = (x >> bits) | carry; carry = (x << (word_bits - bits - 1)) << 1; }
   xs = self.limbs[limbs ..] most significant first; output most significant first *)
Fixpoint shr_loop (xs : list Z) (sb carry : Z) : list Z * Z :=
  match xs with
  | [] => ([], carry)
  | x :: t =>
      let v := Z.lor (shr64 x sb) carry in
      let c := shl64 (shl64 x (64 - sb - 1)) 1 in
      let '(rs, c') := shr_loop t sb c in (v :: rs, c')
  end.

Definition overflowing_shr (bits : Z) (a : list Z) (rhs : Z) : list Z * bool :=
  let LIMBS := nlimbs bits in
  let limbs := rhs / 64 in
  let sb := rhs mod 64 in
  if LIMBS <=? limbs then (uZERO bits, ne_zero bits a)
  else
    let q := Z.to_nat limbs in
    let '(lo_rev, carry) := shr_loop (rev (skipn q a)) sb 0 in
    let r := rev lo_rev ++ repeat 0 q in                   (* limbs [.. LIMBS - limbs] written *)
    let overflow := nz carry || any_nz (firstn q a) in
    (r, overflow).

Definition checked_shr bits a rhs := checked_of (overflowing_shr bits a rhs).
Definition wrapping_shr bits a rhs := fst (overflowing_shr bits a rhs).

(* Shl<$u> / Shr<$u> (and the & / assign forms): self.wrapping_shl(rhs as usize) *)
Definition shl_prim bits a rhs := wrapping_shl bits a rhs.
Definition shr_prim bits a rhs := wrapping_shr bits a rhs.

Definition arithmetic_shr (bits : Z) (a : list Z) (rhs : Z) : list Z :=
  if bits =? 0 then uZERO bits
  else
    let sign := bit bits a (bits - 1) in
    let r := shr_prim bits a rhs in
    if sign then bitor r (shl_prim bits (uMAX bits) (Z.max 0 (bits - rhs)))   (* saturating_sub *)
    else r.

Definition rotate_left (bits : Z) (a : list Z) (rhs : Z) : list Z :=
  if bits =? 0 then uZERO bits
  else
    let rhs := rhs mod bits in
    bitor (shl_prim bits a rhs) (shr_prim bits a (bits - rhs)).

Definition rotate_right (bits : Z) (a : list Z) (rhs : Z) : list Z :=
  if bits =? 0 then uZERO bits
  else
    let rhs := rhs mod bits in
    rotate_left bits a (bits - rhs).

(* Shl<Self> / Shr<Self> (Shl<&Self> and the assign forms forward here) *)
Definition shl_uint (bits : Z) (a k : list Z) : list Z :=
  if bits =? 0 then a
  else if any_nz (skipn 1 k) then uZERO bits
  else wrapping_shl bits a (nth 0 k 0).

Definition shr_uint (bits : Z) (a k : list Z) : list Z :=
  if bits =? 0 then a
  else if any_nz (skipn 1 k) then uZERO bits
  else wrapping_shr bits a (nth 0 k 0).
