(* Model/Pow.v — src/pow.rs (checked_pow, overflowing_pow, pow, saturating_pow, wrapping_pow),
   line for line.  Definitions only.

   LOCAL COPIES (the topics belong to properties C02/C03, not yet in /verif): Uint-level
   `overflowing_mul`, `checked_mul`, `wrapping_mul` (src/mul.rs) on top of the limb kernels
   `Limbs.addmul` / `Limbs.addmul_n`, `div_rem` / `wrapping_div` (src/div.rs) on top of
   `Div.div_kernel`, `is_zero` (src/cmp.rs), and the comparison operators of `Ord`.

   `approx_pow2` is NOT modelled (libm exp2): its result is an input of Model/Root.v. *)
From RV.Model Require Import Base Word Limbs Add.
From RV.Model Require Bits Shift Div.

(* ---------- src/cmp.rs ---------- *)
(* is_zero: *self == Self::ZERO  (derived PartialEq on the limb arrays) *)
Definition is_zero (bits : Z) (a : list Z) : bool := list_eqb Z.eqb a (uZERO bits).
(* PartialOrd through algorithms::cmp *)
Definition ule (a b : list Z) : bool :=               (* a <= b *)
  match limbs_cmp a b with Gt => false | _ => true end.
Definition ueq (a b : list Z) : bool := list_eqb Z.eqb a b.    (* a == b *)

(* ---------- src/mul.rs (local copy) ---------- *)
Definition overflowing_mul (bits : Z) (a b : list Z) : list Z * bool :=
  let '(result, overflow) := addmul (uZERO bits) a b in
  if 0 <? bits then (masked bits result, overflow || (mask bits <? last result 0))
  else (result, overflow).
Definition checked_mul (bits : Z) (a b : list Z) : option (list Z) :=
  checked_of (overflowing_mul bits a b).
Definition wrapping_mul (bits : Z) (a b : list Z) : outcome (list Z) :=
  do result <- addmul_n (uZERO bits) a b ;
  Val (if 0 <? bits then masked bits result else result).

(* ---------- src/div.rs (local copy) ---------- *)
(* div_rem: algorithms::div(&mut self.limbs, &mut rhs.limbs); (self, rhs) *)
Definition div_rem (a b : list Z) : outcome (list Z * list Z) := Div.div_kernel a b.
Definition wrapping_div (a b : list Z) : outcome (list Z) := omap fst (div_rem a b).

(* ---------- src/pow.rs ---------- *)
(* while !exp.is_zero() { if exp.bit(0) { (result, o) = result.overflowing_mul(self);
                                           overflow |= o | base_overflow }
                          (self, o) = self.overflowing_mul(self); base_overflow |= o; exp >>= 1 }
   exp < 2^BITS halves every round: BITS + 1 rounds of fuel always suffice. *)
Fixpoint opow_loop (fuel : nat) (bits : Z) (self exp result : list Z)
         (overflow base_overflow : bool) : outcome (list Z * bool) :=
  match fuel with
  | O => OutOfFuel
  | S fuel' =>
      if is_zero bits exp then Val (result, overflow)
      else
        do b0 <- Bits.bit bits exp 0 ;
        let '(result, overflow) :=
          if (b0 : bool) then
            let '(r, o) := overflowing_mul bits result self in
            (r, overflow || (o || base_overflow))
          else (result, overflow) in
        let '(s, o) := overflowing_mul bits self self in
        opow_loop fuel' bits s (Shift.wrapping_shr bits exp 1) result overflow
                  (base_overflow || o)
  end.

Definition pow_fuel (bits : Z) : nat := S (Z.to_nat bits).

Definition overflowing_pow (bits : Z) (self exp : list Z) : outcome (list Z * bool) :=
  if bits =? 0 then Val (self, false)
  else opow_loop (pow_fuel bits) bits self exp (Bits.uONE bits) false false.

Definition checked_pow (bits : Z) (self exp : list Z) : outcome (option (list Z)) :=
  do p <- overflowing_pow bits self exp ;
  Val (match p with (x, false) => Some x | (_, true) => None end).

Definition saturating_pow (bits : Z) (self exp : list Z) : outcome (list Z) :=
  do p <- overflowing_pow bits self exp ;
  Val (match p with (x, false) => x | (_, true) => uMAX bits end).

Fixpoint wpow_loop (fuel : nat) (bits : Z) (self exp result : list Z) : outcome (list Z) :=
  match fuel with
  | O => OutOfFuel
  | S fuel' =>
      if is_zero bits exp then Val result
      else
        do b0 <- Bits.bit bits exp 0 ;
        do result <- (if (b0 : bool) then wrapping_mul bits result self else Val result) ;
        do s <- wrapping_mul bits self self ;
        wpow_loop fuel' bits s (Shift.wrapping_shr bits exp 1) result
  end.

Definition wrapping_pow (bits : Z) (self exp : list Z) : outcome (list Z) :=
  if bits =? 0 then Val self
  else wpow_loop (pow_fuel bits) bits self exp (Bits.uONE bits).

Definition pow (bits : Z) (self exp : list Z) : outcome (list Z) := wrapping_pow bits self exp.

(* ---------- a loop combinator for `loop { ... }` with no a-priori small bound ----------
   iter2 n f s runs up to 2^n rounds of f with a fuel term of size n. *)
Inductive step_res (S R : Type) : Type :=
| More (s : S)
| Done (r : outcome R).
Arguments More {S R} s.
Arguments Done {S R} r.

Fixpoint iter2 {S R : Type} (n : nat) (f : S -> step_res S R) (s : S) : step_res S R :=
  match n with
  | O => f s
  | S n' =>
      match iter2 n' f s with
      | Done r => Done r
      | More s' => iter2 n' f s'
      end
  end.
Definition run_loop {S R : Type} (n : nat) (f : S -> step_res S R) (s : S) : outcome R :=
  match iter2 n f s with
  | Done r => r
  | More _ => OutOfFuel
  end.
(* `do x <- o ; k` inside a loop body *)
Definition sbind {A S R : Type} (o : outcome A) (k : A -> step_res S R) : step_res S R :=
  match o with
  | Val a => k a
  | Panic => Done Panic
  | DebugPanic => Done DebugPanic
  | CompileError => Done CompileError
  | OutOfFuel => Done OutOfFuel
  end.
