(* Model/DivRef.v — the reference kernels of src/algorithms/div: reciprocal_ref
   (reciprocal.rs), div_2x1_ref and div_3x2_ref (small.rs).  They use the u128 `/` and `%`
   of the machine instead of a reciprocal; C14's "specialised kernels (2-by-1, 3-by-2) return
   the same quotient and remainder" covers them like the mg10 variants. *)
From RV.Model Require Import Base Word DivRecip.

(* reciprocal_ref(d: u64) -> u64 *)
Definition reciprocal_ref (d : Z) : outcome Z :=
  if d <? 2 ^ 63 then DebugPanic else              (* debug_assert!(d >= (1 << 63)) *)
  if d =? 0 then Panic else                        (* u128 `/` by zero (release, d = 0) *)
  let r := (BB - 1) / d in
  if r <? B then DebugPanic else                   (* debug_assert!(r >= (1 << 64)) *)
  if 2 * B <=? r then DebugPanic else              (* debug_assert!(r < (1 << 65)) *)
  Val (wrap r).

(* div_2x1_ref(u: u128, d: u64) -> (u64, u64) *)
Definition div_2x1_ref (u d : Z) : outcome (Z * Z) :=
  if d <? 2 ^ 63 then DebugPanic else              (* debug_assert!(d >= (1 << 63)) *)
  if negb (hi128 u <? d) then DebugPanic else      (* debug_assert!((u >> 64) < d) *)
  if d =? 0 then Panic else
  Val (wrap (u / d), wrap (u mod d)).

(* div_3x2_ref(n21: u128, n0: u64, d: u128) -> u64 *)
Definition div_3x2_ref (n21 n0 d : Z) : outcome Z :=
  if d <? 2 ^ 127 then DebugPanic else             (* debug_assert!(d >= (1 << 127)) *)
  if negb (n21 <? d) then DebugPanic else          (* debug_assert!(n21 < d) *)
  let n2 := hi128 n21 in
  let n1 := lo128 n21 in
  let d1 := hi128 d in
  let d0 := lo128 d in
  if n2 =? d1 then
    if negb (n1 <? d0) then DebugPanic else        (* debug_assert!(n1 < d0) *)
    let neg_remainder := wrap128 (wrap128 (d0 * B) - Z.lor (wrap128 (n1 * B)) n0) in
    if d <? neg_remainder then Val (B - 2) else Val (B - 1)
  else
    do qr <- div_2x1_ref n21 d1 ;
    let '(q, r) := qr in
    let t1 := q * d0 in
    if BB <=? t1 then DebugPanic else              (* u128 `*` overflow check *)
    let t2 := Z.lor (wrap128 (r * B)) n0 in
    if t2 <? t1 then
      if q <? 1 then DebugPanic else               (* `q -= 1` overflow check *)
      let q := q - 1 in
      let r := wrap (r + d1) in
      if r <? d1 then Val q                        (* overflow: r + d1 >= 2^64 *)
      else
        let t1 := q * d0 in
        if BB <=? t1 then DebugPanic else
        let t2 := Z.lor (wrap128 (r * B)) n0 in
        if t2 <? t1 then
          if q <? 1 then DebugPanic else Val (q - 1)
        else Val q
    else Val q.
