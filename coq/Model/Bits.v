(* Model/Bits.v — src/bits.rs (everything except the shift/rotate family), the power-of-two
   helpers of src/special.rs and the byte view used by `byte`/`checked_byte`, line for line.
   Definitions only.  `usize` quantities are unbounded Z; usize subtraction that could
   underflow is `usub` (DebugPanic), slice indexing out of range is Panic.

   LOCAL COPIES (the shift family belongs to property C05): `overflowing_shr`/`wrapping_shr`
   (used by reverse_bits through `self >>= 64 - BITS % 64`) and `overflowing_shl`/`wrapping_shl`
   (used by checked_next_power_of_two through `Self::ONE << exp`) are modelled here, faithfully,
   under the names shr_local / shl_local. *)
From RV.Model Require Import Base Word.

(* ---------- usize / slice helpers ---------- *)
Definition usub (x y : Z) : outcome Z := if x <? y then DebugPanic else Val (x - y).

(* slice[i] *)
Definition index {A} (l : list A) (i : Z) : outcome A :=
  if (i <? 0) || (lenZ l <=? i) then Panic else
  match nth_error l (Z.to_nat i) with Some x => Val x | None => Panic end.

(* slice[i] = f(slice[i]) *)
Fixpoint upd_nat (n : nat) (f : Z -> Z) (l : list Z) : outcome (list Z) :=
  match l, n with
  | [], _ => Panic
  | x :: t, O => Val (f x :: t)
  | x :: t, S n' => do r <- upd_nat n' f t ; Val (x :: r)
  end.
Definition update (l : list Z) (i : Z) (f : Z -> Z) : outcome (list Z) :=
  if (i <? 0) || (lenZ l <=? i) then Panic else upd_nat (Z.to_nat i) f l.

(* Iterator::position / rposition over a slice (std, modelled functionally) *)
Fixpoint position_from (p : Z -> bool) (l : list Z) (n : Z) : option Z :=
  match l with
  | [] => None
  | x :: t => if p x then Some n else position_from p t (n + 1)
  end.
Definition position (p : Z -> bool) (l : list Z) : option Z := position_from p l 0.
Fixpoint rposition (p : Z -> bool) (l : list Z) : option Z :=
  match l with
  | [] => None
  | x :: t =>
      match rposition p t with
      | Some n => Some (n + 1)
      | None => if p x then Some 0 else None
      end
  end.

(* u64 helpers *)
Definition not64 (x : Z) : Z := B - 1 - x.                  (* !x *)
Definition cto64 (x : Z) : Z := ctz64 (not64 x).            (* u64::trailing_ones *)
Definition nonzero (x : Z) : bool := negb (x =? 0).

(* Uint::ONE = const_from_u64(1): MAX (= no limbs) at BITS = 0, else limbs[0] = 1 *)
Definition uONE (bits : Z) : list Z :=
  if bits =? 0 then uMAX bits
  else match uZERO bits with [] => [] | _ :: t => 1 :: t end.

Definition BYTES (bits : Z) : Z := (bits + 7) / 8.

(* ---------- bit / set_bit ---------- *)
Definition bit (bits : Z) (a : list Z) (idx : Z) : outcome bool :=
  if bits <=? idx then Val false
  else
    let '(limbs, b) := (idx / 64, idx mod 64) in
    do x <- index a limbs ;
    Val (nonzero (Z.land x (shl64 1 b))).

Definition set_bit (bits : Z) (a : list Z) (idx : Z) (value : bool) : outcome (list Z) :=
  if bits <=? idx then Val a
  else
    let '(limbs, b) := (idx / 64, idx mod 64) in
    if value then update a limbs (fun x => Z.lor x (shl64 1 b))
    else update a limbs (fun x => Z.land x (not64 (shl64 1 b))).

(* ---------- byte / checked_byte : as_le_slice()[index] ---------- *)
(* the 8 little-endian bytes of a u64 in memory *)
Fixpoint le_bytes_fuel (n : nat) (x : Z) : list Z :=
  match n with
  | O => []
  | S n' => x mod 256 :: le_bytes_fuel n' (x / 256)
  end.
Definition le_bytes64 (x : Z) : list Z := le_bytes_fuel 8 x.
(* slice::from_raw_parts(limbs.as_ptr().cast(), BYTES) *)
Definition as_le_slice (bits : Z) (a : list Z) : list Z :=
  firstn (Z.to_nat (BYTES bits)) (flat_map le_bytes64 a).

Definition byte (bits : Z) (a : list Z) (idx : Z) : outcome Z := index (as_le_slice bits a) idx.
Definition checked_byte (bits : Z) (a : list Z) (idx : Z) : outcome (option Z) :=
  if idx <? BYTES bits then do b <- byte bits a idx ; Val (Some b) else Val None.

(* ---------- local copy: overflowing_shr / wrapping_shr (usize amount) ---------- *)
(* for i in 0..LIMBS - limbs { x = self.limbs[LIMBS-1-i];
     r.limbs[LIMBS-1-i-limbs] = (x >> bits) | carry; carry = (x << (63 - bits)) << 1 }
   `ms` = the limbs visited, most significant first; output in the same order *)
Fixpoint shr_loop (s : Z) (ms : list Z) (carry : Z) : list Z :=
  match ms with
  | [] => []
  | x :: t => Z.lor (shr64 x s) carry :: shr_loop s t (shl64 (shl64 x (63 - s)) 1)
  end.
Definition shr_local (bits : Z) (a : list Z) (rhs : Z) : list Z :=
  let '(limbs, s) := (rhs / 64, rhs mod 64) in
  if lenZ a <=? limbs then uZERO bits
  else rev (shr_loop s (rev (skipn (Z.to_nat limbs) a)) 0) ++ zero_limbs (Z.to_nat limbs).

(* ---------- local copy: overflowing_shl / wrapping_shl (usize amount) ---------- *)
(* for i in 0..LIMBS - limbs { x = self.limbs[i]; r.limbs[i+limbs] = (x << bits) | carry;
     carry = (x >> (63 - bits)) >> 1 } ; r.apply_mask() *)
Fixpoint shl_loop (s : Z) (ls : list Z) (carry : Z) : list Z :=
  match ls with
  | [] => []
  | x :: t => Z.lor (shl64 x s) carry :: shl_loop s t (shr64 (shr64 x (63 - s)) 1)
  end.
Definition shl_local (bits : Z) (a : list Z) (rhs : Z) : list Z :=
  let '(limbs, s) := (rhs / 64, rhs mod 64) in
  if lenZ a <=? limbs then uZERO bits
  else masked bits (zero_limbs (Z.to_nat limbs)
                    ++ shl_loop s (firstn (Z.to_nat (lenZ a - limbs)) a) 0).

(* ---------- reverse_bits ---------- *)
Definition reverse_bits (bits : Z) (a : list Z) : list Z :=
  let r := map bitrev64 (rev a) in
  if negb (bits mod 64 =? 0) then shr_local bits r (64 - bits mod 64) else r.

(* ---------- not ---------- *)
Definition unot (bits : Z) (a : list Z) : list Z :=
  if bits =? 0 then uZERO bits else masked bits (map not64 a).

(* ---------- leading_zeros / leading_ones ---------- *)
(* `ms` = limbs most significant first, n = LIMBS - 1 - i *)
Fixpoint lz_loop (bits : Z) (ms : list Z) (n : Z) : outcome Z :=
  match ms with
  | [] => Val bits
  | x :: t =>
      if nonzero x then
        let skipped := n * 64 in
        let fixed := clz64 (mask bits) in
        let top := clz64 x in
        usub (skipped + top) fixed
      else lz_loop bits t (n + 1)
  end.
Definition leading_zeros (bits : Z) (a : list Z) : outcome Z := lz_loop bits (rev a) 0.
Definition leading_ones (bits : Z) (a : list Z) : outcome Z := leading_zeros bits (unot bits a).

(* ---------- trailing_zeros / trailing_ones ---------- *)
Definition trailing_zeros (bits : Z) (a : list Z) : outcome Z :=
  match position nonzero a with
  | None => Val bits
  | Some n => do x <- index a n ; Val (n * 64 + ctz64 x)
  end.
Definition trailing_ones (bits : Z) (a : list Z) : outcome Z :=
  match position (fun x => negb (x =? B - 1)) a with
  | None => Val bits
  | Some n => do x <- index a n ; Val (n * 64 + cto64 x)
  end.

(* ---------- count_ones / count_zeros / bit_len / byte_len ---------- *)
Definition count_ones (a : list Z) : Z := fold_left (fun total x => total + popcnt64 x) a 0.
Definition count_zeros (bits : Z) (a : list Z) : outcome Z := usub bits (count_ones a).
Definition bit_len (bits : Z) (a : list Z) : outcome Z :=
  do lz <- leading_zeros bits a ; usub bits lz.
Definition byte_len (bits : Z) (a : list Z) : outcome Z :=
  do n <- bit_len bits a ; Val ((n + 7) / 8).

(* ---------- most_significant_bits ---------- *)
Definition most_significant_bits (a : list Z) : outcome (Z * Z) :=
  let first_set_limb := match rposition nonzero a with Some n => n | None => 0 end in
  if first_set_limb =? 0 then Val (match a with x :: _ => x | [] => 0 end, 0)
  else
    do hi <- index a first_set_limb ;
    do lo <- index a (first_set_limb - 1) ;
    let lz := clz64 hi in
    let bits := if 0 <? lz then Z.lor (shl64 hi lz) (shr64 lo (64 - lz)) else hi in
    do exponent <- usub (first_set_limb * 64) lz ;
    Val (bits, exponent).

(* ---------- the six operator shapes of impl_bit_op! ---------- *)
(* $fn_assign(&mut self, &rhs): for i in 0..LIMBS { self.limbs[i] op= rhs.limbs[i] } *)
Fixpoint op_assign (f : Z -> Z -> Z) (self rhs : list Z) : outcome (list Z) :=
  match self with
  | [] => Val []
  | x :: s' =>
      match rhs with
      | [] => Panic
      | y :: r' => do t <- op_assign f s' r' ; Val (f x y :: t)
      end
  end.
(* shape 0: a op b   1: a op &b   2: &a op b (computes b op= a)   3: &a op &b
         4: a op= b  5: a op= &b *)
Definition bit_op (f : Z -> Z -> Z) (shape : Z) (a b : list Z) : outcome (list Z) :=
  if shape =? 2 then op_assign f b a else op_assign f a b.

(* ---------- special.rs ---------- *)
Definition is_power_of_two (a : list Z) : bool := count_ones a =? 1.
Definition checked_next_power_of_two (bits : Z) (a : list Z) : outcome (option (list Z)) :=
  if is_power_of_two a then Val (Some a)
  else
    do exp <- bit_len bits a ;
    if bits <=? exp then Val None
    else Val (Some (shl_local bits (uONE bits) exp)).
Definition next_power_of_two (bits : Z) (a : list Z) : outcome (list Z) :=
  do o <- checked_next_power_of_two bits a ;
  match o with Some v => Val v | None => Panic end.
