(* Model/DivRecip.v — src/algorithms/div/reciprocal.rs: reciprocal_mg10 (= reciprocal) and
   reciprocal_2_mg10 (= reciprocal_2), line for line.  u64 = Z in [0,B), u128 = Z in [0,BB).
   Wrapping<u64> arithmetic writes its `wrap` explicitly. *)
From RV.Model Require Import Base Word.

(* DoubleWord::join(high, low) = (high << 64) | low *)
Definition join (h l : Z) : Z := h * B + l.
(* u128 high()/low() on a value < 2^128 *)
Definition hi128 (x : Z) : Z := x / B.
Definition lo128 (x : Z) : Z := x mod B.

Definition RECIP_TABLE : list Z := [
    2045; 2037; 2029; 2021; 2013; 2005; 1998; 1990; 1983; 1975; 1968; 1960; 1953; 1946; 1938;
    1931; 1924; 1917; 1910; 1903; 1896; 1889; 1883; 1876; 1869; 1863; 1856; 1849; 1843; 1836;
    1830; 1824; 1817; 1811; 1805; 1799; 1792; 1786; 1780; 1774; 1768; 1762; 1756; 1750; 1745;
    1739; 1733; 1727; 1722; 1716; 1710; 1705; 1699; 1694; 1688; 1683; 1677; 1672; 1667; 1661;
    1656; 1651; 1646; 1641; 1636; 1630; 1625; 1620; 1615; 1610; 1605; 1600; 1596; 1591; 1586;
    1581; 1576; 1572; 1567; 1562; 1558; 1553; 1548; 1544; 1539; 1535; 1530; 1526; 1521; 1517;
    1513; 1508; 1504; 1500; 1495; 1491; 1487; 1483; 1478; 1474; 1470; 1466; 1462; 1458; 1454;
    1450; 1446; 1442; 1438; 1434; 1430; 1426; 1422; 1418; 1414; 1411; 1407; 1403; 1399; 1396;
    1392; 1388; 1384; 1381; 1377; 1374; 1370; 1366; 1363; 1359; 1356; 1352; 1349; 1345; 1342;
    1338; 1335; 1332; 1328; 1325; 1322; 1318; 1315; 1312; 1308; 1305; 1302; 1299; 1295; 1292;
    1289; 1286; 1283; 1280; 1276; 1273; 1270; 1267; 1264; 1261; 1258; 1255; 1252; 1249; 1246;
    1243; 1240; 1237; 1234; 1231; 1228; 1226; 1223; 1220; 1217; 1214; 1211; 1209; 1206; 1203;
    1200; 1197; 1195; 1192; 1189; 1187; 1184; 1181; 1179; 1176; 1173; 1171; 1168; 1165; 1163;
    1160; 1158; 1155; 1153; 1150; 1148; 1145; 1143; 1140; 1138; 1135; 1133; 1130; 1128; 1125;
    1123; 1121; 1118; 1116; 1113; 1111; 1109; 1106; 1104; 1102; 1099; 1097; 1095; 1092; 1090;
    1088; 1086; 1083; 1081; 1079; 1077; 1074; 1072; 1070; 1068; 1066; 1064; 1061; 1059; 1057;
    1055; 1053; 1051; 1049; 1047; 1044; 1042; 1040; 1038; 1036; 1034; 1032; 1030; 1028; 1026;
    1024 ].

(* mul_hi(a, b) = (a*b) >> 64 ; muladd_hi(a, b, c) = (a*b + c) >> 64  (u128, no overflow) *)
Definition mul_hi (a b : Z) : Z := (a * b) / B.
Definition muladd_hi (a b c : Z) : Z := (a * b + c) / B.

(* the straight-line body of reciprocal_mg10 after the debug_assert (2^63 <= d < 2^64) *)
Definition recip_v0 (d : Z) : Z := nth (Z.to_nat (shr64 d 55 - 256)) RECIP_TABLE 0.
Definition recip_v1 (d : Z) : Z :=
  let d40 := wrap (1 + shr64 d 24) in
  let v0 := recip_v0 d in
  wrap (wrap (shl64 v0 11 - shr64 (wrap (wrap (v0 * v0) * d40)) 40) - 1).
Definition recip_v2 (d : Z) : Z :=
  let d40 := wrap (1 + shr64 d 24) in
  let v1 := recip_v1 d in
  wrap (shl64 v1 13 + shr64 (wrap (v1 * wrap (2 ^ 60 - wrap (v1 * d40)))) 47).
Definition recip_v3 (d : Z) : Z :=
  let d0 := Z.land d 1 in
  let d63 := shr64 (wrap (d + 1)) 1 in
  let v2 := recip_v2 d in
  let e := wrap (Z.land (shr64 v2 1) (wrap (0 - d0)) - wrap (v2 * d63)) in
  wrap (shr64 (mul_hi v2 e) 1 + shl64 v2 31).
Definition recip_v4 (d : Z) : Z :=
  let v3 := recip_v3 d in
  wrap (wrap (v3 - muladd_hi v3 d d) - d).

Definition reciprocal_mg10 (d : Z) : outcome Z :=
  if d <? 2 ^ 63 then DebugPanic                 (* debug_assert!(d >= (1 << 63)) *)
  else Val (recip_v4 d).

(* reciprocal_2_mg10(d: u128) *)
Definition recip2_body (d v : Z) : Z :=
  let d1 := hi128 d in
  let d0 := lo128 d in
  let p := wrap (wrap (d1 * v) + d0) in
  let '(v, p) :=
    if p <? d0 then
      let v := wrap (v - 1) in
      let '(v, p) := if d1 <=? p then (wrap (v - 1), wrap (p - d1)) else (v, p) in
      (v, wrap (p - d1))
    else (v, p) in
  let t := v * d0 in
  let t1 := hi128 t in
  let t0 := lo128 t in
  let p := wrap (p + t1) in
  if p <? t1 then
    let v := wrap (v - 1) in
    if d <=? join p t0 then wrap (v - 1) else v
  else v.

Definition reciprocal_2_mg10 (d : Z) : outcome Z :=
  if d <? 2 ^ 127 then DebugPanic               (* debug_assert!(d >= (1 << 127)) *)
  else
    do v <- reciprocal_mg10 (hi128 d) ;
    Val (recip2_body d v).
