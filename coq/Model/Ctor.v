(* Model/Ctor.v — property C04 part (d): the public constants and constructors of
   `Uint<BITS, LIMBS>` (and of the `Bits` wrapper, and the generator impls) at an arbitrary pair
   (BITS, LIMBS), well-formed or not.

   `Uint::LIMBS` is `{ let limbs = nlimbs(BITS); assert!(LIMBS == limbs, ..); limbs }`: evaluating it
   at an ill-formed pair is a compile error.  rustc evaluates every constant a monomorphised body
   mentions (also in dead branches, also inside const evaluation of another constant), so a
   constructor is rejected at compile time iff its body, transitively through the constants and
   functions it uses at the same type, mentions `Self::LIMBS`.  That "mentions" relation is not
   written here: it is the table Model/CtorTable.v, regenerated from the source on every run.
   A constructor that does not mention it but checks `LIMBS == nlimbs(BITS)` at run time panics;
   one that does neither yields a value.

   The outcome is observed as: CompileError, Panic, or Val [TSome] ("a value was obtained").
   `args` selects among the argument variants of the probe programs; at an ill-formed pair the
   outcome does not depend on it. *)
From RV.Model Require Import Base.

Inductive ctor : Type :=
| C_ZERO
| C_ONE
| C_MIN
| C_MAX
| C_default
| C_from_limbs
| C_from_limbs_slice
| C_checked_from_limbs_slice
| C_wrapping_from_limbs_slice
| C_overflowing_from_limbs_slice
| C_saturating_from_limbs_slice
| C_from
| C_saturating_from
| C_wrapping_from
| C_try_from_u64
| C_try_from_u128
| C_try_from_uint_prim
| C_try_from_int_prim
| C_try_from_f64
| C_try_from_f32
| C_from_uint
| C_checked_from_uint
| C_uint_try_from_uint
| C_uint_try_to_uint
| C_try_from_be_slice
| C_try_from_le_slice
| C_from_be_slice
| C_from_le_slice
| C_from_be_bytes
| C_from_le_bytes
| C_from_base_le
| C_from_base_be
| C_from_str_radix
| C_from_str
| C_sum
| C_product
| C_widening_mul
| C_approx_pow2
| C_Bits_ZERO
| C_Bits_default
| C_Bits_from_limbs
| C_Bits_from_str
| C_Bits_from_str_radix
| C_Bits_try_from_be_slice
| C_Bits_from_le_bytes
| C_rand08_sample
| C_rand09_random_with
| C_rand09_random
| C_rand09_sample
| C_arbitrary
| C_proptest
| C_bytemuck_zeroed
| C_quickcheck.

Definition ctor_of_code (k : Z) : option ctor :=
  match k with
  | 0 => Some C_ZERO
  | 1 => Some C_ONE
  | 2 => Some C_MIN
  | 3 => Some C_MAX
  | 4 => Some C_default
  | 5 => Some C_from_limbs
  | 6 => Some C_from_limbs_slice
  | 7 => Some C_checked_from_limbs_slice
  | 8 => Some C_wrapping_from_limbs_slice
  | 9 => Some C_overflowing_from_limbs_slice
  | 10 => Some C_saturating_from_limbs_slice
  | 11 => Some C_from
  | 12 => Some C_saturating_from
  | 13 => Some C_wrapping_from
  | 14 => Some C_try_from_u64
  | 15 => Some C_try_from_u128
  | 16 => Some C_try_from_uint_prim
  | 17 => Some C_try_from_int_prim
  | 18 => Some C_try_from_f64
  | 19 => Some C_try_from_f32
  | 20 => Some C_from_uint
  | 21 => Some C_checked_from_uint
  | 22 => Some C_uint_try_from_uint
  | 23 => Some C_uint_try_to_uint
  | 24 => Some C_try_from_be_slice
  | 25 => Some C_try_from_le_slice
  | 26 => Some C_from_be_slice
  | 27 => Some C_from_le_slice
  | 28 => Some C_from_be_bytes
  | 29 => Some C_from_le_bytes
  | 30 => Some C_from_base_le
  | 31 => Some C_from_base_be
  | 32 => Some C_from_str_radix
  | 33 => Some C_from_str
  | 34 => Some C_sum
  | 35 => Some C_product
  | 36 => Some C_widening_mul
  | 37 => Some C_approx_pow2
  | 38 => Some C_Bits_ZERO
  | 39 => Some C_Bits_default
  | 40 => Some C_Bits_from_limbs
  | 41 => Some C_Bits_from_str
  | 42 => Some C_Bits_from_str_radix
  | 43 => Some C_Bits_try_from_be_slice
  | 44 => Some C_Bits_from_le_bytes
  | 45 => Some C_rand08_sample
  | 46 => Some C_rand09_random_with
  | 47 => Some C_rand09_random
  | 48 => Some C_rand09_sample
  | 49 => Some C_arbitrary
  | 50 => Some C_proptest
  | 51 => Some C_bytemuck_zeroed
  | 52 => Some C_quickcheck
  | _ => None
  end.

Definition ill_formed (bits limbs : Z) : Prop := limbs <> nlimbs bits.

Definition ctor_outcome (mentions runtime_check : ctor -> bool)
           (c : ctor) (bits limbs args : Z) : outcome (list tok) :=
  if limbs =? nlimbs bits then Val [TSome]        (* well-formed pair, benign arguments *)
  else if mentions c then CompileError
  else if runtime_check c then Panic
  else Val [TSome].
