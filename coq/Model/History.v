(* Model/History.v — property C04 part (a): an interpreter of operation histories over a register
   file of `Uint<BITS, LIMBS>` values (harness/src/bin/c04a.rs), built from the models of the
   individual operations (Model/{Add,Shift,Bits,Conv,Bytes,BaseConv,Str,Float,Gen}.v).

   A program is a flat word list; every instruction is
       opcode, dst, src1, src2, src3, n, imm_1 .. imm_n
   The three source registers are always read (a, b, c), the operation produces a new value for
   register dst (or leaves it unchanged: `None`, `Err` without payload) and a status word
   (overflow flag, Some/None, error kind) that is appended to the status log.
   A panic of any step is the panic of the whole run.

   OPAQUE OPERATION: for the opcode in `opaque_ops` (root) `sem` is the specification function of
   Model/Opaque.v applied to the value of the operand (it does not describe the crate's code:
   Model/Root.v needs the floating-point estimate of approx_pow2 as an observed input).  mul, div, rem, gcd, add_mod,
   mul_mod, pow_mod and mul_redc are the models of Model/{Mul,UDiv,Gcd,Modular,Redc}.v. *)
From RV.Model Require Import Base Word Opaque.
From RV.Model Require Add Shift Bits Conv Bytes BaseConv Str Float Gen Mul UDiv Gcd Modular Redc Pow.

Inductive opcode : Type :=
(* add.rs *)
| OvAdd | OvSub | OvNeg | ChAdd | ChSub | ChNeg | SatAdd | SatSub | WrAdd | WrSub | WrNeg | AbsDiff
(* bits.rs: shifts and rotations; amount = imm_1 (usize) or register b *)
| OvShl | OvShr | ChShl | ChShr | SatShl | WrShl | WrShr | AShr | RotL | RotR | ShlUint | ShrUint
(* bits.rs / special.rs *)
| BitAnd | BitOr | BitXor | BitNot | SetBit | RevBits | Npot | CNpot
(* from.rs / lib.rs: conversions from u64 (imm_1), u128 (imm_1 + 2^64 imm_2), limb slices (imm) *)
| TryFromU64 | FromU64 | WrapFromU64 | SatFromU64
| TryFromU128 | FromU128 | WrapFromU128 | SatFromU128
| FromLimbsSlice | ChFromLimbsSlice | WrFromLimbsSlice | OvFromLimbsSlice | SatFromLimbsSlice
| FromLimbs
(* bytes.rs: decoders (imm = bytes) and re-encoding of register a *)
| TryFromBe | TryFromLe | FromBe | FromLe | ReLe | ReBe | ReLeTrim | ReBeTrim
(* base_convert.rs / string.rs: base = imm_1, digits / chars = imm_2.. *)
| FromBaseBe | FromBaseLe | FromStrRadix | ReBase
(* from.rs, floats: imm_1 = bit pattern *)
| TryFromF64 | WrapFromF64 | SatFromF64 | TryFromF32 | WrapFromF32 | SatFromF32
(* constants *)
| CZero | COne | CMin | CMax | Mov
(* mul.rs, div.rs, gcd.rs, modular.rs; pow.rs and root.rs (opaque) *)
| WrMul | WrDiv | WrRem | WrPow | Gcd | AddMod | MulMod | PowMod | Root | MulRedc
(* the remaining Uint-returning methods of mul.rs, div.rs, special.rs, gcd.rs, modular.rs, pow.rs *)
| InvRing | ChMul | SatMul | OvMul | DivCeil | ChDiv | ChRem | NextMul | ChNextMul
| InvMod | Lcm | GcdExt | ReduceMod | SquareRedc | ChPow | SatPow | OvPow.

Definition opaque_ops : list opcode := [Root].

Definition opcode_of (k : Z) : option opcode :=
  match k with
  | 1 => Some OvAdd | 2 => Some OvSub | 3 => Some OvNeg | 4 => Some ChAdd | 5 => Some ChSub
  | 6 => Some ChNeg | 7 => Some SatAdd | 8 => Some SatSub | 9 => Some WrAdd | 10 => Some WrSub
  | 11 => Some WrNeg | 12 => Some AbsDiff
  | 20 => Some OvShl | 21 => Some OvShr | 22 => Some ChShl | 23 => Some ChShr | 24 => Some SatShl
  | 25 => Some WrShl | 26 => Some WrShr | 27 => Some AShr | 28 => Some RotL | 29 => Some RotR
  | 30 => Some ShlUint | 31 => Some ShrUint
  | 40 => Some BitAnd | 41 => Some BitOr | 42 => Some BitXor | 43 => Some BitNot | 44 => Some SetBit
  | 45 => Some RevBits | 46 => Some Npot | 47 => Some CNpot
  | 50 => Some TryFromU64 | 51 => Some FromU64 | 52 => Some WrapFromU64 | 53 => Some SatFromU64
  | 54 => Some TryFromU128 | 55 => Some FromU128 | 56 => Some WrapFromU128 | 57 => Some SatFromU128
  | 58 => Some FromLimbsSlice | 59 => Some ChFromLimbsSlice | 60 => Some WrFromLimbsSlice
  | 61 => Some OvFromLimbsSlice | 62 => Some SatFromLimbsSlice | 63 => Some FromLimbs
  | 70 => Some TryFromBe | 71 => Some TryFromLe | 72 => Some FromBe | 73 => Some FromLe
  | 74 => Some ReLe | 75 => Some ReBe | 76 => Some ReLeTrim | 77 => Some ReBeTrim
  | 80 => Some FromBaseBe | 81 => Some FromBaseLe | 82 => Some FromStrRadix | 83 => Some ReBase
  | 90 => Some TryFromF64 | 91 => Some WrapFromF64 | 92 => Some SatFromF64
  | 93 => Some TryFromF32 | 94 => Some WrapFromF32 | 95 => Some SatFromF32
  | 100 => Some CZero | 101 => Some COne | 102 => Some CMin | 103 => Some CMax | 104 => Some Mov
  | 110 => Some WrMul | 111 => Some WrDiv | 112 => Some WrRem | 113 => Some WrPow | 114 => Some Gcd
  | 115 => Some AddMod | 116 => Some MulMod | 117 => Some PowMod | 118 => Some Root
  | 119 => Some MulRedc
  | 120 => Some InvRing | 121 => Some ChMul | 122 => Some SatMul | 123 => Some OvMul
  | 124 => Some DivCeil | 125 => Some ChDiv | 126 => Some ChRem | 127 => Some NextMul
  | 128 => Some ChNextMul | 129 => Some InvMod | 130 => Some Lcm | 131 => Some GcdExt
  | 132 => Some ReduceMod | 133 => Some SquareRedc | 134 => Some ChPow | 135 => Some SatPow
  | 136 => Some OvPow
  | _ => None
  end.

(* result of one operation: new value of dst (None: unchanged) and the status word *)
Definition sres := outcome (option (list Z) * Z).
Definition wr (v : list Z) : sres := Val (Some v, 0).
Definition wrf (p : list Z * bool) : sres := Val (Some (fst p), b2z (snd p)).
Definition wro (o : option (list Z)) : sres :=
  match o with Some v => Val (Some v, 1) | None => Val (None, 0) end.
(* Result<Uint, ToUintError>: the payload of the error is a Uint too and is written *)
Definition wr_to_res (r : Conv.to_res) : sres :=
  match r with
  | Conv.ROk n => Val (Some n, 0)
  | Conv.RTooLarge _ w => Val (Some w, 1)
  | Conv.RNegative _ w => Val (Some w, 2)
  end.
Definition wr_float_res (r : Float.to_uint_result) : sres :=
  match r with
  | Float.TOk n => Val (Some n, 0)
  | Float.ValueTooLarge _ w => Val (Some w, 1)
  | Float.ValueNegative _ w => Val (Some w, 2)
  | Float.NotANumber _ => Val (None, 3)
  end.
Definition wr_base_res {E} (r : BaseConv.res E (list Z)) : sres :=
  match r with BaseConv.Ok v => Val (Some v, 0) | BaseConv.Err _ => Val (None, 1) end.
(* the opaque operations: the specification value, as the canonical limbs *)
Definition lift (bits : Z) (z : zres) : sres :=
  do p <- z ; Val (option_map (uint_of bits) (fst p), snd p).

Definition imm1 (imm : list Z) : Z := nth 0 imm 0.
Definition imm2 (imm : list Z) : Z := nth 1 imm 0.
Definition isbyteb (b : Z) : bool := (0 <=? b) && (b <? 256).
(* char::from_u32 succeeds *)
Definition ischarb (c : Z) : bool := ((0 <=? c) && (c <? 55296)) || ((57344 <=? c) && (c <? 1114112)).

Definition sem (o : opcode) (bits : Z) (a b c imm : list Z) : sres :=
  let s := imm1 imm in
  let u128 := imm1 imm + B * imm2 imm in
  match o with
  | OvAdd => wrf (Add.overflowing_add bits a b)
  | OvSub => wrf (Add.overflowing_sub bits a b)
  | OvNeg => wrf (Add.overflowing_neg bits a)
  | ChAdd => wro (Add.checked_add bits a b)
  | ChSub => wro (Add.checked_sub bits a b)
  | ChNeg => wro (Add.checked_neg bits a)
  | SatAdd => wr (Add.saturating_add bits a b)
  | SatSub => wr (Add.saturating_sub bits a b)
  | WrAdd => wr (Add.wrapping_add bits a b)
  | WrSub => wr (Add.wrapping_sub bits a b)
  | WrNeg => wr (Add.wrapping_neg bits a)
  | AbsDiff => wr (Add.abs_diff bits a b)
  | OvShl => wrf (Shift.overflowing_shl bits a s)
  | OvShr => wrf (Shift.overflowing_shr bits a s)
  | ChShl => wro (Shift.checked_shl bits a s)
  | ChShr => wro (Shift.checked_shr bits a s)
  | SatShl => wr (Shift.saturating_shl bits a s)
  | WrShl => wr (Shift.wrapping_shl bits a s)
  | WrShr => wr (Shift.wrapping_shr bits a s)
  | AShr => wr (Shift.arithmetic_shr bits a s)
  | RotL => wr (Shift.rotate_left bits a s)
  | RotR => wr (Shift.rotate_right bits a s)
  | ShlUint => wr (Shift.shl_uint bits a b)
  | ShrUint => wr (Shift.shr_uint bits a b)
  | BitAnd => do r <- Bits.bit_op Z.land 0 a b ; wr r
  | BitOr => do r <- Bits.bit_op Z.lor 0 a b ; wr r
  | BitXor => do r <- Bits.bit_op Z.lxor 0 a b ; wr r
  | BitNot => wr (Bits.unot bits a)
  | SetBit => do r <- Bits.set_bit bits a s (negb (imm2 imm =? 0)) ; wr r
  | RevBits => wr (Bits.reverse_bits bits a)
  | Npot => do r <- Bits.next_power_of_two bits a ; wr r
  | CNpot => do r <- Bits.checked_next_power_of_two bits a ; wro r
  | TryFromU64 => do r <- Conv.try_from_u64 bits s ; wr_to_res r
  | FromU64 => do r <- Conv.from_of (Conv.try_from_u64 bits s) ; wr r
  | WrapFromU64 => do r <- Conv.wrapping_from_of (Conv.try_from_u64 bits s) ; wr r
  | SatFromU64 => do r <- Conv.saturating_from_of bits (Conv.try_from_u64 bits s) ; wr r
  | TryFromU128 => do r <- Conv.try_from_u128 bits u128 ; wr_to_res r
  | FromU128 => do r <- Conv.from_of (Conv.try_from_u128 bits u128) ; wr r
  | WrapFromU128 => do r <- Conv.wrapping_from_of (Conv.try_from_u128 bits u128) ; wr r
  | SatFromU128 => do r <- Conv.saturating_from_of bits (Conv.try_from_u128 bits u128) ; wr r
  | FromLimbsSlice => do r <- Conv.from_limbs_slice bits imm ; wr r
  | ChFromLimbsSlice => do r <- Conv.checked_from_limbs_slice bits imm ; wro r
  | WrFromLimbsSlice => do r <- Conv.wrapping_from_limbs_slice bits imm ; wr r
  | OvFromLimbsSlice => do r <- Conv.overflowing_from_limbs_slice bits imm ; wrf r
  | SatFromLimbsSlice => do r <- Conv.saturating_from_limbs_slice bits imm ; wr r
  | FromLimbs =>
      (* the harness converts imm to [u64; LIMBS] first (panics on a length mismatch) *)
      if Nat.eqb (length imm) (nlimbsN bits) then do r <- Conv.from_limbs bits imm ; wr r else Panic
  | TryFromBe =>
      if forallb isbyteb imm then do r <- Bytes.try_from_be_slice bits imm ; wro r else Panic
  | TryFromLe =>
      if forallb isbyteb imm then do r <- Bytes.try_from_le_slice bits imm ; wro r else Panic
  | FromBe => if forallb isbyteb imm then do r <- Bytes.from_be_slice bits imm ; wr r else Panic
  | FromLe => if forallb isbyteb imm then do r <- Bytes.from_le_slice bits imm ; wr r else Panic
  | ReLe => do r <- Bytes.from_le_slice bits (Bytes.to_le_bytes_vec bits a) ; wr r
  | ReBe => do r <- Bytes.from_be_slice bits (Bytes.to_be_bytes_vec bits a) ; wr r
  | ReLeTrim =>
      do e <- Bytes.to_le_bytes_trimmed_vec bits a ; do r <- Bytes.from_le_slice bits e ; wr r
  | ReBeTrim =>
      do e <- Bytes.to_be_bytes_trimmed_vec bits a ; do r <- Bytes.from_be_slice bits e ; wr r
  | FromBaseBe => do r <- BaseConv.from_base_be bits s (tl imm) ; wr_base_res r
  | FromBaseLe => do r <- BaseConv.from_base_le bits s (tl imm) ; wr_base_res r
  | FromStrRadix =>
      if forallb ischarb (tl imm) then
        do r <- Str.from_str_radix bits (tl imm) s ; wr_base_res r
      else Panic
  | ReBase =>
      (* Uint::from_base_be(base, a.to_base_be(base)).unwrap() *)
      do ds <- BaseConv.to_base_be a s ;
      do r <- BaseConv.from_base_be bits s ds ;
      match r with BaseConv.Ok v => wr v | BaseConv.Err _ => Panic end
  | TryFromF64 => do r <- Float.uint_try_from_f64 bits s ; wr_float_res r
  | WrapFromF64 => do r <- Float.wrapping_from bits (Float.uint_try_from_f64 bits s) ; wr r
  | SatFromF64 => do r <- Float.saturating_from bits (Float.uint_try_from_f64 bits s) ; wr r
  | TryFromF32 =>
      if s <? 2 ^ 32 then do r <- Float.uint_try_from_f32 bits s ; wr_float_res r else Panic
  | WrapFromF32 =>
      if s <? 2 ^ 32 then do r <- Float.wrapping_from bits (Float.uint_try_from_f32 bits s) ; wr r
      else Panic
  | SatFromF32 =>
      if s <? 2 ^ 32 then do r <- Float.saturating_from bits (Float.uint_try_from_f32 bits s) ; wr r
      else Panic
  | CZero => do r <- Gen.cZERO bits ; wr r
  | COne => do r <- Gen.cONE bits ; wr r
  | CMin => do r <- Gen.cMIN bits ; wr r
  | CMax => wr (Gen.cMAX bits)
  | Mov => wr a
  (* ---- mul.rs, div.rs, gcd.rs, modular.rs ---- *)
  | WrMul => do r <- Mul.wrapping_mul bits a b ; wr r
  | WrDiv => do r <- UDiv.wrapping_div a b ; wr r
  | WrRem => do r <- UDiv.wrapping_rem a b ; wr r
  | Gcd => do r <- Gcd.gcd bits a b ; wr r
  | AddMod => do r <- Modular.add_mod bits a b c ; wr r
  | MulMod => do r <- Modular.mul_mod bits a b c ; wr r
  | PowMod => do r <- Modular.pow_mod bits a b c ; wr r
  | MulRedc => do r <- Redc.uint_mul_redc bits a b c s ; wr r
  | WrPow => do r <- Pow.wrapping_pow bits a b ; wr r
  | InvRing => do r <- Mul.inv_ring bits a ; wro r
  | ChMul => wro (Mul.checked_mul bits a b)
  | SatMul => wr (Mul.saturating_mul bits a b)
  | OvMul => wrf (Mul.overflowing_mul bits a b)
  | DivCeil => do r <- UDiv.div_ceil bits a b ; wr r
  | ChDiv => do r <- UDiv.checked_div bits a b ; wro r
  | ChRem => do r <- UDiv.checked_rem bits a b ; wro r
  | NextMul => do r <- UDiv.next_multiple_of bits a b ; wr r
  | ChNextMul => do r <- UDiv.checked_next_multiple_of bits a b ; wro r
  | InvMod => do r <- Gcd.inv_mod bits a b ; wro r
  | Lcm => do r <- Gcd.lcm bits a b ; wro r
  | GcdExt =>
      (* (gcd, x, y, sign) = a.gcd_extended(b): dst = gcd; the status word is 1 when one of the
         cofactors has a bit above BITS (their values are fixed by the property only modulo 2^BITS) *)
      do r <- Gcd.gcd_extended bits a b ;
      let '(g, x, y, _) := r in
      Val (Some g, b2z (negb (canonb bits x && canonb bits y)))
  | ReduceMod => do r <- Modular.reduce_mod bits a b ; wr r
  | SquareRedc => do r <- Redc.uint_square_redc bits a c s ; wr r
  | ChPow => do r <- Pow.checked_pow bits a b ; wro r
  | SatPow => do r <- Pow.saturating_pow bits a b ; wr r
  | OvPow => do r <- Pow.overflowing_pow bits a b ; wrf r
  (* ---- opaque: specification function of Model/Opaque.v ---- *)
  | Root => lift bits (z_root bits (eval a) s)
  end.

(* ---------- instructions, decoding ---------- *)
Record instr := { i_op : Z; i_dst : Z; i_s1 : Z; i_s2 : Z; i_s3 : Z; i_imm : list Z }.

Fixpoint decode (fuel : nat) (ws : list Z) : option (list instr) :=
  match ws with
  | [] => Some []
  | o :: d :: x :: y :: z :: n :: rest =>
      match fuel with
      | O => None
      | S f =>
          if (n <? 0) || (lenZ rest <? n) then None
          else
            match decode f (skipn (Z.to_nat n) rest) with
            | Some is =>
                Some ({| i_op := o; i_dst := d; i_s1 := x; i_s2 := y; i_s3 := z;
                         i_imm := firstn (Z.to_nat n) rest |} :: is)
            | None => None
            end
      end
  | _ => None
  end.

(* ---------- the register file ---------- *)
Definition state := (list (list Z) * list Z)%type.     (* registers, status log *)

Definition get_reg (regs : list (list Z)) (i : Z) : outcome (list Z) :=
  if (i <? 0) || (lenZ regs <=? i) then Panic
  else match nth_error regs (Z.to_nat i) with Some r => Val r | None => Panic end.
Fixpoint set_nth_reg (regs : list (list Z)) (n : nat) (v : list Z) : list (list Z) :=
  match regs, n with
  | [], _ => []
  | _ :: t, O => v :: t
  | x :: t, S n' => x :: set_nth_reg t n' v
  end.

Definition step (bits : Z) (st : state) (i : instr) : outcome state :=
  let '(regs, log) := st in
  match opcode_of (i_op i) with
  | None => Panic
  | Some o =>
      do a <- get_reg regs (i_s1 i) ;
      do b <- get_reg regs (i_s2 i) ;
      do c <- get_reg regs (i_s3 i) ;
      do _ <- get_reg regs (i_dst i) ;
      do r <- sem o bits a b c (i_imm i) ;
      Val (match fst r with
           | Some v => set_nth_reg regs (Z.to_nat (i_dst i)) v
           | None => regs
           end, log ++ [snd r])
  end.

Fixpoint run_instrs (bits : Z) (st : state) (is : list instr) : outcome state :=
  match is with
  | [] => Val st
  | i :: t => do st' <- step bits st i ; run_instrs bits st' t
  end.

Definition run_history (bits : Z) (regs : list (list Z)) (prog : list Z) : outcome state :=
  match decode (length prog) prog with
  | Some is => run_instrs bits (regs, []) is
  | None => Panic
  end.
