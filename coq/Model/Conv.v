(* Model/Conv.v — src/from.rs (integer conversions) and the limb-slice constructors of
   src/lib.rs, line for line.  bit_len / leading_zeros / bit (src/bits.rs) are local faithful
   copies because the to-primitive conversions call them.  Definitions only. *)
From RV.Model Require Import Base Word.

(* ---------- primitive integer types: (width, signed) ---------- *)
Record prim := { pw : Z; psigned : bool }.
(* type codes used by the harness: 0 bool, 1 u8, 2 u16, 3 u32, 4 u64, 5 u128, 6 usize,
   7 i8, 8 i16, 9 i32, 10 i64, 11 i128, 12 isize (usize = u64, 64-bit target).
   bool is (1, unsigned): `true as u64 = 1`. *)
Definition prim_of_code (ty : Z) : option prim :=
  match ty with
  | 0 => Some {| pw := 1; psigned := false |}
  | 1 => Some {| pw := 8; psigned := false |}
  | 2 => Some {| pw := 16; psigned := false |}
  | 3 => Some {| pw := 32; psigned := false |}
  | 4 => Some {| pw := 64; psigned := false |}
  | 5 => Some {| pw := 128; psigned := false |}
  | 6 => Some {| pw := 64; psigned := false |}
  | 7 => Some {| pw := 8; psigned := true |}
  | 8 => Some {| pw := 16; psigned := true |}
  | 9 => Some {| pw := 32; psigned := true |}
  | 10 => Some {| pw := 64; psigned := true |}
  | 11 => Some {| pw := 128; psigned := true |}
  | 12 => Some {| pw := 64; psigned := true |}
  | _ => None
  end.
Definition prim_min (p : prim) : Z := if psigned p then - 2 ^ (pw p - 1) else 0.
Definition prim_max (p : prim) : Z := if psigned p then 2 ^ (pw p - 1) - 1 else 2 ^ pw p - 1.
(* `x as T` for an integer x: reduce mod 2^w, read in two's complement when signed *)
Definition cast (p : prim) (x : Z) : Z :=
  let r := modp2 x (pw p) in
  if psigned p && (2 ^ (pw p - 1) <=? r) then r - 2 ^ pw p else r.

(* ---------- error enums ---------- *)
Inductive to_res : Type :=       (* Result<Uint, ToUintError<Uint>> *)
| ROk (n : list Z)
| RTooLarge (bits : Z) (n : list Z)
| RNegative (bits : Z) (n : list Z).
Inductive from_res (T : Type) : Type :=   (* Result<T, FromUintError<T>> *)
| FOk (v : T)
| FOverflow (bits : Z) (wrapped max : T).
Arguments FOk {T} v.
Arguments FOverflow {T} bits wrapped max.

(* ---------- src/lib.rs ---------- *)
(* Uint::from_limbs: assert!(limbs[LIMBS - 1] <= MASK) when SHOULD_MASK *)
Definition from_limbs (bits : Z) (l : list Z) : outcome (list Z) :=
  if should_mask bits then
    match nth_error l (Z.to_nat (nlimbs bits - 1)) with
    | Some x => if x <=? mask bits then Val l else Panic
    | None => Panic
    end
  else Val l.

(* limbs[i] = v *)
Fixpoint set_nth (l : list Z) (i : nat) (v : Z) : outcome (list Z) :=
  match l, i with
  | [], _ => Panic
  | _ :: t, O => Val (v :: t)
  | x :: t, S i' => do t' <- set_nth t i' v; Val (x :: t')
  end.
Definition get_nth (l : list Z) (i : nat) : outcome Z :=
  match nth_error l i with Some x => Val x | None => Panic end.

Definition overflowing_from_limbs_slice (bits : Z) (slice : list Z) : outcome (list Z * bool) :=
  let L := nlimbsN bits in
  if Nat.ltb (length slice) L then
    (* limbs[..slice.len()].copy_from_slice(slice) *)
    let limbs := slice ++ repeat 0 (L - length slice) in
    do n <- from_limbs bits limbs; Val (n, false)
  else
    let head := firstn L slice in
    let tail := skipn L slice in
    let limbs := head in
    let overflow := existsb (fun limb => negb (limb =? 0)) tail in
    if Nat.ltb 0 L then
      do top <- get_nth limbs (L - 1);
      let overflow := overflow || (mask bits <? top) in
      do limbs <- set_nth limbs (L - 1) (Z.land top (mask bits));
      do n <- from_limbs bits limbs; Val (n, overflow)
    else
      do n <- from_limbs bits limbs; Val (n, overflow).

Definition from_limbs_slice bits slice : outcome (list Z) :=
  do p <- overflowing_from_limbs_slice bits slice;
  match p with (n, false) => Val n | (_, true) => Panic end.
Definition checked_from_limbs_slice bits slice : outcome (option (list Z)) :=
  do p <- overflowing_from_limbs_slice bits slice;
  match p with (n, false) => Val (Some n) | (_, true) => Val None end.
Definition wrapping_from_limbs_slice bits slice : outcome (list Z) :=
  do p <- overflowing_from_limbs_slice bits slice; Val (fst p).
Definition saturating_from_limbs_slice bits slice : outcome (list Z) :=
  do p <- overflowing_from_limbs_slice bits slice;
  match p with (n, false) => Val n | (_, true) => Val (uMAX bits) end.

(* ---------- src/bits.rs (local copies) ---------- *)
(* leading_zeros: scan from the top limb; rl = limbs reversed, n = LIMBS - 1 - i *)
Fixpoint lz_loop (bits : Z) (rl : list Z) (n : Z) : outcome Z :=
  match rl with
  | [] => Val bits
  | x :: t =>
      if x =? 0 then lz_loop bits t (n + 1)
      else
        let skipped := n * 64 in
        let fixed := clz64 (mask bits) in
        let top := clz64 x in
        if skipped + top <? fixed then DebugPanic else Val (skipped + top - fixed)
  end.
Definition leading_zeros (bits : Z) (l : list Z) : outcome Z := lz_loop bits (rev l) 0.
Definition bit_len (bits : Z) (l : list Z) : outcome Z :=
  do z <- leading_zeros bits l;
  if bits <? z then DebugPanic else Val (bits - z).
Definition bit (bits : Z) (l : list Z) (index : Z) : outcome bool :=
  if bits <=? index then Val false
  else do x <- get_nth l (Z.to_nat (index / 64)); Val (Z.testbit x (index mod 64)).

(* ---------- src/from.rs: primitive -> Uint ---------- *)
(* impl TryFrom<u64> *)
Definition try_from_u64 (bits : Z) (value : Z) : outcome to_res :=
  let L := nlimbs bits in
  let tail :=
    do limbs <- set_nth (zero_limbs (nlimbsN bits)) 0 value;
    do n <- from_limbs bits limbs; Val (ROk n) in
  if L <=? 1 then
    if mask bits <? value then
      let limbs := zero_limbs (nlimbsN bits) in
      do limbs <- (if L =? 1 then set_nth limbs 0 (Z.land value (mask bits)) else Val limbs);
      do n <- from_limbs bits limbs; Val (RTooLarge bits n)
    else if L =? 0 then Val (ROk (uZERO bits))
    else tail
  else tail.

(* impl TryFrom<u128> *)
Definition try_from_u128 (bits : Z) (value : Z) : outcome to_res :=
  if value <=? B - 1 then try_from_u64 bits (value mod B)
  else if nlimbs bits <? 2 then
    do r <- try_from_u64 bits (value mod B);
    match r with
    | ROk n => Val (RTooLarge bits n)      (* .and_then(|n| Err(ValueTooLarge(BITS, n))) *)
    | e => Val e
    end
  else
    let limbs := zero_limbs (nlimbsN bits) in
    do limbs <- set_nth limbs 0 (value mod B);
    do limbs <- set_nth limbs 1 ((value / B) mod B);
    do l1 <- get_nth limbs 1;
    if (nlimbs bits =? 2) && (mask bits <? l1) then
      do limbs <- set_nth limbs 1 (Z.land l1 (mask bits));
      do n <- from_limbs bits limbs; Val (RTooLarge bits n)
    else
      do n <- from_limbs bits limbs; Val (ROk n).

(* impl_from_unsigned_int!: Self::try_from(value as u64); u64 and u128 are the base cases *)
Definition try_from_unsigned (bits w : Z) (value : Z) : outcome to_res :=
  if w =? 128 then try_from_u128 bits value else try_from_u64 bits (value mod B).

(* impl_from_signed_int!($int, $uint) *)
Definition try_from_prim (bits : Z) (p : prim) (value : Z) : outcome to_res :=
  if psigned p then
    if value <? 0 then
      do r <- try_from_unsigned bits (pw p) (modp2 value (pw p));   (* value as $uint *)
      match r with
      | ROk n | RTooLarge _ n => Val (RNegative bits n)
      | _ => Panic                                                   (* unreachable!() *)
      end
    else try_from_unsigned bits (pw p) (modp2 value (pw p))
  else try_from_unsigned bits (pw p) value.

(* UintTryFrom<Uint<BITS_SRC, LIMBS_SRC>> *)
Definition uint_try_from_uint (bits : Z) (src : list Z) : outcome to_res :=
  do p <- overflowing_from_limbs_slice bits src;
  let '(n, overflow) := p in
  if overflow then Val (RTooLarge bits n) else Val (ROk n).

(* Uint::from / saturating_from / wrapping_from over any uint_try_from result *)
Definition from_of (r : outcome to_res) : outcome (list Z) :=
  do r <- r; match r with ROk n => Val n | _ => Panic end.
Definition saturating_from_of (bits : Z) (r : outcome to_res) : outcome (list Z) :=
  do r <- r;
  match r with
  | ROk n => Val n
  | RTooLarge _ _ => Val (uMAX bits)
  | RNegative _ _ => Val (uZERO bits)
  end.
Definition wrapping_from_of (r : outcome to_res) : outcome (list Z) :=
  do r <- r; match r with ROk n | RTooLarge _ n | RNegative _ n => Val n end.

(* from_uint / checked_from_uint (deprecated) *)
Definition from_uint bits src := from_limbs_slice bits src.
Definition checked_from_uint bits src := checked_from_limbs_slice bits src.

(* ---------- src/from.rs: Uint -> primitive ---------- *)
(* TryFrom<&Uint> for bool *)
Definition try_to_bool (bits : Z) (l : list Z) : outcome (from_res bool) :=
  if bits =? 0 then Val (FOk false)
  else
    do bl <- bit_len bits l;
    if 1 <? bl then do b0 <- bit bits l 0; Val (FOverflow bits b0 true)
    else do l0 <- get_nth l 0; Val (FOk (negb (l0 =? 0))).

(* to_int!($int) *)
Definition try_to_int (bits : Z) (p : prim) (l : list Z) : outcome (from_res Z) :=
  let capacity := if psigned p then pw p - 1 else pw p in
  if bits =? 0 then Val (FOk 0)
  else
    do bl <- bit_len bits l;
    if capacity <? bl then
      do l0 <- get_nth l 0; Val (FOverflow bits (cast p l0) (prim_max p))
    else do l0 <- get_nth l 0; Val (FOk (cast p l0)).

(* TryFrom<&Uint> for i128 / u128 *)
Definition try_to_128 (bits : Z) (p : prim) (l : list Z) : outcome (from_res Z) :=
  if bits =? 0 then Val (FOk 0)
  else
    do l0 <- get_nth l 0;
    let result := cast p l0 in
    if bits <=? 64 then Val (FOk result)
    else
      do l1 <- get_nth l 1;
      (* result |= (limbs[1] as T) << 64  (the shift wraps silently) *)
      let result := Z.lor result (cast p (cast p l1 * 2 ^ 64)) in
      do bl <- bit_len bits l;
      if (if psigned p then 127 else 128) <? bl then Val (FOverflow bits result (prim_max p))
      else Val (FOk result).

Definition try_to_prim (bits : Z) (p : prim) (l : list Z) : outcome (from_res Z) :=
  if pw p =? 128 then try_to_128 bits p l else try_to_int bits p l.

(* UintTryTo<Uint<BITS_DST, LIMBS_DST>> *)
Definition uint_try_to_uint (dbits : Z) (l : list Z) : outcome (from_res (list Z)) :=
  do p <- overflowing_from_limbs_slice dbits l;
  let '(n, overflow) := p in
  if overflow then Val (FOverflow dbits n (uMAX dbits)) else Val (FOk n).

(* to (expect), wrapping_to, saturating_to *)
Definition to_of {T} (r : outcome (from_res T)) : outcome T :=
  do r <- r; match r with FOk n => Val n | FOverflow _ _ _ => Panic end.
Definition wrapping_to_of {T} (r : outcome (from_res T)) : outcome T :=
  do r <- r; match r with FOk n | FOverflow _ n _ => Val n end.
Definition saturating_to_of {T} (r : outcome (from_res T)) : outcome T :=
  do r <- r; match r with FOk n | FOverflow _ _ n => Val n end.
