(* Model/Limbs.v — limb-slice kernels of src/algorithms/{add,mul,shift,ops}.rs and
   algorithms::cmp, line for line.  A `&mut [u64]` argument becomes an input list and a
   returned list of the same length.  Slices that Rust indexes pairwise (`lhs[i]`, `a[i]` for
   i in 0..a.len()) are modelled by simultaneous recursion; where Rust would panic on a short
   slice the model returns Panic (see the `_o` variants), and `assume!` is a DebugPanic. *)
From RV.Model Require Import Base Word.

(* ---------- add.rs ---------- *)
(* adc_n(lhs, rhs, carry): for i in 0..lhs.len() { (lhs[i], carry) = adc(lhs[i], rhs[i], carry) }
   Panics (index out of bounds) when rhs is shorter than lhs. *)
Fixpoint adc_n (lhs rhs : list Z) (carry : Z) : outcome (list Z * Z) :=
  match lhs with
  | [] => Val ([], carry)
  | x :: lhs' =>
      match rhs with
      | [] => Panic
      | y :: rhs' =>
          let '(r, c) := adc x y carry in
          do p <- adc_n lhs' rhs' c ;
          Val (r :: fst p, snd p)
      end
  end.

Fixpoint sbb_n (lhs rhs : list Z) (borrow : Z) : outcome (list Z * Z) :=
  match lhs with
  | [] => Val ([], borrow)
  | x :: lhs' =>
      match rhs with
      | [] => Panic
      | y :: rhs' =>
          let '(r, c) := sbb x y borrow in
          do p <- sbb_n lhs' rhs' c ;
          Val (r :: fst p, snd p)
      end
  end.

(* ---------- mul.rs ---------- *)
(* add_nx1(lhs, a): early return when a == 0, before and inside the loop *)
Fixpoint add_nx1_loop (lhs : list Z) (a : Z) : list Z * Z :=
  match lhs with
  | [] => ([], a)
  | x :: lhs' =>
      let s := x + a in
      let '(r, a') := (lo s, hi s) in
      if a' =? 0 then (r :: lhs', 0)
      else let '(rs, c) := add_nx1_loop lhs' a' in (r :: rs, c)
  end.
Definition add_nx1 (lhs : list Z) (a : Z) : list Z * Z :=
  if a =? 0 then (lhs, 0) else add_nx1_loop lhs a.

(* mul_nx1(lhs, a): lhs *= a, returns carry *)
Fixpoint mul_nx1_loop (lhs : list Z) (a carry : Z) : list Z * Z :=
  match lhs with
  | [] => ([], carry)
  | x :: lhs' =>
      let p := muladd x a carry in
      let '(rs, c) := mul_nx1_loop lhs' a (hi p) in (lo p :: rs, c)
  end.
Definition mul_nx1 (lhs : list Z) (a : Z) : list Z * Z := mul_nx1_loop lhs a 0.

(* addmul_nx1(lhs, a, b): assume!(lhs.len() == a.len()); for i in 0..a.len() { lhs[i] ... } *)
Fixpoint addmul_nx1_loop (lhs a : list Z) (b carry : Z) : list Z * Z :=
  match lhs, a with
  | x :: lhs', y :: a' =>
      let p := muladd2 y b carry x in
      let '(rs, c) := addmul_nx1_loop lhs' a' b (hi p) in (lo p :: rs, c)
  | _, _ => (lhs, carry)
  end.
Definition addmul_nx1 (lhs a : list Z) (b : Z) : outcome (list Z * Z) :=
  if Nat.eqb (length lhs) (length a) then Val (addmul_nx1_loop lhs a b 0) else DebugPanic.

(* submul_nx1(lhs, a, b): returns borrow + carry (a u64 addition: overflow = DebugPanic) *)
Fixpoint submul_nx1_loop (lhs a : list Z) (b carry borrow : Z) : list Z * Z * Z :=
  match lhs, a with
  | x :: lhs', y :: a' =>
      let p := muladd y b carry in
      let '(r, bo) := sbb x (lo p) borrow in
      let '(rs, c, bw) := submul_nx1_loop lhs' a' b (hi p) bo in (r :: rs, c, bw)
  | _, _ => (lhs, carry, borrow)
  end.
Definition submul_nx1 (lhs a : list Z) (b : Z) : outcome (list Z * Z) :=
  if Nat.eqb (length lhs) (length a) then
    let '(r, c, bw) := submul_nx1_loop lhs a b 0 0 in
    if bw + c <? B then Val (r, bw + c) else DebugPanic
  else DebugPanic.

(* addmul(lhs, a, b) -> overflow.
   The slice `lhs` is narrowed while zeros are trimmed from `a` and `b`; the model keeps the
   untouched prefix `pre` (limbs skipped at the low end) and returns pre ++ updated window. *)
Fixpoint trim_leading (lhs a : list Z) (pre : list Z) : list Z * list Z * list Z :=
  (* while let [0, rest @ ..] = a { a = rest; if let [_, rest @ ..] = lhs { lhs = rest } } *)
  match a with
  | 0 :: a' =>
      match lhs with
      | x :: lhs' => trim_leading lhs' a' (pre ++ [x])
      | [] => trim_leading [] a' pre
      end
  | _ => (lhs, a, pre)
  end.
Fixpoint trim_trailing_rev (ra : list Z) : list Z :=   (* on the reversed list *)
  match ra with
  | 0 :: ra' => trim_trailing_rev ra'
  | _ => ra
  end.
Definition trim_trailing (a : list Z) : list Z := rev (trim_trailing_rev (rev a)).

(* the row loop: `for &b in b { ... lhs = &mut lhs[1..] }`; `done` accumulates finished low limbs *)
Fixpoint addmul_rows (lhs a bs : list Z) (overflow : bool) : list Z * bool :=
  match bs with
  | [] => (lhs, overflow)
  | b :: bs' =>
      if Nat.leb (length a) (length lhs) then
        let target := firstn (length a) lhs in
        let rest := skipn (length a) lhs in
        let '(t', carry) := addmul_nx1_loop target a b 0 in
        let '(r', carry2) := add_nx1 rest carry in
        let overflow' := overflow || negb (carry2 =? 0) in
        match t' ++ r' with
        | [] => ([], overflow')            (* unreachable: a is non-empty *)
        | x :: tl => let '(tl', o) := addmul_rows tl a bs' overflow' in (x :: tl', o)
        end
      else
        match lhs with
        | [] => ([], true)                  (* overflow = true; break *)
        | _ =>
            let '(l', _) := addmul_nx1_loop lhs (firstn (length lhs) a) b 0 in
            match l' with
            | [] => ([], true)
            | x :: tl => let '(tl', o) := addmul_rows tl a bs' true in (x :: tl', o)
            end
        end
  end.

Definition addmul (lhs a b : list Z) : list Z * bool :=
  let '(lhs1, a1, pre1) := trim_leading lhs a [] in
  let a2 := trim_trailing a1 in
  let '(lhs2, b1, pre2) := trim_leading lhs1 b pre1 in
  let b2 := trim_trailing b1 in
  match a2, b2 with
  | [], _ | _, [] => (lhs, false)
  | _, _ =>
      match lhs2 with
      | [] => (lhs, true)
      | _ =>
          let '(a3, b3) := if Nat.ltb (length a2) (length b2) then (b2, a2) else (a2, b2) in
          let '(w, o) := addmul_rows lhs2 a3 b3 false in
          (pre2 ++ w, o)
      end
  end.

(* unrolled equal-length forms *)
Definition addmul_1 (l a b : list Z) : list Z :=
  match l, a, b with
  | [l0], [a0], [b0] => let '(l0, _) := mac l0 a0 b0 0 in [l0]
  | _, _, _ => l
  end.
Definition addmul_2 (l a b : list Z) : list Z :=
  match l, a, b with
  | [l0; l1], [a0; a1], [b0; b1] =>
      let '(l0, c) := mac l0 a0 b0 0 in
      let '(l1, _) := mac l1 a0 b1 c in
      let '(l1, _) := mac l1 a1 b0 0 in
      [l0; l1]
  | _, _, _ => l
  end.
Definition addmul_3 (l a b : list Z) : list Z :=
  match l, a, b with
  | [l0; l1; l2], [a0; a1; a2], [b0; b1; b2] =>
      let '(l0, c) := mac l0 a0 b0 0 in
      let '(l1, c) := mac l1 a0 b1 c in
      let '(l2, _) := mac l2 a0 b2 c in
      let '(l1, c) := mac l1 a1 b0 0 in
      let '(l2, _) := mac l2 a1 b1 c in
      let '(l2, _) := mac l2 a2 b0 0 in
      [l0; l1; l2]
  | _, _, _ => l
  end.
Definition addmul_4 (l a b : list Z) : list Z :=
  match l, a, b with
  | [l0; l1; l2; l3], [a0; a1; a2; a3], [b0; b1; b2; b3] =>
      let '(l0, c) := mac l0 a0 b0 0 in
      let '(l1, c) := mac l1 a0 b1 c in
      let '(l2, c) := mac l2 a0 b2 c in
      let '(l3, _) := mac l3 a0 b3 c in
      let '(l1, c) := mac l1 a1 b0 0 in
      let '(l2, c) := mac l2 a1 b1 c in
      let '(l3, _) := mac l3 a1 b2 c in
      let '(l2, c) := mac l2 a2 b0 0 in
      let '(l3, _) := mac l3 a2 b1 c in
      let '(l3, _) := mac l3 a3 b0 0 in
      [l0; l1; l2; l3]
  | _, _, _ => l
  end.
(* addmul_n: assert_eq! on the lengths, then dispatch on the length *)
Definition addmul_n (lhs a b : list Z) : outcome (list Z) :=
  if negb (Nat.eqb (length lhs) (length a)) || negb (Nat.eqb (length lhs) (length b)) then Panic
  else match length lhs with
       | 0%nat => Val lhs
       | 1%nat => Val (addmul_1 lhs a b)
       | 2%nat => Val (addmul_2 lhs a b)
       | 3%nat => Val (addmul_3 lhs a b)
       | 4%nat => Val (addmul_4 lhs a b)
       | _ => Val (fst (addmul lhs a b))
       end.

(* ---------- shift.rs (after the fix: carry = (limb >> 1) >> (63 - amount)) ---------- *)
Fixpoint shift_left_small_loop (limbs : list Z) (amount overflow : Z) : list Z * Z :=
  match limbs with
  | [] => ([], overflow)
  | x :: t =>
      let value := Z.lor (shl64 x amount) overflow in
      let ov := shr64 (shr64 x 1) (63 - amount) in
      let '(rs, o) := shift_left_small_loop t amount ov in (value :: rs, o)
  end.
Definition shift_left_small (limbs : list Z) (amount : Z) : outcome (list Z * Z) :=
  if amount <? 64 then Val (shift_left_small_loop limbs amount 0) else DebugPanic.

(* iterates from the most significant limb: modelled on the reversed list *)
Fixpoint shift_right_small_loop (rlimbs : list Z) (amount overflow : Z) : list Z * Z :=
  match rlimbs with
  | [] => ([], overflow)
  | x :: t =>
      let value := Z.lor (shr64 x amount) overflow in
      let ov := shl64 (shl64 x 1) (63 - amount) in
      let '(rs, o) := shift_right_small_loop t amount ov in (value :: rs, o)
  end.
Definition shift_right_small (limbs : list Z) (amount : Z) : outcome (list Z * Z) :=
  if amount <? 64 then
    let '(r, o) := shift_right_small_loop (rev limbs) amount 0 in Val (rev r, o)
  else DebugPanic.
