(* Model/Word.v — u64/u128 primitives as used by ruint (src/algorithms/mod.rs, ops.rs).
   Inputs are assumed to be words (0 <= x < 2^64); every wrap is explicit. *)
From RV.Model Require Import Base.

(* u64::overflowing_add / overflowing_sub *)
Definition ov_add (x y : Z) : Z * bool := ((x + y) mod B, B <=? x + y).
Definition ov_sub (x y : Z) : Z * bool := ((x - y) mod B, x <? y).

(* algorithms::carrying_add *)
Definition carrying_add (lhs rhs : Z) (carry : bool) : Z * bool :=
  let '(r, c1) := ov_add lhs rhs in
  let '(r, c2) := ov_add r (b2z carry) in
  (r, c1 || c2).

(* algorithms::borrowing_sub *)
Definition borrowing_sub (lhs rhs : Z) (borrow : bool) : Z * bool :=
  let '(r, b1) := ov_sub lhs rhs in
  let '(r, b2) := ov_sub r (b2z borrow) in
  (r, b1 || b2).

(* DoubleWord<u64> for u128: low/high/split *)
Definition lo (x : Z) : Z := x mod B.
Definition hi (x : Z) : Z := (x / B) mod B.

(* ops::adc : u128 sum of three words (cannot overflow u128) *)
Definition adc (lhs rhs carry : Z) : Z * Z :=
  let r := lhs + rhs + carry in (lo r, hi r).

(* ops::sbb : wrapping u128 subtraction, borrow = high.wrapping_neg() *)
Definition sbb (lhs rhs borrow : Z) : Z * Z :=
  let r := wrap128 (wrap128 (lhs - rhs) - borrow) in
  (lo r, wrap (- hi r)).

(* u128::muladd(a,b,c) = a*b + c ; muladd2(a,b,c,d) = a*b + c + d  (no overflow) *)
Definition muladd (a b c : Z) : Z := a * b + c.
Definition muladd2 (a b c d : Z) : Z := a * b + c + d.

(* mul.rs mac: (new lhs, carry) *)
Definition mac (lhs a b c : Z) : Z * Z :=
  let p := muladd2 a b c lhs in (lo p, hi p).

(* shifts on u64 with an in-range amount 0 <= s < 64 *)
Definition shl64 (x s : Z) : Z := (x * 2 ^ s) mod B.
Definition shr64 (x s : Z) : Z := x / 2 ^ s.

(* u64::leading_zeros, trailing_zeros, count_ones *)
Definition clz64 (x : Z) : Z := if x =? 0 then 64 else 63 - Z.log2 x.
Fixpoint ctz_fuel (n : nat) (x : Z) : Z :=
  match n with
  | O => 0
  | S n' => if Z.odd x then 0 else 1 + ctz_fuel n' (x / 2)
  end.
Definition ctz64 (x : Z) : Z := if x =? 0 then 64 else ctz_fuel 64 x.
Fixpoint popcnt_fuel (n : nat) (x : Z) : Z :=
  match n with
  | O => 0
  | S n' => (x mod 2) + popcnt_fuel n' (x / 2)
  end.
Definition popcnt64 (x : Z) : Z := popcnt_fuel 64 x.
(* u64::reverse_bits *)
Fixpoint bitrev_fuel (n : nat) (x acc : Z) : Z :=
  match n with
  | O => acc
  | S n' => bitrev_fuel n' (x / 2) (2 * acc + x mod 2)
  end.
Definition bitrev64 (x : Z) : Z := bitrev_fuel 64 x 0.
