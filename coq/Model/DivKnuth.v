(* Model/DivKnuth.v — src/algorithms/div/knuth.rs: div_nxm_normalized and div_nxm.
   The numerator slice is a list that is threaded through the loop; sub-slices
   `numerator[j..j+k]` are read with `slice` and written back with `splice`
   (slice index out of range = Panic, as in Rust). *)
From RV.Model Require Import Base Word Limbs DivRecip DivSmall.
From RV.Model Require Add.   (* algorithms::cmp = Add.limbs_cmp *)

Definition get (l : list Z) (i : nat) : outcome Z :=
  match nth_error l i with Some x => Val x | None => Panic end.
(* l[i] = x *)
Definition set (l : list Z) (i : nat) (x : Z) : outcome (list Z) :=
  if Nat.ltb i (length l) then Val (firstn i l ++ x :: skipn (S i) l) else Panic.
(* &l[j..j+k] *)
Definition slice (l : list Z) (j k : nat) : outcome (list Z) :=
  if Nat.leb (j + k) (length l) then Val (firstn k (skipn j l)) else Panic.
(* write w back over l[j..j+length w] (the window was borrowed mutably from l) *)
Definition splice (l : list Z) (j : nat) (w : list Z) : list Z :=
  firstn j l ++ w ++ skipn (j + length w) l.

(* u128::overflowing_sub(r, borrow) *)
Definition ov_sub128 (x y : Z) : Z * bool := (wrap128 (x - y), x <? y).

(* ---- div_nxm_normalized: one iteration of `for j in (0..=m).rev()` ---- *)
Definition nxm_norm_step (num divisor : list Z) (n j : nat) (d v : Z) : outcome (list Z) :=
  do n2 <- get num (j + n) ;
  do n1 <- get num (j + n - 1) ;
  let n21 := join n2 n1 in
  do n0 <- get num (j + n - 2) ;
  if d <? n21 then DebugPanic else                 (* debug_assert!(n21 <= d) *)
  if n21 =? d then
    let q := B - 1 in
    do w <- slice num j n ;
    do sm <- submul_nx1 w divisor q ;
    let num := splice num j (fst sm) in
    set num (j + n) q
  else
    do qr <- div_3x2_mg10 n21 n0 d v ;
    let '(q, r) := qr in
    do w <- slice num j (n - 2) ;
    do dl <- slice divisor 0 (n - 2) ;
    do sm <- submul_nx1 w dl q ;
    let num := splice num j (fst sm) in
    let '(r, borrow) := ov_sub128 r (snd sm) in
    do num <- set num (j + n - 2) (lo128 r) ;
    do num <- set num (j + n - 1) (hi128 r) ;
    do qn <-
      (if borrow then
         let q := wrap (q - 1) in
         do w <- slice num j n ;
         do dn <- slice divisor 0 n ;
         do ac <- adc_n w dn 0 ;
         if snd ac =? 1 then Val (q, splice num j (fst ac)) else DebugPanic
       else Val (q, num)) ;
    set (snd qn) (j + n) (fst qn).

(* iterations j = k-1, k-2, ..., 0 *)
Fixpoint nxm_norm_loop (k : nat) (num divisor : list Z) (n : nat) (d v : Z) : outcome (list Z) :=
  match k with
  | O => Val num
  | S j =>
      do num <- nxm_norm_step num divisor n j d v ;
      nxm_norm_loop j num divisor n d v
  end.

Definition div_nxm_normalized (numerator divisor : list Z) : outcome (list Z) :=
  let n := length divisor in
  if Nat.ltb n 2 then DebugPanic else                       (* debug_assert!(divisor.len() >= 2) *)
  if negb (Nat.ltb n (length numerator)) then DebugPanic else (* debug_assert!(numerator.len() > divisor.len()) *)
  (* debug_assert!(cmp(&numerator[numerator.len() - divisor.len()..], divisor) == Less) *)
  match Add.limbs_cmp (skipn (length numerator - n) numerator) divisor with
  | Lt =>
      if last divisor 0 <? 2 ^ 63 then DebugPanic else      (* debug_assert: last divisor limb >= 1 << 63 *)
      let m := (length numerator - n - 1)%nat in
      do d1 <- get divisor (n - 1) ;
      do d0 <- get divisor (n - 2) ;
      let d := join d1 d0 in
      do v <- reciprocal_2_mg10 d ;
      nxm_norm_loop (S m) numerator divisor n d v
  | _ => DebugPanic
  end.

(* ---- div_nxm ---- *)
(* numerator.get(i).copied().unwrap_or_default() *)
Definition get_or0 (l : list Z) (i : nat) : Z := nth i l 0.

(* one iteration; returns (numerator, q_high) *)
Definition nxm_step (num divisor : list Z) (n j : nat) (d v shift : Z) (q_high : Z)
  : outcome (list Z * Z) :=
  let n2 := get_or0 num (j + n) in
  do n1 <- get num (j + n - 1) ;
  let n21 := join n2 n1 in
  do n0 <- get num (j + n - 2) ;
  do nn <-
    (if shift =? 0 then Val (n21, n0)
     else
       do n3 <- get num (j + n - 3) ;
       Val (Z.lor (shl128 n21 shift) (shr64 n0 (64 - shift)),
            Z.lor (shl64 n0 shift) (shr64 n3 (64 - shift)))) ;
  let '(n21, n0) := nn in
  if d <? n21 then DebugPanic else                 (* debug_assert!(n21 <= d) *)
  do qn <-
    (if n21 <? d then
       do qr <- div_3x2_mg10 n21 n0 d v ;
       let '(q, r) := qr in
       if negb (q =? 0) then
         do bn <-
           (if shift =? 0 then
              do w <- slice num j (n - 2) ;
              do dl <- slice divisor 0 (n - 2) ;
              do sm <- submul_nx1 w dl q ;
              let num := splice num j (fst sm) in
              let '(r, borrow) := ov_sub128 r (snd sm) in
              do num <- set num (j + n - 2) (lo128 r) ;
              do num <- set num (j + n - 1) (hi128 r) ;
              Val (borrow, num)
            else
              do w <- slice num j n ;
              do sm <- submul_nx1 w divisor q ;
              let num := splice num j (fst sm) in
              let n2 := get_or0 num (j + n) in
              Val (negb (snd sm =? n2), num)) ;
         let '(borrow, num) := bn in
         if borrow then
           let q := wrap (q - 1) in
           do w <- slice num j n ;
           do dn <- slice divisor 0 n ;
           do ac <- adc_n w dn 0 ;
           if snd ac =? 1 then Val (q, splice num j (fst ac)) else DebugPanic
         else Val (q, num)
       else Val (q, num)
     else
       let q := B - 1 in
       do w <- slice num j n ;
       do sm <- submul_nx1 w divisor q ;
       Val (q, splice num j (fst sm))) ;
  let '(q, num) := qn in
  if Nat.ltb (j + n) (length num) then
    do num <- set num (j + n) q ; Val (num, q_high)
  else Val (num, q).

Fixpoint nxm_loop (k : nat) (num divisor : list Z) (n : nat) (d v shift q_high : Z)
  : outcome (list Z * Z) :=
  match k with
  | O => Val (num, q_high)
  | S j =>
      do p <- nxm_step num divisor n j d v shift q_high ;
      nxm_loop j (fst p) divisor n d v shift (snd p)
  end.

(* returns (numerator, divisor) after the call *)
Definition div_nxm (numerator divisor : list Z) : outcome (list Z * list Z) :=
  let n := length divisor in
  if Nat.ltb n 3 then DebugPanic else                       (* debug_assert!(divisor.len() >= 3) *)
  if Nat.ltb (length numerator) n then DebugPanic else      (* debug_assert!(numerator.len() >= divisor.len()) *)
  if last divisor 0 <? 1 then DebugPanic else               (* debug_assert: last divisor limb >= 1 *)
  let m := (length numerator - n)%nat in
  do d1 <- get divisor (n - 1) ;
  do d0 <- get divisor (n - 2) ;
  let d := join d1 d0 in
  let shift := clz64 (hi128 d) in
  do d <-
    (if shift =? 0 then Val d
     else do d3 <- get divisor (n - 3) ;
          Val (Z.lor (shl128 d shift) (shr64 d3 (64 - shift)))) ;
  if d <? 2 ^ 127 then DebugPanic else                      (* debug_assert!(d >= 1 << 127) *)
  do v <- reciprocal_2_mg10 d ;
  do p <- nxm_loop (S m) numerator divisor n d v shift 0 ;
  let '(num, q_high) := p in
  (* divisor.copy_from_slice(&numerator[..n]); numerator.copy_within(n.., 0);
     numerator[m] = q_high; numerator[m + 1..].fill(0); *)
  let rem := firstn n num in
  let quo := skipn n num in                                  (* m limbs *)
  Val (quo ++ q_high :: repeat 0 (length num - m - 1), rem).
