(* Model/Opaque.v — SPECIFICATION functions (on integers) for multiplication, division,
   remainder, power, gcd, modular addition / multiplication / power, integer root, Montgomery
   multiplication, as used by the integer interpreter of Run/RunC04a.v.
   For the opcode listed in `History.opaque_ops` (root: its model takes a floating-point estimate
   as an observed input, see REPORT) Model/History.v uses these functions *in place of a model*; for the others
   History.v uses the models of Model/{Mul,UDiv,Gcd,Modular,Redc}.v and PfC04a proves that they
   compute these functions.  Nothing here looks at limbs.

   x, y, z are the values of the three source registers, `imm` the immediate words. *)
From RV.Model Require Import Base.

Definition zres := outcome (option Z * Z).      (* value written to dst (None: unchanged), status *)
Definition zw (v : Z) : zres := Val (Some v, 0).

(* a^e mod m by squaring over the binary digits of e (e = 0 gives 1 mod m) *)
Fixpoint pow_mod_pos (a : Z) (e : positive) (m : Z) : Z :=
  match e with
  | xH => a mod m
  | xO p => let r := pow_mod_pos a p m in (r * r) mod m
  | xI p => let r := pow_mod_pos a p m in ((r * r) mod m * a) mod m
  end.
Definition pow_mod (a e m : Z) : Z :=
  match e with
  | Z0 => 1 mod m
  | Zpos p => pow_mod_pos a p m
  | Zneg _ => 0
  end.

(* floor of the d-th root of x (x >= 0, d >= 1): the largest r with r^d <= x, built bit by bit *)
Fixpoint iroot_loop (k : nat) (x d r : Z) : Z :=
  match k with
  | O => r
  | S k' => let r' := r + 2 ^ Z.of_nat k' in
            iroot_loop k' x d (if r' ^ d <=? x then r' else r)
  end.
Definition iroot (x d : Z) : Z := iroot_loop (Z.to_nat (Z.log2 x / d + 1)) x d 0.

(* modular inverse by the extended Euclidean algorithm on (m, a mod m): invariant t_i * a = r_i
   (mod m); PfC04a.zmodinv_spec: for m >= 2 and gcd(a, m) = 1 the result is the inverse in [0, m) *)
Fixpoint inv_loop (fuel : nat) (r0 r1 t0 t1 : Z) : Z * Z :=
  match fuel with
  | O => (r0, t0)
  | S f => if r1 =? 0 then (r0, t0)
           else inv_loop f r1 (r0 mod r1) t1 (t0 - (r0 / r1) * t1)
  end.
Definition zmodinv (a m : Z) : Z :=
  snd (inv_loop (Z.to_nat (2 * Z.log2 m + 2)) m (a mod m) 0 1) mod m.

Definition z_wrapping_mul (bits x y : Z) : zres := zw (modp2 (x * y) bits).
(* algorithms::div panics on a zero divisor *)
Definition z_wrapping_div (x y : Z) : zres := if y =? 0 then Panic else zw (x / y).
Definition z_wrapping_rem (x y : Z) : zres := if y =? 0 then Panic else zw (x mod y).
Definition z_gcd (x y : Z) : zres := zw (Z.gcd x y).
(* a modulus of zero gives zero *)
Definition z_add_mod (x y m : Z) : zres := zw (if m =? 0 then 0 else (x + y) mod m).
Definition z_mul_mod (x y m : Z) : zres := zw (if m =? 0 then 0 else (x * y) mod m).
Definition z_pow_mod (bits x e m : Z) : zres :=
  zw (if (bits =? 0) || (m <=? 1) then 0 else pow_mod x e m).
(* root(degree): panics for degree 0; 0 for 0; 1 when degree >= BITS *)
Definition z_root (bits x degree : Z) : zres :=
  if degree =? 0 then Panic
  else zw (if x =? 0 then 0 else if bits <=? degree then 1 else iroot x degree).
(* mul_redc(x, y, m, inv) = x * y * R^-1 mod m with R = 2^(64 * LIMBS), required: inv * m = -1
   (mod 2^64) (so m is odd and 2^-1 = (m + 1) / 2 mod m), x < m, y < m.  Outside these
   conditions the crate promises nothing (debug assertions): DebugPanic = unconstrained. *)
Definition z_mul_redc (bits x y m inv : Z) : zres :=
  if bits =? 0 then zw 0
  else if ((inv * (m mod B)) mod B =? B - 1) && (x <? m) && (y <? m) then
    zw ((x * y * pow_mod (Z.shiftr (m + 1) 1) (64 * nlimbs bits) m) mod m)
  else DebugPanic.
