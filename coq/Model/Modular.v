(* Model/Modular.v — src/modular.rs: reduce_mod, add_mod, mul_mod, pow_mod, line for line,
   with faithful local copies of the Uint-level helpers they reach:
   is_zero (cmp.rs), >=, <=, > (derived from Ord::cmp = algorithms::cmp), Self::ONE
   (from.rs const_from_u64(1)), div_rem / wrapping_rem / `%=` (div.rs), `-=` (wrapping_sub),
   `>>= 1` (Shr<i32> = wrapping_shr(1)).  inv_mod lives in Model/InvMod.v.
   Definitions only. *)
From RV.Model Require Import Base Word Limbs Add Shift Div.

(* ---------- cmp.rs ---------- *)
(* is_zero: *self == Self::ZERO, derived PartialEq on the limb arrays *)
Definition is_zero (bits : Z) (a : list Z) : bool := list_eqb Z.eqb a (uZERO bits).
(* PartialOrd::{ge, le, gt} through partial_cmp = Some(algorithms::cmp(limbs, limbs)) *)
Definition uge (a b : list Z) : bool := match limbs_cmp a b with Lt => false | _ => true end.
Definition ule (a b : list Z) : bool := match limbs_cmp a b with Gt => false | _ => true end.
Definition ugt (a b : list Z) : bool := match limbs_cmp a b with Gt => true | _ => false end.

(* Uint::ONE = const_from_u64(1): MAX (no limbs) at BITS = 0, else limbs = [0; LIMBS], limbs[0] = 1 *)
Definition uONE (bits : Z) : list Z :=
  if bits =? 0 then uMAX bits
  else match uZERO bits with [] => [] | _ :: t => 1 :: t end.

(* ---------- div.rs ---------- *)
(* div_rem(mut self, mut rhs): algorithms::div(&mut self.limbs, &mut rhs.limbs); (self, rhs) *)
Definition div_rem (a b : list Z) : outcome (list Z * list Z) := div_kernel a b.
(* wrapping_rem = div_rem(rhs).1 ; Rem / RemAssign forward to it (impl_bin_op!) *)
Definition wrapping_rem (a b : list Z) : outcome (list Z) :=
  do p <- div_rem a b ; Val (snd p).
(* wrapping_div = div_rem(rhs).0 *)
Definition wrapping_div (a b : list Z) : outcome (list Z) :=
  do p <- div_rem a b ; Val (fst p).

(* ---------- modular.rs ---------- *)
Definition reduce_mod (bits : Z) (a m : list Z) : outcome (list Z) :=
  if is_zero bits m then Val (uZERO bits)
  else if uge a m then wrapping_rem a m          (* self %= modulus *)
  else Val a.

Definition add_mod (bits : Z) (a b m : list Z) : outcome (list Z) :=
  do lhs <- reduce_mod bits a m ;
  do rhs <- reduce_mod bits b m ;
  let '(result, overflow) := overflowing_add bits lhs rhs in
  if overflow || uge result m then Val (wrapping_sub bits result m)   (* result -= modulus *)
  else Val result.

Definition mul_mod (bits : Z) (a b m : list Z) : outcome (list Z) :=
  if is_zero bits m then Val (uZERO bits)
  else
    (* product = [[0u64; 2]; LIMBS] viewed as &mut [u64] of length nlimbs(2 * BITS) *)
    let product_len := nlimbs (2 * bits) in
    if 2 * nlimbs bits <? product_len then DebugPanic   (* debug_assert!(2 * LIMBS >= product_len) *)
    else
      let product := repeat 0 (Z.to_nat product_len) in
      let '(product, overflow) := addmul product a b in
      if overflow then DebugPanic                        (* debug_assert!(!overflow) *)
      else
        (* algorithms::div(product, &mut modulus.limbs); modulus *)
        do p <- div_kernel product m ;
        Val (snd p).

(* while exp > ZERO { if exp.limbs[0] & 1 == 1 { result = result.mul_mod(self, m) }
                     self = self.mul_mod(self, m); exp >>= 1 } *)
Fixpoint pow_loop (fuel : nat) (bits : Z) (result base exp m : list Z) : outcome (list Z) :=
  match fuel with
  | O => OutOfFuel
  | S fuel' =>
      if ugt exp (uZERO bits) then
        do result' <- (if Z.land (nth 0 exp 0) 1 =? 1 then mul_mod bits result base m
                       else Val result) ;
        do base' <- mul_mod bits base base m ;
        pow_loop fuel' bits result' base' (shr_prim bits exp 1) m
      else Val result
  end.

Definition pow_mod (bits : Z) (a e m : list Z) : outcome (list Z) :=
  if (bits =? 0) || ule m (uONE bits) then Val (uZERO bits)
  else pow_loop (S (Z.to_nat bits)) bits (uONE bits) a e m.
