(* Model/CodecA.v — ruint's glue for codec group A, as written:
     src/support/rlp.rs, alloy_rlp.rs, fastrlp_03.rs, fastrlp_04.rs, serde.rs.
   Definitions only.  Bytes / text are `list Z`.

   PART 1 is ruint's own code (fast paths, length(), trimming, header byte construction, decode
   paths; every index / slice / subtraction is an explicit outcome).
   PART 0 is third-party code the glue calls.  Encoders of the codec crates (`[u8]::encode`,
   `u64/u128::encode`, `RlpStream::encode_value`, serde_json's `serialize_str`, bincode's
   `serialize_bytes`) are *defined to be* the format of Spec/FmtA.v.  The decoders' framing
   (`Header::decode` of alloy-rlp 0.3 and fastrlp 0.3/0.4, `Rlp::data` / `decode_value` of
   rlp 0.5, bincode's length-prefixed slice, serde_json's value reader) is transcribed from the
   crate sources (RLP, bincode) resp. taken from Spec/FmtA.json_read (JSON).  All of PART 0 is
   trusted only as far as the correspondence run validates it end-to-end on the real crates. *)
From RV.Model Require Import Base Word Bytes BaseConv.
From RV.Model Require Bits Conv Fmt Str.
From RV.Spec Require Import FmtA.

(* ===================================================================================== *)
(* PART 0 — third-party                                                                   *)
(* ===================================================================================== *)

(* alloy_rlp::Error / fastrlp::DecodeError (same variants in all three crates) *)
Inductive rlperr : Type :=
| EOverflow | ELeadingZero | EInputTooShort | ENonCanonicalSingleByte | ENonCanonicalSize
| EUnexpectedLength | EUnexpectedString | EUnexpectedList | EListLengthMismatch | ECustom.
Definition rlperr_code (e : rlperr) : Z :=
  match e with
  | EOverflow => 1 | ELeadingZero => 2 | EInputTooShort => 3 | ENonCanonicalSingleByte => 4
  | ENonCanonicalSize => 5 | EUnexpectedLength => 6 | EUnexpectedString => 7
  | EUnexpectedList => 8 | EListLengthMismatch => 9 | ECustom => 10
  end.

(* the tail of Header::decode: `if buf.remaining() < payload_length { InputTooShort }` *)
Definition hdr_finish (islist : bool) (n : Z) (buf : list Z) : res rlperr (bool * Z * list Z) :=
  if lenZ buf <? n then Err EInputTooShort else Ok (islist, n, buf).

(* Header::decode(buf): Ok (list, payload_length, buf after the header).
   alloy-rlp 0.3.16 src/header.rs and fastrlp 0.3.1 / 0.4.0 src/decode.rs are the same
   function up to syntax (checked by reading the three sources): one transcription. *)
Definition header_decode (buf : list Z) : res rlperr (bool * Z * list Z) :=
  match buf with
  | [] => Err EInputTooShort
  | b :: t =>
      if b <? 128 then hdr_finish false 1 buf                 (* no advance *)
      else if b <? 184 then                                   (* 0x80..=0xB7 *)
        let n := b - 128 in
        if n =? 1 then
          match t with
          | [] => Err EInputTooShort
          | c :: _ => if c <? 128 then Err ENonCanonicalSingleByte else hdr_finish false n t
          end
        else hdr_finish false n t
      else if (b <? 192) || (248 <=? b) then                  (* 0xB8..=0xBF | 0xF8..=0xFF *)
        let islist := 248 <=? b in
        let ll := b - (if islist then 247 else 183) in
        if lenZ t <? ll then Err EInputTooShort
        else
          let len := firstn (Z.to_nat ll) t in
          let t' := skipn (Z.to_nat ll) t in
          (* static_left_pad::<8>: len.len() <= 8 here; first byte 0 -> LeadingZero *)
          match len with
          | 0 :: _ => Err ELeadingZero
          | _ =>
              let n := u64_from_be_bytes len in               (* usize::try_from(u64): 64-bit target *)
              if n <? 56 then Err ENonCanonicalSize else hdr_finish islist n t'
          end
      else hdr_finish true (b - 192) t                        (* 0xC0..=0xF7 *)
  end.

(* length_of_length (alloy-rlp, fastrlp): 1 + size_of::<usize>() - leading_zeros / 8 *)
Definition length_of_length (n : Z) : Z :=
  if n <? 56 then 1 else 1 + 8 - clz64 n / 8.

(* the codec crates' own encoders = the format *)
Definition tp_rlp_bytes (p : list Z) : list Z := rlp_string p.   (* [u8]::encode / encode_value *)
Definition tp_rlp_prim (v : Z) : list Z := rlp_uint v.           (* u64::encode, u128::encode *)

(* rlp 0.5.2 DecoderError *)
Inductive rlpderr : Type :=
| RlpIsTooBig | RlpIsTooShort | RlpExpectedToBeList | RlpExpectedToBeData | RlpIncorrectListLen
| RlpDataLenWithZeroPrefix | RlpListLenWithZeroPrefix | RlpInvalidIndirection
| RlpInconsistentLengthAndData | RlpInvalidLength | RlpCustom.
Definition rlpderr_code (e : rlpderr) : Z :=
  match e with
  | RlpIsTooBig => 1 | RlpIsTooShort => 2 | RlpExpectedToBeList => 3 | RlpExpectedToBeData => 4
  | RlpIncorrectListLen => 5 | RlpDataLenWithZeroPrefix => 6 | RlpListLenWithZeroPrefix => 7
  | RlpInvalidIndirection => 8 | RlpInconsistentLengthAndData => 9 | RlpInvalidLength => 10
  | RlpCustom => 11
  end.

(* rlp::decode_usize *)
Definition rlp_decode_usize (bytes : list Z) : outcome (res rlpderr Z) :=
  if lenZ bytes <=? 8 then
    do b0 <- idx bytes 0;
    if b0 =? 0 then Val (Err RlpInvalidIndirection)
    else Val (Ok (u64_from_be_bytes bytes))
  else Val (Err RlpIsTooBig).

(* rlp::rlpin::calculate_payload_info: Ok (header_len, value_len) *)
Definition rlp_calc_payload_info (hb : list Z) (ll : Z) : outcome (res rlpderr (Z * Z)) :=
  let header_len := 1 + ll in
  match nth_error hb 1 with
  | Some 0 => Val (Err RlpDataLenWithZeroPrefix)
  | None => Val (Err RlpIsTooShort)
  | Some _ =>
      if lenZ hb <? header_len then Val (Err RlpIsTooShort)
      else
        do s <- slice_to hb header_len;
        do s <- slice_from s 1;
        do r <- rlp_decode_usize s;
        match r with
        | Err e => Val (Err e)
        | Ok value_len =>
            if value_len <=? 55 then Val (Err RlpInvalidIndirection)
            else Val (Ok (header_len, value_len))
        end
  end.

(* PayloadInfo::from *)
Definition rlp_payload_from (hb : list Z) : outcome (res rlpderr (Z * Z)) :=
  match hb with
  | [] => Val (Err RlpIsTooShort)
  | l :: _ =>
      if l <=? 127 then Val (Ok (0, 1))
      else if l <=? 183 then Val (Ok (1, l - 128))
      else if l <=? 191 then rlp_calc_payload_info hb (l - 183)
      else if l <=? 247 then Val (Ok (1, l - 192))
      else rlp_calc_payload_info hb (l - 247)
  end.

(* BasicDecoder::payload_info + Rlp::data: note that no arm looks at the string/list bit *)
Definition rlp_data (bytes : list Z) : outcome (res rlpderr (list Z)) :=
  do r <- rlp_payload_from bytes;
  match r with
  | Err e => Val (Err e)
  | Ok (header_len, value_len) =>
      if header_len + value_len <=? lenZ bytes then
        do s <- slice_to bytes (header_len + value_len);
        do s <- slice_from s header_len;
        Val (Ok s)
      else Val (Err RlpIsTooShort)
  end.

(* Rlp::is_list: !self.is_null() && self.bytes[0] >= 0xc0 *)
Definition rlp_is_list (bytes : list Z) : bool :=
  match bytes with b :: _ => 192 <=? b | [] => false end.

(* BasicDecoder::decode_value(f) *)
Definition rlp_decode_value {A} (bytes : list Z) (f : list Z -> outcome (res rlpderr A))
  : outcome (res rlpderr A) :=
  match bytes with
  | [] => Val (Err RlpIsTooShort)
  | l :: _ =>
      if l <=? 127 then f [l]
      else if l <=? 183 then
        let last_index_of := 1 + l - 128 in
        if lenZ bytes <? last_index_of then Val (Err RlpInconsistentLengthAndData)
        else
          do d <- slice_to bytes last_index_of;
          do d <- slice_from d 1;
          if l =? 129 then
            do d0 <- idx d 0;
            if d0 <? 128 then Val (Err RlpInvalidIndirection) else f d
          else f d
      else if l <=? 191 then
        let len_of_len := l - 183 in
        let begin_of_value := 1 + len_of_len in
        if lenZ bytes <? begin_of_value then Val (Err RlpInconsistentLengthAndData)
        else
          do s <- slice_to bytes begin_of_value;
          do s <- slice_from s 1;
          do r <- rlp_decode_usize s;
          match r with
          | Err e => Val (Err e)
          | Ok len =>
              if B <=? begin_of_value + len then Val (Err RlpInvalidLength)   (* checked_add *)
              else
                let last := begin_of_value + len in
                if lenZ bytes <? last then Val (Err RlpInconsistentLengthAndData)
                else
                  do d <- slice_to bytes last;
                  do d <- slice_from d begin_of_value;
                  f d
          end
      else Val (Err RlpExpectedToBeData)
  end.

(* bincode::deserialize -> deserialize_bytes: u64 LE length, then that many bytes; trailing
   bytes allowed.  None = any bincode error *)
Definition bincode_read_bytes (inp : list Z) : option (list Z) :=
  if lenZ inp <? 8 then None
  else
    let n := u64_from_le_bytes (firstn 8 inp) in
    let rest := skipn 8 inp in
    if lenZ rest <? n then None else Some (firstn (Z.to_nat n) rest).

(* ===================================================================================== *)
(* PART 1 — ruint                                                                         *)
(* ===================================================================================== *)

(* ---------- src/support/rlp.rs ---------- *)
(* bytes.iter().position(|&b| b != 0).unwrap_or(bytes.len()); &bytes[zeros..] *)
Definition trim_leading_zeros (bytes : list Z) : outcome (list Z) :=
  let zeros := match Bits.position (fun b => negb (b =? 0)) bytes with
               | Some z => z | None => lenZ bytes end in
  slice_from bytes zeros.

(* impl Encodable for Uint: rlp_append; the stream's contents after s.append(&value) *)
Definition rlp_encode (bits : Z) (a : list Z) : outcome (list Z) :=
  let bytes := to_be_bytes_vec bits a in
  do bytes <- trim_leading_zeros bytes;
  Val (tp_rlp_bytes bytes).

(* impl Decodable for Uint *)
Definition rlp_decode (bits : Z) (inp : list Z) : outcome (res rlpderr (list Z)) :=
  if rlp_is_list inp then Val (Err RlpExpectedToBeData) else
  do d <- rlp_data inp;
  match d with
  | Err e => Val (Err e)
  | Ok payload =>
      do o <- try_from_be_slice bits payload;
      match o with Some v => Val (Ok v) | None => Val (Err RlpCustom) end
  end.

(* impl Encodable for Bits *)
Definition bits_rlp_encode (bits : Z) (a : list Z) : list Z :=
  tp_rlp_bytes (to_be_bytes_vec bits a).

(* impl Decodable for Bits *)
Definition bits_rlp_decode (bits : Z) (inp : list Z) : outcome (res rlpderr (list Z)) :=
  rlp_decode_value inp (fun bytes =>
    if lenZ bytes <? nbytes bits then Val (Err RlpIsTooShort)
    else if nbytes bits <? lenZ bytes then Val (Err RlpIsTooBig)
    else
      do o <- try_from_be_slice bits bytes;
      match o with Some v => Val (Ok v) | None => Val (Err RlpIsTooBig) end).

(* ---------- src/support/alloy_rlp.rs = fastrlp_03.rs = fastrlp_04.rs (encode side) ---------- *)
Definition MAX_BITS : Z := 55 * 8.

(* fn length(&self) *)
Definition arlp_length (bits : Z) (a : list Z) : outcome Z :=
  do bl <- Bits.bit_len bits a;
  if bl <=? 7 then Val 1
  else
    let bytes := (bl + 7) / 8 in
    Val (bytes + length_of_length bytes).

(* u8 `EMPTY_STRING_CODE + x` (overflow-checked in debug) *)
Definition uadd8 (x y : Z) : outcome Z := if x + y <? 256 then Val (x + y) else DebugPanic.

(* fn encode(&self, out): the bytes put into `out` *)
Definition arlp_encode (bits : Z) (a : list Z) : outcome (list Z) :=
  let L := nlimbs bits in
  if L =? 0 then Val [128]
  else if L =? 1 then
    do l0 <- idx a 0; Val (tp_rlp_prim l0)
  else if L =? 2 then
    do l0 <- idx a 0; do l1 <- idx a 1;
    Val (tp_rlp_prim (Z.lor l0 ((l1 * 2 ^ 64) mod BB)))
  else
    do bl <- Bits.bit_len bits a;
    if bl =? 0 then Val [128]
    else if bl <=? 7 then
      do l0 <- idx a 0; Val [l0 mod 256]
    else
      (* copy.as_le_slice_mut().reverse() *)
      let bytes := rev (as_le_slice bits a) in
      do leading_zero_bytes <- usub (nbytes bits) ((bl + 7) / 8);
      do trimmed <- slice_from bytes leading_zero_bytes;
      if MAX_BITS <? bl then Val (tp_rlp_bytes trimmed)
      else
        do h <- uadd8 128 (lenZ trimmed mod 256);
        Val (h :: trimmed).

(* MaxEncodedLenAssoc::LEN *)
Definition arlp_max_len (bits : Z) : Z := nbytes bits + length_of_length (nbytes bits).

(* the tail shared by the three decoders *)
Definition arlp_finish (bits : Z) (bytes : list Z) : outcome (res rlperr (list Z)) :=
  do lead <- (match bytes with
              | [] => Val false                       (* !bytes.is_empty() && .. *)
              | _ => do b0 <- idx bytes 0; Val (b0 =? 0)
              end);
  if lead then Val (Err ELeadingZero)
  else
    do o <- try_from_be_slice bits bytes;
    match o with Some v => Val (Ok v) | None => Val (Err EOverflow) end.

(* alloy_rlp: Header::decode_bytes(buf, false)?, ...; Ok (value, bytes consumed) *)
Definition alloy_rlp_decode (bits : Z) (inp : list Z) : outcome (res rlperr (list Z * Z)) :=
  match header_decode inp with
  | Err e => Val (Err e)
  | Ok (islist, n, buf) =>
      if islist then Val (Err EUnexpectedList)
      else
        (* advance_unchecked: in range by Header::decode's last check *)
        let bytes := firstn (Z.to_nat n) buf in
        let rest := skipn (Z.to_nat n) buf in
        do r <- arlp_finish bits bytes;
        match r with
        | Err e => Val (Err e)
        | Ok v => Val (Ok (v, lenZ inp - lenZ rest))
        end
  end.

(* fastrlp 0.3 / 0.4: Header::decode(buf)?, list check, &buf[..n], &buf[n..] *)
Definition fastrlp_decode (bits : Z) (inp : list Z) : outcome (res rlperr (list Z * Z)) :=
  match header_decode inp with
  | Err e => Val (Err e)
  | Ok (islist, n, buf) =>
      if islist then Val (Err EUnexpectedList)
      else
        do bytes <- slice_to buf n;
        do rest <- slice_from buf n;
        do r <- arlp_finish bits bytes;
        match r with
        | Err e => Val (Err e)
        | Ok v => Val (Ok (v, lenZ inp - lenZ rest))
        end
  end.

(* ---------- src/support/serde.rs ---------- *)
Definition ZERO_STR : list Z := [48; 120; 48].                  (* "0x0" *)

(* `{self:#x}` *)
Definition spec_alt_x : Fmt.fspec :=
  {| Fmt.f_plus := false; Fmt.f_alt := true; Fmt.f_zero := false; Fmt.f_width := None;
     Fmt.f_fill := [32]; Fmt.f_align := 0 |}.

(* serialize_human_minimal: the str handed to serialize_str *)
Definition serialize_human_minimal (bits : Z) (a : list Z) : outcome (list Z) :=
  if Fmt.is_zero a then Val ZERO_STR
  else Fmt.fmt bits 2 spec_alt_x a.

(* `write!(result, "{byte:02x}")` *)
Definition byte_02x (b : Z) : list Z :=
  Fmt.std_pad_integral (Fmt.chunk_spec 2) [48; 120] (Fmt.std_u64_digits 16 false b).

(* serialize_human_full (Bits) *)
Definition serialize_human_full (bits : Z) (a : list Z) : list Z :=
  if bits =? 0 then ZERO_STR
  else [48; 120] ++ flat_map byte_02x (rev (as_le_bytes bits a)).

(* serialize_binary: the slice handed to serialize_bytes *)
Definition serialize_binary (bits : Z) (a : list Z) : list Z := to_be_bytes_vec bits a.

(* serde_json::to_string / bincode::serialize of a Uint / Bits *)
Definition serde_json_ser (bits : Z) (a : list Z) : outcome (list Z) :=
  do s <- serialize_human_minimal bits a; Val (json_string s).
Definition bits_serde_json_ser (bits : Z) (a : list Z) : list Z :=
  json_string (serialize_human_full bits a).
Definition bincode_ser (bits : Z) (a : list Z) : list Z := bincode_bytes (serialize_binary bits a).

(* HrVisitor::visit_u64 / visit_u128 / visit_str; None = Err(..) *)
Definition visit_u64 (bits v : Z) : outcome (option (list Z)) :=
  do r <- Conv.try_from_u64 bits v;
  match r with Conv.ROk n => Val (Some n) | _ => Val None end.
Definition visit_u128 (bits v : Z) : outcome (option (list Z)) :=
  do r <- Conv.try_from_u128 bits v;
  match r with Conv.ROk n => Val (Some n) | _ => Val None end.
Definition visit_str (bits : Z) (cs : list Z) : outcome (option (list Z)) :=
  if list_eqb Z.eqb cs ZERO_STR then Val (Some (uZERO bits))
  else if bits =? 0 then Val None
  else
    do r <- Str.from_str bits cs;
    match r with Ok v => Val (Some v) | Err _ => Val None end.
(* ByteVisitor::visit_bytes *)
Definition visit_bytes (bits : Z) (value : list Z) : outcome (option (list Z)) :=
  if negb (lenZ value =? nbytes bits) then Val None
  else try_from_be_slice bits value.

(* serde_json::from_slice::<Uint>: deserialize_any(HrVisitor), then Deserializer::end *)
Definition serde_json_de (bits : Z) (text : list Z) : outcome (option (list Z)) :=
  match json_read text with
  | JStr cs => visit_str bits cs
  | JU64 n => visit_u64 bits n
  | JOther | JBad => Val None
  end.
(* bincode::deserialize::<Uint>: deserialize_bytes(ByteVisitor) *)
Definition bincode_de (bits : Z) (inp : list Z) : outcome (option (list Z)) :=
  match bincode_read_bytes inp with
  | Some bytes => visit_bytes bits bytes
  | None => Val None
  end.
