(* Model/Gcd.v — src/algorithms/gcd/mod.rs (gcd, gcd_extended, inv_mod) and src/gcd.rs
   (Uint::gcd, lcm, gcd_extended), line for line.  Definitions only.
   The `while b != ZERO` loops take fuel: every iteration at least halves the product a*b
   (a Lehmer matrix performs >= 1 Euclidean step), so 2*BITS + 2 iterations always suffice. *)
From RV.Model Require Import Base Word Limbs GcdMatrix.
From RV.Model Require Add Conv Shift Div.

Definition gcd_fuel (bits : Z) : nat := Z.to_nat (2 * bits + 2).

(* ---------- gcd ---------- *)
Fixpoint gcd_loop (fuel : nat) (bits : Z) (a b : list Z) : outcome (list Z) :=
  if is_zero bits b then Val a                             (* while b != Uint::ZERO *)
  else
    match fuel with
    | O => OutOfFuel
    | S fuel' =>
        if Add.ult a b then DebugPanic                     (* debug_assert!(a >= b) *)
        else
          do m <- from bits a b ;
          if mat_eqb m IDENTITY then
            do r <- urem a b ;                             (* a %= b; swap *)
            gcd_loop fuel' bits b r
          else
            do p <- apply bits m a b ;
            gcd_loop fuel' bits (fst p) (snd p)
    end.

Definition gcd (bits : Z) (a b : list Z) : outcome (list Z) :=
  let '(a, b) := if Add.ult a b then (b, a) else (a, b) in    (* if b > a { swap } *)
  gcd_loop (gcd_fuel bits) bits a b.

(* ---------- gcd_extended ---------- *)
Record xstate := XS { xa : list Z; xb : list Z; xs0 : list Z; xs1 : list Z;
                      xt0 : list Z; xt1 : list Z; xeven : bool }.

(* x0 -= q * x1; swap(x0, x1) *)
Definition euclid_upd (bits : Z) (q x0 x1 : list Z) : outcome (list Z * list Z) :=
  do p <- umul bits q x1 ; Val (x1, usub bits x0 p).

Fixpoint gcdx_loop (fuel : nat) (bits : Z) (s : xstate) : outcome xstate :=
  if is_zero bits (xb s) then Val s
  else
    match fuel with
    | O => OutOfFuel
    | S fuel' =>
        if Add.ult (xa s) (xb s) then DebugPanic
        else
          do m <- from bits (xa s) (xb s) ;
          if mat_eqb m IDENTITY then
            do q <- udiv (xa s) (xb s) ;                   (* let q = a / b *)
            do ab <- euclid_upd bits q (xa s) (xb s) ;     (* a -= q * b; swap *)
            do ss <- euclid_upd bits q (xs0 s) (xs1 s) ;
            do tp <- euclid_upd bits q (xt0 s) (xt1 s) ;
            gcdx_loop fuel' bits
              (XS (fst ab) (snd ab) (fst ss) (snd ss) (fst tp) (snd tp) (negb (xeven s)))
          else
            do ab <- apply bits m (xa s) (xb s) ;
            do ss <- apply bits m (xs0 s) (xs1 s) ;
            do tp <- apply bits m (xt0 s) (xt1 s) ;
            gcdx_loop fuel' bits
              (XS (fst ab) (snd ab) (fst ss) (snd ss) (fst tp) (snd tp)
                  (xorb (xeven s) (negb (m4 m))))          (* even ^= !m.4 *)
    end.

Definition gcd_extended (bits : Z) (a b : list Z)
  : outcome (list Z * list Z * list Z * bool) :=
  if bits =? 0 then Val (uZERO bits, uZERO bits, uZERO bits, false)
  else
    let swapped := Add.ult a b in
    let '(a, b) := if swapped then (b, a) else (a, b) in
    do s <- gcdx_loop (gcd_fuel bits) bits
              (XS a b (uONE bits) (uZERO bits) (uZERO bits) (uONE bits) true) ;
    let even := xeven s in
    (* if even { t0 = ZERO - t0 } else { s0 = ZERO - s0 } *)
    let t0 := if even then usub bits (uZERO bits) (xt0 s) else xt0 s in
    let s0 := if even then xs0 s else usub bits (uZERO bits) (xs0 s) in
    if swapped then Val (xa s, t0, s0, negb even)
    else Val (xa s, s0, t0, even).

(* ---------- inv_mod ---------- *)
Record istate := IS { ia : list Z; ib : list Z; it0 : list Z; it1 : list Z; ieven : bool }.

Fixpoint inv_loop (fuel : nat) (bits : Z) (s : istate) : outcome istate :=
  if is_zero bits (ib s) then Val s
  else
    match fuel with
    | O => OutOfFuel
    | S fuel' =>
        if Add.ult (ia s) (ib s) then DebugPanic
        else
          do m <- from bits (ia s) (ib s) ;
          if mat_eqb m IDENTITY then
            do q <- udiv (ia s) (ib s) ;
            do ab <- euclid_upd bits q (ia s) (ib s) ;
            do tp <- euclid_upd bits q (it0 s) (it1 s) ;
            inv_loop fuel' bits (IS (fst ab) (snd ab) (fst tp) (snd tp) (negb (ieven s)))
          else
            do ab <- apply bits m (ia s) (ib s) ;
            do tp <- apply bits m (it0 s) (it1 s) ;
            inv_loop fuel' bits
              (IS (fst ab) (snd ab) (fst tp) (snd tp) (xorb (ieven s) (negb (m4 m))))
    end.

Definition inv_mod (bits : Z) (num modulus : list Z) : outcome (option (list Z)) :=
  if (bits =? 0) || is_zero bits modulus then Val None
  else
    let a := modulus in
    do b <- (if uge num a then urem num a else Val num) ;      (* if b >= a { b %= a } *)
    if is_zero bits b then Val None
    else
      do s <- inv_loop (gcd_fuel bits) bits (IS a b (uZERO bits) (uONE bits) true) ;
      if list_eqb Z.eqb (ia s) (uONE bits) then
        Val (Some (if ieven s then uadd bits modulus (it0 s) else it0 s))
      else Val None.

(* ---------- src/gcd.rs ---------- *)
Definition uint_gcd := gcd.
Definition uint_gcd_extended := gcd_extended.
(* let other = other.checked_div(self.gcd(other)).unwrap_or_default(); self.checked_mul(other) *)
Definition lcm (bits : Z) (a b : list Z) : outcome (option (list Z)) :=
  do g <- gcd bits a b ;
  do other <- (if is_zero bits g then Val (uZERO bits) else udiv b g) ;
  Val (uchecked_mul bits a other).
