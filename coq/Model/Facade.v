(* Model/Facade.v — the alternative surfaces of an operation, each facade body as written:
   src/macros.rs impl_bin_op!, the operator impls of src/bits.rs / add.rs / mul.rs / div.rs,
   src/bit_arr.rs (Bits wrapper), src/support/{num_traits,num_integer,subtle,zeroize}.rs.

   A facade that only forwards is *defined as* the inherent model function of the other
   topics (Model/Add.v, Shift.v, Bits.v, Conv.v, Bytes.v, Mul.v, UDiv.v, Pow.v, Gcd.v, Str.v)
   applied to the arguments in the order the source passes them.  The subtle impls, swap_bytes,
   NumCast, MulAdd, is_multiple_of, inc/dec are real bodies.

   Third-party primitives modelled by their documented meaning: subtle's
   u64::ct_gt (bit-smearing comparison) = `>` on words; Choice = bool with & | !.
   u64::ct_eq and u64::conditional_select are modelled as written in subtle 2.6.1.
   Definitions only. *)
From RV.Model Require Import Base Word.
From RV.Model Require Add Shift Bits Conv Bytes Mul UDiv Pow Gcd BaseConv Str.

(* ---------- one side of a comparison: what a call printed, or that it panicked ---------- *)
Definition side := outcome (list tok).

Definition sU (l : list Z) : side := Val [TL l].
Definition sB (b : bool) : side := Val [TB b].
Definition sZ (z : Z) : side := Val [TZ z].
Definition sY (bs : list Z) : side := Val [TY bs].
Definition opt_toks (o : option (list Z)) : list tok :=
  match o with Some v => [TSome; TL v] | None => [TNone] end.
Definition optz_toks (o : option Z) : list tok :=
  match o with Some v => [TSome; TZ v] | None => [TNone] end.
Definition sOpt (o : option (list Z)) : side := Val (opt_toks o).
Definition sPair (p : list Z * bool) : side := Val [TL (fst p); TB (snd p)].

(* `x as usize` / `x as u64` of any primitive integer (64-bit target): sign-extend, wrap *)
Definition as_usize (n : Z) : Z := modp2 n 64.

(* ---------- src/macros.rs impl_bin_op!($trait, $fn, $trait_assign, $fn_assign, $fdel) ----------
   shape 0: Uint op Uint   -> self.$fdel(rhs)        1: Uint op &Uint  -> self.$fdel( *rhs)
   shape 2: &Uint op Uint  -> self.$fdel(rhs)        3: &Uint op &Uint -> self.$fdel( *rhs)
   shape 4: Uint op= Uint  -> *self = self.$fdel(rhs)   5: Uint op= &Uint -> *self = self.$fdel( *rhs)
   every shape passes (self, rhs) in this order *)
Definition bin_op {A} (fdel : list Z -> list Z -> A) (shape : Z) (self rhs : list Z) : A :=
  fdel self rhs.

Definition op_add bits shape a b := bin_op (Add.wrapping_add bits) shape a b.
Definition op_sub bits shape a b := bin_op (Add.wrapping_sub bits) shape a b.
Definition op_mul bits shape a b := bin_op (Mul.wrapping_mul bits) shape a b.
Definition op_div (shape : Z) a b := bin_op UDiv.wrapping_div shape a b.
Definition op_rem (shape : Z) a b := bin_op UDiv.wrapping_rem shape a b.
(* Neg for Uint / &Uint: self.wrapping_neg() *)
Definition op_neg bits (shape : Z) a := Add.wrapping_neg bits a.
(* Not for Uint: Self::not(self); for &Uint: ( *self).not() *)
Definition op_not bits (shape : Z) a := Bits.unot bits a.

(* src/bits.rs impl_bit_op!: Model/Bits.v bit_op (shape 2 computes rhs op= self) *)
Definition bit_fun (k : Z) : Z -> Z -> Z :=
  if k =? 0 then Z.lor else if k =? 1 then Z.land else Z.lxor.
Definition op_bit (k shape : Z) a b : outcome (list Z) := Bits.bit_op (bit_fun k) shape a b.

(* src/bits.rs impl_shift!: Shl<$u>: self.wrapping_shl(rhs as usize); Shl<&$u>: <Self>::shl(self, *rhs);
   ShlAssign<$u> / ShlAssign<&$u>: *self = *self << rhs *)
Definition op_shl_prim bits (ty shape : Z) a (n : Z) := Shift.wrapping_shl bits a (as_usize n).
Definition op_shr_prim bits (ty shape : Z) a (n : Z) := Shift.wrapping_shr bits a (as_usize n).
(* Shl<Self> (and Shl<&Self>, ShlAssign<Self>, ShlAssign<&Self> which forward to it) *)
Definition op_shl_uint bits (shape : Z) a k := Shift.shl_uint bits a k.
Definition op_shr_uint bits (shape : Z) a k := Shift.shr_uint bits a k.

(* Sum<Self> / Sum<&Self>: iter.fold(Self::ZERO, Self::wrapping_add) *)
Definition it_sum bits (shape : Z) xs := Add.usum bits xs.
(* Product<Self> / Product<&Self>: if BITS == 0 { return ZERO }; iter.fold(ONE, wrapping_mul) *)
Definition it_product bits (shape : Z) xs := Mul.product bits xs.

(* ---------- src/bit_arr.rs: Bits(Uint) ---------- *)
(* forward!: Uint::$fn(self.0, args).into() / .map(Bits::from) / (value.into(), flag):
   the wrapper and `into` are the identity on the limbs *)
Definition wrap_bits {A} (x : A) : A := x.
Definition bw_reverse_bits bits a := wrap_bits (Bits.reverse_bits bits a).
Definition bw_not bits (shape : Z) a := wrap_bits (Bits.unot bits a).      (* self.0.not().into() *)
Definition bw_count bits (k : Z) a : outcome Z :=
  wrap_bits (if k =? 0 then Bits.leading_zeros bits a else if k =? 1 then Bits.leading_ones bits a
             else if k =? 2 then Bits.trailing_zeros bits a else Bits.trailing_ones bits a).
Definition bw_bytes bits (k : Z) a : outcome (list Z) :=
  wrap_bits (if k =? 0 then Val (Bytes.as_le_bytes bits a)
             else if k =? 1 then Val (Bytes.to_be_bytes_vec bits a)
             else if k =? 2 then Bytes.to_le_bytes bits (Bytes.nbytes bits) a
             else Bytes.to_be_bytes bits (Bytes.nbytes bits) a).
Definition bw_checked_shl bits a n := wrap_bits (Shift.checked_shl bits a n).
Definition bw_checked_shr bits a n := wrap_bits (Shift.checked_shr bits a n).
Definition bw_overflowing_shl bits a n := wrap_bits (Shift.overflowing_shl bits a n).
Definition bw_overflowing_shr bits a n := wrap_bits (Shift.overflowing_shr bits a n).
Definition bw_wrapping_shl bits a n := wrap_bits (Shift.wrapping_shl bits a n).
Definition bw_wrapping_shr bits a n := wrap_bits (Shift.wrapping_shr bits a n).
Definition bw_rotate_left bits a n := wrap_bits (Shift.rotate_left bits a n).
Definition bw_rotate_right bits a n := wrap_bits (Shift.rotate_right bits a n).
Definition bw_try_from_be_slice bits bs := wrap_bits (Bytes.try_from_be_slice bits bs).
Definition bw_try_from_le_slice bits bs := wrap_bits (Bytes.try_from_le_slice bits bs).
Definition bw_from_be_bytes bits bs := wrap_bits (Bytes.from_be_bytes bits bs).
Definition bw_from_le_bytes bits bs := wrap_bits (Bytes.from_le_bytes bits bs).
Definition bw_from_limbs bits l := wrap_bits (Conv.from_limbs bits l).
(* forward!: Uint::from_str_radix(src, radix).map(Bits::from); FromStr: src.parse().map(Self) *)
Definition bw_from_str_radix bits cs radix := wrap_bits (Str.from_str_radix bits cs radix).
Definition bw_from_str bits cs := wrap_bits (Str.from_str bits cs).
(* into_inner, as_uint, as_uint_mut, From<Bits> for Uint, as_limbs, as_limbs_mut, Clone *)
Definition bw_ident (k : Z) (a : list Z) := wrap_bits a.
(* Index<usize>: if self.0.bit(index) { &true } else { &false } *)
Definition bw_index bits a idx : outcome bool :=
  do b <- Bits.bit bits a idx; Val (if b then true else false).
(* impl_bit_op! for Bits:
   0: a op b  -> self.0.op_assign(rhs.0)      1: a op &b -> self.0.op_assign(rhs.0)
   2: &a op b -> rhs.0.op_assign(self.0)      3: &a op &b -> self.0.clone().op(rhs.0)
   4: a op= b -> self.0.op_assign(&rhs.0)     5: a op= &b -> self.0.op_assign(rhs.0)
   expressed through the Uint shapes they call: op_assign(Uint) = shape 4, (&Uint) = shape 5,
   Uint op Uint = shape 0 *)
Definition bw_bit (k shape : Z) a b : outcome (list Z) :=
  if shape =? 2 then Bits.bit_op (bit_fun k) 4 b a
  else if shape =? 3 then Bits.bit_op (bit_fun k) 0 a b
  else if shape =? 4 then Bits.bit_op (bit_fun k) 5 a b
  else Bits.bit_op (bit_fun k) 4 a b.
(* impl_shift! for Bits: self.0.shl_assign(rhs) / self.0.shl(rhs).into() with rhs: usize or &usize *)
Definition bw_shl bits (shape : Z) a n := wrap_bits (Shift.shl_prim bits a (as_usize n)).
Definition bw_shr bits (shape : Z) a n := wrap_bits (Shift.shr_prim bits a (as_usize n)).
(* derive(PartialEq) on the single field / on [u64; LIMBS] *)
Definition limbs_eq (a b : list Z) : bool := list_eqb Z.eqb a b.
Definition bw_eq a b := limbs_eq a b.

(* ---------- src/support/num_traits.rs ---------- *)
Definition is_zero bits a : bool := limbs_eq a (uZERO bits).          (* self == &Self::ZERO *)
Definition nt_const bits (k : Z) : list Z :=
  if k =? 0 then uZERO bits else if k =? 1 then Bits.uONE bits
  else if k =? 2 then uZERO bits else uMAX bits.
Definition nt_is_zero bits a := is_zero bits a.
Definition nt_is_one bits a := limbs_eq a (Bits.uONE bits).           (* num-traits default: *self == Self::one() *)
(* FromBytes: Self::try_from_le_slice(bytes).unwrap() *)
Definition unwrap_opt (o : outcome (option (list Z))) : outcome (list Z) :=
  do r <- o; match r with Some v => Val v | None => Panic end.
Definition nt_from_le_bytes bits bs := unwrap_opt (Bytes.try_from_le_slice bits bs).
Definition nt_from_be_bytes bits bs := unwrap_opt (Bytes.try_from_be_slice bits bs).
Definition nt_to_le_bytes bits a := Bytes.to_le_bytes_vec bits a.
Definition nt_to_be_bytes bits a := Bytes.to_be_bytes_vec bits a.
(* <Self>::checked_add( *self, *other) ... *)
Definition nt_checked_add bits a b := Add.checked_add bits a b.
Definition nt_checked_sub bits a b := Add.checked_sub bits a b.
Definition nt_checked_neg bits a := Add.checked_neg bits a.
Definition nt_checked_mul bits a b := Mul.checked_mul bits a b.
Definition nt_checked_div bits a b := UDiv.checked_div bits a b.
Definition nt_checked_rem bits a b := UDiv.checked_rem bits a b.
(* CheckedEuclid: <Self>::checked_div / checked_rem; Euclid: <Self>::wrapping_div / wrapping_rem *)
Definition nt_checked_div_euclid bits a b := UDiv.checked_div bits a b.
Definition nt_checked_rem_euclid bits a b := UDiv.checked_rem bits a b.
Definition nt_div_euclid (a b : list Z) := UDiv.wrapping_div a b.
Definition nt_rem_euclid (a b : list Z) := UDiv.wrapping_rem a b.
Definition nt_inv bits a := Mul.inv_ring bits a.                       (* <Self>::inv_ring(self) *)
Definition nt_saturating_mul bits a b := Mul.saturating_mul bits a b.
Definition nt_wrapping_mul bits a b := Mul.wrapping_mul bits a b.
Definition nt_overflowing_mul bits a b := Mul.overflowing_mul bits a b.
(* Num::from_str_radix(str, radix: u32): <Self>::from_str_radix(str, radix as u64) *)
Definition nt_from_str_radix bits cs (radix : Z) := Str.from_str_radix bits cs (as_usize radix).
Definition nt_pow bits a e := Pow.pow bits a e.                        (* Pow<Self>: <Self>::pow(self, rhs) *)
Definition nt_checked_shl bits a (n : Z) := Shift.checked_shl bits a (as_usize n).   (* other as usize *)
Definition nt_checked_shr bits a (n : Z) := Shift.checked_shr bits a (as_usize n).
(* Saturating (by value) and SaturatingAdd/Sub (by reference): <Self>::saturating_add(self, v) *)
Definition nt_saturating_add bits (k : Z) a b := Add.saturating_add bits a b.
Definition nt_saturating_sub bits (k : Z) a b := Add.saturating_sub bits a b.
Definition nt_wrapping_add bits a b := Add.wrapping_add bits a b.
Definition nt_wrapping_sub bits a b := Add.wrapping_sub bits a b.
Definition nt_wrapping_neg bits a := Add.wrapping_neg bits a.
Definition nt_wrapping_shl bits a (n : Z) := Shift.wrapping_shl bits a (as_usize n).
Definition nt_wrapping_shr bits a (n : Z) := Shift.wrapping_shr bits a (as_usize n).
Definition nt_overflowing_add bits a b := Add.overflowing_add bits a b.
Definition nt_overflowing_sub bits a b := Add.overflowing_sub bits a b.
(* MulAdd: (self * a) + b ; MulAddAssign: *self *= a; *self += b
   (`*` = impl_bin_op!(Mul, .., wrapping_mul), `+` = impl_bin_op!(Add, .., wrapping_add)) *)
Definition nt_mul_add bits (shape : Z) (self a b : list Z) : outcome (list Z) :=
  do p <- Mul.wrapping_mul bits self a;
  Val (op_add bits (if shape =? 0 then 0 else 4) p b).
(* ToPrimitive: self.try_into().ok() *)
Definition from_res_ok {T} (r : Conv.from_res T) : option T :=
  match r with Conv.FOk v => Some v | Conv.FOverflow _ _ _ => None end.
Definition nt_to_prim bits (p : Conv.prim) a : outcome (option Z) :=
  do r <- Conv.try_to_prim bits p a; Val (from_res_ok r).
(* FromPrimitive: Self::try_from(n).ok() *)
Definition to_res_ok (r : Conv.to_res) : option (list Z) :=
  match r with Conv.ROk n => Some n | _ => None end.
Definition nt_from_prim bits (p : Conv.prim) (n : Z) : outcome (option (list Z)) :=
  do r <- Conv.try_from_prim bits p n; Val (to_res_ok r).
(* NumCast::from<T: ToPrimitive>(n): <Self>::try_from(n.to_u128()?).ok();
   to_u128 of a primitive integer: None when negative *)
Definition prim_to_u128 (n : Z) : option Z := if n <? 0 then None else Some n.
Definition nt_numcast bits (n : Z) : outcome (option (list Z)) :=
  match prim_to_u128 n with
  | None => Val None
  | Some v => do r <- Conv.try_from_u128 bits v; Val (to_res_ok r)
  end.
(* PrimInt *)
Definition as_u32 (n : Z) : Z := modp2 n 32.
Definition nt_count bits (k : Z) a : outcome Z :=
  do r <- (if k =? 0 then Val (Bits.count_ones a) else if k =? 1 then Bits.count_zeros bits a
           else if k =? 2 then Bits.leading_zeros bits a else if k =? 3 then Bits.leading_ones bits a
           else if k =? 4 then Bits.trailing_zeros bits a else Bits.trailing_ones bits a);
  Val (as_u32 r).
Definition nt_rotate_left bits a (n : Z) := Shift.rotate_left bits a (as_usize n).
Definition nt_rotate_right bits a (n : Z) := Shift.rotate_right bits a (as_usize n).
Definition nt_signed_shl bits a (n : Z) := Shift.shl_prim bits a (as_usize n).      (* <Self>::shl(self, n as usize) *)
Definition nt_signed_shr bits a (n : Z) := Shift.arithmetic_shr bits a (as_usize n).
Definition nt_unsigned_shl bits a (n : Z) := Shift.shl_prim bits a (as_usize n).
Definition nt_unsigned_shr bits a (n : Z) := Shift.shr_prim bits a (as_usize n).    (* <Self>::shr *)
(* swap_bytes: let mut bytes = self.to_be_bytes_vec(); bytes.reverse();
               Self::try_from_be_slice(&bytes).unwrap() *)
Definition nt_swap_bytes bits a : outcome (list Z) :=
  let bytes := rev (Bytes.to_be_bytes_vec bits a) in
  unwrap_opt (Bytes.try_from_be_slice bits bytes).
(* from_be / to_be: cfg!(target_endian = "big") is false: x.swap_bytes(); from_le / to_le: x *)
Definition nt_to_be bits a := nt_swap_bytes bits a.
Definition nt_to_le (bits : Z) (a : list Z) : outcome (list Z) := Val a.
Definition nt_reverse_bits bits a := Bits.reverse_bits bits a.
(* PrimInt::pow(self, exp: u32): self.pow(Self::from(exp)) — the inherent pow; Uint::from panics
   when exp does not fit BITS *)
Definition prim_u32 : Conv.prim := {| Conv.pw := 32; Conv.psigned := false |}.
Definition nt_pow_u32 bits a (exp : Z) : outcome (list Z) :=
  do e <- Conv.from_of (Conv.try_from_prim bits prim_u32 exp); Pow.pow bits a e.

(* ---------- src/support/num_integer.rs ---------- *)
(* is_multiple_of: if other.is_zero() { return self.is_zero(); } *self % *other == Self::ZERO
   (`%` = impl_bin_op!(Rem, .., wrapping_rem)) *)
Definition ni_is_multiple_of bits (self other : list Z) : outcome bool :=
  if is_zero bits other then Val (is_zero bits self)
  else do r <- UDiv.wrapping_rem self other; Val (limbs_eq r (uZERO bits)).
Definition ni_div_floor (a b : list Z) := UDiv.wrapping_div a b.       (* Self::wrapping_div( *self, *other) *)
Definition ni_mod_floor (a b : list Z) := UDiv.wrapping_rem a b.
Definition ni_gcd bits a b := Gcd.gcd bits a b.
Definition ni_lcm bits a b := unwrap_opt (Gcd.lcm bits a b).           (* <Self>::lcm(..).unwrap() *)
Definition ni_div_rem (a b : list Z) := UDiv.div_rem a b.
Definition ni_div_mod_floor (a b : list Z) := UDiv.div_rem a b.
Definition ni_div_ceil bits a b := UDiv.div_ceil bits a b.
(* let (gcd, x, y, _sign) = <Self>::gcd_extended( *self, *other); ExtendedGcd { gcd, x, y } *)
Definition ni_extended_gcd bits a b : outcome (list Z * list Z * list Z) :=
  do r <- Gcd.gcd_extended bits a b;
  let '(g, x, y, _sign) := r in Val (g, x, y).
Definition ni_is_even bits a : outcome bool := do b <- Bits.bit bits a 0; Val (negb b).
Definition ni_is_odd bits a : outcome bool := Bits.bit bits a 0.
(* inc: *self += Self::ONE; dec: *self -= Self::ONE *)
Definition ni_inc bits a := op_add bits 4 a (Bits.uONE bits).
Definition ni_dec bits a := op_sub bits 4 a (Bits.uONE bits).

(* ---------- src/support/subtle.rs ---------- *)
(* subtle: u64::ct_eq *)
Definition ct_eq64 (a b : Z) : bool :=
  let x := Z.lxor a b in
  let y := shr64 (Z.lor x (wrap (- x))) 63 in
  Z.lxor y 1 =? 1.
(* subtle: u64::ct_gt (documented meaning) and the default ct_lt = !gt & !eq *)
Definition ct_gt64 (a b : Z) : bool := b <? a.
Definition ct_lt64 (a b : Z) : bool := negb (ct_gt64 a b) && negb (ct_eq64 a b).
(* subtle: u64::conditional_select: mask = -(choice as i64) as u64; a ^ (mask & (a ^ b)) *)
Definition select64 (a b : Z) (choice : bool) : Z :=
  let mask := wrap (- b2z choice) in
  Z.lxor a (Z.land mask (Z.lxor a b)).

(* bit_ct: if index >= BITS { return Choice::from(0); }
           (self.limbs[limbs] & (1 << bits)).ct_eq(&(1 << bits))          (after commit 087eea9) *)
Definition ct_bit bits a index : outcome bool :=
  if bits <=? index then Val false
  else
    let '(limbs, b) := (index / 64, index mod 64) in
    do x <- Bits.index a limbs;
    Val (ct_eq64 (Z.land x (shl64 1 b)) (shl64 1 b)).

(* conditional_select: limbs = [0; LIMBS]; zip(limbs.iter_mut(), zip(a, b)) |> select; from_limbs *)
Fixpoint select_zip (a b : list Z) (choice : bool) : list Z :=
  match a, b with
  | x :: a', y :: b' => select64 x y choice :: select_zip a' b' choice
  | _, _ => []
  end.
Definition ct_select bits a b (choice : bool) : outcome (list Z) :=
  let L := nlimbsN bits in
  let s := firstn L (select_zip a b choice) in
  Conv.from_limbs bits (s ++ repeat 0 (L - length s)).
(* default conditional_assign: *self = Self::conditional_select(self, other, choice) *)
Definition ct_assign bits a b choice := ct_select bits a b choice.

(* ConstantTimeEq for [u64]: lengths differ -> 0; x = 1; x &= ai.ct_eq(bi) *)
Fixpoint ct_eq_loop (a b : list Z) (x : bool) : bool :=
  match a, b with
  | ai :: a', bi :: b' => ct_eq_loop a' b' (x && ct_eq64 ai bi)
  | _, _ => x
  end.
Definition ct_eq (a b : list Z) : bool :=
  if negb (Nat.eqb (length a) (length b)) then false else ct_eq_loop a b true.

(* ct_gt / ct_lt: limbs big-endian; greater |= equal & l.ct_gt(r); equal &= l.ct_eq(r) *)
Fixpoint ct_scan (cmp64 : Z -> Z -> bool) (ls rs : list Z) (equal acc : bool) : bool :=
  match ls, rs with
  | l :: ls', r :: rs' =>
      ct_scan cmp64 ls' rs' (equal && ct_eq64 l r) (acc || (equal && cmp64 l r))
  | _, _ => acc
  end.
Definition ct_gt (a b : list Z) : bool := ct_scan ct_gt64 (rev a) (rev b) true false.
Definition ct_lt (a b : list Z) : bool := ct_scan ct_lt64 (rev a) (rev b) true false.

(* ConditionallyNegatable (blanket impl): self_neg = -(&self); self.conditional_assign(&self_neg, choice) *)
Definition ct_negate bits a (choice : bool) : outcome (list Z) :=
  let self_neg := op_neg bits 1 a in
  ct_assign bits a self_neg choice.

(* ---------- src/support/zeroize.rs: as_limbs_mut().zeroize() ---------- *)
Definition zz_zeroize (a : list Z) : list Z := map (fun _ => 0) a.

(* ---------- the inherent comparisons the subtle impls are measured against ---------- *)
(* PartialOrd::gt / lt through Ord::cmp = algorithms::cmp *)
Definition ugt (a b : list Z) : bool := match Add.limbs_cmp a b with Gt => true | _ => false end.
Definition ult (a b : list Z) : bool := match Add.limbs_cmp a b with Lt => true | _ => false end.
(* limb-wise reference of a bit operation: from_limbs(array::from_fn(|i| p[i] op q[i])) *)
Fixpoint map2 (f : Z -> Z -> Z) (a b : list Z) : list Z :=
  match a, b with
  | x :: a', y :: b' => f x y :: map2 f a' b'
  | _, _ => []
  end.
