(* Model/Mul.v — src/mul.rs, line for line.  The limb kernels (addmul, addmul_n) are in
   Model/Limbs.v; `Self::from(2)` is Conv.try_from_prim at i32 (integer-literal fallback);
   `-` is Add.wrapping_sub (impl_bin_op!(Sub, ..., wrapping_sub)).  Definitions only. *)
From RV.Model Require Import Base Word Limbs Add Conv.

(* Uint::apply_mask: if Self::SHOULD_MASK { self.limbs[LIMBS - 1] &= Self::MASK }  (= Base.masked) *)
Definition apply_mask (bits : Z) (l : list Z) : list Z := masked bits l.

(* pub fn overflowing_mul(self, rhs) -> (Self, bool) *)
Definition overflowing_mul (bits : Z) (a b : list Z) : list Z * bool :=
  let result := uZERO bits in
  let '(result, overflow) := addmul result a b in
  if 0 <? bits then
    let overflow := overflow || (mask bits <? last result 0) in   (* result.limbs[LIMBS-1] > MASK *)
    (apply_mask bits result, overflow)
  else (result, overflow).

Definition checked_mul (bits : Z) (a b : list Z) : option (list Z) :=
  match overflowing_mul bits a b with (value, false) => Some value | _ => None end.

Definition saturating_mul (bits : Z) (a b : list Z) : list Z :=
  match overflowing_mul bits a b with (value, false) => value | _ => uMAX bits end.

(* pub fn wrapping_mul: addmul_n asserts equal lengths (Panic), then the mask *)
Definition wrapping_mul (bits : Z) (a b : list Z) : outcome (list Z) :=
  let result := uZERO bits in
  do result <- addmul_n result a b ;
  Val (if 0 <? bits then apply_mask bits result else result).

(* the u64 part of inv_ring, in Wrapping<u64> arithmetic *)
Definition wmul (x y : Z) : Z := (x * y) mod B.
Definition wsub (x y : Z) : Z := (x - y) mod B.
Definition inv64_seed (n : Z) : Z := Z.lxor (wmul n 3) 2.          (* (n * W3) ^ W2 *)
Definition inv64_step (n inv : Z) : Z := wmul inv (wsub 2 (wmul n inv)).   (* inv *= W2 - n * inv *)
Definition inv64 (n : Z) : outcome Z :=
  let inv := inv64_seed n in
  let inv := inv64_step n inv in
  let inv := inv64_step n inv in
  let inv := inv64_step n inv in
  let inv := inv64_step n inv in
  if wmul n inv =? 1 then Val inv else DebugPanic.                 (* debug_assert_eq! *)

(* Self::from(2): the literal falls back to i32; TryFrom<i32> -> u32 -> u64 *)
Definition prim_i32 : prim := {| pw := 32; psigned := true |}.
Definition from_i32 (bits v : Z) : outcome (list Z) := from_of (try_from_prim bits prim_i32 v).

(* while correct_limbs < LIMBS { result *= Self::from(2) - self * result; correct_limbs *= 2 } *)
Fixpoint inv_ring_loop (fuel : nat) (bits : Z) (self result : list Z) (correct_limbs : Z)
  : outcome (list Z) :=
  if correct_limbs <? nlimbs bits then
    match fuel with
    | O => OutOfFuel
    | S fuel' =>
        do two <- from_i32 bits 2 ;
        do p <- wrapping_mul bits self result ;                    (* self * result *)
        let d := Add.wrapping_sub bits two p in                    (* Self::from(2) - ... *)
        do result <- wrapping_mul bits result d ;                  (* result *= ... *)
        inv_ring_loop fuel' bits self result (correct_limbs * 2)
    end
  else Val result.

(* pub fn inv_ring(self) -> Option<Self> *)
Definition inv_ring (bits : Z) (a : list Z) : outcome (option (list Z)) :=
  if bits =? 0 then Val None
  else match a with
  | [] => Panic                                                    (* self.limbs[0] *)
  | a0 :: _ =>
      if Z.land a0 1 =? 0 then Val None
      else
        do inv <- inv64 a0 ;
        match uZERO bits with
        | [] => Panic                                              (* result.limbs[0] = ... *)
        | _ :: zt =>
            let result := inv :: zt in
            (* fuel: correct_limbs doubles from 1, so LIMBS iterations always suffice *)
            do result <- inv_ring_loop (nlimbsN bits) bits a result 1 ;
            Val (Some (apply_mask bits result))
        end
  end.

(* pub fn widening_mul<BITS_RHS, LIMBS_RHS, BITS_RES, LIMBS_RES>.
   `Uint::<BITS_RES, LIMBS_RES>::ZERO` const-evaluates Self::LIMBS, whose assert! fails at
   monomorphisation time when LIMBS_RES != nlimbs(BITS_RES): a compile error, before any
   runtime assert.  Otherwise the two assert_eq! run in order. *)
Definition widening_mul (bits bits_rhs bits_res limbs_res : Z) (a b : list Z) : outcome (list Z) :=
  if negb (limbs_res =? nlimbs bits_res) then CompileError
  else if negb (bits_res =? bits + bits_rhs) then Panic           (* assert_eq!(BITS_RES, BITS + BITS_RHS) *)
  else if negb (limbs_res =? nlimbs bits_res) then Panic          (* assert_eq!(LIMBS_RES, nlimbs(BITS_RES)) *)
  else
    let result := zero_limbs (Z.to_nat limbs_res) in
    let '(result, _) := addmul result a b in
    if 0 <? limbs_res then
      if last result 0 <=? mask bits_res then Val result else DebugPanic
    else Val result.

(* from.rs: pub(crate) const fn const_from_u64(x: u64) -> Self *)
Definition const_from_u64 (bits x : Z) : outcome (list Z) :=
  if (bits =? 0) || ((bits <? 64) && (2 ^ bits <=? x)) then Val (uMAX bits)
  else match zero_limbs (nlimbsN bits) with
       | [] => Panic                                               (* limbs[0] = x *)
       | _ :: t => from_limbs bits (x :: t)
       end.
(* pub const ONE: Self = Self::const_from_u64(1) *)
Definition uONE (bits : Z) : outcome (list Z) := const_from_u64 bits 1.

(* Product<Self> / Product<&Self>: if BITS == 0 { return ZERO }; iter.fold(ONE, wrapping_mul) *)
Fixpoint fold_mul (bits : Z) (xs : list (list Z)) (acc : list Z) : outcome (list Z) :=
  match xs with
  | [] => Val acc
  | x :: t => do r <- wrapping_mul bits acc x ; fold_mul bits t r
  end.
Definition product (bits : Z) (xs : list (list Z)) : outcome (list Z) :=
  if bits =? 0 then Val (uZERO bits)
  else do one <- uONE bits ; fold_mul bits xs one.
