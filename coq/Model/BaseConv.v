(* Model/BaseConv.v — src/base_convert.rs, line for line.
   to_base_le / SpigotLittle::next, to_base_be, from_base_le, from_base_be, BaseConvertError. *)
From RV.Model Require Import Base Word Limbs.

(* BaseConvertError *)
Inductive bcerr : Type :=
| BOverflow
| BInvalidBase (b : Z)
| BInvalidDigit (d b : Z).

(* Result<T, E> *)
Inductive res (E A : Type) : Type := Ok (a : A) | Err (e : E).
Arguments Ok {E A} a.
Arguments Err {E A} e.

(* ---------- SpigotLittle::next ----------
   for limb in self.limbs.iter_mut().rev() {
       zero |= limb;
       remainder = (remainder << 64) | u128::from(limb);
       limb = (remainder / u128::from(self.base)) as u64;
       remainder %= u128::from(self.base);
   }
   The list is the limbs most significant first. `/` and `%` by zero panic in Rust. *)
Fixpoint spigot_loop (rl : list Z) (base zero rem : Z) : outcome (list Z * Z * Z) :=
  match rl with
  | [] => Val ([], zero, rem)
  | x :: t =>
      let zero := Z.lor zero x in
      let remainder := Z.lor ((rem * B) mod BB) x in
      if base =? 0 then Panic
      else
        let q := (remainder / base) mod B in
        let rem := remainder mod base in
        do r <- spigot_loop t base zero rem ;
        let '(t', z, rm) := r in Val (q :: t', z, rm)
  end.

(* returns the updated limbs and the item *)
Definition spigot_next (base : Z) (limbs : list Z) : outcome (list Z * option Z) :=
  do r <- spigot_loop (rev limbs) base 0 0 ;
  let '(rl, zero, rem) := r in
  Val (rev rl, if zero =? 0 then None else Some (rem mod B)).

(* Iterator::collect on the spigot; the fuel is a model artefact *)
Fixpoint spigot_collect (fuel : nat) (base : Z) (limbs : list Z) : outcome (list Z) :=
  match fuel with
  | O => OutOfFuel
  | S f =>
      do r <- spigot_next base limbs ;
      match r with
      | (_, None) => Val []
      | (limbs', Some d) => do ds <- spigot_collect f base limbs' ; Val (d :: ds)
      end
  end.

Definition spigot_fuel (limbs : list Z) : nat := S (64 * length limbs).

(* to_base_le: assert!(base > 1); SpigotLittle { base, limbs }  (collected by the harness) *)
Definition to_base_le (limbs : list Z) (base : Z) : outcome (list Z) :=
  if 1 <? base then spigot_collect (spigot_fuel limbs) base limbs else Panic.

(* to_base_be: assert!(base > 1); vec = self.to_base_le(base).collect(); next = vec.pop() *)
Definition to_base_be (limbs : list Z) (base : Z) : outcome (list Z) :=
  if 1 <? base then do v <- to_base_le limbs base ; Val (rev v) else Panic.

(* ---------- from_base_le ---------- *)
(* the two "following digits must be zero" loops *)
Fixpoint fble_zero_tail (base : Z) (ds : list Z) : option bcerr :=
  match ds with
  | [] => None
  | d :: t =>
      if base <=? d then Some (BInvalidDigit d base)
      else if negb (d =? 0) then Some BOverflow
      else fble_zero_tail base t
  end.

Definition uONE (bits : Z) : list Z :=       (* Self::ONE for BITS > 0 *)
  match nlimbsN bits with
  | O => []
  | S n => 1 :: repeat 0 n
  end.

Fixpoint fble_loop (bits base : Z) (ds result power : list Z) : outcome (res bcerr (list Z)) :=
  match ds with
  | [] => Val (Ok result)
  | d :: t =>
      if base <=? d then Val (Err (BInvalidDigit d base))
      else
        do r <- addmul_nx1 result power d ;
        let '(result, overflow) := r in
        if negb (overflow =? 0) || (mask bits <? last result 0) then Val (Err BOverflow)
        else
          let '(power, overflow) := mul_nx1 power base in
          if negb (overflow =? 0) || (mask bits <? last power 0) then
            (* break; for digit in iter { ... } *)
            match fble_zero_tail base t with
            | Some e => Val (Err e)
            | None => Val (Ok result)
            end
          else fble_loop bits base t result power
  end.

Definition from_base_le (bits base : Z) (ds : list Z) : outcome (res bcerr (list Z)) :=
  if base <? 2 then Val (Err (BInvalidBase base))
  else if bits =? 0 then
    match fble_zero_tail base ds with
    | Some e => Val (Err e)
    | None => Val (Ok (uZERO bits))
    end
  else fble_loop bits base ds (uZERO bits) (uONE bits).

(* ---------- from_base_be ---------- *)
(* for limb in &mut result.limbs { carry += limb * base; limb = carry as u64; carry >>= 64 }
   (u128 arithmetic; the product of two u64 always fits, the sum is overflow-checked) *)
Fixpoint fbbe_inner (limbs : list Z) (base carry : Z) : outcome (list Z * Z) :=
  match limbs with
  | [] => Val ([], carry)
  | x :: t =>
      let c := carry + x * base in
      if BB <=? c then DebugPanic
      else
        do r <- fbbe_inner t base (c / B) ;
        Val (c mod B :: fst r, snd r)
  end.

Fixpoint fbbe_loop (bits base : Z) (ds result : list Z) : outcome (res bcerr (list Z)) :=
  match ds with
  | [] => Val (Ok result)
  | d :: t =>
      if base <=? d then Val (Err (BInvalidDigit d base))
      else
        do r <- fbbe_inner result base d ;
        let '(result, carry) := r in
        if (0 <? carry) || (negb (Nat.eqb (length result) 0) && (mask bits <? last result 0))
        then Val (Err BOverflow)
        else fbbe_loop bits base t result
  end.

Definition from_base_be (bits base : Z) (ds : list Z) : outcome (res bcerr (list Z)) :=
  if base <? 2 then Val (Err (BInvalidBase base))
  else fbbe_loop bits base ds (uZERO bits).
