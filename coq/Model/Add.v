(* Model/Add.v — src/add.rs, src/cmp.rs and algorithms::cmp, line for line. *)
From RV.Model Require Import Base Word.

(* algorithms::cmp: compare the common prefix from the most significant end,
   then the lengths.  Returned as a Coq comparison. *)
Fixpoint cmp_rev (l r : list Z) : comparison :=   (* l, r most significant first *)
  match l, r with
  | x :: l', y :: r' =>
      if y <? x then Gt else if x <? y then Lt else cmp_rev l' r'
  | _, _ => Eq
  end.
Definition limbs_cmp (left right : list Z) : comparison :=
  let l := Nat.min (length left) (length right) in
  match cmp_rev (rev (firstn l left)) (rev (firstn l right)) with
  | Eq => Nat.compare (length left) (length right)
  | c => c
  end.
Definition ult (a b : list Z) : bool :=
  match limbs_cmp a b with Lt => true | _ => false end.

(* while i < LIMBS { (self.limbs[i], carry) = carrying_add(self.limbs[i], rhs.limbs[i], carry) } *)
Fixpoint add_loop (a b : list Z) (carry : bool) : list Z * bool :=
  match a, b with
  | x :: a', y :: b' =>
      let '(r, c) := carrying_add x y carry in
      let '(rs, c') := add_loop a' b' c in (r :: rs, c')
  | _, _ => ([], carry)
  end.
Fixpoint sub_loop (a b : list Z) (borrow : bool) : list Z * bool :=
  match a, b with
  | x :: a', y :: b' =>
      let '(r, c) := borrowing_sub x y borrow in
      let '(rs, c') := sub_loop a' b' c in (r :: rs, c')
  | _, _ => ([], borrow)
  end.

Definition overflowing_add (bits : Z) (a b : list Z) : list Z * bool :=
  if bits =? 0 then (uZERO bits, false)
  else
    let '(r, carry) := add_loop a b false in
    let overflow := carry || (mask bits <? last r 0) in
    (masked bits r, overflow).

Definition overflowing_sub (bits : Z) (a b : list Z) : list Z * bool :=
  if bits =? 0 then (uZERO bits, false)
  else
    let '(r, borrow) := sub_loop a b false in
    let overflow := borrow || (mask bits <? last r 0) in
    (masked bits r, overflow).

Definition overflowing_neg (bits : Z) (a : list Z) : list Z * bool :=
  overflowing_sub bits (uZERO bits) a.

Definition checked_of (p : list Z * bool) : option (list Z) :=
  match p with (v, false) => Some v | _ => None end.

Definition checked_add bits a b := checked_of (overflowing_add bits a b).
Definition checked_sub bits a b := checked_of (overflowing_sub bits a b).
Definition checked_neg bits a := checked_of (overflowing_neg bits a).
Definition saturating_add bits a b :=
  match overflowing_add bits a b with (v, false) => v | _ => uMAX bits end.
Definition saturating_sub bits a b :=
  match overflowing_sub bits a b with (v, false) => v | _ => uZERO bits end.
Definition wrapping_add bits a b := fst (overflowing_add bits a b).
Definition wrapping_sub bits a b := fst (overflowing_sub bits a b).
Definition wrapping_neg bits a := fst (overflowing_neg bits a).
Definition abs_diff bits a b :=
  if ult a b then wrapping_sub bits b a else wrapping_sub bits a b.
(* Sum: iter.fold(ZERO, wrapping_add) *)
Definition usum bits (xs : list (list Z)) : list Z :=
  fold_left (wrapping_add bits) xs (uZERO bits).
