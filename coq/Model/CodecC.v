(* Model/CodecC.v — ruint's glue for num-bigint, primitive-types, bytemuck, postgres and
   ark-ff 0.3 / 0.4 (src/support/{num_bigint,primitive_types,bytemuck,postgres,ark_ff,
   ark_ff_04}.rs), as written.  Definitions only.

   Third-party types are modelled from their documented representation:
     BigUint / BigInt           = the integer (Z); `to_u64_digits` = its base-2^64 digits, least
                                  significant first, no trailing zero digit ([] for 0);
                                  `from_bytes_le` = the value of the little-endian byte string
     primitive-types U128/256/512, ark BigInteger* / BigInt<N> = the little-endian limb array
     primitive-types H128/160/256/512 = the byte array
     bytemuck Pod casts         = reinterpretation of the limb array as memory (little endian)
     ark Fp<P>                  = the residue x < p; from_repr/from_bigint(b) = Some b iff b < p,
                                  into_repr/into_bigint = the limbs of x
     BytesMut::put_{u8,i16,i32,u32,i64,f32,f64,slice} = append the big-endian bytes
     postgres_types::Type       = a small integer code (see ty_* below)
   Everything ruint itself computes (indexing, unwrap, `?`, checked arithmetic, shifts, the
   calls into bytes.rs / from.rs / base_convert.rs / string.rs / fmt.rs) is an explicit outcome. *)
From RV.Model Require Import Base Word.
From RV.Model Require Bytes Conv BaseConv Str Fmt Float.
Import BaseConv(res, Ok, Err).

(* ---------- Result<_, _> plumbing ---------- *)
(* `?` inside an outcome *)
Definition rbind {E A C} (o : outcome (res E A)) (f : A -> outcome (res E C)) : outcome (res E C) :=
  do r <- o ; match r with Ok a => f a | Err e => Val (Err e) end.
Notation "'try' x <- o ; k" := (rbind o (fun x => k))
  (at level 200, x pattern, o at level 100, k at level 200, right associativity).

(* ToUintError<Uint> *)
Inductive uerr : Type :=
| UTooLarge (bits : Z) (n : list Z)
| UNegative (bits : Z) (n : list Z)
| UNaN (bits : Z).

Definition of_to_res (r : Conv.to_res) : res uerr (list Z) :=
  match r with
  | Conv.ROk n => Ok n
  | Conv.RTooLarge b n => Err (UTooLarge b n)
  | Conv.RNegative b n => Err (UNegative b n)
  end.
Definition of_float_res (r : Float.to_uint_result) : res uerr (list Z) :=
  match r with
  | Float.TOk n => Ok n
  | Float.ValueTooLarge b n => Err (UTooLarge b n)
  | Float.ValueNegative b n => Err (UNegative b n)
  | Float.NotANumber b => Err (UNaN b)
  end.

(* primitive types used below *)
Definition p_i16 : Conv.prim := {| Conv.pw := 16; Conv.psigned := true |}.
Definition p_i32 : Conv.prim := {| Conv.pw := 32; Conv.psigned := true |}.
Definition p_u32 : Conv.prim := {| Conv.pw := 32; Conv.psigned := false |}.
Definition p_i64 : Conv.prim := {| Conv.pw := 64; Conv.psigned := true |}.

(* ====================================================================================== *)
(* num-bigint                                                                             *)
(* ====================================================================================== *)
(* BigUint::to_u64_digits (third party): base-2^64 digits of v >= 0, no trailing zeros *)
Fixpoint u64_digits_fuel (n : nat) (v : Z) : list Z :=
  match n with
  | O => []
  | S n' => if v <=? 0 then [] else modp2 v 64 :: u64_digits_fuel n' (divp2 v 64)
  end.
Definition to_u64_digits (v : Z) : list Z :=
  u64_digits_fuel (S (Z.to_nat (Z.log2 v / 64))) v.

(* impl TryFrom<&BigUint> (TryFrom<BigUint> delegates to it) *)
Definition try_from_biguint (bits : Z) (v : Z) : outcome (res uerr (list Z)) :=
  do p <- Conv.overflowing_from_limbs_slice bits (to_u64_digits v) ;
  let '(n, overflow) := p in
  if overflow then Val (Err (UTooLarge bits n)) else Val (Ok n).

(* impl TryFrom<&BigInt>: (sign, digits) = value.to_u64_digits() *)
Definition try_from_bigint (bits : Z) (v : Z) : outcome (res uerr (list Z)) :=
  let minus := v <? 0 in
  let digits := to_u64_digits (Z.abs v) in
  do p <- Conv.overflowing_from_limbs_slice bits digits ;
  let '(n, overflow) := p in
  if minus then Val (Err (UNegative bits n))
  else if overflow then Val (Err (UTooLarge bits n))
  else Val (Ok n).

(* impl From<&Uint> for BigUint: BigUint::from_bytes_le(&value.as_le_bytes()) *)
Definition to_biguint (bits : Z) (a : list Z) : Z := Bytes.le_value (Bytes.as_le_bytes bits a).
(* impl From<&Uint> for BigInt: BigInt::from_bytes_le(Sign::Plus, ..): (sign, magnitude);
   num-bigint normalises the sign of zero to NoSign.  0 NoSign, 1 Plus, 2 Minus *)
Definition to_bigint (bits : Z) (a : list Z) : Z * Z :=
  let m := to_biguint bits a in ((if m =? 0 then 0 else 1), m).

(* ====================================================================================== *)
(* primitive-types                                                                        *)
(* ====================================================================================== *)
(* impl From<U128|U256|U512> for Uint: Self::from_limbs(value.0) *)
Definition pt_from (bits : Z) (l : list Z) : outcome (list Z) := Conv.from_limbs bits l.
(* impl From<Uint> for U*: $theirs(value.into_limbs()) *)
Definition pt_to (a : list Z) : list Z := a.
(* impl From<H*> for Bits: Self::from_be_bytes(value.0) (forwarded to Uint::from_be_bytes) *)
Definition pth_from (bits : Z) (bytes : list Z) : outcome (list Z) := Bytes.from_be_bytes bits bytes.
(* impl From<Bits> for H*: Self::from(value.to_be_bytes()) *)
Definition pth_to (bits : Z) (a : list Z) : outcome (list Z) :=
  Bytes.to_be_bytes bits (Bytes.nbytes bits) a.

(* ====================================================================================== *)
(* bytemuck: unsafe impl Zeroable (all widths), Pod (BITS = 64 k, k = 1..16)              *)
(* ====================================================================================== *)
(* fn zeroed() -> Self { Self::ZERO } *)
Definition bm_zeroed (bits : Z) : list Z := uZERO bits.
Definition bm_bytes_of (a : list Z) : list Z := Bytes.limb_bytes a.
(* try_pod_read_unaligned::<Uint>: SizeMismatch unless len = size_of::<Uint>() = 8 LIMBS *)
Definition bm_read (bits : Z) (bytes : list Z) : res unit (list Z) :=
  if lenZ bytes =? 8 * nlimbs bits then Ok (Bytes.le_fast_loop (nlimbsN bits) 0 bytes)
  else Err tt.
(* cast::<Uint, [u64; LIMBS]> and back *)
Definition bm_cast (l : list Z) : list Z := l.

(* ====================================================================================== *)
(* ark-ff 0.3 (fixed widths) and 0.4 (BigInt<LIMBS> <-> Uint<BITS, LIMBS>, any BITS)      *)
(* ====================================================================================== *)
(* impl From<BigInteger*> / From<BigInt<LIMBS>> for Uint: Self::from_limbs(value.0) *)
Definition ark_from (bits : Z) (l : list Z) : outcome (list Z) := Conv.from_limbs bits l.
(* impl From<Uint> for BigInteger* / BigInt<LIMBS>: Self(value.into_limbs()) *)
Definition ark_to (a : list Z) : list Z := a.
(* third party: PrimeField::from_repr / from_bigint, into_repr / into_bigint for modulus p *)
Definition fp_from_repr (p : Z) (l : list Z) : option Z :=
  if eval l <? p then Some (eval l) else None.
Definition fp_into_repr (n : nat) (x : Z) : list Z := to_limbs n x.
(* impl TryFrom<Uint> for Fp: Self::from_repr(value.into()).ok_or(ToFieldError::NotInField) *)
Definition ark_fp_try_from (p : Z) (a : list Z) : res unit Z :=
  match fp_from_repr p (ark_to a) with Some x => Ok x | None => Err tt end.
(* impl From<Fp> for Uint: value.into_repr().into() *)
Definition ark_fp_into (bits : Z) (x : Z) : outcome (list Z) :=
  ark_from bits (fp_into_repr (nlimbsN bits) x).

(* ====================================================================================== *)
(* postgres                                                                               *)
(* ====================================================================================== *)
(* postgres_types::Type codes *)
Definition ty_BOOL := 0.   Definition ty_INT2 := 1.    Definition ty_INT4 := 2.
Definition ty_OID := 3.    Definition ty_INT8 := 4.    Definition ty_FLOAT4 := 5.
Definition ty_FLOAT8 := 6. Definition ty_MONEY := 7.   Definition ty_BYTEA := 8.
Definition ty_BIT := 9.    Definition ty_VARBIT := 10. Definition ty_CHAR := 11.
Definition ty_TEXT := 12.  Definition ty_VARCHAR := 13. Definition ty_JSON := 14.
Definition ty_JSONB := 15. Definition ty_NUMERIC := 16.
(* 17 TIMESTAMP, 18 UUID: any other type *)

(* fn accepts(ty) *)
Definition pg_accepts (ty : Z) : bool := (0 <=? ty) && (ty <=? 16).

(* utils::rem_up(a, b): `a % b` panics when b = 0 *)
Definition rem_up (a b : Z) : outcome Z :=
  if b =? 0 then Panic else
  let r := a mod b in if 0 <? r then Val r else Val b.

(* BufMut::put_* : n big-endian bytes of x (two's complement) *)
Definition put_be (n : nat) (x : Z) : list Z := rev (Bytes.le_digits n x).
(* {i16,i32,u32,i64}::from_be_bytes / f32::from_be_bytes().to_bits() *)
Definition be_uval (bs : list Z) : Z := Bytes.le_value (rev bs).

(* u8 << s, u8 >> s : the shift amount is overflow-checked, shifted-out bits are dropped *)
Definition shl8 (x s : Z) : outcome Z :=
  if (0 <=? s) && (s <? 8) then Val ((x * 2 ^ s) mod 256) else DebugPanic.
Definition shr8 (x s : Z) : outcome Z :=
  if (0 <=? s) && (s <? 8) then Val (x / 2 ^ s) else DebugPanic.

Inductive tserr : Type :=       (* the boxed errors of to_sql *)
| TSFromUint                    (* FromUintError<_> from bool/i16/i32/u32/i64::try_from *)
| TSOverflow                    (* ToSqlError::Overflow *)
| TSWrongType                   (* WrongType *)
| TSInt.                        (* TryFromIntError *)

(* `x.try_into()?` for the integer column types *)
Definition to_int (bits : Z) (p : Conv.prim) (a : list Z) : outcome (res tserr Z) :=
  do r <- Conv.try_to_prim bits p a ;
  match r with Conv.FOk v => Val (Ok v) | Conv.FOverflow _ _ _ => Val (Err TSFromUint) end.

(* the BIT / VARBIT loop: bytes = the remaining big-endian bytes *)
Fixpoint bit_loop (bytes : list Z) (padding shifted : Z) : outcome (list Z) :=
  match bytes with
  | [] => Val [shifted]                               (* out.put_u8(shifted) after the loop *)
  | byte :: t =>
      do hi <- (if 0 <? padding then shr8 byte (8 - padding) else Val 0) ;
      let s := Z.lor shifted hi in
      do sh <- shl8 byte padding ;
      do r <- bit_loop t padding sh ;
      Val (s :: r)                                    (* out.put_u8(shifted) *)
  end.

(* `{self:#x}` *)
Definition hex_alt : Fmt.fspec :=
  {| Fmt.f_plus := false; Fmt.f_alt := true; Fmt.f_zero := false; Fmt.f_width := None;
     Fmt.f_fill := [32]; Fmt.f_align := 0 |}.

(* NUMERIC digits: debug_assert!(digit < BASE); out.put_i16(digit as i16) *)
Fixpoint put_digits (ds : list Z) : outcome (list Z) :=
  match ds with
  | [] => Val []
  | d :: t =>
      do r <- put_digits t ;
      if d <? 10000 then Val (put_be 2 d ++ r) else DebugPanic
  end.

(* ToSql::to_sql(&self, ty, out): Ok = the bytes appended to `out`.  Every error path returns
   before anything is written, so `out` is unchanged on Err. *)
Definition pg_to_sql (bits ty : Z) (a : list Z) : outcome (res tserr (list Z)) :=
  if ty =? ty_BOOL then
    do r <- Conv.try_to_bool bits a ;
    match r with
    | Conv.FOk b => Val (Ok [b2z b])
    | Conv.FOverflow _ _ _ => Val (Err TSFromUint)
    end
  else if ty =? ty_INT2 then try v <- to_int bits p_i16 a ; Val (Ok (put_be 2 v))
  else if ty =? ty_INT4 then try v <- to_int bits p_i32 a ; Val (Ok (put_be 4 v))
  else if ty =? ty_OID then try v <- to_int bits p_u32 a ; Val (Ok (put_be 4 v))
  else if ty =? ty_INT8 then try v <- to_int bits p_i64 a ; Val (Ok (put_be 8 v))
  else if ty =? ty_FLOAT4 then
    do f <- Float.to_float 24 128 a ; Val (Ok (put_be 4 (Float.encode 24 128 f)))
  else if ty =? ty_FLOAT8 then
    do f <- Float.to_float 53 1024 a ; Val (Ok (put_be 8 (Float.encode 53 1024 f)))
  else if ty =? ty_MONEY then
    try v <- to_int bits p_i64 a ;
    (* checked_mul(100).ok_or_else(|| ToSqlError::Overflow(..))? *)
    if (v * 100 <? - 2 ^ 63) || (2 ^ 63 <=? v * 100) then Val (Err TSOverflow)
    else Val (Ok (put_be 8 (v * 100)))
  else if ty =? ty_BYTEA then Val (Ok (Bytes.to_be_bytes_vec bits a))
  else if (ty =? ty_BIT) || (ty =? ty_VARBIT) then
    if bits =? 0 then
      if ty =? ty_BIT then Val (Err TSWrongType) else Val (Ok (put_be 4 0))
    else
      do r <- rem_up bits 8 ;
      do padding <- Bytes.usub 8 r ;
      (* Self::BITS.try_into()? : usize -> i32 *)
      if 2 ^ 31 <=? bits then Val (Err TSInt)
      else
        let hdr := put_be 4 bits in
        match rev (Bytes.as_le_bytes bits a) with       (* bytes.iter().rev() *)
        | [] => Panic                                   (* bytes.next().unwrap() *)
        | b0 :: rest =>
            do shifted <- shl8 b0 padding ;
            do body <- bit_loop rest padding shifted ;
            Val (Ok (hdr ++ body))
        end
  else if (ty =? ty_CHAR) || (ty =? ty_TEXT) || (ty =? ty_VARCHAR) then
    do s <- Fmt.fmt bits 2 hex_alt a ; Val (Ok s)
  else if (ty =? ty_JSON) || (ty =? ty_JSONB) then
    let ver := if ty =? ty_JSONB then [1] else [] in
    do s <- Fmt.fmt bits 2 hex_alt a ; Val (Ok (ver ++ [34] ++ s ++ [34]))
  else if ty =? ty_NUMERIC then
    do digits <- BaseConv.to_base_be a 10000 ;
    (* digits.len().saturating_sub(1).try_into()? : usize -> i16 *)
    let exponent := Z.max (lenZ digits - 1) 0 in
    if 2 ^ 15 <=? exponent then Val (Err TSInt)
    else
      (* trim_end_vec(&mut digits, &0): `rev` because the vector is big endian *)
      let digits := Bytes.trim_end_vec digits 0 in
      (* digits.len().try_into()? *)
      if 2 ^ 15 <=? lenZ digits then Val (Err TSInt)
      else
        do body <- put_digits digits ;
        Val (Ok (put_be 2 (lenZ digits) ++ put_be 2 exponent ++ put_be 2 0 ++ put_be 2 0 ++ body))
  else Val (Err TSWrongType).

Inductive fserr : Type :=       (* the boxed errors of from_sql *)
| FSOverflow                    (* FromSqlError::Overflow *)
| FSParse                       (* FromSqlError::ParseError *)
| FSWrongType                   (* WrongType *)
| FSSlice                       (* TryFromSliceError: raw.try_into() to [u8; N] *)
| FSUint (e : uerr)             (* ToUintError<Self> *)
| FSInt                         (* TryFromIntError: i32 -> usize *)
| FSUtf8                        (* Utf8Error *)
| FSStr (e : Str.perr)          (* ruint::ParseError *)
| FSBase (e : BaseConv.bcerr).  (* BaseConvertError *)

(* $int::from_be_bytes(raw.try_into()?) : the value, sign-interpreted *)
Definition int_from_be (p : Conv.prim) (raw : list Z) : res fserr Z :=
  if lenZ raw =? Conv.pw p / 8 then Ok (Conv.cast p (be_uval raw)) else Err FSSlice.

Definition lift_uint (o : outcome Conv.to_res) : outcome (res fserr (list Z)) :=
  do r <- o ; match of_to_res r with Ok n => Val (Ok n) | Err e => Val (Err (FSUint e)) end.
Definition lift_float (o : outcome Float.to_uint_result) : outcome (res fserr (list Z)) :=
  do r <- o ; match of_float_res r with Ok n => Val (Ok n) | Err e => Val (Err (FSUint e)) end.

(* for i in (1..raw.len()).rev() { raw[i] = (raw[i] >> padding) | (raw[i-1] << (8 - padding)) }
   k = the current i (counting down to 1) *)
Fixpoint unshift_loop (k : nat) (raw : list Z) (padding : Z) : outcome (list Z) :=
  match k with
  | O => Val raw
  | S k' =>
      let i := Z.of_nat k in
      do x <- Bytes.idx raw i ;
      do lo <- shr8 x padding ;
      do j <- Bytes.usub i 1 ;
      do y <- Bytes.idx raw j ;
      do s <- Bytes.usub 8 padding ;
      do hi <- shl8 y s ;
      do raw <- Bytes.upd raw i (Z.lor lo hi) ;
      unshift_loop k' raw padding
  end.

(* raw.chunks_exact(2).filter_map(..): the digits before the first invalid one, and `error` *)
Fixpoint numeric_scan (raw : list Z) : list Z * bool :=
  match raw with
  | b0 :: b1 :: t =>
      let digit := Conv.cast p_i16 (be_uval [b0; b1]) in
      if (0 <=? digit) && (digit <? 10000) then
        let '(ds, e) := numeric_scan t in (digit :: ds, e)
      else ([], true)
  | _ => ([], false)
  end.

Definition strip_jsonb (ty : Z) (raw : list Z) : res fserr (list Z) :=
  if ty =? ty_JSONB then
    match raw with
    | 1 :: rest => Ok rest
    | _ => Err FSParse
    end
  else Ok raw.

(* str.len(): bytes *)
Definition str_len (cs : list Z) : Z := fold_right (fun c n => Str.utf8_len c + n) 0 cs.
(* if str.len() >= 2 && str.starts_with('"') && str.ends_with('"') { &str[1..str.len() - 1] }
   (byte indices; both quotes are one byte long, so with len >= 2 they are two different chars
   and the range is the chars between them; a range that is not one is a panic) *)
Definition strip_quotes (cs : list Z) : outcome (list Z) :=
  if (2 <=? str_len cs) && (hd 0 cs =? 34) && (last cs 0 =? 34) then
    match cs with
    | _ :: ((_ :: _) as t) => Val (removelast t)
    | _ => Panic
    end
  else Val cs.

Definition from_str_res (bits : Z) (cs : list Z) : outcome (res fserr (list Z)) :=
  do r <- Str.from_str bits cs ;
  match r with Ok v => Val (Ok v) | Err e => Val (Err (FSStr e)) end.

(* FromSql::from_sql(ty, raw) *)
Definition pg_from_sql (bits ty : Z) (raw : list Z) : outcome (res fserr (list Z)) :=
  if ty =? ty_BOOL then
    match raw with
    | [0] => Val (Ok (uZERO bits))
    | [1] => lift_uint (Conv.try_from_prim bits p_i32 1)      (* Self::try_from(1)? *)
    | _ => Val (Err FSParse)
    end
  else if ty =? ty_INT2 then
    match int_from_be p_i16 raw with
    | Ok x => lift_uint (Conv.try_from_prim bits p_i16 x) | Err e => Val (Err e) end
  else if ty =? ty_INT4 then
    match int_from_be p_i32 raw with
    | Ok x => lift_uint (Conv.try_from_prim bits p_i32 x) | Err e => Val (Err e) end
  else if ty =? ty_OID then
    match int_from_be p_u32 raw with
    | Ok x => lift_uint (Conv.try_from_prim bits p_u32 x) | Err e => Val (Err e) end
  else if ty =? ty_INT8 then
    match int_from_be p_i64 raw with
    | Ok x => lift_uint (Conv.try_from_prim bits p_i64 x) | Err e => Val (Err e) end
  else if ty =? ty_FLOAT4 then
    if lenZ raw =? 4 then lift_float (Float.uint_try_from_f32 bits (be_uval raw))
    else Val (Err FSSlice)
  else if ty =? ty_FLOAT8 then
    if lenZ raw =? 8 then lift_float (Float.uint_try_from_f64 bits (be_uval raw))
    else Val (Err FSSlice)
  else if ty =? ty_MONEY then
    match int_from_be p_i64 raw with
    | Ok x => lift_uint (Conv.try_from_prim bits p_i64 (x / 100))   (* div_euclid(100): floor *)
    | Err e => Val (Err e)
    end
  else if ty =? ty_BYTEA then
    do o <- Bytes.try_from_be_slice bits raw ;
    match o with Some v => Val (Ok v) | None => Val (Err FSOverflow) end
  else if (ty =? ty_BIT) || (ty =? ty_VARBIT) then
    if lenZ raw <? 4 then Val (Err FSParse)
    else
      do h <- Bytes.slice_to raw 4 ;
      let len := Conv.cast p_i32 (be_uval h) in
      if len <? 0 then Val (Err FSInt)                      (* i32 -> usize *)
      else
        do raw <- Bytes.slice_from raw 4 ;
        if negb (lenZ raw =? (len + 7) / 8) then Val (Err FSParse)
        else
          do r <- rem_up len 8 ;
          do padding <- Bytes.usub 8 r ;
          do raw <- (if 0 <? padding then
                       do raw <- unshift_loop (length raw - 1) raw padding ;
                       do r0 <- Bytes.idx raw 0 ;
                       do r0 <- shr8 r0 padding ;
                       Bytes.upd raw 0 r0
                     else Val raw) ;
          do o <- Bytes.try_from_be_slice bits raw ;
          match o with Some v => Val (Ok v) | None => Val (Err FSOverflow) end
  else if (ty =? ty_CHAR) || (ty =? ty_TEXT) || (ty =? ty_VARCHAR) then
    match Str.utf8_decode raw with
    | None => Val (Err FSUtf8)
    | Some cs => from_str_res bits cs
    end
  else if (ty =? ty_JSON) || (ty =? ty_JSONB) then
    match strip_jsonb ty raw with
    | Err e => Val (Err e)
    | Ok raw =>
        match Str.utf8_decode raw with
        | None => Val (Err FSUtf8)
        | Some cs => do cs <- strip_quotes cs ; from_str_res bits cs
        end
    end
  else if ty =? ty_NUMERIC then
    if lenZ raw <? 8 then Val (Err FSParse)
    else
      do h0 <- Bytes.slice_to raw 2 ;
      do t <- Bytes.slice_from raw 2 ; do h1 <- Bytes.slice_to t 2 ;
      do t <- Bytes.slice_from raw 4 ; do h2 <- Bytes.slice_to t 2 ;
      do t <- Bytes.slice_from raw 6 ; do h3 <- Bytes.slice_to t 2 ;
      let digits := Conv.cast p_i16 (be_uval h0) in
      let exponent := Conv.cast p_i16 (be_uval h1) in
      let sign := Conv.cast p_i16 (be_uval h2) in
      let dscale := Conv.cast p_i16 (be_uval h3) in
      do raw <- Bytes.slice_from raw 8 ;
      if (digits <? 0) || (exponent <? 0) || negb (sign =? 0) || negb (dscale =? 0)
         || (exponent + 1 <? digits)                         (* computed in i32: no overflow *)
         || negb (lenZ raw =? digits * 2)
      then Val (Err FSParse)
      else
        let '(ds, error) := numeric_scan raw in
        let zeros := exponent + 1 - digits in
        do r <- BaseConv.from_base_be bits 10000 (ds ++ repeat 0 (Z.to_nat zeros)) ;
        match r with
        | Err e => Val (Err (FSBase e))                       (* `?` *)
        | Ok value => if error then Val (Err FSParse) else Val (Ok value)
        end
  else Val (Err FSWrongType).
