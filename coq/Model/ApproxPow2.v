(* Model/ApproxPow2.v — Uint::approx_pow2(exp: f64) -> Option<Self> of src/pow.rs, line for line,
   except for the one libm call: `(fract.exp2() * EXP2_63) as u64` (the leading 64 bits of
   2^fract) is an INPUT of the model (`b64`, observed through the same public expression by the
   harness), because libm's exp2 is not modelled.  Everything after it — rounding to nearest
   for small exponents, placement of the 64 leading bits by try_from + checked_shl for large
   ones, the range checks — is the code's.  Floats are SpecFloat values (bit pattern decoded
   by Float.decode). *)
From Coq Require Import ZArith List Bool.
From Coq.Floats Require Import SpecFloat.
From RV.Model Require Import Base Word Conv Shift.
From RV.Model Require Float.

Definition f64 (x : Z) : spec_float := Float.decode 53 1024 x.
Definition LN2_1P5 : spec_float := f64 0x3fe2b803473f7ad1.   (* 0.584_962_500_721_156_2 *)
Definition MINUS_ONE : spec_float := f64 0xbff0000000000000.

(* `BITS as f64` *)
Definition usize_as_f64 (n : Z) : spec_float := binary_normalize 53 1024 n 0 false.

(* `exp.trunc() as usize` (a saturating cast: NaN -> 0, negative -> 0) *)
Definition trunc_usize (e : spec_float) : Z :=
  match e with
  | S754_finite false m ex =>
      let v := if 0 <=? ex then Zpos m * 2 ^ ex else Zpos m / 2 ^ (- ex) in
      Z.min v (B - 1)
  | S754_infinity false => B - 1
  | _ => 0
  end.

Definition ok_of (r : outcome to_res) : outcome (option (list Z)) :=
  do x <- r ; Val (match x with ROk v => Some v | _ => None end).

Definition approx_pow2 (bits x b64 : Z) : outcome (option (list Z)) :=
  let e := f64 x in
  if SFltb e LN2_1P5 then
    if SFltb e MINUS_ONE then Val (Some (uZERO bits))
    else ok_of (try_from_u64 bits 1)                       (* Self::try_from(1).ok() *)
  else if SFltb (usize_as_f64 bits) e then Val None        (* exp > BITS as f64 *)
  else
    let shift := trunc_usize e in
    if 63 <=? shift then
      (* Some(Self::try_from(bits).ok()?.checked_shl(shift - 63)?) *)
      do r <- ok_of (try_from_u64 bits b64) ;
      match r with
      | None => Val None
      | Some v => Val (checked_shl bits v (shift - 63))
      end
    else
      let sh := 63 - shift in
      let b := shr64 b64 sh + Z.land (shr64 b64 (sh - 1)) 1 in
      if B <=? b then DebugPanic else                      (* u64 `+` overflow check *)
      ok_of (try_from_u64 bits b).
