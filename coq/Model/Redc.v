(* Model/Redc.v — src/algorithms/mul_redc.rs (mul_redc, square_redc and their helpers) and the
   Uint wrappers Uint::mul_redc / Uint::square_redc of src/modular.rs, line for line.
   A `[u64; N]` is a list of length N (all array arguments of one call have the same N by
   typing); indexing `x[i]`, i < N, is positional access on the list. *)
From RV.Model Require Import Base Word Add.

(* u128 / u64 truncations by masking and shifting (linear time in the VM; equal to
   Base.wrap128 / Base.wrap / Word.lo / Word.hi on non-negative arguments, see PfRedc) *)
Definition w128 (x : Z) : Z := modp2 x 128.           (* u128 wrapping result *)
Definition w64 (x : Z) : Z := modp2 x 64.             (* u64 wrapping result / `as u64` *)
Definition hi64 (x : Z) : Z := modp2 (divp2 x 64) 64. (* (x >> 64) as u64 *)

(* carrying_mul_add(lhs, rhs, add, carry): u128 wrapping_mul / wrapping_add, then split *)
Definition carrying_mul_add (lhs rhs add carry : Z) : Z * Z :=
  let wide := w128 (w128 (w128 (lhs * rhs) + add) + carry) in
  (w64 wide, hi64 wide).

(* carrying_double_mul_add(lhs, rhs, add, carry_lo, carry_hi) *)
Definition carrying_double_mul_add (lhs rhs add carry_lo : Z) (carry_hi : bool) : Z * Z * bool :=
  let wide := w128 (lhs * rhs) in
  let '(wide, carry_1) := (w128 (wide + wide), BB <=? wide + wide) in
  let carries := w128 (w128 (add + carry_lo) + w128 (b2z carry_hi * B)) in
  let '(wide, carry_2) := (w128 (wide + carries), BB <=? wide + carries) in
  (w64 wide, hi64 wide, carry_1 || carry_2).

(* sub(lhs, rhs): zip + borrowing_sub  (same loop shape as Add.sub_loop) *)
Definition sub (lhs rhs : list Z) : list Z * bool := sub_loop lhs rhs false.

(* reduce1_carry(value, modulus, carry) *)
Definition reduce1_carry (value modulus : list Z) (carry : bool) : list Z :=
  let '(reduced, borrow) := sub value modulus in
  if carry || negb borrow then reduced else value.

(* ---------------- mul_redc ---------------- *)
(* the inner loop `for i in 0..N` of one row; `first` = (i == 0).  Returns the values stored
   to result[0..N-1) together with the final carry_1, carry_2. *)
Fixpoint mr_inner (first : bool) (a md res : list Z) (b inv m c1 c2 : Z)
  : outcome (list Z * Z * Z) :=
  match a, md, res with
  | ai :: a', mi :: md', ri :: res' =>
      let '(value, c1') := carrying_mul_add ai b ri c1 in
      let m' := if first then w64 (value * inv) else m in      (* value.wrapping_mul(inv) *)
      let '(value, c2') := carrying_mul_add mi m' value c2 in
      if first then
        if value =? 0 then mr_inner false a' md' res' b inv m' c1' c2'
        else DebugPanic                                        (* debug_assert_eq!(value, 0) *)
      else
        do p <- mr_inner false a' md' res' b inv m' c1' c2' ;
        let '(l, x, y) := p in Val (value :: l, x, y)
  | _, _, _ => Val ([], c1, c2)
  end.

Definition REDC_THRESHOLD : Z := 0x7fffffffffffffff.
Definition SQUARE_THRESHOLD : Z := 0x3fffffffffffffff.

(* one iteration of `for b in b` *)
Definition mr_row (a md : list Z) (inv top : Z) (st : list Z * bool) (b : Z)
  : outcome (list Z * bool) :=
  let '(res, carry) := st in
  do p <- mr_inner true a md res b inv 0 0 0 ;
  let '(l, c1, c2) := p in
  let '(value, next_carry) := carrying_add c1 c2 carry in
  let res' := l ++ [value] in                                   (* result[N - 1] = value *)
  if REDC_THRESHOLD <=? top then Val (res', next_carry)
  else if next_carry then DebugPanic                            (* debug_assert!(!next_carry) *)
  else Val (res', carry).

Fixpoint mr_rows (a md : list Z) (inv top : Z) (bs : list Z) (st : list Z * bool)
  : outcome (list Z * bool) :=
  match bs with
  | [] => Val st
  | b :: bs' => do st' <- mr_row a md inv top st b ; mr_rows a md inv top bs' st'
  end.

Definition is_less (a b : list Z) : bool :=
  match limbs_cmp a b with Lt => true | _ => false end.

Definition mul_redc (a b md : list Z) (inv : Z) : outcome (list Z) :=
  match md with
  | [] => DebugPanic            (* N = 0: modulus[0] inside debug_assert_eq! is out of bounds *)
  | m0 :: _ =>
      if negb (w64 (inv * m0) =? B - 1) then DebugPanic
      else if negb (is_less a md) then DebugPanic
      else if negb (is_less b md) then DebugPanic
      else
        do st <- mr_rows a md inv (last md 0) b (repeat 0 (length md), false) ;
        Val (reduce1_carry (fst st) md (snd st))
  end.

(* ---------------- square_redc ---------------- *)
(* for j in (i + 1)..N { carrying_double_mul_add(a[i], a[j], result[j], carry_lo, carry_hi) } *)
Fixpoint sq_cross (ai : Z) (a res : list Z) (clo : Z) (chi : bool) : list Z * Z * bool :=
  match a, res with
  | aj :: a', rj :: res' =>
      let '(value, clo', chi') := carrying_double_mul_add ai aj rj clo chi in
      let '(l, x, y) := sq_cross ai a' res' clo' chi' in (value :: l, x, y)
  | _, _ => ([], clo, chi)
  end.

(* for j in 1..N { carrying_mul_add(modulus[j], m, result[j], carry); result[j - 1] = value } *)
Fixpoint sq_reduce (md res : list Z) (m carry : Z) : list Z * Z :=
  match md, res with
  | mj :: md', rj :: res' =>
      let '(value, c') := carrying_mul_add mj m rj carry in
      let '(l, cf) := sq_reduce md' res' m c' in (value :: l, cf)
  | _, _ => ([], carry)
  end.

(* one iteration of `for i in 0..N` *)
Definition sq_row (i : nat) (a md : list Z) (inv top : Z) (st : list Z * Z)
  : outcome (list Z * Z) :=
  let '(res, carry_outer) := st in
  match skipn i a, skipn i res with
  | ai :: a', ri :: post =>
      let '(value, carry_lo) := carrying_mul_add ai ai ri 0 in
      let '(post', carry_lo, carry_hi) := sq_cross ai a' post carry_lo false in
      let res1 := firstn i res ++ value :: post' in
      match res1, md with
      | r0 :: rest, m0 :: mdrest =>
          let m := w64 (r0 * inv) in
          let '(value, carry) := carrying_mul_add m m0 r0 0 in
          if negb (value =? 0) then DebugPanic else              (* debug_assert_eq!(value, 0) *)
          let '(l, carry) := sq_reduce mdrest rest m carry in
          if SQUARE_THRESHOLD <=? top then
            let wide := w128 (w128 (w128 (carry_outer + carry_lo)
                                          + w128 (b2z carry_hi * B)) + carry) in
            let carry_outer' := hi64 wide in
            if 2 <? carry_outer' then DebugPanic                 (* debug_assert!(carry_outer <= 2) *)
            else Val (l ++ [w64 wide], carry_outer')
          else
            if carry_hi then DebugPanic                          (* debug_assert!(!carry_hi) *)
            else if negb (carry_outer =? 0) then DebugPanic      (* debug_assert_eq!(carry_outer, 0) *)
            else
              let '(value, c) := ov_add carry_lo carry in
              if c then DebugPanic                               (* debug_assert!(!carry) *)
              else Val (l ++ [value], carry_outer)
      | _, _ => Panic                                            (* result[0] / modulus[0], N = 0 *)
      end
  | _, _ => Panic                                                (* a[i] / result[i], i >= N *)
  end.

(* `for i in 0..N`: k iterations remain, the next index is i *)
Fixpoint sq_rows (k i : nat) (a md : list Z) (inv top : Z) (st : list Z * Z)
  : outcome (list Z * Z) :=
  match k with
  | O => Val st
  | S k' => do st' <- sq_row i a md inv top st ; sq_rows k' (S i) a md inv top st'
  end.

Definition square_redc (a md : list Z) (inv : Z) : outcome (list Z) :=
  match md with
  | [] => DebugPanic            (* N = 0: modulus[0] inside debug_assert_eq! is out of bounds *)
  | m0 :: _ =>
      if negb (w64 (inv * m0) =? B - 1) then DebugPanic
      else if negb (is_less a md) then DebugPanic
      else
        do st <- sq_rows (length md) 0 a md inv (last md 0) (repeat 0 (length md), 0) ;
        let '(res, carry_outer) := st in
        if 1 <? carry_outer then DebugPanic                      (* debug_assert!(carry_outer <= 1) *)
        else Val (reduce1_carry res md (0 <? carry_outer))
  end.

(* ---------------- Uint::mul_redc / Uint::square_redc (modular.rs) ---------------- *)
(* Self::from_limbs(result): assert!(limbs[LIMBS-1] <= MASK) when SHOULD_MASK;
   then debug_assert!(result < modulus). *)
Definition from_limbs_checked (bits : Z) (md r : list Z) : outcome (list Z) :=
  if should_mask bits && (mask bits <? last r 0) then Panic
  else if negb (ult r md) then DebugPanic
  else Val r.

Definition uint_mul_redc (bits : Z) (a b md : list Z) (inv : Z) : outcome (list Z) :=
  if bits =? 0 then Val (uZERO bits)
  else do r <- mul_redc a b md inv ; from_limbs_checked bits md r.

Definition uint_square_redc (bits : Z) (a md : list Z) (inv : Z) : outcome (list Z) :=
  if bits =? 0 then Val (uZERO bits)
  else do r <- square_redc a md inv ; from_limbs_checked bits md r.
