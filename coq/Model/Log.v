(* Model/Log.v — src/log.rs (checked_log, checked_log10, checked_log2, log, log10, log2),
   line for line, as repaired (base <= ONE test, bit_len - 1, try_from(10) with fallback).

   The floating-point estimate
       let result = self.approx_log2() / base.approx_log2();
       assert!(result.is_normal());
       let mut result = result.try_into().unwrap();
   goes through libm (f64::log2), which is NOT modelled: its outcome is an INPUT `est` of the
   model: `Some limbs` = the Uint the conversion produced, `None` = the assert or the unwrap
   failed (both are panics).  Everything after it is exact integer code. *)
From RV.Model Require Import Base Word Add Pow.
From RV.Model Require Bits Conv.

(* Self::from(2): the literal is an i32; TryFrom<i32> -> TryFrom<u32> -> TryFrom<u64> *)
Definition i32 : Conv.prim := {| Conv.pw := 32; Conv.psigned := true |}.
Definition usize : Conv.prim := {| Conv.pw := 64; Conv.psigned := false |}.
Definition from_i32 (bits v : Z) : outcome (list Z) := Conv.from_of (Conv.try_from_prim bits i32 v).
(* Self::from(x) for x : usize *)
Definition from_usize (bits v : Z) : outcome (list Z) := Conv.from_of (Conv.try_from_prim bits usize v).
(* result.to::<usize>() *)
Definition to_usize (bits : Z) (a : list Z) : outcome Z := Conv.to_of (Conv.try_to_prim bits usize a).

(* first correction loop:
   loop { if let Some(value) = base.checked_pow(result) {
            if value > self { assert!(!result.is_zero()); result -= ONE; continue; } }
          else { result -= ONE; }
          break; } *)
Definition log_down_step (bits : Z) (self base : list Z) (result : list Z)
  : step_res (list Z) (list Z) :=
  sbind (checked_pow bits base result) (fun p =>
    match p with
    | Some value =>
        if ult self value then
          if is_zero bits result then Done Panic
          else More (wrapping_sub bits result (Bits.uONE bits))
        else Done (Val result)
    | None => Done (Val (wrapping_sub bits result (Bits.uONE bits)))
    end).

(* second correction loop:
   while let Some(trial) = result.checked_add(ONE) {
     if let Some(value) = base.checked_pow(trial) { if value <= self { result = trial; continue; } }
     break; } *)
Definition log_up_step (bits : Z) (self base : list Z) (result : list Z)
  : step_res (list Z) (list Z) :=
  match checked_add bits result (Bits.uONE bits) with
  | None => Done (Val result)
  | Some trial =>
      sbind (checked_pow bits base trial) (fun p =>
        match p with
        | Some value => if ule value self then More trial else Done (Val result)
        | None => Done (Val result)
        end)
  end.

(* 2^(BITS+1) rounds of fuel: result < 2^BITS moves strictly in one direction in each loop *)
Definition log_fuel (bits : Z) : nat := S (Z.to_nat bits).

Definition log (bits : Z) (self base : list Z) (est : option (list Z)) : outcome Z :=
  if is_zero bits self then Panic                               (* assert!(!self.is_zero()) *)
  else
    do two <- from_i32 bits 2 ;
    if ult base two then Panic                                  (* assert!(base >= from(2)) *)
    else if ueq base two then
      do bl <- Bits.bit_len bits self ; Bits.usub bl 1
    else if ult self base then Val 0
    else
      match est with
      | None => Panic                               (* assert!(is_normal) / try_into().unwrap() *)
      | Some result =>
          do result <- run_loop (log_fuel bits) (log_down_step bits self base) result ;
          do result <- run_loop (log_fuel bits) (log_up_step bits self base) result ;
          to_usize bits result
      end.

Definition checked_log (bits : Z) (self base : list Z) (est : option (list Z))
  : outcome (option Z) :=
  if ule base (Bits.uONE bits) || is_zero bits self then Val None
  else do r <- log bits self base est ; Val (Some r).

Definition checked_log10 (bits : Z) (self : list Z) (est : option (list Z))
  : outcome (option Z) :=
  do t <- Conv.try_from_u64 bits 10 ;
  match t with
  | Conv.ROk base => checked_log bits self base est
  | _ => if is_zero bits self then Val None else Val (Some 0)
  end.

Definition checked_log2 (bits : Z) (self : list Z) : outcome (option Z) :=
  if is_zero bits self then Val None
  else do bl <- Bits.bit_len bits self ; do r <- Bits.usub bl 1 ; Val (Some r).

Definition expect_opt {A} (o : outcome (option A)) : outcome A :=
  do x <- o ; match x with Some v => Val v | None => Panic end.

Definition log10 (bits : Z) (self : list Z) (est : option (list Z)) : outcome Z :=
  expect_opt (checked_log10 bits self est).
Definition log2 (bits : Z) (self : list Z) : outcome Z := expect_opt (checked_log2 bits self).
