(* Model/Bytes.v — src/bytes.rs and the trimming helpers of src/utils.rs, as written
   (little-endian target: the `#[cfg(target_endian = "little")]` branches).
   Bytes are `list Z` with 0 <= b < 256; `usize` values are unbounded Z.
   The unsafe byte views (`slice::from_raw_parts(limbs.as_ptr().cast(), BYTES)`, the pointer
   casts in to_le_bytes and in the whole-limb decode path) are modelled as the obvious pure
   function: the little-endian bytes of the limb array, truncated to BYTES. *)
From RV.Model Require Import Base Word.

(* ---------- bytes.rs: nbytes / Self::BYTES = (BITS + 7) / 8 ---------- *)
Definition nbytes (bits : Z) : Z := (bits + 7) / 8.
Definition nbytesN (bits : Z) : nat := Z.to_nat (nbytes bits).

(* u8 *)
Definition isbyte (b : Z) : Prop := 0 <= b < 256.
Definition isbyteb (b : Z) : bool := (0 <=? b) && (b <? 256).

(* ---------- primitives: checked usize/u64 arithmetic, slices ---------- *)
(* usize `a - b` (overflow-checked in debug) *)
Definition usub (a b : Z) : outcome Z := if a <? b then DebugPanic else Val (a - b).
(* u64 `a + b` (overflow-checked in debug) *)
Definition uadd64 (a b : Z) : outcome Z := if a + b <? B then Val (a + b) else DebugPanic.
(* `l[i]` *)
Definition idx (l : list Z) (i : Z) : outcome Z :=
  if i <? 0 then Panic else
  match nth_error l (Z.to_nat i) with Some x => Val x | None => Panic end.
Fixpoint set_nth (i : nat) (x : Z) (l : list Z) : list Z :=
  match l, i with
  | [], _ => []
  | _ :: t, O => x :: t
  | y :: t, S i' => y :: set_nth i' x t
  end.
(* `l[i] = x` *)
Definition upd (l : list Z) (i : Z) (x : Z) : outcome (list Z) :=
  if (0 <=? i) && (i <? lenZ l) then Val (set_nth (Z.to_nat i) x l) else Panic.
(* `&l[..n]`, `&l[n..]` *)
Definition slice_to (l : list Z) (n : Z) : outcome (list Z) :=
  if (0 <=? n) && (n <=? lenZ l) then Val (firstn (Z.to_nat n) l) else Panic.
Definition slice_from (l : list Z) (n : Z) : outcome (list Z) :=
  if (0 <=? n) && (n <=? lenZ l) then Val (skipn (Z.to_nat n) l) else Panic.
(* `dst.copy_from_slice(src)`: panics unless the lengths agree; the new contents of dst *)
Definition copy_from_slice (dst src : list Z) : outcome (list Z) :=
  if Nat.eqb (length dst) (length src) then Val src else Panic.
(* `debug_assert!(c); k`: debug profile panics when c fails; the release profile runs k.
   When k itself panics the call panics in both profiles. *)
Definition debug_assert {A} (c : bool) (k : outcome A) : outcome A :=
  if c then k else match k with Panic => Panic | _ => DebugPanic end.

(* u64::to_le_bytes / to_be_bytes / from_le_bytes / from_be_bytes *)
Fixpoint le_digits (n : nat) (x : Z) : list Z :=
  match n with
  | O => []
  | S n' => modp2 x 8 :: le_digits n' (divp2 x 8)
  end.
Fixpoint le_value (bs : list Z) : Z :=
  match bs with
  | [] => 0
  | b :: t => b + 256 * le_value t
  end.
Definition u64_to_le_bytes (x : Z) : list Z := le_digits 8 x.
Definition u64_to_be_bytes (x : Z) : list Z := rev (u64_to_le_bytes x).
Definition u64_from_le_bytes (bs : list Z) : Z := le_value bs.
Definition u64_from_be_bytes (bs : list Z) : Z := le_value (rev bs).

(* the limb array seen as memory *)
Definition limb_bytes (limbs : list Z) : list Z := flat_map u64_to_le_bytes limbs.

(* ---------- utils.rs ---------- *)
(* x.iter().rposition(|b| b != value).map_or(0, |idx| idx + 1) *)
Fixpoint last_idx (x : list Z) (value : Z) : Z :=
  match x with
  | [] => 0
  | b :: t =>
      let r := last_idx t value in
      if 0 <? r then r + 1 else if b =? value then 0 else 1
  end.
(* &slice[..last_idx(slice, value)] *)
Definition trim_end_slice (slice : list Z) (value : Z) : outcome (list Z) :=
  slice_to slice (last_idx slice value).
(* vec.truncate(last_idx(vec, value)) — truncate never panics *)
Definition trim_end_vec (vec : list Z) (value : Z) : list Z :=
  firstn (Z.to_nat (last_idx vec value)) vec.

(* ---------- bytes.rs: encoders ---------- *)
Definition as_le_slice (bits : Z) (a : list Z) : list Z :=
  firstn (nbytesN bits) (limb_bytes a).
(* Cow::Borrowed(self.as_le_slice()) *)
Definition as_le_bytes (bits : Z) (a : list Z) : list Z := as_le_slice bits a.
(* the Cow::Borrowed arm: trim_end_slice *)
Definition as_le_bytes_trimmed (bits : Z) (a : list Z) : outcome (list Z) :=
  trim_end_slice (as_le_bytes bits a) 0.

(* to_le_bytes::<N>: assert!(N == Self::BYTES); then the N bytes at self.as_le_slice().as_ptr() *)
Definition to_le_bytes (bits N : Z) (a : list Z) : outcome (list Z) :=
  if N =? nbytes bits then Val (as_le_slice bits a) else Panic.
Definition to_le_bytes_vec (bits : Z) (a : list Z) : list Z := as_le_bytes bits a.
Definition to_le_bytes_trimmed_vec (bits : Z) (a : list Z) : outcome (list Z) :=
  as_le_bytes_trimmed bits a.

(* the hand-written reversal loop of to_be_bytes; k = iterations left *)
Fixpoint reverse_loop (k : nat) (i len : Z) (bytes : list Z) : outcome (list Z) :=
  match k with
  | O => Val bytes
  | S k' =>
      do tmp <- idx bytes i;
      do j <- usub len 1;
      do j <- usub j i;
      do y <- idx bytes j;
      do bytes <- upd bytes i y;
      do bytes <- upd bytes j tmp;
      reverse_loop k' (i + 1) len bytes
  end.
Definition to_be_bytes (bits N : Z) (a : list Z) : outcome (list Z) :=
  do bytes <- to_le_bytes bits N a;
  let len := lenZ bytes in
  let half_len := len / 2 in
  reverse_loop (Z.to_nat half_len) 0 len bytes.
(* Vec::reverse *)
Definition to_be_bytes_vec (bits : Z) (a : list Z) : list Z := rev (to_le_bytes_vec bits a).
Definition to_be_bytes_trimmed_vec (bits : Z) (a : list Z) : outcome (list Z) :=
  do bytes <- to_le_bytes_trimmed_vec bits a; Val (rev bytes).

(* ---------- bytes.rs: decoders ---------- *)
(* Uint::from_limbs *)
Definition from_limbs (bits : Z) (limbs : list Z) : outcome (list Z) :=
  if should_mask bits then
    do top <- idx limbs (nlimbs bits - 1);
    if top <=? mask bits then Val limbs else Panic
  else Val limbs.

(* `Self::LIMBS > 0 && limbs[Self::LIMBS - 1] > Self::MASK` *)
Definition top_exceeds_mask (bits : Z) (limbs : list Z) : outcome bool :=
  if 0 <? nlimbs bits then
    do top <- idx limbs (nlimbs bits - 1); Val (mask bits <? top)
  else Val false.

(* eight bytes read through a pointer cast at byte offset off *)
Definition read8 (bytes : list Z) (off : Z) : list Z := firstn 8 (skipn (Z.to_nat off) bytes).

(* whole-limb path, big endian: limbs[i] = u64::from_be_bytes of the 8 bytes at end.sub((i + 1) * 8) *)
Fixpoint be_fast_loop (k : nat) (i : Z) (bytes : list Z) : list Z :=
  match k with
  | O => []
  | S k' => u64_from_be_bytes (read8 bytes (lenZ bytes - (i + 1) * 8))
            :: be_fast_loop k' (i + 1) bytes
  end.
(* whole-limb path, little endian: limbs[i] = u64::from_le_bytes of the 8 bytes at ptr.add(i * 8) *)
Fixpoint le_fast_loop (k : nat) (i : Z) (bytes : list Z) : list Z :=
  match k with
  | O => []
  | S k' => u64_from_le_bytes (read8 bytes (i * 8)) :: le_fast_loop k' (i + 1) bytes
  end.

(* generic path, big endian; k = iterations left (bytes.len() - i) *)
Fixpoint be_acc_loop (k : nat) (i c : Z) (bytes limbs : list Z) : outcome (list Z) :=
  match k with
  | O => Val limbs
  | S k' =>
      do c <- usub c 1;
      let limb := i / 8 in
      let byte := i mod 8 in
      do b <- idx bytes c;
      do x <- idx limbs limb;
      do s <- uadd64 x (shl64 b (byte * 8));
      do limbs <- upd limbs limb s;
      be_acc_loop k' (i + 1) c bytes limbs
  end.
Fixpoint le_acc_loop (k : nat) (i : Z) (bytes limbs : list Z) : outcome (list Z) :=
  match k with
  | O => Val limbs
  | S k' =>
      let limb := i / 8 in
      let byte := i mod 8 in
      do b <- idx bytes i;
      do x <- idx limbs limb;
      do s <- uadd64 x (shl64 b (byte * 8));
      do limbs <- upd limbs limb s;
      le_acc_loop k' (i + 1) bytes limbs
  end.

(* the common tail of both paths *)
Definition finish_decode (bits : Z) (limbs : list Z) : outcome (option (list Z)) :=
  do over <- top_exceeds_mask bits limbs;
  if over then Val None
  else do u <- from_limbs bits limbs; Val (Some u).

Definition try_from_be_slice (bits : Z) (bytes : list Z) : outcome (option (list Z)) :=
  let len := lenZ bytes in
  if nbytes bits <? len then Val None
  else if (nbytes bits mod 8 =? 0) && (len =? nbytes bits) then
    finish_decode bits (be_fast_loop (nlimbsN bits) 0 bytes)
  else
    do limbs <- be_acc_loop (length bytes) 0 len bytes (zero_limbs (nlimbsN bits));
    finish_decode bits limbs.

Definition try_from_le_slice (bits : Z) (bytes : list Z) : outcome (option (list Z)) :=
  let len := lenZ bytes in
  if nbytes bits <? len then Val None
  else if (nbytes bits mod 8 =? 0) && (len =? nbytes bits) then
    finish_decode bits (le_fast_loop (nlimbsN bits) 0 bytes)
  else
    do limbs <- le_acc_loop (length bytes) 0 bytes (zero_limbs (nlimbsN bits));
    finish_decode bits limbs.

(* match try_from_*_slice { Some(v) => v, None => panic!(..) } *)
Definition from_be_slice (bits : Z) (bytes : list Z) : outcome (list Z) :=
  do o <- try_from_be_slice bits bytes;
  match o with Some v => Val v | None => Panic end.
Definition from_le_slice (bits : Z) (bytes : list Z) : outcome (list Z) :=
  do o <- try_from_le_slice bits bytes;
  match o with Some v => Val v | None => Panic end.
(* from_*_bytes::<N>(bytes : [u8; N]): assert!(N == Self::BYTES) *)
Definition from_be_bytes (bits : Z) (bytes : list Z) : outcome (list Z) :=
  if lenZ bytes =? nbytes bits then from_be_slice bits bytes else Panic.
Definition from_le_bytes (bits : Z) (bytes : list Z) : outcome (list Z) :=
  if lenZ bytes =? nbytes bits then from_le_slice bits bytes else Panic.

(* ---------- bytes.rs: copy into a caller buffer; result = (return value, buffer after) ---------- *)
Definition copy_le_bytes_to (bits : Z) (a buf : list Z) : outcome (Z * list Z) :=
  debug_assert (nbytes bits <=? lenZ buf)
    (do dst <- slice_to buf (nbytes bits);
     do dst' <- copy_from_slice dst (as_le_slice bits a);
     Val (nbytes bits, dst' ++ skipn (nbytesN bits) buf)).

Definition checked_copy_le_bytes_to (bits : Z) (a buf : list Z) : outcome (option Z * list Z) :=
  if lenZ buf <? nbytes bits then Val (None, buf)
  else do r <- copy_le_bytes_to bits a buf; Val (Some (fst r), snd r).

(* self.limbs.iter().zip(buf[..BYTES].rchunks_mut(8)).for_each(..): dst is the part of
   buf[..BYTES] no chunk has been taken from yet; the next chunk is its last min(8, len) bytes *)
Fixpoint copy_be_loop (limbs dst : list Z) : outcome (list Z) :=
  match limbs with
  | [] => Val dst
  | limb :: rest =>
      match dst with
      | [] => Val []
      | _ =>
          let n := length dst in
          let k := Nat.min 8 n in
          let be := u64_to_be_bytes limb in
          let copy_from := 8 - Z.of_nat k in
          do src <- slice_from be copy_from;
          do chunk <- copy_from_slice (skipn (n - k) dst) src;
          do front <- copy_be_loop rest (firstn (n - k) dst);
          Val (front ++ chunk)
      end
  end.

Definition copy_be_bytes_to (bits : Z) (a buf : list Z) : outcome (Z * list Z) :=
  debug_assert (nbytes bits <=? lenZ buf)
    (do dst <- slice_to buf (nbytes bits);
     do dst' <- copy_be_loop a dst;
     Val (nbytes bits, dst' ++ skipn (nbytesN bits) buf)).

Definition checked_copy_be_bytes_to (bits : Z) (a buf : list Z) : outcome (option Z * list Z) :=
  if lenZ buf <? nbytes bits then Val (None, buf)
  else do r <- copy_be_bytes_to bits a buf; Val (Some (fst r), snd r).
