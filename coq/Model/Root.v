(* Model/Root.v — src/root.rs (root), line for line.

   The initial guess
       Self::approx_pow2(self.approx_log2() / degree as f64).unwrap()
   goes through libm (log2, exp2), which is NOT modelled: its outcome is an INPUT `guess` of
   the model: `Some limbs` = the Uint returned by approx_pow2, `None` = approx_pow2 returned
   None (unwrap panics).  The Newton iteration after it is exact integer code. *)
From RV.Model Require Import Base Word Add Pow Log.
From RV.Model Require Bits Shift.

(* core::cmp::min(v1, v2): v1 when v1 <= v2 *)
Definition umin (a b : list Z) : list Z := if ule a b then a else b.

(* loop {
     let division = result.checked_pow(deg_m1).map_or(ZERO, |power| self / power);
     let iter = (division + deg_m1 * result) / Self::from(degree);
     match (decreasing, iter.cmp(&result)) {
       (_, Equal) | (true, Greater) => break result,
       (false, Greater) => result = min(iter, result.saturating_shl(1)),
       (_, Less) => { decreasing = true; result = iter; } } } *)
Definition root_step (bits : Z) (self deg_m1 : list Z) (degree : Z) (st : bool * list Z)
  : step_res (bool * list Z) (list Z) :=
  let '(decreasing, result) := st in
  sbind (checked_pow bits result deg_m1) (fun p =>
  sbind (match p with
         | None => Val (uZERO bits)
         | Some power => wrapping_div self power
         end) (fun division =>
  sbind (wrapping_mul bits deg_m1 result) (fun m =>
  let s := wrapping_add bits division m in
  sbind (from_usize bits degree) (fun dg =>
  sbind (wrapping_div s dg) (fun iter =>
  match decreasing, limbs_cmp iter result with
  | _, Eq | true, Gt => Done (Val result)
  | false, Gt => More (false, umin iter (Shift.saturating_shl bits result 1))
  | _, Lt => More (true, iter)
  end))))).

(* 2^(BITS+2) rounds of fuel: result < 2^BITS first only grows, then only shrinks *)
Definition root_fuel (bits : Z) : nat := S (S (Z.to_nat bits)).

Definition root (bits : Z) (self : list Z) (degree : Z) (guess : option (list Z))
  : outcome (list Z) :=
  if degree <=? 0 then Panic                          (* assert!(degree > 0) *)
  else if is_zero bits self then Val (uZERO bits)
  else if bits <=? degree then Val (Bits.uONE bits)
  else if degree =? 1 then Val self
  else
    match guess with
    | None => Panic                                   (* approx_pow2(..).unwrap() *)
    | Some result =>
        do deg_m1 <- from_usize bits (degree - 1) ;
        run_loop (root_fuel bits) (root_step bits self deg_m1 degree) (false, result)
    end.
