(* Model/Cmp.v — src/cmp.rs, the derives on `struct Uint { limbs: [u64; LIMBS] }`
   (`#[derive(Clone, Copy, Eq, PartialEq, Hash)]`, src/lib.rs) and the std default methods of
   PartialOrd / Ord that a user reaches through them.  Definitions only.

   * derived PartialEq/Eq: `self.limbs == other.limbs` = element-wise equality of the arrays.
   * derived Hash: `self.limbs.hash(state)`; `impl Hash for [T; N]` hashes the slice:
     `state.write_length_prefix(N)` (= write_usize(N)) then `u64::hash_slice` = the raw
     little-endian bytes of all limbs.  The hasher used by the harness is
     `std::collections::hash_map::DefaultHasher::new()` = SipHash-1-3 with keys (0, 0); it is
     modelled below on the 64-bit word stream [N; limb_0; ...; limb_{N-1}] (total byte length
     8 * (N + 1), no tail bytes).  That std's DefaultHasher is this function is an observed
     fact (std does not promise it); the theorems only use "hash is a function of the limb list".
   * Ord::cmp = algorithms::cmp (Model/Add.v `limbs_cmp`); PartialOrd::partial_cmp = Some(cmp);
     lt/le/gt/ge are the std defaults over partial_cmp; Ord::min/max/clamp the std defaults. *)
From RV.Model Require Import Base Word Add.

(* ---------- derived PartialEq ---------- *)
Definition ueq (a b : list Z) : bool := list_eqb Z.eqb a b.
Definition une (a b : list Z) : bool := negb (ueq a b).

(* cmp.rs: is_zero: the derived == against Self::ZERO *)
Definition is_zero (bits : Z) (a : list Z) : bool := ueq a (uZERO bits).

(* ---------- Ord / PartialOrd ---------- *)
Definition ucmp (a b : list Z) : comparison := limbs_cmp a b.
Definition partial_cmp (a b : list Z) : option comparison := Some (ucmp a b).
(* std defaults: matches!(self.partial_cmp(other), Some(Less)) etc. *)
Definition ult (a b : list Z) : bool :=
  match partial_cmp a b with Some Lt => true | _ => false end.
Definition ule (a b : list Z) : bool :=
  match partial_cmp a b with Some Lt | Some Eq => true | _ => false end.
Definition ugt (a b : list Z) : bool :=
  match partial_cmp a b with Some Gt => true | _ => false end.
Definition uge (a b : list Z) : bool :=
  match partial_cmp a b with Some Gt | Some Eq => true | _ => false end.
(* Ord::min = min_by(self, other, cmp): match cmp(&v1, &v2) { Greater => v2, _ => v1 }
   Ord::max = max_by(self, other, cmp): match cmp(&v1, &v2) { Greater => v1, _ => v2 } *)
Definition umin (a b : list Z) : list Z := match ucmp a b with Gt => b | _ => a end.
Definition umax (a b : list Z) : list Z := match ucmp a b with Gt => a | _ => b end.
(* Ord::clamp: assert!(min <= max); if self < min { min } else if self > max { max } else { self } *)
Definition uclamp (a lo hi : list Z) : outcome (list Z) :=
  if ule lo hi then Val (if ult a lo then lo else if ugt a hi then hi else a) else Panic.

(* Ordering as a code: Less 0, Equal 1, Greater 2; Option<Ordering>::None 3 *)
Definition ord_code (c : comparison) : Z := match c with Lt => 0 | Eq => 1 | Gt => 2 end.
Definition oord_code (c : option comparison) : Z :=
  match c with Some c => ord_code c | None => 3 end.

(* ---------- SipHash-1-3, keys (0, 0), over a stream of whole 64-bit words ---------- *)
Definition rotl64 (x r : Z) : Z := Z.lor (Z.shiftl x r mod B) (Z.shiftr x (64 - r)).
Definition add64 (x y : Z) : Z := (x + y) mod B.
Definition sipround (s : Z * Z * Z * Z) : Z * Z * Z * Z :=
  let '(v0, v1, v2, v3) := s in
  let v0 := add64 v0 v1 in let v1 := rotl64 v1 13 in let v1 := Z.lxor v1 v0 in
  let v0 := rotl64 v0 32 in
  let v2 := add64 v2 v3 in let v3 := rotl64 v3 16 in let v3 := Z.lxor v3 v2 in
  let v0 := add64 v0 v3 in let v3 := rotl64 v3 21 in let v3 := Z.lxor v3 v0 in
  let v2 := add64 v2 v1 in let v1 := rotl64 v1 17 in let v1 := Z.lxor v1 v2 in
  let v2 := rotl64 v2 32 in
  (v0, v1, v2, v3).
(* one message word: v3 ^= m; c_rounds (1); v0 ^= m *)
Definition sip_word (s : Z * Z * Z * Z) (m : Z) : Z * Z * Z * Z :=
  let '(v0, v1, v2, v3) := s in
  let '(v0, v1, v2, v3) := sipround (v0, v1, v2, Z.lxor v3 m) in
  (Z.lxor v0 m, v1, v2, v3).
Definition sip_init : Z * Z * Z * Z :=
  (0x736f6d6570736575, 0x646f72616e646f6d, 0x6c7967656e657261, 0x7465646279746573).
(* finish: b = (length & 0xff) << 56 | tail (no tail bytes here); then v2 ^= 0xff; d_rounds (3) *)
Definition sip13_words (ws : list Z) : Z :=
  let s := fold_left sip_word ws sip_init in
  let b := ((8 * lenZ ws) mod 256) * 2 ^ 56 in
  let '(v0, v1, v2, v3) := sip_word s b in
  let '(v0, v1, v2, v3) := sipround (sipround (sipround (v0, v1, Z.lxor v2 0xff, v3))) in
  Z.lxor (Z.lxor v0 v1) (Z.lxor v2 v3).

(* <[u64; N] as Hash>::hash with DefaultHasher::new(), then finish() *)
Definition hash_limb_array (l : list Z) : Z := sip13_words (lenZ l :: l).
(* derived Hash for Uint: the only field is the limb array *)
Definition uhash (a : list Z) : Z := hash_limb_array a.
