(* Model/Div.v — src/algorithms/div/mod.rs: the top-level `div(numerator, divisor)`.
   div_kernel returns the new contents of the numerator slice (the quotient, zero padded)
   and of the divisor slice (the remainder, zero padded); a zero divisor is the
   `.expect("Divisor is zero")` panic. *)
From RV.Model Require Import Base Word Limbs DivRecip DivSmall DivKnuth.

(* slice.iter().rposition(|&x| x != 0) : index of the last non-zero limb *)
Fixpoint rposition_nz (l : list Z) : option nat :=
  match l with
  | [] => None
  | x :: t =>
      match rposition_nz t with
      | Some i => Some (S i)
      | None => if x =? 0 then None else Some O
      end
  end.

Definition div_kernel (numerator divisor : list Z) : outcome (list Z * list Z) :=
  match rposition_nz divisor with
  | None => Panic                                             (* .expect("Divisor is zero") *)
  | Some i =>
      let dtrim := firstn (S i) divisor in                    (* &mut divisor[..=i] *)
      let dpad := skipn (S i) divisor in                      (* untouched (zero) tail *)
      match rposition_nz numerator with
      | None =>
          (* divisor.fill(0); return  -- numerator is all zeros already *)
          Val (numerator, repeat 0 (length dtrim) ++ dpad)
      | Some k =>
          let ntrim := firstn (S k) numerator in
          let npad := skipn (S k) numerator in
          if Nat.ltb (length ntrim) (length dtrim) then
            (* remainder = numerator, padding.fill(0), numerator.fill(0) *)
            Val (repeat 0 (length ntrim) ++ npad,
                 ntrim ++ repeat 0 (length dtrim - length ntrim) ++ dpad)
          else if Nat.leb (length dtrim) 2 then
            if Nat.eqb (length dtrim) 1 then
              let d0 := nth 0 dtrim 0 in
              if Nat.eqb (length ntrim) 1 then
                let n0 := nth 0 ntrim 0 in
                (* u64 `/` and `%`: division by zero cannot happen, d0 != 0 *)
                Val ([n0 / d0] ++ npad, [n0 mod d0] ++ dpad)
              else
                do p <- div_nx1 ntrim d0 ;
                Val (fst p ++ npad, [snd p] ++ dpad)
            else
              let d := join (nth 1 dtrim 0) (nth 0 dtrim 0) in
              do p <- div_nx2 ntrim d ;
              Val (fst p ++ npad, [lo128 (snd p); hi128 (snd p)] ++ dpad)
          else
            do p <- div_nxm ntrim dtrim ;
            Val (fst p ++ npad, snd p ++ dpad)
      end
  end.
