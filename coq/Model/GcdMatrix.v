(* Model/GcdMatrix.v — src/algorithms/gcd/matrix.rs (LehmerMatrix), line for line, plus the
   Uint-level helpers the gcd code calls.  Definitions only.

   LOCAL COPIES of helpers owned by other topics (faithful, see REPORT): wrapping_mul /
   overflowing_mul (src/mul.rs, C02) as umul / uovmul, div_rem / wrapping_div / wrapping_rem
   (src/div.rs, C03) as udiv_rem / udiv / urem over Div.div_kernel, comparisons through
   Add.ult (algorithms::cmp), `-` / `+` = Add.wrapping_sub / wrapping_add, `>> usize` =
   Shift.wrapping_shr, bit_len / Uint::from(u64) / try_into::<u64|u128> = Conv.*.

   u64 arithmetic written with `+ - *` is overflow-checked in the debug profile: cadd / csub /
   cmul return DebugPanic when the exact result leaves [0, 2^64); `/` by zero is Panic. *)
From RV.Model Require Import Base Word Limbs.
From RV.Model Require Add Conv Shift Div.

(* ---------- checked u64 arithmetic ---------- *)
Definition cadd (x y : Z) : outcome Z := if x + y <? B then Val (x + y) else DebugPanic.
Definition csub (x y : Z) : outcome Z := if x <? y then DebugPanic else Val (x - y).
Definition cmul (x y : Z) : outcome Z := if x * y <? B then Val (x * y) else DebugPanic.
Definition cdiv (x y : Z) : outcome Z := if y =? 0 then Panic else Val (x / y).

(* ---------- Uint-level helpers ---------- *)
Definition u64p : Conv.prim := {| Conv.pw := 64; Conv.psigned := false |}.
Definition u128p : Conv.prim := {| Conv.pw := 128; Conv.psigned := false |}.
(* Uint::from(x : u64): panics on ValueTooLarge *)
Definition uint_from_u64 (bits v : Z) : outcome (list Z) := Conv.from_of (Conv.try_from_u64 bits v).
(* a.try_into().unwrap() at u64 / u128 *)
Definition to_u64 (bits : Z) (a : list Z) : outcome Z := Conv.to_of (Conv.try_to_int bits u64p a).
Definition to_u128 (bits : Z) (a : list Z) : outcome Z := Conv.to_of (Conv.try_to_128 bits u128p a).
(* Uint::ONE = const_from_u64(1) (only used at BITS > 0 here) *)
Definition uONE (bits : Z) : list Z :=
  if bits =? 0 then uMAX bits else match uZERO bits with [] => [] | _ :: t => 1 :: t end.
(* self == Self::ZERO / != : derived PartialEq on the limb arrays *)
Definition is_zero (bits : Z) (a : list Z) : bool := list_eqb Z.eqb a (uZERO bits).
Definition uge (a b : list Z) : bool := negb (Add.ult a b).           (* a >= b *)
(* wrapping_mul: addmul_n into ZERO, then apply_mask *)
Definition umul (bits : Z) (a b : list Z) : outcome (list Z) :=
  do r <- addmul_n (uZERO bits) a b ;
  Val (if 0 <? bits then masked bits r else r).
(* overflowing_mul / checked_mul *)
Definition uovmul (bits : Z) (a b : list Z) : list Z * bool :=
  let '(r, overflow) := addmul (uZERO bits) a b in
  if 0 <? bits then (masked bits r, overflow || (mask bits <? last r 0)) else (r, overflow).
Definition uchecked_mul (bits : Z) (a b : list Z) : option (list Z) :=
  match uovmul bits a b with (v, false) => Some v | _ => None end.
(* div_rem: algorithms::div(&mut self.limbs, &mut rhs.limbs) *)
Definition udiv_rem (a b : list Z) : outcome (list Z * list Z) := Div.div_kernel a b.
Definition udiv (a b : list Z) : outcome (list Z) := do p <- udiv_rem a b ; Val (fst p).
Definition urem (a b : list Z) : outcome (list Z) := do p <- udiv_rem a b ; Val (snd p).
Definition usub := Add.wrapping_sub.
Definition uadd := Add.wrapping_add.

(* ---------- struct Matrix(pub u64, pub u64, pub u64, pub u64, pub bool) ---------- *)
Record mat := Mat { m0 : Z; m1 : Z; m2 : Z; m3 : Z; m4 : bool }.
Definition IDENTITY : mat := Mat 1 0 0 1 true.
Definition mat_eqb (x y : mat) : bool :=                  (* derived PartialEq *)
  (m0 x =? m0 y) && (m1 x =? m1 y) && (m2 x =? m2 y) && (m3 x =? m3 y) && Bool.eqb (m4 x) (m4 y).

(* compose: plain u64 `*` and `+` *)
Definition dot (a b c d : Z) : outcome Z :=               (* a * b + c * d *)
  do p <- cmul a b ; do q <- cmul c d ; cadd p q.
Definition compose (s o : mat) : outcome mat :=
  do e0 <- dot (m0 s) (m0 o) (m1 s) (m2 o) ;
  do e1 <- dot (m0 s) (m1 o) (m1 s) (m3 o) ;
  do e2 <- dot (m2 s) (m0 o) (m3 s) (m2 o) ;
  do e3 <- dot (m2 s) (m1 o) (m3 s) (m3 o) ;
  Val (Mat e0 e1 e2 e3 (xorb (m4 s) (negb (m4 o)))).

(* apply: Uint::from(x) * a - Uint::from(y) * b, all wrapping *)
Definition lin (bits : Z) (x : Z) (a : list Z) (y : Z) (b : list Z) : outcome (list Z) :=
  do ux <- uint_from_u64 bits x ;
  do p <- umul bits ux a ;
  do uy <- uint_from_u64 bits y ;
  do q <- umul bits uy b ;
  Val (usub bits p q).
Definition apply (bits : Z) (m : mat) (a b : list Z) : outcome (list Z * list Z) :=
  if bits =? 0 then Val (a, b)
  else if m4 m then
    do c <- lin bits (m0 m) a (m1 m) b ;
    do d <- lin bits (m3 m) b (m2 m) a ;
    Val (c, d)
  else
    do c <- lin bits (m1 m) b (m0 m) a ;
    do d <- lin bits (m2 m) a (m3 m) b ;
    Val (c, d).

(* apply_u128: wrapping u128 arithmetic *)
Definition wlin128 (x a y b : Z) : Z := wrap128 (wrap128 (x * a) - wrap128 (y * b)).
Definition apply_u128 (m : mat) (a b : Z) : Z * Z :=
  if m4 m then (wlin128 (m0 m) a (m1 m) b, wlin128 (m3 m) b (m2 m) a)
  else (wlin128 (m1 m) b (m0 m) a, wlin128 (m2 m) a (m3 m) b).

(* ---------- from_u64 ---------- *)
(* r -= q * s ; k += q * l   (one unrolled half of the loop body) *)
Definition euclid_half (r s k l : Z) : outcome (Z * Z) :=
  do q <- cdiv r s ;
  do t <- cmul q s ; do r' <- csub r t ;
  do t <- cmul q l ; do k' <- cadd k t ;
  Val (r', k').
Definition euclid_half2 (r s k l k2 l2 : Z) : outcome (Z * Z * Z) :=
  do q <- cdiv r s ;
  do t <- cmul q s ; do r' <- csub r t ;
  do t <- cmul q l ; do k' <- cadd k t ;
  do t <- cmul q l2 ; do k2' <- cadd k2 t ;
  Val (r', k', k2').

Fixpoint from_u64_loop (fuel : nat) (r0 r1 q00 q01 q10 q11 : Z) : outcome mat :=
  match fuel with
  | O => OutOfFuel
  | S fuel' =>
      (* q = r0 / r1; r0 -= q * r1; q00 += q * q10; q01 += q * q11 *)
      do s <- euclid_half2 r0 r1 q00 q10 q01 q11 ;
      let '(r0, q00, q01) := s in
      if r0 =? 0 then Val (Mat q10 q11 q00 q01 false)
      else
        (* q = r1 / r0; r1 -= q * r0; q10 += q * q00; q11 += q * q01 *)
        do s <- euclid_half2 r1 r0 q10 q00 q11 q01 ;
        let '(r1, q10, q11) := s in
        if r1 =? 0 then Val (Mat q00 q01 q10 q11 true)
        else from_u64_loop fuel' r0 r1 q00 q01 q10 q11
  end.
Definition from_u64 (r0 r1 : Z) : outcome mat :=
  if r0 <? r1 then DebugPanic                              (* debug_assert!(r0 >= r1) *)
  else if r1 =? 0 then Val IDENTITY
  else from_u64_loop 70 r0 r1 1 0 0 1.    (* r0 at least halves per iteration: 65 suffice *)

(* ---------- from_u64_prefix ---------- *)
Definition LIMIT : Z := 2 ^ 32.
Definition khi (k : Z) : Z := k / 2 ^ 32.                  (* k >> 32 *)
Definition klo (k : Z) : Z := k mod LIMIT.                 (* k % LIMIT *)

Record pstate := PS { pa1 : Z; pa2 : Z; pa3 : Z; pk0 : Z; pk1 : Z; pk2 : Z; pk3 : Z }.
(* a1 = a2; a2 = a3; a3 = a1; k0 = k1; k1 = k2; k2 = k3; k3 = k1;
   debug_assert!(a2 < a3); debug_assert!(a2 > 0); q = a3 / a2; a3 -= q * a2; k3 += q * k2 *)
Definition prefix_half (s : pstate) : outcome pstate :=
  let a1 := pa2 s in let a2 := pa3 s in let a3 := a1 in
  let k0 := pk1 s in let k1 := pk2 s in let k2 := pk3 s in let k3 := k1 in
  if negb (a2 <? a3) then DebugPanic
  else if negb (0 <? a2) then DebugPanic
  else
    do r <- euclid_half a3 a2 k3 k2 ;
    let '(a3, k3) := r in
    Val (PS a1 a2 a3 k0 k1 k2 k3).

(* while a3 >= LIMIT { half; if a3 < LIMIT { even = false; break }; half } *)
Fixpoint prefix_loop (fuel : nat) (s : pstate) (even : bool) : outcome (pstate * bool) :=
  if LIMIT <=? pa3 s then
    match fuel with
    | O => OutOfFuel
    | S fuel' =>
        do s <- prefix_half s ;
        if pa3 s <? LIMIT then Val (s, false)
        else do s <- prefix_half s ; prefix_loop fuel' s even
    end
  else Val (s, even).

(* the three-way selection by Jebelean's conditions; (x, y) = (u, v) when even, (v, u) when odd:
     debug_assert!(a2 >= y2);
     if a1 - a2 >= x2 + x1 { if a3 >= x3 && a2 - a3 >= y3 + y2 { i+2 } else { i+1 } } else { i } *)
Definition prefix_select (s : pstate) (even : bool) : outcome mat :=
  let u0 := khi (pk0 s) in let u1 := khi (pk1 s) in let u2 := khi (pk2 s) in let u3 := khi (pk3 s) in
  let v0 := klo (pk0 s) in let v1 := klo (pk1 s) in let v2 := klo (pk2 s) in let v3 := klo (pk3 s) in
  let a1 := pa1 s in let a2 := pa2 s in let a3 := pa3 s in
  if a2 <? LIMIT then DebugPanic                           (* debug_assert!(a2 >= LIMIT) *)
  else if negb (a3 <? LIMIT) then DebugPanic               (* debug_assert!(a3 < LIMIT) *)
  else
    let x1 := if even then u1 else v1 in let x2 := if even then u2 else v2 in
    let x3 := if even then u3 else v3 in
    let y2 := if even then v2 else u2 in let y3 := if even then v3 else u3 in
    if a2 <? y2 then DebugPanic                            (* debug_assert!(a2 >= v2 | u2) *)
    else
      do d12 <- csub a1 a2 ; do sx <- cadd x2 x1 ;
      if sx <=? d12 then
        (* a3 >= x3 && a2 - a3 >= y3 + y2   (short-circuit) *)
        do ok <- (if x3 <=? a3 then
                    do d23 <- csub a2 a3 ; do sy <- cadd y3 y2 ; Val (sy <=? d23)
                  else Val false) ;
        if ok then Val (Mat u2 v2 u3 v3 even)
        else Val (Mat u1 v1 u2 v2 (negb even))
      else Val (Mat u0 v0 u1 v1 even).

Definition from_u64_prefix (a0 a1 : Z) : outcome mat :=
  if a0 <? 2 ^ 63 then DebugPanic                          (* debug_assert!(a0 >= 1 << 63) *)
  else if a0 <? a1 then DebugPanic                         (* debug_assert!(a0 >= a1) *)
  else
    let k0 := 2 ^ 32 in                                    (* 1_u64 << 32 : u0 = 1, v0 = 0 *)
    let k1 := 1 in
    if a1 <? LIMIT then Val IDENTITY
    else
      (* q = a0 / a1; a2 = a0 - q * a1; k2 = k0 + q * k1 *)
      do r <- euclid_half a0 a1 k0 k1 ;
      let '(a2, k2) := r in
      if a2 <? LIMIT then
        let u2 := khi k2 in let v2 := klo k2 in
        (* if a2 >= v2 && a1 - a2 >= u2 *)
        do ok <- (if v2 <=? a2 then do d <- csub a1 a2 ; Val (u2 <=? d) else Val false) ;
        if ok then Val (Mat 0 1 u2 v2 false) else Val IDENTITY
      else
        (* q = a1 / a2; a3 = a1 - q * a2; k3 = k1 + q * k2 *)
        do r <- euclid_half a1 a2 k1 k2 ;
        let '(a3, k3) := r in
        do st <- prefix_loop 64 (PS a1 a2 a3 k0 k1 k2 k3) true ;
        prefix_select (fst st) (snd st).

(* ---------- from_u128_prefix ---------- *)
Definition clz128 (x : Z) : Z := if x =? 0 then 128 else 127 - Z.log2 x.
Definition from_u128_prefix (r0 r1 : Z) : outcome mat :=
  if r0 <? r1 then DebugPanic                              (* debug_assert!(r0 >= r1) *)
  else
    let s := clz128 r0 in
    if 128 <=? s then DebugPanic                           (* r0 << 128: shift overflow check *)
    else
      let r0s := wrap128 (r0 * 2 ^ s) in
      let r1s := wrap128 (r1 * 2 ^ s) in
      (* both arms return q *)
      from_u64_prefix ((r0s / B) mod B) ((r1s / B) mod B).

(* ---------- from(a, b) ---------- *)
Definition from (bits : Z) (a b : list Z) : outcome mat :=
  if Add.ult a b then Panic                                (* assert!(a >= b) *)
  else
    do s <- Conv.bit_len bits a ;
    if s <=? 64 then
      do x <- to_u64 bits a ; do y <- to_u64 bits b ; from_u64 x y
    else if s <=? 128 then
      do x <- to_u128 bits a ; do y <- to_u128 bits b ; from_u128_prefix x y
    else
      let a' := Shift.wrapping_shr bits a (s - 128) in
      let b' := Shift.wrapping_shr bits b (s - 128) in
      do x <- to_u128 bits a' ; do y <- to_u128 bits b' ; from_u128_prefix x y.
