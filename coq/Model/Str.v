(* Model/Str.v — src/string.rs: from_str_radix, FromStr, ParseError.
   A `&str` is the list of its chars (Unicode scalar values); where Rust looks at the UTF-8
   bytes (`is_char_boundary(2)`, `split_at(2)`) the model uses the encoded length of the chars.
   The decoding of the harness' byte token into chars is `utf8_decode` (used by Run only). *)
From RV.Model Require Import Base Word BaseConv.

(* ParseError *)
Inductive perr : Type :=
| PInvalidDigit (c : Z)
| PInvalidRadix (r : Z)
| PBase (e : bcerr).

Definition between (lo c hi : Z) : bool := (lo <=? c) && (c <=? hi).

(* what the filter_map closure does with one char *)
Inductive cls : Type := CDigit (d : Z) | CSkip | CBad.

Definition classify (radix c : Z) : cls :=
  if radix <=? 36 then
    if between 48 c 57 then CDigit (c - 48)                 (* '0'..='9' *)
    else if between 97 c 122 then CDigit (c - 97 + 10)      (* 'a'..='z' *)
    else if between 65 c 90 then CDigit (c - 65 + 10)       (* 'A'..='Z' *)
    else if c =? 95 then CSkip                              (* '_' *)
    else CBad
  else
    if between 65 c 90 then CDigit (c - 65)                 (* 'A'..='Z' *)
    else if between 97 c 122 then CDigit (c - 97 + 26)      (* 'a'..='z' *)
    else if between 48 c 57 then CDigit (c - 48 + 52)       (* '0'..='9' *)
    else if (c =? 43) || (c =? 45) then CDigit 62           (* '+' | '-' *)
    else if (c =? 47) || (c =? 44) || (c =? 95) then CDigit 63   (* '/' | ',' | '_' *)
    else if (c =? 61) || (c =? 13) || (c =? 10) then CSkip  (* '=' | '\r' | '\n' *)
    else CBad.

(* src.chars().filter_map(..): the digits produced until the first bad char, which is
   remembered in `err` (after that the closure only returns None) *)
Fixpoint scan (radix : Z) (cs : list Z) : list Z * option Z :=
  match cs with
  | [] => ([], None)
  | c :: t =>
      match classify radix c with
      | CDigit d => let '(ds, e) := scan radix t in (d :: ds, e)
      | CSkip => scan radix t
      | CBad => ([], Some c)
      end
  end.

(* from_base_be consumes the lazy iterator: when it returns Ok it has drained it, hence seen
   the bad char if there is one; when it fails, `?` returns before `err` is looked at. *)
Definition from_str_radix (bits : Z) (cs : list Z) (radix : Z)
  : outcome (res perr (list Z)) :=
  if 64 <? radix then Val (Err (PInvalidRadix radix))
  else
    let '(ds, err) := scan radix cs in
    do r <- from_base_be bits radix ds ;
    match r with
    | Err e => Val (Err (PBase e))
    | Ok v =>
        match err with
        | Some c => Val (Err (PInvalidDigit c))
        | None => Val (Ok v)
        end
    end.

(* char::len_utf8 *)
Definition utf8_len (c : Z) : Z :=
  if c <? 128 then 1 else if c <? 2048 then 2 else if c <? 65536 then 3 else 4.

(* src.is_char_boundary(2) then src.split_at(2): Some (prefix, rest) *)
Definition split_at_2 (cs : list Z) : option (list Z * list Z) :=
  match cs with
  | [] => None                                   (* 2 > len *)
  | c1 :: t =>
      if utf8_len c1 =? 2 then Some ([c1], t)
      else if utf8_len c1 =? 1 then
        match t with
        | [] => None                             (* 2 > len *)
        | c2 :: t' => if utf8_len c2 =? 1 then Some ([c1; c2], t') else None
        end
      else None
  end.

Definition from_str (bits : Z) (cs : list Z) : outcome (res perr (list Z)) :=
  let '(src, radix) :=
    match split_at_2 cs with
    | Some (prefix, rest) =>
        if list_eqb Z.eqb prefix [48; 120] || list_eqb Z.eqb prefix [48; 88] then (rest, 16)
        else if list_eqb Z.eqb prefix [48; 111] || list_eqb Z.eqb prefix [48; 79] then (rest, 8)
        else if list_eqb Z.eqb prefix [48; 98] || list_eqb Z.eqb prefix [48; 66] then (rest, 2)
        else (cs, 10)
    | None => (cs, 10)
    end in
  from_str_radix bits src radix.

(* ---------- UTF-8 (harness token <-> chars), RFC 3629 / core::str::from_utf8 ---------- *)
Definition cont (b : Z) : bool := between 128 b 191.
Fixpoint utf8_decode (bs : list Z) : option (list Z) :=
  match bs with
  | [] => Some []
  | b0 :: t =>
      if b0 <? 128 then option_map (cons b0) (utf8_decode t)
      else if between 194 b0 223 then
        match t with
        | b1 :: t1 =>
            if cont b1 then option_map (cons ((b0 - 192) * 64 + (b1 - 128))) (utf8_decode t1)
            else None
        | _ => None
        end
      else if between 224 b0 239 then
        match t with
        | b1 :: b2 :: t2 =>
            if between (if b0 =? 224 then 160 else 128) b1 (if b0 =? 237 then 159 else 191)
               && cont b2
            then option_map (cons ((b0 - 224) * 4096 + (b1 - 128) * 64 + (b2 - 128)))
                            (utf8_decode t2)
            else None
        | _ => None
        end
      else if between 240 b0 244 then
        match t with
        | b1 :: b2 :: b3 :: t3 =>
            if between (if b0 =? 240 then 144 else 128) b1 (if b0 =? 244 then 143 else 191)
               && cont b2 && cont b3
            then option_map (cons ((b0 - 240) * 262144 + (b1 - 128) * 4096
                                   + (b2 - 128) * 64 + (b3 - 128)))
                            (utf8_decode t3)
            else None
        | _ => None
        end
      else None
  end.
