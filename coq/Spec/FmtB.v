(* Spec/FmtB.v — the wire formats of group B (SCALE, SSZ, borsh, DER) as short grammars over
   byte lists, written from the format definitions and independent of the model of ruint:
     * SCALE compact integer (four modes), SCALE byte vector, ruint's plain SCALE form
       (= Vec<u8>::encode of the BYTES little-endian bytes);
     * fixed-width little-endian (SSZ uintN, borsh);
     * DER INTEGER TLV (X.690 8.3 + 10.1): tag 0x02, definite length in the shortest form,
       minimal two's-complement big-endian content.
   Encoders are the reference; `*_denote` / `der_parse` say which value an input denotes. *)
From Coq Require Import ZArith List Bool.
From RV.Model Require Import Base.
Import ListNotations.
Local Open Scope Z_scope.

(* ---------- positional base 256 ---------- *)
(* the n low digits of v, least significant first *)
Fixpoint le_fixed (n : nat) (v : Z) : list Z :=
  match n with
  | O => []
  | S k => Z.land v 255 :: le_fixed k (Z.shiftr v 8)
  end.
Fixpoint le_val (bs : list Z) : Z :=
  match bs with
  | [] => 0
  | b :: t => b + 256 * le_val t
  end.
Definition be_val (bs : list Z) : Z := le_val (rev bs).
(* number of significant base-256 digits (0 for 0) *)
Definition min_len (v : Z) : Z := if v <=? 0 then 0 else Z.log2 v / 8 + 1.
Definition le_min (v : Z) : list Z := le_fixed (Z.to_nat (min_len v)) v.
Definition be_min (v : Z) : list Z := rev (le_min v).
(* bytes of a BITS-wide integer: the least n with 8 n >= BITS *)
Definition SBYTES (bits : Z) : Z := bits / 8 + (if bits mod 8 =? 0 then 0 else 1).

(* the first n elements, when there are that many *)
Definition take (n : Z) (l : list Z) : option (list Z) :=
  if lenZ l <? n then None else Some (firstn (Z.to_nat n) l).

(* ---------- SCALE compact / general integer ---------- *)
(* mode 0b00: one byte, value < 2^6 in the upper six bits;
   mode 0b01: two bytes LE, value < 2^14 above the mode bits;
   mode 0b10: four bytes LE, value < 2^30;
   mode 0b11: big-integer mode: upper six bits = (number of following bytes) - 4, then the value,
   little endian, without trailing zero bytes (at least 4 bytes because the value is >= 2^30).
   Defined for 0 <= v < 2^536 (at most 67 following bytes). *)
Definition compact (v : Z) : list Z :=
  if v <? 2 ^ 6 then [4 * v]
  else if v <? 2 ^ 14 then le_fixed 2 (4 * v + 1)
  else if v <? 2 ^ 30 then le_fixed 4 (4 * v + 2)
  else (4 * (min_len v - 4) + 3) :: le_min v.
Definition COMPACT_MAX_BITS : Z := 536.

(* what an input denotes, read leniently (the mode decides how many bytes are taken, the value
   is whatever they hold): (value, bytes consumed); None = truncated *)
Definition compact_denote (inp : list Z) : option (Z * Z) :=
  match inp with
  | [] => None
  | b0 :: rest =>
      let mode := b0 mod 4 in
      if mode =? 0 then Some (b0 / 4, 1)
      else if mode =? 1 then option_map (fun bs => (le_val bs / 4, 2)) (take 2 inp)
      else if mode =? 2 then option_map (fun bs => (le_val bs / 4, 4)) (take 4 inp)
      else let n := b0 / 4 + 4 in option_map (fun bs => (le_val bs, 1 + n)) (take n rest)
  end.

(* ---------- SCALE byte vector: compact length, then the bytes ---------- *)
Definition scale_bytes (bs : list Z) : list Z := compact (lenZ bs) ++ bs.
Definition scale_bytes_denote (inp : list Z) : option (list Z * Z) :=
  match compact_denote inp with
  | None => None
  | Some (n, used) =>
      option_map (fun bs => (bs, used + n)) (take n (skipn (Z.to_nat used) inp))
  end.
(* ruint's plain Encode: the byte vector of the BYTES little-endian bytes *)
Definition scale_uint (bits v : Z) : list Z := scale_bytes (le_fixed (Z.to_nat (SBYTES bits)) v).
Definition scale_uint_denote (inp : list Z) : option (Z * Z) :=
  option_map (fun p => (le_val (fst p), snd p)) (scale_bytes_denote inp).

(* ---------- fixed-width little endian: SSZ uintN, borsh ---------- *)
Definition fixed_le (bits v : Z) : list Z := le_fixed (Z.to_nat (SBYTES bits)) v.
(* SSZ: the whole input is the integer *)
Definition ssz_denote (bits : Z) (inp : list Z) : option (Z * Z) :=
  if lenZ inp =? SBYTES bits then Some (le_val inp, lenZ inp) else None.
(* borsh: the integer is the first BYTES bytes of the stream *)
Definition borsh_denote (bits : Z) (inp : list Z) : option (Z * Z) :=
  option_map (fun bs => (le_val bs, SBYTES bits)) (take (SBYTES bits) inp).

(* ---------- DER INTEGER ---------- *)
(* definite length: short form below 128, else 0x80 + k followed by the k-byte minimal
   big-endian length *)
Definition der_len (n : Z) : list Z :=
  if n <? 128 then [n] else (128 + min_len n) :: be_min n.
(* content: minimal big-endian two's complement of a non-negative integer: at least one octet,
   a leading 0x00 exactly when the top bit of the first magnitude octet is set *)
Definition der_content (v : Z) : list Z :=
  match be_min v with
  | [] => [0]
  | b :: t => if 128 <=? b then 0 :: b :: t else b :: t
  end.
Definition der_integer (v : Z) : list Z :=
  let c := der_content v in 2 :: der_len (lenZ c) ++ c.

(* recogniser of the same grammar: Some v iff the input is exactly der_integer v *)
Definition der_parse_len (inp : list Z) : option (Z * list Z) :=
  match inp with
  | [] => None
  | b :: rest =>
      if b <? 128 then Some (b, rest)
      else
        let k := b - 128 in
        if k =? 0 then None                               (* indefinite form: not DER *)
        else match take k rest with
             | None => None
             | Some lb =>
                 let n := be_val lb in
                 (* shortest form: long form only from 128 on, no leading zero octet *)
                 if (128 <=? n) && negb (hd 0 lb =? 0)
                 then Some (n, skipn (Z.to_nat k) rest) else None
             end
  end.
Definition der_parse_content (c : list Z) : option Z :=
  match c with
  | [] => None
  | [b] => if b <? 128 then Some b else None              (* top bit set: negative *)
  | b0 :: b1 :: _ =>
      if 128 <=? b0 then None                             (* negative *)
      else if (b0 =? 0) && (b1 <? 128) then None          (* redundant leading 0x00 *)
      else Some (be_val c)
  end.
Definition der_parse (inp : list Z) : option Z :=
  match inp with
  | 2 :: rest =>
      match der_parse_len rest with
      | Some (n, body) => if lenZ body =? n then der_parse_content body else None
      | None => None
      end
  | _ => None
  end.
