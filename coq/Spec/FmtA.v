(* Spec/FmtA.v — the wire formats of codec group A, as short grammars written from the format
   definitions (Ethereum yellow paper app. B / ethereum.org RLP page; RFC 8259 JSON + the
   Ethereum JSON-RPC "quantity" convention; bincode 1.x fixint little-endian).  Nothing here
   mentions ruint's glue code.  Integers and byte strings only; bytes are `Z` in 0..255.

   The positional vocabulary (base-256 digits `be_bytes`, `ndigits`, `be_val`; base-b digits
   `digits_be`, `value_be`) is the one of RunC08/RunC09, itself independent of the model. *)
From RV.Model Require Import Base Str.
From RV.Run Require RunC08 RunC09.

(* ---------- integers as big-endian byte strings ---------- *)
(* the n low base-256 digits of v, most significant first *)
Definition be_fixed (n v : Z) : list Z := RunC08.be_bytes v n.
(* minimal form: no leading zero byte; the empty string for 0 *)
Definition be_min (v : Z) : list Z := RunC08.be_bytes v (RunC08.ndigits v).
(* the number a big-endian byte string denotes *)
Definition be_val (bs : list Z) : Z := RunC08.be_val bs.
(* u64 little-endian (bincode length prefix) *)
Definition le64 (v : Z) : list Z := RunC08.le_bytes v 8.
Definition le_val (bs : list Z) : Z := RunC08.le_val bs.

Fixpoint prefixb (p l : list Z) : bool :=
  match p, l with
  | [], _ => true
  | x :: p', y :: l' => (x =? y) && prefixb p' l'
  | _ :: _, [] => false
  end.

(* ---------- RLP ---------- *)
(* length prefix of an item with an n-byte payload; off = 0x80 for strings, 0xc0 for lists:
   n < 56: one byte off+n; otherwise off+55+(number of length bytes), then n big-endian minimal *)
Definition rlp_prefix (off n : Z) : list Z :=
  if n <? 56 then [off + n] else (off + 55 + RunC08.ndigits n) :: be_min n.
(* a byte string: a single byte below 0x80 is its own encoding *)
Definition rlp_string (p : list Z) : list Z :=
  match p with
  | [b] => if b <? 128 then [b] else rlp_prefix 128 1 ++ p
  | _ => rlp_prefix 128 (lenZ p) ++ p
  end.
(* a non-negative integer: the string of its minimal big-endian bytes (0 = empty string = 0x80) *)
Definition rlp_uint (v : Z) : list Z := rlp_string (be_min v).

(* Reading: the string item at the front of the input, in any of the three header forms the
   format defines for strings (canonical or not): Some (payload, bytes taken). *)
Definition rlp_str_item (inp : list Z) : option (list Z * Z) :=
  match inp with
  | [] => None
  | b :: t =>
      if b <? 128 then Some ([b], 1)
      else if b <? 184 then
        let n := b - 128 in
        if n <=? lenZ t then Some (firstn (Z.to_nat n) t, 1 + n) else None
      else if b <? 192 then
        let ll := b - 183 in
        if ll <=? lenZ t then
          let n := be_val (firstn (Z.to_nat ll) t) in
          if n <=? lenZ t - ll
          then Some (firstn (Z.to_nat n) (skipn (Z.to_nat ll) t), 1 + ll + n) else None
        else None
      else None        (* 0xc0..: a list *)
  end.

(* canonical reading: the input starts with the reference encoding of v; Some (v, length) *)
Definition rlp_uint_prefix (inp : list Z) : option (Z * Z) :=
  match rlp_str_item inp with
  | Some (p, _) =>
      let v := be_val p in
      if prefixb (rlp_uint v) inp then Some (v, lenZ (rlp_uint v)) else None
  | None => None
  end.

(* ---------- bincode 1.x (`bincode::serialize`: fixint, little endian) of a byte slice ---------- *)
Definition bincode_bytes (p : list Z) : list Z := le64 (lenZ p) ++ p.
(* binary serde of a BITS-bit integer: the BYTES-long big-endian byte string *)
Definition SBYTES (bits : Z) : Z := RunC08.SBYTES bits.
Definition bincode_uint (bits v : Z) : list Z := bincode_bytes (be_fixed (SBYTES bits) v).

(* ---------- JSON ---------- *)
(* digit -> lower-case hex char *)
Definition hexchar (d : Z) : Z := if d <? 10 then 48 + d else 97 + (d - 10).
(* "quantity": 0x + minimal lower-case hex, 0x0 for zero *)
Definition quantity (v : Z) : list Z :=
  [48; 120] ++ (if v =? 0 then [48] else map hexchar (RunC09.digits_be 16 v)).
(* fixed-width "data": 0x + two lower-case hex digits per byte *)
Definition hex_data (bs : list Z) : list Z :=
  [48; 120] ++ flat_map (fun b => [hexchar (b / 16); hexchar (b mod 16)]) bs.
(* a JSON string literal whose content needs no escaping *)
Definition json_string (cs : list Z) : list Z := [34] ++ cs ++ [34].
Definition json_quantity (v : Z) : list Z := json_string (quantity v).

(* Reading a JSON text (RFC 8259) as far as an integer decoder can care: a string (its chars
   after unescaping), an unsigned integer literal that fits u64, or anything else. *)
Inductive jv : Type :=
| JStr (cs : list Z)     (* string value: Unicode scalar values *)
| JU64 (n : Z)           (* number without sign, fraction or exponent, <= u64::MAX *)
| JOther                 (* null, true, false, negative / fractional / big numbers, arrays, objects *)
| JBad.                  (* not a JSON text (syntax error, trailing characters, bad UTF-8) *)

Definition is_ws (c : Z) : bool := (c =? 32) || (c =? 10) || (c =? 9) || (c =? 13).
Fixpoint skip_ws (l : list Z) : list Z :=
  match l with
  | c :: t => if is_ws c then skip_ws t else l
  | [] => []
  end.
Definition hexval (c : Z) : option Z :=
  if (48 <=? c) && (c <=? 57) then Some (c - 48)
  else if (97 <=? c) && (c <=? 102) then Some (c - 87)
  else if (65 <=? c) && (c <=? 70) then Some (c - 55)
  else None.
Definition hex4 (l : list Z) : option (Z * list Z) :=
  match l with
  | a :: b :: c :: d :: t =>
      match hexval a, hexval b, hexval c, hexval d with
      | Some a, Some b, Some c, Some d => Some (((a * 16 + b) * 16 + c) * 16 + d, t)
      | _, _, _, _ => None
      end
  | _ => None
  end.
(* UTF-8 encoding of a scalar value *)
Definition utf8_enc (c : Z) : list Z :=
  if c <? 128 then [c]
  else if c <? 2048 then [192 + c / 64; 128 + c mod 64]
  else if c <? 65536 then [224 + c / 4096; 128 + (c / 64) mod 64; 128 + c mod 64]
  else [240 + c / 262144; 128 + (c / 4096) mod 64; 128 + (c / 64) mod 64; 128 + c mod 64].

(* the body of a string literal after the opening quote: Some (UTF-8 bytes of the unescaped
   content, rest after the closing quote); fuel = length of the input *)
Definition is_low_surr (n : Z) : bool := (56320 <=? n) && (n <=? 57343).
Definition is_high_surr (n : Z) : bool := (55296 <=? n) && (n <=? 56319).
(* one escape after the backslash: Some (scalar value, rest) *)
Definition json_escape (l : list Z) : option (Z * list Z) :=
  match l with
  | [] => None
  | e :: t =>
      if e =? 34 then Some (34, t) else if e =? 92 then Some (92, t)
      else if e =? 47 then Some (47, t) else if e =? 98 then Some (8, t)
      else if e =? 102 then Some (12, t) else if e =? 110 then Some (10, t)
      else if e =? 114 then Some (13, t) else if e =? 116 then Some (9, t)
      else if e =? 117 then                                  (* \uXXXX *)
        match hex4 t with
        | Some (n, t1) =>
            if is_low_surr n then None                       (* lone low surrogate *)
            else if is_high_surr n then                      (* needs \uDC00..DFFF next *)
              match t1 with
              | b :: u :: t2 =>
                  if (b =? 92) && (u =? 117) then
                    match hex4 t2 with
                    | Some (m, t3) =>
                        if is_low_surr m
                        then Some (65536 + (n - 55296) * 1024 + (m - 56320), t3) else None
                    | None => None
                    end
                  else None
              | _ => None
              end
            else Some (n, t1)
        | None => None
        end
      else None
  end.
Fixpoint json_str_body (fuel : nat) (l : list Z) (acc : list Z) : option (list Z * list Z) :=
  match fuel with
  | O => None
  | S f =>
      match l with
      | [] => None                                           (* unterminated *)
      | c :: t =>
          if c =? 34 then Some (rev acc, t)                  (* closing quote *)
          else if c =? 92 then
            match json_escape t with
            | Some (n, t') => json_str_body f t' (rev (utf8_enc n) ++ acc)
            | None => None
            end
          else if c <? 32 then None                          (* raw control character *)
          else json_str_body f t (c :: acc)
      end
  end.

(* digits of an integer literal: (value, rest) *)
Fixpoint json_digits (l : list Z) (acc : Z) : Z * list Z :=
  match l with
  | c :: t => if (48 <=? c) && (c <=? 57) then json_digits t (acc * 10 + (c - 48)) else (acc, l)
  | [] => (acc, [])
  end.

Definition json_end (v : jv) (rest : list Z) : jv :=
  match skip_ws rest with [] => v | _ => JBad end.

Definition json_read (text : list Z) : jv :=
  match skip_ws text with
  | [] => JBad
  | c :: t =>
    if c =? 34 then
      match json_str_body (S (length t)) t [] with
      | Some (bytes, rest) =>
          match utf8_decode bytes with
          | Some cs => json_end (JStr cs) rest
          | None => JBad
          end
      | None => JBad
      end
    else
      if (48 <=? c) && (c <=? 57) then
        let '(n, rest) := if c =? 48 then (0, t) else json_digits t (c - 48) in
        match rest with
        | d :: _ =>
            if (48 <=? d) && (d <=? 57) then JBad            (* leading zero *)
            else if (d =? 46) || (d =? 101) || (d =? 69) then JOther   (* fraction / exponent *)
            else json_end (if n <? 2 ^ 64 then JU64 n else JOther) rest
        | [] => if n <? 2 ^ 64 then JU64 n else JOther
        end
      else JOther      (* '-', 'n', 't', 'f', '[', '{': never an unsigned integer or a string;
                          anything else: not JSON *)
  end.

(* the number a quantity-like string denotes, accepting what a lenient reader may accept:
   optional 0x/0o/0b prefix (either case) selecting the radix, else decimal; digits of either
   case, `_` separators; None when some character is not a digit of the radix *)
Definition number_of (radix : Z) (body : list Z) : option Z :=
  match RunC09.split_text radix body with
  | (ds, None) => Some (RunC09.value_be radix ds)
  | (_, Some _) => None
  end.
Definition lenient_number (cs : list Z) : option Z :=
  match cs with
  | c1 :: x :: rest =>
      if c1 =? 48 then
        if (x =? 120) || (x =? 88) then number_of 16 rest
        else if (x =? 111) || (x =? 79) then number_of 8 rest
        else if (x =? 98) || (x =? 66) then number_of 2 rest
        else number_of 10 cs
      else number_of 10 cs
  | _ => number_of 10 cs
  end.
