(* Spec/FmtC.v — reference formats of the group-C integrations, on integers.
   Written independently of Model/CodecC.v; positional notation (digits_be, value_be, the hex /
   decimal reference text, the parser's specification) is the vocabulary of C09 (Run/RunC09.v),
   float classification / rounding neighbours are C18's (Run/RunC18.v).

     BigUint / BigInt                      : the value itself
     primitive-types U*, ark BigInteger*,
       ark BigInt<N>, bytemuck             : the little-endian limb array (uint_of) / its bytes
     primitive-types H*                    : the BYTES big-endian bytes
     postgres wire formats, per column type: see pg_ref_encode / pg_ref_decode. *)
From RV.Model Require Import Base.
From RV.Run Require RunC09 RunC18.

(* ---------- positional base-256 notation ---------- *)
Definition byte_at (v i : Z) : Z := modp2 (divp2 v (8 * i)) 8.        (* (v / 256^i) mod 256 *)
Definition le_bytes (n v : Z) : list Z :=
  map (fun i => byte_at v (Z.of_nat i)) (seq 0 (Z.to_nat n)).
Definition be_bytes (n v : Z) : list Z := rev (le_bytes n v).
Fixpoint be_value_acc (acc : Z) (bs : list Z) : Z :=
  match bs with [] => acc | b :: t => be_value_acc (acc * 256 + b) t end.
Definition be_value (bs : list Z) : Z := be_value_acc 0 bs.
Definition le_value (bs : list Z) : Z := be_value (rev bs).
(* two's complement reading of a w-bit pattern *)
Definition signed (w u : Z) : Z := if u <? 2 ^ (w - 1) then u else u - 2 ^ w.
(* BYTES: least n with 8 n >= BITS; LIMBS likewise for 64 *)
Definition SBYTES (bits : Z) : Z := (bits + 7) / 8.
Definition SLIMBS (bits : Z) : Z := (bits + 63) / 64.

(* ---------- reference text ---------- *)
(* "0x" + minimal lower-case hex digits ("0x0" for zero): what `{:#x}` prints for an integer *)
Definition ref_hex (v : Z) : list Z := [48; 120] ++ RunC09.ref_digit_string 2 v.
Definition ref_json (v : Z) : list Z := [34] ++ ref_hex v ++ [34].

(* ---------- postgres column types ---------- *)
Definition BOOL := 0.   Definition INT2 := 1.    Definition INT4 := 2.   Definition OID := 3.
Definition INT8 := 4.   Definition FLOAT4 := 5.  Definition FLOAT8 := 6. Definition MONEY := 7.
Definition BYTEA := 8.  Definition BIT := 9.     Definition VARBIT := 10. Definition CHAR := 11.
Definition TEXT := 12.  Definition VARCHAR := 13. Definition JSON := 14. Definition JSONB := 15.
Definition NUMERIC := 16.
Definition is_float (ty : Z) : bool := (ty =? FLOAT4) || (ty =? FLOAT8).
Definition is_text (ty : Z) : bool := (ty =? CHAR) || (ty =? TEXT) || (ty =? VARCHAR).

(* drop trailing zeros *)
Fixpoint drop_zeros (l : list Z) : list Z :=
  match l with
  | 0 :: t => drop_zeros t
  | _ => l
  end.
Definition strip_trailing_zeros (l : list Z) : list Z := rev (drop_zeros (rev l)).

(* NUMERIC (numeric.c, NumericVar on the wire): i16 ndigits, i16 weight (exponent of the first
   base-10000 digit), i16 sign (0 = positive), i16 dscale, then ndigits base-10000 digits as i16,
   most significant first, trailing zero digits removed.  An integer has dscale 0. *)
Definition numeric_ref (v : Z) : option (list Z) :=
  let ds := RunC09.digits_be 10000 v in
  let weight := Z.max (lenZ ds - 1) 0 in
  let body := strip_trailing_zeros ds in
  if (2 ^ 15 <=? weight) || (2 ^ 15 <=? lenZ body) then None      (* both fields are i16 *)
  else Some (be_bytes 2 (lenZ body) ++ be_bytes 2 weight ++ be_bytes 2 0 ++ be_bytes 2 0
             ++ flat_map (be_bytes 2) body).

(* The reference encoding of the integer v in a column of type ty by a Uint<bits>;
   None = the value does not fit the column type (encoding must fail).
     BOOL 1 byte 0/1; INT2/INT4/INT8 big-endian two's complement, v <= iN::MAX;
     OID big-endian u32; MONEY = i64 of 100 v (two decimals);
     BYTEA = the BYTES big-endian bytes;
     BIT/VARBIT = i32 bit length BITS, then the BITS bits most significant first, padded with
       zero bits at the low end of the last byte, i.e. BYTES big-endian bytes of v * 2^pad
       (bit(0) does not exist; varbit may be empty);
     CHAR/TEXT/VARCHAR = ref_hex; JSON = the JSON string of it; JSONB = version byte 1 + JSON *)
Definition pg_ref_encode (bits ty v : Z) : option (list Z) :=
  if ty =? BOOL then if v <=? 1 then Some [v] else None
  else if ty =? INT2 then if v <? 2 ^ 15 then Some (be_bytes 2 v) else None
  else if ty =? INT4 then if v <? 2 ^ 31 then Some (be_bytes 4 v) else None
  else if ty =? OID then if v <? 2 ^ 32 then Some (be_bytes 4 v) else None
  else if ty =? INT8 then if v <? 2 ^ 63 then Some (be_bytes 8 v) else None
  else if ty =? MONEY then if 100 * v <? 2 ^ 63 then Some (be_bytes 8 (100 * v)) else None
  else if ty =? BYTEA then Some (be_bytes (SBYTES bits) v)
  else if (ty =? BIT) || (ty =? VARBIT) then
    if bits =? 0 then (if ty =? BIT then None else Some (be_bytes 4 0))
    else if 2 ^ 31 <=? bits then None
    else Some (be_bytes 4 bits
               ++ be_bytes (SBYTES bits) (Z.shiftl v (8 * SBYTES bits - bits)))
  else if is_text ty then Some (ref_hex v)
  else if ty =? JSON then Some (ref_json v)
  else if ty =? JSONB then Some (1 :: ref_json v)
  else if ty =? NUMERIC then numeric_ref v
  else None.

(* FLOAT4 / FLOAT8: 4 / 8 big-endian bytes of an IEEE pattern that is one of the two
   neighbours of v (C18's spec_to; +inf from the overflow threshold on) *)
Definition pg_float_ok (ty v : Z) (bs : list Z) : bool :=
  if ty =? FLOAT4 then (lenZ bs =? 4) && RunC18.spec_to 24 128 v (be_value bs)
  else (lenZ bs =? 8) && RunC18.spec_to 53 1024 v (be_value bs).

(* ---------- decoding: the integer an input denotes for a Uint<bits>, None = reject ---------- *)
Definition int_denotes (w : Z) (sgn : bool) (raw : list Z) : option Z :=
  if lenZ raw =? w / 8 then
    let u := be_value raw in
    let s := if sgn then signed w u else u in
    if s <? 0 then None else Some s
  else None.

Definition float_denotes (prec emax n : Z) (raw : list Z) : option Z :=
  if lenZ raw =? n then
    match RunC18.classify prec emax (be_value raw) with
    | RunC18.FPos v => Some v            (* round half up of a non-negative finite float *)
    | _ => None                          (* NaN, infinities, negative *)
    end
  else None.

(* MONEY: cents; the integer part of a non-negative amount (fractions of a unit are dropped,
   as for the float column types); negative amounts denote no unsigned integer *)
Definition money_denotes (raw : list Z) : option Z :=
  if lenZ raw =? 8 then
    let c := signed 64 (be_value raw) in
    if 0 <=? c then Some (c / 100) else None
  else None.

(* BYTEA: big-endian bytes; at most BYTES of them *)
Definition bytea_denotes (bits : Z) (raw : list Z) : option Z :=
  if lenZ raw <=? SBYTES bits then Some (be_value raw) else None.

(* BIT / VARBIT: i32 length L >= 0, ceil(L/8) payload bytes, the L bits most significant first
   (padding bits at the low end ignored); at most BYTES payload bytes *)
Definition bit_denotes (bits : Z) (raw : list Z) : option Z :=
  if lenZ raw <? 4 then None
  else
    let L := signed 32 (be_value (firstn 4 raw)) in
    let payload := skipn 4 raw in
    if L <? 0 then None
    else if negb (lenZ payload =? (L + 7) / 8) then None
    else if negb (lenZ payload <=? SBYTES bits) then None
    else Some (Z.shiftr (be_value payload) (8 * lenZ payload - L)).

(* i16 digits, two bytes each *)
Fixpoint i16_list (raw : list Z) : list Z :=
  match raw with
  | b0 :: b1 :: t => signed 16 (b0 * 256 + b1) :: i16_list t
  | _ => []
  end.

(* NUMERIC: header as in numeric_ref, ndigits <= weight + 1 (no fractional digits), every digit
   in 0..9999; value = sum d_i 10000^(weight - i).  (For huge weights the comparison with
   2^bits is decided without computing the power: 10000^z >= 2^(13 z).) *)
Definition numeric_denotes (bits : Z) (raw : list Z) : option Z :=
  if lenZ raw <? 8 then None
  else
    match i16_list (firstn 8 raw) with
    | [nd; weight; sign; dscale] =>
        let body := skipn 8 raw in
        if (nd <? 0) || (weight <? 0) || negb (sign =? 0) || negb (dscale =? 0)
           || (weight + 1 <? nd) || negb (lenZ body =? 2 * nd)
        then None
        else
          let ds := i16_list body in
          if forallb (fun d => (0 <=? d) && (d <? 10000)) ds then
            let dv := RunC09.value_be 10000 ds in
            let z := weight + 1 - nd in
            if dv =? 0 then Some 0
            else if bits <? 13 * z then None            (* dv * 10000^z >= 2^(13 z) > 2^bits *)
            else Some (dv * 10000 ^ z)
          else None
    | _ => None
    end.

(* a JSON string: both quotes present *)
Definition unquote (cs : list Z) : list Z :=
  match cs with
  | 34 :: t =>
      match t with
      | [] => cs
      | _ => if last t 0 =? 34 then removelast t else cs
      end
  | _ => cs
  end.
