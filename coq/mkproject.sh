#!/bin/sh
# regenerates _CoqProject and Makefile from the .v files present
cd "$(dirname "$0")"
{
  echo "-R . RV"
  echo "-arg -w -arg -notation-overridden,-deprecated-hint-without-locality,-deprecated-syntactic-definition"
  ls Model/*.v Gen/*.v Spec/*.v Proofs/*.v Run/*.v Properties/*.v 2>/dev/null | sort
} > _CoqProject.new
if ! cmp -s _CoqProject.new _CoqProject; then mv _CoqProject.new _CoqProject; else rm _CoqProject.new; fi
if [ ! -f Makefile ] || [ _CoqProject -nt Makefile ]; then coq_makefile -f _CoqProject -o Makefile >/dev/null; fi
