(* Proofs/PfC04a.v — property C04 part (a): closure of the canonical values under operation
   histories.

   For every opcode:  sem o bits a b c imm = lift bits (zsem o bits (eval a) (eval b) (eval c) imm)
   (the model's step is the integer interpreter's step, written back as canonical limbs) and the
   integer interpreter stays inside [0, 2^bits) (`sem_ok`).  Each case is a corollary of the
   characterising lemma of the operation (PfC01, PfC05/PfShift, PfBits, PfConv, PfBytes,
   PfBaseConv/PfC09, PfStr, PfFloat, PfC04c, PfMul, PfDiv/PfC03Closed, PfC10Closed, PfGcd/PfC12Closed,
   PfRedc/PfC11).  For the two opaque opcodes (wrapping_pow, root) the equation holds by definition
   of `sem`.  Lifted to steps (`step_canon`, `step_refines`) and, by induction over
   the program, to histories of any length (`history_canon`, `C04a_all`). *)
From Coq Require Import ZArith List Bool Lia.
From RV.Model Require Import Base Word Opaque History.
From RV.Model Require Add Shift Bits Conv Bytes BaseConv Str Float Gen.
From RV.Proofs Require Import BaseFacts.
From RV.Proofs Require PfC01 PfShift PfC05 PfBits PfC06 PfConv PfC07 PfBytes PfC08 PfBaseConv
                       PfPositional PfC09 PfStr PfFloat PfC04b PfC04c
                       PfMul PfDiv PfUDiv PfC03Closed PfModular PfC10 PfC10Closed
                       PfGcdUint PfGcd PfGcdInv PfGcdMatrix PfC12Closed PfRedc PfC11 PfC03 PfPow.
From RV.Model Require Mul UDiv Gcd Modular Redc Div Pow.
From RV.Run Require RunC03 RunC11 RunC13.
From RV.Run Require RunC05 RunC06 RunC08 RunC09 RunC18.
From RV.Run Require Import RunC04a.
Local Open Scope Z_scope.

(* ================= generic facts ================= *)
Lemma pow2_pos k : 0 <= k -> 0 < 2 ^ k. Proof. intros. apply Z.pow_pos_nonneg; lia. Qed.

(* the integer interpreter's result stays in range *)
Definition zrange (bits : Z) (z : zres) : Prop :=
  match z with
  | Val (Some v, _) => 0 <= v < 2 ^ bits
  | CompileError | OutOfFuel => False        (* the interpreter never produces these *)
  | _ => True
  end.
Definition ok (bits : Z) (s : sres) (z : zres) : Prop := s = lift bits z /\ zrange bits z.

Lemma uint_of_range_canon bits v : 0 <= bits -> 0 <= v < 2 ^ bits ->
  canon bits (uint_of bits v) /\ eval (uint_of bits v) = v.
Proof.
  intros Hb Hv. pose proof (PfC04c.uint_of_mod_canon bits v Hb) as Hc.
  rewrite Z.mod_small in Hc by lia. split; [exact Hc|].
  unfold uint_of. rewrite eval_to_limbs. destruct Hc as (_ & _ & Hlt).
  unfold uint_of in Hlt. rewrite eval_to_limbs in Hlt.
  destruct (Z.eq_dec bits 0) as [->|N].
  - change (2 ^ 0) with 1 in *. cbn. rewrite Z.mod_1_r. lia.
  - pose proof (PfConv.pow_bits_divides_Bn bits ltac:(lia)) as E.
    pose proof (pow2_pos (64 * nlimbs bits - bits) ltac:(pose proof (nlimbs_bounds bits ltac:(lia)); lia)).
    rewrite nlimbsN_Z by lia. rewrite Z.mod_small; [reflexivity|]. nia.
Qed.

Lemma ok_wr bits r v : 0 <= bits -> canon bits r -> eval r = v -> ok bits (wr r) (zw v).
Proof.
  intros Hb Hc He. split.
  - unfold wr, lift, zw. cbn [obind fst snd option_map]. now rewrite <- (uint_of_unique bits r v Hc He).
  - cbn. rewrite <- He. now apply canon_range.
Qed.
Lemma ok_wrf bits r v f : 0 <= bits -> canon bits r -> eval r = v -> ok bits (wrf (r, f)) (zwf v f).
Proof.
  intros Hb Hc He. rewrite (uint_of_unique bits r v Hc He). split; [reflexivity|]. cbn. rewrite <- He. now apply canon_range.
Qed.
Lemma ok_wro_some_c bits r v : 0 <= bits -> canon bits r -> eval r = v -> ok bits (wro (Some r)) (zwo (Some v)).
Proof.
  intros Hb Hc He. rewrite (uint_of_unique bits r v Hc He). split; [reflexivity|]. cbn. rewrite <- He. now apply canon_range.
Qed.
Lemma ok_wr_u bits v : 0 <= v < 2 ^ bits -> ok bits (wr (uint_of bits v)) (zw v).
Proof. intros Hv. split; [reflexivity|exact Hv]. Qed.
Lemma ok_wrf_u bits v f : 0 <= v < 2 ^ bits -> ok bits (wrf (uint_of bits v, f)) (zwf v f).
Proof. intros Hv. split; [reflexivity|exact Hv]. Qed.
Lemma ok_wro_some bits v : 0 <= v < 2 ^ bits -> ok bits (wro (Some (uint_of bits v))) (zwo (Some v)).
Proof. intros Hv. split; [reflexivity|exact Hv]. Qed.
Lemma ok_wro_none bits : ok bits (wro None) (zwo None).
Proof. split; [reflexivity|exact I]. Qed.
Lemma ok_panic bits : ok bits Panic Panic.
Proof. split; [reflexivity|exact I]. Qed.

Lemma mod_range v k : 0 <= k -> 0 <= v mod 2 ^ k < 2 ^ k.
Proof. intros. apply Z.mod_pos_bound. now apply pow2_pos. Qed.
Lemma modp2_range v k : 0 <= k -> 0 <= modp2 v k < 2 ^ k.
Proof. intros. rewrite modp2_spec by lia. now apply mod_range. Qed.

Lemma imm1_inW imm : Forall inW imm -> inW (imm1 imm).
Proof.
  intros H. unfold imm1. destruct imm as [|x t]; cbn [nth]; [unfold inW; pose proof B_pos; lia|].
  now inversion H.
Qed.
Lemma imm2_inW imm : Forall inW imm -> inW (imm2 imm).
Proof.
  intros H. unfold imm2. destruct imm as [|x [|y t]]; cbn [nth]; try (unfold inW; pose proof B_pos; lia).
  inversion H as [|? ? _ H2]; subst. now inversion H2.
Qed.
Lemma tl_inW imm : Forall inW imm -> Forall inW (tl imm).
Proof. intros H. destruct imm; cbn [tl]; [constructor|now inversion H]. Qed.

(* ================= the specification's modular inverse ================= *)
Lemma inv_loop_spec a m : forall fuel r0 r1 t0 t1,
  0 <= r1 < r0 -> r0 * r1 < 2 ^ Z.of_nat fuel ->
  (m | t0 * a - r0) -> (m | t1 * a - r1) ->
  fst (inv_loop fuel r0 r1 t0 t1) = Z.gcd r0 r1 /\
  (m | snd (inv_loop fuel r0 r1 t0 t1) * a - fst (inv_loop fuel r0 r1 t0 t1)).
Proof.
  induction fuel as [|f IH]; intros r0 r1 t0 t1 Hr Hp H0 H1; cbn [inv_loop].
  - change (2 ^ Z.of_nat 0) with 1 in Hp. assert (r1 = 0) by nia. subst r1. cbn [fst snd].
    rewrite Z.gcd_0_r, Z.abs_eq by lia. auto.
  - destruct (Z.eqb_spec r1 0) as [E|N].
    + subst r1. cbn [fst snd]. rewrite Z.gcd_0_r, Z.abs_eq by lia. auto.
    + pose proof (Z.mod_pos_bound r0 r1 ltac:(lia)) as Hm.
      destruct (IH r1 (r0 mod r1) t1 (t0 - r0 / r1 * t1)) as [G D]; try lia.
      * rewrite Nat2Z.inj_succ, Z.pow_succ_r in Hp by lia.
        pose proof (PfGcd.euclid_halves r0 r1 ltac:(lia)). lia.
      * exact H1.
      * replace ((t0 - r0 / r1 * t1) * a - r0 mod r1) with ((t0 * a - r0) - (r0 / r1) * (t1 * a - r1))
          by (rewrite Z.mod_eq by lia; ring).
        apply Z.divide_sub_r; [exact H0 | apply Z.divide_mul_r; exact H1].
      * split; [|exact D]. rewrite G. rewrite (Z.gcd_comm r1), Z.gcd_mod by lia. apply Z.gcd_comm.
Qed.

Lemma zmodinv_spec a m : 2 <= m -> Z.gcd a m = 1 ->
  0 <= zmodinv a m < m /\ (a * zmodinv a m) mod m = 1.
Proof.
  intros Hm Hg. unfold zmodinv.
  pose proof (Z.mod_pos_bound a m ltac:(lia)) as Ham.
  pose proof (Z.log2_spec m ltac:(lia)) as Hl. pose proof (Z.log2_nonneg m) as Hl0.
  destruct (inv_loop_spec a m (Z.to_nat (2 * Z.log2 m + 2)) m (a mod m) 0 1) as [G D]; try lia.
  - rewrite Z2Nat.id by lia. replace (2 * Z.log2 m + 2) with (Z.succ (Z.log2 m) + Z.succ (Z.log2 m)) by lia.
    rewrite Z.pow_add_r by lia. nia.
  - exists (-1). ring.
  - exists (a / m). rewrite Z.mod_eq by lia. ring.
  - set (t := snd (inv_loop _ m (a mod m) 0 1)) in *.
    rewrite G in D. rewrite (Z.gcd_comm m), Z.gcd_mod, Z.gcd_comm, Hg in D by lia.
    split; [apply Z.mod_pos_bound; lia|].
    rewrite Z.mul_mod_idemp_r by lia. destruct D as [k Hk].
    replace (a * t) with (1 + k * m) by lia. rewrite Z_mod_plus_full. apply Z.mod_small. lia.
Qed.

Lemma inv_unique m a x y : 0 < m -> 0 <= x < m -> 0 <= y < m ->
  (a * x) mod m = 1 -> (a * y) mod m = 1 -> x = y.
Proof.
  intros Hm Hx Hy Ex Ey.
  assert (H1 : (x * (a * y)) mod m = x mod m).
  { rewrite <- Z.mul_mod_idemp_r, Ey by lia. f_equal. lia. }
  assert (H2 : (y * (a * x)) mod m = y mod m).
  { rewrite <- Z.mul_mod_idemp_r, Ex by lia. f_equal. lia. }
  replace (y * (a * x)) with (x * (a * y)) in H2 by ring.
  rewrite H1 in H2. rewrite !Z.mod_small in H2 by lia. exact H2.
Qed.

Lemma inv_gcd m a x : 0 < m -> (a * x) mod m = 1 -> Z.gcd a m = 1.
Proof.
  intros Hm E. pose proof (Z.gcd_nonneg a m) as Hg.
  apply Z.divide_1_r_nonneg; [exact Hg|].
  replace 1 with (a * x - m * (a * x / m)) by (rewrite <- E, Z.mod_eq by lia; ring).
  apply Z.divide_sub_r; apply Z.divide_mul_l; [apply Z.gcd_divide_l|apply Z.gcd_divide_r].
Qed.

(* ================= add / sub / neg ================= *)
Section Ops.
  Variables (bits : Z) (a b c imm : list Z).
  Hypotheses (Hb : 0 <= bits < 2 ^ 64) (Ha : canon bits a) (Hc : canon bits b) (Hd : canon bits c)
             (Hi : Forall inW imm).
  Let Hb0 : 0 <= bits := proj1 Hb.
  Let Ra := canon_range bits a Hb0 Ha.
  Let Rb := canon_range bits b Hb0 Hc.
  Let Rc := canon_range bits c Hb0 Hd.
  Let Hp := pow2_pos bits Hb0.
  Let Wa := PfC07.canon_inW bits a Ha.
  Let Wb := PfC07.canon_inW bits b Hc.
  Let Wc := PfC07.canon_inW bits c Hd.

  Local Ltac start := unfold sem, zsem; cbv zeta.

  Lemma ok_OvAdd : ok bits (sem OvAdd bits a b c imm) (zsem OvAdd bits (eval a) (eval b) (eval c) imm).
  Proof. start. rewrite PfC01.add_eq, <- modp2_spec by auto. apply ok_wrf_u, modp2_range; lia. Qed.
  Lemma ok_OvSub : ok bits (sem OvSub bits a b c imm) (zsem OvSub bits (eval a) (eval b) (eval c) imm).
  Proof. start. rewrite PfC01.sub_eq, <- modp2_spec by auto. apply ok_wrf_u, modp2_range; lia. Qed.
  Lemma ok_OvNeg : ok bits (sem OvNeg bits a b c imm) (zsem OvNeg bits (eval a) (eval b) (eval c) imm).
  Proof. start. rewrite PfC01.neg_eq, <- modp2_spec by auto. apply ok_wrf_u, modp2_range; lia. Qed.

  Lemma ok_ChAdd : ok bits (sem ChAdd bits a b c imm) (zsem ChAdd bits (eval a) (eval b) (eval c) imm).
  Proof.
    start. unfold Add.checked_add, Add.checked_of, M. rewrite PfC01.add_eq by auto.
    destruct (Z.leb_spec (2 ^ bits) (eval a + eval b)); destruct (Z.ltb_spec (eval a + eval b) (2 ^ bits));
      try lia; [apply ok_wro_none|]. rewrite Z.mod_small by lia. apply ok_wro_some; lia.
  Qed.
  Lemma ok_ChSub : ok bits (sem ChSub bits a b c imm) (zsem ChSub bits (eval a) (eval b) (eval c) imm).
  Proof.
    start. unfold Add.checked_sub, Add.checked_of. rewrite PfC01.sub_eq by auto.
    destruct (Z.ltb_spec (eval a) (eval b)); destruct (Z.leb_spec (eval b) (eval a));
      try lia; [apply ok_wro_none|]. rewrite Z.mod_small by lia. apply ok_wro_some; lia.
  Qed.
  Lemma ok_ChNeg : ok bits (sem ChNeg bits a b c imm) (zsem ChNeg bits (eval a) (eval b) (eval c) imm).
  Proof.
    start. unfold Add.checked_neg, Add.checked_of. rewrite PfC01.neg_eq by auto.
    destruct (Z.ltb_spec 0 (eval a)); destruct (Z.eqb_spec (eval a) 0); try lia; [apply ok_wro_none|].
    replace (- eval a) with 0 by lia. rewrite Z.mod_0_l by lia. apply ok_wro_some; lia.
  Qed.
  Lemma ok_SatAdd : ok bits (sem SatAdd bits a b c imm) (zsem SatAdd bits (eval a) (eval b) (eval c) imm).
  Proof.
    start. unfold Add.saturating_add, M. rewrite PfC01.add_eq by auto.
    destruct (Z.leb_spec (2 ^ bits) (eval a + eval b)); destruct (Z.ltb_spec (eval a + eval b) (2 ^ bits));
      try lia.
    - rewrite PfC07.uMAX_eq by auto. apply ok_wr_u; lia.
    - rewrite Z.mod_small by lia. apply ok_wr_u; lia.
  Qed.
  Lemma ok_SatSub : ok bits (sem SatSub bits a b c imm) (zsem SatSub bits (eval a) (eval b) (eval c) imm).
  Proof.
    start. unfold Add.saturating_sub. rewrite PfC01.sub_eq by auto.
    destruct (Z.ltb_spec (eval a) (eval b)); destruct (Z.leb_spec (eval b) (eval a)); try lia.
    - rewrite PfC07.uZERO_eq by auto. apply ok_wr_u; lia.
    - rewrite Z.mod_small by lia. apply ok_wr_u; lia.
  Qed.
  Lemma ok_WrAdd : ok bits (sem WrAdd bits a b c imm) (zsem WrAdd bits (eval a) (eval b) (eval c) imm).
  Proof.
    start. unfold Add.wrapping_add. rewrite PfC01.add_eq, <- modp2_spec by auto. cbn [fst].
    apply ok_wr_u, modp2_range; lia.
  Qed.
  Lemma ok_WrSub : ok bits (sem WrSub bits a b c imm) (zsem WrSub bits (eval a) (eval b) (eval c) imm).
  Proof.
    start. unfold Add.wrapping_sub. rewrite PfC01.sub_eq, <- modp2_spec by auto. cbn [fst].
    apply ok_wr_u, modp2_range; lia.
  Qed.
  Lemma ok_WrNeg : ok bits (sem WrNeg bits a b c imm) (zsem WrNeg bits (eval a) (eval b) (eval c) imm).
  Proof.
    start. unfold Add.wrapping_neg. rewrite PfC01.neg_eq, <- modp2_spec by auto. cbn [fst].
    apply ok_wr_u, modp2_range; lia.
  Qed.
  Lemma ok_AbsDiff : ok bits (sem AbsDiff bits a b c imm) (zsem AbsDiff bits (eval a) (eval b) (eval c) imm).
  Proof.
    start. unfold Add.abs_diff. rewrite (PfC01.ult_spec bits) by auto.
    unfold Add.wrapping_sub. rewrite !PfC01.sub_eq by auto. cbn [fst].
    destruct (Z.ltb_spec (eval a) (eval b)).
    - rewrite Z.mod_small by lia. replace (Z.abs (eval a - eval b)) with (eval b - eval a) by lia.
      apply ok_wr_u; lia.
    - rewrite Z.mod_small by lia. replace (Z.abs (eval a - eval b)) with (eval a - eval b) by lia.
      apply ok_wr_u; lia.
  Qed.

  (* ================= shifts and rotations ================= *)
  Let Hs := imm1_inW imm Hi.

  Lemma shl_val_range x s : 0 <= RunC05.shl_val bits x s < 2 ^ bits.
  Proof. unfold RunC05.shl_val. destruct (bits <=? s); [lia|]. apply modp2_range; lia. Qed.
  Lemma shr_val_range x s : 0 <= x < 2 ^ bits -> 0 <= s -> 0 <= RunC05.shr_val bits x s < 2 ^ bits.
  Proof.
    intros Hx Hs0. unfold RunC05.shr_val. destruct (bits <=? s); [lia|]. rewrite divp2_spec by lia.
    pose proof (pow2_pos s Hs0). split; [apply Z.div_pos; lia|].
    apply Z.le_lt_trans with x; [|lia]. apply Z.div_le_upper_bound; nia.
  Qed.

  Lemma ok_OvShl : ok bits (sem OvShl bits a b c imm) (zsem OvShl bits (eval a) (eval b) (eval c) imm).
  Proof. start. unfold inW in Hs. rewrite PfC05.shl_eq by (auto; lia). apply ok_wrf_u, shl_val_range. Qed.
  Lemma ok_OvShr : ok bits (sem OvShr bits a b c imm) (zsem OvShr bits (eval a) (eval b) (eval c) imm).
  Proof. start. unfold inW in Hs. rewrite PfC05.shr_eq by (auto; lia). apply ok_wrf_u, shr_val_range; lia. Qed.
  Lemma ok_ChShl : ok bits (sem ChShl bits a b c imm) (zsem ChShl bits (eval a) (eval b) (eval c) imm).
  Proof.
    start. unfold inW in Hs. unfold Shift.checked_shl, Shift.checked_of. rewrite PfC05.shl_eq by (auto; lia).
    destruct (RunC05.shl_lost bits (eval a) (imm1 imm)); [apply ok_wro_none|apply ok_wro_some, shl_val_range].
  Qed.
  Lemma ok_ChShr : ok bits (sem ChShr bits a b c imm) (zsem ChShr bits (eval a) (eval b) (eval c) imm).
  Proof.
    start. unfold inW in Hs. unfold Shift.checked_shr, Shift.checked_of. rewrite PfC05.shr_eq by (auto; lia).
    destruct (RunC05.shr_lost bits (eval a) (imm1 imm)); [apply ok_wro_none|apply ok_wro_some, shr_val_range; lia].
  Qed.
  Lemma ok_SatShl : ok bits (sem SatShl bits a b c imm) (zsem SatShl bits (eval a) (eval b) (eval c) imm).
  Proof.
    start. unfold inW in Hs. unfold Shift.saturating_shl, M. rewrite PfC05.shl_eq by (auto; lia).
    destruct (RunC05.shl_lost bits (eval a) (imm1 imm)).
    - rewrite PfC07.uMAX_eq by auto. apply ok_wr_u; lia.
    - apply ok_wr_u, shl_val_range.
  Qed.
  Lemma ok_WrShl : ok bits (sem WrShl bits a b c imm) (zsem WrShl bits (eval a) (eval b) (eval c) imm).
  Proof.
    start. unfold inW in Hs. unfold Shift.wrapping_shl. rewrite PfC05.shl_eq by (auto; lia). cbn [fst].
    apply ok_wr_u, shl_val_range.
  Qed.
  Lemma ok_WrShr : ok bits (sem WrShr bits a b c imm) (zsem WrShr bits (eval a) (eval b) (eval c) imm).
  Proof.
    start. unfold inW in Hs. unfold Shift.wrapping_shr. rewrite PfC05.shr_eq by (auto; lia). cbn [fst].
    apply ok_wr_u, shr_val_range; lia.
  Qed.
  Lemma ok_AShr : ok bits (sem AShr bits a b c imm) (zsem AShr bits (eval a) (eval b) (eval c) imm).
  Proof.
    start. unfold inW in Hs. destruct (Z.eqb_spec bits 0) as [E|N].
    - unfold Shift.arithmetic_shr. rewrite E. cbn [Z.eqb]. rewrite PfC07.uZERO_eq by lia. apply ok_wr_u. cbn; lia.
    - destruct (PfShift.arithmetic_shr_spec bits a (imm1 imm) ltac:(lia) Ha ltac:(lia)) as [C E].
      apply ok_wr; auto. rewrite E. symmetry. apply PfC05.ashr_val_math; lia.
  Qed.
  Lemma ok_RotL : ok bits (sem RotL bits a b c imm) (zsem RotL bits (eval a) (eval b) (eval c) imm).
  Proof.
    start. unfold inW in Hs. destruct (Z.eqb_spec bits 0) as [E|N].
    - unfold Shift.rotate_left. rewrite E. cbn [Z.eqb]. rewrite PfC07.uZERO_eq by lia. apply ok_wr_u. cbn; lia.
    - pose proof (PfShift.rotate_left_spec bits a (imm1 imm) ltac:(lia) Ha ltac:(lia)) as S. cbv zeta in S.
      destruct S as [C E]. apply ok_wr; auto. rewrite E. symmetry.
      pose proof (Z.mod_pos_bound (imm1 imm) bits ltac:(lia)). apply PfC05.rotl_val_math; lia.
  Qed.
  Lemma ok_RotR : ok bits (sem RotR bits a b c imm) (zsem RotR bits (eval a) (eval b) (eval c) imm).
  Proof.
    start. unfold inW in Hs. destruct (Z.eqb_spec bits 0) as [E|N].
    - unfold Shift.rotate_right. rewrite E. cbn [Z.eqb]. rewrite PfC07.uZERO_eq by lia. apply ok_wr_u. cbn; lia.
    - pose proof (PfShift.rotate_right_spec bits a (imm1 imm) ltac:(lia) Ha ltac:(lia)) as S. cbv zeta in S.
      destruct S as [C E]. apply ok_wr; auto. rewrite E.
      pose proof (Z.mod_pos_bound (imm1 imm) bits ltac:(lia)).
      rewrite divp2_spec, modp2_spec, Z.shiftl_mul_pow2 by lia. reflexivity.
  Qed.
  Lemma ok_ShlUint : ok bits (sem ShlUint bits a b c imm) (zsem ShlUint bits (eval a) (eval b) (eval c) imm).
  Proof.
    start. destruct (PfShift.shl_uint_spec bits a b Hb Ha Hc) as [C E]. apply ok_wr; auto.
    rewrite E. symmetry. apply PfC05.shl_val_math; lia.
  Qed.
  Lemma ok_ShrUint : ok bits (sem ShrUint bits a b c imm) (zsem ShrUint bits (eval a) (eval b) (eval c) imm).
  Proof.
    start. destruct (PfShift.shr_uint_spec bits a b Hb Ha Hc) as [C E]. apply ok_wr; auto.
    rewrite E. symmetry. apply PfC05.shr_val_math; lia.
  Qed.

  (* ================= bit operations ================= *)
  Lemma ok_BitAnd : ok bits (sem BitAnd bits a b c imm) (zsem BitAnd bits (eval a) (eval b) (eval c) imm).
  Proof.
    start.
    destruct (PfC06.bit_op_spec Z.land andb bits 0 a b Z.land_spec
                (fun x y Hx Hy => proj2 (Z.land_nonneg x y) (or_introl Hx)) eq_refl Z.land_comm Hb0 Ha Hc)
      as (r & -> & C & E). cbn [obind]. now apply ok_wr.
  Qed.
  Lemma ok_BitOr : ok bits (sem BitOr bits a b c imm) (zsem BitOr bits (eval a) (eval b) (eval c) imm).
  Proof.
    start.
    destruct (PfC06.bit_op_spec Z.lor orb bits 0 a b Z.lor_spec
                (fun x y Hx Hy => proj2 (Z.lor_nonneg x y) (conj Hx Hy)) eq_refl Z.lor_comm Hb0 Ha Hc)
      as (r & -> & C & E). cbn [obind]. now apply ok_wr.
  Qed.
  Lemma ok_BitXor : ok bits (sem BitXor bits a b c imm) (zsem BitXor bits (eval a) (eval b) (eval c) imm).
  Proof.
    start.
    destruct (PfC06.bit_op_spec Z.lxor xorb bits 0 a b Z.lxor_spec
                (fun x y Hx Hy => proj2 (Z.lxor_nonneg x y) (conj (fun _ => Hy) (fun _ => Hx))) eq_refl
                Z.lxor_comm Hb0 Ha Hc)
      as (r & -> & C & E). cbn [obind]. now apply ok_wr.
  Qed.
  Lemma ok_BitNot : ok bits (sem BitNot bits a b c imm) (zsem BitNot bits (eval a) (eval b) (eval c) imm).
  Proof. start. destruct (PfBits.unot_spec bits a Hb0 Ha) as [C E]. now apply ok_wr. Qed.
  Lemma ok_SetBit : ok bits (sem SetBit bits a b c imm) (zsem SetBit bits (eval a) (eval b) (eval c) imm).
  Proof.
    start. unfold inW in Hs.
    destruct (PfBits.set_bit_spec bits a (imm1 imm) (negb (imm2 imm =? 0)) Hb0 Ha ltac:(lia))
      as (r & -> & C & E). cbn [obind]. now apply ok_wr.
  Qed.
  Lemma ok_RevBits : ok bits (sem RevBits bits a b c imm) (zsem RevBits bits (eval a) (eval b) (eval c) imm).
  Proof. start. destruct (PfBits.reverse_bits_spec bits a Hb0 Ha) as [C E]. now apply ok_wr. Qed.
  Lemma npot_range p : RunC06.spec_npot bits (eval a) = Some p -> 0 <= p < 2 ^ bits.
  Proof.
    unfold RunC06.spec_npot. cbv zeta. destruct (Z.ltb_spec (2 ^ Z.log2_up (eval a)) (2 ^ bits)); [|discriminate].
    intros E. injection E as <-. pose proof (pow2_pos (Z.log2_up (eval a)) (Z.log2_up_nonneg _)). lia.
  Qed.
  Lemma ok_Npot : ok bits (sem Npot bits a b c imm) (zsem Npot bits (eval a) (eval b) (eval c) imm).
  Proof.
    start. rewrite PfBits.npot_spec by auto. destruct (RunC06.spec_npot bits (eval a)) as [p|] eqn:E.
    - cbn [obind]. apply ok_wr_u. now apply npot_range.
    - apply ok_panic.
  Qed.
  Lemma ok_CNpot : ok bits (sem CNpot bits a b c imm) (zsem CNpot bits (eval a) (eval b) (eval c) imm).
  Proof.
    start. rewrite PfBits.cnpot_spec by auto. cbn [obind].
    destruct (RunC06.spec_npot bits (eval a)) as [p|] eqn:E.
    - apply ok_wro_some. now apply npot_range.
    - apply ok_wro_none.
  Qed.

  (* ================= conversions from u64 / u128 / limb slices ================= *)
  Lemma ok_res_of v : 0 <= v ->
    ok bits (wr_to_res (PfConv.res_of bits v)) (z_try bits v).
  Proof.
    intros Hv. unfold PfConv.res_of, z_try, M. destruct (Z.ltb_spec v (2 ^ bits)); cbn [wr_to_res].
    - split; [reflexivity|cbn; lia].
    - rewrite <- modp2_spec by lia. split; [reflexivity|]. cbn. apply modp2_range; lia.
  Qed.
  Lemma ok_from_of v : 0 <= v ->
    ok bits (do r <- Conv.from_of (Val (PfConv.res_of bits v)) ; wr r) (z_from bits v).
  Proof.
    intros Hv. unfold PfConv.res_of, z_from, M, Conv.from_of. destruct (Z.ltb_spec v (2 ^ bits)); cbn [obind].
    - apply ok_wr_u; lia.
    - apply ok_panic.
  Qed.
  Lemma ok_wrapping_of v : 0 <= v ->
    ok bits (do r <- Conv.wrapping_from_of (Val (PfConv.res_of bits v)) ; wr r) (zw (modp2 v bits)).
  Proof.
    intros Hv. unfold PfConv.res_of, Conv.wrapping_from_of. rewrite modp2_spec by lia.
    destruct (Z.ltb_spec v (2 ^ bits)); cbn [obind].
    - rewrite Z.mod_small by lia. apply ok_wr_u; lia.
    - apply ok_wr_u, mod_range; lia.
  Qed.
  Lemma ok_saturating_of v : 0 <= v ->
    ok bits (do r <- Conv.saturating_from_of bits (Val (PfConv.res_of bits v)) ; wr r) (z_sat bits v).
  Proof.
    intros Hv. unfold PfConv.res_of, Conv.saturating_from_of, z_sat, M.
    destruct (Z.ltb_spec v (2 ^ bits)); cbn [obind].
    - apply ok_wr_u; lia.
    - rewrite PfC07.uMAX_eq by auto. apply ok_wr_u; lia.
  Qed.

  Let Hs2 := imm2_inW imm Hi.
  Lemma u128_range : 0 <= imm1 imm + B * imm2 imm < 2 ^ 128.
  Proof.
    unfold inW in Hs, Hs2. change (2 ^ 128) with (2 ^ 64 * 2 ^ 64). rewrite <- B_pow. pose proof B_pos. nia.
  Qed.
  Lemma u128_eq : imm1 imm + 2 ^ 64 * imm2 imm = imm1 imm + B * imm2 imm.
  Proof. now rewrite <- B_pow. Qed.

  Lemma ok_TryFromU64 : ok bits (sem TryFromU64 bits a b c imm) (zsem TryFromU64 bits (eval a) (eval b) (eval c) imm).
  Proof. start. unfold inW in Hs. rewrite PfConv.try_from_u64_spec by (auto; lia). cbn [obind]. apply ok_res_of; lia. Qed.
  Lemma ok_FromU64 : ok bits (sem FromU64 bits a b c imm) (zsem FromU64 bits (eval a) (eval b) (eval c) imm).
  Proof. start. unfold inW in Hs. rewrite PfConv.try_from_u64_spec by (auto; lia). apply ok_from_of; lia. Qed.
  Lemma ok_WrapFromU64 : ok bits (sem WrapFromU64 bits a b c imm) (zsem WrapFromU64 bits (eval a) (eval b) (eval c) imm).
  Proof. start. unfold inW in Hs. rewrite PfConv.try_from_u64_spec by (auto; lia). apply ok_wrapping_of; lia. Qed.
  Lemma ok_SatFromU64 : ok bits (sem SatFromU64 bits a b c imm) (zsem SatFromU64 bits (eval a) (eval b) (eval c) imm).
  Proof. start. unfold inW in Hs. rewrite PfConv.try_from_u64_spec by (auto; lia). apply ok_saturating_of; lia. Qed.
  Lemma ok_TryFromU128 : ok bits (sem TryFromU128 bits a b c imm) (zsem TryFromU128 bits (eval a) (eval b) (eval c) imm).
  Proof.
    start. pose proof u128_range. rewrite u128_eq, PfConv.try_from_u128_spec by (auto; lia). cbn [obind].
    apply ok_res_of; lia.
  Qed.
  Lemma ok_FromU128 : ok bits (sem FromU128 bits a b c imm) (zsem FromU128 bits (eval a) (eval b) (eval c) imm).
  Proof. start. pose proof u128_range. rewrite u128_eq, PfConv.try_from_u128_spec by (auto; lia). apply ok_from_of; lia. Qed.
  Lemma ok_WrapFromU128 : ok bits (sem WrapFromU128 bits a b c imm) (zsem WrapFromU128 bits (eval a) (eval b) (eval c) imm).
  Proof. start. pose proof u128_range. rewrite u128_eq, PfConv.try_from_u128_spec by (auto; lia). apply ok_wrapping_of; lia. Qed.
  Lemma ok_SatFromU128 : ok bits (sem SatFromU128 bits a b c imm) (zsem SatFromU128 bits (eval a) (eval b) (eval c) imm).
  Proof. start. pose proof u128_range. rewrite u128_eq, PfConv.try_from_u128_spec by (auto; lia). apply ok_saturating_of; lia. Qed.

  Let Hie := eval_bound imm Hi.
  Lemma ok_FromLimbsSlice : ok bits (sem FromLimbsSlice bits a b c imm) (zsem FromLimbsSlice bits (eval a) (eval b) (eval c) imm).
  Proof.
    start. rewrite PfConv.from_limbs_slice_spec by auto. unfold z_from, M.
    destruct (Z.ltb_spec (eval imm) (2 ^ bits)); cbn [obind]; [apply ok_wr_u; lia|apply ok_panic].
  Qed.
  Lemma ok_ChFromLimbsSlice : ok bits (sem ChFromLimbsSlice bits a b c imm) (zsem ChFromLimbsSlice bits (eval a) (eval b) (eval c) imm).
  Proof.
    start. unfold Conv.checked_from_limbs_slice, M. rewrite PfConv.overflowing_from_limbs_slice_spec by auto.
    cbn [obind]. destruct (Z.leb_spec (2 ^ bits) (eval imm)); destruct (Z.ltb_spec (eval imm) (2 ^ bits)); try lia.
    - apply ok_wro_none.
    - rewrite Z.mod_small by lia. apply ok_wro_some; lia.
  Qed.
  Lemma ok_WrFromLimbsSlice : ok bits (sem WrFromLimbsSlice bits a b c imm) (zsem WrFromLimbsSlice bits (eval a) (eval b) (eval c) imm).
  Proof.
    start. unfold Conv.wrapping_from_limbs_slice. rewrite PfConv.overflowing_from_limbs_slice_spec by auto.
    cbn [obind fst]. rewrite <- modp2_spec by lia. apply ok_wr_u, modp2_range; lia.
  Qed.
  Lemma ok_OvFromLimbsSlice : ok bits (sem OvFromLimbsSlice bits a b c imm) (zsem OvFromLimbsSlice bits (eval a) (eval b) (eval c) imm).
  Proof.
    start. rewrite PfConv.overflowing_from_limbs_slice_spec by auto. cbn [obind]. unfold M.
    rewrite <- modp2_spec by lia. apply ok_wrf_u, modp2_range; lia.
  Qed.
  Lemma ok_SatFromLimbsSlice : ok bits (sem SatFromLimbsSlice bits a b c imm) (zsem SatFromLimbsSlice bits (eval a) (eval b) (eval c) imm).
  Proof.
    start. unfold Conv.saturating_from_limbs_slice, z_sat, M. rewrite PfConv.overflowing_from_limbs_slice_spec by auto.
    cbn [obind]. destruct (Z.leb_spec (2 ^ bits) (eval imm)); destruct (Z.ltb_spec (eval imm) (2 ^ bits)); try lia.
    - rewrite PfC07.uMAX_eq by auto. apply ok_wr_u; lia.
    - rewrite Z.mod_small by lia. apply ok_wr_u; lia.
  Qed.
  Lemma ok_FromLimbs : ok bits (sem FromLimbs bits a b c imm) (zsem FromLimbs bits (eval a) (eval b) (eval c) imm).
  Proof.
    start. unfold lenZ. rewrite <- (nlimbsN_Z bits Hb0).
    destruct (Nat.eqb_spec (length imm) (nlimbsN bits)) as [E|N];
      destruct (Z.eqb_spec (Z.of_nat (length imm)) (Z.of_nat (nlimbsN bits))); try lia; [|apply ok_panic].
    rewrite PfC04c.from_limbs_rejects by auto. unfold z_from, M.
    destruct (Z.ltb_spec (eval imm) (2 ^ bits)); cbn [obind]; [|apply ok_panic].
    apply ok_wr; auto. repeat split; auto.
  Qed.

  (* ================= byte decoders and re-encoding ================= *)
  Lemma isbyte_of_forallb l : forallb isbyteb l = true -> Forall Bytes.isbyte l.
  Proof.
    intros H. apply Forall_forall. intros x Hx. rewrite forallb_forall in H. specialize (H x Hx).
    unfold isbyteb in H. unfold Bytes.isbyte. apply andb_true_iff in H. destruct H as [H1 H2].
    apply Z.leb_le in H1. apply Z.ltb_lt in H2. lia.
  Qed.
  Lemma le_value_nonneg l : Forall Bytes.isbyte l -> 0 <= Bytes.le_value l.
  Proof. induction 1 as [|x t Hx Ht IH]; cbn [Bytes.le_value]; [lia|]. unfold Bytes.isbyte in Hx. lia. Qed.
  Lemma Forall_rev' {A} (P : A -> Prop) l : Forall P l -> Forall P (rev l).
  Proof. intros H. apply Forall_forall. intros x Hx. apply in_rev in Hx. rewrite Forall_forall in H. auto. Qed.

  Lemma z_bytes_le (Hby : Forall Bytes.isbyte imm) :
    (if (lenZ imm <=? Bytes.nbytes bits) && (Bytes.le_value imm <? 2 ^ bits)
     then Some (uint_of bits (Bytes.le_value imm)) else None)
    = option_map (uint_of bits) (z_bytes bits (RunC08.le_val imm) (lenZ imm))
    /\ (forall v, z_bytes bits (RunC08.le_val imm) (lenZ imm) = Some v -> 0 <= v < 2 ^ bits).
  Proof.
    unfold z_bytes, M, Bytes.nbytes. rewrite PfC08.le_val_value. pose proof (le_value_nonneg imm Hby).
    destruct ((lenZ imm <=? (bits + 7) / 8) && (Bytes.le_value imm <? 2 ^ bits)) eqn:E; split; try reflexivity.
    - intros v Hv. injection Hv as <-. apply andb_true_iff in E. destruct E as [_ E]. apply Z.ltb_lt in E. lia.
    - discriminate.
  Qed.
  Lemma z_bytes_be (Hby : Forall Bytes.isbyte imm) :
    (if (lenZ imm <=? Bytes.nbytes bits) && (Bytes.le_value (rev imm) <? 2 ^ bits)
     then Some (uint_of bits (Bytes.le_value (rev imm))) else None)
    = option_map (uint_of bits) (z_bytes bits (RunC08.be_val imm) (lenZ imm))
    /\ (forall v, z_bytes bits (RunC08.be_val imm) (lenZ imm) = Some v -> 0 <= v < 2 ^ bits).
  Proof.
    unfold z_bytes, M, Bytes.nbytes. rewrite PfC08.be_val_value.
    pose proof (le_value_nonneg (rev imm) (Forall_rev' _ _ Hby)).
    destruct ((lenZ imm <=? (bits + 7) / 8) && (Bytes.le_value (rev imm) <? 2 ^ bits)) eqn:E; split; try reflexivity.
    - intros v Hv. injection Hv as <-. apply andb_true_iff in E. destruct E as [_ E]. apply Z.ltb_lt in E. lia.
    - discriminate.
  Qed.

  Lemma ok_TryFromBe : ok bits (sem TryFromBe bits a b c imm) (zsem TryFromBe bits (eval a) (eval b) (eval c) imm).
  Proof.
    start. destruct (forallb isbyteb imm) eqn:F; [|apply ok_panic].
    pose proof (isbyte_of_forallb imm F) as Hby. rewrite PfBytes.try_from_be_slice_spec by auto. cbn [obind].
    destruct (z_bytes_be Hby) as [E R]. rewrite E.
    destruct (z_bytes bits (RunC08.be_val imm) (lenZ imm)) as [v|]; cbn [option_map];
      [apply ok_wro_some; auto|apply ok_wro_none].
  Qed.
  Lemma ok_TryFromLe : ok bits (sem TryFromLe bits a b c imm) (zsem TryFromLe bits (eval a) (eval b) (eval c) imm).
  Proof.
    start. destruct (forallb isbyteb imm) eqn:F; [|apply ok_panic].
    pose proof (isbyte_of_forallb imm F) as Hby. rewrite PfBytes.try_from_le_slice_spec by auto. cbn [obind].
    destruct (z_bytes_le Hby) as [E R]. rewrite E.
    destruct (z_bytes bits (RunC08.le_val imm) (lenZ imm)) as [v|]; cbn [option_map];
      [apply ok_wro_some; auto|apply ok_wro_none].
  Qed.
  Lemma ok_FromBe : ok bits (sem FromBe bits a b c imm) (zsem FromBe bits (eval a) (eval b) (eval c) imm).
  Proof.
    start. destruct (forallb isbyteb imm) eqn:F; [|apply ok_panic].
    pose proof (isbyte_of_forallb imm F) as Hby. unfold Bytes.from_be_slice.
    rewrite PfBytes.try_from_be_slice_spec by auto. cbn [obind].
    destruct (z_bytes_be Hby) as [E R]. rewrite E.
    destruct (z_bytes bits (RunC08.be_val imm) (lenZ imm)) as [v|]; cbn [option_map obind];
      [apply ok_wr_u; auto|apply ok_panic].
  Qed.
  Lemma ok_FromLe : ok bits (sem FromLe bits a b c imm) (zsem FromLe bits (eval a) (eval b) (eval c) imm).
  Proof.
    start. destruct (forallb isbyteb imm) eqn:F; [|apply ok_panic].
    pose proof (isbyte_of_forallb imm F) as Hby. unfold Bytes.from_le_slice.
    rewrite PfBytes.try_from_le_slice_spec by auto. cbn [obind].
    destruct (z_bytes_le Hby) as [E R]. rewrite E.
    destruct (z_bytes bits (RunC08.le_val imm) (lenZ imm)) as [v|]; cbn [option_map obind];
      [apply ok_wr_u; auto|apply ok_panic].
  Qed.

  Lemma ok_mov_like r : r = a -> ok bits (wr r) (zw (eval a)).
  Proof. intros ->. now apply ok_wr. Qed.

  Lemma ok_ReLe : ok bits (sem ReLe bits a b c imm) (zsem ReLe bits (eval a) (eval b) (eval c) imm).
  Proof.
    start. unfold Bytes.from_le_slice, Bytes.to_le_bytes_vec.
    rewrite (proj1 (PfBytes.roundtrip_full bits a Hb0 Ha)). cbn [obind]. now apply ok_mov_like.
  Qed.
  Lemma ok_ReBe : ok bits (sem ReBe bits a b c imm) (zsem ReBe bits (eval a) (eval b) (eval c) imm).
  Proof.
    start. unfold Bytes.from_be_slice.
    rewrite (proj2 (PfBytes.roundtrip_full bits a Hb0 Ha)). cbn [obind]. now apply ok_mov_like.
  Qed.
  Lemma ok_ReLeTrim : ok bits (sem ReLeTrim bits a b c imm) (zsem ReLeTrim bits (eval a) (eval b) (eval c) imm).
  Proof.
    start. pose proof (proj1 (PfBytes.roundtrip_trimmed bits a Hb0 Ha)) as R.
    unfold Bytes.to_le_bytes_trimmed_vec.
    destruct (Bytes.as_le_bytes_trimmed bits a) as [e| | | |]; cbn [obind] in *; try discriminate.
    unfold Bytes.from_le_slice. rewrite R. cbn [obind]. now apply ok_mov_like.
  Qed.
  Lemma ok_ReBeTrim : ok bits (sem ReBeTrim bits a b c imm) (zsem ReBeTrim bits (eval a) (eval b) (eval c) imm).
  Proof.
    start. pose proof (proj2 (PfBytes.roundtrip_trimmed bits a Hb0 Ha)) as R.
    destruct (Bytes.to_be_bytes_trimmed_vec bits a) as [e| | | |]; cbn [obind] in *; try discriminate.
    unfold Bytes.from_be_slice. rewrite R. cbn [obind]. now apply ok_mov_like.
  Qed.

  (* ================= digit strings, text ================= *)
  Lemma split_bad_none_all base ds : RunC09.split_bad base ds = (ds, None) -> Forall (fun d => d < base) ds.
  Proof.
    induction ds as [|d t IH]; intros H; [constructor|]. cbn [RunC09.split_bad] in H.
    destruct (Z.leb_spec base d); [discriminate|].
    destruct (RunC09.split_bad base t) as [p q] eqn:E. injection H as -> ->. constructor; [lia|now apply IH].
  Qed.
  Lemma forallb_lt_Forall base ds : forallb (fun d => d <? base) ds = true <-> Forall (fun d => d < base) ds.
  Proof.
    rewrite forallb_forall, Forall_forall. split; intros H x Hx; specialize (H x Hx);
      [now apply Z.ltb_lt|now apply Z.ltb_lt].
  Qed.
  Lemma Forall_digits base ds : Forall inW ds -> Forall (fun d => d < base) ds -> Forall (fun d => 0 <= d < base) ds.
  Proof.
    intros H1 H2. apply Forall_forall. intros x Hx. rewrite Forall_forall in H1, H2.
    specialize (H1 x Hx). specialize (H2 x Hx). unfold inW in H1. lia.
  Qed.
  Lemma Forall_nonneg ds : Forall inW ds -> Forall (fun d => 0 <= d) ds.
  Proof. intros H. eapply Forall_impl; [|exact H]. unfold inW. intros; lia. Qed.

  Lemma ok_digits (le : bool) ds (r : BaseConv.res BaseConv.bcerr (list Z)) base :
    Forall inW ds -> inW base ->
    (base < 2 -> r = BaseConv.Err (BaseConv.BInvalidBase base)) ->
    (2 <= base -> PfBaseConv.conv_ok bits base ds
                    (fun l => if le then RunC09.value_le base l else RunC09.value_be base l) r) ->
    ok bits (wr_base_res r)
       (z_digits bits base (if le then RunC09.value_le base ds else RunC09.value_be base ds) ds).
  Proof.
    intros Hds Hbase H1 H2. unfold z_digits, M. destruct (Z.ltb_spec base 2) as [L|L].
    - rewrite (H1 L). split; [reflexivity|exact I].
    - specialize (H2 L). destruct (forallb (fun d => d <? base) ds) eqn:F.
      + apply forallb_lt_Forall in F.
        rewrite (PfC09.conv_exact bits base ds _ r F H2).
        assert (0 <= (if le then RunC09.value_le base ds else RunC09.value_be base ds)).
        { destruct le; [|unfold RunC09.value_be]; apply PfPositional.value_le_nonneg; try lia;
            [|apply Forall_rev']; now apply Forall_nonneg. }
        destruct (Z.leb_spec (2 ^ bits) (if le then RunC09.value_le base ds else RunC09.value_be base ds)).
        * split; [reflexivity|exact I].
        * split; [reflexivity|cbn; lia].
      + destruct r as [l|e]; [|split; [reflexivity|exact I]].
        cbn [PfBaseConv.conv_ok] in H2. destruct H2 as (S & _).
        apply split_bad_none_all, forallb_lt_Forall in S. congruence.
  Qed.

  Lemma ok_FromBaseBe : ok bits (sem FromBaseBe bits a b c imm) (zsem FromBaseBe bits (eval a) (eval b) (eval c) imm).
  Proof.
    start. destruct (PfBaseConv.from_base_be_spec bits (imm1 imm) (tl imm) Hb0 Hs (tl_inW imm Hi))
      as (r & -> & H1 & H2). cbn [obind].
    exact (ok_digits false (tl imm) r (imm1 imm) (tl_inW imm Hi) Hs H1 H2).
  Qed.
  Lemma ok_FromBaseLe : ok bits (sem FromBaseLe bits a b c imm) (zsem FromBaseLe bits (eval a) (eval b) (eval c) imm).
  Proof.
    start. destruct (PfBaseConv.from_base_le_spec bits (imm1 imm) (tl imm) Hb0 Hs (tl_inW imm Hi))
      as (r & -> & H1 & H2). cbn [obind].
    exact (ok_digits true (tl imm) r (imm1 imm) (tl_inW imm Hi) Hs H1 H2).
  Qed.

  Lemma split_bad_prefix_nonneg base ds : Forall inW ds -> Forall (fun d => 0 <= d) (fst (RunC09.split_bad base ds)).
  Proof.
    induction 1 as [|d t Hdd Ht IH]; cbn [RunC09.split_bad]; [constructor|].
    destruct (base <=? d); [constructor|]. destruct (RunC09.split_bad base t) as [p q]. cbn [fst] in *.
    constructor; [unfold inW in Hdd; lia|exact IH].
  Qed.

  Lemma list_eqb_Z_eq (x y : list Z) : list_eqb Z.eqb x y = true -> x = y.
  Proof. apply PfC04b.list_eqb_Z_eq. Qed.

  Lemma ok_FromStrRadix : ok bits (sem FromStrRadix bits a b c imm) (zsem FromStrRadix bits (eval a) (eval b) (eval c) imm).
  Proof.
    start. destruct (forallb ischarb (tl imm)); [|apply ok_panic].
    destruct (PfStr.from_str_radix_spec bits (imm1 imm) (tl imm) Hb0 Hs) as (r & -> & S). cbn [obind].
    unfold RunC09.spec_parse in S. unfold z_text, M.
    destruct (Z.ltb_spec 64 (imm1 imm)) as [L64|L64]; cbn [orb].
    { destruct r as [l|e]; [discriminate S|]. split; [reflexivity|exact I]. }
    destruct (Z.ltb_spec (imm1 imm) 2) as [L2|L2].
    { destruct r as [l|e]; [discriminate S|]. split; [reflexivity|exact I]. }
    pose proof (PfStr.scan_split (imm1 imm) (tl imm)) as SS.
    destruct (RunC09.split_text (imm1 imm) (tl imm)) as [pre bad] eqn:ST.
    assert (Hv : 0 <= RunC09.value_be (imm1 imm) pre).
    { injection SS as -> _. unfold RunC09.value_be. apply PfPositional.value_le_nonneg; [lia|].
      apply Forall_rev', split_bad_prefix_nonneg, PfStr.scan_inW. }
    destruct r as [l|e].
    - cbn [RunC09.pres_toks] in S. apply andb_true_iff in S. destruct S as [S S3].
      apply andb_true_iff in S. destruct S as [S1 S2].
      destruct bad; [discriminate S1|].
      destruct (Z.leb_spec (2 ^ bits) (RunC09.value_be (imm1 imm) pre)); [discriminate S2|].
      apply list_eqb_Z_eq in S3. subst l. unfold RunC09.U. split; [reflexivity|cbn; lia].
    - destruct bad as [bd|]; [split; [reflexivity|exact I]|].
      destruct (Z.leb_spec (2 ^ bits) (RunC09.value_be (imm1 imm) pre)); [split; [reflexivity|exact I]|].
      exfalso. destruct e as [ch|rr|[|bb|dd bb]]; cbn in S; try discriminate S.
  Qed.

  Lemma value_be_digits base v : 2 <= base -> 0 <= v -> RunC09.value_be base (RunC09.digits_be base v) = v.
  Proof.
    intros H2 Hv. unfold RunC09.value_be, RunC09.digits_be. rewrite rev_involutive.
    now apply PfPositional.value_digits.
  Qed.
  Lemma ok_ReBase : ok bits (sem ReBase bits a b c imm) (zsem ReBase bits (eval a) (eval b) (eval c) imm).
  Proof.
    start. unfold inW in Hs. destruct (Z.ltb_spec (imm1 imm) 2) as [L|L].
    - rewrite PfBaseConv.to_base_be_panic by lia. apply ok_panic.
    - rewrite PfBaseConv.to_base_be_spec by (first [exact (PfC07.canon_inW bits a Ha) | lia]). cbn [obind].
      rewrite PfC09.from_base_be_exact; try lia.
      2:{ unfold RunC09.digits_be. apply Forall_rev'. apply (PfPositional.digits_range (imm1 imm) (eval a)). lia. }
      cbn [obind]. rewrite value_be_digits by lia.
      destruct (Z.leb_spec (2 ^ bits) (eval a)); [lia|]. apply ok_wr_u. lia.
  Qed.

  (* ================= floats ================= *)
  Lemma classify_pos prec emax x n : 1 <= prec -> RunC18.classify prec emax x = RunC18.FPos n -> 0 <= n.
  Proof.
    intros Hp1. unfold RunC18.classify. cbv zeta.
    destruct (RunC18.fexpo prec emax x =? 2 * emax - 1).
    { destruct (RunC18.ffrac prec x =? 0); [destruct (RunC18.fsign prec emax x)|]; discriminate. }
    destruct (RunC18.fsign prec emax x && (0 <? RunC18.fmant prec emax x)); [discriminate|].
    intros E. injection E as <-. apply PfFloat.rhu_nonneg. unfold RunC18.fmant, RunC18.ffrac.
    pose proof (pow2_pos (prec - 1) ltac:(lia)). pose proof (Z.mod_pos_bound x (2 ^ (prec - 1)) ltac:(lia)).
    destruct (RunC18.fexpo prec emax x =? 0); lia.
  Qed.

  Lemma ok_try_float prec emax x : 1 <= prec ->
    ok bits (wr_float_res (PfFloat.res_of_class bits (RunC18.classify prec emax x))) (z_try_float prec emax bits x).
  Proof.
    intros Hp1. unfold z_try_float, PfFloat.res_of_class, M.
    pose proof (classify_pos prec emax x) as CP.
    destruct (RunC18.classify prec emax x) as [|n| |n|]; cbn [wr_float_res];
      try (split; [reflexivity|cbn; try exact I; try apply modp2_range; lia]).
    specialize (CP n Hp1 eq_refl).
    destruct (Z.ltb_spec n (2 ^ bits)); cbn [wr_float_res];
      (split; [reflexivity|cbn; try apply modp2_range; lia]).
  Qed.
  Lemma ok_wrap_float prec emax x : 1 <= prec ->
    ok bits (do r <- Float.wrapping_from bits (Val (PfFloat.res_of_class bits (RunC18.classify prec emax x))) ; wr r)
       (z_wrap_float prec emax bits x).
  Proof.
    intros Hp1. unfold z_wrap_float, PfFloat.res_of_class, Float.wrapping_from. cbn [obind].
    pose proof (classify_pos prec emax x) as CP.
    destruct (RunC18.classify prec emax x) as [|n| |n|];
      try (rewrite PfC07.uZERO_eq by auto; apply ok_wr_u; lia);
      try (apply ok_wr_u; try apply modp2_range; lia).
    specialize (CP n Hp1 eq_refl). destruct (Z.ltb_spec n (2 ^ bits)).
    - rewrite modp2_spec, Z.mod_small by lia. apply ok_wr_u; lia.
    - apply ok_wr_u, modp2_range; lia.
  Qed.
  Lemma ok_sat_float prec emax x : 1 <= prec ->
    ok bits (do r <- Float.saturating_from bits (Val (PfFloat.res_of_class bits (RunC18.classify prec emax x))) ; wr r)
       (z_sat_float prec emax bits x).
  Proof.
    intros Hp1. unfold z_sat_float, PfFloat.res_of_class, Float.saturating_from, M. cbn [obind].
    pose proof (classify_pos prec emax x) as CP.
    destruct (RunC18.classify prec emax x) as [|n| |n|];
      try (rewrite PfC07.uZERO_eq by auto; apply ok_wr_u; lia);
      try (rewrite PfC07.uMAX_eq by auto; apply ok_wr_u; lia).
    specialize (CP n Hp1 eq_refl). destruct (Z.ltb_spec n (2 ^ bits)).
    - apply ok_wr_u; lia.
    - rewrite PfC07.uMAX_eq by auto. apply ok_wr_u; lia.
  Qed.

  Lemma ok_TryFromF64 : ok bits (sem TryFromF64 bits a b c imm) (zsem TryFromF64 bits (eval a) (eval b) (eval c) imm).
  Proof. start. unfold inW in Hs. rewrite PfFloat.uint_try_from_f64_spec by lia. cbn [obind]. apply ok_try_float; lia. Qed.
  Lemma ok_WrapFromF64 : ok bits (sem WrapFromF64 bits a b c imm) (zsem WrapFromF64 bits (eval a) (eval b) (eval c) imm).
  Proof. start. unfold inW in Hs. rewrite PfFloat.uint_try_from_f64_spec by lia. apply ok_wrap_float; lia. Qed.
  Lemma ok_SatFromF64 : ok bits (sem SatFromF64 bits a b c imm) (zsem SatFromF64 bits (eval a) (eval b) (eval c) imm).
  Proof. start. unfold inW in Hs. rewrite PfFloat.uint_try_from_f64_spec by lia. apply ok_sat_float; lia. Qed.
  Lemma ok_TryFromF32 : ok bits (sem TryFromF32 bits a b c imm) (zsem TryFromF32 bits (eval a) (eval b) (eval c) imm).
  Proof.
    start. unfold inW in Hs. destruct (imm1 imm <? 2 ^ 32); [|apply ok_panic].
    rewrite PfFloat.uint_try_from_f32_spec by lia. cbn [obind]. apply ok_try_float; lia.
  Qed.
  Lemma ok_WrapFromF32 : ok bits (sem WrapFromF32 bits a b c imm) (zsem WrapFromF32 bits (eval a) (eval b) (eval c) imm).
  Proof.
    start. unfold inW in Hs. destruct (imm1 imm <? 2 ^ 32); [|apply ok_panic].
    rewrite PfFloat.uint_try_from_f32_spec by lia. apply ok_wrap_float; lia.
  Qed.
  Lemma ok_SatFromF32 : ok bits (sem SatFromF32 bits a b c imm) (zsem SatFromF32 bits (eval a) (eval b) (eval c) imm).
  Proof.
    start. unfold inW in Hs. destruct (imm1 imm <? 2 ^ 32); [|apply ok_panic].
    rewrite PfFloat.uint_try_from_f32_spec by lia. apply ok_sat_float; lia.
  Qed.

  (* ================= constants ================= *)
  Lemma ok_CZero : ok bits (sem CZero bits a b c imm) (zsem CZero bits (eval a) (eval b) (eval c) imm).
  Proof. start. rewrite PfC04c.cZERO_spec by auto. cbn [obind]. apply ok_wr_u; lia. Qed.
  Lemma ok_CMin : ok bits (sem CMin bits a b c imm) (zsem CMin bits (eval a) (eval b) (eval c) imm).
  Proof. start. unfold Gen.cMIN. rewrite PfC04c.cZERO_spec by auto. cbn [obind]. apply ok_wr_u; lia. Qed.
  Lemma ok_COne : ok bits (sem COne bits a b c imm) (zsem COne bits (eval a) (eval b) (eval c) imm).
  Proof.
    start. rewrite PfC04c.cONE_spec by auto. cbn [obind]. rewrite <- modp2_spec by lia.
    apply ok_wr_u, modp2_range; lia.
  Qed.
  Lemma ok_CMax : ok bits (sem CMax bits a b c imm) (zsem CMax bits (eval a) (eval b) (eval c) imm).
  Proof. start. unfold M. rewrite PfC04c.cMAX_spec by auto. apply ok_wr_u; lia. Qed.
  Lemma ok_Mov : ok bits (sem Mov bits a b c imm) (zsem Mov bits (eval a) (eval b) (eval c) imm).
  Proof. start. now apply ok_mov_like. Qed.

  (* ================= opaque operations: `sem` is the specification by definition ================= *)
  Lemma pow_mod_pos_range x e m : 0 < m -> 0 <= pow_mod_pos x e m < m.
  Proof. intros Hm. destruct e; cbn [pow_mod_pos]; apply Z.mod_pos_bound; lia. Qed.
  Lemma pow_mod_range x e m : 1 < m -> 0 <= pow_mod x e m < m.
  Proof.
    intros Hm. destruct e; cbn [pow_mod]; [apply Z.mod_pos_bound; lia|apply pow_mod_pos_range; lia|lia].
  Qed.
  Lemma iroot_loop_inv k x d : forall r, 1 <= d -> 0 <= r -> (r = 0 \/ r ^ d <= x) ->
    0 <= iroot_loop k x d r /\ (iroot_loop k x d r = 0 \/ iroot_loop k x d r ^ d <= x).
  Proof.
    induction k as [|k IH]; intros r Hd1 Hr Hinv; cbn [iroot_loop]; [auto|].
    pose proof (pow2_pos (Z.of_nat k) ltac:(lia)).
    destruct (Z.leb_spec ((r + 2 ^ Z.of_nat k) ^ d) x); apply IH; auto; lia.
  Qed.
  Lemma iroot_le x d : 1 <= d -> 0 <= x -> 0 <= iroot x d <= x.
  Proof.
    intros Hd1 Hx. unfold iroot.
    destruct (iroot_loop_inv (Z.to_nat (Z.log2 x / d + 1)) x d 0 Hd1 ltac:(lia) ltac:(now left)) as [H0 [E|L]].
    - lia.
    - split; [exact H0|]. set (r := iroot_loop _ x d 0) in *.
      destruct (Z.eq_dec r 0); [lia|].
      assert (r ^ 1 <= r ^ d) by (apply Z.pow_le_mono_r; lia). rewrite Z.pow_1_r in *. lia.
  Qed.
  Lemma gcd_le x y : 0 <= x -> 0 <= y -> 0 <= Z.gcd x y <= Z.max x y.
  Proof.
    intros Hx Hy. pose proof (Z.gcd_nonneg x y). split; [assumption|].
    destruct (Z.eq_dec x 0) as [->|Nx].
    - rewrite Z.gcd_0_l, Z.abs_eq by lia. lia.
    - pose proof (Z.gcd_divide_l x y) as D. apply Z.divide_pos_le in D; lia.
  Qed.

  Local Ltac opaque := split; [reflexivity|]; unfold zsem; cbv zeta.

Lemma ok_WrMul : ok bits (sem WrMul bits a b c imm) (zsem WrMul bits (eval a) (eval b) (eval c) imm).
  Proof.
    start. destruct (PfMul.wrapping_mul_spec bits a b Hb0 (proj1 Ha) (proj1 Hc) Wa Wb) as (r & -> & C & E).
    cbn [obind]. unfold z_wrapping_mul. apply ok_wr; auto. rewrite E, modp2_spec by lia. reflexivity.
  Qed.
Lemma ok_WrDiv : ok bits (sem WrDiv bits a b c imm) (zsem WrDiv bits (eval a) (eval b) (eval c) imm).
  Proof.
    start. unfold UDiv.wrapping_div, UDiv.div_rem, z_wrapping_div.
    destruct (Z.eqb_spec (eval b) 0) as [E0|N0].
    - rewrite PfDiv.div_kernel_zero by auto. apply ok_panic.
    - destruct (PfC03Closed.DivKernelOK_holds a b Wa Wb N0) as (q & r & -> & Lq & Lr & Wq & Wr & Eq & Er).
      cbn [obind fst]. apply ok_wr; auto. repeat split; auto; [rewrite Lq; apply Ha|].
      rewrite Eq. apply Z.le_lt_trans with (eval a); [|lia]. apply Z.div_le_upper_bound; nia.
  Qed.
Lemma ok_WrRem : ok bits (sem WrRem bits a b c imm) (zsem WrRem bits (eval a) (eval b) (eval c) imm).
  Proof.
    start. unfold UDiv.wrapping_rem, UDiv.div_rem, z_wrapping_rem.
    destruct (Z.eqb_spec (eval b) 0) as [E0|N0].
    - rewrite PfDiv.div_kernel_zero by auto. apply ok_panic.
    - destruct (PfC03Closed.DivKernelOK_holds a b Wa Wb N0) as (q & r & -> & Lq & Lr & Wq & Wr & Eq & Er).
      cbn [obind snd]. apply ok_wr; auto. repeat split; auto; [rewrite Lr; apply Hc|].
      rewrite Er. pose proof (Z.mod_pos_bound (eval a) (eval b) ltac:(lia)). lia.
  Qed.
Lemma pow_facts (Hb1 : 0 < bits) x e : 0 <= x -> 0 <= e ->
    RunC13.powmod bits x e = x ^ e mod 2 ^ bits /\ RunC13.overflows bits x e = (2 ^ bits <=? x ^ e).
  Proof.
    intros Hx He. split; [apply PfPow.powmod_spec; lia|].
    rewrite PfPow.overflows_spec by lia. destruct (Z.ltb_spec 0 bits); [reflexivity|lia].
  Qed.
  Lemma pow_zero_width : bits = 0 -> eval a = 0 /\ forall x e, RunC13.powmod bits x e = 0 /\ RunC13.overflows bits x e = false.
  Proof.
    intros E. split.
    { assert (2 ^ bits = 1) by (rewrite E; reflexivity). lia. }
    intros x e. rewrite E. split; [|reflexivity].
    unfold RunC13.powmod. destruct e as [|p|p]; try reflexivity.
    destruct p; cbn [RunC13.powmod_pos]; unfold modp2; now rewrite Z.land_0_r.
  Qed.

  Lemma ok_WrPow : ok bits (sem WrPow bits a b c imm) (zsem WrPow bits (eval a) (eval b) (eval c) imm).
  Proof.
    start. destruct (Z.eq_dec bits 0) as [E0|N0].
    - destruct (pow_zero_width E0) as [Ea Z0]. unfold Pow.wrapping_pow.
      destruct (Z.eqb_spec bits 0); [|contradiction]. cbn [obind]. rewrite (proj1 (Z0 _ _)). now apply ok_wr.
    - destruct (PfPow.wrapping_pow_spec bits a b ltac:(lia) Ha Hc) as (r & -> & C & E). cbn [obind].
      apply ok_wr; auto. rewrite (proj1 (pow_facts ltac:(lia) (eval a) (eval b) ltac:(lia) ltac:(lia))). exact E.
  Qed.
Lemma ok_Gcd : ok bits (sem Gcd bits a b c imm) (zsem Gcd bits (eval a) (eval b) (eval c) imm).
  Proof.
    start. rewrite (PfGcd.gcd_spec PfC12Closed.DivKernelOK_holds PfGcdMatrix.LehmerStepOK_holds bits a b Hb0 Ha Hc).
    cbn [obind]. apply ok_wr_u. pose proof (gcd_le (eval a) (eval b)). lia.
  Qed.
Lemma ok_returns o v : PfC10.returns bits o v -> ok bits (do r <- o ; wr r) (zw v).
  Proof. intros (r & -> & C & E). cbn [obind]. now apply ok_wr. Qed.
  Lemma ok_AddMod : ok bits (sem AddMod bits a b c imm) (zsem AddMod bits (eval a) (eval b) (eval c) imm).
  Proof. start. apply ok_returns. now apply PfC10Closed.add_mod_value_closed. Qed.
Lemma ok_MulMod : ok bits (sem MulMod bits a b c imm) (zsem MulMod bits (eval a) (eval b) (eval c) imm).
  Proof. start. apply ok_returns. now apply PfC10Closed.mul_mod_value_closed. Qed.
Lemma pow_mod_pos_spec x e m : 0 < m -> pow_mod_pos x e m = x ^ Zpos e mod m.
  Proof.
    intros Hm. induction e as [e IH|e IH|]; cbn [pow_mod_pos].
    - rewrite IH. rewrite Pos2Z.inj_xI.
      replace (x ^ (2 * Z.pos e + 1)) with (x ^ Z.pos e * x ^ Z.pos e * x)
        by (rewrite Z.pow_add_r, Z.pow_1_r, <- Z.pow_twice_r by lia; reflexivity).
      rewrite <- Z.mul_mod by lia. rewrite Z.mul_mod_idemp_l by lia. reflexivity.
    - rewrite IH. rewrite Pos2Z.inj_xO, Z.pow_twice_r. rewrite <- Z.mul_mod by lia. reflexivity.
    - now rewrite Z.pow_1_r.
  Qed.
  Lemma pow_mod_spec x e m : 0 < m -> 0 <= e -> pow_mod x e m = x ^ e mod m.
  Proof.
    intros Hm He. destruct e as [|e|e]; cbn [pow_mod]; [reflexivity|now apply pow_mod_pos_spec|lia].
  Qed.
  Lemma ok_PowMod : ok bits (sem PowMod bits a b c imm) (zsem PowMod bits (eval a) (eval b) (eval c) imm).
  Proof.
    start. unfold z_pow_mod.
    replace (if (bits =? 0) || (eval c <=? 1) then 0 else pow_mod (eval a) (eval b) (eval c))
      with (if eval c =? 0 then 0 else eval a ^ eval b mod eval c).
    { apply ok_returns. now apply PfC10Closed.pow_mod_value_closed. }
    destruct (Z.eqb_spec (eval c) 0) as [E0|N0].
    - rewrite E0. cbn [Z.leb Z.compare]. now rewrite orb_true_r.
    - destruct (Z.eqb_spec bits 0) as [Eb|Nb]; [exfalso; rewrite Eb in *; change (2 ^ 0) with 1 in *; lia|].
      cbn [orb]. destruct (Z.leb_spec (eval c) 1).
      + replace (eval c) with 1 by lia. apply Z.mod_1_r.
      + symmetry. apply pow_mod_spec; lia.
  Qed.
  Lemma ok_Root : ok bits (sem Root bits a b c imm) (zsem Root bits (eval a) (eval b) (eval c) imm).
  Proof.
    opaque. unfold z_root, inW in *. destruct (Z.eqb_spec (imm1 imm) 0); [exact I|]. cbn.
    destruct (Z.eqb_spec (eval a) 0); [lia|]. destruct (bits <=? imm1 imm); [lia|].
    pose proof (iroot_le (eval a) (imm1 imm) ltac:(lia) ltac:(lia)). lia.
  Qed.
Lemma hd_mod md : md <> [] -> Forall inW md -> hd 0 md = eval md mod B.
  Proof.
    intros Hne Hw. destruct md as [|m0 t]; [contradiction|]. inversion Hw; subst. cbn [hd eval].
    symmetry. apply div_mod_lin. assumption.
  Qed.
  Lemma redc_inverse m k : 0 < m -> Z.odd m = true -> 0 <= k ->
    (2 ^ k * pow_mod (Z.shiftr (m + 1) 1) k m) mod m = 1 mod m.
  Proof.
    intros Hm Ho Hk. rewrite pow_mod_spec by lia. rewrite Z.mul_mod_idemp_r by lia.
    rewrite Z.shiftr_div_pow2 by lia. change (2 ^ 1) with 2.
    rewrite <- Z.pow_mul_l.
    assert (E : 2 * ((m + 1) / 2) = m + 1).
    { apply Z.odd_spec in Ho. destruct Ho as [j Ej].
      replace (m + 1) with ((j + 1) * 2) by lia. rewrite Z.div_mul by lia. lia. }
    rewrite E. rewrite Zpow_facts.Zpower_mod by lia.
    replace ((m + 1) mod m) with (1 mod m).
    2:{ replace (m + 1) with (1 + 1 * m) by lia. now rewrite Z_mod_plus_full. }
    rewrite <- Zpow_facts.Zpower_mod by lia. now rewrite Z.pow_1_l.
  Qed.
  Lemma inv_odd inv m0 : (inv * m0) mod B = B - 1 -> Z.odd m0 = true.
  Proof.
    intros E. destruct (Z.odd m0) eqn:O; [reflexivity|exfalso].
    assert (Hev : Z.even m0 = true) by (rewrite <- Z.negb_odd, O; reflexivity).
    apply Z.even_spec in Hev. destruct Hev as [j ->].
    pose proof (Z.div_mod (inv * (2 * j)) B ltac:(rewrite B_val; lia)) as D. rewrite E in D.
    rewrite B_val in D. set (t := inv * j) in *. replace (inv * (2 * j)) with (2 * t) in D by (unfold t; ring).
    set (q := (2 * t) / 18446744073709551616) in *. lia.
  Qed.
  Lemma odd_eval (md : list Z) : md <> [] -> Z.odd (hd 0 md) = true -> Z.odd (eval md) = true.
  Proof.
    destruct md as [|m0 t]; [contradiction|]. intros _ O. cbn [hd] in O.
    cbn [eval]. rewrite B_val. rewrite Z.odd_add, O.
    replace (18446744073709551616 * eval t) with (2 * (9223372036854775808 * eval t)) by ring.
    now rewrite Z.odd_mul.
  Qed.

  Lemma ok_MulRedc : ok bits (sem MulRedc bits a b c imm) (zsem MulRedc bits (eval a) (eval b) (eval c) imm).
  Proof.
    start. unfold Redc.uint_mul_redc, z_mul_redc. destruct (Z.eqb_spec bits 0) as [E0|N0].
    { cbn [obind]. rewrite PfC07.uZERO_eq by lia. apply ok_wr_u. lia. }
    assert (Hbp : 0 < bits) by lia.
    assert (Hne : c <> []).
    { intros E. pose proof (proj1 Hd) as Hl. rewrite E in Hl. cbn in Hl. pose proof (nlimbs_bounds bits Hbp).
      unfold nlimbsN in Hl. lia. }
    pose proof (proj1 Ha) as La. pose proof (proj1 Hc) as Lb. pose proof (proj1 Hd) as Lc.
    rewrite <- (hd_mod c Hne Wc).
    destruct (((imm1 imm * hd 0 c) mod B =? B - 1) && (eval a <? eval c) && (eval b <? eval c)) eqn:P.
    - assert (P' : RunC11.pre (eval a) (eval b) (eval c) (imm1 imm) (hd 0 c) = true).
      { unfold RunC11.pre. rewrite <- B_pow. exact P. }
      apply PfC11.pre_true in P'. destruct P' as (Hinv & Hlta & Hltb).
      destruct (PfRedc.mul_redc_spec a b c (imm1 imm) ltac:(congruence) ltac:(congruence) Wa Wb Wc Hinv Hlta Hltb)
        as (r & -> & Lr & Wr & Rr & Cg). cbn [obind].
      rewrite PfC11.from_limbs_checked_ok by (auto; lia). cbn [obind].
      assert (Cr : canon bits r) by (repeat split; auto; [congruence|lia]).
      apply ok_wr; auto.
      assert (Hodd : Z.odd (eval c) = true).
      { apply odd_eval; [exact Hne|]. apply (inv_odd (imm1 imm)). exact Hinv. }
      apply (PfRedc.redc_value (eval r) (B ^ Z.of_nat (length c)) _ (eval a * eval b) (eval c)); auto.
      rewrite Lc, nlimbsN_Z, B_pow, <- Z.pow_mul_r by (try apply nlimbs_nonneg; lia).
      apply redc_inverse; [lia | exact Hodd | pose proof (nlimbs_nonneg bits Hb0); lia].
    - assert (P' : RunC11.pre (eval a) (eval b) (eval c) (imm1 imm) (hd 0 c) = false).
      { unfold RunC11.pre. rewrite <- B_pow. exact P. }
      rewrite PfC11.mul_redc_bad by (auto; congruence). split; [reflexivity|exact I].
  Qed.

  (* ================= the remaining methods of mul.rs, div.rs, special.rs, gcd.rs, modular.rs, pow.rs ================= *)
  Lemma ok_InvRing : ok bits (sem InvRing bits a b c imm) (zsem InvRing bits (eval a) (eval b) (eval c) imm).
  Proof.
    start. unfold M. pose proof (PfMul.inv_ring_spec bits a Hb0 Ha) as S.
    destruct ((0 <? bits) && Z.odd (eval a)) eqn:E.
    - destruct S as (x0 & -> & Cx & Ex). cbn [obind].
      apply andb_true_iff in E. destruct E as [E _]. apply Z.ltb_lt in E.
      assert (H2 : 2 <= 2 ^ bits) by (change 2 with (2 ^ 1) at 1; apply Z.pow_le_mono_r; lia).
      pose proof (inv_gcd (2 ^ bits) (eval a) (eval x0) ltac:(lia) Ex) as Hg.
      destruct (zmodinv_spec (eval a) (2 ^ bits) H2 Hg) as [Rz Ez].
      pose proof (canon_range bits x0 Hb0 Cx) as Rx.
      rewrite (uint_of_unique bits x0 (zmodinv (eval a) (2 ^ bits)) Cx
                 (inv_unique (2 ^ bits) (eval a) (eval x0) (zmodinv (eval a) (2 ^ bits)) ltac:(lia) Rx Rz Ex Ez)).
      apply ok_wro_some. exact Rz.
    - rewrite S. cbn [obind]. apply ok_wro_none.
  Qed.

  Lemma ok_ChMul : ok bits (sem ChMul bits a b c imm) (zsem ChMul bits (eval a) (eval b) (eval c) imm).
  Proof.
    start. unfold Mul.checked_mul, M. pose proof (PfMul.overflowing_mul_spec bits a b Hb0 Ha Hc) as S.
    destruct (Mul.overflowing_mul bits a b) as [r f]. destruct S as (C & E & ->).
    destruct (Z.leb_spec (2 ^ bits) (eval a * eval b)); destruct (Z.ltb_spec (eval a * eval b) (2 ^ bits)); try lia.
    - apply ok_wro_none.
    - rewrite Z.mod_small in E by nia. rewrite (uint_of_unique bits r _ C E). apply ok_wro_some. nia.
  Qed.
  Lemma ok_SatMul : ok bits (sem SatMul bits a b c imm) (zsem SatMul bits (eval a) (eval b) (eval c) imm).
  Proof.
    start. unfold Mul.saturating_mul, M. pose proof (PfMul.overflowing_mul_spec bits a b Hb0 Ha Hc) as S.
    destruct (Mul.overflowing_mul bits a b) as [r f]. destruct S as (C & E & ->).
    destruct (Z.leb_spec (2 ^ bits) (eval a * eval b)); destruct (Z.ltb_spec (eval a * eval b) (2 ^ bits)); try lia.
    - rewrite PfC07.uMAX_eq by auto. apply ok_wr_u. lia.
    - rewrite Z.mod_small in E by nia. apply ok_wr; auto.
  Qed.
  Lemma ok_OvMul : ok bits (sem OvMul bits a b c imm) (zsem OvMul bits (eval a) (eval b) (eval c) imm).
  Proof.
    start. unfold M. pose proof (PfMul.overflowing_mul_spec bits a b Hb0 Ha Hc) as S.
    destruct (Mul.overflowing_mul bits a b) as [r f]. destruct S as (C & E & ->).
    rewrite <- modp2_spec in E by lia. rewrite (uint_of_unique bits r _ C E). apply ok_wrf_u, modp2_range. lia.
  Qed.

  Let HK := PfC03Closed.DivKernelOK_holds.
  Let HZ := PfUDiv.DivKernelZero_holds.
  Lemma ceil_div_range : eval b <> 0 -> 0 <= RunC03.ceil_div (eval a) (eval b) < 2 ^ bits.
  Proof.
    intros N. unfold RunC03.ceil_div. split; [apply Z.div_pos; lia|].
    apply Z.le_lt_trans with (eval a); [|lia].
    assert ((eval a + eval b - 1) / eval b < eval a + 1) by (apply Z.div_lt_upper_bound; nia). lia.
  Qed.
  Lemma ok_DivCeil : ok bits (sem DivCeil bits a b c imm) (zsem DivCeil bits (eval a) (eval b) (eval c) imm).
  Proof.
    start. destruct (Z.eqb_spec (eval b) 0) as [E0|N0].
    - unfold UDiv.div_ceil. rewrite (PfUDiv.div_rem_zero HZ bits a b Hc E0). apply ok_panic.
    - rewrite (PfC03.div_ceil_eq HK bits a b Hb0 Ha Hc N0). cbn [obind]. apply ok_wr_u, ceil_div_range, N0.
  Qed.
  Lemma ok_ChDiv : ok bits (sem ChDiv bits a b c imm) (zsem ChDiv bits (eval a) (eval b) (eval c) imm).
  Proof.
    start. unfold UDiv.checked_div, UDiv.op_div_, UDiv.wrapping_div. rewrite PfUDiv.is_zero_spec by auto.
    destruct (Z.eqb_spec (eval b) 0) as [E0|N0]; [cbn [obind]; apply ok_wro_none|].
    rewrite (PfUDiv.div_rem_eq HK bits a b Hb0 Ha Hc N0). cbn [obind fst]. apply ok_wro_some.
    split; [apply Z.div_pos; lia|]. apply Z.le_lt_trans with (eval a); [|lia]. apply Z.div_le_upper_bound; nia.
  Qed.
  Lemma ok_ChRem : ok bits (sem ChRem bits a b c imm) (zsem ChRem bits (eval a) (eval b) (eval c) imm).
  Proof.
    start. unfold UDiv.checked_rem, UDiv.op_rem_, UDiv.wrapping_rem. rewrite PfUDiv.is_zero_spec by auto.
    destruct (Z.eqb_spec (eval b) 0) as [E0|N0]; [cbn [obind]; apply ok_wro_none|].
    rewrite (PfUDiv.div_rem_eq HK bits a b Hb0 Ha Hc N0). cbn [obind snd]. apply ok_wro_some.
    pose proof (Z.mod_pos_bound (eval a) (eval b) ltac:(lia)). lia.
  Qed.
  Lemma next_mult_nonneg : eval b <> 0 -> 0 <= RunC03.next_mult (eval a) (eval b).
  Proof. intros N. unfold RunC03.next_mult. pose proof (ceil_div_range N). nia. Qed.
  Lemma ok_ChNextMul : ok bits (sem ChNextMul bits a b c imm) (zsem ChNextMul bits (eval a) (eval b) (eval c) imm).
  Proof.
    start. unfold M. destruct (Z.eqb_spec (eval b) 0) as [E0|N0]; cbn [orb].
    - rewrite (PfC03.checked_nmo_zero bits a b Hb0 Hc E0). cbn [obind]. apply ok_wro_none.
    - rewrite (PfC03.checked_nmo_eq HK bits a b Hb0 Ha Hc N0). cbn [obind]. pose proof (next_mult_nonneg N0).
      destruct (Z.leb_spec (2 ^ bits) (RunC03.next_mult (eval a) (eval b))); [apply ok_wro_none|apply ok_wro_some; lia].
  Qed.
  Lemma ok_NextMul : ok bits (sem NextMul bits a b c imm) (zsem NextMul bits (eval a) (eval b) (eval c) imm).
  Proof.
    start. unfold M, UDiv.next_multiple_of. destruct (Z.eqb_spec (eval b) 0) as [E0|N0]; cbn [orb].
    - rewrite (PfC03.checked_nmo_zero bits a b Hb0 Hc E0). cbn [obind]. apply ok_panic.
    - rewrite (PfC03.checked_nmo_eq HK bits a b Hb0 Ha Hc N0). cbn [obind]. pose proof (next_mult_nonneg N0).
      destruct (Z.leb_spec (2 ^ bits) (RunC03.next_mult (eval a) (eval b))); [apply ok_panic|apply ok_wr_u; lia].
  Qed.

  Let HKg := PfC12Closed.DivKernelOK_holds.
  Let HL := PfGcdMatrix.LehmerStepOK_holds.
  Lemma ok_InvMod : ok bits (sem InvMod bits a b c imm) (zsem InvMod bits (eval a) (eval b) (eval c) imm).
  Proof.
    start. destruct (PfGcdInv.inv_mod_spec HKg bits a b Hb0 Ha Hc) as (o & -> & S). cbn [obind].
    destruct ((2 <=? eval b) && (Z.gcd (eval a) (eval b) =? 1)) eqn:E.
    - destruct S as (x0 & -> & Cx & Lx & Ex).
      apply andb_true_iff in E. destruct E as [E1 E2]. apply Z.leb_le in E1. apply Z.eqb_eq in E2.
      destruct (zmodinv_spec (eval a) (eval b) E1 E2) as [Rz Ez].
      pose proof (canon_range bits x0 Hb0 Cx) as Rx.
      rewrite (uint_of_unique bits x0 (zmodinv (eval a) (eval b)) Cx
                 (inv_unique (eval b) (eval a) (eval x0) (zmodinv (eval a) (eval b)) ltac:(lia) ltac:(lia) Rz Ex Ez)).
      apply ok_wro_some. lia.
    - rewrite S. apply ok_wro_none.
  Qed.
  Lemma ok_Lcm : ok bits (sem Lcm bits a b c imm) (zsem Lcm bits (eval a) (eval b) (eval c) imm).
  Proof.
    start. unfold M. rewrite (PfGcd.lcm_spec HKg HL bits a b Hb0 Ha Hc). cbn [obind]. cbv zeta.
    destruct ((eval a =? 0) || (eval b =? 0)); [apply ok_wro_some; lia|].
    destruct (Z.ltb_spec (eval a * eval b / Z.gcd (eval a) (eval b)) (2 ^ bits)); [|apply ok_wro_none].
    apply ok_wro_some. split; [|assumption].
    pose proof (Z.gcd_nonneg (eval a) (eval b)).
    destruct (Z.eq_dec (Z.gcd (eval a) (eval b)) 0) as [G0|G0].
    - rewrite G0, Zdiv_0_r. lia.
    - apply Z.div_pos; [nia|lia].
  Qed.
  Lemma ok_GcdExt : ok bits (sem GcdExt bits a b c imm) (zsem GcdExt bits (eval a) (eval b) (eval c) imm).
  Proof.
    start. destruct (PfGcd.gcd_extended_spec HKg HL bits a b Hb0 Ha Hc) as ([[[g x] y] sg] & -> & -> & Cx & Cy & _).
    cbn [obind]. rewrite (proj2 (canonb_iff bits x) Cx), (proj2 (canonb_iff bits y) Cy). cbn [andb negb b2z].
    apply ok_wr_u. pose proof (gcd_le (eval a) (eval b)). lia.
  Qed.
  Lemma ok_ReduceMod : ok bits (sem ReduceMod bits a b c imm) (zsem ReduceMod bits (eval a) (eval b) (eval c) imm).
  Proof. start. apply ok_returns. now apply PfC10Closed.reduce_mod_value_closed. Qed.

  Lemma ok_SquareRedc : ok bits (sem SquareRedc bits a b c imm) (zsem SquareRedc bits (eval a) (eval b) (eval c) imm).
  Proof.
    start. unfold Redc.uint_square_redc, z_mul_redc. destruct (Z.eqb_spec bits 0) as [E0|N0].
    { cbn [obind]. rewrite PfC07.uZERO_eq by lia. apply ok_wr_u. lia. }
    assert (Hbp : 0 < bits) by lia.
    assert (Hne : c <> []).
    { intros E. pose proof (proj1 Hd) as Hl. rewrite E in Hl. cbn in Hl. pose proof (nlimbs_bounds bits Hbp).
      unfold nlimbsN in Hl. lia. }
    pose proof (proj1 Ha) as La. pose proof (proj1 Hd) as Lc.
    rewrite <- (hd_mod c Hne Wc).
    destruct (((imm1 imm * hd 0 c) mod B =? B - 1) && (eval a <? eval c) && (eval a <? eval c)) eqn:P.
    - assert (P' : RunC11.pre (eval a) (eval a) (eval c) (imm1 imm) (hd 0 c) = true).
      { unfold RunC11.pre. rewrite <- B_pow. exact P. }
      apply PfC11.pre_true in P'. destruct P' as (Hinv & Hlta & _).
      destruct (PfRedc.square_redc_spec a c (imm1 imm) ltac:(congruence) Wa Wc Hinv Hlta)
        as (r & -> & Lr & Wr & Rr & Cg). cbn [obind].
      rewrite PfC11.from_limbs_checked_ok by (auto; lia). cbn [obind].
      assert (Cr : canon bits r) by (repeat split; auto; [congruence|lia]).
      apply ok_wr; auto.
      assert (Hodd : Z.odd (eval c) = true).
      { apply odd_eval; [exact Hne|]. apply (inv_odd (imm1 imm)). exact Hinv. }
      apply (PfRedc.redc_value (eval r) (B ^ Z.of_nat (length c)) _ (eval a * eval a) (eval c)); auto.
      rewrite Lc, nlimbsN_Z, B_pow, <- Z.pow_mul_r by (try apply nlimbs_nonneg; lia).
      apply redc_inverse; [lia | exact Hodd | pose proof (nlimbs_nonneg bits Hb0); lia].
    - assert (P' : RunC11.pre (eval a) (eval a) (eval c) (imm1 imm) (hd 0 c) = false).
      { unfold RunC11.pre. rewrite <- B_pow. exact P. }
      rewrite PfC11.square_redc_bad by (auto; congruence). split; [reflexivity|exact I].
  Qed.

  Lemma ok_OvPow : ok bits (sem OvPow bits a b c imm) (zsem OvPow bits (eval a) (eval b) (eval c) imm).
  Proof.
    start. destruct (Z.eq_dec bits 0) as [E0|N0].
    - destruct (pow_zero_width E0) as [Ea Z0]. unfold Pow.overflowing_pow.
      destruct (Z.eqb_spec bits 0); [|contradiction]. cbn [obind].
      destruct (Z0 (eval a) (eval b)) as [-> ->]. now apply ok_wrf.
    - destruct (PfPow.overflowing_pow_spec bits a b ltac:(lia) Ha Hc) as (r & -> & C & E). cbn [obind].
      destruct (pow_facts ltac:(lia) (eval a) (eval b) ltac:(lia) ltac:(lia)) as [-> ->].
      rewrite (uint_of_unique bits r _ C E). apply ok_wrf_u, mod_range. lia.
  Qed.
  Lemma ok_ChPow : ok bits (sem ChPow bits a b c imm) (zsem ChPow bits (eval a) (eval b) (eval c) imm).
  Proof.
    start. unfold Pow.checked_pow. destruct (Z.eq_dec bits 0) as [E0|N0].
    - destruct (pow_zero_width E0) as [Ea Z0]. unfold Pow.overflowing_pow.
      destruct (Z.eqb_spec bits 0); [|contradiction]. cbn [obind].
      destruct (Z0 (eval a) (eval b)) as [-> ->]. now apply ok_wro_some_c.
    - destruct (PfPow.overflowing_pow_spec bits a b ltac:(lia) Ha Hc) as (r & -> & C & E). cbn [obind].
      destruct (pow_facts ltac:(lia) (eval a) (eval b) ltac:(lia) ltac:(lia)) as [-> ->].
      destruct (2 ^ bits <=? eval a ^ eval b); [apply ok_wro_none|].
      rewrite (uint_of_unique bits r _ C E). apply ok_wro_some, mod_range. lia.
  Qed.
  Lemma ok_SatPow : ok bits (sem SatPow bits a b c imm) (zsem SatPow bits (eval a) (eval b) (eval c) imm).
  Proof.
    start. unfold Pow.saturating_pow, M. destruct (Z.eq_dec bits 0) as [E0|N0].
    - destruct (pow_zero_width E0) as [Ea Z0]. unfold Pow.overflowing_pow.
      destruct (Z.eqb_spec bits 0); [|contradiction]. cbn [obind].
      destruct (Z0 (eval a) (eval b)) as [-> ->]. now apply ok_wr.
    - destruct (PfPow.overflowing_pow_spec bits a b ltac:(lia) Ha Hc) as (r & -> & C & E). cbn [obind].
      destruct (pow_facts ltac:(lia) (eval a) (eval b) ltac:(lia) ltac:(lia)) as [-> ->].
      destruct (2 ^ bits <=? eval a ^ eval b).
      + rewrite PfC07.uMAX_eq by auto. apply ok_wr_u. lia.
      + rewrite (uint_of_unique bits r _ C E). apply ok_wr_u, mod_range. lia.
  Qed.

  Theorem sem_ok o : ok bits (sem o bits a b c imm) (zsem o bits (eval a) (eval b) (eval c) imm).
  Proof.
    destruct o;
      first [ exact ok_OvAdd | exact ok_OvSub | exact ok_OvNeg | exact ok_ChAdd | exact ok_ChSub | exact ok_ChNeg
            | exact ok_SatAdd | exact ok_SatSub | exact ok_WrAdd | exact ok_WrSub | exact ok_WrNeg | exact ok_AbsDiff
            | exact ok_OvShl | exact ok_OvShr | exact ok_ChShl | exact ok_ChShr | exact ok_SatShl | exact ok_WrShl
            | exact ok_WrShr | exact ok_AShr | exact ok_RotL | exact ok_RotR | exact ok_ShlUint | exact ok_ShrUint
            | exact ok_BitAnd | exact ok_BitOr | exact ok_BitXor | exact ok_BitNot | exact ok_SetBit | exact ok_RevBits
            | exact ok_Npot | exact ok_CNpot
            | exact ok_TryFromU64 | exact ok_FromU64 | exact ok_WrapFromU64 | exact ok_SatFromU64
            | exact ok_TryFromU128 | exact ok_FromU128 | exact ok_WrapFromU128 | exact ok_SatFromU128
            | exact ok_FromLimbsSlice | exact ok_ChFromLimbsSlice | exact ok_WrFromLimbsSlice
            | exact ok_OvFromLimbsSlice | exact ok_SatFromLimbsSlice | exact ok_FromLimbs
            | exact ok_TryFromBe | exact ok_TryFromLe | exact ok_FromBe | exact ok_FromLe
            | exact ok_ReLe | exact ok_ReBe | exact ok_ReLeTrim | exact ok_ReBeTrim
            | exact ok_FromBaseBe | exact ok_FromBaseLe | exact ok_FromStrRadix | exact ok_ReBase
            | exact ok_TryFromF64 | exact ok_WrapFromF64 | exact ok_SatFromF64
            | exact ok_TryFromF32 | exact ok_WrapFromF32 | exact ok_SatFromF32
            | exact ok_CZero | exact ok_COne | exact ok_CMin | exact ok_CMax | exact ok_Mov
            | exact ok_WrMul | exact ok_WrDiv | exact ok_WrRem | exact ok_WrPow | exact ok_Gcd
            | exact ok_AddMod | exact ok_MulMod | exact ok_PowMod | exact ok_Root | exact ok_MulRedc
            | exact ok_InvRing | exact ok_ChMul | exact ok_SatMul | exact ok_OvMul | exact ok_DivCeil
            | exact ok_ChDiv | exact ok_ChRem | exact ok_NextMul | exact ok_ChNextMul | exact ok_InvMod
            | exact ok_Lcm | exact ok_GcdExt | exact ok_ReduceMod | exact ok_SquareRedc
            | exact ok_ChPow | exact ok_SatPow | exact ok_OvPow ].
  Qed.
End Ops.

(* ================= steps ================= *)
Definition Inv (bits : Z) (regs : list (list Z)) : Prop := Forall (canon bits) regs.
Definition imm_ok (i : instr) : Prop := Forall inW (i_imm i).

Lemma lenZ_map {A C} (f : A -> C) l : lenZ (map f l) = lenZ l.
Proof. unfold lenZ. now rewrite map_length. Qed.

Lemma get_reg_spec bits regs i : Inv bits regs ->
  match get_reg regs i with
  | Val r => canon bits r /\ zget (map eval regs) i = Val (eval r)
  | Panic => zget (map eval regs) i = Panic
  | _ => False
  end.
Proof.
  intros HI. unfold get_reg, zget. rewrite lenZ_map.
  destruct ((i <? 0) || (lenZ regs <=? i)); [reflexivity|].
  rewrite nth_error_map. destruct (nth_error regs (Z.to_nat i)) as [r|] eqn:E; cbn [option_map]; [|reflexivity].
  split; [|reflexivity]. unfold Inv in HI. rewrite Forall_forall in HI. apply HI. eapply nth_error_In; eauto.
Qed.

Lemma set_nth_reg_spec bits regs n v : Inv bits regs -> canon bits v ->
  Inv bits (set_nth_reg regs n v) /\ map eval (set_nth_reg regs n v) = zset (map eval regs) n (eval v).
Proof.
  intros HI Hv. revert n. induction HI as [|x t Hx Ht IH]; intros n; cbn [set_nth_reg map zset].
  - destruct n; split; try constructor; reflexivity.
  - destruct n as [|n]; cbn [map].
    + split; [constructor; auto|reflexivity].
    + destruct (IH n) as [I1 I2]. split; [constructor; auto|]. now rewrite I2.
Qed.

(* one step of the model is one step of the integer interpreter, and keeps every register canonical *)
Theorem step_refines bits regs log i :
  0 <= bits < 2 ^ 64 -> Inv bits regs -> imm_ok i ->
  match step bits (regs, log) i with
  | Val (regs', log') =>
      Inv bits regs' /\ zstep bits (map eval regs, log) i = Val (map eval regs', log')
  | Panic => zstep bits (map eval regs, log) i = Panic
  | DebugPanic => zstep bits (map eval regs, log) i = DebugPanic
  | _ => False
  end.
Proof.
  intros Hb HI Hi. unfold step, zstep. destruct (opcode_of (i_op i)) as [o|]; [|reflexivity].
  pose proof (get_reg_spec bits regs (i_s1 i) HI) as G1.
  destruct (get_reg regs (i_s1 i)) as [a| | | |]; try contradiction; [|rewrite G1; reflexivity].
  destruct G1 as [Ca ->]. cbn [obind].
  pose proof (get_reg_spec bits regs (i_s2 i) HI) as G2.
  destruct (get_reg regs (i_s2 i)) as [b| | | |]; try contradiction; [|rewrite G2; reflexivity].
  destruct G2 as [Cb ->]. cbn [obind].
  pose proof (get_reg_spec bits regs (i_s3 i) HI) as G3.
  destruct (get_reg regs (i_s3 i)) as [c| | | |]; try contradiction; [|rewrite G3; reflexivity].
  destruct G3 as [Cc ->]. cbn [obind].
  pose proof (get_reg_spec bits regs (i_dst i) HI) as G4.
  destruct (get_reg regs (i_dst i)) as [d| | | |]; try contradiction; [|rewrite G4; reflexivity].
  destruct G4 as [Cd ->]. cbn [obind].
  destruct (sem_ok bits a b c (i_imm i) Hb Ca Cb Cc Hi o) as [-> R].
  destruct (zsem o bits (eval a) (eval b) (eval c) (i_imm i)) as [[v st]| | | |]; cbn [lift obind fst snd];
    try reflexivity; try exact R.
  - destruct v as [v|]; cbn [option_map].
    + cbn in R. destruct (uint_of_range_canon bits v (proj1 Hb) R) as [Cv Ev].
      destruct (set_nth_reg_spec bits regs (Z.to_nat (i_dst i)) (uint_of bits v) HI Cv) as [I1 I2].
      split; [exact I1|]. now rewrite I2, Ev.
    + split; [exact HI|reflexivity].
Qed.

Corollary step_canon bits regs log i regs' log' :
  0 <= bits < 2 ^ 64 -> Inv bits regs -> imm_ok i ->
  step bits (regs, log) i = Val (regs', log') -> Inv bits regs'.
Proof.
  intros Hb HI Hi E. pose proof (step_refines bits regs log i Hb HI Hi) as S. rewrite E in S. apply S.
Qed.

(* ================= programs of any length ================= *)
Theorem run_refines bits is : forall regs log,
  0 <= bits < 2 ^ 64 -> Inv bits regs -> Forall imm_ok is ->
  match run_instrs bits (regs, log) is with
  | Val (regs', log') =>
      Inv bits regs' /\ zrun_instrs bits (map eval regs, log) is = Val (map eval regs', log')
  | Panic => zrun_instrs bits (map eval regs, log) is = Panic
  | DebugPanic => zrun_instrs bits (map eval regs, log) is = DebugPanic
  | _ => False
  end.
Proof.
  induction is as [|i t IH]; intros regs log Hb HI Hok; cbn [run_instrs zrun_instrs].
  - split; [exact HI|reflexivity].
  - inversion Hok as [|? ? Hi Ht]; subst.
    pose proof (step_refines bits regs log i Hb HI Hi) as S.
    destruct (step bits (regs, log) i) as [[regs1 log1]| | | |]; try contradiction;
      try (rewrite S; reflexivity).
    destruct S as [I1 ->]. cbn [obind]. apply IH; auto.
Qed.

Lemma Forall_firstn_c {A} (P : A -> Prop) n l : Forall P l -> Forall P (firstn n l).
Proof. intros H. revert n. induction H; intros [|m]; cbn; auto. Qed.
Lemma Forall_skipn_c {A} (P : A -> Prop) n l : Forall P l -> Forall P (skipn n l).
Proof. intros H. revert n. induction H; intros [|m]; cbn; auto. Qed.

Lemma decode_imm_ok fuel : forall ws is, Forall inW ws -> decode fuel ws = Some is -> Forall imm_ok is.
Proof.
  induction fuel as [|f IH]; intros ws is Hw E.
  - destruct ws as [|o [|d [|x [|y [|z [|n rest]]]]]]; cbn [decode] in E; try discriminate.
    injection E as <-. constructor.
  - destruct ws as [|o [|d [|x [|y [|z [|n rest]]]]]]; cbn [decode] in E; try discriminate.
    + injection E as <-. constructor.
    + destruct ((n <? 0) || (lenZ rest <? n)); [discriminate|].
      assert (Hr : Forall inW rest) by (do 6 (inversion Hw as [|? ? _ Hw']; subst; clear Hw; rename Hw' into Hw); exact Hw).
      destruct (decode f (skipn (Z.to_nat n) rest)) as [is'|] eqn:D; [|discriminate].
      injection E as <-. constructor.
      * unfold imm_ok. cbn [i_imm]. now apply Forall_firstn_c.
      * eapply IH; [|exact D]. now apply Forall_skipn_c.
Qed.

Theorem history_refines bits regs prog :
  0 <= bits < 2 ^ 64 -> Inv bits regs -> Forall inW prog ->
  match run_history bits regs prog with
  | Val (regs', log') =>
      Inv bits regs' /\ zrun bits (map eval regs) prog = Val (map eval regs', log')
  | Panic => zrun bits (map eval regs) prog = Panic
  | DebugPanic => zrun bits (map eval regs) prog = DebugPanic
  | _ => False
  end.
Proof.
  intros Hb HI Hw. unfold run_history, zrun.
  destruct (decode (length prog) prog) as [is|] eqn:D; [|reflexivity].
  apply run_refines; auto. eapply decode_imm_ok; eauto.
Qed.

(* closure: after any history every register is canonical *)
Corollary history_canon bits regs prog regs' log' :
  0 <= bits < 2 ^ 64 -> Inv bits regs -> Forall inW prog ->
  run_history bits regs prog = Val (regs', log') -> Inv bits regs'.
Proof.
  intros Hb HI Hw E. pose proof (history_refines bits regs prog Hb HI Hw) as S. rewrite E in S. apply S.
Qed.

(* ================= the property ================= *)
Lemma split_regs_map regs log : split_regs (map TL regs ++ [TL log]) = Some (regs, log).
Proof. induction regs as [|r t IH]; cbn [map app split_regs]; [reflexivity|]. rewrite IH. now destruct t. Qed.

Lemma list_eqb_Z_refl l : list_eqb Z.eqb l l = true.
Proof. apply PfC01.list_eqb_refl, Z.eqb_refl. Qed.

Theorem C04a_all c : wf c -> spec c (run c) = true.
Proof.
  destruct c as [bits regs prog]. cbn [wf spec run]. intros (Hb & HI & Hw).
  pose proof (history_refines bits regs prog Hb HI Hw) as S.
  destruct (run_history bits regs prog) as [[regs' log']| | | |]; try contradiction.
  - destruct S as [I1 ->]. cbn [obind fst snd]. rewrite split_regs_map.
    rewrite !list_eqb_Z_refl, !andb_true_r. apply forallb_forall. intros r Hr. apply canonb_iff.
    unfold Inv in I1. rewrite Forall_forall in I1. auto.
  - rewrite S. reflexivity.
  - rewrite S. reflexivity.
Qed.
