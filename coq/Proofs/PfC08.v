(* Proofs/PfC08.v — every C08 call: the model's answer meets the executable specification. *)
From Coq Require Import ZArith List Bool Lia.
From RV.Model Require Import Base Word Bytes.
From RV.Proofs Require Import BaseFacts PfBytes.
From RV.Run Require Import RunC08.
Import ListNotations.
Local Open Scope Z_scope.

Lemma list_eqb_refl {A} (eqb : A -> A -> bool) (l : list A) :
  (forall x, eqb x x = true) -> list_eqb eqb l l = true.
Proof. intros H. induction l as [|x l IH]; cbn; [reflexivity | now rewrite H, IH]. Qed.
Lemma tok_eqb_refl t : tok_eqb t t = true.
Proof.
  destruct t; cbn; auto using Z.eqb_refl, eqb_reflx;
    apply list_eqb_refl; apply Z.eqb_refl.
Qed.
Lemma expect_refl t : expect (Val t) t = true.
Proof. unfold expect. cbn. apply list_eqb_refl, tok_eqb_refl. Qed.

(* ---- the specification's vocabulary is the proofs' vocabulary ---- *)
Lemma SBYTES_nbytes bits : 0 <= bits -> SBYTES bits = Bytes.nbytes bits.
Proof.
  intros H. unfold SBYTES, Bytes.nbytes.
  destruct (Z.eqb_spec (bits mod 8) 0); Z.div_mod_to_equations; lia.
Qed.

Lemma digit_spec v i : digit v i = (v / 256 ^ Z.of_nat i) mod 256.
Proof.
  unfold digit. rewrite modp2_spec, divp2_spec, p256_pow2 by lia. reflexivity.
Qed.

Lemma map_digit_seq v n : forall s,
  map (digit v) (seq s n) = le_digits n (v / 256 ^ Z.of_nat s).
Proof.
  induction n as [|n IH]; intros s; [reflexivity|].
  cbn [seq map]. rewrite le_digits_S, IH, digit_spec, p256_S. do 2 f_equal.
  rewrite Z.div_div by (pose proof (p256_pos s); lia). f_equal. lia.
Qed.

Lemma le_bytes_digits v n : le_bytes v n = le_digits (Z.to_nat n) v.
Proof. unfold le_bytes. rewrite map_digit_seq. cbn. now rewrite Z.div_1_r. Qed.

Lemma be_bytes_digits v n : be_bytes v n = rev (le_digits (Z.to_nat n) v).
Proof. unfold be_bytes. now rewrite le_bytes_digits. Qed.

Lemma pos_value_spec bs : forall i, 0 <= i -> pos_value i bs = 256 ^ i * le_value bs.
Proof.
  induction bs as [|b t IH]; intros i Hi; cbn [pos_value le_value]; [lia|].
  rewrite IH, Z.shiftl_mul_pow2, <- p256_pow2 by lia.
  replace (i + 1) with (Z.succ i) by lia. rewrite Z.pow_succ_r by lia. lia.
Qed.

Lemma le_val_value bs : le_val bs = le_value bs.
Proof. unfold le_val. rewrite pos_value_spec by lia. cbn. destruct (le_value bs); reflexivity. Qed.
Lemma be_val_value bs : be_val bs = le_value (rev bs).
Proof. unfold be_val. rewrite pos_value_spec by lia. cbn. destruct (le_value (rev bs)); reflexivity. Qed.

Lemma ndigits_bytelen v : ndigits v = bytelen v.
Proof. reflexivity. Qed.

Lemma Forall_isbyte_iff l : forallb isbyteb l = true <-> Forall isbyte l.
Proof.
  rewrite forallb_forall, Forall_forall. unfold isbyteb, isbyte.
  split; intros H x Hx; specialize (H x Hx); lia.
Qed.

(* ---- the four result shapes of the specification ---- *)
Lemma spec_try_ok bits bs v r :
  0 <= bits ->
  r = (if (lenZ bs <=? Bytes.nbytes bits) && (v <? 2 ^ bits) then Some (uint_of bits v) else None) ->
  spec_try bits bs v (Val (opt_toks r)) = true.
Proof.
  intros Hb ->. unfold spec_try, fits. rewrite SBYTES_nbytes by assumption.
  destruct ((lenZ bs <=? Bytes.nbytes bits) && (v <? 2 ^ bits)); apply expect_refl.
Qed.

Lemma spec_from_ok bits bs v :
  0 <= bits ->
  spec_from bits bs v
    (do r <- (if (lenZ bs <=? Bytes.nbytes bits) && (v <? 2 ^ bits)
              then Val (uint_of bits v) else Panic); Val [TL r]) = true.
Proof.
  intros Hb. unfold spec_from, fits. rewrite SBYTES_nbytes by assumption.
  destruct ((lenZ bs <=? Bytes.nbytes bits) && (v <? 2 ^ bits)); cbn [obind]; [apply expect_refl|reflexivity].
Qed.

Lemma spec_copy_ok bits enc buf :
  0 <= bits ->
  spec_copy bits enc buf
    (do r <- (if lenZ buf <? Bytes.nbytes bits then Panic
              else Val (Bytes.nbytes bits, enc ++ skipn (nbytesN bits) buf)); Val (copy_toks r)) = true.
Proof.
  intros Hb. unfold spec_copy. rewrite SBYTES_nbytes by assumption. fold (nbytesN bits).
  destruct (lenZ buf <? Bytes.nbytes bits); cbn [obind]; [reflexivity|apply expect_refl].
Qed.

Lemma spec_ccopy_ok bits enc buf :
  0 <= bits ->
  spec_ccopy bits enc buf
    (do r <- (if lenZ buf <? Bytes.nbytes bits then Val (None, buf)
              else Val (Some (Bytes.nbytes bits), enc ++ skipn (nbytesN bits) buf)); Val (ccopy_toks r)) = true.
Proof.
  intros Hb. unfold spec_ccopy. rewrite SBYTES_nbytes by assumption. fold (nbytesN bits).
  destruct (lenZ buf <? Bytes.nbytes bits); cbn [obind]; apply expect_refl.
Qed.

Theorem C08_all c : wf c -> spec c (run c) = true.
Proof.
  destruct c; cbn [wf run spec].
  - (* nbytes *) intros Hb. rewrite SBYTES_nbytes by assumption. apply expect_refl.
  - (* as_le_slice *) intros (Hb & Hc).
    rewrite le_bytes_digits, SBYTES_nbytes, as_le_slice_spec by assumption. apply expect_refl.
  - (* as_le_bytes *) intros (Hb & Hc).
    rewrite le_bytes_digits, SBYTES_nbytes, as_le_bytes_spec by assumption. apply expect_refl.
  - (* as_le_bytes_trimmed *) intros (Hb & Hc).
    rewrite le_bytes_digits, ndigits_bytelen, as_le_bytes_trimmed_spec by assumption. apply expect_refl.
  - (* to_le_bytes *) intros (Hb & Hn & Hc).
    rewrite le_bytes_digits, SBYTES_nbytes, to_le_bytes_spec by assumption.
    destruct (n =? Bytes.nbytes bits); cbn [obind]; [apply expect_refl|reflexivity].
  - (* to_be_bytes *) intros (Hb & Hn & Hc).
    rewrite be_bytes_digits, SBYTES_nbytes, to_be_bytes_spec by assumption.
    destruct (n =? Bytes.nbytes bits); cbn [obind]; [apply expect_refl|reflexivity].
  - (* to_le_bytes_vec *) intros (Hb & Hc).
    rewrite le_bytes_digits, SBYTES_nbytes, to_le_bytes_vec_spec by assumption. apply expect_refl.
  - (* to_le_bytes_trimmed_vec *) intros (Hb & Hc).
    rewrite le_bytes_digits, ndigits_bytelen, to_le_bytes_trimmed_vec_spec by assumption. apply expect_refl.
  - (* to_be_bytes_vec *) intros (Hb & Hc).
    rewrite be_bytes_digits, SBYTES_nbytes, to_be_bytes_vec_spec by assumption. apply expect_refl.
  - (* to_be_bytes_trimmed_vec *) intros (Hb & Hc).
    rewrite be_bytes_digits, ndigits_bytelen, to_be_bytes_trimmed_vec_spec by assumption. apply expect_refl.
  - (* copy_le_bytes_to *) intros (Hb & Hc & Hbuf).
    rewrite le_bytes_digits, SBYTES_nbytes, copy_le_bytes_to_spec by assumption.
    now apply spec_copy_ok.
  - (* checked_copy_le_bytes_to *) intros (Hb & Hc & Hbuf).
    rewrite le_bytes_digits, SBYTES_nbytes, checked_copy_le_bytes_to_spec by assumption.
    now apply spec_ccopy_ok.
  - (* copy_be_bytes_to *) intros (Hb & Hc & Hbuf).
    rewrite be_bytes_digits, SBYTES_nbytes, copy_be_bytes_to_spec by assumption.
    now apply spec_copy_ok.
  - (* checked_copy_be_bytes_to *) intros (Hb & Hc & Hbuf).
    rewrite be_bytes_digits, SBYTES_nbytes, checked_copy_be_bytes_to_spec by assumption.
    now apply spec_ccopy_ok.
  - (* from_be_bytes *) intros (Hb & Hby).
    rewrite SBYTES_nbytes, be_val_value, from_be_bytes_spec by assumption.
    destruct (Z.eqb_spec (lenZ bytes) (Bytes.nbytes bits)) as [E|E]; cbn [andb obind]; [|reflexivity].
    pose proof (spec_from_ok bits bytes (le_value (rev bytes)) Hb) as H.
    rewrite E, Z.leb_refl in H. cbn [andb] in H. exact H.
  - (* from_le_bytes *) intros (Hb & Hby).
    rewrite SBYTES_nbytes, le_val_value, from_le_bytes_spec by assumption.
    destruct (Z.eqb_spec (lenZ bytes) (Bytes.nbytes bits)) as [E|E]; cbn [andb obind]; [|reflexivity].
    pose proof (spec_from_ok bits bytes (le_value bytes) Hb) as H.
    rewrite E, Z.leb_refl in H. cbn [andb] in H. exact H.
  - (* from_be_slice *) intros (Hb & Hby).
    rewrite be_val_value, from_be_slice_spec by assumption. now apply spec_from_ok.
  - (* from_le_slice *) intros (Hb & Hby).
    rewrite le_val_value, from_le_slice_spec by assumption. now apply spec_from_ok.
  - (* try_from_be_slice *) intros (Hb & Hby).
    rewrite be_val_value, try_from_be_slice_spec by assumption. cbn [obind]. now apply spec_try_ok.
  - (* try_from_le_slice *) intros (Hb & Hby).
    rewrite le_val_value, try_from_le_slice_spec by assumption. cbn [obind]. now apply spec_try_ok.
  - (* roundtrip *) intros (Hb & Hc).
    destruct (roundtrip_full bits a Hb Hc) as [F1 F2].
    destruct (roundtrip_trimmed bits a Hb Hc) as [T1 T2].
    destruct (roundtrip_arrays bits a Hb Hc) as [A1 A2].
    destruct (shape =? 0); [rewrite F1; apply expect_refl|].
    destruct (shape =? 1).
    { destruct (Bytes.as_le_bytes_trimmed bits a); cbn [obind] in *; try discriminate.
      rewrite T1. apply expect_refl. }
    destruct (shape =? 2); [rewrite F2; apply expect_refl|].
    destruct (shape =? 3).
    { destruct (Bytes.to_be_bytes_trimmed_vec bits a); cbn [obind] in *; try discriminate.
      rewrite T2. apply expect_refl. }
    destruct (shape =? 4).
    { destruct (Bytes.to_le_bytes bits (Bytes.nbytes bits) a); cbn [obind] in *; try discriminate.
      rewrite A1. apply expect_refl. }
    destruct (Bytes.to_be_bytes bits (Bytes.nbytes bits) a); cbn [obind] in *; try discriminate.
    rewrite A2. apply expect_refl.
Qed.
