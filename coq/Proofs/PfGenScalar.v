(* Proofs/PfGenScalar.v — the definitions generated from the Rust source text by tools_rs2v.py
   (Gen/Scalar.v, regenerated on every run) equal the hand-written model functions that all other
   proofs are about.  If one of these lemmas stops compiling, the source text of that function
   has changed in a way the translation notices: the tie for it is re-established only by
   repairing model + proof; meanwhile the check widens its differential search. *)
From Coq Require Import Lia ZifyBool.
From RV.Model Require Import Base Word Limbs Bytes DivRecip DivSmall Redc.
From RV.Gen Require Import Prim Scalar.
From RV.Proofs Require Import BaseFacts.

Local Ltac zdm := Z.div_mod_to_equations.

Lemma BB_val : BB = 340282366920938463463374607431768211456. Proof. reflexivity. Qed.
Lemma BB_sq : BB = B * B. Proof. rewrite B_val. reflexivity. Qed.
Local Ltac bnum := rewrite ?BB_val, ?B_val in *; lia.

Lemma chk64_ok x : 0 <= x < B -> chk64 x = Val x.
Proof. intros H. unfold chk64. destruct (0 <=? x) eqn:E1, (x <? B) eqn:E2; cbn; try reflexivity; lia. Qed.
Lemma chk128_ok x : 0 <= x < BB -> chk128 x = Val x.
Proof. intros H. unfold chk128. destruct (0 <=? x) eqn:E1, (x <? BB) eqn:E2; cbn; try reflexivity; lia. Qed.
Lemma chksh_ok w s : 0 <= s < w -> chksh w s = Val s.
Proof. intros H. unfold chksh. destruct (0 <=? s) eqn:E1, (s <? w) eqn:E2; cbn; try reflexivity; lia. Qed.

Lemma mul_lt_BB a b : inW a -> inW b -> 0 <= a * b <= (B - 1) * (B - 1).
Proof. unfold inW. intros Ha Hb. split; [nia|]. apply Z.mul_le_mono_nonneg; lia. Qed.

(* ---------------- lib.rs / bytes.rs ---------------- *)
Lemma g_nlimbs_eq bits : 0 <= bits -> bits + 63 < B -> g_nlimbs bits = Val (nlimbs bits).
Proof. intros H0 H1. unfold g_nlimbs. rewrite chk64_ok by lia. reflexivity. Qed.

Lemma g_nbytes_eq bits : 0 <= bits -> bits + 7 < B -> g_nbytes bits = Val (nbytes bits).
Proof. intros H0 H1. unfold g_nbytes. rewrite chk64_ok by lia. reflexivity. Qed.

Lemma g_mask_eq bits : 0 <= bits -> g_mask bits = Val (mask bits).
Proof.
  intros H0. unfold g_mask, mask.
  destruct (bits =? 0) eqn:E0; [reflexivity|].
  destruct (bits mod 64 =? 0) eqn:E1; cbn [obind]; [reflexivity|].
  assert (Hr : 0 < bits mod 64 < 64) by (zdm; lia).
  rewrite chksh_ok by lia. cbn [obind].
  assert (Hp : 2 <= 2 ^ (bits mod 64) < B).
  { rewrite B_pow. split.
    - change 2 with (2 ^ 1) at 1. apply Z.pow_le_mono_r; lia.
    - apply Z.pow_lt_mono_r; lia. }
  unfold shl64. rewrite Z.mul_1_l. rewrite (Z.mod_small _ B) by lia.
  rewrite chk64_ok by lia. reflexivity.
Qed.

(* ---------------- algorithms/mod.rs: DoubleWord<u64> for u128 ---------------- *)
Lemma g_dw_low_eq x : g_dw_low x = lo128 x.
Proof. reflexivity. Qed.

Lemma g_dw_high_eq x : 0 <= x < BB -> g_dw_high x = hi128 x.
Proof.
  intros H. unfold g_dw_high, hi128, shr128, wrap. rewrite <- B_pow.
  apply Z.mod_small. rewrite BB_sq in H. pose proof B_pos. zdm. nia.
Qed.

Lemma land_shift_low h l : 0 <= l < 2 ^ 64 -> Z.land (h * 2 ^ 64) l = 0.
Proof.
  intros Hl. rewrite <- Z.shiftl_mul_pow2 by lia.
  apply Z.bits_inj'; intros n Hn. rewrite Z.land_spec, Z.bits_0, Z.shiftl_spec by lia.
  destruct (Z.ltb_spec n 64) as [Hlt|Hge].
  - rewrite (Z.testbit_neg_r h) by lia. reflexivity.
  - destruct (Z.eq_dec l 0) as [->|Hnz]; [rewrite Z.bits_0; apply andb_false_r|].
    rewrite (Z.bits_above_log2 l n); [apply andb_false_r|lia|].
    apply Z.lt_le_trans with 64; [|lia]. apply Z.log2_lt_pow2; lia.
Qed.

Lemma g_dw_join_eq h l : inW h -> inW l -> g_dw_join h l = join h l.
Proof.
  unfold inW. intros Hh Hl. unfold g_dw_join, join, shl128.
  assert (Hland : Z.land (h * 2 ^ 64) l = 0) by (apply land_shift_low; rewrite <- B_pow; lia).
  rewrite <- B_pow in *.
  rewrite (Z.mod_small (h * B) BB) by (rewrite BB_sq; nia).
  rewrite <- Z.lxor_lor by exact Hland. rewrite <- Z.add_nocarry_lxor by exact Hland. reflexivity.
Qed.

Lemma g_dw_split_eq x : 0 <= x < BB -> g_dw_split x = (lo128 x, hi128 x).
Proof. intros H. unfold g_dw_split. rewrite g_dw_high_eq by assumption. reflexivity. Qed.

Lemma g_dw_add_eq a b : inW a -> inW b -> g_dw_add a b = Val (a + b).
Proof. unfold inW. intros Ha Hb. unfold g_dw_add. rewrite chk128_ok by (rewrite BB_sq; nia). reflexivity. Qed.

Lemma g_dw_mul_eq a b : inW a -> inW b -> g_dw_mul a b = Val (a * b).
Proof.
  intros Ha Hb. unfold g_dw_mul. pose proof (mul_lt_BB a b Ha Hb).
  rewrite chk128_ok by (rewrite BB_sq; pose proof B_pos; nia). reflexivity.
Qed.

Lemma g_dw_muladd_eq a b c : inW a -> inW b -> inW c -> g_dw_muladd a b c = Val (muladd a b c).
Proof.
  intros Ha Hb Hc. unfold g_dw_muladd, muladd. pose proof (mul_lt_BB a b Ha Hb). unfold inW in *.
  rewrite chk128_ok by (rewrite BB_sq; pose proof B_pos; nia). cbn [obind].
  rewrite chk128_ok by (rewrite BB_sq; pose proof B_pos; nia). reflexivity.
Qed.

Lemma g_dw_muladd2_eq a b c d :
  inW a -> inW b -> inW c -> inW d -> g_dw_muladd2 a b c d = Val (muladd2 a b c d).
Proof.
  intros Ha Hb Hc Hd. unfold g_dw_muladd2, muladd2. pose proof (mul_lt_BB a b Ha Hb). unfold inW in *.
  rewrite chk128_ok by (rewrite BB_sq; pose proof B_pos; nia). cbn [obind].
  rewrite chk128_ok by (rewrite BB_sq; pose proof B_pos; nia). cbn [obind].
  rewrite chk128_ok by (rewrite BB_sq; pose proof B_pos; nia). reflexivity.
Qed.

Lemma g_carrying_add_eq l r c : g_carrying_add l r c = carrying_add l r c.
Proof. reflexivity. Qed.
Lemma g_borrowing_sub_eq l r c : g_borrowing_sub l r c = borrowing_sub l r c.
Proof. reflexivity. Qed.

(* ---------------- algorithms/ops.rs ---------------- *)
Lemma hi_small x : 0 <= x < BB -> hi x = hi128 x.
Proof. intros H. unfold hi, hi128. apply Z.mod_small. rewrite BB_sq in H. pose proof B_pos. zdm. nia. Qed.

Lemma g_adc_eq l r c : inW l -> inW r -> inW c -> g_adc l r c = Val (adc l r c).
Proof.
  unfold inW. intros Hl Hr Hc. unfold g_adc, adc.
  rewrite chk128_ok by bnum. cbn [obind].
  rewrite chk128_ok by bnum. cbn [obind].
  rewrite g_dw_split_eq by bnum.
  rewrite hi_small by bnum. reflexivity.
Qed.

Lemma g_sbb_eq l r b : g_sbb l r b = sbb l r b.
Proof.
  unfold g_sbb, sbb.
  set (x := wrap128 (wrap128 (l - r) - b)).
  assert (Hx : 0 <= x < BB) by (unfold x, wrap128; apply Z.mod_pos_bound; rewrite BB_val; lia).
  rewrite g_dw_high_eq by assumption. rewrite hi_small by assumption. reflexivity.
Qed.

(* ---------------- algorithms/mul.rs ---------------- *)
Lemma g_mac_eq lhs a b c :
  inW lhs -> inW a -> inW b -> inW c ->
  g_mac lhs a b c = Val (snd (mac lhs a b c), fst (mac lhs a b c)).
Proof.
  intros Hl Ha Hb Hc. unfold g_mac, mac. rewrite g_dw_muladd2_eq by assumption. cbn [obind fst snd].
  assert (Hp : 0 <= muladd2 a b c lhs < BB).
  { unfold muladd2. pose proof (mul_lt_BB a b Ha Hb). unfold inW in *. rewrite BB_sq. pose proof B_pos. nia. }
  rewrite g_dw_high_eq by assumption. rewrite hi_small by assumption. reflexivity.
Qed.

(* ---------------- algorithms/mul_redc.rs ---------------- *)
Lemma w128_wrap x : w128 x = wrap128 x.
Proof. unfold w128, wrap128. rewrite modp2_spec by lia. reflexivity. Qed.
Lemma w64_wrap x : w64 x = wrap x.
Proof. unfold w64, wrap. rewrite modp2_spec by lia. rewrite <- B_pow. reflexivity. Qed.
Lemma hi64_shr x : hi64 x = wrap (shr128 x 64).
Proof. unfold hi64, wrap, shr128. rewrite modp2_spec, divp2_spec by lia. rewrite <- B_pow. reflexivity. Qed.

Lemma g_carrying_mul_add_eq l r a c : g_carrying_mul_add l r a c = carrying_mul_add l r a c.
Proof. unfold g_carrying_mul_add, carrying_mul_add. rewrite !w128_wrap, w64_wrap, hi64_shr. reflexivity. Qed.

Lemma g_carrying_double_mul_add_eq l r a cl ch :
  g_carrying_double_mul_add l r a cl ch = carrying_double_mul_add l r a cl ch.
Proof.
  unfold g_carrying_double_mul_add, carrying_double_mul_add, ov_add128.
  rewrite !w128_wrap, w64_wrap, hi64_shr.
  replace (shl128 (b2z ch) 64) with (wrap128 (b2z ch * B)) by (unfold shl128, wrap128; rewrite B_pow; reflexivity).
  reflexivity.
Qed.

(* ---------------- algorithms/div/reciprocal.rs ---------------- *)
Lemma g_mul_hi_eq a b : inW a -> inW b -> g_mul_hi a b = Val (mul_hi a b).
Proof.
  intros Ha Hb. unfold g_mul_hi, mul_hi. pose proof (mul_lt_BB a b Ha Hb) as Hp.
  assert (Hq : 0 <= a * b < BB) by (rewrite BB_sq; pose proof B_pos; nia).
  rewrite chk128_ok by assumption. cbn [obind].
  change (wrap (shr128 (a * b) 64)) with (g_dw_high (a * b)). rewrite g_dw_high_eq by assumption. reflexivity.
Qed.

Lemma g_muladd_hi_eq a b c : inW a -> inW b -> inW c -> g_muladd_hi a b c = Val (muladd_hi a b c).
Proof.
  intros Ha Hb Hc. unfold g_muladd_hi, muladd_hi. pose proof (mul_lt_BB a b Ha Hb) as Hp.
  assert (Hq : 0 <= a * b < BB) by (rewrite BB_sq; pose proof B_pos; nia).
  assert (Hq2 : 0 <= a * b + c < BB) by (unfold inW in *; rewrite BB_sq; pose proof B_pos; nia).
  rewrite chk128_ok by assumption. cbn [obind]. rewrite chk128_ok by assumption. cbn [obind].
  change (wrap (shr128 (a * b + c) 64)) with (g_dw_high (a * b + c)). rewrite g_dw_high_eq by assumption. reflexivity.
Qed.

(* the table in the source text is the table of the model *)
Lemma g_table_eq : g_reciprocal_mg10_TABLE = RECIP_TABLE.
Proof. reflexivity. Qed.

Lemma tbl_nth t i : 0 <= i < Z.of_nat (length t) -> tbl t i = Val (nth (Z.to_nat i) t 0).
Proof.
  intros H. unfold tbl. rewrite (nth_error_nth' t 0) by lia. reflexivity.
Qed.

Lemma inW_wrap x : inW (wrap x).
Proof. unfold inW, wrap. apply Z.mod_pos_bound. apply B_pos. Qed.
Lemma inW_shr64 x s : inW x -> 0 <= s -> inW (shr64 x s).
Proof.
  unfold inW, shr64. intros H Hs. assert (0 < 2 ^ s) by (apply Z.pow_pos_nonneg; lia).
  split; [apply Z.div_pos; lia|]. apply Z.le_lt_trans with x; [|lia]. apply Z.div_le_upper_bound; nia.
Qed.

Lemma g_reciprocal_mg10_eq d : inW d -> g_reciprocal_mg10 d = reciprocal_mg10 d.
Proof.
  intros Hd. unfold g_reciprocal_mg10, reciprocal_mg10.
  change 9223372036854775808 with (2 ^ 63).
  destruct (d <? 2 ^ 63) eqn:E.
  - assert (E' : (2 ^ 63 <=? d) = false) by lia. rewrite E'. reflexivity.
  - assert (E' : (2 ^ 63 <=? d) = true) by lia. rewrite E'. cbn [negb].
    assert (H9 : 256 <= shr64 d 55 < 512).
    { unfold shr64. unfold inW in Hd. rewrite B_val in Hd. zdm. lia. }
    rewrite chk64_ok by (rewrite B_val; lia). cbn [obind].
    rewrite tbl_nth by (rewrite g_table_eq; cbn [length RECIP_TABLE]; lia). cbn [obind].
    rewrite g_table_eq.
    unfold recip_v4, recip_v3, recip_v2, recip_v1, recip_v0.
    cbv zeta.
    set (v0 := nth (Z.to_nat (shr64 d 55 - 256)) RECIP_TABLE 0).
    set (d40 := wrap (1 + shr64 d 24)).
    set (v1 := wrap (wrap (shl64 v0 11 - shr64 (wrap (wrap (v0 * v0) * d40)) 40) - 1)).
    replace (shl64 1 60) with (2 ^ 60) by (unfold shl64; rewrite B_val; reflexivity).
    set (v2 := wrap (shl64 v1 13 + shr64 (wrap (v1 * wrap (2 ^ 60 - wrap (v1 * d40)))) 47)).
    set (e := wrap (Z.land (shr64 v2 1) (wrap (0 - Z.land d 1)) - wrap (v2 * shr64 (wrap (d + 1)) 1))).
    rewrite g_mul_hi_eq by (apply inW_wrap). cbn [obind].
    set (v3 := wrap (shr64 (mul_hi v2 e) 1 + shl64 v2 31)).
    rewrite g_muladd_hi_eq by (try apply inW_wrap; assumption). cbn [obind]. reflexivity.
Qed.

Lemma hi128_inW d : 0 <= d < BB -> inW (hi128 d).
Proof. intros H. unfold inW, hi128. rewrite BB_sq in H. pose proof B_pos. zdm. nia. Qed.

Lemma mul_inW_BB a b : inW a -> inW b -> 0 <= a * b < BB.
Proof. intros Ha Hb. pose proof (mul_lt_BB a b Ha Hb). rewrite BB_sq. pose proof B_pos. nia. Qed.

Lemma lo128_inW x : inW (lo128 x).
Proof. apply inW_wrap. Qed.

Lemma reciprocal_mg10_inW d v : reciprocal_mg10 d = Val v -> inW v.
Proof.
  unfold reciprocal_mg10. destruct (d <? 2 ^ 63); [discriminate|]. intros H. injection H as <-.
  unfold recip_v4. apply inW_wrap.
Qed.

(* generated shape of `(u128::from(p) << 64) | u128::from(t0)` *)
Lemma lor_join p t0 : inW p -> inW t0 -> Z.lor (shl128 p 64) t0 = join p t0.
Proof. intros Hp Ht. change (Z.lor (shl128 p 64) t0) with (g_dw_join p t0). apply g_dw_join_eq; assumption. Qed.

Lemma g_reciprocal_2_mg10_eq d : 0 <= d < BB -> g_reciprocal_2_mg10 d = reciprocal_2_mg10 d.
Proof.
  intros Hd. unfold g_reciprocal_2_mg10, reciprocal_2_mg10.
  change 170141183460469231731687303715884105728 with (2 ^ 127).
  destruct (d <? 2 ^ 127) eqn:E.
  - assert (E' : (2 ^ 127 <=? d) = false) by lia. rewrite E'. reflexivity.
  - assert (E' : (2 ^ 127 <=? d) = true) by lia. rewrite E'. cbn [negb].
    change (wrap (shr128 d 64)) with (g_dw_high d). rewrite g_dw_high_eq by assumption.
    rewrite g_reciprocal_mg10_eq by (apply hi128_inW; assumption).
    destruct (reciprocal_mg10 (hi128 d)) as [v| | | |] eqn:Er; cbn [obind]; try reflexivity.
    apply reciprocal_mg10_inW in Er.
    unfold recip2_body. change (wrap d) with (lo128 d). cbv zeta.
    set (d1 := hi128 d). set (d0 := lo128 d).
    assert (Hd0 : inW d0) by apply lo128_inW.
    set (p := wrap (wrap (d1 * v) + d0)).
    assert (tail : forall v p, inW v -> inW p ->
      (do t_4 <- chk128 (v * d0) ;
       do v0 <- (if wrap (p + wrap (shr128 t_4 64)) <? wrap (shr128 t_4 64)
                 then do v1 <- (if d <=? Z.lor (shl128 (wrap (p + wrap (shr128 t_4 64))) 64) (wrap t_4)
                                then Val (wrap (wrap (v - 1) - 1)) else Val (wrap (v - 1))) ; Val v1
                 else Val v) ; Val v0)
      = Val (if wrap (p + hi128 (v * d0)) <? hi128 (v * d0)
             then if d <=? join (wrap (p + hi128 (v * d0))) (lo128 (v * d0)) then wrap (wrap (v - 1) - 1) else wrap (v - 1)
             else v)).
    { intros v' p' Hv Hp. pose proof (mul_inW_BB v' d0 Hv Hd0) as Hm.
      rewrite chk128_ok by assumption. cbn [obind].
      change (wrap (shr128 (v' * d0) 64)) with (g_dw_high (v' * d0)). rewrite g_dw_high_eq by assumption.
      change (wrap (v' * d0)) with (lo128 (v' * d0)).
      rewrite lor_join by (try apply inW_wrap; apply lo128_inW).
      destruct (wrap (p' + hi128 (v' * d0)) <? hi128 (v' * d0)); cbn [obind]; [|reflexivity].
      destruct (d <=? join (wrap (p' + hi128 (v' * d0))) (lo128 (v' * d0))); reflexivity. }
    destruct (p <? d0) eqn:E1; cbn [obind].
    + destruct (d1 <=? p) eqn:E2; cbn [obind]; apply tail; apply inW_wrap.
    + apply tail; [assumption | apply inW_wrap].
Qed.

Lemma g_div_2x1_mg10_eq u d v :
  0 <= u < BB -> inW d -> inW v -> g_div_2x1_mg10 u d v = div_2x1_mg10 u d v.
Proof.
  intros Hu Hd Hv. unfold g_div_2x1_mg10, div_2x1_mg10.
  change 9223372036854775808 with (2 ^ 63).
  change (shr128 u 64) with (u / 2 ^ 64). rewrite <- B_pow. fold (hi128 u).
  destruct (d <? 2 ^ 63) eqn:E.
  { assert (E' : (2 ^ 63 <=? d) = false) by lia. rewrite E'. reflexivity. }
  assert (E' : (2 ^ 63 <=? d) = true) by lia. rewrite E'. cbn [negb].
  destruct (hi128 u <? d) eqn:E2; cbn [negb]; [|reflexivity].
  rewrite g_reciprocal_mg10_eq by assumption.
  destruct (reciprocal_mg10 d) as [rv| | | |]; cbn [obind]; try reflexivity.
  destruct (v =? rv) eqn:E3; cbn [negb]; [|reflexivity].
  unfold div_2x1_body.
  assert (Hh : inW (hi128 u)) by (apply hi128_inW; assumption).
  rewrite chk128_ok by (apply mul_inW_BB; assumption). cbn [obind].
  unfold chk128.
  assert (H0 : (0 <=? u + hi128 u * v) = true).
  { pose proof (mul_inW_BB _ _ Hh Hv). lia. }
  rewrite H0. cbn [andb].
  destruct (BB <=? u + hi128 u * v) eqn:E4.
  { assert (E5 : (u + hi128 u * v <? BB) = false) by lia. rewrite E5. reflexivity. }
  assert (E5 : (u + hi128 u * v <? BB) = true) by lia. rewrite E5. cbn [obind].
  set (q := u + hi128 u * v).
  assert (Hq : 0 <= q < BB) by (unfold q; pose proof (mul_inW_BB _ _ Hh Hv); lia).
  change (wrap (shr128 q 64)) with (g_dw_high q). rewrite g_dw_high_eq by assumption.
  change (wrap q) with (lo128 q). change (wrap u) with (lo128 u).
  destruct (lo128 q <? wrap (lo128 u - wrap (wrap (hi128 q + 1) * d))); cbn [obind];
  match goal with |- context [if ?c then _ else _] => destruct c end; reflexivity.
Qed.

Lemma wrap128_range x : 0 <= wrap128 x < BB.
Proof. unfold wrap128. apply Z.mod_pos_bound. rewrite BB_val. lia. Qed.

Lemma g_div_3x2_mg10_eq u21 u0 d v :
  0 <= u21 < BB -> inW u0 -> 0 <= d < BB -> inW v ->
  g_div_3x2_mg10 u21 u0 d v = div_3x2_mg10 u21 u0 d v.
Proof.
  intros Hu Hu0 Hd Hv. unfold g_div_3x2_mg10, div_3x2_mg10.
  change 170141183460469231731687303715884105728 with (2 ^ 127).
  destruct (d <? 2 ^ 127) eqn:E.
  { assert (E' : (2 ^ 127 <=? d) = false) by lia. rewrite E'. reflexivity. }
  assert (E' : (2 ^ 127 <=? d) = true) by lia. rewrite E'. cbn [negb].
  destruct (u21 <? d) eqn:E2; cbn [negb]; [|reflexivity].
  rewrite g_reciprocal_2_mg10_eq by assumption.
  destruct (reciprocal_2_mg10 d) as [rv| | | |]; cbn [obind]; try reflexivity.
  destruct (v =? rv) eqn:E3; cbn [negb]; [|reflexivity].
  unfold div_3x2_body.
  change g_dw_low with lo128. rewrite (g_dw_high_eq u21), (g_dw_high_eq d) by assumption.
  assert (Hh : inW (hi128 u21)) by (apply hi128_inW; assumption).
  rewrite g_dw_mul_eq by assumption. cbn [obind].
  pose proof (mul_inW_BB _ _ Hh Hv) as Hm.
  unfold chk128.
  assert (H0 : (0 <=? hi128 u21 * v + u21) = true) by lia.
  rewrite H0. cbn [andb].
  destruct (BB <=? hi128 u21 * v + u21) eqn:E4.
  { assert (E5 : (hi128 u21 * v + u21 <? BB) = false) by lia. rewrite E5. reflexivity. }
  assert (E5 : (hi128 u21 * v + u21 <? BB) = true) by lia. rewrite E5. cbn [obind].
  set (q := hi128 u21 * v + u21).
  assert (Hq : 0 <= q < BB) by (unfold q; lia).
  rewrite !(g_dw_high_eq q) by assumption.
  rewrite g_dw_mul_eq by (try apply lo128_inW; apply hi128_inW; assumption). cbn [obind].
  rewrite g_dw_join_eq by (try apply inW_wrap; assumption).
  set (r := wrap128 (wrap128 (join (wrap (lo128 u21 - wrap (hi128 q * hi128 d))) u0 - lo128 d * hi128 q) - d)).
  rewrite (g_dw_high_eq r) by apply wrap128_range.
  destruct (lo128 q <=? hi128 r); cbn [obind];
  match goal with |- context [if ?c then _ else _] => destruct c end; reflexivity.
Qed.

(* ---------------- algorithms/mul.rs: unrolled addmul_1..4 ---------------- *)
Lemma mac_inW lhs a b c : inW (fst (mac lhs a b c)).
Proof. unfold mac. cbn [fst]. unfold lo. apply (inW_wrap (muladd2 a b c lhs)). Qed.
Lemma mac_inW2 lhs a b c : inW lhs -> inW a -> inW b -> inW c -> inW (snd (mac lhs a b c)).
Proof.
  intros Hl Ha Hb Hc. unfold mac. cbn [snd]. unfold hi. apply (inW_wrap (muladd2 a b c lhs / B)).
Qed.
Lemma inW_0 : inW 0. Proof. unfold inW. pose proof B_pos. lia. Qed.

Local Ltac lens :=
  unfold lenZ; cbn [length];
  repeat match goal with |- context [Z.of_nat ?n] =>
    let v := eval vm_compute in (Z.of_nat n) in change (Z.of_nat n) with v end;
  cbn [Z.eqb Pos.eqb negb].
Local Ltac inw := first [assumption | apply inW_0 | apply mac_inW | apply mac_inW2; first [assumption | apply inW_0 | apply mac_inW]].
Local Ltac norm :=
  unfold idx, upd;
  repeat match goal with
         | |- context [Z.to_nat ?z] => let v := eval vm_compute in (Z.to_nat z) in change (Z.to_nat z) with v
         | |- context [Pos.to_nat ?z] => let v := eval vm_compute in (Pos.to_nat z) in change (Pos.to_nat z) with v
         end;
  cbn [obind nth_error firstn skipn app fst snd].
Local Ltac macstep :=
  norm;
  match goal with |- context [g_mac ?a ?b ?c ?d] => rewrite (g_mac_eq a b c d) by inw end;
  norm.

Local Ltac macd :=
  match goal with |- context [mac ?a ?b ?c ?d] =>
    let H1 := fresh "Hm" in let H2 := fresh "Hc" in
    assert (H1 : inW (fst (mac a b c d))) by apply mac_inW;
    assert (H2 : inW (snd (mac a b c d))) by (apply mac_inW2; inw);
    destruct (mac a b c d); cbn [fst snd] in *
  end.

Lemma g_addmul_1_eq l0 a0 b0 : inW l0 -> inW a0 -> inW b0 ->
  g_addmul_1 [l0] [a0] [b0] = Val (addmul_1 [l0] [a0] [b0]).
Proof. intros. unfold g_addmul_1, addmul_1. lens. repeat (macstep; macd). reflexivity. Qed.

Lemma g_addmul_2_eq l0 l1 a0 a1 b0 b1 :
  inW l0 -> inW l1 -> inW a0 -> inW a1 -> inW b0 -> inW b1 ->
  g_addmul_2 [l0; l1] [a0; a1] [b0; b1] = Val (addmul_2 [l0; l1] [a0; a1] [b0; b1]).
Proof. intros. unfold g_addmul_2, addmul_2. lens. repeat (macstep; macd). reflexivity. Qed.

Lemma g_addmul_3_eq l0 l1 l2 a0 a1 a2 b0 b1 b2 :
  inW l0 -> inW l1 -> inW l2 -> inW a0 -> inW a1 -> inW a2 -> inW b0 -> inW b1 -> inW b2 ->
  g_addmul_3 [l0; l1; l2] [a0; a1; a2] [b0; b1; b2] = Val (addmul_3 [l0; l1; l2] [a0; a1; a2] [b0; b1; b2]).
Proof. intros. unfold g_addmul_3, addmul_3. lens. repeat (macstep; macd). reflexivity. Qed.

Lemma g_addmul_4_eq l0 l1 l2 l3 a0 a1 a2 a3 b0 b1 b2 b3 :
  inW l0 -> inW l1 -> inW l2 -> inW l3 -> inW a0 -> inW a1 -> inW a2 -> inW a3 ->
  inW b0 -> inW b1 -> inW b2 -> inW b3 ->
  g_addmul_4 [l0; l1; l2; l3] [a0; a1; a2; a3] [b0; b1; b2; b3]
  = Val (addmul_4 [l0; l1; l2; l3] [a0; a1; a2; a3] [b0; b1; b2; b3]).
Proof. intros. unfold g_addmul_4, addmul_4. lens. repeat (macstep; macd). reflexivity. Qed.
