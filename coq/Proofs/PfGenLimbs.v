(* Proofs/PfGenLimbs.v — source tie for the limb-slice kernels with loops: the definitions that
   tools_rs2v.py generates from the current text of adc_n, sbb_n (algorithms/add.rs), mul_nx1,
   addmul_nx1, submul_nx1 (algorithms/mul.rs) and shift_left_small (algorithms/shift.rs) equal
   the structural recursions of Model/Limbs.v on all word lists.
   The generated code is an indexed loop (`for_range` over `idx`/`upd`); `idx_loop` shows that
   such a loop, when its body touches only position i, is a structural recursion over the list. *)
From Coq Require Import ZArith List Bool Lia.
From RV.Model Require Import Base Word Limbs DivRecip.
From RV.Gen Require Import Prim Scalar.
From RV.Proofs Require Import BaseFacts PfLimbs PfGenScalar PfGenAdd.
Import ListNotations.
Local Open Scope Z_scope.

(* ---------- an indexed loop that touches only position i is a structural recursion ---------- *)
Section IdxLoop.
  Variables T St : Type.
  Variable inj : list Z -> St -> T.               (* how the loop state packs the list and the rest *)
  Variable stepf : nat -> Z -> St -> Z * St.      (* what the body does at index k to element x *)
  Variable P : St -> Prop.                       (* invariant of the scalar part *)
  Variable Q : Z -> Prop.                        (* what is known of the untouched elements *)
  Variable n : nat.                              (* the body is only characterised below n *)
  Variable body : Z -> T -> outcome T.

  Fixpoint iloop (k : nat) (l : list Z) (s : St) : list Z * St :=
    match l with
    | [] => ([], s)
    | x :: t => let '(r, s1) := stepf k x s in let '(rs, s2) := iloop (S k) t s1 in (r :: rs, s2)
    end.

  Hypothesis Hbody : forall pre x post s, (length pre < n)%nat -> P s -> Q x ->
    body (Z.of_nat (length pre)) (inj (pre ++ x :: post) s)
    = Val (inj (pre ++ fst (stepf (length pre) x s) :: post) (snd (stepf (length pre) x s)))
    /\ P (snd (stepf (length pre) x s)).

  Lemma idx_loop l : forall pre s, (length pre + length l <= n)%nat -> P s -> Forall Q l ->
    for_loop (length l) (Z.of_nat (length pre)) (inj (pre ++ l) s) body
    = Val (inj (pre ++ fst (iloop (length pre) l s)) (snd (iloop (length pre) l s)))
    /\ P (snd (iloop (length pre) l s)).
  Proof.
    induction l as [|x l IH]; intros pre s Hn Hs Hq.
    - cbn [length for_loop iloop fst snd]. split; [reflexivity | exact Hs].
    - inversion Hq as [|? ? Hx Hq']; subst. cbn [length] in Hn.
      destruct (Hbody pre x l s ltac:(lia) Hs Hx) as [Eb Hs1].
      cbn [length for_loop iloop]. rewrite Eb. cbn [obind].
      destruct (stepf (length pre) x s) as [r s1] eqn:Es. cbn [fst snd] in *.
      replace (pre ++ r :: l) with ((pre ++ [r]) ++ l) by (rewrite <- app_assoc; reflexivity).
      replace (Z.of_nat (length pre) + 1) with (Z.of_nat (length (pre ++ [r])))
        by (rewrite app_length; cbn [length]; lia).
      assert (Hlen : length (pre ++ [r]) = S (length pre)) by (rewrite app_length; cbn [length]; lia).
      destruct (IH (pre ++ [r]) s1 ltac:(lia) Hs1 Hq') as [E Hp]. rewrite E, Hlen in *.
      destruct (iloop (S (length pre)) l s1) as [rs s2]. cbn [fst snd] in *.
      rewrite <- app_assoc. split; [reflexivity | exact Hp].
  Qed.
End IdxLoop.

Lemma idx_nth l k : (k < length l)%nat -> idx l (Z.of_nat k) = Val (nth k l 0).
Proof.
  intros H. unfold idx. rewrite Nat2Z.id.
  destruct (nth_error l k) eqn:E.
  - rewrite (nth_error_nth l k 0 E). reflexivity.
  - apply nth_error_None in E. lia.
Qed.

Lemma skipn_nth_cons (a : list Z) k : (k < length a)%nat -> skipn k a = nth k a 0 :: skipn (S k) a.
Proof.
  revert k. induction a as [|y a IH]; intros k H; [cbn in H; lia|].
  destruct k; [reflexivity|]. cbn [skipn nth]. apply IH. cbn in H. lia.
Qed.

Lemma Forall_nth_inW a k : Forall inW a -> (k < length a)%nat -> inW (nth k a 0).
Proof. intros H Hk. rewrite Forall_forall in H. apply H, nth_In, Hk. Qed.

Lemma lenZ_nat {A} (l : list A) : Z.to_nat (lenZ l - 0) = length l.
Proof. unfold lenZ. lia. Qed.

Lemma lenZ_eqb {A C} (a : list A) (b : list C) : (lenZ a =? lenZ b) = Nat.eqb (length a) (length b).
Proof.
  unfold lenZ. destruct (Nat.eqb_spec (length a) (length b)); [apply Z.eqb_eq | apply Z.eqb_neq]; lia.
Qed.

(* ---------- adc_n / sbb_n ---------- *)
Definition adc_step (rhs : list Z) (k : nat) (x : Z) (c : Z) : Z * Z := adc x (nth k rhs 0) c.
Definition sbb_step (rhs : list Z) (k : nat) (x : Z) (c : Z) : Z * Z := sbb x (nth k rhs 0) c.

Lemma adc_n_iloop rhs l : forall k c, (k + length l <= length rhs)%nat ->
  adc_n l (skipn k rhs) c = Val (iloop Z (adc_step rhs) k l c).
Proof.
  induction l as [|x l IH]; intros k c H; [reflexivity|]. cbn [length] in H.
  rewrite skipn_nth_cons by lia. cbn [adc_n iloop].
  change (adc_step rhs k x c) with (adc x (nth k rhs 0) c).
  destruct (adc x (nth k rhs 0) c) as [r c1]. rewrite (IH (S k) c1) by lia.
  cbn [obind]. destruct (iloop Z (adc_step rhs) (S k) l c1). reflexivity.
Qed.

Lemma sbb_n_iloop rhs l : forall k c, (k + length l <= length rhs)%nat ->
  sbb_n l (skipn k rhs) c = Val (iloop Z (sbb_step rhs) k l c).
Proof.
  induction l as [|x l IH]; intros k c H; [reflexivity|]. cbn [length] in H.
  rewrite skipn_nth_cons by lia. cbn [sbb_n iloop].
  change (sbb_step rhs k x c) with (sbb x (nth k rhs 0) c).
  destruct (sbb x (nth k rhs 0) c) as [r c1]. rewrite (IH (S k) c1) by lia.
  cbn [obind]. destruct (iloop Z (sbb_step rhs) (S k) l c1). reflexivity.
Qed.

Lemma g_adc_n_eq lhs rhs c :
  Forall inW lhs -> Forall inW rhs -> inW c -> (length lhs <= length rhs)%nat ->
  g_adc_n lhs rhs c = omap (fun p => (snd p, fst p)) (adc_n lhs rhs c).
Proof.
  intros Hl Hr Hc Hlen. unfold g_adc_n, for_range. rewrite lenZ_nat.
  pose proof (idx_loop (list Z * Z) Z (fun l s => (l, s)) (adc_step rhs) inW inW (length rhs)
    (fun i t_6 => let '(lhs, carry) := t_6 in
       do t_2 <- idx lhs i ; do t_3 <- idx rhs i ; do t_4 <- g_adc t_2 t_3 carry ;
       let '(t_1, carry) := t_4 in do _ <- idx lhs i ; let lhs := upd lhs i t_1 in Val (lhs, carry))) as L.
  destruct (L ltac:(
    intros pre x post s Hk Hs Hx; cbv beta iota; rewrite ?idx_app_mid; cbn [obind];
    cbv beta iota; rewrite idx_nth by exact Hk; cbn [obind];
    pose proof (Forall_nth_inW rhs (length pre) Hr Hk) as Hy;
    rewrite g_adc_eq by assumption; cbn [obind]; unfold adc_step;
    pose proof (adc_spec x _ s Hx Hy Hs) as Ha;
    destruct (adc x (nth (length pre) rhs 0) s) as [r c1]; destruct Ha as (_ & Hc1 & _);
    cbv beta iota; rewrite ?idx_app_mid; cbn [obind fst snd]; rewrite upd_app_mid; split; [reflexivity | exact Hc1])
    lhs [] c ltac:(cbn [length]; lia) Hc Hl) as [E _].
  cbn [length app Z.of_nat] in E. rewrite E. cbn [obind].
  pose proof (adc_n_iloop rhs lhs 0%nat c ltac:(cbn; lia)) as E2. cbn [skipn] in E2. rewrite E2. cbn [omap obind]. reflexivity.
Qed.

Lemma sbb_inW x y c : inW x -> inW y -> inW c -> inW (snd (sbb x y c)).
Proof.
  intros Hx Hy Hc. pose proof (sbb_spec x y c Hx Hy Hc) as H.
  destruct (sbb x y c) as [r c1]. cbn [snd]. destruct H as (_ & H & _). unfold inW.
  rewrite B_val. lia.
Qed.

Lemma g_sbb_n_eq lhs rhs c :
  Forall inW lhs -> Forall inW rhs -> inW c -> (length lhs <= length rhs)%nat ->
  g_sbb_n lhs rhs c = omap (fun p => (snd p, fst p)) (sbb_n lhs rhs c).
Proof.
  intros Hl Hr Hc Hlen. unfold g_sbb_n, for_range. rewrite lenZ_nat.
  pose proof (idx_loop (list Z * Z) Z (fun l s => (l, s)) (sbb_step rhs) inW inW (length rhs)
    (fun i t_5 => let '(lhs, borrow) := t_5 in
       do t_2 <- idx lhs i ; do t_3 <- idx rhs i ;
       let '(t_1, borrow) := (g_sbb t_2 t_3 borrow) in
       do _ <- idx lhs i ; let lhs := upd lhs i t_1 in Val (lhs, borrow))) as L.
  destruct (L ltac:(
    intros pre x post s Hk Hs Hx; cbv beta iota; rewrite ?idx_app_mid; cbn [obind];
    cbv beta iota; rewrite idx_nth by exact Hk; cbn [obind];
    pose proof (Forall_nth_inW rhs (length pre) Hr Hk) as Hy;
    rewrite g_sbb_eq; unfold sbb_step;
    pose proof (sbb_inW x _ s Hx Hy Hs) as Hc1;
    destruct (sbb x (nth (length pre) rhs 0) s) as [r c1];
    cbv beta iota; rewrite ?idx_app_mid; cbn [obind fst snd] in *; rewrite upd_app_mid; split; [reflexivity | exact Hc1])
    lhs [] c ltac:(cbn [length]; lia) Hc Hl) as [E _].
  cbn [length app Z.of_nat] in E. rewrite E. cbn [obind].
  pose proof (sbb_n_iloop rhs lhs 0%nat c ltac:(cbn; lia)) as E2. cbn [skipn] in E2. rewrite E2. cbn [omap obind]. reflexivity.
Qed.

(* ---------- mul_nx1 ---------- *)
Definition mul_step (a : Z) (k : nat) (x : Z) (c : Z) : Z * Z :=
  (lo (muladd x a c), hi (muladd x a c)).

Lemma mul_nx1_iloop a l : forall k c,
  mul_nx1_loop l a c = iloop Z (mul_step a) k l c.
Proof.
  induction l as [|x l IH]; intros k c; [reflexivity|].
  cbn [mul_nx1_loop iloop]. unfold mul_step at 1. rewrite (IH (S k)). reflexivity.
Qed.

Lemma muladd_range x a c : inW x -> inW a -> inW c -> 0 <= muladd x a c < BB.
Proof. unfold inW, muladd. rewrite BB_sq. intros. nia. Qed.
Lemma muladd2_range x a c d : inW x -> inW a -> inW c -> inW d -> 0 <= muladd2 x a c d < BB.
Proof. unfold inW, muladd2. rewrite BB_sq. intros. nia. Qed.
Lemma hi_inW p : 0 <= p < BB -> inW (hi p).
Proof. intros H. unfold hi, inW. apply Z.mod_pos_bound, B_pos. Qed.
Lemma hi_hi128 p : 0 <= p < BB -> hi128 p = hi p.
Proof.
  intros H. unfold hi128, hi. symmetry. apply Z.mod_small.
  rewrite BB_sq in H. pose proof B_pos. split; [apply Z.div_pos; lia | apply Z.div_lt_upper_bound; lia].
Qed.

Lemma g_mul_nx1_eq lhs a :
  Forall inW lhs -> inW a -> g_mul_nx1 lhs a = Val (snd (mul_nx1 lhs a), fst (mul_nx1 lhs a)).
Proof.
  intros Hl Ha. unfold g_mul_nx1, for_range, mul_nx1. rewrite lenZ_nat.
  pose proof (idx_loop (list Z * Z) Z (fun l s => (l, s)) (mul_step a) inW inW (length lhs)
    (fun i_lhs t_5 => let '(lhs, carry) := t_5 in
       do t_2 <- idx lhs i_lhs ; do t_3 <- g_dw_muladd t_2 a carry ;
       let '(t_1, carry) := (g_dw_split t_3) in
       do _ <- idx lhs i_lhs ; let lhs := upd lhs i_lhs t_1 in Val (lhs, carry))) as L.
  destruct (L ltac:(
    intros pre x post s Hk Hs Hx; cbv beta iota; rewrite ?idx_app_mid; cbn [obind];
    rewrite g_dw_muladd_eq by assumption; cbn [obind];
    pose proof (muladd_range x a s Hx Ha Hs) as Hp;
    rewrite g_dw_split_eq by exact Hp; rewrite (hi_hi128 _ Hp);
    cbv beta iota; rewrite ?idx_app_mid; cbn [obind]; rewrite upd_app_mid; unfold mul_step; cbn [fst snd];
    split; [reflexivity | apply hi_inW; exact Hp])
    lhs [] 0 ltac:(cbn [length]; lia) ltac:(unfold inW; pose proof B_pos; lia) Hl) as [E _].
  cbn [length app Z.of_nat] in E. rewrite E. cbn [obind].
  rewrite (mul_nx1_iloop a lhs 0%nat 0). reflexivity.
Qed.

(* ---------- addmul_nx1 ---------- *)
Definition addmul_step (a : list Z) (b : Z) (k : nat) (x : Z) (c : Z) : Z * Z :=
  (lo (muladd2 (nth k a 0) b c x), hi (muladd2 (nth k a 0) b c x)).

Lemma addmul_nx1_iloop a b l : forall k c, (k + length l <= length a)%nat ->
  addmul_nx1_loop l (skipn k a) b c = iloop Z (addmul_step a b) k l c.
Proof.
  induction l as [|x l IH]; intros k c H.
  - cbn [addmul_nx1_loop iloop]. destruct (skipn k a); reflexivity.
  - cbn [length] in H. rewrite skipn_nth_cons by lia. cbn [addmul_nx1_loop iloop].
    unfold addmul_step at 1. rewrite (IH (S k)) by lia. reflexivity.
Qed.

Lemma g_addmul_nx1_eq lhs a b :
  Forall inW lhs -> Forall inW a -> inW b ->
  g_addmul_nx1 lhs a b = omap (fun p => (snd p, fst p)) (addmul_nx1 lhs a b).
Proof.
  intros Hl Ha Hb. unfold g_addmul_nx1, addmul_nx1. rewrite lenZ_eqb.
  destruct (Nat.eqb_spec (length lhs) (length a)) as [Hlen|Hlen]; cbn [negb]; [|reflexivity].
  unfold for_range. rewrite lenZ_nat, <- Hlen.
  pose proof (idx_loop (list Z * Z) Z (fun l s => (l, s)) (addmul_step a b) inW inW (length a)
    (fun i t_6 => let '(lhs, carry) := t_6 in
       do t_2 <- idx a i ; do t_3 <- idx lhs i ; do t_4 <- g_dw_muladd2 t_2 b carry t_3 ;
       let '(t_1, carry) := (g_dw_split t_4) in
       do _ <- idx lhs i ; let lhs := upd lhs i t_1 in Val (lhs, carry))) as L.
  destruct (L ltac:(
    intros pre x post s Hk Hs Hx; cbv beta iota; rewrite idx_nth by exact Hk; cbn [obind];
    cbv beta iota; rewrite ?idx_app_mid; cbn [obind];
    pose proof (Forall_nth_inW a (length pre) Ha Hk) as Hy;
    rewrite g_dw_muladd2_eq by assumption; cbn [obind];
    pose proof (muladd2_range _ b s x Hy Hb Hs Hx) as Hp;
    rewrite g_dw_split_eq by exact Hp; rewrite (hi_hi128 _ Hp);
    cbv beta iota; rewrite ?idx_app_mid; cbn [obind]; rewrite upd_app_mid; unfold addmul_step; cbn [fst snd];
    split; [reflexivity | apply hi_inW; exact Hp])
    lhs [] 0 ltac:(cbn [length]; lia) ltac:(unfold inW; pose proof B_pos; lia) Hl) as [E _].
  cbn [length app Z.of_nat] in E. rewrite E. cbn [obind omap].
  pose proof (addmul_nx1_iloop a b lhs 0%nat 0 ltac:(cbn; lia)) as E2. cbn [skipn] in E2. rewrite E2. reflexivity.
Qed.

(* ---------- submul_nx1 ---------- *)
Definition submul_step (a : list Z) (b : Z) (k : nat) (x : Z) (s : Z * Z) : Z * (Z * Z) :=
  let '(carry, borrow) := s in
  let p := muladd (nth k a 0) b carry in
  let '(r, bo) := sbb x (lo p) borrow in (r, (hi p, bo)).

Lemma submul_nx1_iloop a b l : forall k c bw, (k + length l <= length a)%nat ->
  submul_nx1_loop l (skipn k a) b c bw
  = (let '(rs, (c2, b2)) := iloop (Z * Z) (submul_step a b) k l (c, bw) in (rs, c2, b2)).
Proof.
  induction l as [|x l IH]; intros k c bw H.
  - cbn [submul_nx1_loop iloop]. destruct (skipn k a); reflexivity.
  - cbn [length] in H. rewrite skipn_nth_cons by lia. cbn [submul_nx1_loop iloop].
    change (submul_step a b k x (c, bw))
      with (let p := muladd (nth k a 0) b c in let '(r, bo) := sbb x (lo p) bw in (r, (hi p, bo))).
    cbv zeta. destruct (sbb x (lo (muladd (nth k a 0) b c)) bw) as [r bo].
    rewrite (IH (S k)) by lia.
    destruct (iloop (Z * Z) (submul_step a b) (S k) l (hi (muladd (nth k a 0) b c), bo)) as [rs [c2 b2]].
    reflexivity.
Qed.

Lemma lo_inW p : inW (lo p).
Proof. unfold lo, inW. apply Z.mod_pos_bound, B_pos. Qed.
Lemma lo_lo128 p : lo128 p = lo p. Proof. reflexivity. Qed.

Lemma g_submul_nx1_eq lhs a b :
  Forall inW lhs -> Forall inW a -> inW b ->
  g_submul_nx1 lhs a b = omap (fun p => (snd p, fst p)) (submul_nx1 lhs a b).
Proof.
  intros Hl Ha Hb. unfold g_submul_nx1, submul_nx1. rewrite lenZ_eqb.
  destruct (Nat.eqb_spec (length lhs) (length a)) as [Hlen|Hlen]; cbn [negb]; [|reflexivity].
  unfold for_range. rewrite lenZ_nat, <- Hlen.
  pose proof (idx_loop (Z * list Z * Z) (Z * Z) (fun l s => (fst s, l, snd s)) (submul_step a b)
    (fun s => inW (fst s) /\ inW (snd s)) inW (length a)
    (fun i t_6 => let '(carry, lhs, borrow) := t_6 in
       do t_1 <- idx a i ; do t_2 <- g_dw_muladd t_1 b carry ;
       let '(limb, carry) := (g_dw_split t_2) in
       do t_4 <- idx lhs i ; let '(t_3, borrow) := (g_sbb t_4 limb borrow) in
       do _ <- idx lhs i ; let lhs := upd lhs i t_3 in Val (carry, lhs, borrow))) as L.
  destruct (L ltac:(
    intros pre x post [c0 b0] Hk [Hs1 Hs2] Hx; cbn [fst snd] in *; cbv beta iota;
    cbv beta iota; rewrite idx_nth by exact Hk; cbn [obind];
    pose proof (Forall_nth_inW a (length pre) Ha Hk) as Hy;
    rewrite g_dw_muladd_eq by assumption; cbn [obind];
    pose proof (muladd_range _ b c0 Hy Hb Hs1) as Hp;
    rewrite g_dw_split_eq by exact Hp; rewrite (hi_hi128 _ Hp), lo_lo128;
    cbv beta iota; rewrite ?idx_app_mid; cbn [obind]; rewrite g_sbb_eq; unfold submul_step;
    pose proof (sbb_inW x _ b0 Hx (lo_inW (muladd (nth (length pre) a 0) b c0)) Hs2) as Hbo;
    destruct (sbb x (lo (muladd (nth (length pre) a 0) b c0)) b0) as [r bo];
    cbv beta iota; rewrite ?idx_app_mid; cbn [obind fst snd] in *; rewrite upd_app_mid;
    split; [reflexivity | split; [apply hi_inW; exact Hp | exact Hbo]])
    lhs [] (0, 0) ltac:(cbn [length]; lia)
    ltac:(cbn [fst snd]; unfold inW; pose proof B_pos; lia) Hl) as [E [Hc Hbw]].
  cbn [length app Z.of_nat fst snd] in E, Hc, Hbw. rewrite E. cbn [obind].
  pose proof (submul_nx1_iloop a b lhs 0%nat 0 0 ltac:(cbn; lia)) as E2. cbn [skipn] in E2. rewrite E2.
  destruct (iloop (Z * Z) (submul_step a b) 0 lhs (0, 0)) as [rs [c2 b2]]. cbn [fst snd] in *.
  unfold chk64. unfold inW in Hc, Hbw.
  destruct (Z.leb_spec 0 (b2 + c2)); [|lia]. cbn [andb].
  destruct (b2 + c2 <? B); reflexivity.
Qed.

(* ---------- shift_left_small ---------- *)
Definition shl_step (amount : Z) (k : nat) (x : Z) (ov : Z) : Z * Z :=
  (Z.lor (shl64 x amount) ov, shr64 (shr64 x 1) (63 - amount)).

Lemma shift_left_iloop amount l : forall k ov,
  shift_left_small_loop l amount ov = iloop Z (shl_step amount) k l ov.
Proof.
  induction l as [|x l IH]; intros k ov; [reflexivity|].
  cbn [shift_left_small_loop iloop]. unfold shl_step at 1. rewrite (IH (S k)). reflexivity.
Qed.

Lemma g_shift_left_small_eq limbs amount :
  0 <= amount ->
  g_shift_left_small limbs amount = omap (fun p => (snd p, fst p)) (shift_left_small limbs amount).
Proof.
  intros Ham. unfold g_shift_left_small, shift_left_small.
  destruct (Z.ltb_spec amount 64) as [Hlt|Hge]; cbn [negb]; [|reflexivity].
  unfold for_range. rewrite lenZ_nat.
  pose proof (idx_loop (Z * list Z) Z (fun l s => (s, l)) (shl_step amount) (fun _ => True)
    (fun _ => True) (length limbs)
    (fun i_limb t_8 => let '(overflow, limbs) := t_8 in
       do t_1 <- idx limbs i_limb ; do t_2 <- chksh 64 amount ;
       let value := (Z.lor ((shl64 t_1 t_2)) overflow) in
       do t_3 <- idx limbs i_limb ; do t_4 <- chk64 (63 - amount) ; do t_5 <- chksh 64 t_4 ;
       let overflow := (shr64 ((shr64 t_3 1)) t_5) in
       let t_6 := value in do _ <- idx limbs i_limb ; let limbs := upd limbs i_limb t_6 in
       Val (overflow, limbs))) as L.
  destruct (L ltac:(
    intros pre x post s Hk _ _; cbv beta iota; rewrite ?idx_app_mid; cbn [obind];
    unfold chksh, chk64;
    replace ((0 <=? amount) && (amount <? 64)) with true by lia; cbn [obind];
    replace ((0 <=? 63 - amount) && (63 - amount <? B)) with true by (rewrite B_val; lia); cbn [obind];
    replace ((0 <=? 63 - amount) && (63 - amount <? 64)) with true by lia; cbn [obind];
    cbv beta iota; rewrite ?idx_app_mid; cbn [obind]; rewrite upd_app_mid; unfold shl_step; cbn [fst snd];
    split; [reflexivity | exact I])
    limbs [] 0 ltac:(cbn [length]; lia) I ltac:(apply Forall_forall; intros; exact I)) as [E _].
  cbn [length app Z.of_nat] in E. rewrite E. cbn [obind omap].
  rewrite (shift_left_iloop amount limbs 0%nat 0). reflexivity.
Qed.

(* ---------- reverse loops: `for x in xs.iter_mut().rev()` = recursion over the reversed list ---------- *)
Section RevLoop.
  Variables T St : Type.
  Variable inj : list Z -> St -> T.
  Variable stepo : Z -> St -> outcome (Z * St).  (* what the body does to element x (may panic) *)
  Variable P : St -> Prop.
  Variable Q : Z -> Prop.
  Variable body : Z -> T -> outcome T.

  Fixpoint rloop (l : list Z) (s : St) : outcome (list Z * St) :=
    match l with
    | [] => Val ([], s)
    | x :: t => do rs <- stepo x s ; do p <- rloop t (snd rs) ; Val (fst rs :: fst p, snd p)
    end.

  Hypothesis Hbody : forall pre x post s, P s -> Q x ->
    body (Z.of_nat (length pre)) (inj (pre ++ x :: post) s)
    = (do rs <- stepo x s ; Val (inj (pre ++ fst rs :: post) (snd rs)))
    /\ (forall r s', stepo x s = Val (r, s') -> P s').

  Lemma idx_loop_rev l : forall post s, P s -> Forall Q l ->
    for_down (length l) (inj (l ++ post) s) body
    = (do p <- rloop (rev l) s ; Val (inj (rev (fst p) ++ post) (snd p))).
  Proof.
    induction l as [|x l IH] using rev_ind; intros post s Hs Hq.
    - reflexivity.
    - apply Forall_app in Hq. destruct Hq as [Hq Hx]. inversion Hx as [|? ? Hx' _]; subst.
      rewrite app_length. cbn [length]. rewrite Nat.add_1_r. cbn [for_down].
      rewrite <- app_assoc. cbn [app].
      destruct (Hbody l x post s Hs Hx') as [Eb Hp]. rewrite Eb.
      rewrite rev_app_distr. cbn [rev app rloop].
      destruct (stepo x s) as [[r s1]| | | |] eqn:Es; cbn [obind fst snd]; try reflexivity.
      rewrite (IH (r :: post) s1 (Hp r s1 eq_refl) Hq).
      destruct (rloop (rev l) s1) as [[rs s2]| | | |]; cbn [obind fst snd rev]; try reflexivity.
      rewrite <- app_assoc. reflexivity.
  Qed.
End RevLoop.

(* ---------- shift_right_small ---------- *)
Definition shr_stepo (amount : Z) (x : Z) (ov : Z) : outcome (Z * Z) :=
  Val (Z.lor (shr64 x amount) ov, shl64 (shl64 x 1) (63 - amount)).

Lemma shift_right_rloop amount l : forall ov,
  rloop Z (shr_stepo amount) l ov = Val (shift_right_small_loop l amount ov).
Proof.
  induction l as [|x l IH]; intros ov; [reflexivity|].
  cbn [rloop shift_right_small_loop]. unfold shr_stepo at 1. cbn [obind fst snd]. rewrite IH.
  cbn [obind]. destruct (shift_right_small_loop l amount (shl64 (shl64 x 1) (63 - amount))). reflexivity.
Qed.

Lemma g_shift_right_small_eq limbs amount :
  0 <= amount ->
  g_shift_right_small limbs amount
  = omap (fun p => (snd p, fst p)) (shift_right_small limbs amount).
Proof.
  intros Ham. unfold g_shift_right_small, shift_right_small.
  destruct (Z.ltb_spec amount 64) as [Hlt|Hge]; cbn [negb]; [|reflexivity].
  unfold lenZ. rewrite Nat2Z.id.
  pose proof (idx_loop_rev (Z * list Z) Z (fun l s => (s, l)) (shr_stepo amount) (fun _ => True)
    (fun _ => True)
    (fun i_limb t_8 => let '(overflow, limbs) := t_8 in
       do t_1 <- idx limbs i_limb ; do t_2 <- chksh 64 amount ;
       let value := (Z.lor ((shr64 t_1 t_2)) overflow) in
       do t_3 <- idx limbs i_limb ; do t_4 <- chk64 (63 - amount) ; do t_5 <- chksh 64 t_4 ;
       let overflow := (shl64 ((shl64 t_3 1)) t_5) in
       let t_6 := value in do _ <- idx limbs i_limb ; let limbs := upd limbs i_limb t_6 in
       Val (overflow, limbs))) as L.
  pose proof (L ltac:(
    intros pre x post s _ _; cbv beta iota; rewrite ?idx_app_mid; cbn [obind];
    unfold chksh, chk64;
    replace ((0 <=? amount) && (amount <? 64)) with true by lia; cbn [obind];
    replace ((0 <=? 63 - amount) && (63 - amount <? B)) with true by (rewrite B_val; lia); cbn [obind];
    replace ((0 <=? 63 - amount) && (63 - amount <? 64)) with true by lia; cbn [obind];
    cbv beta iota; rewrite ?idx_app_mid; cbn [obind]; rewrite upd_app_mid; unfold shr_stepo; cbn [obind fst snd];
    split; [reflexivity | intros; exact I])
    limbs [] 0 I ltac:(apply Forall_forall; intros; exact I)) as E.
  rewrite app_nil_r in E. cbv beta zeta in E |- *. rewrite E. rewrite shift_right_rloop. cbn [obind].
  destruct (shift_right_small_loop (rev limbs) amount 0) as [r o]. cbn [fst snd omap obind].
  rewrite app_nil_r. reflexivity.
Qed.

(* ---------- div_nx1_normalized / div_nx2_normalized (algorithms/div/small.rs) ---------- *)
From RV.Model Require DivSmall.
From RV.Proofs Require PfDivBase PfDivSmall.

Lemma div_2x1_mg10_range u d v q r : DivSmall.div_2x1_mg10 u d v = Val (q, r) -> inW q /\ inW r.
Proof.
  unfold DivSmall.div_2x1_mg10. destruct (d <? 2 ^ 63); [discriminate|].
  destruct (negb (hi128 u <? d)); [discriminate|].
  destruct (reciprocal_mg10 d) as [rv| | | |]; cbn [obind]; try discriminate.
  destruct (negb (v =? rv)); [discriminate|]. unfold DivSmall.div_2x1_body.
  destruct (BB <=? u + hi128 u * v); [discriminate|].
  set (q1 := wrap (hi128 (u + hi128 u * v) + 1)).
  set (r0 := wrap (lo128 u - wrap (q1 * d))).
  destruct (lo128 (u + hi128 u * v) <? r0).
  - destruct (d <=? wrap (r0 + d)); intros E; injection E as <- <-; split; apply PfDivBase.wrap_range.
  - destruct (d <=? r0); intros E; injection E as <- <-; split; apply PfDivBase.wrap_range.
Qed.

Lemma wrap128_range' x : 0 <= wrap128 x < BB.
Proof. unfold wrap128. apply Z.mod_pos_bound. reflexivity. Qed.

Lemma div_3x2_mg10_range u21 u0 d v q r :
  DivSmall.div_3x2_mg10 u21 u0 d v = Val (q, r) -> inW q /\ 0 <= r < BB.
Proof.
  unfold DivSmall.div_3x2_mg10. destruct (d <? 2 ^ 127); [discriminate|].
  destruct (negb (u21 <? d)); [discriminate|].
  destruct (reciprocal_2_mg10 d) as [rv| | | |]; cbn [obind]; try discriminate.
  destruct (negb (v =? rv)); [discriminate|]. unfold DivSmall.div_3x2_body.
  destruct (BB <=? hi128 u21 * v + u21); [discriminate|].
  set (qq := hi128 u21 * v + u21).
  set (r0 := wrap128 (wrap128 (join (wrap (lo128 u21 - wrap (hi128 qq * hi128 d))) u0 - lo128 d * hi128 qq) - d)).
  destruct (lo128 qq <=? hi128 r0).
  - destruct (d <=? wrap128 (r0 + d)); intros E; injection E as <- <-;
      split; try apply PfDivBase.wrap_range; apply wrap128_range'.
  - destruct (d <=? r0); intros E; injection E as <- <-;
      split; try apply PfDivBase.wrap_range; apply wrap128_range'.
Qed.

Lemma reciprocal_mg10_inW d v : reciprocal_mg10 d = Val v -> inW v.
Proof.
  unfold reciprocal_mg10. destruct (d <? 2 ^ 63); [discriminate|].
  intros E. injection E as <-. apply PfDivBase.wrap_range.
Qed.

Lemma reciprocal_2_mg10_inW d v : reciprocal_2_mg10 d = Val v -> inW v.
Proof.
  unfold reciprocal_2_mg10. destruct (d <? 2 ^ 127); [discriminate|].
  destruct (reciprocal_mg10 (hi128 d)) as [v1| | | |] eqn:E1; cbn [obind]; try discriminate.
  apply reciprocal_mg10_inW in E1. intros E. injection E as <-. unfold recip2_body.
  repeat match goal with
  | |- context [if ?c then _ else _] => destruct c
  | |- inW (let '(_, _) := ?p in _) => destruct p
  end; cbv beta iota; try apply PfDivBase.wrap_range; try exact E1.
Qed.

Definition nx1_stepo (d v : Z) (x r : Z) : outcome (Z * Z) :=
  do qr <- DivSmall.div_2x1_mg10 (join r x) d v ; Val (fst qr, snd qr).
Definition nx2_stepo (d v : Z) (x r : Z) : outcome (Z * Z) :=
  do qr <- DivSmall.div_3x2_mg10 r x d v ; Val (fst qr, snd qr).

Lemma nx1_rloop d v l : forall r, rloop Z (nx1_stepo d v) l r = DivSmall.nx1_norm_loop l d v r.
Proof.
  induction l as [|x l IH]; intros r; [reflexivity|].
  cbn [rloop DivSmall.nx1_norm_loop]. unfold nx1_stepo at 1.
  destruct (DivSmall.div_2x1_mg10 (join r x) d v) as [[q r1]| | | |]; cbn [obind fst snd]; try reflexivity.
  rewrite IH. reflexivity.
Qed.
Lemma nx2_rloop d v l : forall r, rloop Z (nx2_stepo d v) l r = DivSmall.nx2_norm_loop l d v r.
Proof.
  induction l as [|x l IH]; intros r; [reflexivity|].
  cbn [rloop DivSmall.nx2_norm_loop]. unfold nx2_stepo at 1.
  destruct (DivSmall.div_3x2_mg10 r x d v) as [[q r1]| | | |]; cbn [obind fst snd]; try reflexivity.
  rewrite IH. reflexivity.
Qed.

Lemma join_range r x : inW r -> inW x -> 0 <= join r x < BB.
Proof. unfold inW, join. rewrite BB_sq. intros. nia. Qed.

Lemma g_div_nx1_normalized_eq u d :
  Forall inW u -> inW d ->
  g_div_nx1_normalized u d = omap (fun p => (snd p, fst p)) (DivSmall.div_nx1_normalized u d).
Proof.
  intros Hu Hd. unfold g_div_nx1_normalized, DivSmall.div_nx1_normalized.
  change 9223372036854775808 with (2 ^ 63).
  destruct (Z.ltb_spec d (2 ^ 63)) as [H|H].
  { destruct (Z.leb_spec (2 ^ 63) d); [lia | reflexivity]. }
  destruct (Z.leb_spec (2 ^ 63) d); [|lia]. cbn [negb].
  rewrite g_reciprocal_mg10_eq by exact Hd.
  destruct (reciprocal_mg10 d) as [v| | | |] eqn:Ev; cbn [obind omap]; try reflexivity.
  pose proof (reciprocal_mg10_inW d v Ev) as Hv.
  unfold lenZ. rewrite Nat2Z.id.
  pose proof (idx_loop_rev (list Z * Z) Z (fun l s => (l, s)) (nx1_stepo d v) inW inW
    (fun i_u t_6 => let '(u, r) := t_6 in
       do t_2 <- idx u i_u ; let n := (g_dw_join r t_2) in
       do t_3 <- g_div_2x1_mg10 n d v ; let '(q, r0) := t_3 in
       let t_4 := q in do _ <- idx u i_u ; let u := upd u i_u t_4 in
       let r := r0 in Val (u, r))) as L.
  pose proof (L ltac:(
    intros pre x post s Hs Hx; cbv beta iota zeta; rewrite ?idx_app_mid; cbn [obind];
    rewrite g_dw_join_eq by assumption;
    rewrite g_div_2x1_mg10_eq by (try apply join_range; assumption);
    unfold nx1_stepo;
    destruct (DivSmall.div_2x1_mg10 (join s x) d v) as [[q r1]| | | |] eqn:E2; cbn [obind fst snd];
    (split; [try reflexivity | intros r' s' E'; try discriminate]);
    [ cbv beta iota; rewrite ?idx_app_mid; cbn [obind]; rewrite upd_app_mid; reflexivity
    | injection E' as <- <-; apply (div_2x1_mg10_range _ _ _ _ _ E2) ])
    u [] 0 ltac:(unfold inW; pose proof B_pos; lia) Hu) as E.
  rewrite app_nil_r in E. cbv beta zeta in E |- *. rewrite E. rewrite nx1_rloop.
  destruct (DivSmall.nx1_norm_loop (rev u) d v 0) as [[rs r]| | | |]; cbn [obind fst snd]; try reflexivity.
  rewrite app_nil_r. reflexivity.
Qed.

Lemma g_div_nx2_normalized_eq u d :
  Forall inW u -> 0 <= d < BB ->
  g_div_nx2_normalized u d = omap (fun p => (snd p, fst p)) (DivSmall.div_nx2_normalized u d).
Proof.
  intros Hu Hd. unfold g_div_nx2_normalized, DivSmall.div_nx2_normalized.
  change 170141183460469231731687303715884105728 with (2 ^ 127).
  destruct (Z.ltb_spec d (2 ^ 127)) as [H|H].
  { destruct (Z.leb_spec (2 ^ 127) d); [lia | reflexivity]. }
  destruct (Z.leb_spec (2 ^ 127) d); [|lia]. cbn [negb].
  rewrite g_reciprocal_2_mg10_eq by exact Hd.
  destruct (reciprocal_2_mg10 d) as [v| | | |] eqn:Ev; cbn [obind omap]; try reflexivity.
  pose proof (reciprocal_2_mg10_inW d v Ev) as Hv.
  unfold lenZ. rewrite Nat2Z.id.
  pose proof (idx_loop_rev (list Z * Z) Z (fun l s => (l, s)) (nx2_stepo d v) (fun r => 0 <= r < BB) inW
    (fun i_u t_6 => let '(u, remainder) := t_6 in
       do t_2 <- idx u i_u ; do t_3 <- g_div_3x2_mg10 remainder t_2 d v ; let '(q, r) := t_3 in
       let t_4 := q in do _ <- idx u i_u ; let u := upd u i_u t_4 in
       let remainder := r in Val (u, remainder))) as L.
  pose proof (L ltac:(
    intros pre x post s Hs Hx; cbv beta iota zeta; rewrite ?idx_app_mid; cbn [obind];
    rewrite g_div_3x2_mg10_eq by assumption;
    unfold nx2_stepo;
    destruct (DivSmall.div_3x2_mg10 s x d v) as [[q r1]| | | |] eqn:E2; cbn [obind fst snd];
    (split; [try reflexivity | intros r' s' E'; try discriminate]);
    [ cbv beta iota; rewrite ?idx_app_mid; cbn [obind]; rewrite upd_app_mid; reflexivity
    | injection E' as <- <-; apply (div_3x2_mg10_range _ _ _ _ _ _ E2) ])
    u [] 0 ltac:(rewrite BB_val; lia) Hu) as E.
  rewrite app_nil_r in E. cbv beta zeta in E |- *. rewrite E. rewrite nx2_rloop.
  destruct (DivSmall.nx2_norm_loop (rev u) d v 0) as [[rs r]| | | |]; cbn [obind fst snd]; try reflexivity.
  rewrite app_nil_r. reflexivity.
Qed.

(* ---------- div_nx1 / div_nx2: downward loop reading xs[i] and xs[i-1], writing xs[i] ---------- *)
Section RevLoop2.
  Variables T St : Type.
  Variable inj : list Z -> St -> T.
  Variable stepo : Z -> Z -> St -> outcome (Z * St).   (* upper, lower (still original), state *)
  Variable P : St -> Prop.
  Variable Q : Z -> Prop.
  Variable n : nat.                                     (* the body is only characterised below n *)
  Variable body : Z -> T -> outcome T.

  (* on the reversed list: head = upper, next = lower; the last element (index 0) is not touched *)
  Fixpoint rloop2 (rl : list Z) (s : St) : outcome (list Z * St) :=
    match rl with
    | [] => Val ([], s)
    | upper :: t =>
        match t with
        | [] => Val ([upper], s)
        | lower :: _ =>
            do rs <- stepo upper lower s ; do p <- rloop2 t (snd rs) ; Val (fst rs :: fst p, snd p)
        end
    end.

  Lemma rloop2_cons2 u lo t s :
    rloop2 (u :: lo :: t) s
    = (do rs <- stepo u lo s ; do p <- rloop2 (lo :: t) (snd rs) ; Val (fst rs :: fst p, snd p)).
  Proof. reflexivity. Qed.

  Hypothesis Hbody : forall pre lower x post s, (length pre + 2 <= n)%nat -> P s -> Q lower -> Q x ->
    body (Z.of_nat (length pre)) (inj (pre ++ lower :: x :: post) s)
    = (do rs <- stepo x lower s ; Val (inj (pre ++ lower :: fst rs :: post) (snd rs)))
    /\ (forall r s', stepo x lower s = Val (r, s') -> P s').

  Lemma idx_loop_rev2 l : forall post s, (length l <= n)%nat -> P s -> Forall Q l ->
    for_down (length l - 1) (inj (l ++ post) s) body
    = (do p <- rloop2 (rev l) s ; Val (inj (rev (fst p) ++ post) (snd p))).
  Proof.
    induction l as [|x l IH] using rev_ind; intros post s Hn Hs Hq.
    - reflexivity.
    - apply Forall_app in Hq. destruct Hq as [Hq Hx]. inversion Hx as [|? ? Hx' _]; subst.
      rewrite app_length in Hn |- *. cbn [length] in Hn |- *. rewrite Nat.add_1_r, Nat.sub_succ, Nat.sub_0_r.
      rewrite rev_app_distr. cbn [rev app].
      destruct l as [|y l'] using rev_ind.
      + cbn [length for_down rev rloop2 obind fst snd app]. reflexivity.
      + clear IHl'. rewrite app_length in Hn |- *. cbn [length] in Hn |- *. rewrite Nat.add_1_r. cbn [for_down].
        apply Forall_app in Hq. destruct Hq as [Hq' Hy]. inversion Hy as [|? ? Hy' _]; subst.
        rewrite <- !app_assoc. cbn [app].
        destruct (Hbody l' y x post s ltac:(lia) Hs Hy' Hx') as [Eb Hp]. rewrite Eb.
        rewrite rev_app_distr. cbn [rev app]. rewrite rloop2_cons2.
        destruct (stepo x y s) as [[r s1]| | | |] eqn:Es; cbn [obind fst snd]; try reflexivity.
        specialize (IH (r :: post) s1 ltac:(rewrite app_length; cbn [length]; lia) (Hp r s1 eq_refl)
                      ltac:(apply Forall_app; split; [exact Hq' | exact Hy])).
        rewrite app_length in IH. cbn [length] in IH. rewrite Nat.add_1_r, Nat.sub_succ, Nat.sub_0_r in IH.
        rewrite <- app_assoc in IH. cbn [app] in IH. rewrite IH.
        rewrite rev_app_distr. cbn [rev app].
        destruct (rloop2 (y :: rev l') s1) as [[rs s2]| | | |]; cbn [obind fst snd rev]; try reflexivity.
        rewrite <- app_assoc. reflexivity.
  Qed.

  Lemma rloop2_length rl : forall s p, rloop2 rl s = Val p -> length (fst p) = length rl.
  Proof.
    induction rl as [|u t IH]; intros s p E.
    - cbn in E. inversion E; subst. reflexivity.
    - destruct t as [|lo t'].
      + cbn in E. inversion E; subst. reflexivity.
      + rewrite rloop2_cons2 in E.
        destruct (stepo u lo s) as [[r s1]| | | |]; cbn [obind fst snd] in E; try discriminate.
        destruct (rloop2 (lo :: t') s1) as [p'| | | |] eqn:E'; cbn [obind] in E; try discriminate.
        inversion E; subst. cbn [fst length]. f_equal. apply (IH s1 p' E').
  Qed.
  Lemma rloop2_inv rl : (forall u lo s r s', P s -> stepo u lo s = Val (r, s') -> P s') ->
    forall s p, P s -> rloop2 rl s = Val p -> P (snd p).
  Proof.
    intros Hstep. induction rl as [|u t IH]; intros s p Hs E.
    - cbn in E. inversion E; subst. exact Hs.
    - destruct t as [|lo t'].
      + cbn in E. inversion E; subst. exact Hs.
      + rewrite rloop2_cons2 in E.
        destruct (stepo u lo s) as [[r s1]| | | |] eqn:Es; cbn [obind fst snd] in E; try discriminate.
        destruct (rloop2 (lo :: t') s1) as [p'| | | |] eqn:E'; cbn [obind] in E; try discriminate.
        inversion E; subst. cbn [snd]. apply (IH s1 p' (Hstep _ _ _ _ _ Hs Es) E').
  Qed.
End RevLoop2.

Lemma rev_last_removelast (l : list Z) : l <> [] -> rev l = last l 0 :: rev (removelast l).
Proof.
  intros H. rewrite (app_removelast_last 0 H) at 1. rewrite rev_app_distr. reflexivity.
Qed.

Definition nx_u (shift upper lower : Z) : Z := Z.lor (shl64 upper shift) (shr64 lower (64 - shift)).
Definition nx1_step2 (shift d v : Z) (upper lower rem : Z) : outcome (Z * Z) :=
  do qr <- DivSmall.div_2x1_mg10 (join rem (nx_u shift upper lower)) d v ; Val (fst qr, snd qr).
Definition nx2_step2 (shift d v : Z) (upper lower rem : Z) : outcome (Z * Z) :=
  do qr <- DivSmall.div_3x2_mg10 rem (nx_u shift upper lower) d v ; Val (fst qr, snd qr).

Lemma nx1_loop_cons2 u lo t shift d v rem :
  DivSmall.nx1_loop (u :: lo :: t) shift d v rem
  = (do qr <- DivSmall.div_2x1_mg10 (join rem (nx_u shift u lo)) d v ;
     do p <- DivSmall.nx1_loop (lo :: t) shift d v (snd qr) ; Val (fst qr :: fst p, snd p)).
Proof. reflexivity. Qed.
Lemma nx2_loop_cons2 u lo t shift d v rem :
  DivSmall.nx2_loop (u :: lo :: t) shift d v rem
  = (do qr <- DivSmall.div_3x2_mg10 rem (nx_u shift u lo) d v ;
     do p <- DivSmall.nx2_loop (lo :: t) shift d v (snd qr) ; Val (fst qr :: fst p, snd p)).
Proof. reflexivity. Qed.

(* the model's loop = the downward loop followed by the separate last step on element 0 *)
Lemma nx1_loop_split shift d v rl : forall rem, rl <> [] ->
  DivSmall.nx1_loop rl shift d v rem
  = (do p <- rloop2 Z (nx1_step2 shift d v) rl rem ;
     do qr <- DivSmall.div_2x1_mg10 (join (snd p) (shl64 (last (fst p) 0) shift)) d v ;
     Val (removelast (fst p) ++ [fst qr], snd qr)).
Proof.
  induction rl as [|u t IH]; intros rem Hne; [congruence|].
  destruct t as [|lo t'].
  - cbn [DivSmall.nx1_loop rloop2 obind fst snd last removelast app]. reflexivity.
  - rewrite nx1_loop_cons2, rloop2_cons2. unfold nx1_step2 at 1.
    destruct (DivSmall.div_2x1_mg10 (join rem (nx_u shift u lo)) d v) as [[q r1]| | | |]; cbn [obind fst snd]; try reflexivity.
    rewrite (IH r1) by discriminate.
    destruct (rloop2 Z (nx1_step2 shift d v) (lo :: t') r1) as [[rs s2]| | | |] eqn:E; cbn [obind fst snd]; try reflexivity.
    pose proof (rloop2_length Z (nx1_step2 shift d v) _ _ _ E) as Hl. cbn [fst length] in Hl.
    destruct rs as [|r0 rs']; [discriminate|].
    change (last (q :: r0 :: rs') 0) with (last (r0 :: rs') 0).
    change (removelast (q :: r0 :: rs')) with (q :: removelast (r0 :: rs')).
    destruct (DivSmall.div_2x1_mg10 (join s2 (shl64 (last (r0 :: rs') 0) shift)) d v) as [[q2 r2]| | | |];
      cbn [obind fst snd]; reflexivity.
Qed.

Lemma nx2_loop_split shift d v rl : forall rem, rl <> [] ->
  DivSmall.nx2_loop rl shift d v rem
  = (do p <- rloop2 Z (nx2_step2 shift d v) rl rem ;
     do qr <- DivSmall.div_3x2_mg10 (snd p) (shl64 (last (fst p) 0) shift) d v ;
     Val (removelast (fst p) ++ [fst qr], snd qr)).
Proof.
  induction rl as [|u t IH]; intros rem Hne; [congruence|].
  destruct t as [|lo t'].
  - cbn [DivSmall.nx2_loop rloop2 obind fst snd last removelast app]. reflexivity.
  - rewrite nx2_loop_cons2, rloop2_cons2. unfold nx2_step2 at 1.
    destruct (DivSmall.div_3x2_mg10 rem (nx_u shift u lo) d v) as [[q r1]| | | |]; cbn [obind fst snd]; try reflexivity.
    rewrite (IH r1) by discriminate.
    destruct (rloop2 Z (nx2_step2 shift d v) (lo :: t') r1) as [[rs s2]| | | |] eqn:E; cbn [obind fst snd]; try reflexivity.
    pose proof (rloop2_length Z (nx2_step2 shift d v) _ _ _ E) as Hl. cbn [fst length] in Hl.
    destruct rs as [|r0 rs']; [discriminate|].
    change (last (q :: r0 :: rs') 0) with (last (r0 :: rs') 0).
    change (removelast (q :: r0 :: rs')) with (q :: removelast (r0 :: rs')).
    destruct (DivSmall.div_3x2_mg10 s2 (shl64 (last (r0 :: rs') 0) shift) d v) as [[q2 r2]| | | |];
      cbn [obind fst snd]; reflexivity.
Qed.

Lemma lor_inW a b : inW a -> inW b -> inW (Z.lor a b).
Proof.
  unfold inW. rewrite B_pow. intros Ha Hb. split; [apply Z.lor_nonneg; lia|].
  destruct (Z.eq_dec (Z.lor a b) 0) as [->|N]; [lia|].
  apply Z.log2_lt_pow2; [pose proof (proj2 (Z.lor_nonneg a b) (conj (proj1 Ha) (proj1 Hb))); lia|].
  rewrite Z.log2_lor by lia. apply Z.max_lub_lt.
  - destruct (Z.eq_dec a 0) as [->|]; [cbn; lia|]. apply Z.log2_lt_pow2; lia.
  - destruct (Z.eq_dec b 0) as [->|]; [cbn; lia|]. apply Z.log2_lt_pow2; lia.
Qed.
Lemma shl64_inW x s : inW (shl64 x s).
Proof. unfold shl64, inW. apply Z.mod_pos_bound, B_pos. Qed.
Lemma shr64_inW x s : inW x -> 0 <= s -> inW (shr64 x s).
Proof.
  unfold shr64, inW. intros Hx Hs. assert (0 < 2 ^ s) by (apply Z.pow_pos_nonneg; lia).
  split; [apply Z.div_pos; lia|]. apply Z.div_lt_upper_bound; [lia|]. nia.
Qed.
Lemma nx_u_inW shift u lo : inW lo -> 0 <= 64 - shift -> inW (nx_u shift u lo).
Proof. intros. unfold nx_u. apply lor_inW; [apply shl64_inW | apply shr64_inW; assumption]. Qed.

Lemma idx_app_mid2 pre lower x post :
  idx (pre ++ lower :: x :: post) (1 + Z.of_nat (length pre)) = Val x.
Proof.
  replace (pre ++ lower :: x :: post) with ((pre ++ [lower]) ++ x :: post) by (rewrite <- app_assoc; reflexivity).
  replace (1 + Z.of_nat (length pre)) with (Z.of_nat (length (pre ++ [lower])))
    by (rewrite app_length; cbn [length]; lia).
  apply idx_app_mid.
Qed.
Lemma upd_app_mid2 pre lower x post v :
  upd (pre ++ lower :: x :: post) (1 + Z.of_nat (length pre)) v = pre ++ lower :: v :: post.
Proof.
  replace (pre ++ lower :: x :: post) with ((pre ++ [lower]) ++ x :: post) by (rewrite <- app_assoc; reflexivity).
  replace (1 + Z.of_nat (length pre)) with (Z.of_nat (length (pre ++ [lower])))
    by (rewrite app_length; cbn [length]; lia).
  rewrite upd_app_mid. rewrite <- app_assoc. reflexivity.
Qed.

Lemma nth_error_last (l : list Z) : l <> [] ->
  nth_error l (Z.to_nat (lenZ l - 1)) = Some (last l 0).
Proof.
  intros H. rewrite (app_removelast_last 0 H) at 1 2. unfold lenZ.
  rewrite app_length. cbn [length].
  replace (Z.to_nat (Z.of_nat (length (removelast l) + 1) - 1)) with (length (removelast l)) by lia.
  rewrite nth_error_app2 by lia. rewrite Nat.sub_diag. reflexivity.
Qed.
Lemma idx_last (l : list Z) : l <> [] -> idx l (lenZ l - 1) = Val (last l 0).
Proof. intros H. unfold idx. rewrite nth_error_last by exact H. reflexivity. Qed.
Lemma idx_0_rev_last (l : list Z) post : l <> [] -> idx (rev l ++ post) 0 = Val (last l 0).
Proof. intros H. rewrite (rev_last_removelast l H). reflexivity. Qed.
Lemma upd_0_rev (l : list Z) post v : l <> [] ->
  upd (rev l ++ post) 0 v = rev (removelast l ++ [v]) ++ post.
Proof.
  intros H. rewrite (rev_last_removelast l H). rewrite rev_app_distr. reflexivity.
Qed.

Lemma idx_0_rev_last' (l : list Z) : l <> [] -> idx (rev l) 0 = Val (last l 0).
Proof. intros H. rewrite (rev_last_removelast l H). reflexivity. Qed.
Lemma upd_0_rev' (l : list Z) v : l <> [] -> upd (rev l) 0 v = rev (removelast l ++ [v]).
Proof. intros H. rewrite (rev_last_removelast l H). rewrite rev_app_distr. reflexivity. Qed.

Lemma chksh_ok w s : 0 <= s < w -> chksh w s = Val s.
Proof. intros H. unfold chksh. replace ((0 <=? s) && (s <? w)) with true by lia. reflexivity. Qed.

Lemma swap_bind {A C} (o : outcome (A * C)) :
  (do t <- omap (fun p => (snd p, fst p)) o ; let '(x, y) := t in Val (x, y))
  = omap (fun p => (snd p, fst p)) o.
Proof. destruct o as [[a c]| | | |]; reflexivity. Qed.

Lemma g_div_nx1_eq limbs divisor :
  Forall inW limbs -> inW divisor -> lenZ limbs < B ->
  g_div_nx1 limbs divisor = omap (fun p => (snd p, fst p)) (DivSmall.div_nx1 limbs divisor).
Proof.
  intros Hl Hd Hlen. unfold g_div_nx1, DivSmall.div_nx1.
  destruct (Z.eqb_spec divisor 0) as [E0|N0]; cbn [negb]; [reflexivity|].
  destruct limbs as [|l0 ls] eqn:El; [reflexivity|]. rewrite <- El in *.
  assert (Hne : limbs <> []) by (rewrite El; discriminate). clear El l0 ls.
  assert (E1 : (lenZ limbs =? 0) = false).
  { unfold lenZ. destruct limbs; [congruence | cbn [length]; lia]. }
  rewrite E1. cbn [negb].
  rewrite nth_error_last by exact Hne. cbn [obind].
  rewrite (rev_last_removelast limbs Hne).
  destruct (Z.eqb_spec (last limbs 0) 0) as [|Nl]; cbn [negb]; [reflexivity|].
  unfold inW in Hd. destruct (PfDivSmall.clz64_spec divisor ltac:(lia)) as [Hs Hnorm].
  set (shift := clz64 divisor) in *.
  destruct (Z.eqb_spec shift 0) as [Es|Ns].
  { rewrite g_div_nx1_normalized_eq by (auto; unfold inW; lia).
    destruct (DivSmall.div_nx1_normalized limbs divisor) as [[a c]| | | |]; reflexivity. }
  rewrite chksh_ok by lia. cbn [obind]. cbv zeta.
  rewrite g_reciprocal_mg10_eq by apply shl64_inW.
  destruct (reciprocal_mg10 (shl64 divisor shift)) as [v| | | |] eqn:Ev; cbn [obind omap]; try reflexivity.
  pose proof (reciprocal_mg10_inW _ _ Ev) as Hv.
  assert (Hlp : 0 < lenZ limbs) by (unfold lenZ; destruct limbs; [congruence | cbn [length]; lia]).
  rewrite chk64_ok by lia. cbn [obind]. rewrite idx_last by exact Hne. cbn [obind].
  rewrite chk64_ok by (rewrite B_val; lia). cbn [obind]. rewrite chksh_ok by lia. cbn [obind].
  assert (Hlast : inW (last limbs 0)).
  { rewrite Forall_forall in Hl. apply Hl. rewrite (app_removelast_last 0 Hne) at 2. apply in_or_app. right. left. reflexivity. }
  replace (Z.to_nat (lenZ limbs - 1)) with (length limbs - 1)%nat by (unfold lenZ; lia).
  cbv beta zeta.
  match goal with |- context [for_down _ _ ?bd] =>
    pose proof (idx_loop_rev2 (list Z * Z) Z (fun l s => (l, s)) (nx1_step2 shift (shl64 divisor shift) v)
                  inW inW (length limbs) bd) as L end.
  pose proof (L ltac:(
    intros pre lower x post s Hk Hs' Hlo Hx; cbv beta iota zeta;
    assert (Hpl : Z.of_nat (length pre) < B) by (unfold lenZ in Hlen; lia);
    rewrite chk64_ok by lia; cbn [obind];
    rewrite idx_app_mid2; cbn [obind]; rewrite ?chksh_ok by lia; cbn [obind];
    replace (1 + Z.of_nat (length pre) - 1) with (Z.of_nat (length pre)) by lia;
    rewrite idx_app_mid; cbn [obind];
    rewrite ?chksh_ok by lia; rewrite ?(chk64_ok (64 - shift)) by (rewrite B_val; lia); cbn [obind];
    rewrite ?chksh_ok by lia; cbn [obind];
    fold (nx_u shift x lower);
    pose proof (nx_u_inW shift x lower Hlo ltac:(lia)) as Hu;
    rewrite g_dw_join_eq by assumption;
    rewrite g_div_2x1_mg10_eq by (try apply join_range; try apply shl64_inW; assumption);
    unfold nx1_step2;
    destruct (DivSmall.div_2x1_mg10 (join s (nx_u shift x lower)) (shl64 divisor shift) v) as [[q r1]| | | |] eqn:E2;
      cbn [obind fst snd];
    (split; [try reflexivity | intros r' s' E'; try discriminate]);
    [ rewrite ?idx_app_mid2; cbn [obind]; rewrite upd_app_mid2; reflexivity
    | injection E' as <- <-; apply (div_2x1_mg10_range _ _ _ _ _ E2) ])
    limbs [] (shr64 (last limbs 0) (64 - shift)) (Nat.le_refl _)
    ltac:(apply shr64_inW; [exact Hlast | lia]) Hl) as E.
  rewrite app_nil_r in E. cbv beta in E. rewrite E. clear E L.
  rewrite (rev_last_removelast limbs Hne) at 1.
  rewrite nx1_loop_split by discriminate.
  destruct (rloop2 Z (nx1_step2 shift (shl64 divisor shift) v) (last limbs 0 :: rev (removelast limbs))
              (shr64 (last limbs 0) (64 - shift))) as [[rs s2]| | | |] eqn:ER; cbn [obind omap fst snd]; try reflexivity.
  pose proof (rloop2_length Z (nx1_step2 shift (shl64 divisor shift) v) _ _ _ ER) as Hrl. cbn [fst length] in Hrl.
  assert (Hrs : rs <> []) by (destruct rs; [discriminate | discriminate]).
  assert (Hstep : forall u lo s r s', inW s -> nx1_step2 shift (shl64 divisor shift) v u lo s = Val (r, s') -> inW s').
  { intros u lo s r s' _ Est. unfold nx1_step2 in Est.
    destruct (DivSmall.div_2x1_mg10 (join s (nx_u shift u lo)) (shl64 divisor shift) v) as [[q r1]| | | |] eqn:E2;
      cbn [obind fst snd] in Est; try discriminate. injection Est as <- <-.
    apply (div_2x1_mg10_range _ _ _ _ _ E2). }
  assert (Hs0 : inW (shr64 (last limbs 0) (64 - shift))) by (apply shr64_inW; [exact Hlast | lia]).
  pose proof (rloop2_inv Z (nx1_step2 shift (shl64 divisor shift) v) inW _ Hstep _ _ Hs0 ER) as Hs2.
  cbn [snd] in Hs2.
  rewrite app_nil_r. rewrite idx_0_rev_last' by exact Hrs. cbn [obind].
  rewrite g_dw_join_eq by (try apply shl64_inW; assumption).
  rewrite g_div_2x1_mg10_eq by (try apply join_range; try apply shl64_inW; assumption).
  destruct (DivSmall.div_2x1_mg10 (join s2 (shl64 (last rs 0) shift)) (shl64 divisor shift) v) as [[q r1]| | | |];
    cbn [obind omap fst snd]; try reflexivity.
  rewrite upd_0_rev' by exact Hrs. reflexivity.
Qed.

Lemma g_div_nx2_eq limbs divisor :
  Forall inW limbs -> 0 <= divisor < BB -> lenZ limbs < B ->
  g_div_nx2 limbs divisor = omap (fun p => (snd p, fst p)) (DivSmall.div_nx2 limbs divisor).
Proof.
  intros Hl Hd Hlen. unfold g_div_nx2, DivSmall.div_nx2.
  rewrite <- B_val.
  destruct (Z.ltb_spec divisor B) as [E0|N0].
  { destruct (Z.leb_spec B divisor); [lia | reflexivity]. }
  destruct (Z.leb_spec B divisor); [|lia]. cbn [negb].
  destruct limbs as [|l0 ls] eqn:El; [reflexivity|]. rewrite <- El in *.
  assert (Hne : limbs <> []) by (rewrite El; discriminate). clear El l0 ls.
  assert (E1 : (lenZ limbs =? 0) = false).
  { unfold lenZ. destruct limbs; [congruence | cbn [length]; lia]. }
  rewrite E1. cbn [negb].
  rewrite nth_error_last by exact Hne. cbn [obind].
  rewrite (rev_last_removelast limbs Hne).
  destruct (Z.eqb_spec (last limbs 0) 0) as [|Nl]; cbn [negb]; [reflexivity|].
  rewrite g_dw_high_eq by exact Hd.
  assert (Hhi : 0 < hi128 divisor < B).
  { unfold hi128. rewrite BB_sq in Hd. pose proof B_pos. split.
    - apply Z.div_str_pos. lia.
    - apply Z.div_lt_upper_bound; lia. }
  destruct (PfDivSmall.clz64_spec (hi128 divisor) Hhi) as [Hs Hnorm].
  set (shift := clz64 (hi128 divisor)) in *.
  destruct (Z.eqb_spec shift 0) as [Es|Ns].
  { rewrite g_div_nx2_normalized_eq by auto.
    destruct (DivSmall.div_nx2_normalized limbs divisor) as [[a c]| | | |]; reflexivity. }
  rewrite chksh_ok by lia. cbn [obind]. cbv zeta.
  change (Prim.shl128 divisor shift) with (DivSmall.shl128 divisor shift).
  assert (Hdn : 0 <= DivSmall.shl128 divisor shift < BB) by (unfold DivSmall.shl128; apply Z.mod_pos_bound; reflexivity).
  rewrite g_reciprocal_2_mg10_eq by exact Hdn.
  destruct (reciprocal_2_mg10 (DivSmall.shl128 divisor shift)) as [v| | | |] eqn:Ev; cbn [obind omap]; try reflexivity.
  pose proof (reciprocal_2_mg10_inW _ _ Ev) as Hv.
  assert (Hlp : 0 < lenZ limbs) by (unfold lenZ; destruct limbs; [congruence | cbn [length]; lia]).
  rewrite chk64_ok by lia. cbn [obind]. rewrite idx_last by exact Hne. cbn [obind].
  rewrite chk64_ok by (rewrite B_val; lia). cbn [obind]. rewrite chksh_ok by lia. cbn [obind].
  assert (Hlast : inW (last limbs 0)).
  { rewrite Forall_forall in Hl. apply Hl. rewrite (app_removelast_last 0 Hne) at 2. apply in_or_app. right. left. reflexivity. }
  replace (Z.to_nat (lenZ limbs - 1)) with (length limbs - 1)%nat by (unfold lenZ; lia).
  assert (Hs0 : 0 <= shr64 (last limbs 0) (64 - shift) < BB).
  { pose proof (shr64_inW (last limbs 0) (64 - shift) Hlast ltac:(lia)) as H0. unfold inW in H0.
    rewrite BB_sq. pose proof B_pos. nia. }
  cbv beta zeta.
  match goal with |- context [for_down _ _ ?bd] =>
    pose proof (idx_loop_rev2 (list Z * Z) Z (fun l s => (l, s)) (nx2_step2 shift (DivSmall.shl128 divisor shift) v)
                  (fun r => 0 <= r < BB) inW (length limbs) bd) as L end.
  pose proof (L ltac:(
    intros pre lower x post s Hk Hs' Hlo Hx; cbv beta iota zeta;
    assert (Hpl : Z.of_nat (length pre) < B) by (unfold lenZ in Hlen; lia);
    rewrite chk64_ok by lia; cbn [obind];
    rewrite idx_app_mid2; cbn [obind]; rewrite ?chksh_ok by lia; cbn [obind];
    replace (1 + Z.of_nat (length pre) - 1) with (Z.of_nat (length pre)) by lia;
    rewrite idx_app_mid; cbn [obind];
    rewrite ?chksh_ok by lia; rewrite ?(chk64_ok (64 - shift)) by (rewrite B_val; lia); cbn [obind];
    rewrite ?chksh_ok by lia; cbn [obind];
    fold (nx_u shift x lower);
    pose proof (nx_u_inW shift x lower Hlo ltac:(lia)) as Hu;
    rewrite g_div_3x2_mg10_eq by assumption;
    unfold nx2_step2;
    destruct (DivSmall.div_3x2_mg10 s (nx_u shift x lower) (DivSmall.shl128 divisor shift) v) as [[q r1]| | | |] eqn:E2;
      cbn [obind fst snd];
    (split; [try reflexivity | intros r' s' E'; try discriminate]);
    [ rewrite ?idx_app_mid2; cbn [obind]; rewrite upd_app_mid2; reflexivity
    | injection E' as <- <-; apply (div_3x2_mg10_range _ _ _ _ _ _ E2) ])
    limbs [] (shr64 (last limbs 0) (64 - shift)) (Nat.le_refl _)
    Hs0 Hl) as E.
  rewrite app_nil_r in E. cbv beta in E. rewrite E. clear E L.
  rewrite (rev_last_removelast limbs Hne) at 1.
  rewrite nx2_loop_split by discriminate.
  destruct (rloop2 Z (nx2_step2 shift (DivSmall.shl128 divisor shift) v) (last limbs 0 :: rev (removelast limbs))
              (shr64 (last limbs 0) (64 - shift))) as [[rs s2]| | | |] eqn:ER; cbn [obind omap fst snd]; try reflexivity.
  pose proof (rloop2_length Z (nx2_step2 shift (DivSmall.shl128 divisor shift) v) _ _ _ ER) as Hrl. cbn [fst length] in Hrl.
  assert (Hrs : rs <> []) by (destruct rs; [discriminate | discriminate]).
  assert (Hstep : forall u lo s r s', 0 <= s < BB ->
            nx2_step2 shift (DivSmall.shl128 divisor shift) v u lo s = Val (r, s') -> 0 <= s' < BB).
  { intros u lo s r s' _ Est. unfold nx2_step2 in Est.
    destruct (DivSmall.div_3x2_mg10 s (nx_u shift u lo) (DivSmall.shl128 divisor shift) v) as [[q r1]| | | |] eqn:E2;
      cbn [obind fst snd] in Est; try discriminate. injection Est as <- <-.
    apply (div_3x2_mg10_range _ _ _ _ _ _ E2). }
  pose proof (rloop2_inv Z (nx2_step2 shift (DivSmall.shl128 divisor shift) v) (fun r => 0 <= r < BB) _ Hstep _ _ Hs0 ER) as Hs2.
  cbn [snd] in Hs2.
  rewrite app_nil_r. rewrite idx_0_rev_last' by exact Hrs. cbn [obind].
  rewrite ?chksh_ok by lia. cbn [obind].
  rewrite g_div_3x2_mg10_eq by (try apply shl64_inW; assumption).
  destruct (DivSmall.div_3x2_mg10 s2 (shl64 (last rs 0) shift) (DivSmall.shl128 divisor shift) v) as [[q r1]| | | |];
    cbn [obind omap fst snd]; try reflexivity.
  rewrite upd_0_rev' by exact Hrs. reflexivity.
Qed.

(* ---------- add_nx1: a loop with an early `return` (for_range_ret) ---------- *)
Definition add_nx1_body : Z -> (list Z * Z) -> outcome (ctl (list Z * Z) (Z * list Z)) :=
  fun i_lhs t_5 => let '(lhs, a) := t_5 in
    do t_2 <- idx lhs i_lhs ; do t_3 <- g_dw_add t_2 a ; let '(t_1, a) := (g_dw_split t_3) in
    do _ <- idx lhs i_lhs ; let lhs := upd lhs i_lhs t_1 in
    if (a =? 0) then ( Val (Ret (0, lhs))) else
    Val (Cont (lhs, a)).

Lemma g_add_nx1_unfold lhs a :
  g_add_nx1 lhs a =
  (if (a =? 0) then ( Val (0, lhs)) else
   do t_4 <- for_range_ret 0 ((lenZ lhs)) (lhs, a) add_nx1_body ;
   match t_4 with Ret r_ => Val r_ | Cont (lhs, a) => Val (a, lhs) end).
Proof. reflexivity. Qed.

Lemma add_nx1_loop_ret l : forall pre a, Forall inW l -> inW a ->
  (do c <- for_loop_ret (length l) (Z.of_nat (length pre)) (pre ++ l, a) add_nx1_body ;
   match c with Ret r_ => Val r_ | Cont (l2, a2) => Val (a2, l2) end)
  = Val (snd (add_nx1_loop l a), pre ++ fst (add_nx1_loop l a)).
Proof.
  induction l as [|x l IH]; intros pre a Hl Ha.
  - cbn [length for_loop_ret add_nx1_loop obind fst snd]. reflexivity.
  - inversion Hl as [|? ? Hx Hl']; subst.
    cbn [length for_loop_ret add_nx1_loop]. unfold add_nx1_body at 1. cbv beta iota.
    rewrite idx_app_mid. cbn [obind]. rewrite g_dw_add_eq by assumption. cbn [obind].
    assert (Hs : 0 <= x + a < BB) by (unfold inW in *; rewrite BB_sq; pose proof B_pos; nia).
    rewrite g_dw_split_eq by exact Hs. rewrite (hi_hi128 _ Hs). change (lo128 (x + a)) with (lo (x + a)).
    cbv beta iota. rewrite ?idx_app_mid. cbn [obind]. rewrite upd_app_mid.
    destruct (hi (x + a) =? 0) eqn:E0; cbn [obind].
    + cbn [fst snd]. reflexivity.
    +       replace (pre ++ lo (x + a) :: l) with ((pre ++ [lo (x + a)]) ++ l) by (rewrite <- app_assoc; reflexivity).
      replace (Z.of_nat (length pre) + 1) with (Z.of_nat (length (pre ++ [lo (x + a)])))
        by (rewrite app_length; cbn [length]; lia).
      rewrite (IH (pre ++ [lo (x + a)]) (hi (x + a)) Hl' (hi_inW _ Hs)).
      destruct (add_nx1_loop l (hi (x + a))) as [rs c]. cbn [fst snd]. rewrite <- app_assoc. reflexivity.
Qed.

Lemma g_add_nx1_eq lhs a : Forall inW lhs -> inW a ->
  g_add_nx1 lhs a = Val (snd (add_nx1 lhs a), fst (add_nx1 lhs a)).
Proof.
  intros Hl Ha. rewrite g_add_nx1_unfold. unfold add_nx1.
  destruct (a =? 0); [reflexivity|].
  unfold for_range_ret, lenZ. replace (Z.to_nat (Z.of_nat (length lhs) - 0)) with (length lhs) by lia.
  pose proof (add_nx1_loop_ret lhs [] a Hl Ha) as E. cbn [length app Z.of_nat] in E. exact E.
Qed.

(* ---------- algorithms::cmp: downward loop with early `return` and no state ---------- *)
Definition cmp_body (lhs rhs : list Z) : Z -> unit -> outcome (ctl unit comparison) :=
  fun k_i t_8 => let i := 0 + k_i in
    do t_3 <- idx lhs i ; do t_4 <- idx rhs i ; do t_5 <- idx lhs i ; do t_6 <- idx rhs i ;
    match (((b2z ((t_4 <? t_3)))) - ((b2z ((t_5 <? t_6))))) with
    | (Zneg xH) => Val (Ret Lt) | 0 => Val (Cont tt) | 1 => Val (Ret Gt) | _ => Panic end.

Lemma g_slice_cmp_unfold left right :
  g_slice_cmp left right =
  (let l := (Z.min ((lenZ left)) ((lenZ right))) in
   do t_1 <- subslice left 0 l ; let lhs := t_1 in
   do t_2 <- subslice right 0 l ; let rhs := t_2 in
   do t_7 <- for_down_ret (Z.to_nat (l - 0)) tt (cmp_body lhs rhs) ;
   match t_7 with Ret r_ => Val r_ | Cont _ => Val (Z.compare ((lenZ left)) ((lenZ right))) end).
Proof. reflexivity. Qed.

Lemma cmp_loop a : forall b, length a = length b ->
  for_down_ret (length a) tt (cmp_body a b)
  = Val (match Add.cmp_rev (rev a) (rev b) with Eq => Cont tt | c => Ret c end).
Proof.
  induction a as [|x a IH] using rev_ind; intros b Hl.
  - destruct b; [|discriminate]. reflexivity.
  - destruct b as [|y b] using rev_ind; [rewrite app_length in Hl; cbn in Hl; lia|]. clear IHb.
    rewrite !app_length in Hl. cbn [length] in Hl.
    rewrite app_length. cbn [length]. rewrite Nat.add_1_r. cbn [for_down_ret].
    unfold cmp_body at 1. cbv zeta. replace (0 + Z.of_nat (length a)) with (Z.of_nat (length a)) by lia.
    rewrite !idx_app_mid. replace (Z.of_nat (length a)) with (Z.of_nat (length b)) by lia.
    rewrite !idx_app_mid. cbn [obind].
    rewrite !rev_app_distr. cbn [rev app Add.cmp_rev].
    destruct (Z.ltb_spec y x); destruct (Z.ltb_spec x y); try lia; cbn [b2z Z.sub Z.add Z.opp Z.pos_sub obind].
    + reflexivity.
    + reflexivity.
    + (* equal limbs: continue with the lower ones; the body only reads below the current index *)
      assert (Hext : forall k (u : unit), (k < length a)%nat ->
                cmp_body (a ++ [x]) (b ++ [y]) (Z.of_nat k) u = cmp_body a b (Z.of_nat k) u).
      { intros k u Hk. unfold cmp_body. cbv zeta. replace (0 + Z.of_nat k) with (Z.of_nat k) by lia.
        unfold idx. rewrite !Nat2Z.id. rewrite !nth_error_app1 by lia. reflexivity. }
      assert (Hloop : forall n, (n <= length a)%nat ->
                for_down_ret n tt (cmp_body (a ++ [x]) (b ++ [y])) = for_down_ret n tt (cmp_body a b)).
      { induction n as [|n IHn]; intros Hn; [reflexivity|]. cbn [for_down_ret].
        rewrite Hext by lia. destruct (cmp_body a b (Z.of_nat n) tt) as [[[]|r]| | | |]; cbn [obind]; try reflexivity.
        apply IHn. lia. }
      rewrite Hloop by lia. apply IH. lia.
Qed.

Lemma subslice_prefix (l : list Z) k : (k <= length l)%nat ->
  subslice l 0 (Z.of_nat k) = Val (firstn k l).
Proof.
  intros H. unfold subslice, lenZ.
  replace ((0 <=? 0) && (0 <=? Z.of_nat k) && (Z.of_nat k <=? Z.of_nat (length l))) with true by lia.
  replace (Z.to_nat (Z.of_nat k - 0)) with k by lia. reflexivity.
Qed.

Lemma g_slice_cmp_eq left right : g_slice_cmp left right = Val (Add.limbs_cmp left right).
Proof.
  rewrite g_slice_cmp_unfold. unfold Add.limbs_cmp, lenZ. cbv zeta.
  rewrite <- Nat2Z.inj_min. set (l := Nat.min (length left) (length right)).
  rewrite (subslice_prefix left l) by (unfold l; lia). cbn [obind].
  rewrite (subslice_prefix right l) by (unfold l; lia). cbn [obind].
  replace (Z.to_nat (Z.of_nat l - 0)) with (length (firstn l left)) by (rewrite firstn_length; unfold l; lia).
  rewrite (cmp_loop (firstn l left) (firstn l right)) by (rewrite !firstn_length; unfold l; lia).
  cbn [obind].
  destruct (Add.cmp_rev (rev (firstn l left)) (rev (firstn l right))); try reflexivity.
  f_equal. apply Nat2Z.inj_compare.
Qed.

(* ---------- addmul_n: assert_eq! on the lengths, dispatch on the length ---------- *)
Lemma g_addmul_n_eq lhs a b :
  Forall inW lhs -> Forall inW a -> Forall inW b -> g_addmul_n lhs a b = Limbs.addmul_n lhs a b.
Proof.
  intros Hl Ha Hb. unfold g_addmul_n, Limbs.addmul_n. rewrite !lenZ_eqb.
  destruct (Nat.eqb_spec (length lhs) (length a)) as [Ela|Ela]; cbn [negb orb]; [|reflexivity].
  destruct (Nat.eqb_spec (length lhs) (length b)) as [Elb|Elb]; cbn [negb]; [|reflexivity].
  unfold lenZ.
  destruct lhs as [|l0 [|l1 [|l2 [|l3 [|l4 lhs]]]]];
    destruct a as [|a0 [|a1 [|a2 [|a3 [|a4 a]]]]]; cbn [length] in Ela; try lia;
    destruct b as [|b0 [|b1 [|b2 [|b3 [|b4 b]]]]]; cbn [length] in Elb; try lia.
  - reflexivity.
  - inversion Hl; inversion Ha; inversion Hb; subst.
    change (Z.of_nat (length [l0])) with 1. cbv iota.
    rewrite g_addmul_1_eq by assumption. reflexivity.
  - repeat match goal with H : Forall inW (_ :: _) |- _ => inversion H; clear H; subst end.
    change (Z.of_nat (length [l0; l1])) with 2. cbv iota.
    rewrite g_addmul_2_eq by assumption. reflexivity.
  - repeat match goal with H : Forall inW (_ :: _) |- _ => inversion H; clear H; subst end.
    change (Z.of_nat (length [l0; l1; l2])) with 3. cbv iota.
    rewrite g_addmul_3_eq by assumption. reflexivity.
  - repeat match goal with H : Forall inW (_ :: _) |- _ => inversion H; clear H; subst end.
    change (Z.of_nat (length [l0; l1; l2; l3])) with 4. cbv iota.
    rewrite g_addmul_4_eq by assumption. reflexivity.
  - (* five or more limbs: the generic kernel (model function) *)
    remember (Z.of_nat (length (l0 :: l1 :: l2 :: l3 :: l4 :: lhs))) as z eqn:Ez.
    assert (Hz : 5 <= z) by (subst z; cbn [length]; lia). clear Ez.
    cbn [length].
    destruct (Limbs.addmul (l0 :: l1 :: l2 :: l3 :: l4 :: lhs) (a0 :: a1 :: a2 :: a3 :: a4 :: a)
                (b0 :: b1 :: b2 :: b3 :: b4 :: b)) as [r o]. cbn [fst].
    destruct z as [|p|p]; try lia.
    destruct p as [[[p|p|]|[p|p|]|]|[[p|p|]|[p|p|]|]|]; try lia; reflexivity.
Qed.
