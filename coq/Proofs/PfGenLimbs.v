(* Proofs/PfGenLimbs.v — source tie for the limb-slice kernels with loops: the definitions that
   tools_rs2v.py generates from the current text of adc_n, sbb_n (algorithms/add.rs), mul_nx1,
   addmul_nx1, submul_nx1 (algorithms/mul.rs) and shift_left_small (algorithms/shift.rs) equal
   the structural recursions of Model/Limbs.v on all word lists.
   The generated code is an indexed loop (`for_range` over `idx`/`upd`); `idx_loop` shows that
   such a loop, when its body touches only position i, is a structural recursion over the list. *)
From Coq Require Import ZArith List Bool Lia.
From RV.Model Require Import Base Word Limbs DivRecip.
From RV.Gen Require Import Prim Scalar.
From RV.Proofs Require Import BaseFacts PfLimbs PfGenScalar PfGenAdd.
Import ListNotations.
Local Open Scope Z_scope.

(* ---------- an indexed loop that touches only position i is a structural recursion ---------- *)
Section IdxLoop.
  Variables T St : Type.
  Variable inj : list Z -> St -> T.               (* how the loop state packs the list and the rest *)
  Variable stepf : nat -> Z -> St -> Z * St.      (* what the body does at index k to element x *)
  Variable P : St -> Prop.                       (* invariant of the scalar part *)
  Variable Q : Z -> Prop.                        (* what is known of the untouched elements *)
  Variable n : nat.                              (* the body is only characterised below n *)
  Variable body : Z -> T -> outcome T.

  Fixpoint iloop (k : nat) (l : list Z) (s : St) : list Z * St :=
    match l with
    | [] => ([], s)
    | x :: t => let '(r, s1) := stepf k x s in let '(rs, s2) := iloop (S k) t s1 in (r :: rs, s2)
    end.

  Hypothesis Hbody : forall pre x post s, (length pre < n)%nat -> P s -> Q x ->
    body (Z.of_nat (length pre)) (inj (pre ++ x :: post) s)
    = Val (inj (pre ++ fst (stepf (length pre) x s) :: post) (snd (stepf (length pre) x s)))
    /\ P (snd (stepf (length pre) x s)).

  Lemma idx_loop l : forall pre s, (length pre + length l <= n)%nat -> P s -> Forall Q l ->
    for_loop (length l) (Z.of_nat (length pre)) (inj (pre ++ l) s) body
    = Val (inj (pre ++ fst (iloop (length pre) l s)) (snd (iloop (length pre) l s)))
    /\ P (snd (iloop (length pre) l s)).
  Proof.
    induction l as [|x l IH]; intros pre s Hn Hs Hq.
    - cbn [length for_loop iloop fst snd]. split; [reflexivity | exact Hs].
    - inversion Hq as [|? ? Hx Hq']; subst. cbn [length] in Hn.
      destruct (Hbody pre x l s ltac:(lia) Hs Hx) as [Eb Hs1].
      cbn [length for_loop iloop]. rewrite Eb. cbn [obind].
      destruct (stepf (length pre) x s) as [r s1] eqn:Es. cbn [fst snd] in *.
      replace (pre ++ r :: l) with ((pre ++ [r]) ++ l) by (rewrite <- app_assoc; reflexivity).
      replace (Z.of_nat (length pre) + 1) with (Z.of_nat (length (pre ++ [r])))
        by (rewrite app_length; cbn [length]; lia).
      assert (Hlen : length (pre ++ [r]) = S (length pre)) by (rewrite app_length; cbn [length]; lia).
      destruct (IH (pre ++ [r]) s1 ltac:(lia) Hs1 Hq') as [E Hp]. rewrite E, Hlen in *.
      destruct (iloop (S (length pre)) l s1) as [rs s2]. cbn [fst snd] in *.
      rewrite <- app_assoc. split; [reflexivity | exact Hp].
  Qed.
End IdxLoop.

Lemma idx_nth l k : (k < length l)%nat -> idx l (Z.of_nat k) = Val (nth k l 0).
Proof.
  intros H. unfold idx. rewrite Nat2Z.id.
  destruct (nth_error l k) eqn:E.
  - rewrite (nth_error_nth l k 0 E). reflexivity.
  - apply nth_error_None in E. lia.
Qed.

Lemma skipn_nth_cons (a : list Z) k : (k < length a)%nat -> skipn k a = nth k a 0 :: skipn (S k) a.
Proof.
  revert k. induction a as [|y a IH]; intros k H; [cbn in H; lia|].
  destruct k; [reflexivity|]. cbn [skipn nth]. apply IH. cbn in H. lia.
Qed.

Lemma Forall_nth_inW a k : Forall inW a -> (k < length a)%nat -> inW (nth k a 0).
Proof. intros H Hk. rewrite Forall_forall in H. apply H, nth_In, Hk. Qed.

Lemma lenZ_nat {A} (l : list A) : Z.to_nat (lenZ l - 0) = length l.
Proof. unfold lenZ. lia. Qed.

Lemma lenZ_eqb {A C} (a : list A) (b : list C) : (lenZ a =? lenZ b) = Nat.eqb (length a) (length b).
Proof.
  unfold lenZ. destruct (Nat.eqb_spec (length a) (length b)); [apply Z.eqb_eq | apply Z.eqb_neq]; lia.
Qed.

(* ---------- adc_n / sbb_n ---------- *)
Definition adc_step (rhs : list Z) (k : nat) (x : Z) (c : Z) : Z * Z := adc x (nth k rhs 0) c.
Definition sbb_step (rhs : list Z) (k : nat) (x : Z) (c : Z) : Z * Z := sbb x (nth k rhs 0) c.

Lemma adc_n_iloop rhs l : forall k c, (k + length l <= length rhs)%nat ->
  adc_n l (skipn k rhs) c = Val (iloop Z (adc_step rhs) k l c).
Proof.
  induction l as [|x l IH]; intros k c H; [reflexivity|]. cbn [length] in H.
  rewrite skipn_nth_cons by lia. cbn [adc_n iloop].
  change (adc_step rhs k x c) with (adc x (nth k rhs 0) c).
  destruct (adc x (nth k rhs 0) c) as [r c1]. rewrite (IH (S k) c1) by lia.
  cbn [obind]. destruct (iloop Z (adc_step rhs) (S k) l c1). reflexivity.
Qed.

Lemma sbb_n_iloop rhs l : forall k c, (k + length l <= length rhs)%nat ->
  sbb_n l (skipn k rhs) c = Val (iloop Z (sbb_step rhs) k l c).
Proof.
  induction l as [|x l IH]; intros k c H; [reflexivity|]. cbn [length] in H.
  rewrite skipn_nth_cons by lia. cbn [sbb_n iloop].
  change (sbb_step rhs k x c) with (sbb x (nth k rhs 0) c).
  destruct (sbb x (nth k rhs 0) c) as [r c1]. rewrite (IH (S k) c1) by lia.
  cbn [obind]. destruct (iloop Z (sbb_step rhs) (S k) l c1). reflexivity.
Qed.

Lemma g_adc_n_eq lhs rhs c :
  Forall inW lhs -> Forall inW rhs -> inW c -> (length lhs <= length rhs)%nat ->
  g_adc_n lhs rhs c = omap (fun p => (snd p, fst p)) (adc_n lhs rhs c).
Proof.
  intros Hl Hr Hc Hlen. unfold g_adc_n, for_range. rewrite lenZ_nat.
  pose proof (idx_loop (list Z * Z) Z (fun l s => (l, s)) (adc_step rhs) inW inW (length rhs)
    (fun i t_6 => let '(lhs, carry) := t_6 in
       do t_2 <- idx lhs i ; do t_3 <- idx rhs i ; do t_4 <- g_adc t_2 t_3 carry ;
       let '(t_1, carry) := t_4 in do _ <- idx lhs i ; let lhs := upd lhs i t_1 in Val (lhs, carry))) as L.
  destruct (L ltac:(
    intros pre x post s Hk Hs Hx; cbv beta iota; rewrite ?idx_app_mid; cbn [obind];
    cbv beta iota; rewrite idx_nth by exact Hk; cbn [obind];
    pose proof (Forall_nth_inW rhs (length pre) Hr Hk) as Hy;
    rewrite g_adc_eq by assumption; cbn [obind]; unfold adc_step;
    pose proof (adc_spec x _ s Hx Hy Hs) as Ha;
    destruct (adc x (nth (length pre) rhs 0) s) as [r c1]; destruct Ha as (_ & Hc1 & _);
    cbv beta iota; rewrite ?idx_app_mid; cbn [obind fst snd]; rewrite upd_app_mid; split; [reflexivity | exact Hc1])
    lhs [] c ltac:(cbn [length]; lia) Hc Hl) as [E _].
  cbn [length app Z.of_nat] in E. rewrite E. cbn [obind].
  pose proof (adc_n_iloop rhs lhs 0%nat c ltac:(cbn; lia)) as E2. cbn [skipn] in E2. rewrite E2. cbn [omap obind]. reflexivity.
Qed.

Lemma sbb_inW x y c : inW x -> inW y -> inW c -> inW (snd (sbb x y c)).
Proof.
  intros Hx Hy Hc. pose proof (sbb_spec x y c Hx Hy Hc) as H.
  destruct (sbb x y c) as [r c1]. cbn [snd]. destruct H as (_ & H & _). unfold inW.
  rewrite B_val. lia.
Qed.

Lemma g_sbb_n_eq lhs rhs c :
  Forall inW lhs -> Forall inW rhs -> inW c -> (length lhs <= length rhs)%nat ->
  g_sbb_n lhs rhs c = omap (fun p => (snd p, fst p)) (sbb_n lhs rhs c).
Proof.
  intros Hl Hr Hc Hlen. unfold g_sbb_n, for_range. rewrite lenZ_nat.
  pose proof (idx_loop (list Z * Z) Z (fun l s => (l, s)) (sbb_step rhs) inW inW (length rhs)
    (fun i t_5 => let '(lhs, borrow) := t_5 in
       do t_2 <- idx lhs i ; do t_3 <- idx rhs i ;
       let '(t_1, borrow) := (g_sbb t_2 t_3 borrow) in
       do _ <- idx lhs i ; let lhs := upd lhs i t_1 in Val (lhs, borrow))) as L.
  destruct (L ltac:(
    intros pre x post s Hk Hs Hx; cbv beta iota; rewrite ?idx_app_mid; cbn [obind];
    cbv beta iota; rewrite idx_nth by exact Hk; cbn [obind];
    pose proof (Forall_nth_inW rhs (length pre) Hr Hk) as Hy;
    rewrite g_sbb_eq; unfold sbb_step;
    pose proof (sbb_inW x _ s Hx Hy Hs) as Hc1;
    destruct (sbb x (nth (length pre) rhs 0) s) as [r c1];
    cbv beta iota; rewrite ?idx_app_mid; cbn [obind fst snd] in *; rewrite upd_app_mid; split; [reflexivity | exact Hc1])
    lhs [] c ltac:(cbn [length]; lia) Hc Hl) as [E _].
  cbn [length app Z.of_nat] in E. rewrite E. cbn [obind].
  pose proof (sbb_n_iloop rhs lhs 0%nat c ltac:(cbn; lia)) as E2. cbn [skipn] in E2. rewrite E2. cbn [omap obind]. reflexivity.
Qed.

(* ---------- mul_nx1 ---------- *)
Definition mul_step (a : Z) (k : nat) (x : Z) (c : Z) : Z * Z :=
  (lo (muladd x a c), hi (muladd x a c)).

Lemma mul_nx1_iloop a l : forall k c,
  mul_nx1_loop l a c = iloop Z (mul_step a) k l c.
Proof.
  induction l as [|x l IH]; intros k c; [reflexivity|].
  cbn [mul_nx1_loop iloop]. unfold mul_step at 1. rewrite (IH (S k)). reflexivity.
Qed.

Lemma muladd_range x a c : inW x -> inW a -> inW c -> 0 <= muladd x a c < BB.
Proof. unfold inW, muladd. rewrite BB_sq. intros. nia. Qed.
Lemma muladd2_range x a c d : inW x -> inW a -> inW c -> inW d -> 0 <= muladd2 x a c d < BB.
Proof. unfold inW, muladd2. rewrite BB_sq. intros. nia. Qed.
Lemma hi_inW p : 0 <= p < BB -> inW (hi p).
Proof. intros H. unfold hi, inW. apply Z.mod_pos_bound, B_pos. Qed.
Lemma hi_hi128 p : 0 <= p < BB -> hi128 p = hi p.
Proof.
  intros H. unfold hi128, hi. symmetry. apply Z.mod_small.
  rewrite BB_sq in H. pose proof B_pos. split; [apply Z.div_pos; lia | apply Z.div_lt_upper_bound; lia].
Qed.

Lemma g_mul_nx1_eq lhs a :
  Forall inW lhs -> inW a -> g_mul_nx1 lhs a = Val (snd (mul_nx1 lhs a), fst (mul_nx1 lhs a)).
Proof.
  intros Hl Ha. unfold g_mul_nx1, for_range, mul_nx1. rewrite lenZ_nat.
  pose proof (idx_loop (list Z * Z) Z (fun l s => (l, s)) (mul_step a) inW inW (length lhs)
    (fun i_lhs t_5 => let '(lhs, carry) := t_5 in
       do t_2 <- idx lhs i_lhs ; do t_3 <- g_dw_muladd t_2 a carry ;
       let '(t_1, carry) := (g_dw_split t_3) in
       do _ <- idx lhs i_lhs ; let lhs := upd lhs i_lhs t_1 in Val (lhs, carry))) as L.
  destruct (L ltac:(
    intros pre x post s Hk Hs Hx; cbv beta iota; rewrite ?idx_app_mid; cbn [obind];
    rewrite g_dw_muladd_eq by assumption; cbn [obind];
    pose proof (muladd_range x a s Hx Ha Hs) as Hp;
    rewrite g_dw_split_eq by exact Hp; rewrite (hi_hi128 _ Hp);
    cbv beta iota; rewrite ?idx_app_mid; cbn [obind]; rewrite upd_app_mid; unfold mul_step; cbn [fst snd];
    split; [reflexivity | apply hi_inW; exact Hp])
    lhs [] 0 ltac:(cbn [length]; lia) ltac:(unfold inW; pose proof B_pos; lia) Hl) as [E _].
  cbn [length app Z.of_nat] in E. rewrite E. cbn [obind].
  rewrite (mul_nx1_iloop a lhs 0%nat 0). reflexivity.
Qed.

(* ---------- addmul_nx1 ---------- *)
Definition addmul_step (a : list Z) (b : Z) (k : nat) (x : Z) (c : Z) : Z * Z :=
  (lo (muladd2 (nth k a 0) b c x), hi (muladd2 (nth k a 0) b c x)).

Lemma addmul_nx1_iloop a b l : forall k c, (k + length l <= length a)%nat ->
  addmul_nx1_loop l (skipn k a) b c = iloop Z (addmul_step a b) k l c.
Proof.
  induction l as [|x l IH]; intros k c H.
  - cbn [addmul_nx1_loop iloop]. destruct (skipn k a); reflexivity.
  - cbn [length] in H. rewrite skipn_nth_cons by lia. cbn [addmul_nx1_loop iloop].
    unfold addmul_step at 1. rewrite (IH (S k)) by lia. reflexivity.
Qed.

Lemma g_addmul_nx1_eq lhs a b :
  Forall inW lhs -> Forall inW a -> inW b ->
  g_addmul_nx1 lhs a b = omap (fun p => (snd p, fst p)) (addmul_nx1 lhs a b).
Proof.
  intros Hl Ha Hb. unfold g_addmul_nx1, addmul_nx1. rewrite lenZ_eqb.
  destruct (Nat.eqb_spec (length lhs) (length a)) as [Hlen|Hlen]; cbn [negb]; [|reflexivity].
  unfold for_range. rewrite lenZ_nat, <- Hlen.
  pose proof (idx_loop (list Z * Z) Z (fun l s => (l, s)) (addmul_step a b) inW inW (length a)
    (fun i t_6 => let '(lhs, carry) := t_6 in
       do t_2 <- idx a i ; do t_3 <- idx lhs i ; do t_4 <- g_dw_muladd2 t_2 b carry t_3 ;
       let '(t_1, carry) := (g_dw_split t_4) in
       do _ <- idx lhs i ; let lhs := upd lhs i t_1 in Val (lhs, carry))) as L.
  destruct (L ltac:(
    intros pre x post s Hk Hs Hx; cbv beta iota; rewrite idx_nth by exact Hk; cbn [obind];
    cbv beta iota; rewrite ?idx_app_mid; cbn [obind];
    pose proof (Forall_nth_inW a (length pre) Ha Hk) as Hy;
    rewrite g_dw_muladd2_eq by assumption; cbn [obind];
    pose proof (muladd2_range _ b s x Hy Hb Hs Hx) as Hp;
    rewrite g_dw_split_eq by exact Hp; rewrite (hi_hi128 _ Hp);
    cbv beta iota; rewrite ?idx_app_mid; cbn [obind]; rewrite upd_app_mid; unfold addmul_step; cbn [fst snd];
    split; [reflexivity | apply hi_inW; exact Hp])
    lhs [] 0 ltac:(cbn [length]; lia) ltac:(unfold inW; pose proof B_pos; lia) Hl) as [E _].
  cbn [length app Z.of_nat] in E. rewrite E. cbn [obind omap].
  pose proof (addmul_nx1_iloop a b lhs 0%nat 0 ltac:(cbn; lia)) as E2. cbn [skipn] in E2. rewrite E2. reflexivity.
Qed.

(* ---------- submul_nx1 ---------- *)
Definition submul_step (a : list Z) (b : Z) (k : nat) (x : Z) (s : Z * Z) : Z * (Z * Z) :=
  let '(carry, borrow) := s in
  let p := muladd (nth k a 0) b carry in
  let '(r, bo) := sbb x (lo p) borrow in (r, (hi p, bo)).

Lemma submul_nx1_iloop a b l : forall k c bw, (k + length l <= length a)%nat ->
  submul_nx1_loop l (skipn k a) b c bw
  = (let '(rs, (c2, b2)) := iloop (Z * Z) (submul_step a b) k l (c, bw) in (rs, c2, b2)).
Proof.
  induction l as [|x l IH]; intros k c bw H.
  - cbn [submul_nx1_loop iloop]. destruct (skipn k a); reflexivity.
  - cbn [length] in H. rewrite skipn_nth_cons by lia. cbn [submul_nx1_loop iloop].
    change (submul_step a b k x (c, bw))
      with (let p := muladd (nth k a 0) b c in let '(r, bo) := sbb x (lo p) bw in (r, (hi p, bo))).
    cbv zeta. destruct (sbb x (lo (muladd (nth k a 0) b c)) bw) as [r bo].
    rewrite (IH (S k)) by lia.
    destruct (iloop (Z * Z) (submul_step a b) (S k) l (hi (muladd (nth k a 0) b c), bo)) as [rs [c2 b2]].
    reflexivity.
Qed.

Lemma lo_inW p : inW (lo p).
Proof. unfold lo, inW. apply Z.mod_pos_bound, B_pos. Qed.
Lemma lo_lo128 p : lo128 p = lo p. Proof. reflexivity. Qed.

Lemma g_submul_nx1_eq lhs a b :
  Forall inW lhs -> Forall inW a -> inW b ->
  g_submul_nx1 lhs a b = omap (fun p => (snd p, fst p)) (submul_nx1 lhs a b).
Proof.
  intros Hl Ha Hb. unfold g_submul_nx1, submul_nx1. rewrite lenZ_eqb.
  destruct (Nat.eqb_spec (length lhs) (length a)) as [Hlen|Hlen]; cbn [negb]; [|reflexivity].
  unfold for_range. rewrite lenZ_nat, <- Hlen.
  pose proof (idx_loop (Z * list Z * Z) (Z * Z) (fun l s => (fst s, l, snd s)) (submul_step a b)
    (fun s => inW (fst s) /\ inW (snd s)) inW (length a)
    (fun i t_6 => let '(carry, lhs, borrow) := t_6 in
       do t_1 <- idx a i ; do t_2 <- g_dw_muladd t_1 b carry ;
       let '(limb, carry) := (g_dw_split t_2) in
       do t_4 <- idx lhs i ; let '(t_3, borrow) := (g_sbb t_4 limb borrow) in
       do _ <- idx lhs i ; let lhs := upd lhs i t_3 in Val (carry, lhs, borrow))) as L.
  destruct (L ltac:(
    intros pre x post [c0 b0] Hk [Hs1 Hs2] Hx; cbn [fst snd] in *; cbv beta iota;
    cbv beta iota; rewrite idx_nth by exact Hk; cbn [obind];
    pose proof (Forall_nth_inW a (length pre) Ha Hk) as Hy;
    rewrite g_dw_muladd_eq by assumption; cbn [obind];
    pose proof (muladd_range _ b c0 Hy Hb Hs1) as Hp;
    rewrite g_dw_split_eq by exact Hp; rewrite (hi_hi128 _ Hp), lo_lo128;
    cbv beta iota; rewrite ?idx_app_mid; cbn [obind]; rewrite g_sbb_eq; unfold submul_step;
    pose proof (sbb_inW x _ b0 Hx (lo_inW (muladd (nth (length pre) a 0) b c0)) Hs2) as Hbo;
    destruct (sbb x (lo (muladd (nth (length pre) a 0) b c0)) b0) as [r bo];
    cbv beta iota; rewrite ?idx_app_mid; cbn [obind fst snd] in *; rewrite upd_app_mid;
    split; [reflexivity | split; [apply hi_inW; exact Hp | exact Hbo]])
    lhs [] (0, 0) ltac:(cbn [length]; lia)
    ltac:(cbn [fst snd]; unfold inW; pose proof B_pos; lia) Hl) as [E [Hc Hbw]].
  cbn [length app Z.of_nat fst snd] in E, Hc, Hbw. rewrite E. cbn [obind].
  pose proof (submul_nx1_iloop a b lhs 0%nat 0 0 ltac:(cbn; lia)) as E2. cbn [skipn] in E2. rewrite E2.
  destruct (iloop (Z * Z) (submul_step a b) 0 lhs (0, 0)) as [rs [c2 b2]]. cbn [fst snd] in *.
  unfold chk64. unfold inW in Hc, Hbw.
  destruct (Z.leb_spec 0 (b2 + c2)); [|lia]. cbn [andb].
  destruct (b2 + c2 <? B); reflexivity.
Qed.

(* ---------- shift_left_small ---------- *)
Definition shl_step (amount : Z) (k : nat) (x : Z) (ov : Z) : Z * Z :=
  (Z.lor (shl64 x amount) ov, shr64 (shr64 x 1) (63 - amount)).

Lemma shift_left_iloop amount l : forall k ov,
  shift_left_small_loop l amount ov = iloop Z (shl_step amount) k l ov.
Proof.
  induction l as [|x l IH]; intros k ov; [reflexivity|].
  cbn [shift_left_small_loop iloop]. unfold shl_step at 1. rewrite (IH (S k)). reflexivity.
Qed.

Lemma g_shift_left_small_eq limbs amount :
  0 <= amount ->
  g_shift_left_small limbs amount = omap (fun p => (snd p, fst p)) (shift_left_small limbs amount).
Proof.
  intros Ham. unfold g_shift_left_small, shift_left_small.
  destruct (Z.ltb_spec amount 64) as [Hlt|Hge]; cbn [negb]; [|reflexivity].
  unfold for_range. rewrite lenZ_nat.
  pose proof (idx_loop (Z * list Z) Z (fun l s => (s, l)) (shl_step amount) (fun _ => True)
    (fun _ => True) (length limbs)
    (fun i_limb t_8 => let '(overflow, limbs) := t_8 in
       do t_1 <- idx limbs i_limb ; do t_2 <- chksh 64 amount ;
       let value := (Z.lor ((shl64 t_1 t_2)) overflow) in
       do t_3 <- idx limbs i_limb ; do t_4 <- chk64 (63 - amount) ; do t_5 <- chksh 64 t_4 ;
       let overflow := (shr64 ((shr64 t_3 1)) t_5) in
       let t_6 := value in do _ <- idx limbs i_limb ; let limbs := upd limbs i_limb t_6 in
       Val (overflow, limbs))) as L.
  destruct (L ltac:(
    intros pre x post s Hk _ _; cbv beta iota; rewrite ?idx_app_mid; cbn [obind];
    unfold chksh, chk64;
    replace ((0 <=? amount) && (amount <? 64)) with true by lia; cbn [obind];
    replace ((0 <=? 63 - amount) && (63 - amount <? B)) with true by (rewrite B_val; lia); cbn [obind];
    replace ((0 <=? 63 - amount) && (63 - amount <? 64)) with true by lia; cbn [obind];
    cbv beta iota; rewrite ?idx_app_mid; cbn [obind]; rewrite upd_app_mid; unfold shl_step; cbn [fst snd];
    split; [reflexivity | exact I])
    limbs [] 0 ltac:(cbn [length]; lia) I ltac:(apply Forall_forall; intros; exact I)) as [E _].
  cbn [length app Z.of_nat] in E. rewrite E. cbn [obind omap].
  rewrite (shift_left_iloop amount limbs 0%nat 0). reflexivity.
Qed.

(* ---------- reverse loops: `for x in xs.iter_mut().rev()` = recursion over the reversed list ---------- *)
Section RevLoop.
  Variables T St : Type.
  Variable inj : list Z -> St -> T.
  Variable stepo : Z -> St -> outcome (Z * St).  (* what the body does to element x (may panic) *)
  Variable P : St -> Prop.
  Variable Q : Z -> Prop.
  Variable body : Z -> T -> outcome T.

  Fixpoint rloop (l : list Z) (s : St) : outcome (list Z * St) :=
    match l with
    | [] => Val ([], s)
    | x :: t => do rs <- stepo x s ; do p <- rloop t (snd rs) ; Val (fst rs :: fst p, snd p)
    end.

  Hypothesis Hbody : forall pre x post s, P s -> Q x ->
    body (Z.of_nat (length pre)) (inj (pre ++ x :: post) s)
    = (do rs <- stepo x s ; Val (inj (pre ++ fst rs :: post) (snd rs)))
    /\ (forall r s', stepo x s = Val (r, s') -> P s').

  Lemma idx_loop_rev l : forall post s, P s -> Forall Q l ->
    for_down (length l) (inj (l ++ post) s) body
    = (do p <- rloop (rev l) s ; Val (inj (rev (fst p) ++ post) (snd p))).
  Proof.
    induction l as [|x l IH] using rev_ind; intros post s Hs Hq.
    - reflexivity.
    - apply Forall_app in Hq. destruct Hq as [Hq Hx]. inversion Hx as [|? ? Hx' _]; subst.
      rewrite app_length. cbn [length]. rewrite Nat.add_1_r. cbn [for_down].
      rewrite <- app_assoc. cbn [app].
      destruct (Hbody l x post s Hs Hx') as [Eb Hp]. rewrite Eb.
      rewrite rev_app_distr. cbn [rev app rloop].
      destruct (stepo x s) as [[r s1]| | | |] eqn:Es; cbn [obind fst snd]; try reflexivity.
      rewrite (IH (r :: post) s1 (Hp r s1 eq_refl) Hq).
      destruct (rloop (rev l) s1) as [[rs s2]| | | |]; cbn [obind fst snd rev]; try reflexivity.
      rewrite <- app_assoc. reflexivity.
  Qed.
End RevLoop.

(* ---------- shift_right_small ---------- *)
Definition shr_stepo (amount : Z) (x : Z) (ov : Z) : outcome (Z * Z) :=
  Val (Z.lor (shr64 x amount) ov, shl64 (shl64 x 1) (63 - amount)).

Lemma shift_right_rloop amount l : forall ov,
  rloop Z (shr_stepo amount) l ov = Val (shift_right_small_loop l amount ov).
Proof.
  induction l as [|x l IH]; intros ov; [reflexivity|].
  cbn [rloop shift_right_small_loop]. unfold shr_stepo at 1. cbn [obind fst snd]. rewrite IH.
  cbn [obind]. destruct (shift_right_small_loop l amount (shl64 (shl64 x 1) (63 - amount))). reflexivity.
Qed.

Lemma g_shift_right_small_eq limbs amount :
  0 <= amount ->
  g_shift_right_small limbs amount
  = omap (fun p => (snd p, fst p)) (shift_right_small limbs amount).
Proof.
  intros Ham. unfold g_shift_right_small, shift_right_small.
  destruct (Z.ltb_spec amount 64) as [Hlt|Hge]; cbn [negb]; [|reflexivity].
  unfold lenZ. rewrite Nat2Z.id.
  pose proof (idx_loop_rev (Z * list Z) Z (fun l s => (s, l)) (shr_stepo amount) (fun _ => True)
    (fun _ => True)
    (fun i_limb t_8 => let '(overflow, limbs) := t_8 in
       do t_1 <- idx limbs i_limb ; do t_2 <- chksh 64 amount ;
       let value := (Z.lor ((shr64 t_1 t_2)) overflow) in
       do t_3 <- idx limbs i_limb ; do t_4 <- chk64 (63 - amount) ; do t_5 <- chksh 64 t_4 ;
       let overflow := (shl64 ((shl64 t_3 1)) t_5) in
       let t_6 := value in do _ <- idx limbs i_limb ; let limbs := upd limbs i_limb t_6 in
       Val (overflow, limbs))) as L.
  pose proof (L ltac:(
    intros pre x post s _ _; cbv beta iota; rewrite ?idx_app_mid; cbn [obind];
    unfold chksh, chk64;
    replace ((0 <=? amount) && (amount <? 64)) with true by lia; cbn [obind];
    replace ((0 <=? 63 - amount) && (63 - amount <? B)) with true by (rewrite B_val; lia); cbn [obind];
    replace ((0 <=? 63 - amount) && (63 - amount <? 64)) with true by lia; cbn [obind];
    cbv beta iota; rewrite ?idx_app_mid; cbn [obind]; rewrite upd_app_mid; unfold shr_stepo; cbn [obind fst snd];
    split; [reflexivity | intros; exact I])
    limbs [] 0 I ltac:(apply Forall_forall; intros; exact I)) as E.
  rewrite app_nil_r in E. cbv beta zeta in E |- *. rewrite E. rewrite shift_right_rloop. cbn [obind].
  destruct (shift_right_small_loop (rev limbs) amount 0) as [r o]. cbn [fst snd omap obind].
  rewrite app_nil_r. reflexivity.
Qed.

(* ---------- div_nx1_normalized / div_nx2_normalized (algorithms/div/small.rs) ---------- *)
From RV.Model Require DivSmall.
From RV.Proofs Require PfDivBase.

Lemma div_2x1_mg10_range u d v q r : DivSmall.div_2x1_mg10 u d v = Val (q, r) -> inW q /\ inW r.
Proof.
  unfold DivSmall.div_2x1_mg10. destruct (d <? 2 ^ 63); [discriminate|].
  destruct (negb (hi128 u <? d)); [discriminate|].
  destruct (reciprocal_mg10 d) as [rv| | | |]; cbn [obind]; try discriminate.
  destruct (negb (v =? rv)); [discriminate|]. unfold DivSmall.div_2x1_body.
  destruct (BB <=? u + hi128 u * v); [discriminate|].
  set (q1 := wrap (hi128 (u + hi128 u * v) + 1)).
  set (r0 := wrap (lo128 u - wrap (q1 * d))).
  destruct (lo128 (u + hi128 u * v) <? r0).
  - destruct (d <=? wrap (r0 + d)); intros E; injection E as <- <-; split; apply PfDivBase.wrap_range.
  - destruct (d <=? r0); intros E; injection E as <- <-; split; apply PfDivBase.wrap_range.
Qed.

Lemma wrap128_range' x : 0 <= wrap128 x < BB.
Proof. unfold wrap128. apply Z.mod_pos_bound. reflexivity. Qed.

Lemma div_3x2_mg10_range u21 u0 d v q r :
  DivSmall.div_3x2_mg10 u21 u0 d v = Val (q, r) -> inW q /\ 0 <= r < BB.
Proof.
  unfold DivSmall.div_3x2_mg10. destruct (d <? 2 ^ 127); [discriminate|].
  destruct (negb (u21 <? d)); [discriminate|].
  destruct (reciprocal_2_mg10 d) as [rv| | | |]; cbn [obind]; try discriminate.
  destruct (negb (v =? rv)); [discriminate|]. unfold DivSmall.div_3x2_body.
  destruct (BB <=? hi128 u21 * v + u21); [discriminate|].
  set (qq := hi128 u21 * v + u21).
  set (r0 := wrap128 (wrap128 (join (wrap (lo128 u21 - wrap (hi128 qq * hi128 d))) u0 - lo128 d * hi128 qq) - d)).
  destruct (lo128 qq <=? hi128 r0).
  - destruct (d <=? wrap128 (r0 + d)); intros E; injection E as <- <-;
      split; try apply PfDivBase.wrap_range; apply wrap128_range'.
  - destruct (d <=? r0); intros E; injection E as <- <-;
      split; try apply PfDivBase.wrap_range; apply wrap128_range'.
Qed.

Lemma reciprocal_mg10_inW d v : reciprocal_mg10 d = Val v -> inW v.
Proof.
  unfold reciprocal_mg10. destruct (d <? 2 ^ 63); [discriminate|].
  intros E. injection E as <-. apply PfDivBase.wrap_range.
Qed.

Lemma reciprocal_2_mg10_inW d v : reciprocal_2_mg10 d = Val v -> inW v.
Proof.
  unfold reciprocal_2_mg10. destruct (d <? 2 ^ 127); [discriminate|].
  destruct (reciprocal_mg10 (hi128 d)) as [v1| | | |] eqn:E1; cbn [obind]; try discriminate.
  apply reciprocal_mg10_inW in E1. intros E. injection E as <-. unfold recip2_body.
  repeat match goal with
  | |- context [if ?c then _ else _] => destruct c
  | |- inW (let '(_, _) := ?p in _) => destruct p
  end; cbv beta iota; try apply PfDivBase.wrap_range; try exact E1.
Qed.

Definition nx1_stepo (d v : Z) (x r : Z) : outcome (Z * Z) :=
  do qr <- DivSmall.div_2x1_mg10 (join r x) d v ; Val (fst qr, snd qr).
Definition nx2_stepo (d v : Z) (x r : Z) : outcome (Z * Z) :=
  do qr <- DivSmall.div_3x2_mg10 r x d v ; Val (fst qr, snd qr).

Lemma nx1_rloop d v l : forall r, rloop Z (nx1_stepo d v) l r = DivSmall.nx1_norm_loop l d v r.
Proof.
  induction l as [|x l IH]; intros r; [reflexivity|].
  cbn [rloop DivSmall.nx1_norm_loop]. unfold nx1_stepo at 1.
  destruct (DivSmall.div_2x1_mg10 (join r x) d v) as [[q r1]| | | |]; cbn [obind fst snd]; try reflexivity.
  rewrite IH. reflexivity.
Qed.
Lemma nx2_rloop d v l : forall r, rloop Z (nx2_stepo d v) l r = DivSmall.nx2_norm_loop l d v r.
Proof.
  induction l as [|x l IH]; intros r; [reflexivity|].
  cbn [rloop DivSmall.nx2_norm_loop]. unfold nx2_stepo at 1.
  destruct (DivSmall.div_3x2_mg10 r x d v) as [[q r1]| | | |]; cbn [obind fst snd]; try reflexivity.
  rewrite IH. reflexivity.
Qed.

Lemma join_range r x : inW r -> inW x -> 0 <= join r x < BB.
Proof. unfold inW, join. rewrite BB_sq. intros. nia. Qed.

Lemma g_div_nx1_normalized_eq u d :
  Forall inW u -> inW d ->
  g_div_nx1_normalized u d = omap (fun p => (snd p, fst p)) (DivSmall.div_nx1_normalized u d).
Proof.
  intros Hu Hd. unfold g_div_nx1_normalized, DivSmall.div_nx1_normalized.
  change 9223372036854775808 with (2 ^ 63).
  destruct (Z.ltb_spec d (2 ^ 63)) as [H|H].
  { destruct (Z.leb_spec (2 ^ 63) d); [lia | reflexivity]. }
  destruct (Z.leb_spec (2 ^ 63) d); [|lia]. cbn [negb].
  rewrite g_reciprocal_mg10_eq by exact Hd.
  destruct (reciprocal_mg10 d) as [v| | | |] eqn:Ev; cbn [obind omap]; try reflexivity.
  pose proof (reciprocal_mg10_inW d v Ev) as Hv.
  unfold lenZ. rewrite Nat2Z.id.
  pose proof (idx_loop_rev (list Z * Z) Z (fun l s => (l, s)) (nx1_stepo d v) inW inW
    (fun i_u t_6 => let '(u, r) := t_6 in
       do t_2 <- idx u i_u ; let n := (g_dw_join r t_2) in
       do t_3 <- g_div_2x1_mg10 n d v ; let '(q, r0) := t_3 in
       let t_4 := q in do _ <- idx u i_u ; let u := upd u i_u t_4 in
       let r := r0 in Val (u, r))) as L.
  pose proof (L ltac:(
    intros pre x post s Hs Hx; cbv beta iota zeta; rewrite ?idx_app_mid; cbn [obind];
    rewrite g_dw_join_eq by assumption;
    rewrite g_div_2x1_mg10_eq by (try apply join_range; assumption);
    unfold nx1_stepo;
    destruct (DivSmall.div_2x1_mg10 (join s x) d v) as [[q r1]| | | |] eqn:E2; cbn [obind fst snd];
    (split; [try reflexivity | intros r' s' E'; try discriminate]);
    [ cbv beta iota; rewrite ?idx_app_mid; cbn [obind]; rewrite upd_app_mid; reflexivity
    | injection E' as <- <-; apply (div_2x1_mg10_range _ _ _ _ _ E2) ])
    u [] 0 ltac:(unfold inW; pose proof B_pos; lia) Hu) as E.
  rewrite app_nil_r in E. cbv beta zeta in E |- *. rewrite E. rewrite nx1_rloop.
  destruct (DivSmall.nx1_norm_loop (rev u) d v 0) as [[rs r]| | | |]; cbn [obind fst snd]; try reflexivity.
  rewrite app_nil_r. reflexivity.
Qed.

Lemma g_div_nx2_normalized_eq u d :
  Forall inW u -> 0 <= d < BB ->
  g_div_nx2_normalized u d = omap (fun p => (snd p, fst p)) (DivSmall.div_nx2_normalized u d).
Proof.
  intros Hu Hd. unfold g_div_nx2_normalized, DivSmall.div_nx2_normalized.
  change 170141183460469231731687303715884105728 with (2 ^ 127).
  destruct (Z.ltb_spec d (2 ^ 127)) as [H|H].
  { destruct (Z.leb_spec (2 ^ 127) d); [lia | reflexivity]. }
  destruct (Z.leb_spec (2 ^ 127) d); [|lia]. cbn [negb].
  rewrite g_reciprocal_2_mg10_eq by exact Hd.
  destruct (reciprocal_2_mg10 d) as [v| | | |] eqn:Ev; cbn [obind omap]; try reflexivity.
  pose proof (reciprocal_2_mg10_inW d v Ev) as Hv.
  unfold lenZ. rewrite Nat2Z.id.
  pose proof (idx_loop_rev (list Z * Z) Z (fun l s => (l, s)) (nx2_stepo d v) (fun r => 0 <= r < BB) inW
    (fun i_u t_6 => let '(u, remainder) := t_6 in
       do t_2 <- idx u i_u ; do t_3 <- g_div_3x2_mg10 remainder t_2 d v ; let '(q, r) := t_3 in
       let t_4 := q in do _ <- idx u i_u ; let u := upd u i_u t_4 in
       let remainder := r in Val (u, remainder))) as L.
  pose proof (L ltac:(
    intros pre x post s Hs Hx; cbv beta iota zeta; rewrite ?idx_app_mid; cbn [obind];
    rewrite g_div_3x2_mg10_eq by assumption;
    unfold nx2_stepo;
    destruct (DivSmall.div_3x2_mg10 s x d v) as [[q r1]| | | |] eqn:E2; cbn [obind fst snd];
    (split; [try reflexivity | intros r' s' E'; try discriminate]);
    [ cbv beta iota; rewrite ?idx_app_mid; cbn [obind]; rewrite upd_app_mid; reflexivity
    | injection E' as <- <-; apply (div_3x2_mg10_range _ _ _ _ _ _ E2) ])
    u [] 0 ltac:(rewrite BB_val; lia) Hu) as E.
  rewrite app_nil_r in E. cbv beta zeta in E |- *. rewrite E. rewrite nx2_rloop.
  destruct (DivSmall.nx2_norm_loop (rev u) d v 0) as [[rs r]| | | |]; cbn [obind fst snd]; try reflexivity.
  rewrite app_nil_r. reflexivity.
Qed.
