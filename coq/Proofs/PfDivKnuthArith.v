(* Proofs/PfDivKnuthArith.v — the integer facts behind one Knuth step with a 3-by-2 estimate:
   the estimate is the true digit or one too large; the forced digit B-1 is exact. *)
From Coq Require Import ZArith List Bool Lia.
From RV.Model Require Import Base Word.
From RV.Proofs Require Import BaseFacts PfDivBase.
Local Open Scope Z_scope.

Lemma mul_lt_cancel_r a b p : 0 < p -> a * p < b * p -> a < b.
Proof. intros Hp H. apply (Z.mul_lt_mono_pos_r p); assumption. Qed.
Lemma mul_le_cancel_r a b p : 0 < p -> a * p <= b * p -> a <= b.
Proof. intros Hp H. apply (Z.mul_le_mono_pos_r _ _ p); assumption. Qed.

(* top part T of the window is below d * B whenever the window is below D * B *)
Lemma top_lt P d D T W :
  0 < P -> d * P <= D < (d + 1) * P -> T * P <= W -> W < D * B -> 0 < B ->
  T < (d + 1) * B.
Proof.
  intros HP HD HT HW HB.
  apply (mul_lt_cancel_r _ _ P HP).
  assert (D * B < (d + 1) * P * B) by (apply Z.mul_lt_mono_pos_r; lia).
  replace ((d + 1) * B * P) with ((d + 1) * P * B) by ring. lia.
Qed.

(* the 3-by-2 estimate q^ = T / d satisfies  -D <= W - q^ D < D *)
Lemma estimate_bounds P d D T W :
  0 < P -> B <= d -> 0 < B ->
  d * P <= D < (d + 1) * P ->
  T * P <= W < (T + 1) * P ->
  0 <= T < d * B -> W < D * B ->
  let q := T / d in
  0 <= q < B /\ - D <= W - q * D < D.
Proof.
  intros HP Hd HB HD HW HT HWD q.
  assert (Hdpos : 0 < d) by lia.
  pose proof (Z.div_mod T d ltac:(lia)) as E. pose proof (Z.mod_pos_bound T d Hdpos) as Hr.
  fold q in E. set (r := T mod d) in *.
  assert (Hq : 0 <= q < B).
  { subst q. split; [apply Z.div_pos; lia | apply Z.div_lt_upper_bound; lia]. }
  split; [exact Hq|]. split.
  - (* W - q D >= -D :  W >= T P, D < (d+1) P, T = q d + r, q <= d *)
    destruct (Z.eq_dec q 0) as [Hq0|Hq0]; [rewrite Hq0; nia|].
    assert (H1 : (q - 1) * D <= (q - 1) * ((d + 1) * P)) by (apply Z.mul_le_mono_nonneg_l; lia).
    assert (H2 : (q - 1) * ((d + 1) * P) = ((q - 1) * (d + 1)) * P) by ring.
    assert (H3 : (q - 1) * (d + 1) <= T) by nia.
    assert (H4 : ((q - 1) * (d + 1)) * P <= T * P) by (apply Z.mul_le_mono_nonneg_r; lia).
    lia.
  - (* W - q D < D :  W < (T+1) P <= (q+1) d P <= (q+1) D *)
    assert (H1 : T + 1 <= (q + 1) * d) by nia.
    assert (H2 : (T + 1) * P <= (q + 1) * d * P) by (apply Z.mul_le_mono_nonneg_r; lia).
    assert (H3 : (q + 1) * (d * P) <= (q + 1) * D) by (apply Z.mul_le_mono_nonneg_l; lia).
    lia.
Qed.

(* forced digit: top two limbs of the window equal the divisor's *)
Lemma forced_digit P d D T W :
  0 < P -> B - 1 <= d -> 0 < B ->
  d * P <= D < (d + 1) * P ->
  T * P <= W -> d * B <= T -> W < D * B ->
  0 <= W - (B - 1) * D < D.
Proof.
  intros HP Hd HB HD HW HT HWD. split; [|lia].
  assert (H1 : (B - 1) * D <= (B - 1) * ((d + 1) * P - 1)) by (apply Z.mul_le_mono_nonneg_l; lia).
  assert (H2 : d * B * P <= T * P) by (apply Z.mul_le_mono_nonneg_r; lia).
  assert (H3 : 0 <= (d - (B - 1)) * P) by (apply Z.mul_nonneg_nonneg; lia).
  nia.
Qed.

(* unique decomposition below/above B^n *)
Lemma split_unique Pn x y a b :
  0 < Pn -> 0 <= x < Pn -> 0 <= y < Pn -> x + Pn * a = y + Pn * b -> x = y /\ a = b.
Proof. intros HP Hx Hy E. assert (a = b) by nia. subst. lia. Qed.

(* x * 2^s split at limb k+1 *)
Lemma shift_split k x3 xlo s :
  0 <= s < 64 -> inW x3 -> 0 <= xlo < B ^ Z.of_nat k ->
  exists rest, (xlo + B ^ Z.of_nat k * x3) * 2 ^ s =
               B ^ Z.of_nat (S k) * (x3 / 2 ^ (64 - s)) + rest /\ 0 <= rest < B ^ Z.of_nat (S k).
Proof.
  intros Hs Hx Hlo. rewrite Bn_S. set (P := B ^ Z.of_nat k) in *.
  assert (HP : 0 < P) by apply Bn_pos.
  assert (H1 : 0 < 2 ^ s) by (apply Z.pow_pos_nonneg; lia).
  assert (H2 : 0 < 2 ^ (64 - s)) by (apply Z.pow_pos_nonneg; lia).
  assert (HBs : B = 2 ^ (64 - s) * 2 ^ s).
  { rewrite <- Z.pow_add_r by lia. rewrite B_pow. f_equal. lia. }
  unfold inW in Hx.
  pose proof (Z.div_mod x3 (2 ^ (64 - s)) ltac:(lia)) as E.
  pose proof (Z.mod_pos_bound x3 (2 ^ (64 - s)) H2) as Hr.
  set (h := x3 / 2 ^ (64 - s)) in *. set (l := x3 mod 2 ^ (64 - s)) in *.
  exists (P * (l * 2 ^ s) + xlo * 2 ^ s). split.
  - rewrite E at 1. rewrite HBs. ring.
  - assert (0 <= l * 2 ^ s <= B - 2 ^ s) by (rewrite HBs; nia).
    assert (0 <= xlo * 2 ^ s <= (P - 1) * 2 ^ s) by nia.
    nia.
Qed.

(* top parts of a shifted number: X = xlo + B^k x3 + B^(k+1) Y, 0 <= s < 64 *)
Lemma shifted_top k xlo x3 Y s :
  0 <= s < 64 -> inW x3 -> 0 <= xlo < B ^ Z.of_nat k ->
  let P := B ^ Z.of_nat (S k) in
  let X := xlo + B ^ Z.of_nat k * x3 + P * Y in
  let Y' := Y * 2 ^ s + x3 / 2 ^ (64 - s) in
  Y' * P <= X * 2 ^ s < (Y' + 1) * P.
Proof.
  intros Hs Hx Hlo P X Y'.
  destruct (shift_split k x3 xlo s Hs Hx Hlo) as (rest & E & Hr). fold P in E, Hr.
  assert (EX : X * 2 ^ s = Y' * P + rest).
  { subst X Y'. replace ((xlo + B ^ Z.of_nat k * x3 + P * Y) * 2 ^ s)
      with ((xlo + B ^ Z.of_nat k * x3) * 2 ^ s + P * Y * 2 ^ s) by ring.
    rewrite E. ring. }
  lia.
Qed.

Lemma scale_bounds V D s : 0 <= s -> - (D * 2 ^ s) <= V * 2 ^ s < D * 2 ^ s -> - D <= V < D.
Proof.
  intros Hs H. assert (0 < 2 ^ s) by (apply Z.pow_pos_nonneg; lia).
  split.
  - apply (mul_le_cancel_r _ _ (2 ^ s)); lia.
  - apply (mul_lt_cancel_r _ _ (2 ^ s)); lia.
Qed.
Lemma scale_bounds0 V D s : 0 <= s -> 0 <= V * 2 ^ s < D * 2 ^ s -> 0 <= V < D.
Proof.
  intros Hs H. assert (0 < 2 ^ s) by (apply Z.pow_pos_nonneg; lia).
  split.
  - apply (mul_le_cancel_r _ _ (2 ^ s)); lia.
  - apply (mul_lt_cancel_r _ _ (2 ^ s)); lia.
Qed.
