(* Proofs/PfGenFold.v — the trait glue of src/add.rs and src/mul.rs: Sum / Product (`iter.fold(init, Self::g)`
   over an iterator of Uint, given as a list) and Neg. *)
From Coq Require Import ZArith List Bool Lia.
From RV.Model Require Import Base Word.
From RV.Model Require Add Mul UDiv.
From RV.Gen Require Import Prim Scalar.
From RV.Proofs Require Import BaseFacts PfGenScalar PfGenAdd PfGenMul PfGenCtor.
From RV.Proofs Require PfMul PfGcdUint PfModelsAgree.
Import ListNotations.

Section F.
  Variable bits : Z.
  Hypothesis H0 : 0 <= bits.
  Hypothesis HB : nlimbs bits <= B.

  Lemma sum_loop : forall xs acc, canon bits acc -> Forall (canon bits) xs ->
    fold_outcome (fun acc_ x_ => g_wrapping_add bits (nlimbs bits) acc_ x_) xs acc
    = Val (fold_left (Add.wrapping_add bits) xs acc).
  Proof.
    induction xs as [|x t IH]; intros acc Ca Hx; cbn [fold_outcome fold_left]; [reflexivity|].
    inversion Hx as [|? ? Cx Ht]; subst.
    pose proof Ca as (La & _). pose proof Cx as (Lx & _).
    rewrite (g_wrapping_add_eq bits acc x H0 HB La Lx). cbn [obind].
    apply IH; [|exact Ht]. apply (PfGcdUint.uadd_spec bits acc x H0 Ca Cx).
  Qed.

  Lemma mul_loop : forall xs acc, canon bits acc -> Forall (canon bits) xs ->
    fold_outcome (fun acc_ x_ => g_wrapping_mul bits (nlimbs bits) acc_ x_) xs acc
    = Mul.fold_mul bits xs acc.
  Proof.
    induction xs as [|x t IH]; intros acc Ca Hx; cbn [fold_outcome Mul.fold_mul]; [reflexivity|].
    inversion Hx as [|? ? Cx Ht]; subst.
    pose proof Ca as (La & Wa & _). pose proof Cx as (Lx & Wx & _).
    rewrite (g_wrapping_mul_eq bits acc x H0 HB La Lx Wa Wx).
    destruct (PfMul.wrapping_mul_spec bits acc x H0 La Lx Wa Wx) as (r & Er & Cr & _). rewrite Er. cbn [obind].
    apply IH; assumption.
  Qed.

  Lemma uONE_val : Mul.uONE bits = Val (UDiv.uone bits).
  Proof.
    unfold Mul.uONE. rewrite <- (g_const_from_u64_eq bits 1 H0 HB ltac:(rewrite B_val; lia)).
    pose proof (g_ONE_eq bits H0 HB) as E. unfold g_ONE in E.
    destruct (g_const_from_u64 bits (nlimbs bits) 1) as [v| | | |]; cbn [obind] in E; congruence.
  Qed.

  Theorem g_fold_glue_eq xs a : Forall (canon bits) xs -> length a = nlimbsN bits ->
    g_sum bits (nlimbs bits) xs = Val (Add.usum bits xs) /\
    g_sum_ref bits (nlimbs bits) xs = Val (Add.usum bits xs) /\
    g_product bits (nlimbs bits) xs = Mul.product bits xs /\
    g_product_ref bits (nlimbs bits) xs = Mul.product bits xs /\
    g_neg bits (nlimbs bits) a = Val (Add.wrapping_neg bits a) /\
    g_neg_ref bits (nlimbs bits) a = Val (Add.wrapping_neg bits a).
  Proof.
    intros Hx La.
    destruct (canon_uZERO bits H0) as [Cz _].
    assert (Es : g_sum bits (nlimbs bits) xs = Val (Add.usum bits xs)).
    { unfold g_sum, Add.usum. rewrite (sum_loop xs _ Cz Hx). reflexivity. }
    assert (Ep : g_product bits (nlimbs bits) xs = Mul.product bits xs).
    { unfold g_product, Mul.product. destruct (Z.eqb_spec bits 0) as [E|N]; [reflexivity|].
      rewrite uONE_val. cbn [obind].
      assert (C1 : canon bits (UDiv.uone bits)).
      { rewrite PfModelsAgree.agree_udiv_uone, <- PfModelsAgree.agree_gcdmatrix_uONE.
        apply (PfGcdUint.uONE_spec bits ltac:(lia)). }
      rewrite (mul_loop xs _ C1 Hx). destruct (Mul.fold_mul bits xs (UDiv.uone bits)); reflexivity. }
    assert (En : g_neg bits (nlimbs bits) a = Val (Add.wrapping_neg bits a)).
    { unfold g_neg. rewrite (g_wrapping_neg_eq bits a H0 HB La). reflexivity. }
    repeat split; assumption.
  Qed.
End F.
