(* Proofs/PfGcdInv.v — algorithms::inv_mod (Model/Gcd.inv_mod): Some x with x < m and
   num * x = 1 (mod m) exactly when m >= 2 and gcd(num, m) = 1, None otherwise.
   The tracked cofactor t is kept by magnitude T and by the sign the `even` flag implies:
   a*T1 + b*T0 = m, T0 <= T1, a = t0 * num and b = t1 * num (mod m). *)
From Coq Require Import ZArith Znumtheory List Bool Lia.
From RV.Model Require Import Base Word Limbs GcdMatrix Gcd.
From RV.Proofs Require Import BaseFacts PfC01 PfGcdUint PfGcd PfGcdMatrix.
From RV.Run Require Import RunC12.
Import ListNotations.
Local Open Scope Z_scope.

Definition ta (even : bool) (T0 : Z) : Z := if even then - T0 else T0.
Definition tb (even : bool) (T1 : Z) : Z := if even then T1 else - T1.

(* the integer-level invariant *)
Record zinv (M Nb : Z) (even : bool) (a b T0 T1 : Z) : Prop := {
  zi_T : 0 <= T0 <= T1;
  zi_mag : a * T1 + b * T0 = M;
  zi_a : (M | a - ta even T0 * Nb);
  zi_b : (M | b - tb even T1 * Nb)
}.

Definition nonneg (m : mat) : Prop := 0 <= m0 m /\ 0 <= m1 m /\ 0 <= m2 m /\ 0 <= m3 m.

Lemma zinv_step M Nb even a b T0 T1 m :
  unimod m -> nonneg m -> zinv M Nb even a b T0 T1 ->
  let even' := xorb even (negb (m4 m)) in
  let T0' := m0 m * T0 + m1 m * T1 in
  let T1' := m2 m * T0 + m3 m * T1 in
  zinv M Nb even' (fst (zmap m a b)) (snd (zmap m a b)) T0' T1' /\
  zmap m (ta even T0) (tb even T1) = (ta even' T0', tb even' T1').
Proof.
  intros (Det & R0 & R1) (N0 & N1 & N2 & N3) [HT Hmag Ha Hb]. cbv zeta.
  unfold zmap. destruct m as [e0 e1 e2 e3 s]. cbn [m0 m1 m2 m3 m4 fst snd] in *.
  assert (Mon : e0 * T0 + e1 * T1 <= e2 * T0 + e3 * T1).
  { assert (e0 * T0 <= e2 * T0) by (apply Z.mul_le_mono_nonneg_r; lia).
    assert (e1 * T1 <= e3 * T1) by (apply Z.mul_le_mono_nonneg_r; lia). lia. }
  assert (Pos : 0 <= e0 * T0 + e1 * T1).
  { assert (0 <= e0 * T0) by (apply Z.mul_nonneg_nonneg; lia).
    assert (0 <= e1 * T1) by (apply Z.mul_nonneg_nonneg; lia). lia. }
  destruct s, even; cbn [xorb negb ta tb fst snd] in *; (split; [constructor|]).
  all: try lia.
  all: try (f_equal; ring).
  all: try (first
    [ transitivity ((e0 * e3 - e1 * e2) * (a * T1 + b * T0)); [ring | rewrite Det, Hmag; ring]
    | transitivity (- (e0 * e3 - e1 * e2) * (a * T1 + b * T0)); [ring | rewrite Det, Hmag; ring] ]).
  all: unfold ta, tb.
  all: match goal with
       | Ha : Z.divide ?MM ?x, Hb : Z.divide ?MM ?y |- Z.divide ?MM ?g =>
           first [ replace g with (e0 * x - e1 * y) by ring
                 | replace g with (e3 * y - e2 * x) by ring
                 | replace g with (e1 * y - e0 * x) by ring
                 | replace g with (e2 * x - e3 * y) by ring ];
           apply Z.divide_sub_r; apply Z.divide_mul_r; assumption
       end.
Qed.

(* ---------- the loop ---------- *)
Definition iinv (bits M Nb : Z) (s : istate) (T0 T1 : Z) : Prop :=
  canon bits (ia s) /\ canon bits (ib s) /\ canon bits (it0 s) /\ canon bits (it1 s) /\
  zinv M Nb (ieven s) (eval (ia s)) (eval (ib s)) T0 T1 /\
  eval (it0 s) = ta (ieven s) T0 mod 2 ^ bits /\ eval (it1 s) = tb (ieven s) T1 mod 2 ^ bits /\
  Z.gcd (eval (ia s)) (eval (ib s)) = Z.gcd M Nb.

Lemma iinv_step bits M Nb s T0 T1 m a' b' t0' t1' :
  0 < bits -> unimod m -> nonneg m -> iinv bits M Nb s T0 T1 ->
  canon bits a' -> canon bits b' -> canon bits t0' -> canon bits t1' ->
  eval a' = fst (zmap m (eval (ia s)) (eval (ib s))) ->
  eval b' = snd (zmap m (eval (ia s)) (eval (ib s))) ->
  eval t0' = fst (zmap m (eval (it0 s)) (eval (it1 s))) mod 2 ^ bits ->
  eval t1' = snd (zmap m (eval (it0 s)) (eval (it1 s))) mod 2 ^ bits ->
  Z.gcd (eval a') (eval b') = Z.gcd (eval (ia s)) (eval (ib s)) ->
  iinv bits M Nb (IS a' b' t0' t1' (xorb (ieven s) (negb (m4 m))))
       (m0 m * T0 + m1 m * T1) (m2 m * T0 + m3 m * T1).
Proof.
  intros Hb Um Nn (Ca & Cb & C0 & C1 & Zi & E0 & E1 & G) Ca' Cb' C0' C1' Ea Eb Et0 Et1 Eg.
  pose proof (pow2_pos' bits ltac:(lia)) as HP.
  destruct (zinv_step M Nb (ieven s) _ _ T0 T1 m Um Nn Zi) as [Zi' Zt]. cbv zeta in Zi', Zt.
  unfold iinv. cbn [ia ib it0 it1 ieven]. do 4 (split; [assumption|]).
  rewrite Ea, Eb. split; [exact Zi'|].
  assert (L0 : eval (it0 s) mod 2 ^ bits = ta (ieven s) T0 mod 2 ^ bits) by (rewrite E0; apply Z.mod_mod; lia).
  assert (L1 : eval (it1 s) mod 2 ^ bits = tb (ieven s) T1 mod 2 ^ bits) by (rewrite E1; apply Z.mod_mod; lia).
  destruct (zmap_lin m (2 ^ bits) _ _ _ _ HP L0 L1) as [K0 K1]. rewrite Zt in K0, K1. cbn [fst snd] in K0, K1.
  split; [rewrite Et0; exact K0|]. split; [rewrite Et1; exact K1|].
  rewrite <- Ea, <- Eb, Eg. exact G.
Qed.

Section Inv.
  Hypothesis HD : DivKernelOK.

  Lemma inv_loop_spec bits M Nb : 0 < bits -> forall fuel s T0 T1,
    iinv bits M Nb s T0 T1 -> eval (ib s) <= eval (ia s) ->
    (eval (ib s) = 0 \/ eval (ia s) * eval (ib s) < 2 ^ (Z.of_nat fuel - 1)) ->
    exists s' T0' T1', inv_loop fuel bits s = Val s' /\ iinv bits M Nb s' T0' T1' /\ eval (ib s') = 0.
  Proof.
    intros Hb. pose proof (pow2_pos' bits ltac:(lia)) as HM.
    induction fuel as [|fuel IH]; intros s T0 T1 Hinv Hle Hm;
      pose proof Hinv as (Ca & Cb & C0 & C1 & Zi & E0 & E1 & G);
      pose proof (canon_range bits _ ltac:(lia) Ca) as Ra; pose proof (canon_range bits _ ltac:(lia) Cb) as Rb.
    - cbn [inv_loop]. rewrite is_zero_spec by (auto; lia).
      destruct (Z.eqb_spec (eval (ib s)) 0) as [E|E].
      + exists s, T0, T1. auto.
      + exfalso. destruct Hm as [Hm|Hm]; [lia|]. cbn in Hm. nia.
    - cbn [inv_loop]. rewrite is_zero_spec by (auto; lia).
      destruct (Z.eqb_spec (eval (ib s)) 0) as [E|E].
      + exists s, T0, T1. auto.
      + destruct Hm as [Hm|Hm]; [lia|].
        rewrite (ult_spec bits) by auto. destruct (Z.ltb_spec (eval (ia s)) (eval (ib s))); [lia|].
        assert (Hf1 : 0 <= Z.of_nat fuel - 1).
        { destruct fuel; [|lia]. exfalso. cbn in Hm. nia. }
        assert (Hsplit : 2 ^ (Z.of_nat (S fuel) - 1) = 2 * 2 ^ (Z.of_nat fuel - 1)).
        { replace (Z.of_nat (S fuel) - 1) with (1 + (Z.of_nat fuel - 1)) by lia.
          rewrite Z.pow_add_r by lia. reflexivity. }
        destruct (LehmerStepOK_holds bits (ia s) (ib s) ltac:(lia) Ca Cb ltac:(lia))
          as (m & -> & Wm & [->|(Hn & Hf & Um & Hg)]).
        * (* Euclidean step = the matrix (0 1; 1 q) with sign false *)
          cbn [obind]. change (mat_eqb IDENTITY IDENTITY) with true. cbv iota.
          destruct (udiv_rem_spec HD bits _ _ ltac:(lia) Ca Cb ltac:(lia)) as (q & r & E' & Cq & Cr & Eq & Er).
          unfold udiv. rewrite E'. cbn [obind fst].
          destruct (euclid_upd_spec bits q _ _ ltac:(lia) Cq Ca Cb) as (b' & -> & Cb' & Eb'). cbn [obind].
          destruct (euclid_upd_spec bits q _ _ ltac:(lia) Cq C0 C1) as (t1' & -> & Ct1' & Et1'). cbn [obind fst snd].
          pose proof (Z.mod_pos_bound (eval (ia s)) (eval (ib s)) ltac:(lia)) as Hmb.
          pose proof (Z.div_mod (eval (ia s)) (eval (ib s)) ltac:(lia)) as Hdm.
          assert (Hq1 : 1 <= eval q) by (rewrite Eq; apply Z.div_le_lower_bound; lia).
          assert (Eb'' : eval b' = eval (ia s) mod eval (ib s)).
          { rewrite Eb', Eq. replace (eval (ia s) - eval (ia s) / eval (ib s) * eval (ib s))
              with (eval (ia s) mod eval (ib s)) by lia. apply Z.mod_small. lia. }
          set (Eq_m := Mat 0 1 1 (eval q) false).
          pose proof (canon_range bits _ ltac:(lia) C1) as R1.
          assert (St : iinv bits M Nb (IS (ib s) b' (it1 s) t1' (xorb (ieven s) (negb (m4 Eq_m))))
                         (m0 Eq_m * T0 + m1 Eq_m * T1) (m2 Eq_m * T0 + m3 Eq_m * T1)).
          { apply (iinv_step bits M Nb s T0 T1 Eq_m); auto; unfold Eq_m, unimod, nonneg, zmap;
              cbn [m0 m1 m2 m3 m4 fst snd]; try lia.
            all: try (rewrite Eb'', Eq; lia).
            all: try (rewrite Eb''; apply gcd_euclid_step; lia).
            all: try (rewrite Et1'; f_equal; ring).
            replace (1 * eval (it1 s) - 0 * eval (it0 s)) with (eval (it1 s)) by ring.
            symmetry. apply Z.mod_small. lia. }
          unfold Eq_m in St. cbn [m0 m1 m2 m3 m4 negb] in St. rewrite Bool.xorb_true_r in St.
          eapply IH; [exact St | cbn [ia ib]; lia |].
          cbn [ia ib]. right. rewrite Eb''.
          pose proof (euclid_halves (eval (ia s)) (eval (ib s)) ltac:(lia)). lia.
        * (* Lehmer step *)
          cbn [obind]. rewrite (mat_eqb_false _ _ Hn).
          destruct (apply_spec bits m _ _ Hb Wm Hf Ca Cb) as (c & d & -> & Cc & Cd & Ec & Ed). cbn [obind].
          destruct (apply_spec bits m _ _ Hb Wm Hf C0 C1) as (t0' & t1' & -> & Ct0' & Ct1' & Et0' & Et1'). cbn [obind fst snd].
          pose proof Hg as Hg'. unfold good_step in Hg'.
          destruct (zmap m (eval (ia s)) (eval (ib s))) as [C D] eqn:EZ. cbn [fst snd] in *.
          destruct Hg' as (G1 & G2 & G3 & G4 & G5).
          assert (EcC : eval c = C) by (rewrite Ec; apply Z.mod_small; lia).
          assert (EdD : eval d = D) by (rewrite Ed; apply Z.mod_small; lia).
          assert (St : iinv bits M Nb (IS c d t0' t1' (xorb (ieven s) (negb (m4 m))))
                         (m0 m * T0 + m1 m * T1) (m2 m * T0 + m3 m * T1)).
          { apply (iinv_step bits M Nb s T0 T1 m); auto.
            - destruct Wm as (W0 & W1 & W2 & W3). unfold nonneg, inW in *. lia.
            - rewrite EZ. exact EcC.
            - rewrite EZ. exact EdD.
            - rewrite EcC, EdD. exact G5. }
          eapply IH; [exact St | cbn [ia ib]; lia |].
          cbn [ia ib]. right. rewrite EcC, EdD. lia.
  Qed.

  Lemma mod1_of_divide M v : 2 <= M -> (M | v - 1) -> v mod M = 1.
  Proof.
    intros HM [k Hk]. replace v with (1 + k * M) by lia.
    rewrite Z.mod_add by lia. apply Z.mod_small. lia.
  Qed.

  Theorem inv_mod_spec bits n m :
    0 <= bits -> canon bits n -> canon bits m ->
    exists o, Gcd.inv_mod bits n m = Val o /\
      (if (2 <=? eval m) && (Z.gcd (eval n) (eval m) =? 1)
       then exists x, o = Some x /\ canon bits x /\ eval x < eval m /\ (eval n * eval x) mod eval m = 1
       else o = None).
  Proof.
    intros H Hn Hm. unfold Gcd.inv_mod.
    destruct (Z.eqb_spec bits 0) as [->|N0].
    { apply canon_zero_width in Hn, Hm. subst. exists None. split; reflexivity. }
    assert (Hpos : 0 < bits) by lia. pose proof (pow2_pos' bits H) as HP.
    pose proof (canon_range bits n H Hn) as Rn. pose proof (canon_range bits m H Hm) as Rm.
    set (N := eval n) in *. set (M := eval m) in *.
    rewrite is_zero_spec by auto. fold M. cbn [orb].
    destruct (Z.eqb_spec M 0) as [M0|M0].
    { exists None. split; [reflexivity|]. destruct (Z.leb_spec 2 M); [lia | reflexivity]. }
    (* b = num mod modulus *)
    assert (Hb : exists b, (if uge n m then urem n m else Val n) = Val b /\ canon bits b /\ eval b = N mod M).
    { rewrite (uge_spec bits) by auto. fold N M. destruct (Z.leb_spec M N).
      - destruct (udiv_rem_spec HD bits n m H Hn Hm ltac:(fold M; lia)) as (q & r & E & Cq & Cr & Eq & Er).
        exists r. unfold urem. rewrite E. cbn [obind snd]. auto.
      - exists n. split; [reflexivity|]. split; [exact Hn|]. fold N. symmetry. apply Z.mod_small. lia. }
    destruct Hb as (b & -> & Cb & Eb). cbn [obind].
    pose proof (Z.mod_pos_bound N M ltac:(lia)) as Hmb. set (Nb := N mod M) in *.
    assert (Ggcd : Z.gcd N M = Z.gcd M Nb).
    { unfold Nb. rewrite (Z.gcd_comm M), Z.gcd_mod by lia. apply Z.gcd_comm. }
    rewrite is_zero_spec by auto. rewrite Eb.
    destruct (Z.eqb_spec Nb 0) as [B0|B0].
    { exists None. split; [reflexivity|]. rewrite Ggcd, B0, Z.gcd_0_r, Z.abs_eq by lia.
      destruct (Z.leb_spec 2 M); cbn [andb]; [|reflexivity]. destruct (Z.eqb_spec M 1); [lia | reflexivity]. }
    assert (HM2 : 2 <= M) by lia.
    destruct (uONE_spec bits Hpos) as [C1 E1]. destruct (canon_uZERO bits H) as [C0 E0].
    (* the loop *)
    destruct (inv_loop_spec bits M Nb Hpos (gcd_fuel bits) (IS m b (uZERO bits) (uONE bits) true) 0 1)
      as (s & T0 & T1 & -> & (Ca & Cbb & Ct0 & Ct1 & Zi & Et0 & Et1 & G) & Ez).
    { unfold iinv. cbn [ia ib it0 it1 ieven ta tb]. do 4 (split; [assumption|]). fold M. rewrite Eb.
      split; [constructor; cbn [ta tb]; try lia|].
      - exists 1. ring.
      - exists 0. ring.
      - rewrite E0, E1. split; [reflexivity|]. split; [|reflexivity].
        symmetry. apply Z.mod_small.
        assert (2 ^ 1 <= 2 ^ bits) by (apply Z.pow_le_mono_r; lia). change (2 ^ 1) with 2 in *. lia. }
    { cbn [ia ib]. fold M. rewrite Eb. lia. }
    { cbn [ia ib]. fold M. rewrite Eb. right. apply fuel_enough; auto; lia. }
    cbn [obind].
    pose proof (canon_range bits _ H Ca) as Ra.
    rewrite Ez, Z.gcd_0_r, Z.abs_eq in G by lia.
    rewrite (list_eqb_canon bits) by auto. rewrite E1.
    destruct Zi as [ZT Zmag Za Zb]. rewrite Ez in Zmag.
    destruct (Z.eqb_spec (eval (ia s)) 1) as [G1|G1].
    - (* invertible *)
      rewrite G1 in *. assert (T1 = M) by lia. subst T1.
      assert (HT0 : 1 <= T0 <= M - 1).
      { assert (~ (M | T0)).
        { intros Hd. assert (Hd' : (M | ta (ieven s) T0 * Nb)).
          { apply Z.divide_mul_l. unfold ta. destruct (ieven s); [now apply Z.divide_opp_r | exact Hd]. }
          assert (H1 : (M | 1)).
          { replace 1 with ((1 - ta (ieven s) T0 * Nb) + ta (ieven s) T0 * Nb) by ring.
            now apply Z.divide_add_r. }
          apply Z.divide_1_r_nonneg in H1; lia. }
        destruct (Z.eq_dec T0 0) as [->|]; [exfalso; apply H0; apply Z.divide_0_r|].
        destruct (Z.eq_dec T0 M) as [->|]; [exfalso; apply H0; apply Z.divide_refl|]. lia. }
      rewrite <- Ggcd in G. rewrite <- G, Z.eqb_refl.
      destruct (Z.leb_spec 2 M); [|lia]. cbn [andb].
      assert (Hk : N = Nb + M * (N / M)) by (unfold Nb; pose proof (Z.div_mod N M ltac:(lia)); lia).
      destruct Za as [ka Eka].
      destruct (ieven s); cbn [ta] in *.
      + destruct (uadd_spec bits m (it0 s) H Hm Ct0) as [Cx Ex]. fold M in Ex.
        assert (Ex' : eval (uadd bits m (it0 s)) = M - T0).
        { rewrite Ex, Et0, Zplus_mod_idemp_r. replace (M + - T0) with (M - T0) by ring.
          apply Z.mod_small. lia. }
        eexists; split; [reflexivity|]. exists (uadd bits m (it0 s)).
        split; [reflexivity|]. split; [exact Cx|]. rewrite Ex'. split; [lia|].
        apply mod1_of_divide; [lia|]. exists (Nb + (N / M) * (M - T0) - ka).
        set (k := N / M) in *. rewrite Hk. lia.
      + assert (Ex' : eval (it0 s) = T0) by (rewrite Et0; apply Z.mod_small; lia).
        eexists; split; [reflexivity|]. exists (it0 s).
        split; [reflexivity|]. split; [exact Ct0|]. rewrite Ex'. split; [lia|].
        apply mod1_of_divide; [lia|]. exists ((N / M) * T0 - ka).
        set (k := N / M) in *. rewrite Hk. lia.
    - exists None. split; [reflexivity|]. rewrite Ggcd, <- G.
      destruct (Z.eqb_spec (eval (ia s)) 1); [contradiction|]. now rewrite andb_false_r.
  Qed.
End Inv.
