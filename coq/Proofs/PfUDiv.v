(* Proofs/PfUDiv.v — div.rs / special.rs helpers: is_zero, ONE, overflowing_mul / checked_mul
   (unconditional), and the Uint-level division functions relative to the limb-kernel contract
   DivKernelOK / DivKernelZero (property C14). *)
From Coq Require Import ZArith List Bool Lia.
From RV.Model Require Import Base Word Limbs Add Div UDiv.
From RV.Proofs Require Import BaseFacts PfAdd PfLimbs PfC01.
Import ListNotations.
Local Open Scope Z_scope.

(* ---------- the contract of the limb kernel `algorithms::div` (C14) ---------- *)
Definition DivKernelOK : Prop :=
  forall n d, Forall inW n -> Forall inW d -> eval d <> 0 ->
  exists q r, div_kernel n d = Val (q, r) /\ length q = length n /\ length r = length d /\
    Forall inW q /\ Forall inW r /\ eval q = eval n / eval d /\ eval r = eval n mod eval d.
Definition DivKernelZero : Prop :=
  forall n d, Forall inW d -> eval d = 0 -> div_kernel n d = Panic.

(* ---------- small list / representation facts ---------- *)
Lemma list_eqb_Z_eq (a b : list Z) : list_eqb Z.eqb a b = true <-> a = b.
Proof.
  revert b; induction a as [|x a IH]; intros [|y b]; cbn [list_eqb]; split; intros H;
    try reflexivity; try discriminate.
  - apply andb_true_iff in H. destruct H as [H1 H2]. apply Z.eqb_eq in H1. apply IH in H2. congruence.
  - inversion H; subst. rewrite Z.eqb_refl. cbn [andb]. now apply IH.
Qed.

Lemma uint_of_ok bits v :
  0 <= bits -> 0 <= v < 2 ^ bits -> canon bits (uint_of bits v) /\ eval (uint_of bits v) = v.
Proof.
  intros Hb Hv. unfold uint_of.
  assert (He : eval (to_limbs (nlimbsN bits) v) = v).
  { rewrite eval_to_limbs, nlimbsN_Z by lia. apply Z.mod_small.
    destruct (Z.eq_dec bits 0) as [->|N].
    - cbn in *. lia.
    - destruct (Bn_multiple bits ltac:(lia)) as (k & Hk & E). rewrite E. nia. }
  split; [|exact He]. unfold canon. rewrite to_limbs_length, He.
  repeat split; auto using to_limbs_inW. lia.
Qed.

Lemma is_zero_spec bits a :
  0 <= bits -> canon bits a -> is_zero bits a = (eval a =? 0).
Proof.
  intros Hb Ha. unfold is_zero. destruct (canon_uZERO bits Hb) as [Hz Hz0].
  destruct (Z.eqb_spec (eval a) 0) as [E|E].
  - apply list_eqb_Z_eq. rewrite (uint_of_unique bits a 0 Ha E).
    symmetry. now apply uint_of_unique.
  - destruct (list_eqb Z.eqb a (uZERO bits)) eqn:L; [|reflexivity].
    apply list_eqb_Z_eq in L. subst a. contradiction.
Qed.

Lemma uone_spec bits : 0 < bits -> canon bits (uone bits) /\ eval (uone bits) = 1.
Proof.
  intros Hb. unfold uone. destruct (Z.eqb_spec bits 0) as [?|_]; [lia|].
  destruct (canon_uZERO bits ltac:(lia)) as [(Hl & Hw & _) He].
  pose proof (nlimbs_pos bits Hb) as Hn. pose proof (nlimbsN_Z bits ltac:(lia)) as HnZ.
  destruct (uZERO bits) as [|z t] eqn:E.
  - cbn [length] in Hl. lia.
  - assert (Hz : z = 0 /\ eval t = 0).
    { unfold uZERO, zero_limbs in E. destruct (nlimbsN bits); cbn [repeat] in E; [discriminate|].
      inversion E; subst. split; [reflexivity | apply eval_repeat0]. }
    destruct Hz as [-> Ht]. inversion Hw as [|? ? _ Hwt]; subst.
    assert (Hev : eval (1 :: t) = 1) by (cbn [eval]; rewrite Ht; lia).
    split; [|exact Hev]. unfold canon. rewrite Hev. repeat split.
    + exact Hl.
    + constructor; [|exact Hwt]. unfold inW. rewrite B_val. lia.
    + assert (2 ^ 1 <= 2 ^ bits) by (apply Z.pow_le_mono_r; lia). lia.
Qed.

(* ---------- mul.rs ---------- *)
Theorem overflowing_mul_spec bits a b :
  0 <= bits -> canon bits a -> canon bits b ->
  let '(r, f) := overflowing_mul bits a b in
  canon bits r /\ eval r = (eval a * eval b) mod 2 ^ bits /\
  f = (2 ^ bits <=? eval a * eval b).
Proof.
  intros Hb Ha Hc. unfold overflowing_mul.
  destruct (Z.eq_dec bits 0) as [->|N].
  - apply canon_zero_width in Ha, Hc. subst. cbn. unfold canon. cbn. repeat split; auto.
  - assert (Hpos : 0 < bits) by lia.
    destruct (canon_uZERO bits Hb) as [(Hlz & Hwz & _) Hez].
    pose proof (canon_range bits a Hb Ha) as Hra. pose proof (canon_range bits b Hb Hc) as Hrb.
    destruct Ha as (Hla & Hwa & _), Hc as (Hlb & Hwb & _).
    pose proof (addmul_spec (uZERO bits) a b Hwz Hwa Hwb) as S.
    destruct (addmul (uZERO bits) a b) as [r ov]. cbn zeta in S.
    rewrite Hez, Z.add_0_l, Hlz, nlimbsN_Z in S by lia.
    destruct S as (Hlr & Hwr & Her & Hov).
    destruct (Z.ltb_spec 0 bits); [|lia].
    destruct (masked_spec bits r Hpos Hlr Hwr) as [Hcan Hev].
    rewrite (last_gt_mask bits r Hpos Hlr Hwr).
    destruct (Bn_multiple bits Hpos) as (k & Hk & HBk).
    assert (H2 : 0 < 2 ^ bits) by (apply Z.pow_pos_nonneg; lia).
    set (T := eval a * eval b) in *. assert (HT : 0 <= T) by (unfold T; nia).
    split; [exact Hcan|]. split.
    + rewrite Hev, Her, HBk. rewrite Z.rem_mul_r by lia.
      rewrite (Z.mul_comm (2 ^ bits)), Z.mod_add by lia. apply Z.mod_mod. lia.
    + subst ov. rewrite Her.
      destruct (Z.leb_spec (B ^ nlimbs bits) T) as [L|L]; cbn [orb].
      * symmetry. apply Z.leb_le. nia.
      * rewrite Z.mod_small by lia. reflexivity.
Qed.

Lemma checked_mul_eq bits a b :
  0 <= bits -> canon bits a -> canon bits b ->
  checked_mul bits a b =
  if 2 ^ bits <=? eval a * eval b then None else Some (uint_of bits (eval a * eval b)).
Proof.
  intros Hb Ha Hc. unfold checked_mul.
  pose proof (overflowing_mul_spec bits a b Hb Ha Hc) as S.
  destruct (overflowing_mul bits a b) as [r f]. destruct S as (Hcan & He & ->).
  pose proof (canon_range bits a Hb Ha). pose proof (canon_range bits b Hb Hc).
  destruct (Z.leb_spec (2 ^ bits) (eval a * eval b)); [reflexivity|].
  f_equal. apply uint_of_unique; [exact Hcan|]. rewrite He. apply Z.mod_small. nia.
Qed.

(* ---------- div.rs relative to the kernel contract ---------- *)
Section WithKernel.
  Hypothesis HK : DivKernelOK.
  Hypothesis HZ : DivKernelZero.

  Lemma div_rem_eq bits a b :
    0 <= bits -> canon bits a -> canon bits b -> eval b <> 0 ->
    div_rem a b = Val (uint_of bits (eval a / eval b), uint_of bits (eval a mod eval b)).
  Proof.
    intros Hb Ha Hc Hd. unfold div_rem.
    pose proof (canon_range bits a Hb Ha) as Hra. pose proof (canon_range bits b Hb Hc) as Hrb.
    destruct Ha as (Hla & Hwa & _), Hc as (Hlb & Hwb & _).
    destruct (HK a b Hwa Hwb Hd) as (q & r & -> & Hlq & Hlr & Hwq & Hwr & Hq & Hr).
    assert (Hdp : 0 < eval b) by lia.
    pose proof (Z.mod_pos_bound (eval a) (eval b) Hdp) as Hm.
    assert (Hqr : 0 <= eval a / eval b <= eval a).
    { split; [apply Z.div_pos; lia|]. apply Z.div_le_upper_bound; nia. }
    f_equal. f_equal; apply uint_of_unique; auto; unfold canon; repeat split; auto; try congruence; lia.
  Qed.

  Lemma div_rem_zero bits a b :
    canon bits b -> eval b = 0 -> div_rem a b = Panic.
  Proof. intros (_ & Hwb & _) E. unfold div_rem. now apply HZ. Qed.
End WithKernel.

(* ---------- integer facts about ceil / next multiple ---------- *)
Lemma ceil_exact n d : 0 <= n -> 0 < d -> n mod d = 0 -> (n + d - 1) / d = n / d.
Proof.
  intros Hn Hd Hm. symmetry. apply Z.div_unique with (r := d - 1); [lia|].
  pose proof (Z.div_mod n d ltac:(lia)). lia.
Qed.
Lemma ceil_inexact n d : 0 <= n -> 0 < d -> n mod d <> 0 -> (n + d - 1) / d = n / d + 1.
Proof.
  intros Hn Hd Hm. symmetry. apply Z.div_unique with (r := n mod d - 1).
  - pose proof (Z.mod_pos_bound n d Hd). lia.
  - pose proof (Z.div_mod n d ltac:(lia)). lia.
Qed.
Lemma quot_succ_small n d m :
  0 <= n < m -> 0 < d -> n mod d <> 0 -> 0 <= n / d + 1 < m.
Proof.
  intros Hn Hd Hm. pose proof (Z.div_mod n d ltac:(lia)) as E.
  pose proof (Z.mod_pos_bound n d Hd) as Hb.
  assert (0 <= n / d) by (apply Z.div_pos; lia).
  assert (2 <= d) by (destruct (Z.eq_dec d 1) as [->|]; [rewrite Z.mod_1_r in Hm; lia | lia]).
  set (q := n / d) in *. set (r := n mod d) in *.
  assert (2 * q <= d * q) by (apply Z.mul_le_mono_nonneg_r; lia). lia.
Qed.

(* the value next_mult denotes: the least multiple of d that is >= n *)
Lemma next_mult_least n d :
  0 <= n -> 0 < d ->
  let m := d * ((n + d - 1) / d) in
  (d | m) /\ n <= m /\ forall m', (d | m') -> n <= m' -> m <= m'.
Proof.
  intros Hn Hd m. subst m.
  pose proof (Z.div_mod (n + d - 1) d ltac:(lia)) as E.
  pose proof (Z.mod_pos_bound (n + d - 1) d Hd) as Hb.
  split; [exists ((n + d - 1) / d); ring|]. split; [lia|].
  intros m' [k ->] Hk.
  assert ((n + d - 1) / d < k + 1); [|nia].
  apply Z.div_lt_upper_bound; [lia|]. nia.
Qed.

(* ---------- the zero-divisor half of the kernel contract holds outright ---------- *)
Lemma rposition_nz_zero d : Forall inW d -> eval d = 0 -> rposition_nz d = None.
Proof.
  induction 1 as [|x d Hx Hd IH]; intros E; [reflexivity|].
  cbn [eval] in E. cbn [rposition_nz]. pose proof (eval_bound d Hd) as Hb. pose proof B_pos.
  unfold inW in Hx. assert (x = 0 /\ eval d = 0) as [-> E'] by nia.
  rewrite (IH E'). reflexivity.
Qed.
Theorem DivKernelZero_holds : DivKernelZero.
Proof. intros n d Hd E. unfold div_kernel. now rewrite rposition_nz_zero. Qed.
