(* Proofs/PfC02.v — every C02 call: the model's answer meets the executable specification. *)
From Coq Require Import ZArith List Bool Lia.
From RV.Model Require Import Base Word Limbs Mul.
From RV.Proofs Require Import BaseFacts PfMulN PfMul.
From RV.Run Require Import RunC02.
Import ListNotations.
Local Open Scope Z_scope.

Lemma list_eqb_refl {A} (eqb : A -> A -> bool) (l : list A) :
  (forall x, eqb x x = true) -> list_eqb eqb l l = true.
Proof. intros H. induction l as [|x l IH]; cbn; [reflexivity | now rewrite H, IH]. Qed.
Lemma tok_eqb_refl t : tok_eqb t t = true.
Proof.
  destruct t; cbn; auto using Z.eqb_refl, eqb_reflx;
    apply list_eqb_refl; apply Z.eqb_refl.
Qed.
Lemma expect_refl t : expect (Val t) t = true.
Proof. unfold expect. cbn. apply list_eqb_refl, tok_eqb_refl. Qed.

(* the two primitives as equalities with the canonical representation *)
Lemma omul_eq bits a b :
  0 <= bits -> canon bits a -> canon bits b ->
  Mul.overflowing_mul bits a b =
  (uint_of bits ((eval a * eval b) mod 2 ^ bits), 2 ^ bits <=? eval a * eval b).
Proof.
  intros H Ha Hb. pose proof (overflowing_mul_spec bits a b H Ha Hb) as S.
  destruct (Mul.overflowing_mul bits a b) as [r f]. destruct S as (Hc & He & ->).
  f_equal. now apply uint_of_unique.
Qed.
Lemma wmul_eq bits a b :
  0 <= bits -> canon bits a -> canon bits b ->
  Mul.wrapping_mul bits a b = Val (uint_of bits ((eval a * eval b) mod 2 ^ bits)).
Proof.
  intros H (Hla & Hwa & _) (Hlb & Hwb & _).
  destruct (wrapping_mul_spec bits a b H Hla Hlb Hwa Hwb) as (r & -> & Hc & He).
  f_equal. now apply uint_of_unique.
Qed.

Lemma prod_nonneg bits a b :
  0 <= bits -> canon bits a -> canon bits b -> 0 <= eval a * eval b.
Proof.
  intros H Ha Hb. pose proof (canon_range bits a H Ha). pose proof (canon_range bits b H Hb). nia.
Qed.

Theorem C02_all c : wf c -> spec c (run c) = true.
Proof.
  destruct c as [bits a b|bits a b|bits a b|bits a b|bits sh a b|bits br bres lres a b
                |bits a|bits sh xs]; cbn [wf spec run].
  - (* overflowing_mul *)
    intros (H & Ha & Hb). rewrite omul_eq by auto. unfold pair_toks, U, ovf. cbn [fst snd].
    rewrite modp2_spec by lia. apply expect_refl.
  - (* checked_mul *)
    intros (H & Ha & Hb). unfold Mul.checked_mul. rewrite omul_eq by auto. unfold ovf, U.
    pose proof (prod_nonneg bits a b H Ha Hb).
    destruct (Z.leb_spec (2 ^ bits) (eval a * eval b)); cbn [opt_toks].
    + apply expect_refl.
    + rewrite Z.mod_small by lia. apply expect_refl.
  - (* saturating_mul *)
    intros (H & Ha & Hb). unfold Mul.saturating_mul. rewrite omul_eq by auto. unfold ovf, U.
    pose proof (prod_nonneg bits a b H Ha Hb).
    destruct (Z.leb_spec (2 ^ bits) (eval a * eval b)).
    + destruct (canon_uMAX bits H) as [Hm He]. rewrite (uint_of_unique _ _ _ Hm He).
      apply expect_refl.
    + rewrite Z.mod_small by lia. apply expect_refl.
  - (* wrapping_mul *)
    intros (H & Ha & Hb). rewrite wmul_eq by auto. cbn [obind]. unfold U.
    rewrite modp2_spec by lia. apply expect_refl.
  - (* the six operator shapes *)
    intros (H & Ha & Hb). rewrite wmul_eq by auto. cbn [obind]. unfold U.
    rewrite modp2_spec by lia. apply expect_refl.
  - (* widening_mul *)
    intros (H & Hr & Hres & Hlres & Ha & Hb).
    destruct (Z.eqb_spec lres (nlimbs bres)) as [El|Nl].
    + destruct (Z.eqb_spec bres (bits + br)) as [Eb|Nb]; cbn [andb].
      * subst lres bres. rewrite widening_mul_spec by auto. cbn [obind]. apply expect_refl.
      * subst lres. rewrite widening_mul_bad_bits by auto. reflexivity.
    + rewrite andb_false_r. rewrite widening_mul_bad_limbs by auto. reflexivity.
  - (* inv_ring *)
    intros (H & Ha). pose proof (inv_ring_spec bits a H Ha) as S.
    destruct ((0 <? bits) && Z.odd (eval a)).
    + destruct S as (x & -> & Hc & He). cbn [obind opt_toks].
      apply canonb_iff in Hc. rewrite Hc, modp2_spec, He by lia. reflexivity.
    + rewrite S. cbn [obind opt_toks]. apply expect_refl.
  - (* Product<Self>, Product<&Self> *)
    intros (H & Hxs). destruct (product_spec bits xs H Hxs) as (r & -> & Hc & He).
    cbn [obind]. unfold U. rewrite modp2_spec by lia. rewrite <- He.
    rewrite (canon_uint_of _ _ Hc). apply expect_refl.
Qed.
