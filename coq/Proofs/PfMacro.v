(* Proofs/PfMacro.v — ruint-macro: characterisation of parse_digits (limb accumulation),
   pad_limbs, parse_suffix and transform_literal against the positional-notation
   specification of Run/RunC19.v. *)
From Coq Require Import ZArith List Bool Lia.
From RV.Model Require Import Base Macro.
From RV.Run Require Import RunC19.
From RV.Proofs Require Import BaseFacts.
Import ListNotations.
Local Open Scope Z_scope.

(* ---------- the inner multiply-add loop ---------- *)
Lemma mul_add_limbs_spec base limbs carry :
  0 <= base < B -> Forall inW limbs -> inW carry ->
  let '(l', c') := mul_add_limbs base limbs carry in
  length l' = length limbs /\ Forall inW l' /\ inW c' /\
  eval l' + B ^ Z.of_nat (length limbs) * c' = eval limbs * base + carry.
Proof.
  intros Hb Hl. revert carry. induction Hl as [|x t Hx Ht IH]; intros carry Hc.
  - cbn [mul_add_limbs length eval]. change (Z.of_nat 0) with 0. rewrite Z.pow_0_r.
    split; [reflexivity|]. split; [constructor|]. split; [assumption|lia].
  - cbn [mul_add_limbs].
    set (p := x * base + carry).
    assert (Hp : 0 <= p < B * B) by (unfold p, inW in *; nia).
    assert (Hhi : modp2 (divp2 p 64) 64 = p / B).
    { rewrite modp2_B, divp2_B. apply Z.mod_small.
      split; [apply Z.div_pos; [lia|apply B_pos]|apply Z.div_lt_upper_bound; [apply B_pos|lia]]. }
    rewrite Hhi, modp2_B.
    assert (Hq : inW (p / B)).
    { unfold inW. split; [apply Z.div_pos; [lia|apply B_pos]|apply Z.div_lt_upper_bound; [apply B_pos|lia]]. }
    specialize (IH (p / B) Hq).
    destruct (mul_add_limbs base t (p / B)) as [t' c'].
    destruct IH as (Hlen & Hw & Hc' & He).
    pose proof B_pos as HB.
    assert (Hm : inW (p mod B)) by (unfold inW; apply Z.mod_pos_bound; lia).
    repeat split; auto.
    + cbn [length]. now rewrite Hlen.
    + destruct Hc'; assumption.
    + destruct Hc'; assumption.
    + cbn [length eval]. rewrite Bn_S.
      pose proof (Z.div_mod p B ltac:(lia)) as Hdm. fold p.
      replace (x + B * eval t) with (x + B * eval t) by reflexivity.
      assert (p mod B + B * (p / B) = p) by lia.
      nia.
Qed.

(* ---------- digit classification: model vs positional notation ---------- *)
Lemma read_digit_cases c :
  (read_digit c = DSkip /\ underscore c = true /\ digit_value c = None) \/
  (exists d, read_digit c = DDigit d /\ underscore c = false /\ digit_value c = Some d /\ 0 <= d < 16) \/
  (read_digit c = DInvalid /\ underscore c = false /\
   (digit_value c = None \/ exists d, digit_value c = Some d /\ 16 <= d)).
Proof.
  unfold read_digit, digit_value, underscore.
  repeat match goal with
         | |- context [?a <=? ?b] => destruct (Z.leb_spec a b)
         | |- context [?a =? ?b] => destruct (Z.eqb_spec a b)
         end; cbn [andb orb];
  try lia;
  try (left; repeat split; reflexivity);
  try (right; left; eexists; repeat split; try reflexivity; try (f_equal; lia); lia);
  try (right; right; repeat split; try reflexivity; (left; reflexivity) || (right; eexists; split; [reflexivity|lia])).
Qed.

(* one step of the positional value *)
Definition pos_step (base acc c : Z) : Z :=
  match digit_value c with Some d => acc * base + d | None => acc end.
Lemma positional_fold base ds acc :
  fold_left (fun acc c => match digit_value c with
                          | Some d => acc * base + d
                          | None => acc
                          end) ds acc = fold_left (pos_step base) ds acc.
Proof. reflexivity. Qed.

Definition dvalid (base c : Z) : bool :=
  underscore c || match digit_value c with Some d => d <? base | None => false end.

(* the digit loop: succeeds iff every character is a digit of the base or `_`; the limbs then
   hold limbs*base^k + positional value *)
Lemma digits_loop_spec base ds : 2 <= base <= 16 -> forall limbs,
  Forall inW limbs ->
  match digits_loop base limbs ds with
  | Some l' => forallb (dvalid base) ds = true /\ Forall inW l' /\
               eval l' = fold_left (pos_step base) ds (eval limbs)
  | None => forallb (dvalid base) ds = false
  end.
Proof.
  intros Hb. induction ds as [|c ds IH]; intros limbs Hl.
  - cbn. auto.
  - cbn [digits_loop forallb fold_left]. unfold dvalid at 1 3, pos_step at 2.
    destruct (read_digit_cases c) as [(R & U & D) | [(d & R & U & D & Hd) | (R & U & D)]]; rewrite R, U.
    + rewrite D. cbn [orb andb]. apply IH, Hl.
    + rewrite D. cbn [orb].
      destruct (Z.leb_spec base d) as [Hbd|Hbd].
      * destruct (Z.ltb_spec d base); [lia|]. reflexivity.
      * destruct (Z.ltb_spec d base); [|lia]. cbn [andb].
        assert (HbB : 0 <= base < B) by (rewrite B_val; lia).
        assert (Hdw : inW d) by (unfold inW; rewrite B_val; lia).
        pose proof (mul_add_limbs_spec base limbs d HbB Hl Hdw) as M.
        destruct (mul_add_limbs base limbs d) as [l' carry].
        destruct M as (Hlen & Hw & Hc & He).
        set (l2 := if 0 <? carry then l' ++ [carry] else l').
        assert (Hw2 : Forall inW l2).
        { unfold l2. destruct (0 <? carry); [|assumption]. apply Forall_app. split; auto. }
        assert (He2 : eval l2 = eval limbs * base + d).
        { unfold l2. destruct (Z.ltb_spec 0 carry).
          - rewrite eval_app. cbn [eval]. rewrite Hlen. lia.
          - assert (carry = 0) by (unfold inW in Hc; lia). subst carry. lia. }
        specialize (IH l2 Hw2). rewrite He2 in IH. exact IH.
    + cbn [orb]. destruct D as [D | (d & D & Hd)]; rewrite D; [reflexivity|].
      destruct (Z.ltb_spec d base); [lia|]. reflexivity.
Qed.

(* ---------- pad_limbs ---------- *)
(* popping trailing zeros (on the reversed vector) *)
Lemma pop_zeros_spec n r :
  exists k, r = repeat 0 k ++ pop_zeros n r /\
            ((length (pop_zeros n r) <= n)%nat \/
             exists x r', pop_zeros n r = x :: r' /\ x <> 0).
Proof.
  induction r as [|x r IH].
  - exists O. cbn. split; [reflexivity|left; lia].
  - cbn [pop_zeros].
    destruct (Nat.ltb_spec n (length (x :: r))) as [Hn|Hn]; cbn [andb].
    + destruct (Z.eqb_spec x 0) as [->|Hx].
      * destruct IH as (k & E & H). exists (S k). cbn [repeat app]. split; [now rewrite <- E|exact H].
      * exists O. split; [reflexivity|]. right. eauto.
    + exists O. split; [reflexivity|]. left. lia.
Qed.

Lemma repeat0_snoc k : repeat 0 k ++ [0] = 0 :: repeat 0 k.
Proof. induction k; [reflexivity|]. cbn [repeat app]. now rewrite IHk. Qed.
Lemma rev_repeat0 k : rev (repeat 0 k) = repeat 0 k.
Proof. induction k; [reflexivity|]. cbn [repeat rev]. rewrite IHk. apply repeat0_snoc. Qed.

Lemma eval_app_zeros l k : eval (l ++ repeat 0 k) = eval l.
Proof. rewrite eval_app, eval_repeat0. lia. Qed.

Lemma pow2_le_Bn bits : 0 <= bits -> 2 ^ bits <= B ^ Z.of_nat (nlimbsN bits).
Proof.
  intros H. rewrite Bn_pow2, nlimbsN_Z by lia.
  apply Z.pow_le_mono_r; [lia|].
  destruct (Z.eq_dec bits 0) as [->|]; [rewrite nlimbs_0; lia|].
  pose proof (nlimbs_bounds bits ltac:(lia)). lia.
Qed.

Lemma pad_limbs_spec bits limbs :
  0 <= bits -> Forall inW limbs ->
  match pad_limbs bits limbs with
  | Some l => eval limbs < 2 ^ bits /\ l = uint_of bits (eval limbs)
  | None => 2 ^ bits <= eval limbs
  end.
Proof.
  intros Hb Hw. unfold pad_limbs.
  change (Z.to_nat ((bits + 63) / 64)) with (nlimbsN bits).
  cbv zeta.
  change (if bits =? 0 then 0 else if bits mod 64 =? 0 then B - 1 else 2 ^ (bits mod 64) - 1)
    with (mask bits).
  set (n := nlimbsN bits).
  destruct (pop_zeros_spec n (rev limbs)) as (k & E & Hpop).
  set (l1 := rev (pop_zeros n (rev limbs))).
  assert (El : limbs = l1 ++ repeat 0 k).
  { unfold l1. rewrite <- (rev_involutive limbs), E at 1. rewrite rev_app_distr.
    f_equal. apply rev_repeat0. }
  assert (Hw1 : Forall inW l1).
  { rewrite El in Hw. apply Forall_app in Hw. tauto. }
  assert (Hev1 : eval limbs = eval l1) by (rewrite El at 1; apply eval_app_zeros).
  assert (Hlen1 : length l1 = length (pop_zeros n (rev limbs))) by (unfold l1; apply rev_length).
  set (l2 := l1 ++ repeat 0 (n - length l1)).
  assert (Hw2 : Forall inW l2) by (apply Forall_app; split; [assumption|apply Forall_inW_repeat0]).
  assert (Hev2 : eval l2 = eval limbs) by (rewrite Hev1; apply eval_app_zeros).
  assert (Hlen2 : length l2 = (length l1 + (n - length l1))%nat)
    by (unfold l2; rewrite app_length, repeat_length; reflexivity).
  pose proof (pow2_le_Bn bits Hb) as HBn. fold n in HBn.
  destruct (Nat.ltb_spec n (length l2)) as [Hlt|Hge]; cbn [orb].
  - (* too long: the last limb is not zero *)
    assert (Hl1 : (n < length l1)%nat) by lia.
    destruct Hpop as [Hle|(x & r' & Ep & Hx)]; [lia|].
    assert (El1 : l1 = rev r' ++ [x]) by (unfold l1; rewrite Ep; reflexivity).
    rewrite Hev1, El1, eval_app. cbn [eval].
    rewrite El1 in Hw1. apply Forall_app in Hw1. destruct Hw1 as [Hwr Hwx].
    pose proof (Forall_inv Hwx) as Hx'.
    pose proof (eval_bound _ Hwr).
    assert (Hn' : (n <= length (rev r'))%nat).
    { rewrite El1, app_length in Hl1. cbn in Hl1. lia. }
    assert (B ^ Z.of_nat n <= B ^ Z.of_nat (length (rev r'))).
    { apply Z.pow_le_mono_r; [apply B_pos|lia]. }
    unfold inW in Hx'. nia.
  - assert (Hlen : length l2 = n) by lia.
    destruct (Z.eq_dec bits 0) as [->|Hnz].
    + (* zero width *)
      assert (l2 = []) by (destruct l2; [reflexivity|cbn in Hlen; discriminate]).
      rewrite H in *. cbn [last mask Z.eqb]. cbn. split; [cbn in Hev2; lia|reflexivity].
    + pose proof (last_gt_mask bits l2 ltac:(lia) Hlen Hw2) as Hm.
      rewrite Hm, Hev2.
      destruct (Z.leb_spec (2 ^ bits) (eval limbs)) as [Hge2|Hlt2]; [assumption|].
      split; [assumption|].
      rewrite <- Hev2. apply uint_of_unique; [|reflexivity].
      repeat split; auto. lia.
Qed.

(* ---------- suffix recognition ---------- *)
Definition notUB (c : Z) : bool := negb (isUB c).

Lemma rfind_pattern_spec s :
  match rfind_pattern s with
  | None => forallb notUB s = true
  | Some i => exists v c w, s = v ++ c :: w /\ length v = i /\ isUB c = true /\ forallb notUB w = true
  end.
Proof.
  induction s as [|x s IH]; cbn [rfind_pattern]; [reflexivity|].
  destruct (rfind_pattern s) as [i|].
  - destruct IH as (v & c & w & E & Hl & Hc & Hw). exists (x :: v), c, w.
    rewrite E. cbn [length app]. repeat split; auto.
  - change (is_pattern x) with (isUB x). destruct (isUB x) eqn:E.
    + exists [], x, s. repeat split; auto.
    + cbn [forallb]. unfold notUB at 1. rewrite E. exact IH.
Qed.

Lemma until_UB_none r acc : forallb notUB r = true -> until_UB r acc = None.
Proof.
  revert acc. induction r as [|c r IH]; intros acc H; [reflexivity|].
  cbn [forallb] in H. apply andb_prop in H. destruct H as [Hc Hr].
  cbn [until_UB]. unfold notUB in Hc. destruct (isUB c); [discriminate|]. now apply IH.
Qed.

Lemma until_UB_some w : forall c r' acc,
  isUB c = true -> forallb notUB w = true ->
  until_UB (rev w ++ c :: r') acc = Some (rev r', c, w ++ acc).
Proof.
  induction w as [|x w IH] using rev_ind; intros c r' acc Hc Hw.
  - cbn [rev app until_UB]. now rewrite Hc.
  - rewrite forallb_app in Hw. apply andb_prop in Hw. destruct Hw as [Hw Hx].
    cbn [forallb] in Hx. rewrite andb_true_r in Hx. unfold notUB in Hx.
    rewrite rev_app_distr. cbn [rev app until_UB].
    destruct (isUB x); [discriminate|].
    rewrite (IH c r' (x :: acc) Hc Hw), <- app_assoc. reflexivity.
Qed.

Lemma forallb_rev {A} (f : A -> bool) l : forallb f (rev l) = forallb f l.
Proof.
  induction l as [|x l IH]; [reflexivity|].
  cbn [rev forallb]. rewrite forallb_app, IH. cbn [forallb]. rewrite andb_true_r. apply andb_comm.
Qed.

Lemma firstn_length_app {A} (v l : list A) : firstn (length v) (v ++ l) = v.
Proof. induction v; cbn; [reflexivity|now f_equal]. Qed.
Lemma skipn_length_app {A} (v l : list A) : skipn (length v) (v ++ l) = l.
Proof. induction v; cbn; [reflexivity|assumption]. Qed.

(* usize::from_str *)
Lemma dec_value_spec ds acc :
  dec_value acc ds =
  if forallb (fun c => (48 <=? c) && (c <=? 57)) ds
  then Some (fold_left (fun a c => a * 10 + (c - 48)) ds acc) else None.
Proof.
  revert acc. induction ds as [|c ds IH]; intros acc; [reflexivity|].
  cbn [dec_value forallb fold_left]. unfold is_dec.
  destruct ((48 <=? c) && (c <=? 57)); cbn [andb]; [apply IH|reflexivity].
Qed.

Lemma dec_fold_nonneg ds acc :
  0 <= acc -> forallb (fun c => (48 <=? c) && (c <=? 57)) ds = true ->
  0 <= fold_left (fun a c => a * 10 + (c - 48)) ds acc.
Proof.
  revert acc. induction ds as [|c ds IH]; intros acc Ha H; [exact Ha|].
  cbn [forallb] in H. apply andb_prop in H. destruct H as [Hc Hd].
  cbn [fold_left]. apply IH; [|exact Hd]. apply andb_prop in Hc. destruct Hc as [H1 H2].
  apply Z.leb_le in H1. lia.
Qed.

Lemma parse_usize_spec w : parse_usize w = width_of w.
Proof.
  unfold parse_usize, width_of. destruct w as [|c t]; [reflexivity|].
  destruct (c =? 43).
  - destruct t as [|d t]; [reflexivity|]. rewrite dec_value_spec. cbn [length Nat.eqb negb andb].
    destruct (forallb _ (d :: t)); [|reflexivity]. now rewrite B_pow.
  - rewrite dec_value_spec. cbn [length Nat.eqb negb andb].
    destruct (forallb _ (c :: t)); [|reflexivity]. now rewrite B_pow.
Qed.

Lemma width_of_nonneg w b : width_of w = Some b -> 0 <= b.
Proof.
  unfold width_of. set (ds := match w with [] => w | c :: r => if c =? 43 then r else w end).
  destruct (negb (Nat.eqb (length ds) 0)); cbn [andb]; [|discriminate].
  destruct (forallb _ ds) eqn:F; [|discriminate].
  destruct (_ <? 2 ^ 64); [|discriminate]. intros H. inversion H.
  apply dec_fold_nonneg; [lia|exact F].
Qed.

Lemma starts_with_0x value : starts_with [48; 120] value = is_hex_notation value.
Proof.
  unfold starts_with, is_hex_notation, text_eqb.
  destruct value as [|a [|b r]]; cbn [length firstn list_eqb].
  - reflexivity.
  - apply andb_false_r.
  - now rewrite andb_true_r.
Qed.

Lemma parse_suffix_spec src :
  match parse_suffix src with
  | None => suffix_of src = None
  | Some (bt, b, v) => suffix_of src = Some (base_type_code bt, b, v) /\ 0 <= b
  end.
Proof.
  unfold parse_suffix, suffix_of.
  pose proof (rfind_pattern_spec src) as R.
  destruct (rfind_pattern src) as [i|].
  - destruct R as (v & c & w & -> & <- & Hc & Hw).
    rewrite firstn_length_app, skipn_length_app.
    rewrite rev_app_distr. cbn [rev]. rewrite <- app_assoc. cbn [app].
    rewrite (until_UB_some w c (rev v) [] Hc Hw), rev_involutive, app_nil_r.
    rewrite parse_usize_spec.
    unfold base_type_from_str. unfold isUB in Hc.
    destruct (Z.eqb_spec c 85) as [->|N85].
    + destruct (width_of w) as [b|] eqn:W; [|reflexivity].
      cbn [andb Z.eqb]. split; [reflexivity|]. eapply width_of_nonneg; eassumption.
    + destruct (Z.eqb_spec c 66) as [->|N66]; [|discriminate].
      destruct (width_of w) as [b|] eqn:W; [|reflexivity].
      rewrite starts_with_0x. change (ends_with_char 95 v) with (ends_with_underscore v).
      cbn [andb Z.eqb Pos.eqb].
      destruct (is_hex_notation v && negb (ends_with_underscore v)); [reflexivity|].
      split; [reflexivity|]. eapply width_of_nonneg; eassumption.
  - rewrite until_UB_none; [reflexivity|]. now rewrite forallb_rev.
Qed.

(* ---------- base prefix ---------- *)
Lemma dvalid_high b c : 128 <= c -> dvalid b c = false.
Proof.
  intros H. unfold dvalid, underscore, digit_value.
  repeat match goal with
         | |- context [?a <=? ?b] => destruct (Z.leb_spec a b)
         | |- context [?a =? ?b] => destruct (Z.eqb_spec a b)
         end; cbn [andb orb]; try lia; reflexivity.
Qed.

Lemma parse_base_spec value :
  match parse_base value with
  | Val (b, ds) => notation value = (b, ds) /\ 2 <= b <= 16
  | Panic => let '(b, ds) := notation value in forallb (dvalid b) ds = false
  | _ => False
  end.
Proof.
  unfold parse_base, notation, is_char_boundary, text_eqb.
  destruct value as [|a [|b [|c r]]].
  - cbn. split; [reflexivity|lia].
  - cbn. split; [reflexivity|lia].
  - cbn [length Nat.leb nth_error Nat.eqb firstn skipn list_eqb]. rewrite !andb_true_r.
    destruct ((a =? 48) && (b =? 120)); [split; [reflexivity|lia]|].
    destruct ((a =? 48) && (b =? 111)); [split; [reflexivity|lia]|].
    destruct ((a =? 48) && (b =? 98)); split; try reflexivity; lia.
  - cbn [length Nat.leb nth_error Nat.eqb firstn skipn list_eqb]. rewrite !andb_true_r.
    destruct (Z.leb_spec 128 c) as [H1|H1]; cbn [andb negb].
    + destruct (Z.ltb_spec c 192) as [H2|H2]; cbn [negb].
      * pose proof (fun b => dvalid_high b c H1) as Hv.
        destruct ((a =? 48) && (b =? 120)); [cbn [forallb]; now rewrite Hv|].
        destruct ((a =? 48) && (b =? 111)); [cbn [forallb]; now rewrite Hv|].
        destruct ((a =? 48) && (b =? 98)); cbn [forallb]; rewrite Hv; cbn [andb];
          rewrite ?andb_false_r; reflexivity.
      * destruct ((a =? 48) && (b =? 120)); [split; [reflexivity|lia]|].
        destruct ((a =? 48) && (b =? 111)); [split; [reflexivity|lia]|].
        destruct ((a =? 48) && (b =? 98)); split; try reflexivity; lia.
    + destruct ((a =? 48) && (b =? 120)); [split; [reflexivity|lia]|].
      destruct ((a =? 48) && (b =? 111)); [split; [reflexivity|lia]|].
      destruct ((a =? 48) && (b =? 98)); split; try reflexivity; lia.
Qed.

(* ---------- the literal theorem ---------- *)
Theorem transform_literal_spec src :
  match spec_literal src with
  | SPass => transform_literal src = LPass
  | SExpand k w limbs => exists bt, base_type_code bt = k /\ transform_literal src = LExpand bt w limbs
  | SReject => transform_literal src = LError \/ transform_literal src = LPanic
  end.
Proof.
  unfold spec_literal, transform_literal.
  pose proof (parse_suffix_spec src) as S.
  destruct (parse_suffix src) as [[[bt b] v]|]; [|rewrite S; reflexivity].
  destruct S as [S Hb]. rewrite S.
  unfold parse_digits.
  pose proof (parse_base_spec v) as P.
  destruct (parse_base v) as [[base ds]| | | |]; try contradiction.
  - destruct P as [N Hbase]. rewrite N. cbn [obind].
    pose proof (digits_loop_spec base ds Hbase [0]) as D.
    assert (H0 : Forall inW [0]).
    { constructor; [|constructor]. unfold inW. pose proof B_pos. lia. }
    specialize (D H0). cbn [eval] in D. rewrite Z.mul_0_r, Z.add_0_r in D.
    change (digits_valid base ds) with (forallb (dvalid base) ds).
    change (positional base ds) with (fold_left (pos_step base) ds 0).
    destruct (digits_loop base [0] ds) as [l'|].
    + destruct D as (V & W & E). rewrite V. cbn [andb].
      pose proof (pad_limbs_spec b l' Hb W) as Pd.
      destruct (pad_limbs b l') as [l|].
      * destruct Pd as [Hlt ->]. rewrite <- E.
        destruct (Z.ltb_spec (eval l') (2 ^ b)); [|lia].
        exists bt. split; reflexivity.
      * rewrite <- E. destruct (Z.ltb_spec (eval l') (2 ^ b)); [lia|]. left. reflexivity.
    + rewrite D. cbn [andb]. left. reflexivity.
  - destruct (notation v) as [base ds]. cbn [obind].
    change (digits_valid base ds) with (forallb (dvalid base) ds). rewrite P. cbn [andb].
    right. reflexivity.
Qed.

(* the digit loop as parse_digits starts it (limbs = [0]), in the vocabulary of the specification *)
Corollary digits_loop_value base ds :
  2 <= base <= 16 ->
  match digits_loop base [0] ds with
  | Some l => digits_valid base ds = true /\ Forall inW l /\ eval l = positional base ds
  | None => digits_valid base ds = false
  end.
Proof.
  intros Hb. pose proof (digits_loop_spec base ds Hb [0]) as D.
  assert (H0 : Forall inW [0]).
  { constructor; [|constructor]. unfold inW. pose proof B_pos. lia. }
  specialize (D H0). cbn [eval] in D. rewrite Z.mul_0_r, Z.add_0_r in D. exact D.
Qed.
