(* Proofs/PfFloatSpec.v — sanity of the specification vocabulary of RunC18: `lower prec v` and
   `upper prec v` really are the largest representable integer <= v and the smallest
   representable integer >= v of a binary format with prec significant bits (unbounded
   exponent). *)
From Coq Require Import ZArith List Bool Lia.
From RV.Model Require Import Base.
From RV.Proofs Require Import BaseFacts PfSpecFloat PfFloatUint.
From RV.Run Require Import RunC18.
Local Open Scope Z_scope.

(* x >= 0 has at most prec significant bits *)
Definition representable (prec x : Z) : Prop :=
  x < 2 ^ prec \/ x mod 2 ^ (Z.log2 x - (prec - 1)) = 0.

Theorem neighbours_sound prec v : 1 < prec -> 0 <= v ->
  lower prec v <= v <= upper prec v /\
  representable prec (lower prec v) /\ representable prec (upper prec v) /\
  (forall x, 0 <= x -> representable prec x -> x <= v -> x <= lower prec v) /\
  (forall x, 0 <= x -> representable prec x -> v <= x -> upper prec v <= x).
Proof.
  intros Hp Hv. pose proof (pow2_pos prec ltac:(lia)) as Hpp.
  unfold upper, lower.
  destruct (Z.ltb_spec v (2 ^ prec)) as [G|G].
  - rewrite Z.eqb_refl. repeat split; try lia; try (left; lia); intros; lia.
  - set (k := Z.log2 v). set (s := k - (prec - 1)).
    assert (Hk : prec <= k) by (apply Z.log2_le_pow2; lia).
    pose proof (log2_bounds v ltac:(lia)) as Hl. fold k in Hl.
    pose proof (pow2_pos s ltac:(unfold s; lia)) as H2s.
    rewrite Z.shiftl_mul_pow2, Z.shiftr_div_pow2 by (unfold s; lia).
    assert (Ek : 2 ^ k = 2 ^ (prec - 1) * 2 ^ s) by (rewrite <- Z.pow_add_r by (unfold s; lia); f_equal; unfold s; lia).
    assert (Ek1 : 2 ^ (k + 1) = 2 ^ prec * 2 ^ s) by (rewrite <- Z.pow_add_r by (unfold s; lia); f_equal; unfold s; lia).
    assert (Epp : 2 ^ prec = 2 * 2 ^ (prec - 1)).
    { replace prec with (1 + (prec - 1)) at 1 by lia. rewrite Z.pow_add_r by lia. reflexivity. }
    pose proof (pow2_pos (prec - 1) ltac:(lia)) as HP.
    pose proof (Z.div_mod v (2 ^ s) ltac:(lia)) as Hdm.
    pose proof (Z.mod_pos_bound v (2 ^ s) H2s) as Htb.
    set (q := v / 2 ^ s) in *. set (t := v mod 2 ^ s) in *.
    assert (Hq : 2 ^ (prec - 1) <= q < 2 ^ prec).
    { unfold q. split; [apply Z.div_le_lower_bound; lia|apply Z.div_lt_upper_bound; lia]. }
    assert (Hlogl : Z.log2 (q * 2 ^ s) = k) by (apply log2_eq; [lia|nia]).
    assert (Hrl : representable prec (q * 2 ^ s)).
    { right. rewrite Hlogl. fold s. apply Z.mod_mul. lia. }
    (* representable numbers of the binade of v are the multiples of 2^s *)
    assert (Hbin : forall x, representable prec x -> 2 ^ k <= x < 2 ^ (k + 1) -> x mod 2 ^ s = 0).
    { intros x [Hx|Hx] Hr.
      - assert (2 ^ prec <= 2 ^ k) by (apply Z.pow_le_mono_r; lia). lia.
      - rewrite (log2_eq x k) in Hx by lia. exact Hx. }
    destruct (Z.eqb_spec (q * 2 ^ s) v) as [E|E].
    + (* v itself is representable *)
      rewrite E in Hrl |- *. repeat split; try lia; try exact Hrl; intros; lia.
    + assert (Ht : 0 < t) by lia.
      split; [lia|]. split; [exact Hrl|]. split; [|split].
      * (* upper is representable: same binade, or the next power of two *)
        replace (q * 2 ^ s + 2 ^ s) with ((q + 1) * 2 ^ s) by ring.
        destruct (Z.eq_dec (q + 1) (2 ^ prec)) as [Ec|Ec].
        -- right. rewrite Ec, <- Ek1, Z.log2_pow2 by lia.
           replace (k + 1) with ((prec - 1) + (k + 1 - (prec - 1))) at 1 by lia.
           rewrite Z.pow_add_r by lia. apply Z.mod_mul. apply Z.pow_nonzero; lia.
        -- right. rewrite (log2_eq _ k) by (try lia; nia). fold s. apply Z.mod_mul. lia.
      * intros x Hx0 Hx Hle.
        destruct (Z_le_gt_dec x (q * 2 ^ s)); [assumption|]. exfalso.
        assert (2 ^ k <= q * 2 ^ s) by (rewrite Ek; nia).
        pose proof (Hbin x Hx ltac:(lia)) as Hm.
        pose proof (Z.div_mod x (2 ^ s) ltac:(lia)) as Hxd. rewrite Hm in Hxd.
        set (j := x / 2 ^ s) in *. assert (q < j) by nia.
        assert (2 ^ s * (q + 1) <= 2 ^ s * j) by nia. lia.
      * intros x Hx0 Hx Hge.
        destruct (Z_le_gt_dec (q * 2 ^ s + 2 ^ s) x); [assumption|]. exfalso.
        assert (q * 2 ^ s + 2 ^ s <= 2 ^ (k + 1)) by (rewrite Ek1; nia).
        pose proof (Hbin x Hx ltac:(lia)) as Hm.
        pose proof (Z.div_mod x (2 ^ s) ltac:(lia)) as Hxd. rewrite Hm in Hxd.
        set (j := x / 2 ^ s) in *. assert (j < q + 1) by nia.
        assert (2 ^ s * j <= 2 ^ s * q) by nia. lia.
Qed.
