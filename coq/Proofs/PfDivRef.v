(* Proofs/PfDivRef.v — the reference kernels reciprocal_ref, div_2x1_ref, div_3x2_ref return
   the integer quotient (and remainder) under their documented conditions of use. *)
From Coq Require Import ZArith List Bool Lia.
From RV.Model Require Import Base Word DivRecip DivRef.
From RV.Proofs Require Import BaseFacts PfDivBase.
Import ListNotations.
Local Open Scope Z_scope.

Lemma lor_hi_lo a x : 0 <= a -> 0 <= x < B -> Z.lor (a * B) x = a * B + x.
Proof.
  intros Ha Hx. rewrite B_pow in *.
  rewrite <- Z.shiftl_mul_pow2 by lia.
  rewrite <- Z.lxor_lor.
  - rewrite <- Z.add_nocarry_lxor; [reflexivity|].
    apply Z.bits_inj'. intros n Hn. rewrite Z.land_spec, Z.bits_0.
    destruct (Z.ltb_spec n 64).
    + rewrite Z.shiftl_spec_low by lia. reflexivity.
    + rewrite (Z.bits_above_log2 x n); [apply andb_false_r| lia |].
      destruct (Z.eq_dec x 0) as [->|]; [cbn; lia|].
      apply Z.log2_lt_pow2; [lia|]. apply Z.lt_le_trans with (2 ^ 64); [lia|].
      apply Z.pow_le_mono_r; lia.
  - apply Z.bits_inj'. intros n Hn. rewrite Z.land_spec, Z.bits_0.
    destruct (Z.ltb_spec n 64).
    + rewrite Z.shiftl_spec_low by lia. reflexivity.
    + rewrite (Z.bits_above_log2 x n); [apply andb_false_r| lia |].
      destruct (Z.eq_dec x 0) as [->|]; [cbn; lia|].
      apply Z.log2_lt_pow2; [lia|]. apply Z.lt_le_trans with (2 ^ 64); [lia|].
      apply Z.pow_le_mono_r; lia.
Qed.

Lemma wrap128_small x : 0 <= x < B * B -> wrap128 x = x.
Proof. intros H. rewrite wrap128_mod. apply Z.mod_small. exact H. Qed.

(* ---- reciprocal_ref ---- *)
Theorem reciprocal_ref_ok d : 2 ^ 63 <= d < B -> reciprocal_ref d = Val (recip1 d).
Proof.
  intros Hd. unfold reciprocal_ref. pose proof pow63 as P. pose proof B_pos as HB.
  destruct (Z.ltb_spec d (2 ^ 63)); [lia|].
  destruct (Z.eqb_spec d 0); [lia|].
  destruct (recip1_spec d Hd) as [Hr _]. unfold recip1 in *.
  rewrite BB_eq.
  destruct (Z.ltb_spec ((B * B - 1) / d) B); [lia|].
  destruct (Z.leb_spec (2 * B) ((B * B - 1) / d)); [lia|].
  f_equal. unfold wrap. symmetry. apply Z.mod_unique with (q := 1); lia.
Qed.

(* ---- div_2x1_ref ---- *)
Theorem div_2x1_ref_ok u d :
  2 ^ 63 <= d < B -> 0 <= u -> u / B < d -> div_2x1_ref u d = Val (u / d, u mod d).
Proof.
  intros Hd Hu Hlt. unfold div_2x1_ref, hi128. pose proof B_pos as HB. pose proof pow63 as P.
  destruct (Z.ltb_spec d (2 ^ 63)); [lia|].
  destruct (Z.ltb_spec (u / B) d); [|lia]. cbn [negb].
  destruct (Z.eqb_spec d 0); [lia|].
  assert (Hud : u < d * B).
  { pose proof (Z.div_mod u B ltac:(lia)). pose proof (Z.mod_pos_bound u B HB). nia. }
  assert (Hq : 0 <= u / d < B).
  { split; [apply Z.div_pos; lia | apply Z.div_lt_upper_bound; lia]. }
  pose proof (Z.mod_pos_bound u d ltac:(lia)).
  rewrite !wrap_small by lia. reflexivity.
Qed.

(* ---- div_3x2_ref ---- *)
Lemma quot_unique N d q : 0 < d -> q * d <= N < (q + 1) * d -> N / d = q.
Proof. intros Hd H. symmetry. apply Z.div_unique with (r := N - q * d); lia. Qed.

Theorem div_3x2_ref_ok n21 n0 d :
  2 ^ 127 <= d < B * B -> 0 <= n21 < d -> 0 <= n0 < B ->
  div_3x2_ref n21 n0 d = Val ((n21 * B + n0) / d).
Proof.
  intros Hd Hn Hn0. unfold div_3x2_ref. pose proof B_pos as HB. pose proof pow63 as P63.
  pose proof pow127 as P127.
  destruct (Z.ltb_spec d (2 ^ 127)); [lia|].
  destruct (Z.ltb_spec n21 d); [|lia]. cbn [negb].
  pose proof (hi_lo_128 n21) as En. pose proof (hi_lo_128 d) as Ed.
  pose proof (lo128_range n21) as Hn1. pose proof (lo128_range d) as Hd0.
  pose proof (hi128_range d ltac:(lia)) as Hd1. pose proof (hi128_range n21 ltac:(lia)) as Hn2.
  set (n2 := hi128 n21) in *. set (n1 := lo128 n21) in *.
  set (d1 := hi128 d) in *. set (d0 := lo128 d) in *.
  assert (Hd1n : 2 ^ 63 <= d1).
  { destruct (Z.le_gt_cases (2 ^ 63) d1) as [|Hgt]; [assumption|exfalso].
    assert ((d1 + 1) * B <= 2 ^ 63 * B) by (apply Z.mul_le_mono_nonneg_r; lia). lia. }
  set (N := n21 * B + n0).
  assert (Hdpos : 0 < d) by lia.
  destruct (Z.eqb_spec n2 d1) as [E|E].
  - (* n2 = d1 : the quotient is B-1 or B-2 *)
    assert (Hlt : n1 < d0) by nia.
    destruct (Z.ltb_spec n1 d0); [|lia]. cbn [negb].
    rewrite (wrap128_small (d0 * B)) by nia.
    rewrite (wrap128_small (n1 * B)) by nia.
    rewrite lor_hi_lo by lia.
    rewrite wrap128_small by nia.
    assert (EN : N = B * d - (d0 * B - (n1 * B + n0))) by (unfold N; nia).
    destruct (Z.ltb_spec d (d0 * B - (n1 * B + n0))) as [Hc|Hc]; f_equal; symmetry;
      apply quot_unique; try lia; nia.
  - (* schoolbook estimate with at most two corrections *)
    assert (Hn2lt : n2 < d1) by nia.
    rewrite (div_2x1_ref_ok n21 d1) by (try change (n21 / B) with n2; lia). cbn [obind].
    pose proof (Z.div_mod n21 d1 ltac:(lia)) as Eq.
    pose proof (Z.mod_pos_bound n21 d1 ltac:(lia)) as Hr.
    set (q := n21 / d1) in *. set (r := n21 mod d1) in *.
    assert (Hq : 0 <= q < B).
    { unfold q. split; [apply Z.div_pos; lia | apply Z.div_lt_upper_bound; nia]. }
    set (Q := N / d).
    pose proof (Z.div_mod N d ltac:(lia)) as EQ. pose proof (Z.mod_pos_bound N d Hdpos) as HR.
    fold Q in EQ.
    assert (HN : 0 <= N) by (unfold N; nia).
    assert (HQ0 : 0 <= Q) by (unfold Q; apply Z.div_pos; lia).
    (* Q <= q <= Q + 2 *)
    assert (HQq : Q <= q).
    { assert (Q * d1 <= n21) by (unfold N in *; nia). nia. }
    assert (HqQ : q <= Q + 2).
    { destruct (Z.le_gt_cases q (Q + 2)) as [|Hgt]; [assumption|exfalso].
      assert (H1 : (q - 2) * d > N) by nia.
      assert (H2 : (q - 2) * d0 > 2 * d1 * B) by (unfold N in *; nia).
      nia. }
    (* the correction test is exact: q' * d > N <-> q' * d0 > r' * B + n0 where n21 = q' d1 + r' *)
    assert (Ediff : forall q' r', n21 = d1 * q' + r' -> N - q' * d = r' * B + n0 - q' * d0).
    { intros q' r' E'. unfold N. nia. }
    destruct (Z.leb_spec BB (q * d0)); [rewrite BB_eq in *; nia|].
    rewrite (wrap128_small (r * B)) by nia. rewrite lor_hi_lo by lia.
    pose proof (Ediff q r Eq) as D0.
    destruct (Z.ltb_spec (r * B + n0) (q * d0)) as [Hc|Hc].
    + (* first correction *)
      destruct (Z.ltb_spec q 1); [nia|].
      assert (Eq1 : n21 = d1 * (q - 1) + (r + d1)) by lia.
      pose proof (Ediff (q - 1) (r + d1) Eq1) as D1.
      assert (Hlt1 : Q < q) by nia.
      destruct (Z.ltb_spec (r + d1) B) as [Hnov|Hov].
      * rewrite (wrap_small (r + d1)) by lia.
        destruct (Z.ltb_spec (r + d1) d1); [lia|].
        destruct (Z.leb_spec BB ((q - 1) * d0)); [rewrite BB_eq in *; nia|].
        rewrite (wrap128_small ((r + d1) * B)) by nia. rewrite lor_hi_lo by lia.
        destruct (Z.ltb_spec ((r + d1) * B + n0) ((q - 1) * d0)) as [Hc2|Hc2].
        -- destruct (Z.ltb_spec (q - 1) 1); [nia|].
           f_equal. assert (Q < q - 1) by nia. lia.
        -- f_equal. assert (q - 1 <= Q) by nia. lia.
      * assert (Ew : wrap (r + d1) = r + d1 - B).
        { unfold wrap. symmetry. apply Z.mod_unique with (q := 1); lia. }
        rewrite Ew. destruct (Z.ltb_spec (r + d1 - B) d1); [|lia].
        f_equal. assert (q - 1 <= Q) by nia. lia.
    + f_equal. assert (q <= Q) by nia. lia.
Qed.
