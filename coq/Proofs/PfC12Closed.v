(* Proofs/PfC12Closed.v — C12 without the division hypothesis: the kernel contract assumed by
   PfGcd / PfC12 is the theorem PfDiv.div_kernel_spec (C14). *)
From Coq Require Import ZArith List.
From RV.Model Require Import Base Div.
From RV.Proofs Require Import PfDiv PfGcdUint PfGcd PfGcdMatrix PfGcdInv PfC12.
From RV.Run Require Import RunC12.

Lemma DivKernelOK_holds : DivKernelOK.
Proof. unfold DivKernelOK. intros n d Hn Hd Hz. exact (div_kernel_spec n d Hn Hd Hz). Qed.

Theorem C12_all c : wf c -> spec c (run c) = true.
Proof. exact (C12_all_modulo_kernel DivKernelOK_holds c). Qed.
