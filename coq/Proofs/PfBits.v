(* Proofs/PfBits.v — Z.testbit characterisations of the u64 primitives and of every function of
   Model/Bits.v. *)
From Coq Require Import ZArith List Bool Lia.
From RV.Model Require Import Base Word Bits.
From RV.Proofs Require Import BaseFacts.
From RV.Run Require RunC06.
Import ListNotations.
Local Open Scope Z_scope.

(* ================= generic facts about Z bits ================= *)
Lemma pow2_pos k : 0 <= k -> 0 < 2 ^ k.
Proof. intros. apply Z.pow_pos_nonneg; lia. Qed.

Lemma testbit_high x n j : 0 <= x < 2 ^ n -> 0 <= n <= j -> Z.testbit x j = false.
Proof.
  intros Hx Hj. destruct (Z.eq_dec x 0) as [->|N]; [apply Z.bits_0|].
  apply Z.bits_above_log2; [lia|]. assert (Z.log2 x < n) by (apply Z.log2_lt_pow2; lia). lia.
Qed.

Lemma bits_bound x n : 0 <= x -> 0 <= n ->
  (forall j, n <= j -> Z.testbit x j = false) -> x < 2 ^ n.
Proof.
  intros Hx Hn H. destruct (Z.eq_dec x 0) as [->|N]; [now apply pow2_pos|].
  apply Z.log2_lt_pow2; [lia|]. destruct (Z.lt_ge_cases (Z.log2 x) n) as [|G]; [assumption|].
  specialize (H _ G). rewrite Z.bit_log2 in H by lia. discriminate.
Qed.

Lemma testbit_add_shift a h k i :
  0 <= a < 2 ^ k -> 0 <= k -> 0 <= i ->
  Z.testbit (a + 2 ^ k * h) i = if i <? k then Z.testbit a i else Z.testbit h (i - k).
Proof.
  intros Ha Hk Hi. pose proof (pow2_pos k Hk).
  destruct (Z.ltb_spec i k).
  - rewrite <- (Z.mod_pow2_bits_low (a + 2 ^ k * h) k i) by lia.
    destruct (div_mod_lin a h (2 ^ k) Ha) as [-> _]. reflexivity.
  - replace i with ((i - k) + k) at 1 by lia. rewrite <- Z.div_pow2_bits by lia.
    destruct (div_mod_lin a h (2 ^ k) Ha) as [_ ->]. reflexivity.
Qed.

Lemma lor_disjoint a h k : 0 <= a < 2 ^ k -> 0 <= k -> Z.lor a (2 ^ k * h) = a + 2 ^ k * h.
Proof.
  intros Ha Hk. apply Z.bits_inj'. intros i Hi.
  rewrite Z.lor_spec, testbit_add_shift by lia.
  destruct (Z.ltb_spec i k).
  - rewrite Z.mul_comm, Z.mul_pow2_bits_low by lia. apply orb_false_r.
  - rewrite (testbit_high a k i) by lia. rewrite Z.mul_comm, Z.mul_pow2_bits by lia. reflexivity.
Qed.

Lemma testbit_compl x n j :
  0 <= x < 2 ^ n -> 0 <= j < n -> Z.testbit (2 ^ n - 1 - x) j = negb (Z.testbit x j).
Proof.
  intros Hx Hj.
  replace (2 ^ n - 1 - x) with ((Z.lnot x) mod 2 ^ n).
  - rewrite Z.mod_pow2_bits_low by lia. apply Z.lnot_spec. lia.
  - unfold Z.lnot. symmetry. apply Z.mod_unique with (q := -1); lia.
Qed.

Lemma compl_range x n : 0 <= x < 2 ^ n -> 0 <= 2 ^ n - 1 - x < 2 ^ n.
Proof. lia. Qed.

Lemma land_pow2_nonzero x b : 0 <= b -> nonzero (Z.land x (2 ^ b)) = Z.testbit x b.
Proof.
  intros Hb. unfold nonzero.
  assert (E : Z.land x (2 ^ b) = if Z.testbit x b then 2 ^ b else 0).
  { apply Z.bits_inj'. intros i Hi. rewrite Z.land_spec, Z.pow2_bits_eqb by lia.
    destruct (Z.eqb_spec b i) as [->|N].
    - rewrite andb_true_r. destruct (Z.testbit x i); [now rewrite Z.pow2_bits_true | now rewrite Z.bits_0].
    - rewrite andb_false_r. destruct (Z.testbit x b); [rewrite Z.pow2_bits_false by lia; reflexivity | now rewrite Z.bits_0]. }
  rewrite E. pose proof (pow2_pos b Hb). destruct (Z.testbit x b).
  - destruct (Z.eqb_spec (2 ^ b) 0); [lia | reflexivity].
  - reflexivity.
Qed.

(* ================= bits of eval ================= *)
Lemma testbit_eval_cons x t i : inW x -> 0 <= i ->
  Z.testbit (eval (x :: t)) i = if i <? 64 then Z.testbit x i else Z.testbit (eval t) (i - 64).
Proof.
  intros Hx Hi. cbn [eval]. rewrite B_pow. apply testbit_add_shift; try lia.
  unfold inW in Hx. rewrite B_pow in Hx. exact Hx.
Qed.

Lemma testbit_eval l : forall i, Forall inW l -> 0 <= i ->
  Z.testbit (eval l) i = Z.testbit (nth (Z.to_nat (i / 64)) l 0) (i mod 64).
Proof.
  induction l as [|x t IH]; intros i Hw Hi.
  - cbn [eval]. rewrite Z.bits_0. destruct (Z.to_nat (i / 64)); cbn; now rewrite Z.bits_0.
  - inversion Hw as [|? ? Hx Ht]; subst. rewrite testbit_eval_cons by assumption.
    destruct (Z.ltb_spec i 64).
    + rewrite Z.div_small, Z.mod_small by lia. reflexivity.
    + rewrite IH by (auto; lia).
      replace (i / 64) with ((i - 64) / 64 + 1) by (Z.div_mod_to_equations; lia).
      replace (i mod 64) with ((i - 64) mod 64) by (Z.div_mod_to_equations; lia).
      assert (0 <= (i - 64) / 64) by (apply Z.div_pos; lia).
      rewrite Z2Nat.inj_add by lia. rewrite Nat.add_comm. reflexivity.
Qed.

(* ================= u64 primitives (Model/Word.v) ================= *)
(* clz64 x = 63 - floor(log2 x) for x <> 0, 64 for x = 0: by definition. *)

Lemma testbit_half x j : 0 <= j -> Z.testbit (x / 2) j = Z.testbit x (j + 1).
Proof. intros. rewrite Z.div2_bits by lia. f_equal. Qed.

Lemma ctz_fuel_spec n : forall x, 0 < x < 2 ^ Z.of_nat n ->
  0 <= ctz_fuel n x < Z.of_nat n /\ Z.testbit x (ctz_fuel n x) = true /\
  (forall j, 0 <= j < ctz_fuel n x -> Z.testbit x j = false).
Proof.
  induction n as [|n IH]; intros x Hx.
  - cbn in Hx. lia.
  - cbn [ctz_fuel]. rewrite Nat2Z.inj_succ, Z.pow_succ_r in Hx by lia.
    destruct (Z.odd x) eqn:Ho.
    + rewrite Z.bit0_odd. split; [lia|]. split; [exact Ho|]. intros; lia.
    + assert (Hx2 : 0 < x / 2 < 2 ^ Z.of_nat n).
      { rewrite <- Z.negb_even, negb_false_iff in Ho. apply Z.even_spec in Ho. destruct Ho as [m ->].
        rewrite Z.mul_comm, Z.div_mul by lia. lia. }
      destruct (IH _ Hx2) as (R & T & Lw). split; [lia|]. split.
      * rewrite <- T, testbit_half by lia. f_equal. lia.
      * intros j Hj. destruct (Z.eq_dec j 0) as [->|N]; [now rewrite Z.bit0_odd|].
        replace j with ((j - 1) + 1) by lia. rewrite <- testbit_half by lia. apply Lw. lia.
Qed.

Lemma ctz64_spec x : 0 < x < B ->
  0 <= ctz64 x < 64 /\ Z.testbit x (ctz64 x) = true /\
  (forall j, 0 <= j < ctz64 x -> Z.testbit x j = false).
Proof.
  intros Hx. unfold ctz64. destruct (Z.eqb_spec x 0); [lia|].
  rewrite B_pow in Hx. apply (ctz_fuel_spec 64 x). exact Hx.
Qed.

(* lowest set bit is unique *)
Lemma lowbit_unique x k k' :
  Z.testbit x k = true -> (forall j, 0 <= j < k -> Z.testbit x j = false) ->
  Z.testbit x k' = true -> (forall j, 0 <= j < k' -> Z.testbit x j = false) ->
  0 <= k -> 0 <= k' -> k = k'.
Proof.
  intros T L T' L' H H'. destruct (Z.lt_trichotomy k k') as [C|[C|C]]; [|assumption|].
  - rewrite L' in T by lia. discriminate.
  - rewrite L in T' by lia. discriminate.
Qed.

Lemma testbit_2acc acc b j : 0 <= b < 2 -> 0 <= j ->
  Z.testbit (2 * acc + b) j = if j =? 0 then Z.testbit b 0 else Z.testbit acc (j - 1).
Proof.
  intros Hb Hj. rewrite Z.add_comm. change 2 with (2 ^ 1) at 1.
  rewrite testbit_add_shift by lia.
  destruct (Z.eqb_spec j 0) as [->|N]; [reflexivity|].
  destruct (Z.ltb_spec j 1); [lia | reflexivity].
Qed.

Lemma testbit_mod2 x : Z.testbit (x mod 2) 0 = Z.testbit x 0.
Proof. change 2 with (2 ^ 1). apply Z.mod_pow2_bits_low. lia. Qed.

Lemma bitrev_fuel_spec n : forall x acc i, 0 <= i ->
  Z.testbit (bitrev_fuel n x acc) i =
  if i <? Z.of_nat n then Z.testbit x (Z.of_nat n - 1 - i) else Z.testbit acc (i - Z.of_nat n).
Proof.
  induction n as [|n IH]; intros x acc i Hi.
  - cbn [bitrev_fuel]. destruct (Z.ltb_spec i (Z.of_nat 0)); [lia|]. f_equal. lia.
  - cbn [bitrev_fuel]. rewrite IH by lia. rewrite Nat2Z.inj_succ.
    pose proof (Z.mod_pos_bound x 2 ltac:(lia)) as Hm.
    destruct (Z.ltb_spec i (Z.of_nat n)); destruct (Z.ltb_spec i (Z.succ (Z.of_nat n))); try lia.
    + rewrite testbit_half by lia. f_equal. lia.
    + assert (i = Z.of_nat n) as -> by lia. rewrite Z.sub_diag.
      replace (Z.succ (Z.of_nat n) - 1 - Z.of_nat n) with 0 by lia.
      rewrite testbit_2acc by lia. cbn. apply testbit_mod2.
    + rewrite testbit_2acc by lia. destruct (Z.eqb_spec (i - Z.of_nat n) 0); [lia|]. f_equal. lia.
Qed.

Lemma bitrev_fuel_range n : forall x acc, 0 <= acc -> 0 <= bitrev_fuel n x acc.
Proof.
  induction n as [|n IH]; intros x acc Ha; cbn [bitrev_fuel]; [assumption|].
  apply IH. pose proof (Z.mod_pos_bound x 2 ltac:(lia)). lia.
Qed.

Lemma bitrev64_spec x i : 0 <= i ->
  Z.testbit (bitrev64 x) i = if i <? 64 then Z.testbit x (63 - i) else false.
Proof.
  intros Hi. unfold bitrev64. rewrite bitrev_fuel_spec by lia. change (Z.of_nat 64) with 64.
  destruct (Z.ltb_spec i 64); [f_equal; lia | apply Z.bits_0].
Qed.

Lemma bitrev64_inW x : inW (bitrev64 x).
Proof.
  unfold inW. split; [apply bitrev_fuel_range; lia|]. rewrite B_pow.
  apply bits_bound; [apply bitrev_fuel_range; lia | lia|].
  intros j Hj. rewrite bitrev64_spec by lia. destruct (Z.ltb_spec j 64); [lia | reflexivity].
Qed.

(* ---- the specification's mirror ---- *)
Lemma zrev_bitrev n : forall x acc, RunC06.zrev n x acc = bitrev_fuel n x acc.
Proof.
  induction n as [|n IH]; intros x acc; cbn [RunC06.zrev bitrev_fuel]; [reflexivity|].
  rewrite IH, Z.div2_div, Z.double_spec. f_equal.
  f_equal. rewrite Zmod_odd. destruct (Z.odd x); reflexivity.
Qed.

Lemma mirror_spec bits v i : 0 <= bits -> 0 <= i ->
  Z.testbit (RunC06.mirror bits v) i = if i <? bits then Z.testbit v (bits - 1 - i) else false.
Proof.
  intros Hb Hi. unfold RunC06.mirror. rewrite zrev_bitrev, bitrev_fuel_spec by lia.
  rewrite Z2Nat.id by lia. destruct (Z.ltb_spec i bits); [reflexivity | apply Z.bits_0].
Qed.

Lemma mirror_range bits v : 0 <= bits -> 0 <= RunC06.mirror bits v < 2 ^ bits.
Proof.
  intros Hb. assert (0 <= RunC06.mirror bits v).
  { unfold RunC06.mirror. rewrite zrev_bitrev. apply bitrev_fuel_range. lia. }
  split; [assumption|]. apply bits_bound; try lia. intros j Hj. rewrite mirror_spec by lia.
  destruct (Z.ltb_spec j bits); [lia | reflexivity].
Qed.
(* ---- popcount ---- *)
Lemma popcount_step x : 0 <= x -> RunC06.popcount x = x mod 2 + RunC06.popcount (x / 2).
Proof.
  intros Hx. destruct x as [|p|p]; [reflexivity| |lia].
  destruct p as [q|q|].
  - change (RunC06.popcount (Z.pos q~1)) with (1 + RunC06.popcount (Z.pos q)).
    rewrite Pos2Z.inj_xI. replace ((2 * Z.pos q + 1) mod 2) with 1 by (apply Z.mod_unique with (q := Z.pos q); lia).
    replace ((2 * Z.pos q + 1) / 2) with (Z.pos q) by (apply Z.div_unique with (r := 1); lia).
    reflexivity.
  - change (RunC06.popcount (Z.pos q~0)) with (RunC06.popcount (Z.pos q)).
    rewrite Pos2Z.inj_xO. rewrite Z.mul_comm, Z.mod_mul, Z.div_mul by lia. reflexivity.
  - reflexivity.
Qed.

Lemma popcount_nonneg x : 0 <= RunC06.popcount x.
Proof.
  destruct x as [|p|p]; cbn; try lia. induction p; cbn [RunC06.pos_popcount]; lia.
Qed.

Lemma popcount_pos x : 0 < x -> 1 <= RunC06.popcount x.
Proof.
  destruct x as [|p|p]; try lia. intros _. cbn. induction p; cbn [RunC06.pos_popcount]; lia.
Qed.

Lemma popcnt_fuel_spec n : forall x, 0 <= x < 2 ^ Z.of_nat n -> popcnt_fuel n x = RunC06.popcount x.
Proof.
  induction n as [|n IH]; intros x Hx.
  - cbn in Hx. assert (x = 0) as -> by lia. reflexivity.
  - cbn [popcnt_fuel]. rewrite Nat2Z.inj_succ, Z.pow_succ_r in Hx by lia.
    rewrite popcount_step by lia. f_equal. apply IH. Z.div_mod_to_equations; lia.
Qed.

Lemma popcnt64_spec x : inW x -> popcnt64 x = RunC06.popcount x.
Proof. intros Hx. apply (popcnt_fuel_spec 64). unfold inW in Hx. rewrite B_pow in Hx. exact Hx. Qed.

(* popcount is additive over a split at bit k *)
Lemma popcount_split k : forall a h, 0 <= a < 2 ^ Z.of_nat k -> 0 <= h ->
  RunC06.popcount (a + 2 ^ Z.of_nat k * h) = RunC06.popcount a + RunC06.popcount h.
Proof.
  induction k as [|k IH]; intros a h Ha Hh.
  - cbn in Ha. assert (a = 0) as -> by lia. cbn. destruct h; reflexivity.
  - rewrite Nat2Z.inj_succ, Z.pow_succ_r in * by lia.
    pose proof (pow2_pos (Z.of_nat k) ltac:(lia)).
    rewrite (popcount_step (a + _)) by nia. rewrite (popcount_step a) by lia.
    replace (2 * 2 ^ Z.of_nat k * h) with (2 ^ Z.of_nat k * h * 2) by ring.
    rewrite Z.mod_add, Z.div_add by lia.
    rewrite IH by (try lia; Z.div_mod_to_equations; lia). lia.
Qed.

Lemma popcount_le_bits n : forall x, 0 <= x < 2 ^ Z.of_nat n -> RunC06.popcount x <= Z.of_nat n.
Proof.
  induction n as [|n IH]; intros x Hx.
  - cbn in Hx. assert (x = 0) as -> by lia. cbn. lia.
  - rewrite Nat2Z.inj_succ, Z.pow_succ_r in * by lia. rewrite popcount_step by lia.
    assert (RunC06.popcount (x / 2) <= Z.of_nat n) by (apply IH; Z.div_mod_to_equations; lia).
    pose proof (Z.mod_pos_bound x 2 ltac:(lia)). lia.
Qed.

(* popcount = 1 exactly for powers of two *)
Lemma pos_popcount_one p : RunC06.pos_popcount p = 1 <-> Z.pos p = 2 ^ Z.log2 (Z.pos p).
Proof.
  induction p as [q IH|q IH|].
  - cbn [RunC06.pos_popcount]. pose proof (popcount_pos (Z.pos q) ltac:(lia)) as H. cbn in H.
    split; [lia|]. intros E. exfalso.
    assert (Hl : 0 < Z.log2 (Z.pos q~1)) by (apply Z.log2_pos; lia).
    assert (Z.odd (Z.pos q~1) = true) by reflexivity.
    rewrite E in H0. replace (Z.log2 (Z.pos q~1)) with (Z.succ (Z.log2 (Z.pos q~1) - 1)) in H0 by lia.
    rewrite Z.pow_succ_r, Z.odd_mul in H0 by lia. discriminate.
  - cbn [RunC06.pos_popcount]. rewrite IH. rewrite (Pos2Z.inj_xO q).
    rewrite Z.log2_double by lia. rewrite Z.pow_succ_r by apply Z.log2_nonneg. lia.
  - cbn. tauto.
Qed.

Lemma popcount_one v : 0 <= v -> (RunC06.popcount v =? 1) = RunC06.is_pow2 v.
Proof.
  intros Hv. unfold RunC06.is_pow2. destruct v as [|p|p]; [reflexivity | | lia].
  cbn [RunC06.popcount]. change (0 <? Z.pos p) with true. cbn [andb].
  destruct (Z.eqb_spec (RunC06.pos_popcount p) 1) as [E|E]; destruct (Z.eqb_spec (Z.pos p) (2 ^ Z.log2 (Z.pos p))) as [F|F];
    try reflexivity; apply pos_popcount_one in E || apply pos_popcount_one in F; contradiction.
Qed.
(* ---- val2: lowest set bit ---- *)
Lemma pos_ctz_spec p :
  0 <= RunC06.pos_ctz p /\ Z.testbit (Z.pos p) (RunC06.pos_ctz p) = true /\
  (forall j, 0 <= j < RunC06.pos_ctz p -> Z.testbit (Z.pos p) j = false).
Proof.
  induction p as [q _|q IH|]; cbn [RunC06.pos_ctz].
  - split; [lia|]. split; [reflexivity|]. intros; lia.
  - destruct IH as (R & T & Lw). split; [lia|]. split.
    + rewrite Pos2Z.inj_xO. replace (1 + RunC06.pos_ctz q) with (Z.succ (RunC06.pos_ctz q)) by lia.
      rewrite Z.double_bits_succ. exact T.
    + intros j Hj. destruct (Z.eq_dec j 0) as [->|N]; [reflexivity|].
      rewrite Pos2Z.inj_xO. replace j with (Z.succ (j - 1)) by lia. rewrite Z.double_bits_succ.
      apply Lw. lia.
  - split; [lia|]. split; [reflexivity|]. intros; lia.
Qed.

Lemma val2_char v t : 0 < v -> 0 <= t -> Z.testbit v t = true ->
  (forall j, 0 <= j < t -> Z.testbit v j = false) -> RunC06.val2 v = t.
Proof.
  intros Hv Ht T Lw. destruct v as [|p|p]; try lia. cbn [RunC06.val2].
  destruct (pos_ctz_spec p) as (R & T' & Lw').
  eapply lowbit_unique; eauto.
Qed.

Lemma zero_bits v n : 0 <= v < 2 ^ n -> 0 <= n ->
  (forall j, 0 <= j < n -> Z.testbit v j = false) -> v = 0.
Proof.
  intros Hv Hn H. apply Z.bits_inj'. intros j Hj. rewrite Z.bits_0.
  destruct (Z.lt_ge_cases j n); [apply H; lia | eapply testbit_high; eauto; lia].
Qed.

(* ---- bitlen ---- *)
Lemma bitlen_nonneg v : 0 <= RunC06.bitlen v.
Proof. unfold RunC06.bitlen. destruct (v =? 0); [lia|]. pose proof (Z.log2_nonneg v). lia. Qed.

Lemma bitlen_le v n : 0 <= v < 2 ^ n -> 0 <= n -> RunC06.bitlen v <= n.
Proof.
  intros Hv Hn. unfold RunC06.bitlen. destruct (Z.eqb_spec v 0); [lia|].
  assert (Z.log2 v < n) by (apply Z.log2_lt_pow2; lia). lia.
Qed.

Lemma log2_split a h k : 0 <= a < 2 ^ k -> 0 <= k -> 0 < h ->
  Z.log2 (a + 2 ^ k * h) = k + Z.log2 h.
Proof.
  intros Ha Hk Hh. pose proof (pow2_pos k Hk).
  destruct (Z.log2_spec h Hh) as [L1 L2]. pose proof (Z.log2_nonneg h).
  apply Z.log2_unique; [lia|].
  rewrite Z.pow_succ_r in L2 by lia.
  replace (Z.succ (k + Z.log2 h)) with (k + Z.succ (Z.log2 h)) by lia.
  rewrite !Z.pow_add_r, Z.pow_succ_r by lia. nia.
Qed.

Lemma bitlen_split a h k : 0 <= a < 2 ^ k -> 0 <= k -> 0 < h ->
  RunC06.bitlen (a + 2 ^ k * h) = k + RunC06.bitlen h.
Proof.
  intros Ha Hk Hh. pose proof (pow2_pos k Hk). unfold RunC06.bitlen.
  destruct (Z.eqb_spec (a + 2 ^ k * h) 0); [nia|]. destruct (Z.eqb_spec h 0); [lia|].
  rewrite log2_split by lia. lia.
Qed.

Lemma bitlen_bound v : 0 <= v -> v < 2 ^ RunC06.bitlen v.
Proof.
  intros Hv. unfold RunC06.bitlen. destruct (Z.eqb_spec v 0) as [->|N]; [cbn; lia|].
  apply Z.log2_spec. lia.
Qed.
(* ================= list access ================= *)
Lemma lenZ_nonneg {A} (l : list A) : 0 <= lenZ l.
Proof. unfold lenZ. lia. Qed.

Lemma index_nth l i : 0 <= i < lenZ l -> index l i = Val (nth (Z.to_nat i) l 0).
Proof.
  intros Hi. unfold index. destruct (Z.ltb_spec i 0); [lia|]. destruct (Z.leb_spec (lenZ l) i); [lia|].
  cbn [orb]. unfold lenZ in *.
  destruct (nth_error l (Z.to_nat i)) eqn:E.
  - now rewrite (nth_error_nth _ _ _ E).
  - apply nth_error_None in E. lia.
Qed.

Lemma index_oob {A} (l : list A) i : lenZ l <= i -> index l i = Panic.
Proof.
  intros Hi. unfold index. destruct (Z.ltb_spec i 0); [reflexivity|].
  destruct (Z.leb_spec (lenZ l) i); [reflexivity | lia].
Qed.

Lemma canon_lenZ bits l : 0 <= bits -> canon bits l -> lenZ l = nlimbs bits.
Proof. intros Hb (Hl & _). unfold lenZ. rewrite Hl. now apply nlimbsN_Z. Qed.

Lemma eval_lt_pow64 l : Forall inW l -> 0 <= eval l < 2 ^ (64 * lenZ l).
Proof. intros H. pose proof (eval_bound l H) as E. rewrite Bn_pow2 in E. exact E. Qed.

(* ================= & | ^ ================= *)
Section BitOp.
  Variable F : Z -> Z -> Z.
  Variable fb : bool -> bool -> bool.
  Hypothesis HF : forall x y i, Z.testbit (F x y) i = fb (Z.testbit x i) (Z.testbit y i).
  Hypothesis Hnn : forall x y, 0 <= x -> 0 <= y -> 0 <= F x y.
  Hypothesis Hff : fb false false = false.

  Lemma F_bound x y n : 0 <= x < 2 ^ n -> 0 <= y < 2 ^ n -> 0 <= n -> 0 <= F x y < 2 ^ n.
  Proof.
    intros Hx Hy Hn. split; [apply Hnn; lia|]. apply bits_bound; [apply Hnn; lia | lia |].
    intros j Hj. rewrite HF, (testbit_high x n j), (testbit_high y n j) by lia. exact Hff.
  Qed.

  Lemma op_assign_spec : forall a b, length a = length b -> Forall inW a -> Forall inW b ->
    exists r, op_assign F a b = Val r /\ length r = length a /\ Forall inW r /\
              eval r = F (eval a) (eval b).
  Proof.
    induction a as [|x a IH]; intros [|y b] Hl Ha Hb; cbn [length] in Hl; try discriminate.
    - exists []. cbn. repeat split; auto. apply Z.bits_inj'. intros i _.
      rewrite HF, Z.bits_0. now rewrite Hff.
    - inversion Ha as [|? ? Hx Ha']; inversion Hb as [|? ? Hy Hb']; subst.
      destruct (IH b ltac:(lia) Ha' Hb') as (r & E & Lr & Wr & Er).
      exists (F x y :: r). cbn [op_assign]. rewrite E. cbn [obind].
      assert (Hxy : inW (F x y)).
      { unfold inW in *. rewrite B_pow in *. apply F_bound; lia. }
      repeat split; cbn [length]; auto.
      apply Z.bits_inj'. intros i Hi.
      rewrite HF, !testbit_eval_cons by auto. destruct (Z.ltb_spec i 64).
      + apply HF.
      + rewrite Er. apply HF.
  Qed.
End BitOp.

(* ================= not ================= *)
Lemma eval_map_not64 a : Forall inW a ->
  Forall inW (map not64 a) /\ eval (map not64 a) = B ^ Z.of_nat (length a) - 1 - eval a.
Proof.
  induction 1 as [|x a Hx Ha [IH1 IH2]]; cbn [map eval length].
  - split; [constructor | reflexivity].
  - split.
    + constructor; [|exact IH1]. unfold not64, inW in *. lia.
    + rewrite IH2, Bn_S. unfold not64. ring.
Qed.

Lemma compl_mod bits n v : 0 < bits -> bits <= 64 * n -> 0 <= v < 2 ^ bits ->
  (B ^ n - 1 - v) mod 2 ^ bits = 2 ^ bits - 1 - v.
Proof.
  intros Hb Hn Hv.
  assert (Hd : B ^ n = 2 ^ bits * 2 ^ (64 * n - bits)).
  { rewrite B_pow, <- Z.pow_mul_r, <- Z.pow_add_r by lia. f_equal. lia. }
  pose proof (pow2_pos bits ltac:(lia)). pose proof (pow2_pos (64 * n - bits) ltac:(lia)).
  rewrite Hd. symmetry. apply Z.mod_unique with (q := 2 ^ (64 * n - bits) - 1); lia.
Qed.

Lemma unot_spec bits a : 0 <= bits -> canon bits a ->
  canon bits (unot bits a) /\ eval (unot bits a) = RunC06.compl bits (eval a).
Proof.
  intros Hb Hc. unfold unot, RunC06.compl. destruct (Z.eqb_spec bits 0) as [->|N].
  - destruct (canon_uZERO 0 ltac:(lia)) as [Hz Hz0]. split; [exact Hz|].
    rewrite Hz0. apply canon_zero_width in Hc. subst a. reflexivity.
  - pose proof (canon_range bits a Hb Hc) as Hr. destruct Hc as (Hl & Hw & _).
    destruct (eval_map_not64 a Hw) as [W E].
    destruct (masked_spec bits (map not64 a) ltac:(lia) ltac:(now rewrite map_length) W) as [C V].
    split; [exact C|]. rewrite V, E, Hl, nlimbsN_Z by lia.
    apply compl_mod; try lia. pose proof (nlimbs_bounds bits ltac:(lia)). lia.
Qed.
(* ================= bit / set_bit ================= *)
Lemma shl64_one b : 0 <= b < 64 -> shl64 1 b = 2 ^ b.
Proof.
  intros Hb. unfold shl64. rewrite Z.mul_1_l, B_pow. apply Z.mod_small.
  split; [apply Z.lt_le_incl, pow2_pos; lia | apply Z.pow_lt_mono_r; lia].
Qed.

Lemma limb_index_range bits a i : 0 <= bits -> canon bits a -> 0 <= i < bits ->
  0 <= i / 64 < lenZ a /\ 0 <= i mod 64 < 64.
Proof.
  intros Hb Hc Hi. rewrite (canon_lenZ bits a Hb Hc).
  pose proof (nlimbs_bounds bits ltac:(lia)). Z.div_mod_to_equations. lia.
Qed.

Lemma bit_spec bits a i : 0 <= bits -> canon bits a -> 0 <= i ->
  Bits.bit bits a i = Val (if i <? bits then Z.testbit (eval a) i else false).
Proof.
  intros Hb Hc Hi. unfold Bits.bit. destruct (Z.leb_spec bits i); destruct (Z.ltb_spec i bits); try lia; [reflexivity|].
  destruct (limb_index_range bits a i Hb Hc ltac:(lia)) as [Hk Hm].
  rewrite index_nth by lia. cbn [obind]. rewrite shl64_one, land_pow2_nonzero by lia.
  destruct Hc as (_ & Hw & _). now rewrite testbit_eval by (auto; lia).
Qed.

Lemma upd_nat_spec f : forall l n, (n < length l)%nat ->
  exists r, upd_nat n f l = Val r /\ length r = length l /\
    (forall m, nth m r 0 = if Nat.eqb m n then f (nth n l 0) else nth m l 0) /\
    (Forall inW l -> inW (f (nth n l 0)) -> Forall inW r).
Proof.
  induction l as [|x t IH]; intros n Hn; cbn [length] in Hn; [lia|].
  destruct n as [|n].
  - exists (f x :: t). cbn [upd_nat]. repeat split; auto.
    + intros [|m]; reflexivity.
    + intros Hw Hf. inversion Hw; subst. constructor; auto.
  - destruct (IH n ltac:(lia)) as (r & E & Lr & Nr & Wr).
    exists (x :: r). cbn [upd_nat]. rewrite E. cbn [obind]. repeat split; cbn [length]; auto.
    + intros [|m]; [reflexivity|]. cbn [nth Nat.eqb]. apply Nr.
    + intros Hw Hf. inversion Hw; subst. constructor; auto.
Qed.


Lemma set_bit_spec bits a i v : 0 <= bits -> canon bits a -> 0 <= i ->
  exists r, Bits.set_bit bits a i v = Val r /\ canon bits r /\
    eval r = if i <? bits then (if v then Z.setbit (eval a) i else Z.clearbit (eval a) i)
             else eval a.
Proof.
  intros Hb Hc Hi. unfold Bits.set_bit.
  destruct (Z.leb_spec bits i); destruct (Z.ltb_spec i bits); try lia; [exists a; auto|].
  destruct (limb_index_range bits a i Hb Hc ltac:(lia)) as [Hk Hm].
  pose proof (canon_range bits a Hb Hc) as Hr.
  pose proof Hc as (Hl & Hw & _).
  set (k := i / 64) in *. set (b := i mod 64) in *.
  assert (Hkn : (Z.to_nat k < length a)%nat) by (unfold lenZ in Hk; lia).
  assert (Hx : inW (nth (Z.to_nat k) a 0)).
  { apply Forall_forall with (x := nth (Z.to_nat k) a 0) in Hw; [exact Hw | now apply nth_In]. }
  rewrite shl64_one by lia.
  assert (Hib : i = 64 * k + b) by (unfold k, b; apply Z.div_mod; lia).
  assert (Gen : forall f, inW (f (nth (Z.to_nat k) a 0)) ->
            forall g : bool -> bool -> bool,
            (forall m, 0 <= m < 64 ->
               Z.testbit (f (nth (Z.to_nat k) a 0)) m = g (b =? m) (Z.testbit (nth (Z.to_nat k) a 0) m)) ->
            (forall y, g false y = y) ->
            exists r, update a k f = Val r /\ length r = length a /\ Forall inW r /\
              forall j, 0 <= j -> Z.testbit (eval r) j = g (i =? j) (Z.testbit (eval a) j)).
  { intros f Hf g Hg Hg0. unfold update.
    destruct (Z.ltb_spec k 0); [lia|]. destruct (Z.leb_spec (lenZ a) k); [lia|]. cbn [orb].
    destruct (upd_nat_spec f a (Z.to_nat k) Hkn) as (r & E & Lr & Nr & Wr).
    exists r. split; [exact E|]. split; [exact Lr|]. specialize (Wr Hw Hf). split; [exact Wr|].
    intros j Hj. rewrite !testbit_eval by auto. rewrite Nr.
    pose proof (Z.mod_pos_bound j 64 ltac:(lia)) as Hjm.
    assert (Hjd : j = 64 * (j / 64) + j mod 64) by (apply Z.div_mod; lia).
    assert (0 <= j / 64) by (apply Z.div_pos; lia).
    destruct (Nat.eqb_spec (Z.to_nat (j / 64)) (Z.to_nat k)) as [Ek|Ek].
    - assert (j / 64 = k) as Ejk by lia. rewrite Ejk. rewrite Hg by lia.
      f_equal. destruct (Z.eqb_spec b (j mod 64)); destruct (Z.eqb_spec i j); try reflexivity; lia.
    - destruct (Z.eqb_spec i j) as [Eij|_]; [|now rewrite Hg0].
      exfalso. apply Ek. f_equal. subst j. reflexivity. }
  assert (Hp : 0 <= 2 ^ b < 2 ^ 64).
  { split; [apply Z.lt_le_incl, pow2_pos; lia | apply Z.pow_lt_mono_r; lia]. }
  unfold inW in Hx. rewrite B_pow in Hx.
  destruct v.
  - destruct (Gen (fun x => Z.lor x (2 ^ b))) with (g := orb) as (r & E & Lr & Wr & Tr).
    + unfold inW. rewrite B_pow. apply (F_bound Z.lor orb Z.lor_spec (fun x y Hx Hy => proj2 (Z.lor_nonneg x y) (conj Hx Hy)) eq_refl); lia.
    + intros m Hm'. rewrite Z.lor_spec, Z.pow2_bits_eqb by lia. apply orb_comm.
    + reflexivity.
    + exists r. split; [exact E|].
      assert (Ev : eval r = Z.setbit (eval a) i).
      { apply Z.bits_inj'. intros j Hj. rewrite Tr, Z.setbit_eqb by lia. reflexivity. }
      split; [|exact Ev]. split; [congruence|]. split; [exact Wr|]. rewrite Ev.
      apply bits_bound; [|lia|].
      * rewrite <- Ev. apply (eval_bound r Wr).
      * intros j Hj. rewrite Z.setbit_eqb by lia. rewrite (testbit_high (eval a) bits j) by lia.
        destruct (Z.eqb_spec i j); [lia | reflexivity].
  - destruct (Gen (fun x => Z.land x (not64 (2 ^ b)))) with (g := fun e y => y && negb e) as (r & E & Lr & Wr & Tr).
    + unfold inW. split; [apply Z.land_nonneg; lia|]. rewrite B_pow.
      apply bits_bound; [apply Z.land_nonneg; lia | lia |].
      intros j Hj. rewrite Z.land_spec, (testbit_high _ 64 j) by lia. reflexivity.
    + intros m Hm'. rewrite Z.land_spec. unfold not64. rewrite B_pow, testbit_compl by lia.
      rewrite Z.pow2_bits_eqb by lia. reflexivity.
    + intros y. apply andb_true_r.
    + exists r. split; [exact E|].
      assert (Ev : eval r = Z.clearbit (eval a) i).
      { apply Z.bits_inj'. intros j Hj. rewrite Tr, Z.clearbit_eqb by lia. reflexivity. }
      split; [|exact Ev]. split; [congruence|]. split; [exact Wr|]. rewrite Ev.
      apply bits_bound; [|lia|].
      * rewrite <- Ev. apply (eval_bound r Wr).
      * intros j Hj. rewrite Z.clearbit_eqb by lia. rewrite (testbit_high (eval a) bits j) by lia.
        reflexivity.
Qed.
(* ================= byte / checked_byte ================= *)
Lemma le_bytes_fuel_length n x : length (le_bytes_fuel n x) = n.
Proof. revert x; induction n as [|n IH]; intros x; cbn [le_bytes_fuel length]; auto. Qed.

Lemma le_bytes_fuel_nth n : forall x m, (m < n)%nat ->
  nth m (le_bytes_fuel n x) 0 = (x / 2 ^ (8 * Z.of_nat m)) mod 2 ^ 8.
Proof.
  induction n as [|n IH]; intros x m Hm; [lia|]. cbn [le_bytes_fuel].
  destruct m as [|m]; cbn [nth].
  - cbn. now rewrite Z.div_1_r.
  - rewrite IH by lia. change 256 with (2 ^ 8). rewrite Z.div_div by (try apply pow2_pos; lia).
    rewrite <- Z.pow_add_r by lia. do 3 f_equal. lia.
Qed.

Lemma flat_map8_length a : length (flat_map le_bytes64 a) = (8 * length a)%nat.
Proof.
  induction a as [|x a IH]; [reflexivity|]. cbn [flat_map length]. rewrite app_length, IH.
  unfold le_bytes64. rewrite le_bytes_fuel_length. lia.
Qed.

Lemma flat_map8_nth a : forall k m, (m < 8)%nat -> (k < length a)%nat ->
  nth (8 * k + m) (flat_map le_bytes64 a) 0 = nth m (le_bytes64 (nth k a 0)) 0.
Proof.
  induction a as [|x a IH]; intros k m Hm Hk; cbn [length] in Hk; [lia|].
  cbn [flat_map]. destruct k as [|k].
  - rewrite app_nth1 by (unfold le_bytes64; rewrite le_bytes_fuel_length; lia). reflexivity.
  - rewrite app_nth2 by (unfold le_bytes64; rewrite le_bytes_fuel_length; lia).
    unfold le_bytes64 at 1. rewrite le_bytes_fuel_length.
    replace (8 * S k + m - 8)%nat with (8 * k + m)%nat by lia. cbn [nth]. apply IH; lia.
Qed.

Lemma nth_firstn_lt {A} (l : list A) d : forall n i, (i < n)%nat -> nth i (firstn n l) d = nth i l d.
Proof.
  induction l as [|x l IH]; intros n i Hi.
  - now rewrite firstn_nil.
  - destruct n as [|n]; [lia|]. destruct i as [|i]; cbn [firstn nth]; [reflexivity|]. apply IH. lia.
Qed.

Lemma BYTES_bound bits : 0 <= bits -> 0 <= BYTES bits <= 8 * nlimbs bits.
Proof. intros. unfold BYTES, nlimbs. Z.div_mod_to_equations. lia. Qed.

Lemma as_le_slice_len bits a : 0 <= bits -> canon bits a -> lenZ (as_le_slice bits a) = BYTES bits.
Proof.
  intros Hb Hc. pose proof (BYTES_bound bits Hb). pose proof (canon_lenZ bits a Hb Hc) as Hl.
  unfold as_le_slice, lenZ in *. rewrite firstn_length, flat_map8_length. lia.
Qed.

Lemma byte_value x m : inW x -> 0 <= m ->
  forall v i, 0 <= i -> (forall j, 0 <= j < 8 -> Z.testbit v (8 * i + j) = Z.testbit x (8 * m + j)) ->
  (x / 2 ^ (8 * m)) mod 2 ^ 8 = (v / 2 ^ (8 * i)) mod 2 ^ 8.
Proof.
  intros Hx Hm v i Hi H. apply Z.bits_inj'. intros j Hj.
  destruct (Z.lt_ge_cases j 8).
  - rewrite !Z.mod_pow2_bits_low, !Z.div_pow2_bits by lia. rewrite (Z.add_comm j), (Z.add_comm j). symmetry. apply H. lia.
  - rewrite !Z.mod_pow2_bits_high by lia. reflexivity.
Qed.

Lemma byte_spec bits a i : 0 <= bits -> canon bits a -> 0 <= i ->
  Bits.byte bits a i = if i <? BYTES bits then Val ((eval a / 2 ^ (8 * i)) mod 2 ^ 8) else Panic.
Proof.
  intros Hb Hc Hi. unfold Bits.byte. pose proof (as_le_slice_len bits a Hb Hc) as Hlen.
  destruct (Z.ltb_spec i (BYTES bits)); [|apply index_oob; lia].
  rewrite index_nth by lia. f_equal.
  pose proof (BYTES_bound bits Hb). pose proof (canon_lenZ bits a Hb Hc) as Hl. pose proof Hc as (_ & Hw & _).
  unfold as_le_slice. rewrite nth_firstn_lt by lia.
  set (k := i / 8). set (m := i mod 8).
  assert (Him : i = 8 * k + m) by (apply Z.div_mod; lia).
  assert (0 <= m < 8) by (apply Z.mod_pos_bound; lia).
  assert (0 <= k) by (apply Z.div_pos; lia).
  assert (k < lenZ a) by lia.
  replace (Z.to_nat i) with (8 * Z.to_nat k + Z.to_nat m)%nat by lia.
  unfold lenZ in *. rewrite flat_map8_nth by lia. unfold le_bytes64. rewrite le_bytes_fuel_nth by lia.
  rewrite Z2Nat.id by lia.
  assert (Hx : inW (nth (Z.to_nat k) a 0)).
  { apply Forall_forall with (x := nth (Z.to_nat k) a 0) in Hw; [exact Hw | apply nth_In; lia]. }
  apply byte_value; try lia; auto. intros j Hj. rewrite testbit_eval by (auto; lia).
  replace ((8 * i + j) / 64) with k by (Z.div_mod_to_equations; lia).
  replace ((8 * i + j) mod 64) with (8 * m + j) by (Z.div_mod_to_equations; lia). reflexivity.
Qed.

Lemma checked_byte_spec bits a i : 0 <= bits -> canon bits a -> 0 <= i ->
  Bits.checked_byte bits a i =
  Val (if i <? BYTES bits then Some ((eval a / 2 ^ (8 * i)) mod 2 ^ 8) else None).
Proof.
  intros Hb Hc Hi. unfold Bits.checked_byte. rewrite byte_spec by auto.
  destruct (i <? BYTES bits); reflexivity.
Qed.
(* ================= count_ones / count_zeros / is_power_of_two ================= *)
Lemma count_ones_fold a : forall acc, Forall inW a ->
  fold_left (fun total x => total + popcnt64 x) a acc = acc + RunC06.popcount (eval a).
Proof.
  induction a as [|x a IH]; intros acc Hw; cbn [fold_left eval].
  - cbn. lia.
  - inversion Hw as [|? ? Hx Ha]; subst. rewrite IH by auto. rewrite popcnt64_spec by auto.
    pose proof (eval_bound a Ha). unfold inW in Hx. rewrite B_pow in *.
    rewrite (popcount_split 64) by (cbn; lia). lia.
Qed.

Lemma count_ones_spec a : Forall inW a -> Bits.count_ones a = RunC06.popcount (eval a).
Proof. intros Hw. unfold Bits.count_ones. now rewrite count_ones_fold. Qed.

Lemma popcount_le v n : 0 <= v < 2 ^ n -> 0 <= n -> RunC06.popcount v <= n.
Proof.
  intros Hv Hn. pose proof (popcount_le_bits (Z.to_nat n) v) as H.
  rewrite Z2Nat.id in H by lia. auto.
Qed.

Lemma count_zeros_spec bits a : 0 <= bits -> canon bits a ->
  Bits.count_zeros bits a = Val (bits - RunC06.popcount (eval a)).
Proof.
  intros Hb Hc. pose proof (canon_range bits a Hb Hc). destruct Hc as (_ & Hw & _).
  unfold Bits.count_zeros, usub. rewrite count_ones_spec by auto.
  pose proof (popcount_le (eval a) bits ltac:(lia) Hb).
  destruct (Z.ltb_spec bits (RunC06.popcount (eval a))); [lia | reflexivity].
Qed.

Lemma is_power_of_two_spec a : Forall inW a -> Bits.is_power_of_two a = RunC06.is_pow2 (eval a).
Proof.
  intros Hw. unfold Bits.is_power_of_two. rewrite count_ones_spec by auto.
  apply popcount_one. apply (eval_bound a Hw).
Qed.
(* ================= leading_zeros / bit_len / byte_len / leading_ones ================= *)
Lemma clz64_bitlen x : inW x -> clz64 x = 64 - RunC06.bitlen x.
Proof. intros _. unfold clz64, RunC06.bitlen. destruct (x =? 0); lia. Qed.

Lemma eval_rev_cons x t : eval (rev (x :: t)) = eval (rev t) + 2 ^ (64 * lenZ t) * x.
Proof.
  cbn [rev]. rewrite eval_app, rev_length, Bn_pow2. cbn [eval]. unfold lenZ. lia.
Qed.

Lemma lz_loop_spec bits : forall ms n, Forall inW ms -> 0 <= n ->
  lz_loop bits ms n =
  if eval (rev ms) =? 0 then Val bits
  else usub (64 * (n + lenZ ms) - RunC06.bitlen (eval (rev ms))) (clz64 (mask bits)).
Proof.
  induction ms as [|x t IH]; intros n Hw Hn; [reflexivity|].
  inversion Hw as [|? ? Hx Ht]; subst. cbn [lz_loop]. rewrite eval_rev_cons.
  assert (Hr : 0 <= eval (rev t) < 2 ^ (64 * lenZ t)).
  { pose proof (eval_lt_pow64 (rev t) (Forall_rev Ht)) as E. unfold lenZ in *. now rewrite rev_length in E. }
  pose proof (lenZ_nonneg t). pose proof (pow2_pos (64 * lenZ t) ltac:(lia)).
  replace (lenZ (x :: t)) with (lenZ t + 1) by (unfold lenZ; cbn [length]; lia).
  unfold nonzero. destruct (Z.eqb_spec x 0) as [->|Nx]; cbn [negb].
  - rewrite Z.mul_0_r, Z.add_0_r. rewrite IH by (auto; lia).
    replace (n + 1 + lenZ t) with (n + (lenZ t + 1)) by lia. reflexivity.
  - unfold inW in Hx. destruct (Z.eqb_spec (eval (rev t) + 2 ^ (64 * lenZ t) * x) 0); [nia|].
    rewrite bitlen_split by lia. rewrite clz64_bitlen by (unfold inW; lia). f_equal. lia.
Qed.

Lemma clz64_mask bits : 0 < bits -> clz64 (mask bits) = 64 - topbits bits.
Proof.
  intros Hb. pose proof (topbits_range bits Hb). rewrite mask_topbits by lia.
  unfold clz64. pose proof (pow2_pos (topbits bits) ltac:(lia)).
  assert (2 ^ 1 <= 2 ^ topbits bits) by (apply Z.pow_le_mono_r; lia).
  destruct (Z.eqb_spec (2 ^ topbits bits - 1) 0); [lia|].
  replace (2 ^ topbits bits - 1) with (Z.pred (2 ^ topbits bits)) by lia.
  rewrite Z.log2_pred_pow2 by lia. lia.
Qed.

Lemma leading_zeros_spec bits a : 0 <= bits -> canon bits a ->
  Bits.leading_zeros bits a = Val (bits - RunC06.bitlen (eval a)).
Proof.
  intros Hb Hc. pose proof (canon_range bits a Hb Hc) as Hr.
  pose proof (canon_lenZ bits a Hb Hc) as Hl. pose proof Hc as (_ & Hw & _).
  unfold Bits.leading_zeros. rewrite lz_loop_spec by (auto using Forall_rev; lia).
  rewrite rev_involutive.
  destruct (Z.eqb_spec (eval a) 0) as [E|E].
  - rewrite E. change (RunC06.bitlen 0) with 0. f_equal. lia.
  - assert (0 < bits).
    { destruct (Z.eq_dec bits 0) as [->|]; [|lia]. apply canon_zero_width in Hc. subst a. cbn in E. lia. }
    rewrite clz64_mask by lia. unfold lenZ in *. rewrite rev_length, Hl.
    pose proof (bitlen_le (eval a) bits Hr Hb). unfold topbits, usub.
    destruct (Z.ltb_spec (64 * (0 + nlimbs bits) - RunC06.bitlen (eval a)) (64 - (bits - 64 * (nlimbs bits - 1)))); [lia|].
    f_equal. lia.
Qed.

Lemma bit_len_spec bits a : 0 <= bits -> canon bits a ->
  Bits.bit_len bits a = Val (RunC06.bitlen (eval a)).
Proof.
  intros Hb Hc. unfold Bits.bit_len. rewrite leading_zeros_spec by auto. cbn [obind]. unfold usub.
  pose proof (bitlen_nonneg (eval a)).
  destruct (Z.ltb_spec bits (bits - RunC06.bitlen (eval a))); [lia|]. f_equal. lia.
Qed.

Lemma byte_len_spec bits a : 0 <= bits -> canon bits a ->
  Bits.byte_len bits a = Val ((RunC06.bitlen (eval a) + 7) / 8).
Proof. intros Hb Hc. unfold Bits.byte_len. now rewrite bit_len_spec. Qed.

Lemma leading_ones_spec bits a : 0 <= bits -> canon bits a ->
  Bits.leading_ones bits a = Val (bits - RunC06.bitlen (RunC06.compl bits (eval a))).
Proof.
  intros Hb Hc. unfold Bits.leading_ones. destruct (unot_spec bits a Hb Hc) as [C E].
  rewrite leading_zeros_spec by auto. now rewrite E.
Qed.
(* ================= trailing_zeros / trailing_ones ================= *)
Lemma position_from_spec p l : forall n,
  match position_from p l n with
  | None => forall x, In x l -> p x = false
  | Some m => exists j, m = n + Z.of_nat j /\ (j < length l)%nat /\ p (nth j l 0) = true /\
                        forall j', (j' < j)%nat -> p (nth j' l 0) = false
  end.
Proof.
  induction l as [|x t IH]; intros n; cbn [position_from].
  - intros x [].
  - destruct (p x) eqn:Px.
    + exists 0%nat. cbn [length nth]. repeat split; try lia; auto.
    + specialize (IH (n + 1)). destruct (position_from p t (n + 1)) as [m|].
      * destruct IH as (j & -> & Hj & Pj & Lw). exists (S j). cbn [length nth].
        repeat split; try lia; auto. intros [|j'] Hj'; [exact Px | apply Lw; lia].
      * intros y [<-|Hy]; auto.
Qed.

Lemma low_run a (fill : bool) n x c : Forall inW a ->
  (n < length a)%nat -> x = nth n a 0 -> 0 <= c < 64 ->
  (forall j' m, (j' < n)%nat -> 0 <= m < 64 -> Z.testbit (nth j' a 0) m = fill) ->
  (forall m, 0 <= m < c -> Z.testbit x m = fill) ->
  Z.testbit x c = negb fill ->
  (forall j, 0 <= j < 64 * Z.of_nat n + c -> Z.testbit (eval a) j = fill) /\
  Z.testbit (eval a) (64 * Z.of_nat n + c) = negb fill.
Proof.
  intros Hw Hn -> Hc Hlow Hx Hxc. split.
  - intros j Hj. rewrite testbit_eval by (auto; lia).
    pose proof (Z.mod_pos_bound j 64 ltac:(lia)).
    assert (0 <= j / 64) by (apply Z.div_pos; lia).
    assert (j = 64 * (j / 64) + j mod 64) by (apply Z.div_mod; lia).
    destruct (Z.lt_ge_cases (j / 64) (Z.of_nat n)).
    + apply Hlow; lia.
    + assert (j / 64 = Z.of_nat n) as -> by lia. rewrite Nat2Z.id. apply Hx. lia.
  - rewrite testbit_eval by (auto; lia).
    replace ((64 * Z.of_nat n + c) / 64) with (Z.of_nat n) by (Z.div_mod_to_equations; lia).
    replace ((64 * Z.of_nat n + c) mod 64) with c by (Z.div_mod_to_equations; lia).
    now rewrite Nat2Z.id.
Qed.

Lemma eval_all_zero a : (forall x, In x a -> nonzero x = false) -> eval a = 0.
Proof.
  induction a as [|x a IH]; intros H; [reflexivity|]. cbn [eval].
  rewrite IH by (intros; apply H; now right).
  specialize (H x (or_introl eq_refl)). unfold nonzero in H. destruct (Z.eqb_spec x 0); [lia | discriminate].
Qed.

Lemma eval_all_max a : (forall x, In x a -> negb (x =? B - 1) = false) ->
  eval a = B ^ Z.of_nat (length a) - 1.
Proof.
  induction a as [|x a IH]; intros H; [reflexivity|]. cbn [eval length].
  rewrite IH by (intros; apply H; now right). rewrite Bn_S.
  specialize (H x (or_introl eq_refl)). destruct (Z.eqb_spec x (B - 1)); [subst; ring | discriminate].
Qed.

Lemma nth_inW a n : Forall inW a -> (n < length a)%nat -> inW (nth n a 0).
Proof. intros Hw Hn. apply Forall_forall with (x := nth n a 0) in Hw; [exact Hw | now apply nth_In]. Qed.

Lemma testbit_true_pos v j : 0 <= v -> Z.testbit v j = true -> 0 < v.
Proof. intros Hv T. destruct (Z.eq_dec v 0) as [->|]; [rewrite Z.bits_0 in T; discriminate | lia]. Qed.

Lemma trailing_zeros_spec bits a : 0 <= bits -> canon bits a ->
  Bits.trailing_zeros bits a = Val (RunC06.tz bits (eval a)).
Proof.
  intros Hb Hc. pose proof (canon_range bits a Hb Hc) as Hr. pose proof Hc as (_ & Hw & _).
  unfold Bits.trailing_zeros, position. pose proof (position_from_spec nonzero a 0) as P.
  destruct (position_from nonzero a 0) as [m|].
  - destruct P as (n & -> & Hn & Pn & Lw). rewrite Z.add_0_l.
    rewrite index_nth by (unfold lenZ; lia). cbn [obind]. rewrite Nat2Z.id. f_equal.
    pose proof (nth_inW a n Hw Hn) as Hx. set (x := nth n a 0) in *.
    unfold nonzero in Pn. destruct (Z.eqb_spec x 0) as [|Nx]; [discriminate|].
    unfold inW in Hx. destruct (ctz64_spec x ltac:(lia)) as (Rc & Tc & Lc).
    destruct (low_run a false n x (ctz64 x) Hw Hn eq_refl Rc) as [Run Top]; auto.
    { intros j' m Hj' Hm. specialize (Lw j' Hj'). unfold nonzero in Lw.
      destruct (Z.eqb_spec (nth j' a 0) 0) as [->|]; [apply Z.bits_0 | discriminate]. }
    cbn [negb] in Top. unfold RunC06.tz.
    pose proof (testbit_true_pos (eval a) _ ltac:(lia) Top).
    destruct (Z.eqb_spec (eval a) 0); [lia|]. symmetry.
    replace (Z.of_nat n * 64 + ctz64 x) with (64 * Z.of_nat n + ctz64 x) by lia.
    apply val2_char; auto; lia.
  - rewrite (eval_all_zero a P). reflexivity.
Qed.

Lemma testbit_maxw m : 0 <= m < 64 -> Z.testbit (B - 1) m = true.
Proof.
  intros Hm. replace (B - 1) with (2 ^ 64 - 1 - 0) by (rewrite B_pow; lia).
  rewrite testbit_compl by lia. now rewrite Z.bits_0.
Qed.

Lemma trailing_ones_spec bits a : 0 <= bits -> canon bits a ->
  Bits.trailing_ones bits a = Val (RunC06.tz bits (RunC06.compl bits (eval a))).
Proof.
  intros Hb Hc. pose proof (canon_range bits a Hb Hc) as Hr. pose proof Hc as (Hl & Hw & _).
  pose proof (pow2_pos bits Hb) as Hp.
  unfold Bits.trailing_ones, position.
  pose proof (position_from_spec (fun x => negb (x =? B - 1)) a 0) as P. cbn beta in P.
  destruct (position_from (fun x => negb (x =? B - 1)) a 0) as [m|].
  - destruct P as (n & -> & Hn & Pn & Lw). rewrite Z.add_0_l.
    rewrite index_nth by (unfold lenZ; lia). cbn [obind]. rewrite Nat2Z.id. f_equal.
    pose proof (nth_inW a n Hw Hn) as Hx. set (x := nth n a 0) in *.
    destruct (Z.eqb_spec x (B - 1)) as [|Nx]; [discriminate|].
    unfold inW in Hx. unfold cto64, not64.
    destruct (ctz64_spec (B - 1 - x) ltac:(lia)) as (Rc & Tc & Lc).
    set (c := ctz64 (B - 1 - x)) in *.
    assert (Hx64 : 0 <= x < 2 ^ 64) by (rewrite <- B_pow; lia).
    destruct (low_run a true n x c Hw Hn eq_refl Rc) as [Run Top]; auto.
    { intros j' m Hj' Hm. specialize (Lw j' Hj').
      destruct (Z.eqb_spec (nth j' a 0) (B - 1)) as [->|]; [now apply testbit_maxw | discriminate]. }
    { intros m Hm. specialize (Lc m Hm). rewrite B_pow, testbit_compl in Lc by lia.
      now apply negb_false_iff in Lc. }
    { rewrite B_pow, testbit_compl in Tc by lia. cbn [negb]. now apply negb_true_iff in Tc. }
    cbn [negb] in Top.
    replace (Z.of_nat n * 64 + c) with (64 * Z.of_nat n + c) by lia.
    set (t := 64 * Z.of_nat n + c) in *.
    assert (Ht : t <= bits).
    { destruct (Z.le_gt_cases t bits); [assumption|].
      specialize (Run bits ltac:(lia)). rewrite (testbit_high (eval a) bits bits) in Run by lia. discriminate. }
    unfold RunC06.tz, RunC06.compl.
    destruct (Z.eq_dec t bits) as [E|E].
    + assert (2 ^ bits - 1 - eval a = 0) as ->; [|cbn; lia].
      apply (zero_bits _ bits); try lia. intros j Hj. rewrite testbit_compl, Run by lia. reflexivity.
    + assert (T : Z.testbit (2 ^ bits - 1 - eval a) t = true) by (rewrite testbit_compl, Top by lia; reflexivity).
      pose proof (testbit_true_pos (2 ^ bits - 1 - eval a) _ ltac:(lia) T).
      destruct (Z.eqb_spec (2 ^ bits - 1 - eval a) 0); [lia|]. symmetry.
      apply val2_char; auto; try lia. intros j Hj. rewrite testbit_compl, Run by lia. reflexivity.
  - rewrite (eval_all_max a P). unfold RunC06.tz, RunC06.compl.
    rewrite (eval_all_max a P) in Hr. rewrite Hl in *.
    destruct (Z.eq_dec bits 0) as [->|Nb]; [reflexivity|].
    rewrite nlimbsN_Z in * by lia. pose proof (nlimbs_bounds bits ltac:(lia)).
    rewrite B_pow, <- Z.pow_mul_r in * by lia.
    assert (bits = 64 * nlimbs bits).
    { destruct (Z.eq_dec bits (64 * nlimbs bits)); [assumption|]. exfalso.
      assert (2 ^ (bits + 1) <= 2 ^ (64 * nlimbs bits)) by (apply Z.pow_le_mono_r; lia).
      rewrite Z.pow_add_r in * by lia. lia. }
    replace (2 ^ bits - 1 - (2 ^ (64 * nlimbs bits) - 1)) with 0 by (rewrite <- H0; lia).
    reflexivity.
Qed.
(* ================= most_significant_bits ================= *)
Lemma rposition_spec p l :
  match rposition p l with
  | None => forall x, In x l -> p x = false
  | Some m => exists j, m = Z.of_nat j /\ (j < length l)%nat /\ p (nth j l 0) = true /\
                        forall j', (j < j' < length l)%nat -> p (nth j' l 0) = false
  end.
Proof.
  induction l as [|x t IH]; cbn [rposition].
  - intros x [].
  - destruct (rposition p t) as [m|].
    + destruct IH as (j & -> & Hj & Pj & Up). exists (S j). cbn [length nth].
      repeat split; try lia; auto. intros [|j'] Hj'; [lia|]. apply Up. lia.
    + destruct (p x) eqn:Px.
      * exists 0%nat. cbn [length nth]. repeat split; try lia; auto.
        intros [|j'] Hj'; [lia|]. cbn [nth]. apply IH. apply nth_In. lia.
      * intros y [<-|Hy]; auto.
Qed.

Lemma eval_split_at a k : (k <= length a)%nat ->
  eval a = eval (firstn k a) + 2 ^ (64 * Z.of_nat k) * eval (skipn k a).
Proof.
  intros Hk. rewrite <- (firstn_skipn k a) at 1. rewrite eval_app, firstn_length_le, Bn_pow2 by lia.
  reflexivity.
Qed.

Lemma skipn_nth_cons (a : list Z) : forall k, (k < length a)%nat -> skipn k a = nth k a 0 :: skipn (S k) a.
Proof.
  induction a as [|x a IH]; intros k Hk; cbn [length] in Hk; [lia|].
  destruct k as [|k]; [reflexivity|]. cbn [skipn nth]. rewrite IH by lia. reflexivity.
Qed.

Lemma nth_skipn' (a : list Z) : forall k m, nth m (skipn k a) 0 = nth (k + m) a 0.
Proof.
  induction a as [|x a IH]; intros k m.
  - rewrite skipn_nil. destruct m, k; reflexivity.
  - destruct k as [|k]; [reflexivity|]. cbn [skipn Nat.add nth]. apply IH.
Qed.

Lemma eval_skipn_zero a j :
  (forall j', (j < j' < length a)%nat -> nonzero (nth j' a 0) = false) -> eval (skipn (S j) a) = 0.
Proof.
  intros H. apply eval_all_zero. intros x Hx. apply (In_nth _ _ 0) in Hx. destruct Hx as (m & Hm & <-).
  rewrite skipn_length in Hm. rewrite nth_skipn'. apply H. lia.
Qed.

Lemma Forall_firstn' {A} (P : A -> Prop) (l : list A) : forall k, Forall P l -> Forall P (firstn k l).
Proof.
  induction l as [|x l IH]; intros k H; [now rewrite firstn_nil|].
  destruct k as [|k]; [constructor|]. inversion H; subst. cbn [firstn]. constructor; auto.
Qed.

Lemma msb_spec bits a : 0 <= bits -> canon bits a ->
  Bits.most_significant_bits a =
  let e := Z.max 0 (RunC06.bitlen (eval a) - 64) in Val (eval a / 2 ^ e, e).
Proof.
  intros Hb Hc. pose proof Hc as (_ & Hw & _). cbv zeta.
  unfold Bits.most_significant_bits. pose proof (rposition_spec nonzero a) as P.
  assert (Small : forall v, 0 <= v < 2 ^ 64 -> Z.max 0 (RunC06.bitlen v - 64) = 0).
  { intros v Hv. pose proof (bitlen_le v 64 Hv ltac:(lia)). lia. }
  destruct (rposition nonzero a) as [m|].
  - destruct P as (j & -> & Hj & Pj & Up). destruct j as [|j].
    + (* only limb 0 is set *)
      cbn [Z.of_nat Z.eqb]. destruct a as [|x t]; [cbn in Hj; lia|].
      assert (E : eval (x :: t) = x).
      { cbn [eval]. change t with (skipn 1 (x :: t)). rewrite (eval_skipn_zero (x :: t) 0 Up). lia. }
      rewrite E. inversion Hw as [|? ? Hx _]; subst. unfold inW in Hx. rewrite B_pow in Hx.
      rewrite Small by lia. now rewrite Z.div_1_r.
    + replace (Z.of_nat (S j) =? 0) with false by (symmetry; apply Z.eqb_neq; lia).
      rewrite !index_nth by (unfold lenZ; lia).
      replace (Z.to_nat (Z.of_nat (S j) - 1)) with j by lia. rewrite Nat2Z.id. cbn [obind].
      set (hi := nth (S j) a 0) in *. set (lo := nth j a 0).
      pose proof (nth_inW a (S j) Hw Hj) as Hhi. pose proof (nth_inW a j Hw ltac:(lia)) as Hlo.
      fold hi in Hhi. fold lo in Hlo. unfold inW in Hhi, Hlo. rewrite B_pow in Hhi, Hlo.
      unfold nonzero in Pj. destruct (Z.eqb_spec hi 0) as [|Nhi]; [discriminate|].
      (* decomposition of the value *)
      assert (Ev : eval a = eval (firstn j a) + 2 ^ (64 * Z.of_nat j) * (lo + 2 ^ 64 * hi)).
      { rewrite (eval_split_at a j) by lia. rewrite (skipn_nth_cons a j), (skipn_nth_cons a (S j)) by lia.
        cbn [eval]. rewrite (eval_skipn_zero a (S j) Up), B_pow. fold hi lo. ring. }
      assert (HL : 0 <= eval (firstn j a) < 2 ^ (64 * Z.of_nat j)).
      { pose proof (eval_lt_pow64 (firstn j a) (Forall_firstn' _ _ j Hw)) as E. unfold lenZ in E.
        now rewrite firstn_length_le in E by lia. }
      set (Lv := eval (firstn j a)) in *.
      pose proof (Z.log2_spec hi ltac:(lia)) as [Lg1 Lg2]. pose proof (Z.log2_nonneg hi).
      assert (Z.log2 hi < 64) by (apply Z.log2_lt_pow2; lia).
      unfold clz64. destruct (Z.eqb_spec hi 0); [lia|]. set (lz := 63 - Z.log2 hi).
      assert (Hlz : 0 <= lz < 64) by (unfold lz; lia).
      unfold usub. destruct (Z.ltb_spec (Z.of_nat (S j) * 64) lz); [lia|]. cbn [obind].
      pose proof (pow2_pos (64 * Z.of_nat j) ltac:(lia)) as Hpj.
      assert (Hbl : RunC06.bitlen (eval a) = 64 * Z.of_nat (S j) + (Z.log2 hi + 1)).
      { rewrite Ev. replace (Lv + 2 ^ (64 * Z.of_nat j) * (lo + 2 ^ 64 * hi))
          with ((Lv + 2 ^ (64 * Z.of_nat j) * lo) + 2 ^ (64 * Z.of_nat (S j)) * hi)
          by (replace (64 * Z.of_nat (S j)) with (64 * Z.of_nat j + 64) by lia; rewrite Z.pow_add_r by lia; ring).
        rewrite bitlen_split; try lia.
        - unfold RunC06.bitlen. destruct (Z.eqb_spec hi 0); lia.
        - replace (64 * Z.of_nat (S j)) with (64 * Z.of_nat j + 64) by lia. rewrite Z.pow_add_r by lia. nia. }
      rewrite Hbl. replace (Z.max 0 (64 * Z.of_nat (S j) + (Z.log2 hi + 1) - 64)) with (Z.of_nat (S j) * 64 - lz) by (unfold lz; lia).
      f_equal. f_equal.
      (* the quotient *)
      replace (Z.of_nat (S j) * 64 - lz) with (64 * Z.of_nat j + (64 - lz)) by lia.
      rewrite Z.pow_add_r, <- Z.div_div by (try apply pow2_pos; lia).
      rewrite Ev. destruct (div_mod_lin Lv (lo + 2 ^ 64 * hi) (2 ^ (64 * Z.of_nat j)) HL) as [_ ->].
      pose proof (pow2_pos (64 - lz) ltac:(lia)). pose proof (pow2_pos lz ltac:(lia)).
      assert (P64 : 2 ^ 64 = 2 ^ lz * 2 ^ (64 - lz)) by (rewrite <- Z.pow_add_r by lia; f_equal; lia).
      replace (lo + 2 ^ 64 * hi) with (lo + (2 ^ lz * hi) * 2 ^ (64 - lz)) by (rewrite P64; ring).
      rewrite Z.div_add by lia.
      assert (Hq : 0 <= lo / 2 ^ (64 - lz) < 2 ^ lz).
      { split; [apply Z.div_pos; lia|]. apply Z.div_lt_upper_bound; lia. }
      assert (Hh : hi * 2 ^ lz < 2 ^ 64).
      { replace (Z.succ (Z.log2 hi)) with (64 - lz) in Lg2 by (unfold lz; lia). rewrite P64. nia. }
      destruct (Z.ltb_spec 0 lz).
      * unfold shl64, shr64. rewrite B_pow, Z.mod_small by nia.
        rewrite Z.lor_comm, (Z.mul_comm hi). apply lor_disjoint; lia.
      * assert (lz = 0) as -> by lia. rewrite Z.sub_0_r, Z.pow_0_r in *.
        rewrite Z.div_small by lia. lia.
  - (* no limb set *)
    cbn [Z.eqb]. rewrite (eval_all_zero a P). cbn. f_equal. f_equal.
    destruct a as [|x t]; [reflexivity|]. specialize (P x (or_introl eq_refl)).
    unfold nonzero in P. destruct (Z.eqb_spec x 0); [assumption | discriminate].
Qed.
(* ================= local shr and reverse_bits ================= *)
Lemma shr_carry x s : 0 <= s < 64 ->
  shl64 (shl64 x (63 - s)) 1 = (x mod 2 ^ s) * 2 ^ (64 - s).
Proof.
  intros Hs. unfold shl64. rewrite Z.mul_mod_idemp_l by (pose proof B_pos; lia).
  rewrite <- Z.mul_assoc, <- Z.pow_add_r by lia. replace (63 - s + 1) with (64 - s) by lia.
  rewrite B_pow. replace (2 ^ 64) with (2 ^ s * 2 ^ (64 - s)) by (rewrite <- Z.pow_add_r by lia; f_equal; lia).
  apply Z.mul_mod_distr_r; apply Z.neq_sym, Z.lt_neq, pow2_pos; lia.
Qed.

Lemma shr_loop_spec s : 0 <= s < 64 -> forall ms h, Forall inW ms -> 0 <= h < 2 ^ s ->
  Forall inW (shr_loop s ms (h * 2 ^ (64 - s))) /\
  length (shr_loop s ms (h * 2 ^ (64 - s))) = length ms /\
  eval (rev (shr_loop s ms (h * 2 ^ (64 - s)))) =
  (h * 2 ^ (64 * lenZ ms) + eval (rev ms)) / 2 ^ s.
Proof.
  intros Hs. pose proof (pow2_pos s ltac:(lia)) as Ps. pose proof (pow2_pos (64 - s) ltac:(lia)) as Pc.
  assert (P64 : 2 ^ 64 = 2 ^ s * 2 ^ (64 - s)) by (rewrite <- Z.pow_add_r by lia; f_equal; lia).
  induction ms as [|x t IH]; intros h Hw Hh.
  - cbn [shr_loop rev eval length]. split; [constructor|]. split; [reflexivity|].
    change (lenZ (@nil Z)) with 0. rewrite Z.mul_0_r, Z.pow_0_r, Z.add_0_r, Z.mul_1_r.
    symmetry. apply Z.div_small. lia.
  - inversion Hw as [|? ? Hx Ht]; subst. cbn [shr_loop]. rewrite shr_carry by lia.
    unfold inW in Hx. rewrite B_pow in Hx.
    pose proof (Z.mod_pos_bound x (2 ^ s) Ps) as Hm.
    destruct (IH (x mod 2 ^ s) Ht Hm) as (W & Ln & Ev).
    set (rest := shr_loop s t (x mod 2 ^ s * 2 ^ (64 - s))) in *.
    unfold shr64.
    assert (Hq : 0 <= x / 2 ^ s < 2 ^ (64 - s)).
    { split; [apply Z.div_pos; lia|]. apply Z.div_lt_upper_bound; lia. }
    rewrite (Z.mul_comm h), lor_disjoint by lia.
    split; [|split].
    + constructor; [|exact W]. unfold inW. rewrite B_pow. nia.
    + cbn [length]. now rewrite Ln.
    + rewrite !eval_rev_cons, Ev.
      replace (lenZ rest) with (lenZ t) by (unfold lenZ; now rewrite Ln).
      replace (lenZ (x :: t)) with (lenZ t + 1) by (unfold lenZ; cbn [length]; lia).
      pose proof (lenZ_nonneg t).
      replace (2 ^ (64 * (lenZ t + 1))) with (2 ^ (64 * lenZ t) * 2 ^ 64)
        by (rewrite <- Z.pow_add_r by lia; f_equal; lia).
      set (Bm := 2 ^ (64 * lenZ t)).
      pose proof (Z.div_mod x (2 ^ s) ltac:(lia)) as Hdx.
      replace (h * (Bm * 2 ^ 64) + (eval (rev t) + Bm * x))
        with ((x mod 2 ^ s * Bm + eval (rev t)) + (Bm * (x / 2 ^ s + 2 ^ (64 - s) * h)) * 2 ^ s)
        by (rewrite P64; rewrite Hdx at 3; ring).
      rewrite Z.div_add by lia. reflexivity.
Qed.

Lemma shr_local_small bits a s : 0 < s < 64 -> a <> [] -> Forall inW a ->
  length (shr_local bits a s) = length a /\ Forall inW (shr_local bits a s) /\
  eval (shr_local bits a s) = eval a / 2 ^ s.
Proof.
  intros Hs Ha Hw. unfold shr_local. rewrite Z.div_small, Z.mod_small by lia.
  destruct (Z.leb_spec (lenZ a) 0) as [L|_].
  { destruct a; [congruence|]. unfold lenZ in L. cbn [length] in L. lia. }
  cbn [Z.to_nat skipn zero_limbs repeat]. rewrite app_nil_r.
  destruct (shr_loop_spec s ltac:(lia) (rev a) 0 (Forall_rev Hw) ltac:(pose proof (pow2_pos s); lia))
    as (W & Ln & Ev).
  rewrite Z.mul_0_l in *. rewrite rev_length in Ln. rewrite rev_involutive, Z.add_0_l in Ev.
  split; [now rewrite rev_length|]. split; [now apply Forall_rev | exact Ev].
Qed.

Lemma eval_bitrev_rev a : Forall inW a -> forall i, 0 <= i < 64 * lenZ a ->
  Z.testbit (eval (map bitrev64 (rev a))) i = Z.testbit (eval a) (64 * lenZ a - 1 - i).
Proof.
  intros Hw i Hi.
  assert (Wr : Forall inW (map bitrev64 (rev a))).
  { apply Forall_forall. intros y Hy. apply in_map_iff in Hy. destruct Hy as (z & <- & _). apply bitrev64_inW. }
  rewrite !testbit_eval by (auto; lia).
  pose proof (Z.mod_pos_bound i 64 ltac:(lia)) as Hm.
  assert (Hd : i = 64 * (i / 64) + i mod 64) by (apply Z.div_mod; lia).
  assert (Hk : 0 <= i / 64 < lenZ a) by (split; [apply Z.div_pos; lia | apply Z.div_lt_upper_bound; lia]).
  unfold lenZ in *.
  rewrite (nth_indep _ 0 (bitrev64 0)) by (rewrite map_length, rev_length; lia).
  rewrite map_nth, rev_nth by lia. rewrite bitrev64_spec by lia.
  destruct (Z.ltb_spec (i mod 64) 64); [|lia].
  replace ((64 * Z.of_nat (length a) - 1 - i) / 64) with (Z.of_nat (length a) - 1 - i / 64)
    by (Z.div_mod_to_equations; lia).
  replace ((64 * Z.of_nat (length a) - 1 - i) mod 64) with (63 - i mod 64)
    by (Z.div_mod_to_equations; lia).
  f_equal. f_equal. lia.
Qed.

Lemma reverse_bits_spec bits a : 0 <= bits -> canon bits a ->
  canon bits (Bits.reverse_bits bits a) /\
  eval (Bits.reverse_bits bits a) = RunC06.mirror bits (eval a).
Proof.
  intros Hb Hc. pose proof (canon_range bits a Hb Hc) as Hr.
  pose proof (canon_lenZ bits a Hb Hc) as Hl. pose proof Hc as (Hlen & Hw & _).
  set (r0 := map bitrev64 (rev a)).
  assert (Wr : Forall inW r0).
  { apply Forall_forall. intros y Hy. apply in_map_iff in Hy. destruct Hy as (z & <- & _). apply bitrev64_inW. }
  assert (Lr : length r0 = length a) by (unfold r0; now rewrite map_length, rev_length).
  pose proof (eval_lt_pow64 r0 Wr) as Hr0. replace (lenZ r0) with (lenZ a) in Hr0 by (unfold lenZ; now rewrite Lr).
  assert (Key : length (Bits.reverse_bits bits a) = length a /\ Forall inW (Bits.reverse_bits bits a) /\
                eval (Bits.reverse_bits bits a) = RunC06.mirror bits (eval a)).
  { unfold Bits.reverse_bits. fold r0. destruct (Z.eqb_spec (bits mod 64) 0) as [E|E]; cbn [negb].
    - split; [exact Lr|]. split; [exact Wr|].
      assert (bits = 64 * lenZ a).
      { rewrite Hl. destruct (Z.eq_dec bits 0) as [->|]; [reflexivity|].
        pose proof (nlimbs_bounds bits ltac:(lia)). Z.div_mod_to_equations. lia. }
      apply Z.bits_inj'. intros i Hi. rewrite mirror_spec by lia. destruct (Z.ltb_spec i bits).
      + unfold r0. rewrite eval_bitrev_rev by (auto; lia). f_equal. lia.
      + apply (testbit_high _ (64 * lenZ a)); lia.
    - assert (0 < bits) by (destruct (Z.eq_dec bits 0) as [->|]; [cbn in E|]; lia).
      pose proof (nlimbs_bounds bits ltac:(lia)). pose proof (Z.mod_pos_bound bits 64 ltac:(lia)).
      assert (Hbits : bits = 64 * lenZ a - (64 - bits mod 64)) by (rewrite Hl; Z.div_mod_to_equations; lia).
      set (s := 64 - bits mod 64) in *.
      assert (r0 <> []) by (intros Z0; rewrite Z0 in Lr; cbn in Lr; unfold lenZ in Hl; lia).
      destruct (shr_local_small bits r0 s ltac:(unfold s; lia) H2 Wr) as (L' & W' & E').
      split; [congruence|]. split; [exact W'|]. rewrite E'.
      apply Z.bits_inj'. intros i Hi. rewrite mirror_spec, Z.div_pow2_bits by (unfold s; lia).
      destruct (Z.ltb_spec i bits).
      + unfold r0. rewrite eval_bitrev_rev by (auto; lia). f_equal. lia.
      + apply (testbit_high _ (64 * lenZ a)); lia. }
  destruct Key as (L & W & E). split; [|exact E].
  split; [congruence|]. split; [exact W|]. rewrite E. apply mirror_range. lia.
Qed.
(* ================= local shl of ONE, (checked_)next_power_of_two ================= *)
Lemma shl_loop_zeros s k : shl_loop s (repeat 0 k) 0 = repeat 0 k.
Proof. induction k as [|k IH]; cbn [repeat shl_loop]; [reflexivity|]. cbn. now rewrite IH. Qed.

Lemma eval_zeros_cons k x m : eval (repeat 0 k ++ x :: repeat 0 m) = 2 ^ (64 * Z.of_nat k) * x.
Proof. rewrite eval_app, repeat_length, eval_repeat0, Bn_pow2. cbn [eval]. rewrite eval_repeat0. lia. Qed.

Lemma firstn_repeat {A} (x : A) : forall k n, (k <= n)%nat -> firstn k (repeat x n) = repeat x k.
Proof.
  induction k as [|k IH]; intros n Hk; [reflexivity|]. destruct n as [|n]; [lia|].
  cbn [repeat firstn]. now rewrite IH by lia.
Qed.

Lemma shl_one_spec bits e : 0 <= e < bits ->
  canon bits (shl_local bits (uONE bits) e) /\ eval (shl_local bits (uONE bits) e) = 2 ^ e.
Proof.
  intros He. assert (Hb : 0 < bits) by lia.
  pose proof (nlimbs_bounds bits Hb) as Hn. pose proof (nlimbsN_Z bits ltac:(lia)) as HnZ.
  unfold uONE, uZERO, zero_limbs. destruct (Z.eqb_spec bits 0); [lia|].
  destruct (nlimbsN bits) as [|n'] eqn:En; [lia|]. cbn [repeat].
  unfold shl_local, zero_limbs. set (k := e / 64). set (s := e mod 64).
  assert (Hs : 0 <= s < 64) by (apply Z.mod_pos_bound; lia).
  assert (Hk : 0 <= k) by (apply Z.div_pos; lia).
  assert (Hek : e = 64 * k + s) by (apply Z.div_mod; lia).
  replace (lenZ (1 :: repeat 0 n')) with (Z.of_nat (S n')) by (unfold lenZ; cbn [length]; now rewrite repeat_length).
  destruct (Z.leb_spec (Z.of_nat (S n')) k); [lia|].
  replace (Z.to_nat (Z.of_nat (S n') - k)) with (S (n' - Z.to_nat k)) by lia.
  cbn [firstn]. rewrite firstn_repeat by lia. cbn [shl_loop].
  assert (C0 : shr64 (shr64 1 (63 - s)) 1 = 0).
  { unfold shr64. destruct (Z.eq_dec s 63) as [->|]; [reflexivity|].
    rewrite (Z.div_small 1) by (split; [lia|]; change 1 with (2 ^ 0) at 1; apply Z.pow_lt_mono_r; lia).
    reflexivity. }
  rewrite C0, shl_loop_zeros, shl64_one, Z.lor_0_r by lia.
  set (l := repeat 0 (Z.to_nat k) ++ 2 ^ s :: repeat 0 (n' - Z.to_nat k)).
  assert (Ll : length l = nlimbsN bits).
  { unfold l. rewrite app_length. cbn [length]. rewrite !repeat_length. lia. }
  assert (Wl : Forall inW l).
  { unfold l. apply Forall_app. split; [apply Forall_inW_repeat0|]. constructor; [|apply Forall_inW_repeat0].
    unfold inW. rewrite B_pow. split; [apply Z.lt_le_incl, pow2_pos; lia | apply Z.pow_lt_mono_r; lia]. }
  destruct (masked_spec bits l Hb Ll Wl) as [C V]. split; [exact C|].
  rewrite V. unfold l. rewrite eval_zeros_cons, Z2Nat.id, <- Z.pow_add_r, <- Hek by lia.
  apply Z.mod_small. split; [apply Z.lt_le_incl, pow2_pos; lia | apply Z.pow_lt_mono_r; lia].
Qed.

Lemma log2_up_not_pow2 v : 0 <= v -> RunC06.is_pow2 v = false -> Z.log2_up v = RunC06.bitlen v.
Proof.
  intros Hv Hp. unfold RunC06.bitlen. destruct (Z.eqb_spec v 0) as [->|N]; [reflexivity|].
  unfold RunC06.is_pow2 in Hp. destruct (Z.ltb_spec 0 v); [|lia]. cbn [andb] in Hp.
  apply Z.eqb_neq in Hp.
  pose proof (Z.le_log2_log2_up v). pose proof (Z.le_log2_up_succ_log2 v).
  destruct (Z.eq_dec (Z.log2 v) (Z.log2_up v)) as [E|E]; [|lia].
  apply Z.log2_log2_up_exact in E; [|lia]. destruct E as [b Eb]. exfalso. apply Hp.
  destruct (Z.le_gt_cases 0 b).
  - rewrite Eb at 2. now rewrite Z.log2_pow2.
  - rewrite Z.pow_neg_r in Eb by lia. lia.
Qed.

Lemma cnpot_spec bits a : 0 <= bits -> canon bits a ->
  Bits.checked_next_power_of_two bits a =
  Val (match RunC06.spec_npot bits (eval a) with Some p => Some (uint_of bits p) | None => None end).
Proof.
  intros Hb Hc. pose proof (canon_range bits a Hb Hc) as Hr. pose proof Hc as (_ & Hw & _).
  unfold Bits.checked_next_power_of_two, RunC06.spec_npot. rewrite is_power_of_two_spec by auto.
  destruct (RunC06.is_pow2 (eval a)) eqn:Hp.
  - unfold RunC06.is_pow2 in Hp. apply andb_true_iff in Hp. destruct Hp as [_ Hp]. apply Z.eqb_eq in Hp.
    assert (E : 2 ^ Z.log2_up (eval a) = eval a).
    { rewrite Hp at 1. rewrite Z.log2_up_pow2 by apply Z.log2_nonneg. now rewrite <- Hp. }
    cbv zeta. rewrite E.
    destruct (Z.ltb_spec (eval a) (2 ^ bits)); [|lia]. now rewrite canon_uint_of.
  - rewrite bit_len_spec by auto. cbn [obind]. cbv zeta. rewrite log2_up_not_pow2 by (auto; lia).
    pose proof (bitlen_nonneg (eval a)).
    destruct (Z.leb_spec bits (RunC06.bitlen (eval a))); destruct (Z.ltb_spec (2 ^ RunC06.bitlen (eval a)) (2 ^ bits)) as [L|L];
      try reflexivity.
    + apply Z.pow_lt_mono_r_iff in L; lia.
    + destruct (shl_one_spec bits (RunC06.bitlen (eval a)) ltac:(lia)) as [C V].
      now rewrite (uint_of_unique _ _ _ C V).
    + exfalso. assert (2 ^ RunC06.bitlen (eval a) < 2 ^ bits) by (apply Z.pow_lt_mono_r; lia). lia.
Qed.

Lemma npot_spec bits a : 0 <= bits -> canon bits a ->
  Bits.next_power_of_two bits a =
  match RunC06.spec_npot bits (eval a) with Some p => Val (uint_of bits p) | None => Panic end.
Proof.
  intros Hb Hc. unfold Bits.next_power_of_two. rewrite cnpot_spec by auto. cbn [obind].
  destruct (RunC06.spec_npot bits (eval a)); reflexivity.
Qed.
