(* Proofs/PfC05.v — every C05 call: the model's answer meets the executable specification. *)
From Coq Require Import ZArith List Bool Lia.
From RV.Model Require Import Base Word Shift.
From RV.Proofs Require Import BaseFacts PfShift.
From RV.Proofs Require PfC01.
From RV.Run Require Import RunC05.
Import ListNotations.
Local Open Scope Z_scope.

(* ---- the executable helpers of the specification are the plain formulas ---- *)
Lemma pow2_eq k : pow2 k = 2 ^ k.
Proof. apply Z.shiftl_1_l. Qed.

Lemma shl_val_math bits v s :
  0 <= bits -> 0 <= s -> shl_val bits v s = (v * 2 ^ s) mod 2 ^ bits.
Proof.
  intros H Hs. unfold shl_val. destruct (Z.leb_spec bits s).
  - symmetry. apply shl_all_out. lia.
  - rewrite modp2_spec, Z.shiftl_mul_pow2 by lia. reflexivity.
Qed.

Lemma shl_lost_math bits v s :
  0 <= bits -> 0 <= s -> 0 <= v -> shl_lost bits v s = (2 ^ bits <=? v * 2 ^ s).
Proof.
  intros H Hs Hv. unfold shl_lost. destruct (Z.leb_spec bits s).
  - pose proof (pow2_pos bits H). assert (2 ^ bits <= 2 ^ s) by (apply Z.pow_le_mono_r; lia).
    destruct (Z.eqb_spec v 0) as [->|N]; cbn [negb]; symmetry.
    + apply Z.leb_gt. lia.
    + apply Z.leb_le. pose proof (mul_ge1 v 1). nia.
  - rewrite pow2_eq, Z.shiftl_mul_pow2 by lia. reflexivity.
Qed.

Lemma shr_val_math bits v s :
  0 <= bits -> 0 <= s -> 0 <= v < 2 ^ bits -> shr_val bits v s = v / 2 ^ s.
Proof.
  intros H Hs Hv. unfold shr_val. destruct (Z.leb_spec bits s).
  - destruct (shr_all_out v bits s ltac:(lia) Hv) as [-> _]. reflexivity.
  - apply divp2_spec. lia.
Qed.

Lemma shr_lost_math bits v s :
  0 <= bits -> 0 <= s -> 0 <= v < 2 ^ bits -> shr_lost bits v s = negb (v mod 2 ^ s =? 0).
Proof.
  intros H Hs Hv. unfold shr_lost. destruct (Z.leb_spec bits s).
  - destruct (shr_all_out v bits s ltac:(lia) Hv) as [_ ->]. reflexivity.
  - rewrite modp2_spec by lia. reflexivity.
Qed.

Lemma ashr_val_math bits v s :
  0 < bits -> 0 <= s -> 0 <= v < 2 ^ bits ->
  ashr_val bits v s = if Z.testbit v (bits - 1) then ((v - 2 ^ bits) / 2 ^ s) mod 2 ^ bits
                      else v / 2 ^ s.
Proof.
  intros H Hs Hv. unfold ashr_val. destruct (Z.testbit v (bits - 1)).
  - rewrite modp2_spec, divp2_spec, pow2_eq by lia. f_equal.
    destruct (Z.le_gt_cases s bits); [rewrite Z.min_l by lia; reflexivity|].
    rewrite Z.min_r by lia.
    pose proof (pow2_pos bits ltac:(lia)). assert (2 ^ bits <= 2 ^ s) by (apply Z.pow_le_mono_r; lia).
    transitivity (-1); [symmetry|].
    + apply Z.div_unique with (r := v); lia.
    + apply Z.div_unique with (r := v - 2 ^ bits + 2 ^ s); lia.
  - apply shr_val_math; lia.
Qed.

Lemma rotl_val_math bits v r :
  0 <= r <= bits -> rotl_val bits v r = (v * 2 ^ r) mod 2 ^ bits + v / 2 ^ (bits - r).
Proof.
  intros H. unfold rotl_val. rewrite modp2_spec, divp2_spec, Z.shiftl_mul_pow2 by lia. reflexivity.
Qed.

(* ---- the two primitives as equalities with the canonical representation ---- *)
Lemma shl_eq bits a s :
  0 <= bits -> canon bits a -> 0 <= s ->
  Shift.overflowing_shl bits a s = (uint_of bits (shl_val bits (eval a) s), shl_lost bits (eval a) s).
Proof.
  intros H Ha Hs. pose proof (overflowing_shl_spec bits a s H Ha Hs) as S.
  pose proof (canon_range bits a H Ha).
  destruct (Shift.overflowing_shl bits a s) as [r f]. destruct S as (Hc & He & ->).
  rewrite shl_val_math, shl_lost_math by lia. f_equal. now apply uint_of_unique.
Qed.

Lemma shr_eq bits a s :
  0 <= bits -> canon bits a -> 0 <= s ->
  Shift.overflowing_shr bits a s = (uint_of bits (shr_val bits (eval a) s), shr_lost bits (eval a) s).
Proof.
  intros H Ha Hs. pose proof (overflowing_shr_spec bits a s H Ha Hs) as S.
  pose proof (canon_range bits a H Ha).
  destruct (Shift.overflowing_shr bits a s) as [r f]. destruct S as (Hc & He & ->).
  rewrite shr_val_math, shr_lost_math by lia. f_equal. now apply uint_of_unique.
Qed.

Lemma expect_U bits l v : canon bits l -> eval l = v -> expect (Val [TL l]) [U bits v] = true.
Proof. intros Hc He. unfold U. rewrite <- (uint_of_unique bits l v Hc He). apply PfC01.expect_refl. Qed.

Theorem C05_all c : wf c -> spec c (run c) = true.
Proof.
  destruct c as [bits a s|bits a s|bits a s|bits a s|bits a s|bits a s|bits a s|bits a s
                |bits a s|bits a s|bits ty sh a s|bits ty sh a s|bits a k|bits a k
                |bits sh a k|bits sh a k];
    cbn [wf spec run].
  - (* overflowing_shl *)
    intros (H & Ha & Hs). rewrite shl_eq by (auto; lia). apply PfC01.expect_refl.
  - (* checked_shl *)
    intros (H & Ha & Hs). unfold Shift.checked_shl. rewrite shl_eq by (auto; lia).
    unfold spec_checked. destruct (shl_lost bits (eval a) s); cbn [checked_of opt_toks];
      apply PfC01.expect_refl.
  - (* saturating_shl *)
    intros (H & Ha & Hs). unfold Shift.saturating_shl. rewrite shl_eq by (auto; lia).
    destruct (shl_lost bits (eval a) s); [|apply PfC01.expect_refl].
    destruct (canon_uMAX bits H) as [Mc Me]. apply expect_U; [exact Mc|]. now rewrite pow2_eq.
  - (* wrapping_shl *)
    intros (H & Ha & Hs). unfold Shift.wrapping_shl. rewrite shl_eq by (auto; lia).
    apply PfC01.expect_refl.
  - (* overflowing_shr *)
    intros (H & Ha & Hs). rewrite shr_eq by (auto; lia). apply PfC01.expect_refl.
  - (* checked_shr *)
    intros (H & Ha & Hs). unfold Shift.checked_shr. rewrite shr_eq by (auto; lia).
    unfold spec_checked. destruct (shr_lost bits (eval a) s); cbn [checked_of opt_toks];
      apply PfC01.expect_refl.
  - (* wrapping_shr *)
    intros (H & Ha & Hs). unfold Shift.wrapping_shr. rewrite shr_eq by (auto; lia).
    apply PfC01.expect_refl.
  - (* arithmetic_shr *)
    intros (H & Ha & Hs). pose proof (canon_range bits a H Ha) as Hv.
    destruct (Z.eqb_spec bits 0) as [E0|N0].
    + unfold Shift.arithmetic_shr. rewrite E0. cbn [Z.eqb].
      destruct (canon_uZERO 0 ltac:(lia)) as [Zc Ze]. now apply expect_U.
    + destruct (arithmetic_shr_spec bits a s ltac:(lia) Ha ltac:(lia)) as [Rc Re].
      apply expect_U; [exact Rc|]. rewrite Re, ashr_val_math by lia. reflexivity.
  - (* rotate_left *)
    intros (H & Ha & Hs). destruct (Z.eqb_spec bits 0) as [E0|N0].
    + unfold Shift.rotate_left. rewrite E0. cbn [Z.eqb].
      destruct (canon_uZERO 0 ltac:(lia)) as [Zc Ze]. now apply expect_U.
    + destruct (rotate_left_spec bits a s ltac:(lia) Ha ltac:(lia)) as [Rc Re].
      pose proof (Z.mod_pos_bound s bits ltac:(lia)).
      apply expect_U; [exact Rc|]. rewrite Re, rotl_val_math by lia. reflexivity.
  - (* rotate_right *)
    intros (H & Ha & Hs). destruct (Z.eqb_spec bits 0) as [E0|N0].
    + unfold Shift.rotate_right. rewrite E0. cbn [Z.eqb].
      destruct (canon_uZERO 0 ltac:(lia)) as [Zc Ze]. now apply expect_U.
    + destruct (rotate_right_spec bits a s ltac:(lia) Ha ltac:(lia)) as [Rc Re].
      pose proof (Z.mod_pos_bound s bits ltac:(lia)).
      apply expect_U; [exact Rc|]. cbv zeta.
      rewrite Re, modp2_spec, divp2_spec, Z.shiftl_mul_pow2 by lia. reflexivity.
  - (* op_shl *)
    intros (H & Ha & Hty & Hs). unfold Shift.shl_prim, Shift.wrapping_shl.
    rewrite shl_eq by (auto; lia). apply PfC01.expect_refl.
  - (* op_shr *)
    intros (H & Ha & Hty & Hs). unfold Shift.shr_prim, Shift.wrapping_shr.
    rewrite shr_eq by (auto; lia). apply PfC01.expect_refl.
  - (* shl_uint *)
    intros (H & Ha & Hk). destruct (shl_uint_spec bits a k H Ha Hk) as [Rc Re].
    pose proof (canon_range bits k ltac:(lia) Hk).
    apply expect_U; [exact Rc|]. rewrite Re, shl_val_math by lia. reflexivity.
  - (* shr_uint *)
    intros (H & Ha & Hk). destruct (shr_uint_spec bits a k H Ha Hk) as [Rc Re].
    pose proof (canon_range bits k ltac:(lia) Hk). pose proof (canon_range bits a ltac:(lia) Ha).
    apply expect_U; [exact Rc|]. rewrite Re, shr_val_math by lia. reflexivity.
  - (* op_shl_uint *)
    intros (H & Ha & Hk). destruct (shl_uint_spec bits a k H Ha Hk) as [Rc Re].
    pose proof (canon_range bits k ltac:(lia) Hk).
    apply expect_U; [exact Rc|]. rewrite Re, shl_val_math by lia. reflexivity.
  - (* op_shr_uint *)
    intros (H & Ha & Hk). destruct (shr_uint_spec bits a k H Ha Hk) as [Rc Re].
    pose proof (canon_range bits k ltac:(lia) Hk). pose proof (canon_range bits a ltac:(lia) Ha).
    apply expect_U; [exact Rc|]. rewrite Re, shr_val_math by lia. reflexivity.
Qed.
