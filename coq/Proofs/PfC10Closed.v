(* Proofs/PfC10Closed.v — C10 without hypotheses: the kernel contract assumed by PfModular /
   PfC10 is the theorem PfDiv.div_kernel_spec (C14). *)
From Coq Require Import ZArith List.
From RV.Model Require Import Base Div Modular.
From RV.Model Require Gcd.
From RV.Proofs Require Import PfDiv PfModular PfC10.
From RV.Run Require Import RunC10.
Local Open Scope Z_scope.

Lemma DivKernelOK_holds : DivKernelOK.
Proof. unfold DivKernelOK. intros n d Hn Hd Hz. exact (div_kernel_spec n d Hn Hd Hz). Qed.

Theorem C10_all c : wf c -> spec c (run c) = true.
Proof. exact (C10_all_modulo_kernel DivKernelOK_holds c). Qed.

Theorem reduce_mod_value_closed : forall bits a m,
  0 <= bits -> canon bits a -> canon bits m ->
  returns bits (Modular.reduce_mod bits a m) (if eval m =? 0 then 0 else eval a mod eval m).
Proof. exact (reduce_mod_value DivKernelOK_holds). Qed.
Theorem add_mod_value_closed : forall bits a b m,
  0 <= bits -> canon bits a -> canon bits b -> canon bits m ->
  returns bits (Modular.add_mod bits a b m) (if eval m =? 0 then 0 else (eval a + eval b) mod eval m).
Proof. exact (add_mod_value DivKernelOK_holds). Qed.
Theorem mul_mod_value_closed : forall bits a b m,
  0 <= bits -> canon bits a -> canon bits b -> canon bits m ->
  returns bits (Modular.mul_mod bits a b m) (if eval m =? 0 then 0 else (eval a * eval b) mod eval m).
Proof. exact (mul_mod_value DivKernelOK_holds). Qed.
Theorem pow_mod_value_closed : forall bits a e m,
  0 <= bits -> canon bits a -> canon bits e -> canon bits m ->
  returns bits (Modular.pow_mod bits a e m) (if eval m =? 0 then 0 else eval a ^ eval e mod eval m).
Proof. exact (pow_mod_value DivKernelOK_holds). Qed.
Theorem inv_mod_value_closed : forall bits a m,
  0 <= bits -> canon bits a -> canon bits m ->
  match Gcd.inv_mod bits a m with
  | Val (Some x) => canon bits x /\ 2 <= eval m /\ Z.gcd (eval a) (eval m) = 1 /\
                    eval x < eval m /\ (eval a * eval x) mod eval m = 1
  | Val None => eval m < 2 \/ Z.gcd (eval a) (eval m) <> 1
  | _ => False
  end.
Proof. exact (inv_mod_post DivKernelOK_holds). Qed.
