(* Proofs/PfC04c.v — property C04 part (c): rejecting constructors, constants, generators. *)
From Coq Require Import ZArith List Bool Lia.
From RV.Model Require Import Base Word Conv Gen.
From RV.Proofs Require Import BaseFacts.
From RV.Proofs Require PfC01 PfConv PfC07 PfShift PfFloatUint.
From RV.Model Require ApproxPow2 Shift.
From RV.Run Require Import RunC04c.
Local Open Scope Z_scope.

Lemma expect_refl t : expect (Val t) t = true. Proof. exact (PfC01.expect_refl t). Qed.
Lemma pow2_pos k : 0 <= k -> 0 < 2 ^ k. Proof. intros. apply Z.pow_pos_nonneg; lia. Qed.

(* ---------- from_limbs: accepts exactly the in-range arrays, unchanged ---------- *)
Theorem from_limbs_rejects bits l :
  0 <= bits -> length l = nlimbsN bits -> Forall inW l ->
  Conv.from_limbs bits l = if eval l <? 2 ^ bits then Val l else Panic.
Proof.
  intros Hb Hl Hw. destruct (Z.ltb_spec (eval l) (2 ^ bits)) as [L|L].
  - apply PfConv.from_limbs_canon; [exact Hb|]. repeat split; auto.
  - assert (Hp : 0 < bits).
    { destruct (Z.eq_dec bits 0) as [->|]; [|lia]. cbn in Hl. destruct l; [cbn in L; lia|discriminate]. }
    pose proof (last_gt_mask bits l Hp Hl Hw) as Hm.
    destruct (canon_len_split bits l Hp Hl) as (i & x & -> & Hi).
    rewrite last_snoc in Hm.
    pose proof (eval_bound _ Hw) as Hbd.
    assert (Hsm : should_mask bits = true).
    { rewrite should_mask_spec by lia. destruct (Z.eqb_spec (topbits bits) 64) as [E|E]; [|reflexivity].
      exfalso. rewrite (pow_bits_split bits Hp), E, <- B_pow in L.
      rewrite app_length in Hbd. cbn [length] in Hbd.
      replace (Z.of_nat (length i + 1)) with (nlimbs bits - 1 + 1) in Hbd by lia.
      rewrite Z.pow_add_r, Z.pow_1_r in Hbd by lia. lia. }
    unfold Conv.from_limbs. rewrite Hsm.
    replace (Z.to_nat (nlimbs bits - 1)) with (length i) by lia.
    rewrite nth_error_app2 by lia. rewrite Nat.sub_diag. cbn [nth_error].
    destruct (Z.leb_spec (2 ^ bits) (eval (i ++ [x]))); [|lia].
    destruct (Z.ltb_spec (mask bits) x); [|discriminate].
    destruct (Z.leb_spec x (mask bits)); [lia|reflexivity].
Qed.

(* ---------- constants ---------- *)
Lemma cZERO_spec bits : 0 <= bits -> cZERO bits = Val (uint_of bits 0).
Proof.
  intros Hb. unfold cZERO. destruct (canon_uZERO bits Hb) as [Hc He].
  change (zero_limbs (nlimbsN bits)) with (uZERO bits).
  rewrite PfConv.from_limbs_canon by auto. now rewrite (PfC07.uZERO_eq bits Hb).
Qed.

Lemma cMAX_uMAX bits : 0 <= bits -> cMAX bits = uMAX bits.
Proof.
  intros Hb. unfold cMAX, from_limbs_unmasked, uMAX, masked.
  destruct (should_mask bits) eqn:Hs; [|now rewrite andb_false_r].
  assert (0 < bits).
  { unfold should_mask in Hs. apply andb_true_iff in Hs. destruct Hs as [Hs _]. now apply Z.ltb_lt in Hs. }
  pose proof (nlimbs_bounds bits H). destruct (Z.ltb_spec 0 (nlimbs bits)); [reflexivity|lia].
Qed.
Lemma cMAX_spec bits : 0 <= bits -> cMAX bits = uint_of bits (2 ^ bits - 1).
Proof. intros Hb. rewrite cMAX_uMAX by auto. now apply PfC07.uMAX_eq. Qed.

Lemma cONE_spec bits : 0 <= bits -> cONE bits = Val (uint_of bits (1 mod 2 ^ bits)).
Proof.
  intros Hb. unfold cONE, const_from_u64. destruct (Z.eqb_spec bits 0) as [->|N].
  - reflexivity.
  - cbn [orb]. assert (Hp : 0 < bits) by lia.
    assert (H2 : 2 <= 2 ^ bits).
    { change 2 with (2 ^ 1) at 1. apply Z.pow_le_mono_r; lia. }
    destruct (Z.leb_spec (2 ^ bits) 1); [lia|]. rewrite andb_false_r.
    pose proof (nlimbs_bounds bits Hp) as Hn.
    destruct (nlimbsN bits) as [|n] eqn:En.
    { unfold nlimbsN in En. lia. }
    cbn [zero_limbs repeat set_nth obind].
    assert (Hc : canon bits (1 :: repeat 0 n)).
    { repeat split.
      - cbn [length]. now rewrite repeat_length.
      - constructor; [unfold inW; pose proof B_pos; rewrite B_val; lia | apply Forall_inW_repeat0].
      - cbn [eval]. rewrite eval_repeat0. lia. }
    rewrite PfConv.from_limbs_canon by auto. f_equal.
    apply uint_of_unique; [exact Hc|]. cbn [eval]. rewrite eval_repeat0, Z.mod_small by lia. lia.
Qed.

(* ---------- masking a full-length word list ---------- *)
Lemma masked_any bits l :
  0 <= bits -> length l = nlimbsN bits -> Forall inW l ->
  masked bits l = uint_of bits (eval l mod 2 ^ bits).
Proof.
  intros Hb Hl Hw. destruct (Z.eq_dec bits 0) as [->|N].
  - cbn in Hl. destruct l; [reflexivity|discriminate].
  - destruct (masked_spec bits l ltac:(lia) Hl Hw) as [Hc He]. now apply uint_of_unique.
Qed.

Lemma Forall_firstn_b {A} (P : A -> Prop) n l : Forall P l -> Forall P (firstn n l).
Proof. intros H. revert n. induction H; intros [|m]; cbn; auto. Qed.
Lemma Forall_skipn_b {A} (P : A -> Prop) n l : Forall P l -> Forall P (skipn n l).
Proof. intros H. revert n. induction H; intros [|m]; cbn; auto. Qed.

Lemma take_words_facts n ws :
  Forall inW ws -> length (take_words n ws) = n /\ Forall inW (take_words n ws).
Proof.
  intros Hw. unfold take_words. split.
  - rewrite firstn_length, app_length, repeat_length. lia.
  - apply Forall_firstn_b. apply Forall_app. split; [exact Hw|apply Forall_inW_repeat0].
Qed.

Lemma rand_fill_spec bits ws :
  0 <= bits -> Forall inW ws ->
  rand_fill bits ws = uint_of bits (src_value bits ws mod 2 ^ bits).
Proof.
  intros Hb Hw. unfold rand_fill, apply_mask, src_value.
  destruct (take_words_facts (nlimbsN bits) ws Hw) as [Hl Hf].
  now apply masked_any.
Qed.

Lemma from_limbs_unmasked_spec bits l :
  0 <= bits -> length l = nlimbsN bits -> Forall inW l ->
  from_limbs_unmasked bits l = uint_of bits (eval l mod 2 ^ bits).
Proof.
  intros Hb Hl Hw. rewrite <- masked_any by auto. unfold from_limbs_unmasked, masked.
  destruct (should_mask bits) eqn:Hs; [|now rewrite andb_false_r].
  assert (0 < bits).
  { unfold should_mask in Hs. apply andb_true_iff in Hs. destruct Hs as [Hs _]. now apply Z.ltb_lt in Hs. }
  pose proof (nlimbs_bounds bits H). destruct (Z.ltb_spec 0 (nlimbs bits)); [reflexivity|lia].
Qed.

Lemma uint_of_mod_canon bits v : 0 <= bits -> canon bits (uint_of bits (v mod 2 ^ bits)).
Proof.
  intros Hb. pose proof (pow2_pos bits Hb). pose proof (Z.mod_pos_bound v (2 ^ bits) ltac:(lia)) as Hr.
  unfold uint_of. repeat split.
  - apply to_limbs_length.
  - apply to_limbs_inW.
  - rewrite eval_to_limbs. pose proof (Bn_pos (nlimbsN bits)).
    pose proof (Z.mod_le (v mod 2 ^ bits) (B ^ Z.of_nat (nlimbsN bits)) ltac:(lia) ltac:(lia)). lia.
Qed.

Lemma quickcheck_spec bits ws :
  0 <= bits -> length ws = nlimbsN bits -> Forall inW ws ->
  quickcheck_arb bits ws = Val (uint_of bits (eval ws mod 2 ^ bits)).
Proof.
  intros Hb Hl Hw. unfold quickcheck_arb.
  assert (Ht : take_words (nlimbsN bits) ws = ws).
  { unfold take_words. rewrite <- Hl, firstn_app, Nat.sub_diag, firstn_all. cbn [firstn]. apply app_nil_r. }
  rewrite Ht.
  assert (Hm : map_last (fun x => Z.land x (mask bits)) ws = masked bits ws).
  { destruct (Z.eq_dec bits 0) as [->|N].
    - cbn in Hl. destruct ws; [reflexivity|discriminate].
    - destruct (canon_len_split bits ws ltac:(lia) Hl) as (i & x & -> & Hi).
      apply Forall_app in Hw. destruct Hw as [_ Hx]. inversion Hx; subst.
      rewrite PfConv.masked_snoc by (auto; lia).
      exact (map_last_snoc (fun y => Z.land y (mask bits)) i x). }
  rewrite Hm, masked_any by auto.
  rewrite PfConv.from_limbs_canon; [reflexivity|exact Hb|apply uint_of_mod_canon; exact Hb].
Qed.

(* ---------- arbitrary ---------- *)
Lemma le_val_bound bs : Forall isbyte bs -> 0 <= le_val bs < 256 ^ Z.of_nat (length bs).
Proof.
  induction 1 as [|b t Hb Ht IH]; cbn [le_val length]; [cbn; lia|].
  rewrite Nat2Z.inj_succ, Z.pow_succ_r by lia. unfold isbyte in Hb. nia.
Qed.
Lemma arb_u64_inW bs : Forall isbyte bs -> inW (fst (arb_u64 bs)) /\ Forall isbyte (snd (arb_u64 bs)).
Proof.
  intros H. unfold arb_u64. cbn [fst snd]. split; [|now apply Forall_skipn_b].
  pose proof (le_val_bound (firstn 8 bs) (Forall_firstn_b _ 8 bs H)) as Hb.
  assert (Hl : (length (firstn 8 bs) <= 8)%nat) by apply firstn_le_length.
  assert (256 ^ Z.of_nat (length (firstn 8 bs)) <= 256 ^ 8) by (apply Z.pow_le_mono_r; lia).
  unfold inW. rewrite B_val. change (256 ^ 8) with 18446744073709551616 in *. lia.
Qed.
Lemma arb_rest_facts n : forall bs, Forall isbyte bs ->
  length (fst (arb_rest n bs)) = n /\ Forall inW (fst (arb_rest n bs)) /\ Forall isbyte (snd (arb_rest n bs)).
Proof.
  induction n as [|n IH]; intros bs H; cbn [arb_rest]; [cbn; auto|].
  destruct (arb_u64_inW bs H) as [Hx Hr]. destruct (arb_u64 bs) as [x bs1]. cbn [fst snd] in *.
  destruct (IH bs1 Hr) as (Hl & Hw & Hb). destruct (arb_rest n bs1) as [xs bs2]. cbn [fst snd] in *.
  repeat split; cbn [length]; auto.
Qed.
Lemma iir_loop_range fuel : forall delta acc k bs,
  Forall isbyte bs -> inW acc -> inW (iir_loop fuel delta acc k bs).
Proof.
  induction fuel as [|f IH]; intros delta acc k bs Hb Ha; cbn [iir_loop]; [exact Ha|].
  destruct ((k <? 8) && (0 <? Z.shiftr delta (8 * k))); [|exact Ha].
  destruct bs as [|b t]; [exact Ha|]. inversion Hb as [|? ? Hb1 Hbt]; subst.
  apply IH; [exact Hbt|]. unfold inW. rewrite B_pow.
  apply PfShift.lor_lt_pow2; [lia| |].
  - rewrite <- B_pow. apply Z.mod_pos_bound, B_pos.
  - unfold isbyte in Hb1. change (2 ^ 64) with 18446744073709551616. lia.
Qed.
Lemma int_in_range_le hi bs : 0 <= hi < B -> Forall isbyte bs ->
  0 <= int_in_range_0 hi bs <= hi.
Proof.
  intros Hh Hb. unfold int_in_range_0. destruct (Z.eqb_spec hi 0); [lia|].
  pose proof (iir_loop_range 8 hi 0 0 bs Hb ltac:(unfold inW; pose proof B_pos; lia)) as Hr.
  unfold inW in Hr. destruct (Z.eqb_spec hi (B - 1)); [lia|].
  pose proof (Z.mod_pos_bound (iir_loop 8 hi 0 0 bs) (hi + 1) ltac:(lia)). lia.
Qed.

Theorem arbitrary_canon bits bs : 0 <= bits -> Forall isbyte bs ->
  exists r, Gen.arbitrary bits bs = Val r /\ canon bits r.
Proof.
  intros Hb Hby. unfold Gen.arbitrary. destruct (nlimbsN bits) as [|n] eqn:En.
  - assert (bits = 0).
    { destruct (Z.eq_dec bits 0); [assumption|]. pose proof (nlimbs_bounds bits ltac:(lia)).
      unfold nlimbsN in En. lia. }
    subst. exists []. split; [reflexivity|]. apply canonb_iff. reflexivity.
  - assert (Hp : 0 < bits) by (destruct (Z.eq_dec bits 0) as [->|]; [discriminate|lia]).
    destruct (arb_rest_facts n bs Hby) as (Hl & Hw & Hbr).
    destruct (arb_rest n bs) as [rest bs']. cbn [fst snd] in *.
    pose proof (int_in_range_le (mask bits) bs' (mask_range bits Hb) Hbr) as Hi.
    set (x := int_in_range_0 (mask bits) bs') in *.
    assert (Hc : canon bits (rest ++ [x])).
    { assert (Hlen : length (rest ++ [x]) = nlimbsN bits) by (rewrite app_length, En; cbn; lia).
      assert (Hwa : Forall inW (rest ++ [x])).
      { apply Forall_app. split; [exact Hw|]. constructor; [|constructor].
        pose proof (mask_range bits Hb). unfold inW. lia. }
      repeat split; auto.
      pose proof (last_gt_mask bits (rest ++ [x]) Hp Hlen Hwa) as Hm. rewrite last_snoc in Hm.
      destruct (Z.ltb_spec (mask bits) x); [lia|].
      destruct (Z.leb_spec (2 ^ bits) (eval (rest ++ [x]))); [discriminate|assumption]. }
    exists (rest ++ [x]). split; [now apply PfConv.from_limbs_canon|exact Hc].
Qed.

(* ---------- the property ---------- *)
Lemma forallb_inWb l : Forall inW l -> forallb inWb l = true.
Proof. intros H. apply forallb_forall. rewrite Forall_forall in H. intros x Hx. apply inWb_iff; auto. Qed.

(* ---------- approx_pow2: whatever the libm estimate b64, a returned value is canonical ---------- *)
Lemma ok_of_try_from_u64 bits v : 0 <= bits -> 0 <= v < B ->
  exists r, ApproxPow2.ok_of (Conv.try_from_u64 bits v) = Val r /\
            match r with Some w => canon bits w | None => True end.
Proof.
  intros Hb Hv. unfold ApproxPow2.ok_of. rewrite PfConv.try_from_u64_spec by auto. cbn [obind].
  unfold PfConv.res_of. destruct (Z.ltb_spec v (2 ^ bits)).
  - eexists. split; [reflexivity|]. apply PfFloatUint.uint_of_canon; lia.
  - eexists. split; [reflexivity|]. exact I.
Qed.

Theorem approx_pow2_canon bits x b64 : 0 <= bits -> inW x -> inW b64 ->
  exists r, ApproxPow2.approx_pow2 bits x b64 = Val r /\
            match r with Some w => canon bits w | None => True end.
Proof.
  intros Hb Hx Hb64. unfold ApproxPow2.approx_pow2.
  destruct (SpecFloat.SFltb (ApproxPow2.f64 x) ApproxPow2.LN2_1P5).
  { destruct (SpecFloat.SFltb (ApproxPow2.f64 x) ApproxPow2.MINUS_ONE).
    - eexists. split; [reflexivity|]. apply canon_uZERO, Hb.
    - apply ok_of_try_from_u64; [exact Hb | rewrite B_val; lia]. }
  destruct (SpecFloat.SFltb (ApproxPow2.usize_as_f64 bits) (ApproxPow2.f64 x)).
  { eexists. split; [reflexivity | exact I]. }
  set (shift := ApproxPow2.trunc_usize (ApproxPow2.f64 x)).
  destruct (Z.leb_spec 63 shift) as [Hs|Hs].
  - destruct (ok_of_try_from_u64 bits b64 Hb Hb64) as (r & -> & Hr). cbn [obind].
    destruct r as [v|]; [|eexists; split; [reflexivity | exact I]].
    eexists. split; [reflexivity|]. unfold Shift.checked_shl.
    pose proof (PfShift.overflowing_shl_spec bits v (shift - 63) Hb Hr ltac:(lia)) as S.
    destruct (Shift.overflowing_shl bits v (shift - 63)) as [w f]. destruct S as (Hc & _ & _).
    destruct f; cbn [Shift.checked_of]; [exact I | exact Hc].
  - assert (H0 : 0 <= shift).
    { unfold shift, ApproxPow2.trunc_usize. destruct (ApproxPow2.f64 x) as [s|s| |s m e]; try (destruct s); try lia;
        try (rewrite B_val; lia).
      apply Z.min_glb; [|rewrite B_val; lia].
      destruct (Z.leb_spec 0 e); [apply Z.mul_nonneg_nonneg; [lia | apply Z.pow_nonneg; lia]
                          | apply Z.div_pos; [lia | apply Z.pow_pos_nonneg; lia]]. }
    set (sh := 63 - shift). assert (Hsh : 1 <= sh <= 63) by (unfold sh; lia).
    set (b := Word.shr64 b64 sh + Z.land (Word.shr64 b64 (sh - 1)) 1).
    assert (Hbr : 0 <= b < B).
    { unfold b, Word.shr64. unfold inW in Hb64.
      assert (0 <= b64 / 2 ^ sh <= b64 / 2).
      { split; [apply Z.div_pos; [lia | apply Z.pow_pos_nonneg; lia]|].
        apply Z.div_le_compat_l; [lia|]. split; [lia|].
        change 2 with (2 ^ 1) at 1. apply Z.pow_le_mono_r; lia. }
      assert (0 <= Z.land (b64 / 2 ^ (sh - 1)) 1 <= 1).
      { generalize (b64 / 2 ^ (sh - 1)). intros y.
        change (Z.land y 1) with (Z.land y (Z.ones 1)). rewrite Z.land_ones by lia. change (2 ^ 1) with 2.
        pose proof (Z.mod_pos_bound y 2 ltac:(lia)). lia. }
      assert (b64 / 2 < 2 ^ 63) by (apply Z.div_lt_upper_bound; [lia | rewrite B_val in Hb64; lia]).
      rewrite B_val. lia. }
    destruct (Z.leb_spec B b); [lia|].
    apply ok_of_try_from_u64; assumption.
Qed.

Theorem C04c_all c : wf c -> spec c (run c) = true.
Proof.
  destruct c as [bits l|bits l|bits s|bits s|bits s|bits s|bits s|bits k|bits sh ws|bits sh a ws
                |bits bs|bits seed arr|bits seed size ws|bits which count|bits x b64]; cbn [wf spec run].
  - intros (Hb & Hl & Hw). unfold M. rewrite from_limbs_rejects by auto.
    destruct (eval l <? 2 ^ bits); [apply expect_refl|reflexivity].
  - intros (Hb & Hl & Hw). unfold M. rewrite from_limbs_rejects by auto.
    destruct (eval l <? 2 ^ bits); [apply expect_refl|reflexivity].
  - intros (Hb & Hw). unfold M. rewrite PfConv.from_limbs_slice_spec by auto.
    destruct (eval s <? 2 ^ bits); [apply expect_refl|reflexivity].
  - intros (Hb & Hw). unfold M, Conv.checked_from_limbs_slice.
    rewrite PfConv.overflowing_from_limbs_slice_spec by auto. cbn [obind].
    pose proof (eval_bound s Hw).
    destruct (Z.leb_spec (2 ^ bits) (eval s)); destruct (Z.ltb_spec (eval s) (2 ^ bits)); try lia;
      [apply expect_refl|]. rewrite Z.mod_small by lia. apply expect_refl.
  - intros (Hb & Hw). unfold Conv.wrapping_from_limbs_slice.
    rewrite PfConv.overflowing_from_limbs_slice_spec by auto. cbn [obind fst].
    rewrite modp2_spec by lia. apply expect_refl.
  - intros (Hb & Hw). unfold M. rewrite PfConv.overflowing_from_limbs_slice_spec by auto. cbn [obind fst snd].
    rewrite modp2_spec by lia. apply expect_refl.
  - intros (Hb & Hw). unfold M, Conv.saturating_from_limbs_slice.
    rewrite PfConv.overflowing_from_limbs_slice_spec by auto. cbn [obind].
    pose proof (eval_bound s Hw).
    destruct (Z.leb_spec (2 ^ bits) (eval s)); destruct (Z.ltb_spec (eval s) (2 ^ bits)); try lia.
    + rewrite (PfC07.uMAX_eq bits Hb). apply expect_refl.
    + rewrite Z.mod_small by lia. apply expect_refl.
  - intros (Hb & Hk). unfold M. destruct (Z.eqb_spec k 1) as [->|N1].
    + rewrite cONE_spec by auto. cbn [obind]. rewrite modp2_spec by lia. apply expect_refl.
    + destruct ((k =? 3) || (k =? 7)).
      * rewrite cMAX_spec by auto. apply expect_refl.
      * rewrite cZERO_spec by auto. apply expect_refl.
  - intros (Hb & Hw). rewrite rand_fill_spec, modp2_spec by (auto; lia). apply expect_refl.
  - intros (Hb & Ha & Hw). rewrite rand_fill_spec, modp2_spec by (auto; lia). apply expect_refl.
  - intros (Hb & Hby). destruct (arbitrary_canon bits bs Hb Hby) as (r & -> & Hc). cbn [obind].
    now apply canonb_iff.
  - intros (Hb & Hl & Hw). unfold proptest_map.
    rewrite from_limbs_unmasked_spec, modp2_spec by (auto; lia). apply expect_refl.
  - intros (Hb & Hl & Hw). rewrite quickcheck_spec, modp2_spec by (auto; lia). cbn [obind]. apply expect_refl.
  - intros Hb. apply expect_refl.
  - intros (Hb & Hx & Hb64). destruct (approx_pow2_canon bits x b64 Hb Hx Hb64) as (r & -> & Hc).
    cbn [obind]. destruct r as [v|]; [now apply canonb_iff | reflexivity].
Qed.
