(* Proofs/PfCodecCText.v — postgres CHAR/TEXT/VARCHAR/JSON/JSONB: the encoder prints the
   reference hex text, the decoder meets C09's specification of FromStr on the chars of the
   (unquoted) input, and decoding the reference text gives the value back. *)
From Coq Require Import ZArith List Bool Lia.
From RV.Model Require Import Base Word.
From RV.Model Require Bytes Conv BaseConv Str Fmt CodecC.
From RV.Spec Require FmtC.
From RV.Run Require RunC09 RunC16C RunC17C.
From RV.Proofs Require Import BaseFacts.
From RV.Proofs Require PfBytes PfConv PfPositional PfBaseConv PfStr PfFmt PfC09.
From RV.Proofs Require Import PfCodecC PfCodecCNum.
Import BaseConv(res, Ok, Err).

(* ---------- encoder ---------- *)
Lemma fmt_hex_alt bits a : 0 <= bits -> canon bits a ->
  Fmt.fmt bits 2 CodecC.hex_alt a = Val (FmtC.ref_hex (eval a)).
Proof.
  intros Hb Hc. rewrite PfFmt.fmt_spec by (try assumption; lia). reflexivity.
Qed.

(* ---------- ASCII text ---------- *)
Definition ascii (c : Z) : Prop := 0 <= c < 128.
Lemma utf8_ascii cs : Forall ascii cs -> Str.utf8_decode cs = Some cs.
Proof.
  induction 1 as [|c t Hc Ht IH]; [reflexivity|]. unfold ascii in Hc.
  cbn [Str.utf8_decode]. destruct (Z.ltb_spec c 128); [|lia]. now rewrite IH.
Qed.
Lemma digit_char_ascii d : 0 <= d < 16 -> ascii (Fmt.digit_char false d).
Proof. intros H. unfold ascii, Fmt.digit_char. destruct (Z.ltb_spec d 10); lia. Qed.

Definition hex16 : list Z := map Z.of_nat (seq 0 16).
Lemma hex16_in d : 0 <= d < 16 -> In d hex16.
Proof.
  intros H. unfold hex16. rewrite <- (Z2Nat.id d) by lia. apply in_map, in_seq. lia.
Qed.
Lemma hex_char_item_all :
  forallb (fun d => match RunC09.char_item 16 (Fmt.digit_char false d) with
                    | RunC09.SDigit d' => d' =? d | _ => false end) hex16 = true.
Proof. vm_compute. reflexivity. Qed.
Lemma hex_char_item d : 0 <= d < 16 ->
  RunC09.char_item 16 (Fmt.digit_char false d) = RunC09.SDigit d.
Proof.
  intros H. pose proof hex_char_item_all as A. rewrite forallb_forall in A.
  specialize (A d (hex16_in d H)).
  destruct (RunC09.char_item 16 (Fmt.digit_char false d)); try discriminate.
  apply Z.eqb_eq in A. now subst.
Qed.
Lemma split_text_hex ds : Forall (fun d => 0 <= d < 16) ds ->
  RunC09.split_text 16 (map (Fmt.digit_char false) ds) = (ds, None).
Proof.
  induction 1 as [|d t Hd Ht IH]; [reflexivity|].
  cbn [map RunC09.split_text]. rewrite hex_char_item by exact Hd.
  destruct (Z.leb_spec 16 d); [lia|]. now rewrite IH.
Qed.

(* the hex digit string of v: chars, their digits, value *)
Lemma ref_digits_hex v : 0 <= v ->
  exists ds, RunC09.ref_digit_string 2 v = map (Fmt.digit_char false) ds
    /\ Forall (fun d => 0 <= d < 16) ds /\ RunC09.value_be 16 ds = v.
Proof.
  intros Hv. unfold RunC09.ref_digit_string. destruct (Z.eqb_spec v 0) as [->|Hnz].
  - exists [0]. repeat split; try reflexivity. constructor; [lia|constructor].
  - exists (RunC09.digits_be 16 v). split; [reflexivity|]. split.
    + apply digits_be_range. lia.
    + apply value_be_digits; lia.
Qed.

Lemma ref_hex_ascii v : 0 <= v -> Forall ascii (FmtC.ref_hex v).
Proof.
  intros Hv. destruct (ref_digits_hex v Hv) as (ds & E & Hds & _). unfold FmtC.ref_hex. rewrite E.
  constructor; [unfold ascii; lia|]. constructor; [unfold ascii; lia|].
  apply Forall_forall. intros c Hc. apply in_map_iff in Hc. destruct Hc as (d & <- & Hd).
  rewrite Forall_forall in Hds. apply digit_char_ascii, Hds, Hd.
Qed.
Lemma ascii_bytes cs : Forall ascii cs -> Forall Bytes.isbyte cs.
Proof. apply Forall_impl. unfold ascii, Bytes.isbyte. intros; lia. Qed.

(* ---------- decoding the reference text gives the value back ---------- *)
Lemma fsres_text_inv bits v (r : res CodecC.fserr (list Z)) :
  0 <= bits -> 0 <= v < 2 ^ bits ->
  RunC17C.spec_text bits (FmtC.ref_hex v) (Val (RunC16C.fsres_toks r)) = true ->
  r = Ok (uint_of bits v).
Proof.
  intros Hb Hv. destruct (ref_digits_hex v ltac:(lia)) as (ds & E & Hds & Hval).
  unfold FmtC.ref_hex. rewrite E. cbn [app].
  assert (G : forall o, RunC09.spec_from_str bits (48 :: 120 :: map (Fmt.digit_char false) ds) o
                        = RunC09.spec_parse bits 16 (map (Fmt.digit_char false) ds) o) by reflexivity.
  unfold RunC17C.spec_text.
  assert (Hov : (2 ^ bits <=? v) = false) by (apply Z.leb_gt; lia).
  destruct r as [l|e]; cbn [RunC16C.fsres_toks].
  - rewrite G. unfold RunC09.spec_parse. cbn [Z.ltb Z.compare Pos.compare Pos.compare_cont].
    rewrite split_text_hex by exact Hds. rewrite Hval, Hov. unfold RunC09.is_some, RunC09.U.
    cbn [negb andb]. intros H. f_equal.
    apply (list_eqb_eq Z.eqb); [intros ? ?; apply Z.eqb_eq|exact H].
  - destruct e as [| | | |[b n|b n|b]| | |e|e]; cbn [RunC16C.fserr_toks RunC16C.uerr_toks Z.add Pos.add];
      try discriminate.
    rewrite G. unfold RunC09.spec_parse. cbn [Z.ltb Z.compare Pos.compare Pos.compare_cont].
    rewrite split_text_hex by exact Hds. rewrite Hval, Hov.
    destruct e as [c|rd|[|b|d b]]; cbn; discriminate.
Qed.

(* ---------- decoder: FromStr on the chars ---------- *)
Lemma from_str_res_spec bits cs : 0 <= bits ->
  exists r, CodecC.from_str_res bits cs = Val r
    /\ RunC17C.spec_text bits cs (Val (RunC16C.fsres_toks r)) = true.
Proof.
  intros Hb. destruct (PfStr.from_str_spec bits cs Hb) as (r0 & E & S).
  unfold CodecC.from_str_res. rewrite E. cbn [obind].
  destruct r0 as [v|e]; eexists; (split; [reflexivity|]); cbn; exact S.
Qed.

Lemma utf8_len_pos c : 1 <= Str.utf8_len c.
Proof.
  unfold Str.utf8_len. destruct (c <? 128); [lia|]. destruct (c <? 2048); [lia|].
  destruct (c <? 65536); lia.
Qed.
Lemma str_len_nonneg cs : 0 <= CodecC.str_len cs.
Proof.
  induction cs as [|c t IH]; [cbn; lia|]. unfold CodecC.str_len in *. cbn [fold_right].
  pose proof (utf8_len_pos c). lia.
Qed.

Lemma unquote_not34 c t : c <> 34 -> FmtC.unquote (c :: t) = c :: t.
Proof.
  intros H. unfold FmtC.unquote.
  destruct c as [|p|p]; try reflexivity.
  do 6 (destruct p as [p|p|]; try reflexivity). congruence.
Qed.

Lemma strip_quotes_spec cs : CodecC.strip_quotes cs = Val (FmtC.unquote cs).
Proof.
  unfold CodecC.strip_quotes. destruct cs as [|c t]; [reflexivity|].
  destruct (Z.eqb_spec c 34) as [->|Hc].
  - destruct t as [|d t'].
    + reflexivity.
    + assert (Hlen : (2 <=? CodecC.str_len (34 :: d :: t')) = true).
      { apply Z.leb_le. cbn [CodecC.str_len fold_right].
        pose proof (utf8_len_pos 34). pose proof (utf8_len_pos d).
        pose proof (str_len_nonneg t'). unfold CodecC.str_len in *. lia. }
      rewrite Hlen. cbn [hd andb Z.eqb Pos.eqb]. unfold FmtC.unquote.
      change (last (34 :: d :: t') 0) with (last (d :: t') 0).
      destruct (last (d :: t') 0 =? 34); reflexivity.
  - rewrite unquote_not34 by exact Hc. cbn [hd].
    destruct (Z.eqb_spec c 34); [contradiction|]. now rewrite andb_false_r.
Qed.

Lemma unquote_json s : FmtC.unquote ([34] ++ s ++ [34]) = s.
Proof.
  cbn [app]. unfold FmtC.unquote. destruct (s ++ [34]) eqn:E; [destruct s; discriminate|].
  rewrite <- E. rewrite last_last, Z.eqb_refl. apply removelast_last.
Qed.
