(* Proofs/PfGenDivRef.v — source tie for the reference division kernels: the definitions that
   tools_rs2v.py generates from the current text of reciprocal_ref (reciprocal.rs), div_2x1_ref
   and div_3x2_ref (small.rs) equal the hand-written model of Model/DivRef.v on all arguments
   of the Rust types (u64 / u128). *)
From Coq Require Import ZArith List Bool Lia.
From RV.Model Require Import Base Word DivRecip DivRef.
From RV.Gen Require Import Prim Scalar.
From RV.Proofs Require Import BaseFacts PfDivBase PfGenScalar.
Import ListNotations.
Local Open Scope Z_scope.

Lemma shr128_64_hi x : 0 <= x < BB -> wrap (shr128 x 64) = hi128 x.
Proof.
  intros H. unfold shr128, hi128. rewrite <- B_pow. apply wrap_small.
  rewrite BB_eq in H. apply hi128_range. exact H.
Qed.
Lemma shl128_64 x : shl128 x 64 = wrap128 (x * B).
Proof. unfold shl128, wrap128. rewrite <- B_pow. reflexivity. Qed.
Lemma chk128_nonneg x : 0 <= x -> chk128 x = if BB <=? x then DebugPanic else Val x.
Proof.
  intros H. unfold chk128. destruct (Z.leb_spec 0 x); [|lia]. cbn [andb].
  destruct (Z.ltb_spec x BB); destruct (Z.leb_spec BB x); try reflexivity; lia.
Qed.
Lemma chk64_pred q : q < B + 1 -> chk64 (q - 1) = if q <? 1 then DebugPanic else Val (q - 1).
Proof.
  intros H. unfold chk64.
  destruct (Z.leb_spec 0 (q - 1)); destruct (Z.ltb_spec q 1); try lia; cbn [andb]; try reflexivity.
  destruct (Z.ltb_spec (q - 1) B); [reflexivity | lia].
Qed.

Lemma g_reciprocal_ref_eq d : inW d -> g_reciprocal_ref d = reciprocal_ref d.
Proof.
  intros Hd. unfold g_reciprocal_ref, reciprocal_ref, chkdiv.
  change 9223372036854775808 with (2 ^ 63).
  destruct (Z.ltb_spec d (2 ^ 63)) as [H|H].
  - destruct (Z.leb_spec (2 ^ 63) d); [lia | reflexivity].
  - destruct (Z.leb_spec (2 ^ 63) d); [|lia]. cbn [negb].
    destruct (Z.eqb_spec d 0); [reflexivity|]. cbn [obind].
    rewrite B_val.
    destruct (Z.ltb_spec ((BB - 1) / d) 18446744073709551616);
      destruct (Z.leb_spec 18446744073709551616 ((BB - 1) / d)); try lia; cbn [negb]; [reflexivity|].
    change (2 * 18446744073709551616) with 36893488147419103232.
    destruct (Z.ltb_spec ((BB - 1) / d) 36893488147419103232);
      destruct (Z.leb_spec 36893488147419103232 ((BB - 1) / d)); try lia; reflexivity.
Qed.

Lemma g_div_2x1_ref_eq u d : 0 <= u < BB -> inW d -> g_div_2x1_ref u d = div_2x1_ref u d.
Proof.
  intros Hu Hd. unfold g_div_2x1_ref, div_2x1_ref, chkdiv.
  change 9223372036854775808 with (2 ^ 63).
  change (shr128 u 64) with (u / 2 ^ 64). rewrite <- B_pow. fold (hi128 u).
  destruct (Z.ltb_spec d (2 ^ 63)) as [H|H].
  - destruct (Z.leb_spec (2 ^ 63) d); [lia | reflexivity].
  - destruct (Z.leb_spec (2 ^ 63) d); [|lia]. cbn [negb].
    destruct (hi128 u <? d); cbn [negb]; [|reflexivity].
    destruct (Z.eqb_spec d 0); reflexivity.
Qed.

Lemma div_2x1_ref_range u d q r : div_2x1_ref u d = Val (q, r) -> inW q /\ inW r.
Proof.
  unfold div_2x1_ref. destruct (d <? 2 ^ 63); [discriminate|].
  destruct (negb (hi128 u <? d)); [discriminate|]. destruct (d =? 0); [discriminate|].
  intros E. injection E as <- <-. split; apply wrap_range.
Qed.

Lemma g_div_3x2_ref_eq n21 n0 d :
  0 <= n21 < BB -> inW n0 -> 0 <= d < BB -> g_div_3x2_ref n21 n0 d = div_3x2_ref n21 n0 d.
Proof.
  intros Hn Hn0 Hd. unfold g_div_3x2_ref, div_3x2_ref.
  change 170141183460469231731687303715884105728 with (2 ^ 127).
  destruct (Z.ltb_spec d (2 ^ 127)) as [H|H].
  { destruct (Z.leb_spec (2 ^ 127) d); [lia | reflexivity]. }
  destruct (Z.leb_spec (2 ^ 127) d); [|lia]. cbn [negb].
  destruct (n21 <? d); cbn [negb]; [|reflexivity].
  rewrite !shr128_64_hi by assumption.
  change (wrap n21) with (lo128 n21). change (wrap d) with (lo128 d).
  pose proof (lo128_range d) as Hd0. pose proof (lo128_range n21) as Hn1.
  assert (Hd1 : inW (hi128 d)) by (apply hi128_inW; assumption).
  set (n2 := hi128 n21). set (n1 := lo128 n21) in *. set (d1 := hi128 d) in *. set (d0 := lo128 d) in *.
  destruct (n2 =? d1).
  - (* n2 = d1 *)
    destruct (n1 <? d0); cbn [negb obind]; [|reflexivity].
    rewrite !shl128_64.
    change 18446744073709551614 with (18446744073709551616 - 2).
    change 18446744073709551615 with (18446744073709551616 - 1). rewrite <- B_val.
    destruct (d <? wrap128 (wrap128 (d0 * B) - Z.lor (wrap128 (n1 * B)) n0)); reflexivity.
  - rewrite g_div_2x1_ref_eq by assumption.
    destruct (div_2x1_ref n21 d1) as [[q r]| | | |] eqn:E; cbn [obind]; try reflexivity.
    destruct (div_2x1_ref_range _ _ _ _ E) as [Hq Hr]. unfold inW in Hq, Hr, Hd1.
    rewrite chk128_nonneg by nia.
    destruct (BB <=? q * d0); cbn [obind]; [reflexivity|].
    rewrite !shl128_64.
    destruct (Z.lor (wrap128 (r * B)) n0 <? q * d0); cbn [obind]; [|reflexivity].
    rewrite chk64_pred by lia.
    destruct (Z.ltb_spec q 1) as [Hq1|Hq1]; cbn [obind]; [reflexivity|].
    destruct (wrap (r + d1) <? d1); cbn [negb obind]; [reflexivity|].
    rewrite chk128_nonneg by nia.
    destruct (BB <=? (q - 1) * d0); cbn [obind]; [reflexivity|].
    destruct (Z.lor (wrap128 (wrap (r + d1) * B)) n0 <? (q - 1) * d0); cbn [obind]; [|reflexivity].
    rewrite chk64_pred by lia.
    destruct (q - 1 <? 1); reflexivity.
Qed.
