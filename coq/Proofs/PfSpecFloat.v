(* Proofs/PfSpecFloat.v — facts about Coq.Floats.SpecFloat needed by C18 (the standard library
   ships the definitions without lemmas): digits, the shift-right-with-sticky iteration, and the
   value computed by binary_round_aux / binary_round on an exact location. *)
From Coq Require Import ZArith List Bool Lia.
From Coq.Floats Require Import FloatClass SpecFloat.
Local Open Scope Z_scope.

Lemma digits2_pos_log2 p : Zpos (digits2_pos p) = Z.log2 (Zpos p) + 1.
Proof.
  induction p as [p IH|p IH|]; cbn [digits2_pos]; rewrite ?Pos2Z.inj_succ, ?IH.
  - rewrite Pos2Z.inj_xI, Z.log2_succ_double by lia. lia.
  - rewrite Pos2Z.inj_xO, Z.log2_double by lia. lia.
  - reflexivity.
Qed.

Lemma Zdigits2_log2 m : 0 < m -> Zdigits2 m = Z.log2 m + 1.
Proof. destruct m; try lia. intros _. apply digits2_pos_log2. Qed.

Lemma log2_bounds m : 0 < m -> 2 ^ Z.log2 m <= m < 2 ^ (Z.log2 m + 1).
Proof. intros H. pose proof (Z.log2_spec m H). replace (Z.log2 m + 1) with (Z.succ (Z.log2 m)) by lia. lia. Qed.

Lemma log2_eq m k : 0 <= k -> 2 ^ k <= m < 2 ^ (k + 1) -> Z.log2 m = k.
Proof. intros Hk H. apply Z.log2_unique; [lia|]. replace (Z.succ k) with (k + 1) by lia. exact H. Qed.

Lemma nat_iter_add {A} (f : A -> A) n m x : Nat.iter (n + m) f x = Nat.iter n f (Nat.iter m f x).
Proof. induction n as [|n IH]; [reflexivity|]. simpl. f_equal. exact IH. Qed.

Lemma iter_pos_nat {A} (f : A -> A) p : forall x, iter_pos f p x = Nat.iter (Pos.to_nat p) f x.
Proof.
  induction p as [p IH|p IH|]; intros x; cbn [iter_pos].
  - rewrite !IH, Pos2Nat.inj_xI.
    replace (S (2 * Pos.to_nat p))%nat with (Pos.to_nat p + (Pos.to_nat p + 1))%nat by lia.
    rewrite !nat_iter_add. reflexivity.
  - rewrite !IH, Pos2Nat.inj_xO.
    replace (2 * Pos.to_nat p)%nat with (Pos.to_nat p + Pos.to_nat p)%nat by lia.
    rewrite nat_iter_add. reflexivity.
  - reflexivity.
Qed.

Lemma shr_1_nonneg m r s :
  0 <= m ->
  shr_1 {| shr_m := m; shr_r := r; shr_s := s |}
  = {| shr_m := m / 2; shr_r := Z.odd m; shr_s := r || s |}.
Proof.
  intros H. rewrite <- Z.div2_div.
  destruct m as [|p|p]; [reflexivity| |lia]. destruct p; reflexivity.
Qed.

(* the state after n single shifts of (m, false, false) *)
Definition shr_state (m : Z) (n : nat) : shr_record :=
  {| shr_m := m / 2 ^ Z.of_nat n;
     shr_r := match n with O => false | S k => Z.testbit m (Z.of_nat k) end;
     shr_s := match n with O => false | S k => negb (m mod 2 ^ Z.of_nat k =? 0) end |}.

Lemma mod_pow2_succ m k : 0 <= k ->
  m mod 2 ^ (k + 1) = m mod 2 ^ k + 2 ^ k * Z.b2z (Z.testbit m k).
Proof.
  intros Hk. rewrite Z.pow_add_r, Z.pow_1_r by lia.
  rewrite Z.rem_mul_r by (try apply Z.pow_nonzero; lia).
  rewrite Z.testbit_spec' by lia. reflexivity.
Qed.

Lemma iter_shr_1 m n : 0 <= m ->
  Nat.iter n shr_1 {| shr_m := m; shr_r := false; shr_s := false |} = shr_state m n.
Proof.
  intros Hm. induction n as [|n IH].
  - cbn. unfold shr_state. cbn. now rewrite Z.div_1_r.
  - change (Nat.iter (S n) shr_1 ?x) with (shr_1 (Nat.iter n shr_1 x)). rewrite IH. unfold shr_state at 1.
    rewrite shr_1_nonneg by (apply Z.div_pos; [lia | apply Z.pow_pos_nonneg; lia]).
    unfold shr_state. f_equal.
    + rewrite Z.div_div by (try apply Z.pow_pos_nonneg; lia).
      rewrite Nat2Z.inj_succ, Z.pow_succ_r by lia. f_equal. lia.
    + rewrite Z.testbit_odd, Z.shiftr_div_pow2 by lia. reflexivity.
    + destruct n as [|k]; [cbn [Z.of_nat orb]; now rewrite Z.pow_0_r, Z.mod_1_r|].
      rewrite (Nat2Z.inj_succ k). replace (Z.succ (Z.of_nat k)) with (Z.of_nat k + 1) by lia.
      rewrite (mod_pow2_succ m (Z.of_nat k)) by lia.
      pose proof (Z.mod_pos_bound m (2 ^ Z.of_nat k) ltac:(apply Z.pow_pos_nonneg; lia)).
      assert (0 < 2 ^ Z.of_nat k) by (apply Z.pow_pos_nonneg; lia).
      destruct (Z.testbit m (Z.of_nat k)); cbn [Z.b2z orb].
      * symmetry. apply negb_true_iff, Z.eqb_neq. lia.
      * now rewrite Z.mul_0_r, Z.add_0_r.
Qed.

Lemma shr_pos m e n : 0 <= m -> 0 < n ->
  shr {| shr_m := m; shr_r := false; shr_s := false |} e n = (shr_state m (Z.to_nat n), e + n).
Proof.
  intros Hm Hn. destruct n as [|p|p]; try lia. unfold shr.
  rewrite iter_pos_nat, iter_shr_1 by lia. reflexivity.
Qed.

(* round m / 2^sh (sh >= 1) to the nearest integer, ties to even — the decision SpecFloat takes
   from the round and sticky bits *)
Definition rne_shift (m sh : Z) : Z :=
  let q := m / 2 ^ sh in
  let r := Z.testbit m (sh - 1) in
  let s := negb (m mod 2 ^ (sh - 1) =? 0) in
  if r && (s || Z.odd q) then q + 1 else q.

Lemma round_shr_state m n : (0 < n)%nat ->
  round_nearest_even (shr_m (shr_state m n)) (loc_of_shr_record (shr_state m n))
  = rne_shift m (Z.of_nat n).
Proof.
  intros Hn. destruct n as [|k]; [lia|]. unfold shr_state, rne_shift.
  replace (Z.of_nat (S k) - 1) with (Z.of_nat k) by lia.
  cbn [shr_m loc_of_shr_record].
  destruct (Z.testbit m (Z.of_nat k)); destruct (negb (m mod 2 ^ Z.of_nat k =? 0));
    cbn [round_nearest_even andb orb]; try reflexivity.
  rewrite <- Z.negb_even. destruct (Z.even (m / 2 ^ Z.of_nat (S k))); reflexivity.
Qed.

Section Round.
  Variables prec emax : Z.
  Hypothesis Hprec : 1 < prec.

  Definition mkfin (s : bool) (M E : Z) : spec_float :=
    if E <=? emax - prec then S754_finite s (Z.to_pos M) E else S754_infinity s.

  Notation emin := (3 - emax - prec).

  (* no shift needed: the mantissa passes unchanged *)
  Lemma bra_noshift s m e :
    Z.log2 (Zpos m) + 1 <= prec -> emin <= e ->
    binary_round_aux prec emax s (Zpos m) e loc_Exact = mkfin s (Zpos m) e.
  Proof.
    intros Hd He. unfold binary_round_aux.
    assert (Hs : shr_fexp prec emax (Zpos m) e loc_Exact
                 = ({| shr_m := Zpos m; shr_r := false; shr_s := false |}, e)).
    { unfold shr_fexp, shr_record_of_loc. rewrite Zdigits2_log2 by lia.
      unfold fexp, SpecFloat.emin.
      destruct (Z.max (Z.log2 (Zpos m) + 1 + e - prec) (3 - emax - prec) - e) eqn:E; try reflexivity.
      lia. }
    rewrite Hs. cbn [shr_m loc_of_shr_record round_nearest_even]. rewrite Hs. cbn [shr_m].
    unfold mkfin, Zle_bool. reflexivity.
  Qed.

  Lemma rne_shift_range m sh : 0 < m -> 0 < sh -> Z.log2 m = prec - 1 + sh ->
    2 ^ (prec - 1) <= rne_shift m sh <= 2 ^ prec.
  Proof.
    intros Hm Hsh Hl. pose proof (log2_bounds m Hm) as Hb. rewrite Hl in Hb.
    assert (Hq : 2 ^ (prec - 1) <= m / 2 ^ sh < 2 ^ prec).
    { assert (E1 : 2 ^ (prec - 1 + sh) = 2 ^ sh * 2 ^ (prec - 1)) by (rewrite <- Z.pow_add_r by lia; f_equal; lia).
      assert (E2 : 2 ^ (prec - 1 + sh + 1) = 2 ^ sh * 2 ^ prec) by (rewrite <- Z.pow_add_r by lia; f_equal; lia).
      rewrite E1, E2 in Hb.
      assert (0 < 2 ^ sh) by (apply Z.pow_pos_nonneg; lia).
      split; [apply Z.div_le_lower_bound; lia | apply Z.div_lt_upper_bound; lia]. }
    unfold rne_shift. destruct (_ && _); lia.
  Qed.

  (* genuine rounding: the mantissa has more than prec digits *)
  Lemma bra_shift s m e :
    let d := Z.log2 (Zpos m) + 1 in
    prec < d -> emin <= e + d - prec ->
    binary_round_aux prec emax s (Zpos m) e loc_Exact
    = let m2 := rne_shift (Zpos m) (d - prec) in
      let e2 := e + (d - prec) in
      if m2 =? 2 ^ prec then mkfin s (2 ^ (prec - 1)) (e2 + 1) else mkfin s m2 e2.
  Proof.
    intros d Hd He. unfold binary_round_aux.
    set (sh := d - prec).
    assert (Hs : shr_fexp prec emax (Zpos m) e loc_Exact = (shr_state (Zpos m) (Z.to_nat sh), e + sh)).
    { unfold shr_fexp, shr_record_of_loc. rewrite Zdigits2_log2 by lia. fold d.
      unfold fexp, SpecFloat.emin.
      replace (Z.max (d + e - prec) (3 - emax - prec) - e) with sh by (unfold sh; lia).
      apply shr_pos; unfold sh; lia. }
    rewrite Hs. rewrite round_shr_state by (unfold sh; lia).
    rewrite Z2Nat.id by (unfold sh; lia).
    pose proof (rne_shift_range (Zpos m) sh ltac:(lia) ltac:(unfold sh; lia) ltac:(unfold sh, d; lia)) as Hr.
    cbv zeta. fold d. fold sh.
    set (m2 := rne_shift (Zpos m) sh) in *.
    assert (Hp1 : 0 < 2 ^ (prec - 1)) by (apply Z.pow_pos_nonneg; lia).
    assert (Hpp : 2 ^ prec = 2 * 2 ^ (prec - 1)).
    { replace prec with (1 + (prec - 1)) at 1 by lia. rewrite Z.pow_add_r by lia. reflexivity. }
    destruct (Z.eqb_spec m2 (2 ^ prec)) as [E|E].
    - (* carry into the next binade: one more exact shift *)
      assert (Hs2 : shr_fexp prec emax m2 (e + sh) loc_Exact
                    = ({| shr_m := 2 ^ (prec - 1); shr_r := false; shr_s := false |}, e + sh + 1)).
      { unfold shr_fexp, shr_record_of_loc. rewrite Zdigits2_log2 by lia.
        rewrite E, Z.log2_pow2 by lia. unfold fexp, SpecFloat.emin.
        replace (Z.max (prec + 1 + (e + sh) - prec) (3 - emax - prec) - (e + sh)) with 1
          by (unfold sh; lia).
        rewrite shr_pos by lia. change (Z.to_nat 1) with 1%nat.
        unfold shr_state. cbn [Z.of_nat]. rewrite Z.pow_1_r, Z.pow_0_r, Z.mod_1_r.
        f_equal. f_equal.
        - rewrite Hpp. rewrite Z.mul_comm, Z.div_mul by lia. reflexivity.
        - rewrite Hpp. apply Z.testbit_even_0. }
      rewrite Hs2. cbn [shr_m].
      destruct (2 ^ (prec - 1)) as [|p|p] eqn:Ep; try lia.
      unfold mkfin, Zle_bool. cbn [Z.to_pos]. reflexivity.
    - assert (Hs2 : shr_fexp prec emax m2 (e + sh) loc_Exact
                    = ({| shr_m := m2; shr_r := false; shr_s := false |}, e + sh)).
      { unfold shr_fexp, shr_record_of_loc. rewrite Zdigits2_log2 by lia.
        rewrite (log2_eq m2 (prec - 1)) by (try replace (prec - 1 + 1) with prec by lia; lia).
        unfold fexp, SpecFloat.emin.
        replace (Z.max (prec - 1 + 1 + (e + sh) - prec) (3 - emax - prec) - (e + sh)) with 0
          by (unfold sh; lia).
        reflexivity. }
      rewrite Hs2. cbn [shr_m].
      destruct m2 as [|p|p] eqn:Ep; try lia.
      unfold mkfin, Zle_bool. cbn [Z.to_pos]. reflexivity.
  Qed.

  (* binary_round of a short mantissa: exact, after normalising to prec digits *)
  Lemma binary_round_exact s m e :
    let d := Z.log2 (Zpos m) + 1 in
    d <= prec -> emin <= e + d - prec ->
    binary_round prec emax s m e = mkfin s (Zpos m * 2 ^ (prec - d)) (e - (prec - d)).
  Proof.
    intros d Hd He. unfold binary_round.
    rewrite digits2_pos_log2. fold d. unfold fexp, SpecFloat.emin.
    replace (Z.max (d + e - prec) (3 - emax - prec)) with (d + e - prec) by lia.
    unfold shl_align.
    destruct (Z.eq_dec d prec) as [E|E].
    - replace (d + e - prec - e) with 0 by lia.
      rewrite bra_noshift by (fold d; lia).
      rewrite E, Z.sub_diag, Z.pow_0_r, Z.mul_1_r, Z.sub_0_r. reflexivity.
    - destruct (d + e - prec - e) as [|p|p] eqn:Ep; try lia.
      assert (Hp : Zpos p = prec - d) by lia.
      assert (Hsp : Zpos (shift_pos p m) = Zpos m * 2 ^ (prec - d)).
      { rewrite shift_pos_correct, Zpower_pos_nat, Zpower_nat_Z, positive_nat_Z, Hp. ring. }
      assert (Hlog : Z.log2 (Zpos (shift_pos p m)) = prec - 1).
      { rewrite Hsp, <- Z.shiftl_mul_pow2, Z.log2_shiftl by lia. unfold d in *. lia. }
      rewrite bra_noshift by lia.
      rewrite Hsp. f_equal. lia.
  Qed.

  (* binary_round of a long mantissa: no left alignment, then the rounding of bra_shift *)
  Lemma binary_round_long s m e :
    let d := Z.log2 (Zpos m) + 1 in
    prec < d -> emin <= e + d - prec ->
    binary_round prec emax s m e = binary_round_aux prec emax s (Zpos m) e loc_Exact.
  Proof.
    intros d Hd He. unfold binary_round.
    rewrite digits2_pos_log2. fold d. unfold fexp, SpecFloat.emin, shl_align.
    destruct (Z.max (d + e - prec) (3 - emax - prec) - e) eqn:E; try reflexivity. lia.
  Qed.
End Round.
