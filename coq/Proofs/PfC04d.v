(* Proofs/PfC04d.v — property C04 part (d): over the table of `Self::LIMBS` mentions regenerated
   from the crate source (Model/CtorTable.v), no constant / constructor yields a value at an
   ill-formed (BITS, LIMBS) pair.  The proofs inspect the generated table entry by entry: if a
   constructor stops mentioning `Self::LIMBS` (and has no run-time check), they fail. *)
From Coq Require Import ZArith List Bool Lia.
From RV.Model Require Import Base Ctor CtorTable.
From RV.Proofs Require PfC01.
From RV.Run Require Import RunC04d.
Local Open Scope Z_scope.

(* every constructor is rejected at compile time or checks the pair at run time *)
Lemma table_complete c : mentions_limbs c || runtime_check c = true.
Proof. destruct c; reflexivity. Qed.

Theorem illformed_unobtainable : forall c bits limbs args,
  ill_formed bits limbs ->
  forall v, ctor_outcome mentions_limbs runtime_check c bits limbs args <> Val v.
Proof.
  intros c bits limbs args Hill v. unfold ctor_outcome, ill_formed in *.
  destruct (Z.eqb_spec limbs (nlimbs bits)) as [E|_]; [contradiction|].
  pose proof (table_complete c) as T.
  destruct (mentions_limbs c); [discriminate|]. destruct (runtime_check c); discriminate.
Qed.

(* ... and it is rejected (compile error or panic), never silently diverging *)
Theorem illformed_rejected : forall c bits limbs args,
  ill_formed bits limbs ->
  ctor_outcome mentions_limbs runtime_check c bits limbs args = CompileError \/
  ctor_outcome mentions_limbs runtime_check c bits limbs args = Panic.
Proof.
  intros c bits limbs args Hill. unfold ctor_outcome, ill_formed in *.
  destruct (Z.eqb_spec limbs (nlimbs bits)) as [E|_]; [contradiction|].
  pose proof (table_complete c) as T.
  destruct (mentions_limbs c); [now left|]. destruct (runtime_check c); [now right|discriminate].
Qed.

Theorem C04d_all c : wf c -> spec c (run c) = true.
Proof.
  destruct c as [bits limbs cid variant]. cbn [wf spec run].
  intros (Hb & Hl & Hk & Hv & Hwf).
  destruct (ctor_of_code cid) as [k|]; [|contradiction].
  destruct (Z.eqb_spec limbs (nlimbs bits)) as [E|N].
  - unfold ctor_outcome. rewrite E, Z.eqb_refl. apply PfC01.expect_refl.
  - destruct (illformed_rejected k bits limbs variant N) as [-> | ->]; reflexivity.
Qed.
