(* Proofs/PfGenShift.v — source tie for Uint::overflowing_shl / overflowing_shr (src/bits.rs): the
   definitions tools_rs2v.py generates from the current text (index loop writing r[i + limbs] resp.
   r[LIMBS - 1 - i - limbs], the closure `.iter().any(|&x| x != 0)` over a sub-slice, short-circuit
   `||`, apply_mask) equal Model/Shift.v on every well-formed Uint<BITS, LIMBS>. *)
From Coq Require Import ZArith List Bool Lia.
From RV.Model Require Import Base Word.
From RV.Model Require Shift.
From RV.Gen Require Import Prim Scalar.
From RV.Proofs Require Import BaseFacts PfGenScalar PfGenAdd PfGenMul.
Import ListNotations.
Local Open Scope Z_scope.

Lemma chksh_ok' w s : 0 <= s < w -> chksh w s = Val s.
Proof. intros H. unfold chksh. replace ((0 <=? s) && (s <? w)) with true by lia. reflexivity. Qed.

(* ---------- overflowing_shl ---------- *)
Definition shl_body (self : list Z) (limbs bits : Z) : Z -> (list Z * Z) -> outcome (list Z * Z) :=
  fun i t_10 => let '(r, carry) := t_10 in do t_2 <- idx self i ; let x := t_2 in
    do t_5 <- chksh 64 bits ; let t_4 := (Z.lor ((shl64 x t_5)) carry) in
    do t_3 <- chk64 (i + limbs) ; do _ <- idx r t_3 ; let r := upd r t_3 t_4 in
    do t_6 <- chk64 (64 - bits) ; do t_7 <- chk64 (t_6 - 1) ; do t_8 <- chksh 64 t_7 ;
    let carry := (shr64 ((shr64 x t_8)) 1) in
    Val (r, carry).

Lemma g_overflowing_shl_unfold BITS LIMBS self rhs :
  g_overflowing_shl BITS LIMBS self rhs =
  (let '(limbs, bits) := ((rhs / 64), (rhs mod 64)) in
   if (LIMBS <=? limbs) then ( Val ((uZERO BITS), (negb (list_eqb Z.eqb self ((uZERO BITS)))))) else
   do t_1 <- chk64 (LIMBS - limbs) ; do t_9 <- for_range 0 t_1 (uZERO BITS, 0) (shl_body self limbs bits) ;
   let '(r, carry) := t_9 in
   do t_13 <- (if (negb (carry =? 0)) then Val true else
               (do t_11 <- chk64 (LIMBS - limbs) ; do t_12 <- subslice self t_11 ((lenZ self)) ;
                Val (existsb (fun x => (negb (x =? 0))) t_12))) ;
   do t_17 <- (if t_13 then Val true else
               (do t_14 <- chk64 (LIMBS - 1) ; do t_15 <- idx r t_14 ; do t_16 <- g_mask BITS ; Val (t_16 <? t_15))) ;
   let overflow := t_17 in
   do t_18 <- g_apply_mask BITS LIMBS r ; let t_19 := t_18 in let r := t_19 in
   Val (r, overflow)).
Proof. reflexivity. Qed.

Lemma shl_loop_eq q sb xs : forall sd hd zs tail c,
  0 <= sb < 64 -> length hd = length sd -> (length xs <= length zs)%nat ->
  Z.of_nat (q + length sd + length xs) < B ->
  for_loop (length xs) (Z.of_nat (length sd)) (repeat 0 q ++ hd ++ zs, c)
           (shl_body (sd ++ xs ++ tail) (Z.of_nat q) sb)
  = Val (repeat 0 q ++ hd ++ fst (Shift.shl_loop xs sb c) ++ skipn (length xs) zs,
         snd (Shift.shl_loop xs sb c)).
Proof.
  induction xs as [|x xs IH]; intros sd hd zs tail c Hsb Hh Hz HB.
  - cbn [length for_loop Shift.shl_loop fst snd skipn app]. reflexivity.
  - destruct zs as [|z zs]; [cbn in Hz; lia|]. cbn [length] in *.
    cbn [for_loop Shift.shl_loop]. unfold shl_body at 1. cbv beta iota zeta.
    change (sd ++ (x :: xs) ++ tail) with (sd ++ x :: (xs ++ tail)).
    rewrite idx_app_mid. cbn [obind].
    rewrite chksh_ok' by lia. cbn [obind].
    rewrite chk64_ok by lia. cbn [obind].
    assert (Ei : Z.of_nat (length sd) + Z.of_nat q = Z.of_nat (length (repeat 0 q ++ hd))).
    { rewrite app_length, repeat_length. lia. }
    rewrite Ei. rewrite (app_assoc (repeat 0 q) hd (z :: zs)).
    rewrite idx_app_mid. cbn [obind]. rewrite upd_app_mid.
    rewrite chk64_ok by (rewrite B_val; lia). cbn [obind].
    rewrite chk64_ok by (rewrite B_val; lia). cbn [obind].
    rewrite chksh_ok' by lia. cbn [obind].
    replace (sd ++ x :: (xs ++ tail)) with ((sd ++ [x]) ++ xs ++ tail) by (rewrite <- app_assoc; reflexivity).
    replace (Z.of_nat (length sd) + 1) with (Z.of_nat (length (sd ++ [x]))) by (rewrite app_length; cbn [length]; lia).
    set (v := Z.lor (shl64 x sb) c). set (c' := shr64 (shr64 x (64 - sb - 1)) 1).
    replace ((repeat 0 q ++ hd) ++ v :: zs) with (repeat 0 q ++ (hd ++ [v]) ++ zs)
      by (rewrite <- !app_assoc; reflexivity).
    rewrite (IH (sd ++ [x]) (hd ++ [v]) zs tail c' Hsb
               ltac:(rewrite !app_length; cbn [length]; lia) ltac:(lia)
               ltac:(rewrite app_length; cbn [length]; lia)).
    destruct (Shift.shl_loop xs sb c') as [rs cf]. cbn [fst snd skipn].
    rewrite <- !app_assoc. reflexivity.
Qed.

Lemma idx_last_nonempty (l : list Z) : l <> [] -> idx l (Z.of_nat (length l) - 1) = Val (last l 0).
Proof.
  intros H. destruct (exists_last H) as (l' & x & ->). rewrite last_last.
  rewrite app_length. cbn [length]. replace (Z.of_nat (length l' + 1) - 1) with (Z.of_nat (length l')) by lia.
  apply idx_app_mid.
Qed.

Theorem g_overflowing_shl_eq bits a rhs :
  0 <= bits -> nlimbs bits < B -> length a = nlimbsN bits -> 0 <= rhs ->
  g_overflowing_shl bits (nlimbs bits) a rhs = Val (Shift.overflowing_shl bits a rhs).
Proof.
  intros Hb HB Hla Hr. rewrite g_overflowing_shl_unfold. unfold Shift.overflowing_shl. cbv zeta.
  pose proof (Z.div_pos rhs 64 Hr ltac:(lia)) as Hq. pose proof (Z.mod_pos_bound rhs 64 ltac:(lia)) as Hsb.
  pose proof (nlimbs_nonneg bits Hb) as HL.
  set (L := nlimbs bits) in *. set (q := rhs / 64) in *. set (sb := rhs mod 64) in *.
  destruct (Z.leb_spec L q); [reflexivity|].
  rewrite !(chk64_ok (L - q)) by lia. cbn [obind].
  unfold for_range. replace (Z.to_nat (L - q - 0)) with (Z.to_nat (L - q)) by lia.
  set (n := Z.to_nat (L - q)).
  assert (HlaN : length a = Z.to_nat L) by (rewrite Hla; reflexivity).
  assert (Hn : (n <= length a)%nat) by (unfold n; lia).
  assert (Esplit : a = [] ++ firstn n a ++ skipn n a) by (cbn [app]; symmetry; apply firstn_skipn).
  assert (Ez : uZERO bits = repeat 0 (Z.to_nat q) ++ [] ++ repeat 0 n).
  { unfold uZERO, zero_limbs. cbn [app]. rewrite <- repeat_app. f_equal. unfold nlimbsN. fold L. unfold n. lia. }
  rewrite Ez. rewrite Esplit at 1.
  pose proof (shl_loop_eq (Z.to_nat q) sb (firstn n a) [] [] (repeat 0 n) (skipn n a) 0 Hsb eq_refl
               ltac:(rewrite firstn_length, repeat_length; lia)
               ltac:(cbn [length]; rewrite firstn_length; lia)) as El.
  rewrite firstn_length in El. replace (Nat.min n (length a)) with n in El by lia.
  cbn [length Z.of_nat] in El. replace (Z.of_nat (Z.to_nat q)) with q in El by lia.
  rewrite El. clear El. cbn [obind app].
  rewrite (skipn_all2 (repeat 0 n)) by (rewrite repeat_length; lia). rewrite app_nil_r.
  destruct (Shift.shl_loop (firstn n a) sb 0) as [hi carry] eqn:Eh. cbn [fst snd].
  set (r := repeat 0 (Z.to_nat q) ++ hi).
  (* lengths *)
  assert (Hlhi : length hi = n).
  { assert (G : forall xs c, length (fst (Shift.shl_loop xs sb c)) = length xs).
    { induction xs as [|x xs IHx]; intros c; [reflexivity|]. cbn [Shift.shl_loop].
      specialize (IHx (shr64 (shr64 x (64 - sb - 1)) 1)).
      destruct (Shift.shl_loop xs sb (shr64 (shr64 x (64 - sb - 1)) 1)). cbn [fst length] in *. lia. }
    specialize (G (firstn n a) 0). rewrite Eh in G. cbn [fst] in G. rewrite G, firstn_length. lia. }
  assert (Hlr : length r = Z.to_nat L) by (unfold r; rewrite app_length, repeat_length; lia).
  unfold Shift.nz, Shift.any_nz.
  replace (Z.of_nat (Z.to_nat q)) with q by lia.
  assert (Esk : subslice a (L - q) (lenZ a) = Val (skipn n a)).
  { unfold subslice, lenZ. replace ((0 <=? L - q) && (L - q <=? Z.of_nat (length a)) && (Z.of_nat (length a) <=? Z.of_nat (length a))) with true by lia.
    f_equal. fold n. apply firstn_all2. rewrite skipn_length. lia. }
  assert (Hrne : r <> []) by (intros E; rewrite E in Hlr; cbn in Hlr; lia).
  assert (Elast : idx r (L - 1) = Val (last r 0)).
  { replace (L - 1) with (Z.of_nat (length r) - 1) by lia. apply idx_last_nonempty. exact Hrne. }
  destruct (negb (carry =? 0)); cbn [obind orb].
  - cbn [obind]. rewrite g_apply_mask_eq by (auto; lia). reflexivity.
  - rewrite Esk. cbn [obind].
    change (existsb (fun x : Z => negb (x =? 0)) (skipn n a)) with (existsb Shift.nz (skipn n a)).
    destruct (existsb Shift.nz (skipn n a)); cbn [obind orb].
    + rewrite g_apply_mask_eq by (auto; lia). reflexivity.
    + rewrite chk64_ok by lia. cbn [obind]. rewrite Elast. cbn [obind].
      rewrite g_mask_eq by exact Hb. cbn [obind].
      rewrite g_apply_mask_eq by (auto; lia). reflexivity.
Qed.

(* ---------- overflowing_shr ---------- *)
Definition shr_body (self : list Z) (LIMBS limbs bits : Z) : Z -> (list Z * Z) -> outcome (list Z * Z) :=
  fun i t_14 => let '(r, carry) := t_14 in
    do t_2 <- chk64 (LIMBS - 1) ; do t_3 <- chk64 (t_2 - i) ; do t_4 <- idx self t_3 ; let x := t_4 in
    do t_9 <- chksh 64 bits ; let t_8 := (Z.lor ((shr64 x t_9)) carry) in
    do t_5 <- chk64 (LIMBS - 1) ; do t_6 <- chk64 (t_5 - i) ; do t_7 <- chk64 (t_6 - limbs) ;
    do _ <- idx r t_7 ; let r := upd r t_7 t_8 in
    do t_10 <- chk64 (64 - bits) ; do t_11 <- chk64 (t_10 - 1) ; do t_12 <- chksh 64 t_11 ;
    let carry := (shl64 ((shl64 x t_12)) 1) in
    Val (r, carry).

Lemma g_overflowing_shr_unfold BITS LIMBS self rhs :
  g_overflowing_shr BITS LIMBS self rhs =
  (let '(limbs, bits) := ((rhs / 64), (rhs mod 64)) in
   if (LIMBS <=? limbs) then ( Val ((uZERO BITS), (negb (list_eqb Z.eqb self ((uZERO BITS)))))) else
   do t_1 <- chk64 (LIMBS - limbs) ; do t_13 <- for_range 0 t_1 (uZERO BITS, 0) (shr_body self LIMBS limbs bits) ;
   let '(r, carry) := t_13 in
   do t_16 <- (if (negb (carry =? 0)) then Val true else
               (do t_15 <- subslice self 0 limbs ; Val (existsb (fun x => (negb (x =? 0))) t_15))) ;
   let overflow := t_16 in
   Val (r, overflow)).
Proof. reflexivity. Qed.

Lemma idx_app_at3 (pre : list Z) x post i : i = Z.of_nat (length pre) -> idx (pre ++ x :: post) i = Val x.
Proof. intros ->. apply idx_app_mid. Qed.
Lemma upd_app_at3 (pre : list Z) x post i v : i = Z.of_nat (length pre) ->
  upd (pre ++ x :: post) i v = pre ++ v :: post.
Proof. intros ->. apply upd_app_mid. Qed.

Lemma shr_loop_eq L q sb lowq rem : forall done zsr wr c,
  0 <= sb < 64 -> length lowq = q -> length zsr = length rem -> length wr = length done ->
  L = Z.of_nat (q + length rem + length done) -> L < B ->
  for_loop (length rem) (Z.of_nat (length done)) (zsr ++ wr ++ repeat 0 q, c)
           (shr_body (lowq ++ rem ++ done) L (Z.of_nat q) sb)
  = Val (rev (fst (Shift.shr_loop (rev rem) sb c)) ++ wr ++ repeat 0 q,
         snd (Shift.shr_loop (rev rem) sb c)).
Proof.
  induction rem as [|x rem IH] using rev_ind; intros done zsr wr c Hsb Hq Hz Hw HL HB.
  - destruct zsr; [|discriminate]. reflexivity.
  - destruct zsr as [|z zsr] using rev_ind; [rewrite app_length in Hz; cbn in Hz; lia|]. clear IHzsr.
    rewrite !app_length in *. cbn [length] in *.
    replace (length rem + 1)%nat with (S (length rem)) by lia. cbn [for_loop].
    rewrite rev_app_distr. cbn [rev app Shift.shr_loop].
    unfold shr_body at 1. cbv beta iota zeta.
    rewrite !(chk64_ok (L - 1)) by lia. cbn [obind].
    rewrite !(chk64_ok (L - 1 - Z.of_nat (length done))) by lia. cbn [obind].
    rewrite <- !app_assoc. cbn [app].
    rewrite (app_assoc lowq rem (x :: done)).
    rewrite (idx_app_at3 (lowq ++ rem) x done) by (rewrite app_length; lia). cbn [obind].
    rewrite chksh_ok' by lia. cbn [obind].
    rewrite chk64_ok by lia. cbn [obind].
    rewrite (idx_app_at3 zsr z (wr ++ repeat 0 q)) by lia. cbn [obind].
    rewrite (upd_app_at3 zsr z (wr ++ repeat 0 q)) by lia.
    rewrite chk64_ok by (rewrite B_val; lia). cbn [obind].
    rewrite chk64_ok by (rewrite B_val; lia). cbn [obind].
    rewrite chksh_ok' by lia. cbn [obind].
    set (v := Z.lor (shr64 x sb) c). set (c' := shl64 (shl64 x (64 - sb - 1)) 1).
    replace (Z.of_nat (length done) + 1) with (Z.of_nat (length (x :: done))) by (cbn [length]; lia).
    rewrite <- (app_assoc lowq rem (x :: done)).
    change (zsr ++ v :: wr ++ repeat 0 q) with (zsr ++ (v :: wr) ++ repeat 0 q).
    rewrite (IH (x :: done) zsr (v :: wr) c' Hsb Hq ltac:(lia) ltac:(cbn [length]; lia)
               ltac:(cbn [length]; lia) HB).
    destruct (Shift.shr_loop (rev rem) sb c') as [rs cf]. cbn [fst snd rev].
    rewrite <- !app_assoc. reflexivity.
Qed.

Theorem g_overflowing_shr_eq bits a rhs :
  0 <= bits -> nlimbs bits < B -> length a = nlimbsN bits -> 0 <= rhs ->
  g_overflowing_shr bits (nlimbs bits) a rhs = Val (Shift.overflowing_shr bits a rhs).
Proof.
  intros Hb HB Hla Hr. rewrite g_overflowing_shr_unfold. unfold Shift.overflowing_shr. cbv zeta.
  pose proof (Z.div_pos rhs 64 Hr ltac:(lia)) as Hq. pose proof (Z.mod_pos_bound rhs 64 ltac:(lia)) as Hsb.
  pose proof (nlimbs_nonneg bits Hb) as HL.
  set (L := nlimbs bits) in *. set (q := rhs / 64) in *. set (sb := rhs mod 64) in *.
  destruct (Z.leb_spec L q); [reflexivity|].
  rewrite !(chk64_ok (L - q)) by lia. cbn [obind].
  unfold for_range. replace (Z.to_nat (L - q - 0)) with (Z.to_nat (L - q)) by lia.
  set (qn := Z.to_nat q). set (n := Z.to_nat (L - q)).
  assert (HlaN : length a = Z.to_nat L) by (rewrite Hla; reflexivity).
  assert (Esplit : a = firstn qn a ++ skipn qn a ++ []) by (rewrite app_nil_r; symmetry; apply firstn_skipn).
  assert (Hlsk : length (skipn qn a) = n) by (rewrite skipn_length; unfold n, qn; lia).
  assert (Ez : uZERO bits = repeat 0 n ++ [] ++ repeat 0 qn).
  { unfold uZERO, zero_limbs. cbn [app]. rewrite <- repeat_app. f_equal. unfold nlimbsN. fold L. unfold n, qn. lia. }
  rewrite Ez. rewrite Esplit at 1.
  pose proof (shr_loop_eq L qn sb (firstn qn a) (skipn qn a) [] (repeat 0 n) [] 0 Hsb
               ltac:(rewrite firstn_length; unfold qn; lia)
               ltac:(rewrite repeat_length; lia) eq_refl
               ltac:(cbn [length]; rewrite Hlsk; unfold n, qn; lia) HB) as El.
  rewrite Hlsk in El. cbn [length Z.of_nat] in El.
  replace (Z.of_nat qn) with q in El by (unfold qn; lia).
  rewrite El. clear El. cbn [obind app].
  destruct (Shift.shr_loop (rev (skipn qn a)) sb 0) as [lo_rev carry]. cbn [fst snd].
  unfold Shift.nz, Shift.any_nz.
  assert (Efq : subslice a 0 q = Val (firstn qn a)).
  { unfold subslice, lenZ. replace ((0 <=? 0) && (0 <=? q) && (q <=? Z.of_nat (length a))) with true by lia.
    replace (Z.to_nat (q - 0)) with qn by (unfold qn; lia). reflexivity. }
  destruct (negb (carry =? 0)); cbn [obind orb]; [reflexivity|].
  rewrite Efq. cbn [obind]. reflexivity.
Qed.

(* ---------- the thin wrappers ---------- *)
Theorem g_shift_wrappers_eq bits a rhs :
  0 <= bits -> nlimbs bits < B -> length a = nlimbsN bits -> 0 <= rhs ->
  g_checked_shl bits (nlimbs bits) a rhs = Val (Shift.checked_shl bits a rhs) /\
  g_saturating_shl bits (nlimbs bits) a rhs = Val (Shift.saturating_shl bits a rhs) /\
  g_wrapping_shl bits (nlimbs bits) a rhs = Val (Shift.wrapping_shl bits a rhs) /\
  g_checked_shr bits (nlimbs bits) a rhs = Val (Shift.checked_shr bits a rhs) /\
  g_wrapping_shr bits (nlimbs bits) a rhs = Val (Shift.wrapping_shr bits a rhs).
Proof.
  intros Hb HB Hla Hr.
  unfold g_checked_shl, g_saturating_shl, g_wrapping_shl, g_checked_shr, g_wrapping_shr,
         Shift.checked_shl, Shift.saturating_shl, Shift.wrapping_shl, Shift.checked_shr, Shift.wrapping_shr,
         Shift.checked_of.
  rewrite !(g_overflowing_shl_eq bits a rhs Hb HB Hla Hr), !(g_overflowing_shr_eq bits a rhs Hb HB Hla Hr).
  cbn [obind].
  destruct (Shift.overflowing_shl bits a rhs) as [v1 [|]]; destruct (Shift.overflowing_shr bits a rhs) as [v2 [|]];
    cbn [obind fst]; repeat split; reflexivity.
Qed.

(* ====================== bit operators, arithmetic_shr, rotations ====================== *)
From RV.Model Require Bits.
From RV.Proofs Require PfGenLimbs PfGenBits PfModelsAgree.

Lemma map_last_length f (l : list Z) : length (map_last f l) = length l.
Proof.
  induction l as [|x l IH]; [reflexivity|]. destruct l as [|y l]; [reflexivity|].
  change (map_last f (x :: y :: l)) with (x :: map_last f (y :: l)). cbn [length] in *. lia.
Qed.
Lemma masked_length bits l : length (masked bits l) = length l.
Proof. unfold masked. destruct (should_mask bits); [apply map_last_length | reflexivity]. Qed.
Lemma shl_loop_length sb xs : forall c, length (fst (Shift.shl_loop xs sb c)) = length xs.
Proof.
  induction xs as [|x xs IH]; intros c; [reflexivity|]. cbn [Shift.shl_loop].
  specialize (IH (shr64 (shr64 x (64 - sb - 1)) 1)).
  destruct (Shift.shl_loop xs sb (shr64 (shr64 x (64 - sb - 1)) 1)). cbn [fst length] in *. lia.
Qed.
Lemma shr_loop_length sb xs : forall c, length (fst (Shift.shr_loop xs sb c)) = length xs.
Proof.
  induction xs as [|x xs IH]; intros c; [reflexivity|]. cbn [Shift.shr_loop].
  specialize (IH (shl64 (shl64 x (64 - sb - 1)) 1)).
  destruct (Shift.shr_loop xs sb (shl64 (shl64 x (64 - sb - 1)) 1)). cbn [fst length] in *. lia.
Qed.

Lemma wrapping_shl_length bits a rhs : 0 <= bits -> length a = nlimbsN bits -> 0 <= rhs ->
  length (Shift.wrapping_shl bits a rhs) = nlimbsN bits.
Proof.
  intros Hb Hl Hr. unfold Shift.wrapping_shl, Shift.overflowing_shl. cbv zeta.
  pose proof (Z.div_pos rhs 64 Hr ltac:(lia)) as Hq. pose proof (nlimbs_nonneg bits Hb) as HL.
  destruct (Z.leb_spec (nlimbs bits) (rhs / 64)); [cbn [fst]; apply PfGenAdd.uZERO_length|].
  pose proof (shl_loop_length (rhs mod 64) (firstn (Z.to_nat (nlimbs bits - rhs / 64)) a) 0) as Hlen.
  destruct (Shift.shl_loop (firstn (Z.to_nat (nlimbs bits - rhs / 64)) a) (rhs mod 64) 0) as [hi c]. cbn [fst] in *.
  rewrite masked_length, app_length, repeat_length, Hlen, firstn_length, Hl. unfold nlimbsN. lia.
Qed.
Lemma wrapping_shr_length bits a rhs : 0 <= bits -> length a = nlimbsN bits -> 0 <= rhs ->
  length (Shift.wrapping_shr bits a rhs) = nlimbsN bits.
Proof.
  intros Hb Hl Hr. unfold Shift.wrapping_shr, Shift.overflowing_shr. cbv zeta.
  pose proof (Z.div_pos rhs 64 Hr ltac:(lia)) as Hq. pose proof (nlimbs_nonneg bits Hb) as HL.
  destruct (Z.leb_spec (nlimbs bits) (rhs / 64)); [cbn [fst]; apply PfGenAdd.uZERO_length|].
  pose proof (shr_loop_length (rhs mod 64) (rev (skipn (Z.to_nat (rhs / 64)) a)) 0) as Hlen.
  destruct (Shift.shr_loop (rev (skipn (Z.to_nat (rhs / 64)) a)) (rhs mod 64) 0) as [lo c]. cbn [fst] in *.
  rewrite app_length, rev_length, repeat_length, Hlen, rev_length, skipn_length, Hl. unfold nlimbsN. lia.
Qed.

(* `for i in 0..LIMBS { u64::op_assign(&mut self.limbs[i], rhs.limbs[i]) }` for op in | & ^ *)
Section BitOp.
  Variable f : Z -> Z -> Z.
  Variable g_assign : Z -> Z -> list Z -> list Z -> outcome (list Z).
  Hypothesis g_assign_def : forall BITS LIMBS self rhs,
    g_assign BITS LIMBS self rhs =
    (do t_4 <- for_range 0 LIMBS self (fun i t_5 => let 'self := t_5 in
        do t_2 <- idx self i ; do t_3 <- idx rhs i ; let t_1 := (f t_2 t_3) in
        do _ <- idx self i ; let self := upd self i t_1 in Val self) ;
     let 'self := t_4 in Val self).

  Definition bop_step (b : list Z) (k : nat) (x : Z) (u : unit) : Z * unit := (f x (nth k b 0), tt).

  Lemma op_assign_iloop b l : forall k, (k + length l <= length b)%nat ->
    Bits.op_assign f l (skipn k b) = Val (fst (PfGenLimbs.iloop unit (bop_step b) k l tt)).
  Proof.
    induction l as [|x l IH]; intros k H; [reflexivity|]. cbn [length] in H.
    rewrite PfGenLimbs.skipn_nth_cons by lia. cbn [Bits.op_assign PfGenLimbs.iloop].
    rewrite (IH (S k)) by lia. cbn [obind]. unfold bop_step at 2.
    destruct (PfGenLimbs.iloop unit (bop_step b) (S k) l tt) as [rs []]. reflexivity.
  Qed.

  Lemma g_assign_eq bits a b : 0 <= bits -> length a = nlimbsN bits -> length b = nlimbsN bits ->
    g_assign bits (nlimbs bits) a b = Bits.op_assign f a b.
  Proof.
    intros Hb Hla Hlb. rewrite g_assign_def. unfold for_range.
    replace (Z.to_nat (nlimbs bits - 0)) with (length a) by (rewrite Hla; unfold nlimbsN; lia).
    pose proof (PfGenLimbs.idx_loop (list Z) unit (fun l _ => l) (bop_step b) (fun _ => True) (fun _ => True)
                  (length b)
                  (fun i t_5 => let 'self := t_5 in
                     do t_2 <- idx self i ; do t_3 <- idx b i ; let t_1 := (f t_2 t_3) in
                     do _ <- idx self i ; let self := upd self i t_1 in Val self)) as L.
    destruct (L ltac:(
      intros pre x post s Hk _ _; cbv beta iota zeta; rewrite idx_app_mid; cbn [obind];
      rewrite PfGenLimbs.idx_nth by exact Hk; cbn [obind]; rewrite ?idx_app_mid; cbn [obind];
      rewrite upd_app_mid; unfold bop_step; cbn [fst snd]; split; [reflexivity | exact I])
      a [] tt ltac:(cbn [length]; lia) I ltac:(apply Forall_forall; intros; exact I)) as [E _].
    cbn [length app Z.of_nat] in E. rewrite E. cbn [obind].
    pose proof (op_assign_iloop b a 0%nat ltac:(cbn; lia)) as E2. cbn [skipn] in E2. rewrite E2. reflexivity.
  Qed.

  Lemma op_assign_length a : forall b r, Bits.op_assign f a b = Val r -> length r = length a.
  Proof.
    induction a as [|x a IH]; intros b r E; [cbn in E; injection E as <-; reflexivity|].
    destruct b as [|y b]; [discriminate|]. cbn [Bits.op_assign] in E.
    destruct (Bits.op_assign f a b) as [t| | | |] eqn:Et; cbn [obind] in E; try discriminate.
    injection E as <-. cbn [length]. f_equal. apply (IH b t Et).
  Qed.
End BitOp.

Lemma op_assign_lor_bitor a : forall b, length a = length b -> Bits.op_assign Z.lor a b = Val (Shift.bitor a b).
Proof.
  induction a as [|x a IH]; intros [|y b] H; try discriminate; [reflexivity|].
  cbn [Bits.op_assign Shift.bitor]. rewrite IH by (cbn in H; lia). reflexivity.
Qed.

Theorem g_bit_ops_eq bits a b : 0 <= bits -> length a = nlimbsN bits -> length b = nlimbsN bits ->
  g_bitor_assign bits (nlimbs bits) a b = Bits.op_assign Z.lor a b /\
  g_bitand_assign bits (nlimbs bits) a b = Bits.op_assign Z.land a b /\
  g_bitxor_assign bits (nlimbs bits) a b = Bits.op_assign Z.lxor a b /\
  g_bitor bits (nlimbs bits) a b = Bits.op_assign Z.lor a b /\
  g_bitand bits (nlimbs bits) a b = Bits.op_assign Z.land a b /\
  g_bitxor bits (nlimbs bits) a b = Bits.op_assign Z.lxor a b.
Proof.
  intros Hb Hla Hlb.
  pose proof (g_assign_eq Z.lor g_bitor_assign ltac:(reflexivity) bits a b Hb Hla Hlb) as E1.
  pose proof (g_assign_eq Z.land g_bitand_assign ltac:(reflexivity) bits a b Hb Hla Hlb) as E2.
  pose proof (g_assign_eq Z.lxor g_bitxor_assign ltac:(reflexivity) bits a b Hb Hla Hlb) as E3.
  unfold g_bitor, g_bitand, g_bitxor. rewrite E1, E2, E3.
  repeat split; try reflexivity.
  - destruct (Bits.op_assign Z.lor a b); reflexivity.
  - destruct (Bits.op_assign Z.land a b); reflexivity.
  - destruct (Bits.op_assign Z.lxor a b); reflexivity.
Qed.

Lemma uMAX_length bits : length (uMAX bits) = nlimbsN bits.
Proof. unfold uMAX. rewrite masked_length, repeat_length. reflexivity. Qed.

Theorem g_arith_rot_eq bits a rhs :
  0 < bits -> bits < B -> nlimbs bits < B -> length a = nlimbsN bits -> 0 <= rhs ->
  g_arithmetic_shr bits (nlimbs bits) a rhs = Val (Shift.arithmetic_shr bits a rhs) /\
  g_rotate_left bits (nlimbs bits) a rhs = Val (Shift.rotate_left bits a rhs) /\
  g_rotate_right bits (nlimbs bits) a rhs = Val (Shift.rotate_right bits a rhs).
Proof.
  intros Hb HbB HB Hla Hr.
  assert (Hb0 : 0 <= bits) by lia.
  assert (Hrot : forall r, 0 <= r -> g_rotate_left bits (nlimbs bits) a r = Val (Shift.rotate_left bits a r)).
  { intros r Hr0. unfold g_rotate_left, Shift.rotate_left.
    destruct (Z.eqb_spec bits 0); [lia|].
    unfold chkdiv. destruct (Z.eqb_spec bits 0); [lia|]. cbn [obind]. cbv zeta.
    pose proof (Z.mod_pos_bound r bits Hb) as Hm.
    destruct (g_shift_wrappers_eq bits a (r mod bits) Hb0 HB Hla ltac:(lia)) as (_ & _ & Ewl & _ & _).
    rewrite Ewl. cbn [obind]. rewrite chk64_ok by lia. cbn [obind].
    destruct (g_shift_wrappers_eq bits a (bits - r mod bits) Hb0 HB Hla ltac:(lia)) as (_ & _ & _ & _ & Ewr).
    rewrite Ewr. cbn [obind].
    destruct (g_bit_ops_eq bits (Shift.wrapping_shl bits a (r mod bits)) (Shift.wrapping_shr bits a (bits - r mod bits)) Hb0
                ltac:(apply wrapping_shl_length; auto; lia) ltac:(apply wrapping_shr_length; auto; lia))
      as (_ & _ & _ & Eor & _ & _).
    rewrite Eor. rewrite op_assign_lor_bitor
      by (rewrite wrapping_shl_length, wrapping_shr_length by (auto; lia); reflexivity).
    reflexivity. }
  split; [|split].
  - unfold g_arithmetic_shr, Shift.arithmetic_shr. destruct (Z.eqb_spec bits 0); [lia|].
    rewrite chk64_ok by lia. cbn [obind].
    rewrite PfGenBits.g_bit_eq by lia.
    rewrite (PfModelsAgree.agree_shift_bit bits a (bits - 1) Hb0 Hla ltac:(lia)). cbn [obind].
    destruct (g_shift_wrappers_eq bits a rhs Hb0 HB Hla Hr) as (_ & _ & _ & _ & Ewr).
    rewrite Ewr. cbn [obind]. unfold Shift.shr_prim, Shift.shl_prim.
    destruct (Shift.bit bits a (bits - 1)); cbn [obind]; [|reflexivity].
    destruct (g_shift_wrappers_eq bits (uMAX bits) (Z.max 0 (bits - rhs)) Hb0 HB (uMAX_length bits) ltac:(lia))
      as (_ & _ & Ewl & _ & _).
    rewrite Ewl. cbn [obind].
    destruct (g_bit_ops_eq bits (Shift.wrapping_shr bits a rhs) (Shift.wrapping_shl bits (uMAX bits) (Z.max 0 (bits - rhs))) Hb0
                ltac:(apply wrapping_shr_length; auto) ltac:(apply wrapping_shl_length; auto using uMAX_length; lia))
      as (_ & _ & _ & Eor & _ & _).
    rewrite Eor. rewrite op_assign_lor_bitor
      by (rewrite wrapping_shl_length, wrapping_shr_length by (auto using uMAX_length; lia); reflexivity).
    reflexivity.
  - apply Hrot. exact Hr.
  - unfold g_rotate_right, Shift.rotate_right. destruct (Z.eqb_spec bits 0); [lia|].
    unfold chkdiv. destruct (Z.eqb_spec bits 0); [lia|]. cbn [obind]. cbv zeta.
    pose proof (Z.mod_pos_bound rhs bits Hb) as Hm.
    rewrite chk64_ok by lia. cbn [obind]. rewrite Hrot by lia. reflexivity.
Qed.

(* ====================== leading_zeros / leading_ones / bit_len / byte_len ====================== *)
Definition lz_body (BITS LIMBS : Z) (self : list Z) : Z -> unit -> outcome (ctl unit Z) :=
  fun i t_10 => do t_1 <- idx self i ; if (negb (t_1 =? 0)) then (
      do t_2 <- chk64 (LIMBS - 1) ; do t_3 <- chk64 (t_2 - i) ; let n := t_3 in
      do t_4 <- chk64 (n * 64) ; let skipped := t_4 in
      do t_5 <- g_mask BITS ; let fixed := (clz64 t_5) in
      do t_6 <- idx self i ; let top := (clz64 t_6) in
      do t_7 <- chk64 (skipped + top) ; do t_8 <- chk64 (t_7 - fixed) ; Val (Ret t_8)) else
    Val (Cont tt).

Lemma g_leading_zeros_unfold BITS LIMBS self :
  g_leading_zeros BITS LIMBS self =
  (do t_9 <- for_down_ret (Z.to_nat LIMBS) tt (lz_body BITS LIMBS self) ;
   match t_9 with Ret r_ => Val r_ | Cont _ => Val BITS end).
Proof. reflexivity. Qed.

Lemma clz64_range x : inW x -> 0 <= clz64 x <= 64.
Proof.
  intros Hx. unfold clz64. destruct (Z.eqb_spec x 0); [lia|]. pose proof (Z.log2_nonneg x).
  assert (Z.log2 x < 64). { apply Z.log2_lt_pow2; [unfold inW in Hx; lia|]. rewrite <- B_pow. unfold inW in Hx. lia. }
  lia.
Qed.
Lemma mask_inW bits : inW (mask bits).
Proof.
  unfold mask, inW. destruct (bits =? 0); [rewrite B_val; lia|].
  destruct (Z.eqb_spec (bits mod 64) 0); [rewrite B_val; lia|].
  pose proof (Z.mod_pos_bound bits 64 ltac:(lia)).
  assert (0 < 2 ^ (bits mod 64)) by (apply Z.pow_pos_nonneg; lia).
  assert (2 ^ (bits mod 64) <= 2 ^ 64) by (apply Z.pow_le_mono_r; lia). rewrite B_pow. lia.
Qed.

Lemma lz_loop_eq bits L p : forall tail,
  0 <= bits -> L = Z.of_nat (length p + length tail) -> 64 * L < B -> Forall inW p ->
  (do c <- for_down_ret (length p) tt (lz_body bits L (p ++ tail)) ;
   match c with Ret r_ => Val r_ | Cont _ => Val bits end)
  = Bits.lz_loop bits (rev p) (Z.of_nat (length tail)).
Proof.
  induction p as [|x p IH] using rev_ind; intros tail Hb HL HB Hw.
  - reflexivity.
  - apply Forall_app in Hw. destruct Hw as [Hw Hx]. pose proof (Forall_inv Hx) as Hx'.
    rewrite app_length in *. cbn [length] in *. replace (length p + 1)%nat with (S (length p)) by lia. cbn [for_down_ret].
    rewrite rev_app_distr. cbn [rev app Bits.lz_loop].
    unfold lz_body at 1. rewrite <- app_assoc. cbn [app].
    rewrite !idx_app_mid. cbn [obind]. unfold Bits.nonzero.
    destruct (negb (x =? 0)).
    + rewrite chk64_ok by lia. cbn [obind]. rewrite chk64_ok by lia. cbn [obind].
      replace (L - 1 - Z.of_nat (length p)) with (Z.of_nat (length tail)) by lia.
      rewrite chk64_ok by lia. cbn [obind]. rewrite g_mask_eq by exact Hb. cbn [obind].
      pose proof (clz64_range x Hx'). pose proof (clz64_range (mask bits) (mask_inW bits)).
      assert (Hcx : clz64 x <= 64) by lia.
      rewrite chk64_ok by (rewrite B_val in *; lia). cbn [obind].
      unfold Bits.usub, chk64.
      destruct (Z.ltb_spec (Z.of_nat (length tail) * 64 + clz64 x) (clz64 (mask bits))).
      * replace ((0 <=? Z.of_nat (length tail) * 64 + clz64 x - clz64 (mask bits)) &&
                 (Z.of_nat (length tail) * 64 + clz64 x - clz64 (mask bits) <? B)) with false by lia. reflexivity.
      * replace ((0 <=? Z.of_nat (length tail) * 64 + clz64 x - clz64 (mask bits)) &&
                 (Z.of_nat (length tail) * 64 + clz64 x - clz64 (mask bits) <? B)) with true
          by (rewrite B_val in *; lia). reflexivity.
    + cbn [obind].
      replace (Z.of_nat (length tail) + 1) with (Z.of_nat (length (x :: tail))) by (cbn [length]; lia).
      apply IH; auto. cbn [length]. lia.
Qed.

Lemma lz_loop_range bits ms : forall n r, 0 <= bits -> Bits.lz_loop bits ms n = Val r -> 0 <= r.
Proof.
  induction ms as [|x ms IH]; intros n r Hb E.
  - cbn in E. injection E as <-. exact Hb.
  - cbn [Bits.lz_loop] in E. destruct (Bits.nonzero x).
    + unfold Bits.usub in E. destruct (n * 64 + clz64 x <? clz64 (mask bits)) eqn:El; [discriminate|].
      injection E as <-. lia.
    + apply (IH (n + 1) r Hb E).
Qed.

Lemma land_inW y m : inW y -> 0 <= m -> inW (Z.land y m).
Proof.
  unfold inW. intros Hy Hm. split; [apply Z.land_nonneg; lia|].
  destruct (Z.eq_dec (Z.land y m) 0) as [->|N]; [pose proof B_pos; lia|].
  assert (0 <= Z.land y m) by (apply Z.land_nonneg; lia).
  rewrite B_pow. apply Z.log2_lt_pow2; [lia|].
  pose proof (Z.log2_land y m ltac:(lia) Hm).
  assert (y <> 0) by (intros ->; rewrite Z.land_0_l in N; congruence).
  assert (Z.log2 y < 64) by (apply Z.log2_lt_pow2; [lia | rewrite <- B_pow; lia]). lia.
Qed.

Theorem g_lz_family_eq bits a :
  0 <= bits -> bits + 7 < B -> 64 * nlimbs bits < B -> length a = nlimbsN bits -> Forall inW a ->
  g_leading_zeros bits (nlimbs bits) a = Bits.leading_zeros bits a /\
  g_leading_ones bits (nlimbs bits) a = Bits.leading_ones bits a /\
  g_bit_len bits (nlimbs bits) a = Bits.bit_len bits a /\
  g_byte_len bits (nlimbs bits) a = Bits.byte_len bits a.
Proof.
  intros Hb HbB HB Hla Hw. pose proof (nlimbs_nonneg bits Hb) as HL.
  assert (Hlz : forall l, length l = nlimbsN bits -> Forall inW l ->
            g_leading_zeros bits (nlimbs bits) l = Bits.leading_zeros bits l).
  { intros l Hl Hwl. rewrite g_leading_zeros_unfold. unfold Bits.leading_zeros.
    replace (Z.to_nat (nlimbs bits)) with (length l) by (rewrite Hl; reflexivity).
    pose proof (lz_loop_eq bits (nlimbs bits) l [] Hb ltac:(cbn [length]; rewrite Hl; unfold nlimbsN; lia) HB Hwl) as E.
    rewrite app_nil_r in E. exact E. }
  assert (Hbl : g_bit_len bits (nlimbs bits) a = Bits.bit_len bits a).
  { unfold g_bit_len, Bits.bit_len. rewrite (Hlz a Hla Hw).
    destruct (Bits.leading_zeros bits a) as [lz| | | |] eqn:El; cbn [obind]; try reflexivity.
    pose proof (lz_loop_range bits (rev a) 0 lz Hb El) as Hlz0.
    unfold Bits.usub, chk64. destruct (Z.ltb_spec bits lz).
    - replace ((0 <=? bits - lz) && (bits - lz <? B)) with false by lia. reflexivity.
    - replace ((0 <=? bits - lz) && (bits - lz <? B)) with true by lia. reflexivity. }
  split; [apply Hlz; assumption|]. split; [|split; [exact Hbl|]].
  - unfold g_leading_ones, Bits.leading_ones.
    rewrite PfGenBits.g_not_eq by (auto; lia). cbn [obind].
    assert (Hln : length (Bits.unot bits a) = nlimbsN bits).
    { unfold Bits.unot. destruct (bits =? 0); [apply PfGenAdd.uZERO_length|].
      rewrite masked_length, map_length. exact Hla. }
    assert (Hwn : Forall inW (Bits.unot bits a)).
    { unfold Bits.unot. destruct (bits =? 0).
      - unfold uZERO, zero_limbs. apply Forall_forall. intros x Hx. apply repeat_spec in Hx. subst.
        unfold inW. pose proof B_pos. lia.
      - unfold masked. destruct (should_mask bits).
        + assert (G : forall l, Forall inW l -> Forall inW (map_last (fun x => Z.land x (mask bits)) l)).
          { induction l as [|y l IHl]; intros Hl; [constructor|]. destruct l as [|z l].
            - cbn. constructor; [|constructor]. inversion Hl; subst.
              apply land_inW; [assumption | pose proof (mask_inW bits) as Hm; unfold inW in Hm; lia].
            - change (map_last (fun x => Z.land x (mask bits)) (y :: z :: l))
                with (y :: map_last (fun x => Z.land x (mask bits)) (z :: l)).
              inversion Hl; subst. constructor; [assumption | apply IHl; assumption]. }
          apply G. apply Forall_forall. intros x Hx. apply in_map_iff in Hx. destruct Hx as (y & <- & Hy).
          rewrite Forall_forall in Hw. specialize (Hw y Hy). unfold Bits.not64, inW in *. rewrite B_val in *. lia.
        + apply Forall_forall. intros x Hx. apply in_map_iff in Hx. destruct Hx as (y & <- & Hy).
          rewrite Forall_forall in Hw. specialize (Hw y Hy). unfold Bits.not64, inW in *. rewrite B_val in *. lia. }
    rewrite (Hlz _ Hln Hwn). destruct (Bits.leading_zeros bits (Bits.unot bits a)); reflexivity.
  - unfold g_byte_len, Bits.byte_len. rewrite Hbl.
    destruct (Bits.bit_len bits a) as [n| | | |] eqn:En; cbn [obind]; try reflexivity.
    unfold Bits.bit_len in En. destruct (Bits.leading_zeros bits a) as [lz| | | |] eqn:El; cbn [obind] in En; try discriminate.
    pose proof (lz_loop_range bits (rev a) 0 lz Hb El) as Hlz0.
    unfold Bits.usub in En. destruct (bits <? lz) eqn:Ec; [discriminate|]. injection En as <-.
    rewrite chk64_ok by lia. reflexivity.
Qed.

(* ====================== special.rs: checked_next_power_of_two, next_power_of_two ====================== *)
Lemma uONE_length bits : length (Bits.uONE bits) = nlimbsN bits.
Proof.
  unfold Bits.uONE. destruct (bits =? 0); [apply uMAX_length|].
  pose proof (PfGenAdd.uZERO_length bits) as H. destruct (uZERO bits) as [|z t]; [exact H | exact H].
Qed.

Theorem g_next_pow2_eq bits a :
  0 <= bits -> bits + 7 < B -> 64 * nlimbs bits < B -> length a = nlimbsN bits -> Forall inW a ->
  g_checked_next_power_of_two bits (nlimbs bits) a = Bits.checked_next_power_of_two bits a /\
  g_next_power_of_two bits (nlimbs bits) a = Bits.next_power_of_two bits a.
Proof.
  intros Hb HbB HB Hla Hw. pose proof (nlimbs_nonneg bits Hb) as HL.
  assert (E1 : g_checked_next_power_of_two bits (nlimbs bits) a = Bits.checked_next_power_of_two bits a).
  { unfold g_checked_next_power_of_two, Bits.checked_next_power_of_two.
    rewrite PfGenBits.g_is_power_of_two_eq by assumption. cbn [obind].
    destruct (Bits.is_power_of_two a); [reflexivity|].
    destruct (g_lz_family_eq bits a Hb HbB HB Hla Hw) as (_ & _ & Ebl & _). rewrite Ebl.
    destruct (Bits.bit_len bits a) as [e| | | |] eqn:Ee; cbn [obind]; try reflexivity.
    destruct (bits <=? e) eqn:Ec; [reflexivity|].
    assert (He : 0 <= e).
    { unfold Bits.bit_len in Ee. destruct (Bits.leading_zeros bits a) as [lz| | | |]; cbn [obind] in Ee; try discriminate.
      unfold Bits.usub in Ee. destruct (bits <? lz) eqn:E2; [discriminate|]. injection Ee as <-. lia. }
    rewrite PfModelsAgree.agree_udiv_uone.
    destruct (g_shift_wrappers_eq bits (Bits.uONE bits) e Hb ltac:(lia) (uONE_length bits) He) as (_ & _ & Ewl & _ & _).
    rewrite Ewl. cbn [obind].
    rewrite (PfModelsAgree.agree_bits_shl_local bits (Bits.uONE bits) e Hb (uONE_length bits)). reflexivity. }
  split; [exact E1|].
  unfold g_next_power_of_two, Bits.next_power_of_two. rewrite E1.
  destruct (Bits.checked_next_power_of_two bits a) as [[v|]| | | |]; reflexivity.
Qed.

(* ---------------- bits.rs: trailing_zeros, trailing_ones ---------------- *)
Lemma iter_position_from_eq p l : forall k, iter_position_from p l k = Bits.position_from p l k.
Proof. induction l as [|x t IH]; intros k; cbn [iter_position_from Bits.position_from]; [reflexivity|]. now rewrite IH. Qed.

Lemma position_from_range p l : forall k n, Bits.position_from p l k = Some n -> k <= n < k + lenZ l.
Proof.
  induction l as [|x t IH]; intros k n; cbn [Bits.position_from]; [discriminate|].
  unfold lenZ; cbn [length]. destruct (p x).
  - intros [= <-]. lia.
  - intros E. apply IH in E. unfold lenZ in E. lia.
Qed.

Lemma ctz_fuel_range n : forall x, 0 <= ctz_fuel n x <= Z.of_nat n.
Proof.
  induction n as [|n IH]; intros x; cbn [ctz_fuel]; [lia|].
  destruct (Z.odd x); [lia|]. specialize (IH (x / 2)). lia.
Qed.
Lemma ctz64_range x : 0 <= ctz64 x <= 64.
Proof. unfold ctz64. destruct (x =? 0); [lia|]. pose proof (ctz_fuel_range 64 x). lia. Qed.

Theorem g_trailing_eq bits a :
  0 <= bits -> 64 * nlimbs bits < B -> length a = nlimbsN bits ->
  g_trailing_zeros bits (nlimbs bits) a = Bits.trailing_zeros bits a /\
  g_trailing_ones bits (nlimbs bits) a = Bits.trailing_ones bits a.
Proof.
  intros Hb HB Hla. pose proof (nlimbs_nonneg bits Hb) as HL.
  assert (Hlen : lenZ a = nlimbs bits) by (unfold lenZ, nlimbsN in *; lia).
  split.
  - unfold g_trailing_zeros, Bits.trailing_zeros, iter_position, Bits.position, Bits.nonzero.
    rewrite iter_position_from_eq.
    destruct (Bits.position_from (fun x => negb (x =? 0)) a 0) as [n|] eqn:Ep; [|reflexivity].
    apply position_from_range in Ep. rewrite chk64_ok by lia. cbn [obind].
    unfold idx, Bits.index. replace ((n <? 0) || (lenZ a <=? n)) with false by lia.
    destruct (nth_error a (Z.to_nat n)) as [x|]; cbn [obind]; [|reflexivity].
    pose proof (ctz64_range x). rewrite chk64_ok by lia. reflexivity.
  - unfold g_trailing_ones, Bits.trailing_ones, iter_position, Bits.position, Bits.cto64, Bits.not64.
    rewrite iter_position_from_eq.
    destruct (Bits.position_from (fun x => negb (x =? B - 1)) a 0) as [n|] eqn:Ep; [|reflexivity].
    apply position_from_range in Ep. rewrite chk64_ok by lia. cbn [obind].
    unfold idx, Bits.index. replace ((n <? 0) || (lenZ a <=? n)) with false by lia.
    destruct (nth_error a (Z.to_nat n)) as [x|]; cbn [obind]; [|reflexivity].
    pose proof (ctz64_range (B - 1 - x)). rewrite chk64_ok by lia. reflexivity.
Qed.

(* ---------------- bits.rs: reverse_bits ---------------- *)
Lemma map_loop (fn : Z -> Z) : forall l pre,
  for_loop (length l) (Z.of_nat (length pre)) (pre ++ l)
    (fun i st => do t <- idx st i ; do _ <- idx st i ; Val (upd st i (fn t)))
  = Val (pre ++ map fn l).
Proof.
  induction l as [|x l IH]; intros pre; cbn [length for_loop map]; [reflexivity|].
  rewrite !PfGenAdd.idx_app_mid. cbn [obind]. rewrite PfGenAdd.upd_app_mid.
  replace (pre ++ fn x :: l) with ((pre ++ [fn x]) ++ l) by (rewrite <- app_assoc; reflexivity).
  replace (Z.of_nat (length pre) + 1) with (Z.of_nat (length (pre ++ [fn x])))
    by (rewrite app_length; cbn [length]; lia).
  rewrite IH, <- app_assoc. reflexivity.
Qed.

Theorem g_reverse_bits_eq bits a :
  0 <= bits -> nlimbs bits < B -> length a = nlimbsN bits ->
  g_reverse_bits bits (nlimbs bits) a = Val (Bits.reverse_bits bits a).
Proof.
  intros Hb HB Hla. unfold g_reverse_bits, Bits.reverse_bits, for_range. cbv zeta.
  replace (Z.to_nat (lenZ (rev a) - 0)) with (length (rev a)) by (unfold lenZ; lia).
  pose proof (map_loop bitrev64 (rev a) []) as HM. cbn [length app Z.of_nat] in HM.
  match goal with |- context [for_loop _ 0 (rev a) ?bd] =>
    assert (EM : for_loop (length (rev a)) 0 (rev a) bd = Val (map bitrev64 (rev a))) by exact HM end.
  rewrite EM. cbn [obind].
  destruct (negb (bits mod 64 =? 0)); [|reflexivity].
  pose proof (Z.mod_pos_bound bits 64 ltac:(lia)) as Hm.
  rewrite chk64_ok by (rewrite B_val; lia). cbn [obind].
  assert (Lr : length (map bitrev64 (rev a)) = nlimbsN bits) by (rewrite map_length, rev_length; exact Hla).
  destruct (g_shift_wrappers_eq bits _ (64 - bits mod 64) Hb HB Lr ltac:(lia)) as (_ & _ & _ & _ & Es).
  rewrite Es. cbn [obind]. rewrite (PfModelsAgree.agree_bits_shr_local bits _ _ Hb Lr). reflexivity.
Qed.

(* ---------------- bits.rs: most_significant_bits ---------------- *)
From RV.Proofs Require PfBits.
Lemma iter_rposition_eq p l : iter_rposition p l = Bits.rposition p l.
Proof. induction l as [|x t IH]; cbn [iter_rposition Bits.rposition]; [reflexivity|]. now rewrite IH. Qed.

Theorem g_most_significant_bits_eq bits a :
  64 * lenZ a < B -> Forall inW a ->
  g_most_significant_bits bits (nlimbs bits) a = Bits.most_significant_bits a.
Proof.
  intros HB Wa. unfold g_most_significant_bits, Bits.most_significant_bits. cbv zeta.
  rewrite iter_rposition_eq. change (fun limb => negb (limb =? 0)) with Bits.nonzero.
  pose proof (PfBits.rposition_spec Bits.nonzero a) as R.
  destruct (Bits.rposition Bits.nonzero a) as [m|].
  2:{ cbn [Z.eqb]. destruct a; reflexivity. }
  destruct R as (j & -> & Hj & Pj & _).
  destruct (Z.eqb_spec (Z.of_nat j) 0) as [E|N]; [destruct a; reflexivity|].
  assert (Hlen : Z.of_nat j < lenZ a) by (unfold lenZ; lia).
  rewrite (PfGenBits.idx_index a (Z.of_nat j)) by lia.
  rewrite chk64_ok by lia. cbn [obind].
  rewrite (PfGenBits.idx_index a (Z.of_nat j - 1)) by lia.
  assert (Ehi : Bits.index a (Z.of_nat j) = Val (nth j a 0)).
  { rewrite <- PfGenBits.idx_index by lia. apply PfGenLimbs.idx_nth. exact Hj. }
  rewrite Ehi. cbn [obind].
  destruct (Bits.index a (Z.of_nat j - 1)) as [lo| | | |]; try reflexivity. cbn [obind].
  set (hi := nth j a 0) in *.
  assert (Whi : inW hi).
  { unfold hi. rewrite Forall_forall in Wa. apply Wa. apply nth_In. exact Hj. }
  assert (Nhi : hi <> 0).
  { unfold Bits.nonzero in Pj. destruct (Z.eqb_spec hi 0); [discriminate | assumption]. }
  pose proof (clz64_range hi Whi) as Rlz.
  assert (Hlz : clz64 hi < 64).
  { unfold clz64. destruct (Z.eqb_spec hi 0); [contradiction|]. pose proof (Z.log2_nonneg hi). lia. }
  destruct (Z.ltb_spec 0 (clz64 hi)).
  - unfold chksh. replace ((0 <=? clz64 hi) && (clz64 hi <? 64)) with true by lia. cbn [obind].
    rewrite chk64_ok by lia. cbn [obind].
    replace ((0 <=? 64 - clz64 hi) && (64 - clz64 hi <? 64)) with true by lia. cbn [obind].
    rewrite chk64_ok by lia. cbn [obind].
    unfold Bits.usub, chk64.
    destruct (Z.ltb_spec (Z.of_nat j * 64) (clz64 hi)).
    + replace (0 <=? Z.of_nat j * 64 - clz64 hi) with false by lia. reflexivity.
    + replace ((0 <=? Z.of_nat j * 64 - clz64 hi) && (Z.of_nat j * 64 - clz64 hi <? B)) with true by lia. reflexivity.
  - cbn [obind]. rewrite chk64_ok by lia. cbn [obind].
    unfold Bits.usub, chk64.
    destruct (Z.ltb_spec (Z.of_nat j * 64) (clz64 hi)).
    + replace (0 <=? Z.of_nat j * 64 - clz64 hi) with false by lia. reflexivity.
    + replace ((0 <=? Z.of_nat j * 64 - clz64 hi) && (Z.of_nat j * 64 - clz64 hi <? B)) with true by lia. reflexivity.
Qed.

(* ---------------- log.rs: checked_log2, log2 ---------------- *)
From RV.Model Require Log Pow.
Theorem g_log2_eq bits a :
  0 <= bits -> bits + 7 < B -> 64 * nlimbs bits < B -> canon bits a ->
  g_checked_log2 bits (nlimbs bits) a = Log.checked_log2 bits a /\
  g_log2 bits (nlimbs bits) a = Log.log2 bits a.
Proof.
  intros Hb HbB HB Ca. pose proof Ca as (La & Wa & _).
  assert (E : g_checked_log2 bits (nlimbs bits) a = Log.checked_log2 bits a).
  { unfold g_checked_log2, Log.checked_log2.
    change (g_is_zero bits (nlimbs bits) a) with (Pow.is_zero bits a).
    destruct (Pow.is_zero bits a); [reflexivity|].
    destruct (g_lz_family_eq bits a Hb HbB HB La Wa) as (_ & _ & Ebl & _). rewrite Ebl.
    rewrite (PfBits.bit_len_spec bits a Hb Ca). cbn [obind].
    pose proof (PfBits.bitlen_nonneg (eval a)). pose proof (PfBits.bitlen_le (eval a) bits (canon_range bits a Hb Ca) Hb).
    unfold Bits.usub, chk64.
    destruct (Z.ltb_spec (RunC06.bitlen (eval a)) 1).
    - replace (0 <=? RunC06.bitlen (eval a) - 1) with false by lia. reflexivity.
    - replace ((0 <=? RunC06.bitlen (eval a) - 1) && (RunC06.bitlen (eval a) - 1 <? B)) with true by lia. reflexivity. }
  split; [exact E|].
  unfold g_log2, Log.log2, Log.expect_opt. rewrite E.
  destruct (Log.checked_log2 bits a) as [[v|]| | | |]; reflexivity.
Qed.
