(* Proofs/PfStr.v — src/string.rs: from_str_radix accepts exactly the documented alphabets and
   returns the denoted value or an applicable error; FromStr sniffs the 0x/0o/0b prefixes. *)
From Coq Require Import ZArith List Bool Lia.
From RV.Model Require Import Base Word Limbs BaseConv Str.
From RV.Proofs Require Import BaseFacts PfPositional PfBaseConv.
From RV.Run Require Import RunC09.
Import ListNotations.
Local Open Scope Z_scope.

(* ---------- the char table of the model = the documented alphabets ---------- *)
Definition item_cls (i : sitem) : cls :=
  match i with SDigit d => CDigit d | SIgnored => CSkip | SInvalid => CBad end.
Definition cls_eqb (a b : cls) : bool :=
  match a, b with
  | CDigit x, CDigit y => x =? y
  | CSkip, CSkip => true
  | CBad, CBad => true
  | _, _ => false
  end.
Lemma cls_eqb_eq a b : cls_eqb a b = true -> a = b.
Proof. destruct a, b; cbn; try discriminate; auto. intros H. apply Z.eqb_eq in H. now subst. Qed.

(* both sides only look at radix through `radix <=? 36` *)
Definition classify_b (small : bool) (c : Z) : cls := classify (if small then 36 else 37) c.
Definition char_item_b (small : bool) (c : Z) : sitem := char_item (if small then 36 else 37) c.
Lemma classify_b_eq radix c : classify radix c = classify_b (radix <=? 36) c.
Proof. unfold classify_b, classify. destruct (radix <=? 36); reflexivity. Qed.
Lemma char_item_b_eq radix c : char_item radix c = char_item_b (radix <=? 36) c.
Proof. unfold char_item_b, char_item. destruct (radix <=? 36); reflexivity. Qed.

Definition ascii : list Z := map Z.of_nat (seq 0 128).
Lemma ascii_in c : 0 <= c < 128 -> In c ascii.
Proof.
  intros H. unfold ascii. apply in_map_iff. exists (Z.to_nat c). split; [lia|].
  apply in_seq. lia.
Qed.

Lemma table_ascii small :
  forallb (fun c => cls_eqb (classify_b small c) (item_cls (char_item_b small c))) ascii = true.
Proof. destruct small; vm_compute; reflexivity. Qed.

Lemma index_of_none c l : Forall (fun x => c <> x) l -> forall i, index_of c l i = None.
Proof.
  induction 1 as [|x t Hx Ht IH]; intros i; cbn [index_of]; [reflexivity|].
  destruct (Z.eqb_spec c x); [contradiction|]. apply IH.
Qed.
Lemma alphabet36_ascii : Forall (fun x => 0 <= x < 128) alphabet36.
Proof. unfold alphabet36. repeat constructor; lia. Qed.
Lemma alphabet64_ascii : Forall (fun x => 0 <= x < 128) alphabet64.
Proof. unfold alphabet64. repeat constructor; lia. Qed.

Lemma table_non_ascii small c : ~ (0 <= c < 128) ->
  classify_b small c = item_cls (char_item_b small c).
Proof.
  intros H.
  assert (N36 : forall i, index_of c alphabet36 i = None).
  { apply index_of_none. eapply Forall_impl; [|apply alphabet36_ascii]. cbn. intros; lia. }
  assert (N64 : forall i, index_of c alphabet64 i = None).
  { apply index_of_none. eapply Forall_impl; [|apply alphabet64_ascii]. cbn. intros; lia. }
  unfold classify_b, char_item_b, classify, char_item, between, lower.
  destruct small.
  - change (36 <=? 36) with true. cbn iota.
    repeat match goal with
           | |- context [?a <=? ?b] => destruct (Z.leb_spec a b); try lia; cbn [andb orb]
           | |- context [?a =? ?b] => destruct (Z.eqb_spec a b); try lia; cbn [andb orb]
           end; rewrite ?N36; reflexivity.
  - change (37 <=? 36) with false. cbn iota.
    repeat match goal with
           | |- context [?a <=? ?b] => destruct (Z.leb_spec a b); try lia; cbn [andb orb]
           | |- context [?a =? ?b] => destruct (Z.eqb_spec a b); try lia; cbn [andb orb]
           end; rewrite ?N64; reflexivity.
Qed.

Theorem classify_item radix c : classify radix c = item_cls (char_item radix c).
Proof.
  rewrite classify_b_eq, char_item_b_eq. set (small := radix <=? 36).
  destruct (Z.le_gt_cases 0 c) as [L|L]; [destruct (Z.lt_ge_cases c 128) as [U|U]|].
  - apply cls_eqb_eq. pose proof (table_ascii small) as T. rewrite forallb_forall in T.
    apply T. apply ascii_in. lia.
  - apply table_non_ascii. lia.
  - apply table_non_ascii. lia.
Qed.

Lemma classify_range radix c d : classify radix c = CDigit d -> 0 <= d < 64.
Proof.
  unfold classify, between.
  repeat match goal with
         | |- context [?a <=? ?b] => destruct (Z.leb_spec a b); cbn [andb orb]
         | |- context [?a =? ?b] => destruct (Z.eqb_spec a b); cbn [andb orb]
         end; intros E; try discriminate; inversion E; lia.
Qed.

Lemma scan_inW radix cs : Forall inW (fst (scan radix cs)).
Proof.
  induction cs as [|c t IH]; cbn [scan]; [constructor|].
  destruct (classify radix c) eqn:E; [|exact IH|constructor].
  destruct (scan radix t) as [ds e]. cbn [fst] in *. constructor; [|exact IH].
  apply classify_range in E. unfold inW. rewrite B_val. lia.
Qed.

(* ---------- the lazily filtered digit stream vs the specification's split ---------- *)
Lemma scan_split radix cs :
  split_text radix cs =
  (fst (split_bad radix (fst (scan radix cs))),
   match snd (split_bad radix (fst (scan radix cs))) with
   | Some d => Some (inr d)
   | None => option_map inl (snd (scan radix cs))
   end).
Proof.
  induction cs as [|c t IH]; cbn [scan split_text]; [reflexivity|].
  rewrite classify_item. destruct (char_item radix c) as [d| |]; cbn [item_cls].
  - destruct (scan radix t) as [ds e] eqn:Es. cbn [fst snd] in *.
    destruct (Z.leb_spec radix d) as [L|L].
    + rewrite split_bad_cons_ge by lia. reflexivity.
    + rewrite split_bad_cons_lt by lia. rewrite IH. reflexivity.
  - exact IH.
  - reflexivity.
Qed.

Theorem from_str_radix_spec bits radix cs : 0 <= bits -> inW radix ->
  exists r, Str.from_str_radix bits cs radix = Val r /\
            spec_parse bits radix cs (Val (pres_toks r)) = true.
Proof.
  intros Hbits Hr. unfold Str.from_str_radix, spec_parse.
  destruct (Z.ltb_spec 64 radix) as [L|L].
  { eexists. split; [reflexivity|]. apply expect_refl. }
  rewrite scan_split. pose proof (scan_inW radix cs) as Hw.
  destruct (scan radix cs) as [ds err]. cbn [fst snd] in *.
  destruct (from_base_be_spec bits radix ds Hbits Hr Hw) as (r0 & E & H1 & H2).
  rewrite E. cbn [obind].
  destruct (Z.ltb_spec radix 2) as [L2|L2].
  { rewrite (H1 L2). eexists. split; [reflexivity|]. apply expect_refl. }
  specialize (H2 L2).
  destruct r0 as [l|[| |d b]]; cbn [conv_ok] in H2.
  - destruct H2 as (S1 & S2 & S3). rewrite S1. cbn [fst snd].
    destruct err as [c|]; (eexists; split; [reflexivity|]); cbn [pres_toks perr_toks option_map].
    + apply Z.eqb_refl.
    + cbn [is_some negb andb]. rewrite <- S3. destruct S2 as (? & ? & Hlt).
      destruct (Z.leb_spec (2 ^ bits) (eval l)); [lia|]. cbn [negb andb].
      unfold U. rewrite canon_uint_of by (repeat split; auto).
      apply list_eqb_refl, Z.eqb_refl.
  - eexists. split; [reflexivity|]. cbn [pres_toks perr_toks bcerr_toks]. apply Z.leb_le. exact H2.
  - destruct H2.
  - destruct H2 as [S1 ->]. eexists. split; [reflexivity|].
    cbn [pres_toks perr_toks bcerr_toks]. rewrite S1. now rewrite !Z.eqb_refl.
Qed.

(* ---------- FromStr ---------- *)
Definition sniffed {A} (c2 : Z) (k16 k8 k2 k10 : A) : A :=
  if (c2 =? 120) || (c2 =? 88) then k16
  else if (c2 =? 111) || (c2 =? 79) then k8
  else if (c2 =? 98) || (c2 =? 66) then k2
  else k10.

Lemma from_str_cases bits cs :
  Str.from_str bits cs =
  match cs with
  | c1 :: c2 :: rest =>
      if (utf8_len c1 =? 1) && (utf8_len c2 =? 1) && (c1 =? 48) then
        sniffed c2 (Str.from_str_radix bits rest 16) (Str.from_str_radix bits rest 8)
                (Str.from_str_radix bits rest 2) (Str.from_str_radix bits cs 10)
      else Str.from_str_radix bits cs 10
  | _ => Str.from_str_radix bits cs 10
  end.
Proof.
  unfold Str.from_str, split_at_2, sniffed. destruct cs as [|c1 [|c2 rest]]; [reflexivity| |].
  - destruct (utf8_len c1 =? 2), (utf8_len c1 =? 1); cbn [list_eqb]; rewrite ?andb_false_r;
      reflexivity.
  - destruct (Z.eqb_spec (utf8_len c1) 2) as [A|A]; destruct (Z.eqb_spec (utf8_len c1) 1) as [A'|A'];
      try lia; cbn [andb].
    + cbn [list_eqb]. rewrite ?andb_false_r. reflexivity.
    + destruct (utf8_len c2 =? 1); cbn [andb]; [|reflexivity].
      cbn [list_eqb]. rewrite ?andb_true_r.
      destruct (c1 =? 48); cbn [andb orb]; [|reflexivity].
      destruct (c2 =? 120), (c2 =? 88), (c2 =? 111), (c2 =? 79), (c2 =? 98), (c2 =? 66); reflexivity.
    + reflexivity.
Qed.

Lemma spec_from_str_cases bits cs o :
  spec_from_str bits cs o =
  match cs with
  | c1 :: c2 :: rest =>
      if c1 =? 48 then
        sniffed c2 (spec_parse bits 16 rest o) (spec_parse bits 8 rest o)
                (spec_parse bits 2 rest o) (spec_parse bits 10 cs o)
      else spec_parse bits 10 cs o
  | _ => spec_parse bits 10 cs o
  end.
Proof.
  destruct cs as [|c1 [|c2 rest]]; [reflexivity| |].
  - unfold spec_from_str. destruct c1 as [|p|p]; try reflexivity.
    repeat (destruct p as [p|p|]; try reflexivity).
  - destruct (Z.eqb_spec c1 48) as [->|N]; [reflexivity|].
    unfold spec_from_str. destruct c1 as [|p|p]; try reflexivity.
    repeat (destruct p as [p|p|]; try reflexivity). congruence.
Qed.

Theorem from_str_spec bits cs : 0 <= bits ->
  exists r, Str.from_str bits cs = Val r /\ spec_from_str bits cs (Val (pres_toks r)) = true.
Proof.
  intros Hbits.
  assert (H16 : inW 16) by (unfold inW; rewrite B_val; lia).
  assert (H8 : inW 8) by (unfold inW; rewrite B_val; lia).
  assert (H2 : inW 2) by (unfold inW; rewrite B_val; lia).
  assert (H10 : inW 10) by (unfold inW; rewrite B_val; lia).
  pose proof (from_str_radix_spec bits 10 cs Hbits H10) as Hdef.
  rewrite from_str_cases.
  destruct cs as [|c1 [|c2 rest]].
  - destruct Hdef as (r & E & S). exists r. split; [exact E|]. now rewrite spec_from_str_cases.
  - destruct Hdef as (r & E & S). exists r. split; [exact E|]. now rewrite spec_from_str_cases.
  - pose proof (from_str_radix_spec bits 16 rest Hbits H16) as D16.
    pose proof (from_str_radix_spec bits 8 rest Hbits H8) as D8.
    pose proof (from_str_radix_spec bits 2 rest Hbits H2) as D2.
    assert (G : forall r, spec_from_str bits (c1 :: c2 :: rest) (Val (pres_toks r)) =
                          if c1 =? 48 then
                            sniffed c2 (spec_parse bits 16 rest (Val (pres_toks r)))
                              (spec_parse bits 8 rest (Val (pres_toks r)))
                              (spec_parse bits 2 rest (Val (pres_toks r)))
                              (spec_parse bits 10 (c1 :: c2 :: rest) (Val (pres_toks r)))
                          else spec_parse bits 10 (c1 :: c2 :: rest) (Val (pres_toks r)))
      by (intros r0; rewrite spec_from_str_cases; reflexivity).
    destruct (Z.eqb_spec c1 48) as [->|N1].
    + change (utf8_len 48 =? 1) with true. cbn [andb]. rewrite andb_true_r.
      unfold sniffed in *.
      destruct (Z.eqb_spec c2 120) as [->|]; cbn [orb].
      { destruct D16 as (r & E & S). exists r. split; [exact E|]. now rewrite G. }
      destruct (Z.eqb_spec c2 88) as [->|]; cbn [orb].
      { destruct D16 as (r & E & S). exists r. split; [exact E|]. now rewrite G. }
      destruct (Z.eqb_spec c2 111) as [->|]; cbn [orb].
      { destruct D8 as (r & E & S). exists r. split; [exact E|]. now rewrite G. }
      destruct (Z.eqb_spec c2 79) as [->|]; cbn [orb].
      { destruct D8 as (r & E & S). exists r. split; [exact E|]. now rewrite G. }
      destruct (Z.eqb_spec c2 98) as [->|]; cbn [orb].
      { destruct D2 as (r & E & S). exists r. split; [exact E|]. now rewrite G. }
      destruct (Z.eqb_spec c2 66) as [->|]; cbn [orb].
      { destruct D2 as (r & E & S). exists r. split; [exact E|]. now rewrite G. }
      destruct Hdef as (r & E & S). exists r. rewrite G. split; [|exact S].
      destruct (utf8_len c2 =? 1); exact E.
    + rewrite andb_false_r. destruct Hdef as (r & E & S). exists r. rewrite G. auto.
Qed.
