(* Proofs/PfGenMatrix.v — the generated definitions of src/algorithms/gcd/matrix.rs (tools_rs2v.py,
   Gen/Scalar.v) are the model functions of Model/GcdMatrix.v.  The tuple struct
   Matrix(u64, u64, u64, u64, bool) is a 5-tuple on the generated side and the record `mat` in the model. *)
From Coq Require Import ZArith List Bool Lia.
From RV.Model Require Import Base Word.
From RV.Model Require GcdMatrix.
From RV.Gen Require Import Prim Scalar.
From RV.Proofs Require Import BaseFacts PfGenScalar.
Import ListNotations.

Definition mat_tuple (m : GcdMatrix.mat) : Z * Z * Z * Z * bool :=
  (GcdMatrix.m0 m, GcdMatrix.m1 m, GcdMatrix.m2 m, GcdMatrix.m3 m, GcdMatrix.m4 m).
Definition wf_mat (m : GcdMatrix.mat) : Prop :=
  0 <= GcdMatrix.m0 m /\ 0 <= GcdMatrix.m1 m /\ 0 <= GcdMatrix.m2 m /\ 0 <= GcdMatrix.m3 m.

Lemma chk64_cmul x y : 0 <= x -> 0 <= y -> chk64 (x * y) = GcdMatrix.cmul x y.
Proof.
  intros Hx Hy. unfold chk64, GcdMatrix.cmul.
  replace (0 <=? x * y) with true by (symmetry; apply Z.leb_le; nia). reflexivity.
Qed.
Lemma chk64_cadd x y : 0 <= x -> 0 <= y -> chk64 (x + y) = GcdMatrix.cadd x y.
Proof.
  intros Hx Hy. unfold chk64, GcdMatrix.cadd.
  replace (0 <=? x + y) with true by (symmetry; apply Z.leb_le; lia). reflexivity.
Qed.

Lemma dot_eq a b c d (K : Z -> outcome (Z * Z * Z * Z * bool)) :
  0 <= a -> 0 <= b -> 0 <= c -> 0 <= d ->
  (do t1 <- chk64 (a * b) ; do t2 <- chk64 (c * d) ; do t3 <- chk64 (t1 + t2) ; K t3)
  = (do e <- GcdMatrix.dot a b c d ; K e).
Proof.
  intros Ha Hb Hc Hd. unfold GcdMatrix.dot. rewrite (chk64_cmul a b Ha Hb), (chk64_cmul c d Hc Hd).
  unfold GcdMatrix.cmul. destruct (a * b <? B); [|reflexivity]. cbn [obind].
  destruct (c * d <? B); [|reflexivity]. cbn [obind].
  rewrite chk64_cadd by nia. reflexivity.
Qed.

Theorem g_mat_compose_eq s o : wf_mat s -> wf_mat o ->
  g_mat_compose (mat_tuple s) (mat_tuple o) = omap mat_tuple (GcdMatrix.compose s o).
Proof.
  intros (S0 & S1 & S2 & S3) (O0 & O1 & O2 & O3).
  unfold g_mat_compose, GcdMatrix.compose, mat_tuple, mat_0, mat_1, mat_2, mat_3, mat_4.
  rewrite dot_eq by assumption. destruct (GcdMatrix.dot _ _ _ _) as [e0| | | |]; try reflexivity. cbn [obind].
  rewrite dot_eq by assumption. destruct (GcdMatrix.dot _ _ _ _) as [e1| | | |]; try reflexivity. cbn [obind].
  rewrite dot_eq by assumption. destruct (GcdMatrix.dot _ _ _ _) as [e2| | | |]; try reflexivity. cbn [obind].
  rewrite dot_eq by assumption. destruct (GcdMatrix.dot _ _ _ _) as [e3| | | |]; reflexivity.
Qed.

Theorem g_mat_apply_u128_eq m a b :
  g_mat_apply_u128 (mat_tuple m) a b = Val (GcdMatrix.apply_u128 m a b).
Proof.
  unfold g_mat_apply_u128, GcdMatrix.apply_u128, GcdMatrix.wlin128, mat_tuple, mat_0, mat_1, mat_2, mat_3, mat_4.
  destruct (GcdMatrix.m4 m); reflexivity.
Qed.

(* ---------------- from_u64: `loop { .. return .. }` with the round bound 70 ---------------- *)
Definition fu_body (t_15 : Z * Z * Z * Z * Z * Z) : outcome (ctl (Z * Z * Z * Z * Z * Z) (Z * Z * Z * Z * bool)) :=
  let '(r0, q00, q01, r1, q10, q11) := t_15 in do t_1 <- chkdiv r1 ; let q := (r0 / t_1) in
  do t_2 <- chk64 (q * r1) ; do t_3 <- chk64 (r0 - t_2) ; let r0 := t_3 in
  do t_4 <- chk64 (q * q10) ; do t_5 <- chk64 (q00 + t_4) ; let q00 := t_5 in
  do t_6 <- chk64 (q * q11) ; do t_7 <- chk64 (q01 + t_6) ; let q01 := t_7 in
   if (r0 =? 0) then ( Val (Ret ((q10, q11, q00, q01, false)))) else
  do t_8 <- chkdiv r0 ; let q := (r1 / t_8) in
  do t_9 <- chk64 (q * r0) ; do t_10 <- chk64 (r1 - t_9) ; let r1 := t_10 in
  do t_11 <- chk64 (q * q00) ; do t_12 <- chk64 (q10 + t_11) ; let q10 := t_12 in
  do t_13 <- chk64 (q * q01) ; do t_14 <- chk64 (q11 + t_13) ; let q11 := t_14 in
   if (r1 =? 0) then ( Val (Ret ((q00, q01, q10, q11, true)))) else
  Val (Cont (r0, q00, q01, r1, q10, q11)).

Lemma g_mat_from_u64_unfold r0 r1 :
  g_mat_from_u64 r0 r1 =
  if negb (r1 <=? r0) then DebugPanic else
  if r1 =? 0 then Val (1, 0, 0, 1, true) else
  loop_fuel_ret 70%nat (r0, 1, 0, r1, 0, 1) fu_body.
Proof. reflexivity. Qed.

Definition word (x : Z) : Prop := 0 <= x < B.

Lemma chk64_csub x y : word x -> 0 <= y -> chk64 (x - y) = GcdMatrix.csub x y.
Proof.
  intros Hx Hy. unfold chk64, GcdMatrix.csub, word in *.
  destruct (Z.ltb_spec x y).
  - replace (0 <=? x - y) with false by lia. reflexivity.
  - replace (0 <=? x - y) with true by lia. replace (x - y <? B) with true by lia. reflexivity.
Qed.

(* one unrolled half of the loop body, in continuation form *)
Lemma half_eq {T} r s k l k2 l2 (K : Z -> Z -> Z -> outcome T) :
  word r -> 0 <= s -> word k -> 0 <= l -> word k2 -> 0 <= l2 ->
  (do t1 <- chkdiv s ; let q := r / t1 in
   do t2 <- chk64 (q * s) ; do t3 <- chk64 (r - t2) ;
   do t4 <- chk64 (q * l) ; do t5 <- chk64 (k + t4) ;
   do t6 <- chk64 (q * l2) ; do t7 <- chk64 (k2 + t6) ; K t3 t5 t7)
  = (do p <- GcdMatrix.euclid_half2 r s k l k2 l2 ;
     let '(r', k', k2') := p in K r' k' k2').
Proof.
  intros Hr Hs Hk Hl Hk2 Hl2. unfold GcdMatrix.euclid_half2, chkdiv, GcdMatrix.cdiv, word in *.
  destruct (Z.eqb_spec s 0) as [->|Ns]; [reflexivity|]. cbn [obind]. cbv zeta.
  assert (Hq : 0 <= r / s) by (apply Z.div_pos; lia).
  rewrite (chk64_cmul (r / s) s Hq Hs). unfold GcdMatrix.cmul at 1 2.
  destruct (r / s * s <? B); [|reflexivity]. cbn [obind].
  rewrite (chk64_csub r (r / s * s)) by (unfold word; nia).
  destruct (GcdMatrix.csub r (r / s * s)) as [r'| | | |]; try reflexivity. cbn [obind].
  rewrite (chk64_cmul (r / s) l Hq Hl). unfold GcdMatrix.cmul at 1 2.
  destruct (r / s * l <? B); [|reflexivity]. cbn [obind].
  rewrite (chk64_cadd k (r / s * l)) by nia.
  destruct (GcdMatrix.cadd k (r / s * l)) as [k'| | | |]; try reflexivity. cbn [obind].
  rewrite (chk64_cmul (r / s) l2 Hq Hl2). unfold GcdMatrix.cmul.
  destruct (r / s * l2 <? B); [|reflexivity]. cbn [obind].
  rewrite (chk64_cadd k2 (r / s * l2)) by nia.
  destruct (GcdMatrix.cadd k2 (r / s * l2)) as [k2'| | | |]; reflexivity.
Qed.

Lemma half_range r s k l k2 l2 r' k' k2' :
  word r -> 0 <= s -> word k -> 0 <= l -> word k2 -> 0 <= l2 ->
  GcdMatrix.euclid_half2 r s k l k2 l2 = Val (r', k', k2') -> word r' /\ word k' /\ word k2'.
Proof.
  intros Hr Hs Hk Hl Hk2 Hl2. unfold GcdMatrix.euclid_half2, GcdMatrix.cdiv, GcdMatrix.cmul, GcdMatrix.csub, GcdMatrix.cadd, word in *.
  destruct (Z.eqb_spec s 0) as [->|Ns]; [discriminate|]. cbn [obind].
  assert (Hq : 0 <= r / s) by (apply Z.div_pos; lia).
  destruct (r / s * s <? B); [|discriminate]. cbn [obind].
  destruct (Z.ltb_spec r (r / s * s)); [discriminate|]. cbn [obind].
  destruct (r / s * l <? B); [|discriminate]. cbn [obind].
  destruct (Z.ltb_spec (k + r / s * l) B); [|discriminate]. cbn [obind].
  destruct (r / s * l2 <? B); [|discriminate]. cbn [obind].
  destruct (Z.ltb_spec (k2 + r / s * l2) B); [|discriminate]. cbn [obind].
  intros [= <- <- <-]. nia.
Qed.

Lemma fu_loop_eq : forall fuel r0 q00 q01 r1 q10 q11,
  word r0 -> word q00 -> word q01 -> word r1 -> word q10 -> word q11 ->
  loop_fuel_ret fuel (r0, q00, q01, r1, q10, q11) fu_body
  = omap mat_tuple (GcdMatrix.from_u64_loop fuel r0 r1 q00 q01 q10 q11).
Proof.
  induction fuel as [|fuel IH]; intros r0 q00 q01 r1 q10 q11 H0 H00 H01 H1 H10 H11; [reflexivity|].
  cbn [loop_fuel_ret GcdMatrix.from_u64_loop]. unfold fu_body at 1. cbv beta iota.
  rewrite (half_eq r0 r1 q00 q10 q01 q11) by (assumption || apply H1 || apply H10 || apply H11).
  destruct (GcdMatrix.euclid_half2 r0 r1 q00 q10 q01 q11) as [[[r0' q00'] q01']| | | |] eqn:E1; try reflexivity.
  cbn [obind]. cbv beta iota.
  destruct (half_range _ _ _ _ _ _ _ _ _ H0 (proj1 H1) H00 (proj1 H10) H01 (proj1 H11) E1) as (W0 & W00 & W01).
  destruct (r0' =? 0); [reflexivity|].
  rewrite (half_eq r1 r0' q10 q00' q11 q01') by (assumption || apply W0 || apply W00 || apply W01).
  destruct (GcdMatrix.euclid_half2 r1 r0' q10 q00' q11 q01') as [[[r1' q10'] q11']| | | |] eqn:E2; try reflexivity.
  cbn [obind]. cbv beta iota.
  destruct (half_range _ _ _ _ _ _ _ _ _ H1 (proj1 W0) H10 (proj1 W00) H11 (proj1 W01) E2) as (W1 & W10 & W11).
  destruct (r1' =? 0); [reflexivity|]. cbn [obind].
  apply IH; assumption.
Qed.

Theorem g_mat_from_u64_eq r0 r1 : word r0 -> word r1 ->
  g_mat_from_u64 r0 r1 = omap mat_tuple (GcdMatrix.from_u64 r0 r1).
Proof.
  intros H0 H1. rewrite g_mat_from_u64_unfold. unfold GcdMatrix.from_u64.
  replace (negb (r1 <=? r0)) with (r0 <? r1) by (rewrite Z.ltb_antisym; reflexivity).
  destruct (r0 <? r1); [reflexivity|]. destruct (r1 =? 0); [reflexivity|].
  apply fu_loop_eq; try assumption; unfold word; rewrite B_val; lia.
Qed.
