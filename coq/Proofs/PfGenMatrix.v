(* Proofs/PfGenMatrix.v — the generated definitions of src/algorithms/gcd/matrix.rs (tools_rs2v.py,
   Gen/Scalar.v) are the model functions of Model/GcdMatrix.v.  The tuple struct
   Matrix(u64, u64, u64, u64, bool) is a 5-tuple on the generated side and the record `mat` in the model. *)
From Coq Require Import ZArith List Bool Lia.
From RV.Model Require Import Base Word.
From RV.Model Require GcdMatrix.
From RV.Gen Require Import Prim Scalar.
From RV.Proofs Require Import BaseFacts PfGenScalar.
Import ListNotations.

Definition mat_tuple (m : GcdMatrix.mat) : Z * Z * Z * Z * bool :=
  (GcdMatrix.m0 m, GcdMatrix.m1 m, GcdMatrix.m2 m, GcdMatrix.m3 m, GcdMatrix.m4 m).
Definition wf_mat (m : GcdMatrix.mat) : Prop :=
  0 <= GcdMatrix.m0 m /\ 0 <= GcdMatrix.m1 m /\ 0 <= GcdMatrix.m2 m /\ 0 <= GcdMatrix.m3 m.

Lemma chk64_cmul x y : 0 <= x -> 0 <= y -> chk64 (x * y) = GcdMatrix.cmul x y.
Proof.
  intros Hx Hy. unfold chk64, GcdMatrix.cmul.
  replace (0 <=? x * y) with true by (symmetry; apply Z.leb_le; nia). reflexivity.
Qed.
Lemma chk64_cadd x y : 0 <= x -> 0 <= y -> chk64 (x + y) = GcdMatrix.cadd x y.
Proof.
  intros Hx Hy. unfold chk64, GcdMatrix.cadd.
  replace (0 <=? x + y) with true by (symmetry; apply Z.leb_le; lia). reflexivity.
Qed.

Lemma dot_eq a b c d (K : Z -> outcome (Z * Z * Z * Z * bool)) :
  0 <= a -> 0 <= b -> 0 <= c -> 0 <= d ->
  (do t1 <- chk64 (a * b) ; do t2 <- chk64 (c * d) ; do t3 <- chk64 (t1 + t2) ; K t3)
  = (do e <- GcdMatrix.dot a b c d ; K e).
Proof.
  intros Ha Hb Hc Hd. unfold GcdMatrix.dot. rewrite (chk64_cmul a b Ha Hb), (chk64_cmul c d Hc Hd).
  unfold GcdMatrix.cmul. destruct (a * b <? B); [|reflexivity]. cbn [obind].
  destruct (c * d <? B); [|reflexivity]. cbn [obind].
  rewrite chk64_cadd by nia. reflexivity.
Qed.

Theorem g_mat_compose_eq s o : wf_mat s -> wf_mat o ->
  g_mat_compose (mat_tuple s) (mat_tuple o) = omap mat_tuple (GcdMatrix.compose s o).
Proof.
  intros (S0 & S1 & S2 & S3) (O0 & O1 & O2 & O3).
  unfold g_mat_compose, GcdMatrix.compose, mat_tuple, mat_0, mat_1, mat_2, mat_3, mat_4.
  rewrite dot_eq by assumption. destruct (GcdMatrix.dot _ _ _ _) as [e0| | | |]; try reflexivity. cbn [obind].
  rewrite dot_eq by assumption. destruct (GcdMatrix.dot _ _ _ _) as [e1| | | |]; try reflexivity. cbn [obind].
  rewrite dot_eq by assumption. destruct (GcdMatrix.dot _ _ _ _) as [e2| | | |]; try reflexivity. cbn [obind].
  rewrite dot_eq by assumption. destruct (GcdMatrix.dot _ _ _ _) as [e3| | | |]; reflexivity.
Qed.

Theorem g_mat_apply_u128_eq m a b :
  g_mat_apply_u128 (mat_tuple m) a b = Val (GcdMatrix.apply_u128 m a b).
Proof.
  unfold g_mat_apply_u128, GcdMatrix.apply_u128, GcdMatrix.wlin128, mat_tuple, mat_0, mat_1, mat_2, mat_3, mat_4.
  destruct (GcdMatrix.m4 m); reflexivity.
Qed.

(* ---------------- from_u64: `loop { .. return .. }` with the round bound 70 ---------------- *)
Definition fu_body (t_15 : Z * Z * Z * Z * Z * Z) : outcome (ctl (Z * Z * Z * Z * Z * Z) (Z * Z * Z * Z * bool)) :=
  let '(r0, q00, q01, r1, q10, q11) := t_15 in do t_1 <- chkdiv r1 ; let q := (r0 / t_1) in
  do t_2 <- chk64 (q * r1) ; do t_3 <- chk64 (r0 - t_2) ; let r0 := t_3 in
  do t_4 <- chk64 (q * q10) ; do t_5 <- chk64 (q00 + t_4) ; let q00 := t_5 in
  do t_6 <- chk64 (q * q11) ; do t_7 <- chk64 (q01 + t_6) ; let q01 := t_7 in
   if (r0 =? 0) then ( Val (Ret ((q10, q11, q00, q01, false)))) else
  do t_8 <- chkdiv r0 ; let q := (r1 / t_8) in
  do t_9 <- chk64 (q * r0) ; do t_10 <- chk64 (r1 - t_9) ; let r1 := t_10 in
  do t_11 <- chk64 (q * q00) ; do t_12 <- chk64 (q10 + t_11) ; let q10 := t_12 in
  do t_13 <- chk64 (q * q01) ; do t_14 <- chk64 (q11 + t_13) ; let q11 := t_14 in
   if (r1 =? 0) then ( Val (Ret ((q00, q01, q10, q11, true)))) else
  Val (Cont (r0, q00, q01, r1, q10, q11)).

Lemma g_mat_from_u64_unfold r0 r1 :
  g_mat_from_u64 r0 r1 =
  if negb (r1 <=? r0) then DebugPanic else
  if r1 =? 0 then Val (1, 0, 0, 1, true) else
  loop_fuel_ret 70%nat (r0, 1, 0, r1, 0, 1) fu_body.
Proof. reflexivity. Qed.

Definition word (x : Z) : Prop := 0 <= x < B.

Lemma chk64_csub x y : word x -> 0 <= y -> chk64 (x - y) = GcdMatrix.csub x y.
Proof.
  intros Hx Hy. unfold chk64, GcdMatrix.csub, word in *.
  destruct (Z.ltb_spec x y).
  - replace (0 <=? x - y) with false by lia. reflexivity.
  - replace (0 <=? x - y) with true by lia. replace (x - y <? B) with true by lia. reflexivity.
Qed.

(* one unrolled half of the loop body, in continuation form *)
Lemma half_eq {T} r s k l k2 l2 (K : Z -> Z -> Z -> outcome T) :
  word r -> 0 <= s -> word k -> 0 <= l -> word k2 -> 0 <= l2 ->
  (do t1 <- chkdiv s ; let q := r / t1 in
   do t2 <- chk64 (q * s) ; do t3 <- chk64 (r - t2) ;
   do t4 <- chk64 (q * l) ; do t5 <- chk64 (k + t4) ;
   do t6 <- chk64 (q * l2) ; do t7 <- chk64 (k2 + t6) ; K t3 t5 t7)
  = (do p <- GcdMatrix.euclid_half2 r s k l k2 l2 ;
     let '(r', k', k2') := p in K r' k' k2').
Proof.
  intros Hr Hs Hk Hl Hk2 Hl2. unfold GcdMatrix.euclid_half2, chkdiv, GcdMatrix.cdiv, word in *.
  destruct (Z.eqb_spec s 0) as [->|Ns]; [reflexivity|]. cbn [obind]. cbv zeta.
  assert (Hq : 0 <= r / s) by (apply Z.div_pos; lia).
  rewrite (chk64_cmul (r / s) s Hq Hs). unfold GcdMatrix.cmul at 1 2.
  destruct (r / s * s <? B); [|reflexivity]. cbn [obind].
  rewrite (chk64_csub r (r / s * s)) by (unfold word; nia).
  destruct (GcdMatrix.csub r (r / s * s)) as [r'| | | |]; try reflexivity. cbn [obind].
  rewrite (chk64_cmul (r / s) l Hq Hl). unfold GcdMatrix.cmul at 1 2.
  destruct (r / s * l <? B); [|reflexivity]. cbn [obind].
  rewrite (chk64_cadd k (r / s * l)) by nia.
  destruct (GcdMatrix.cadd k (r / s * l)) as [k'| | | |]; try reflexivity. cbn [obind].
  rewrite (chk64_cmul (r / s) l2 Hq Hl2). unfold GcdMatrix.cmul.
  destruct (r / s * l2 <? B); [|reflexivity]. cbn [obind].
  rewrite (chk64_cadd k2 (r / s * l2)) by nia.
  destruct (GcdMatrix.cadd k2 (r / s * l2)) as [k2'| | | |]; reflexivity.
Qed.

Lemma half_range r s k l k2 l2 r' k' k2' :
  word r -> 0 <= s -> word k -> 0 <= l -> word k2 -> 0 <= l2 ->
  GcdMatrix.euclid_half2 r s k l k2 l2 = Val (r', k', k2') -> word r' /\ word k' /\ word k2'.
Proof.
  intros Hr Hs Hk Hl Hk2 Hl2. unfold GcdMatrix.euclid_half2, GcdMatrix.cdiv, GcdMatrix.cmul, GcdMatrix.csub, GcdMatrix.cadd, word in *.
  destruct (Z.eqb_spec s 0) as [->|Ns]; [discriminate|]. cbn [obind].
  assert (Hq : 0 <= r / s) by (apply Z.div_pos; lia).
  destruct (r / s * s <? B); [|discriminate]. cbn [obind].
  destruct (Z.ltb_spec r (r / s * s)); [discriminate|]. cbn [obind].
  destruct (r / s * l <? B); [|discriminate]. cbn [obind].
  destruct (Z.ltb_spec (k + r / s * l) B); [|discriminate]. cbn [obind].
  destruct (r / s * l2 <? B); [|discriminate]. cbn [obind].
  destruct (Z.ltb_spec (k2 + r / s * l2) B); [|discriminate]. cbn [obind].
  intros [= <- <- <-]. nia.
Qed.

Lemma fu_loop_eq : forall fuel r0 q00 q01 r1 q10 q11,
  word r0 -> word q00 -> word q01 -> word r1 -> word q10 -> word q11 ->
  loop_fuel_ret fuel (r0, q00, q01, r1, q10, q11) fu_body
  = omap mat_tuple (GcdMatrix.from_u64_loop fuel r0 r1 q00 q01 q10 q11).
Proof.
  induction fuel as [|fuel IH]; intros r0 q00 q01 r1 q10 q11 H0 H00 H01 H1 H10 H11; [reflexivity|].
  cbn [loop_fuel_ret GcdMatrix.from_u64_loop]. unfold fu_body at 1. cbv beta iota.
  rewrite (half_eq r0 r1 q00 q10 q01 q11) by (assumption || apply H1 || apply H10 || apply H11).
  destruct (GcdMatrix.euclid_half2 r0 r1 q00 q10 q01 q11) as [[[r0' q00'] q01']| | | |] eqn:E1; try reflexivity.
  cbn [obind]. cbv beta iota.
  destruct (half_range _ _ _ _ _ _ _ _ _ H0 (proj1 H1) H00 (proj1 H10) H01 (proj1 H11) E1) as (W0 & W00 & W01).
  destruct (r0' =? 0); [reflexivity|].
  rewrite (half_eq r1 r0' q10 q00' q11 q01') by (assumption || apply W0 || apply W00 || apply W01).
  destruct (GcdMatrix.euclid_half2 r1 r0' q10 q00' q11 q01') as [[[r1' q10'] q11']| | | |] eqn:E2; try reflexivity.
  cbn [obind]. cbv beta iota.
  destruct (half_range _ _ _ _ _ _ _ _ _ H1 (proj1 W0) H10 (proj1 W00) H11 (proj1 W01) E2) as (W1 & W10 & W11).
  destruct (r1' =? 0); [reflexivity|]. cbn [obind].
  apply IH; assumption.
Qed.

Theorem g_mat_from_u64_eq r0 r1 : word r0 -> word r1 ->
  g_mat_from_u64 r0 r1 = omap mat_tuple (GcdMatrix.from_u64 r0 r1).
Proof.
  intros H0 H1. rewrite g_mat_from_u64_unfold. unfold GcdMatrix.from_u64.
  replace (negb (r1 <=? r0)) with (r0 <? r1) by (rewrite Z.ltb_antisym; reflexivity).
  destruct (r0 <? r1); [reflexivity|]. destruct (r1 =? 0); [reflexivity|].
  apply fu_loop_eq; try assumption; unfold word; rewrite B_val; lia.
Qed.

(* ---------------- from_u64_prefix: `while a3 >= LIMIT { .. break .. }`, from_u128_prefix ---------------- *)
Import GcdMatrix.

Lemma half1_eq {T} r s k l (K : Z -> Z -> outcome T) :
  word r -> 0 <= s -> word k -> 0 <= l ->
  (do t1 <- chkdiv s ; let q := r / t1 in
   do t2 <- chk64 (q * s) ; do t3 <- chk64 (r - t2) ;
   do t4 <- chk64 (q * l) ; do t5 <- chk64 (k + t4) ; K t3 t5)
  = (do p <- euclid_half r s k l ; let '(r', k') := p in K r' k').
Proof.
  intros Hr Hs Hk Hl. unfold euclid_half, chkdiv, cdiv, word in *.
  destruct (Z.eqb_spec s 0) as [->|Ns]; [reflexivity|]. cbn [obind]. cbv zeta.
  assert (Hq : 0 <= r / s) by (apply Z.div_pos; lia).
  rewrite (chk64_cmul (r / s) s Hq Hs). unfold cmul at 1 2.
  destruct (r / s * s <? B); [|reflexivity]. cbn [obind].
  rewrite (chk64_csub r (r / s * s)) by (unfold word; nia).
  destruct (csub r (r / s * s)) as [r'| | | |]; try reflexivity. cbn [obind].
  rewrite (chk64_cmul (r / s) l Hq Hl). unfold cmul.
  destruct (r / s * l <? B); [|reflexivity]. cbn [obind].
  rewrite (chk64_cadd k (r / s * l)) by nia.
  destruct (cadd k (r / s * l)) as [k'| | | |]; reflexivity.
Qed.

Lemma half1_range r s k l r' k' :
  word r -> 0 <= s -> word k -> 0 <= l ->
  euclid_half r s k l = Val (r', k') -> word r' /\ word k'.
Proof.
  intros Hr Hs Hk Hl. unfold euclid_half, cdiv, cmul, csub, cadd, word in *.
  destruct (Z.eqb_spec s 0) as [->|Ns]; [discriminate|]. cbn [obind].
  assert (Hq : 0 <= r / s) by (apply Z.div_pos; lia).
  destruct (r / s * s <? B); [|discriminate]. cbn [obind].
  destruct (Z.ltb_spec r (r / s * s)); [discriminate|]. cbn [obind].
  destruct (r / s * l <? B); [|discriminate]. cbn [obind].
  destruct (Z.ltb_spec (k + r / s * l) B); [|discriminate]. cbn [obind].
  intros [= <- <-]. nia.
Qed.

Definition ps_tuple (p : pstate * bool) : Z * Z * Z * Z * Z * Z * Z * bool :=
  let '(s, e) := p in (pa1 s, pa2 s, pa3 s, pk0 s, pk1 s, pk2 s, pk3 s, e).
Definition wordS (s : pstate) : Prop :=
  word (pa1 s) /\ word (pa2 s) /\ word (pa3 s) /\ word (pk0 s) /\ word (pk1 s) /\ word (pk2 s) /\ word (pk3 s).

Lemma prefix_half_words s s1 : wordS s -> prefix_half s = Val s1 -> wordS s1.
Proof.
  intros (W1 & W2 & W3 & K0 & K1 & K2 & K3). unfold prefix_half.
  destruct (negb (pa3 s <? pa2 s)); [discriminate|]. destruct (negb (0 <? pa3 s)); [discriminate|].
  destruct (euclid_half (pa2 s) (pa3 s) (pk2 s) (pk3 s)) as [[a3 k3]| | | |] eqn:E; try discriminate.
  cbn [obind]. intros [= <-].
  destruct (half1_range _ _ _ _ _ _ W2 (proj1 W3) K2 (proj1 K3) E) as [Wa Wk].
  unfold wordS; cbn. auto 10.
Qed.

(* the loop, for any condition and body that behave as the two halves of the model's round *)
Lemma wfb_prefix cond body :
  (forall s e, cond (ps_tuple (s, e)) = Val (LIMIT <=? pa3 s)) ->
  (forall s e, wordS s -> body (ps_tuple (s, e)) =
     do s1 <- prefix_half s ;
     if pa3 s1 <? LIMIT then Val (Ret (ps_tuple (s1, false)))
     else do s2 <- prefix_half s1 ; Val (Cont (ps_tuple (s2, e)))) ->
  forall fuel s e, wordS s ->
  while_fuel_brk fuel (ps_tuple (s, e)) cond body = omap ps_tuple (prefix_loop fuel s e).
Proof.
  intros Hc Hb. induction fuel as [|fuel IH]; intros s e Ws.
  - cbn [while_fuel_brk prefix_loop]. rewrite Hc. cbn [obind]. destruct (LIMIT <=? pa3 s); reflexivity.
  - cbn [while_fuel_brk prefix_loop]. rewrite Hc. cbn [obind].
    destruct (LIMIT <=? pa3 s); [|reflexivity].
    rewrite (Hb s e Ws).
    destruct (prefix_half s) as [s1| | | |] eqn:E1; try reflexivity. cbn [obind].
    pose proof (prefix_half_words s s1 Ws E1) as Ws1.
    destruct (pa3 s1 <? LIMIT); [reflexivity|].
    destruct (prefix_half s1) as [s2| | | |] eqn:E2; try reflexivity. cbn [obind].
    apply IH. exact (prefix_half_words s1 s2 Ws1 E2).
Qed.

(* one half of the generated round (after the seven moves) is prefix_half *)
Lemma gen_half_eq {T} a1 a2 a3 k0 k1 k2 k3 (K : Z -> Z -> outcome T) :
  word a2 -> word a3 -> word k2 -> word k3 ->
  (if negb (a3 <? a2) then DebugPanic else
   if negb (0 <? a3) then DebugPanic else
   do t1 <- chkdiv a3 ; let q := a2 / t1 in
   do t2 <- chk64 (q * a3) ; do t3 <- chk64 (a2 - t2) ;
   do t4 <- chk64 (q * k3) ; do t5 <- chk64 (k2 + t4) ; K t3 t5)
  = (do s1 <- prefix_half (PS a1 a2 a3 k0 k1 k2 k3) ; K (pa3 s1) (pk3 s1)).
Proof.
  intros W2 W3 K2 K3. unfold prefix_half. cbn [pa1 pa2 pa3 pk0 pk1 pk2 pk3].
  destruct (negb (a3 <? a2)); [reflexivity|]. destruct (negb (0 <? a3)); [reflexivity|].
  rewrite (half1_eq a2 a3 k2 k3) by (assumption || apply W3 || apply K3).
  destruct (euclid_half a2 a3 k2 k3) as [[r k]| | | |]; reflexivity.
Qed.

Lemma prefix_half_fields a1 a2 a3 k0 k1 k2 k3 s1 :
  prefix_half (PS a1 a2 a3 k0 k1 k2 k3) = Val s1 ->
  pa1 s1 = a2 /\ pa2 s1 = a3 /\ pk0 s1 = k1 /\ pk1 s1 = k2 /\ pk2 s1 = k3.
Proof.
  unfold prefix_half. cbn [pa1 pa2 pa3 pk0 pk1 pk2 pk3].
  destruct (negb (a3 <? a2)); [discriminate|]. destruct (negb (0 <? a3)); [discriminate|].
  destruct (euclid_half a2 a3 k2 k3) as [[r k]| | | |]; try discriminate. cbn [obind].
  intros [= <-]. cbn. auto.
Qed.

Lemma khi_nonneg k : 0 <= k -> 0 <= khi k.
Proof. intros H. unfold khi. apply Z.div_pos; lia. Qed.
Lemma klo_nonneg k : 0 <= klo k.
Proof. unfold klo, LIMIT. apply Z.mod_pos_bound. lia. Qed.
Lemma khi_word k : word k -> word (khi k).
Proof. intros [H1 H2]. unfold khi, word. split; [apply Z.div_pos; lia|]. apply Z.div_lt_upper_bound; lia. Qed.

(* the selection after the loop *)
Lemma gen_select_eq s even : wordS s ->
  (let '(a1, a2, a3, k0, k1, k2, k3, even) := ps_tuple (s, even) in
   let u0 := (shr64 k0 32) in
   let u1 := (shr64 k1 32) in
   let u2 := (shr64 k2 32) in
   let u3 := (shr64 k3 32) in
  do t_26 <- chkdiv 4294967296 ; let v0 := (k0 mod t_26) in
  do t_27 <- chkdiv 4294967296 ; let v1 := (k1 mod t_27) in
  do t_28 <- chkdiv 4294967296 ; let v2 := (k2 mod t_28) in
  do t_29 <- chkdiv 4294967296 ; let v3 := (k3 mod t_29) in
   if negb ((4294967296 <=? a2)) then DebugPanic else
   if negb ((a3 <? 4294967296)) then DebugPanic else
  do t_44 <- (if even then ( if negb ((v2 <=? a2)) then DebugPanic else
  do t_30 <- chk64 (a1 - a2) ; do t_31 <- chk64 (u2 + u1) ; do t_36 <- (if (t_31 <=? t_30) then (do t_34 <- (if (u3 <=? a3) then (do t_32 <- chk64 (a2 - a3) ; do t_33 <- chk64 (v3 + v2) ; Val (t_33 <=? t_32)) else Val false) ; do t_35 <- (if t_34 then (Val (u2, v2, u3, v3, true)) else (Val (u1, v1, u2, v2, false))) ; Val t_35) else (Val (u0, v0, u1, v1, true))) ; Val t_36) else ( if negb ((u2 <=? a2)) then DebugPanic else
  do t_37 <- chk64 (a1 - a2) ; do t_38 <- chk64 (v2 + v1) ; do t_43 <- (if (t_38 <=? t_37) then (do t_41 <- (if (v3 <=? a3) then (do t_39 <- chk64 (a2 - a3) ; do t_40 <- chk64 (u3 + u2) ; Val (t_40 <=? t_39)) else Val false) ; do t_42 <- (if t_41 then (Val (u2, v2, u3, v3, false)) else (Val (u1, v1, u2, v2, true))) ; Val t_42) else (Val (u0, v0, u1, v1, false))) ; Val t_43)) ; Val t_44)
  = omap mat_tuple (prefix_select s even).
Proof.
  intros (W1 & W2 & W3 & K0 & K1 & K2 & K3).
  destruct s as [a1 a2 a3 k0 k1 k2 k3]. cbn [pa1 pa2 pa3 pk0 pk1 pk2 pk3] in *.
  unfold prefix_select, ps_tuple. cbn [pa1 pa2 pa3 pk0 pk1 pk2 pk3]. cbv zeta.
  change (chkdiv 4294967296) with (Val 4294967296 : outcome Z). cbn [obind].
  change (shr64 ?k 32) with (khi k). change (?k mod 4294967296) with (klo k).
  change LIMIT with 4294967296.
  rewrite (Z.ltb_antisym 4294967296 a2). destruct (negb (4294967296 <=? a2)); [reflexivity|].
  destruct (negb (a3 <? 4294967296)); [reflexivity|].
  pose proof (khi_nonneg k0 (proj1 K0)). pose proof (khi_nonneg k1 (proj1 K1)).
  pose proof (khi_nonneg k2 (proj1 K2)). pose proof (khi_nonneg k3 (proj1 K3)).
  pose proof (klo_nonneg k0). pose proof (klo_nonneg k1). pose proof (klo_nonneg k2). pose proof (klo_nonneg k3).
  destruct even.
  - rewrite (Z.ltb_antisym (klo k2) a2). destruct (negb (klo k2 <=? a2)); [reflexivity|].
    rewrite (chk64_csub a1 a2 W1 (proj1 W2)).
    destruct (csub a1 a2) as [d12| | | |]; try reflexivity. cbn [obind].
    rewrite (chk64_cadd (khi k2) (khi k1)) by assumption.
    destruct (cadd (khi k2) (khi k1)) as [sx| | | |]; try reflexivity. cbn [obind].
    destruct (sx <=? d12); [|reflexivity].
    destruct (khi k3 <=? a3); cbn [obind]; [|reflexivity].
    rewrite (chk64_csub a2 a3 W2 (proj1 W3)).
    destruct (csub a2 a3) as [d23| | | |]; try reflexivity. cbn [obind].
    rewrite (chk64_cadd (klo k3) (klo k2)) by assumption.
    destruct (cadd (klo k3) (klo k2)) as [sy| | | |]; try reflexivity. cbn [obind].
    destruct (sy <=? d23); reflexivity.
  - rewrite (Z.ltb_antisym (khi k2) a2). destruct (negb (khi k2 <=? a2)); [reflexivity|].
    rewrite (chk64_csub a1 a2 W1 (proj1 W2)).
    destruct (csub a1 a2) as [d12| | | |]; try reflexivity. cbn [obind].
    rewrite (chk64_cadd (klo k2) (klo k1)) by assumption.
    destruct (cadd (klo k2) (klo k1)) as [sx| | | |]; try reflexivity. cbn [obind].
    destruct (sx <=? d12); [|reflexivity].
    destruct (klo k3 <=? a3); cbn [obind]; [|reflexivity].
    rewrite (chk64_csub a2 a3 W2 (proj1 W3)).
    destruct (csub a2 a3) as [d23| | | |]; try reflexivity. cbn [obind].
    rewrite (chk64_cadd (khi k3) (khi k2)) by assumption.
    destruct (cadd (khi k3) (khi k2)) as [sy| | | |]; try reflexivity. cbn [obind].
    destruct (sy <=? d23); reflexivity.
Qed.

Lemma prefix_loop_words : forall fuel s e s' e',
  wordS s -> prefix_loop fuel s e = Val (s', e') -> wordS s'.
Proof.
  induction fuel as [|fuel IH]; intros s e s' e' Ws; cbn [prefix_loop].
  - destruct (LIMIT <=? pa3 s); [discriminate|]. intros [= <- <-]. exact Ws.
  - destruct (LIMIT <=? pa3 s); [|intros [= <- <-]; exact Ws].
    destruct (prefix_half s) as [s1| | | |] eqn:E1; try discriminate. cbn [obind].
    pose proof (prefix_half_words s s1 Ws E1) as Ws1.
    destruct (pa3 s1 <? LIMIT); [intros [= <- <-]; exact Ws1|].
    destruct (prefix_half s1) as [s2| | | |] eqn:E2; try discriminate. cbn [obind].
    apply IH. exact (prefix_half_words s1 s2 Ws1 E2).
Qed.

Theorem g_mat_from_u64_prefix_eq a0 a1 : word a0 -> word a1 ->
  g_mat_from_u64_prefix a0 a1 = omap mat_tuple (from_u64_prefix a0 a1).
Proof.
  intros W0 W1. unfold g_mat_from_u64_prefix, from_u64_prefix.
  change (2 ^ 63) with 9223372036854775808. change LIMIT with 4294967296. change (2 ^ 32) with 4294967296.
  rewrite (Z.ltb_antisym 9223372036854775808 a0). destruct (negb (9223372036854775808 <=? a0)); [reflexivity|].
  rewrite (Z.ltb_antisym a1 a0). destruct (negb (a1 <=? a0)); [reflexivity|].
  destruct (a1 <? 4294967296); [reflexivity|].
  assert (Wk0 : word 4294967296) by (unfold word; rewrite B_val; lia).
  assert (Wk1 : word 1) by (unfold word; rewrite B_val; lia).
  rewrite (half1_eq a0 a1 4294967296 1 _ W0 (proj1 W1) Wk0 (proj1 Wk1)).
  destruct (euclid_half a0 a1 4294967296 1) as [[a2 k2]| | | |] eqn:E1; try reflexivity. cbn [obind]. cbv beta iota.
  destruct (half1_range _ _ _ _ _ _ W0 (proj1 W1) Wk0 (proj1 Wk1) E1) as [W2 K2].
  destruct (a2 <? 4294967296).
  - cbv zeta. change (chkdiv 4294967296) with (Val 4294967296 : outcome Z). cbn [obind].
    change (shr64 k2 32) with (khi k2). change (k2 mod 4294967296) with (klo k2).
    destruct (klo k2 <=? a2); cbn [obind]; [|reflexivity].
    rewrite (chk64_csub a1 a2 W1 (proj1 W2)).
    destruct (csub a1 a2) as [d| | | |]; try reflexivity. cbn [obind].
    destruct (khi k2 <=? d); reflexivity.
  - rewrite (half1_eq a1 a2 1 k2 _ W1 (proj1 W2) Wk1 (proj1 K2)).
    destruct (euclid_half a1 a2 1 k2) as [[a3 k3]| | | |] eqn:E2; try reflexivity. cbn [obind]. cbv beta iota.
    destruct (half1_range _ _ _ _ _ _ W1 (proj1 W2) Wk1 (proj1 K2) E2) as [W3 K3].
    change (a1, a2, a3, 4294967296, 1, k2, k3, true) with (ps_tuple (PS a1 a2 a3 4294967296 1 k2 k3, true)).
    assert (WS : wordS (PS a1 a2 a3 4294967296 1 k2 k3)) by (unfold wordS; cbn; auto 10).
    rewrite (wfb_prefix _ _) with (fuel := 64%nat); [| | | exact WS].
    + destruct (prefix_loop 64 (PS a1 a2 a3 4294967296 1 k2 k3) true) as [[s e]| | | |] eqn:EL; try reflexivity.
      cbn [omap obind fst snd].
      apply gen_select_eq. exact (prefix_loop_words _ _ _ _ _ WS EL).
    + intros [b1 b2 b3 c0 c1 c2 c3] e. reflexivity.
    + intros [b1 b2 b3 c0 c1 c2 c3] e (V1 & V2 & V3 & C0 & C1 & C2 & C3). cbn [pa1 pa2 pa3 pk0 pk1 pk2 pk3] in *.
      unfold ps_tuple. cbn [pa1 pa2 pa3 pk0 pk1 pk2 pk3]. cbv zeta.
      rewrite (gen_half_eq b1 b2 b3 c0 c1 c2 c3) by assumption.
      destruct (prefix_half (PS b1 b2 b3 c0 c1 c2 c3)) as [s1| | | |] eqn:H1; try reflexivity. cbn [obind].
      destruct (prefix_half_fields _ _ _ _ _ _ _ _ H1) as (F1 & F2 & F3 & F4 & F5).
      assert (Ws0 : wordS (PS b1 b2 b3 c0 c1 c2 c3)) by (unfold wordS; cbn; auto 10).
      pose proof (prefix_half_words _ _ Ws0 H1) as Ws1.
      destruct s1 as [d1 d2 d3 e0 e1 e2 e3]. cbn [pa1 pa2 pa3 pk0 pk1 pk2 pk3] in *. subst d1 d2 e0 e1 e2.
      change LIMIT with 4294967296.
      destruct (d3 <? 4294967296); [reflexivity|].
      destruct Ws1 as (X1 & X2 & X3 & Y0 & Y1 & Y2 & Y3). cbn [pa1 pa2 pa3 pk0 pk1 pk2 pk3] in *.
      rewrite (gen_half_eq b2 b3 d3 c1 c2 c3 e3) by assumption.
      destruct (prefix_half (PS b2 b3 d3 c1 c2 c3 e3)) as [s2| | | |] eqn:H2; try reflexivity. cbn [obind].
      destruct (prefix_half_fields _ _ _ _ _ _ _ _ H2) as (G1 & G2 & G3 & G4 & G5).
      destruct s2 as [f1 f2 f3 g0 g1 g2 g3]. cbn [pa1 pa2 pa3 pk0 pk1 pk2 pk3] in *. subst. reflexivity.
Qed.

Theorem g_mat_from_u128_prefix_eq r0 r1 : 0 <= r0 < BB -> 0 <= r1 ->
  g_mat_from_u128_prefix r0 r1 = omap mat_tuple (from_u128_prefix r0 r1).
Proof.
  intros H0 H1. unfold g_mat_from_u128_prefix, from_u128_prefix.
  rewrite (Z.ltb_antisym r1 r0). destruct (negb (r1 <=? r0)); [reflexivity|]. cbv zeta.
  change (Prim.clz128 r0) with (clz128 r0).
  assert (Hs : 0 <= clz128 r0).
  { unfold clz128. destruct (Z.eqb_spec r0 0); [lia|].
    assert (Z.log2 r0 < 128) by (apply Z.log2_lt_pow2; [lia|]; change (2 ^ 128) with BB; lia). lia. }
  unfold chksh. replace (0 <=? clz128 r0) with true by (symmetry; apply Z.leb_le; exact Hs). cbn [andb].
  destruct (Z.ltb_spec (clz128 r0) 128), (Z.leb_spec 128 (clz128 r0)); try lia; cbn [obind]; [|reflexivity].
  unfold shl128, shr128, wrap128, wrap. change (2 ^ 64) with B.
  pose proof B_pos as HB.
  rewrite g_mat_from_u64_prefix_eq by (unfold word; apply Z.mod_pos_bound; lia).
  destruct (from_u64_prefix _ _) as [q| | | |]; try reflexivity. cbn [obind omap].
  destruct (Prim.mat_eqb (mat_tuple q) (1, 0, 0, 1, true)); reflexivity.
Qed.

(* ---------------- Matrix::apply and Matrix::from on Uint ---------------- *)
From RV.Model Require Add Conv Shift Mul Bits.
From RV.Proofs Require Import PfGenAdd PfGenMul PfGenShift.
From RV.Proofs Require PfGcdUint PfModelsAgree PfShift PfConv PfBits.
From RV.Run Require RunC06.

Section ApplyFrom.
  Variable bits : Z.
  Hypothesis H0 : 0 <= bits.
  Hypothesis HB : nlimbs bits < B.
  Let HB' : nlimbs bits <= B. Proof. lia. Qed.

  Lemma g_wmul_umul a b : canon bits a -> canon bits b ->
    g_wrapping_mul bits (nlimbs bits) a b = umul bits a b.
  Proof.
    intros (La & Wa & _) (Lb & Wb & _).
    rewrite PfModelsAgree.agree_gcdmatrix_umul. exact (g_wrapping_mul_eq bits a b H0 HB' La Lb Wa Wb).
  Qed.

  Lemma gen_lin_eq {T} x a y b (K : list Z -> outcome T) :
    word x -> word y -> canon bits a -> canon bits b ->
    (do t1 <- Conv.from_of (Conv.try_from_u64 bits x) ; do t2 <- g_wrapping_mul bits (nlimbs bits) t1 a ;
     do t3 <- Conv.from_of (Conv.try_from_u64 bits y) ; do t4 <- g_wrapping_mul bits (nlimbs bits) t3 b ;
     do t5 <- g_wrapping_sub bits (nlimbs bits) t2 t4 ; K t5)
    = (do c <- lin bits x a y b ; K c).
  Proof.
    intros Wx Wy Ca Cb. unfold lin.
    change (Conv.from_of (Conv.try_from_u64 bits x)) with (uint_from_u64 bits x).
    change (Conv.from_of (Conv.try_from_u64 bits y)) with (uint_from_u64 bits y).
    destruct (Z.lt_ge_cases x (2 ^ bits)) as [Fx|Fx].
    2:{ rewrite (PfGcdUint.uint_from_u64_panic bits x H0 Wx Fx). reflexivity. }
    rewrite (PfGcdUint.uint_from_u64_ok bits x H0 Wx Fx). cbn [obind].
    destruct (PfGcdUint.canon_uint_of_val bits x H0 ltac:(unfold word in Wx; lia)) as [Cx _].
    rewrite (g_wmul_umul _ _ Cx Ca).
    destruct (PfGcdUint.umul_spec bits _ _ H0 Cx Ca) as (p & Ep & Cp & _). rewrite Ep. cbn [obind].
    destruct (Z.lt_ge_cases y (2 ^ bits)) as [Fy|Fy].
    2:{ rewrite (PfGcdUint.uint_from_u64_panic bits y H0 Wy Fy). reflexivity. }
    rewrite (PfGcdUint.uint_from_u64_ok bits y H0 Wy Fy). cbn [obind].
    destruct (PfGcdUint.canon_uint_of_val bits y H0 ltac:(unfold word in Wy; lia)) as [Cy _].
    rewrite (g_wmul_umul _ _ Cy Cb).
    destruct (PfGcdUint.umul_spec bits _ _ H0 Cy Cb) as (q & Eq & Cq & _). rewrite Eq. cbn [obind].
    destruct Cp as (Lp & _), Cq as (Lq & _).
    rewrite (g_wrapping_sub_eq bits p q H0 HB' Lp Lq). reflexivity.
  Qed.

  Definition words_mat (m : mat) : Prop := word (m0 m) /\ word (m1 m) /\ word (m2 m) /\ word (m3 m).

  Theorem g_mat_apply_eq m a b : words_mat m -> canon bits a -> canon bits b ->
    g_mat_apply bits (nlimbs bits) (mat_tuple m) a b = apply bits m a b.
  Proof.
    intros (W0 & W1 & W2 & W3) Ca Cb. unfold g_mat_apply, apply, mat_tuple, mat_0, mat_1, mat_2, mat_3, mat_4.
    destruct (bits =? 0); [reflexivity|].
    destruct (m4 m).
    - rewrite (gen_lin_eq (m0 m) a (m1 m) b) by assumption.
      destruct (lin bits (m0 m) a (m1 m) b) as [c| | | |]; try reflexivity. cbn [obind].
      rewrite (gen_lin_eq (m3 m) b (m2 m) a) by assumption.
      destruct (lin bits (m3 m) b (m2 m) a) as [d| | | |]; reflexivity.
    - rewrite (gen_lin_eq (m1 m) b (m0 m) a) by assumption.
      destruct (lin bits (m1 m) b (m0 m) a) as [c| | | |]; try reflexivity. cbn [obind].
      rewrite (gen_lin_eq (m2 m) a (m3 m) b) by assumption.
      destruct (lin bits (m2 m) a (m3 m) b) as [d| | | |]; reflexivity.
  Qed.
End ApplyFrom.

Lemma to_u64_cases bits a : 0 <= bits -> canon bits a ->
  to_u64 bits a = if eval a <? B then Val (eval a) else Panic.
Proof.
  intros H Ha. unfold to_u64. rewrite PfConv.try_to_int_spec by (auto; cbn; lia).
  unfold Conv.prim_max, u64p. cbn [Conv.psigned Conv.pw Conv.to_of obind]. rewrite <- B_pow.
  destruct (Z.leb_spec (eval a) (B - 1)), (Z.ltb_spec (eval a) B); try lia; reflexivity.
Qed.
Lemma to_u128_cases bits a : 0 <= bits -> canon bits a ->
  to_u128 bits a = if eval a <? BB then Val (eval a) else Panic.
Proof.
  intros H Ha. unfold to_u128. rewrite PfConv.try_to_128_spec by (auto; reflexivity).
  unfold Conv.prim_max, u128p. cbn [Conv.psigned Conv.pw Conv.to_of obind]. change (2 ^ 128) with BB.
  destruct (Z.leb_spec (eval a) (BB - 1)), (Z.ltb_spec (eval a) BB); try lia; reflexivity.
Qed.

Theorem g_mat_from_eq bits a b :
  0 <= bits -> bits + 7 < B -> 64 * nlimbs bits < B -> canon bits a -> canon bits b ->
  g_mat_from bits (nlimbs bits) a b = omap mat_tuple (from bits a b).
Proof.
  intros H0 HbB HB Ca Cb. pose proof (nlimbs_nonneg bits H0) as HL.
  pose proof (canon_range bits a H0 Ca) as Ra. pose proof (canon_range bits b H0 Cb) as Rb.
  pose proof Ca as (La & Wa & _). pose proof Cb as (Lb & Wb & _).
  unfold g_mat_from, from, g_cmp, Add.ult.
  destruct (Add.limbs_cmp a b); cbn [negb]; try reflexivity.
  all: destruct (g_lz_family_eq bits a H0 HbB HB La Wa) as (_ & _ & Ebl & _); rewrite Ebl;
       rewrite PfModelsAgree.agree_conv_bit_len, (PfBits.bit_len_spec bits a H0 Ca); cbn [obind];
       change (Conv.to_of (Conv.try_to_int bits {| Conv.pw := 64; Conv.psigned := false |} ?x)) with (to_u64 bits x);
       change (Conv.to_of (Conv.try_to_128 bits {| Conv.pw := 128; Conv.psigned := false |} ?x)) with (to_u128 bits x);
       pose proof (PfBits.bitlen_nonneg (eval a)) as Hs1; pose proof (PfBits.bitlen_le (eval a) bits Ra H0) as Hs2;
       set (s := RunC06.bitlen (eval a)) in *.
  all: destruct (s <=? 64).
  all: try (rewrite (to_u64_cases bits a H0 Ca), (to_u64_cases bits b H0 Cb);
            destruct (Z.ltb_spec (eval a) B); [|reflexivity]; cbn [obind];
            destruct (Z.ltb_spec (eval b) B); [|reflexivity]; cbn [obind];
            rewrite g_mat_from_u64_eq by (unfold word; lia);
            destruct (from_u64 (eval a) (eval b)); reflexivity).
  all: destruct (Z.leb_spec s 128).
  all: try (rewrite (to_u128_cases bits a H0 Ca), (to_u128_cases bits b H0 Cb);
            destruct (Z.ltb_spec (eval a) BB); [|reflexivity]; cbn [obind];
            destruct (Z.ltb_spec (eval b) BB); [|reflexivity]; cbn [obind];
            rewrite g_mat_from_u128_prefix_eq by lia;
            destruct (from_u128_prefix (eval a) (eval b)); reflexivity).
  all: rewrite chk64_ok by lia; cbn [obind];
       destruct (g_shift_wrappers_eq bits a (s - 128) H0 ltac:(lia) La ltac:(lia)) as (_ & _ & _ & _ & Ea);
       destruct (g_shift_wrappers_eq bits b (s - 128) H0 ltac:(lia) Lb ltac:(lia)) as (_ & _ & _ & _ & Eb);
       rewrite Ea, Eb; cbn [obind];
       destruct (PfShift.wrapping_shr_spec bits a (s - 128) H0 Ca ltac:(lia)) as [Ca' _];
       destruct (PfShift.wrapping_shr_spec bits b (s - 128) H0 Cb ltac:(lia)) as [Cb' _];
       pose proof (canon_range bits _ H0 Ca') as Ra'; pose proof (canon_range bits _ H0 Cb') as Rb';
       rewrite (to_u128_cases bits _ H0 Ca'), (to_u128_cases bits _ H0 Cb');
       destruct (Z.ltb_spec (eval (Shift.wrapping_shr bits a (s - 128))) BB); [|reflexivity]; cbn [obind];
       destruct (Z.ltb_spec (eval (Shift.wrapping_shr bits b (s - 128))) BB); [|reflexivity]; cbn [obind];
       rewrite g_mat_from_u128_prefix_eq by lia;
       destruct (from_u128_prefix _ _); reflexivity.
Qed.
